(** * Rect — the render contract (formal content of C01, hypothesis of C05/C06)

    [Rect w h R]: from any clean terminal state whose cursor is at the left margin,
    executing [R] touches only the [h x w] rectangle anchored at the cursor, covers every
    cell of it, leaves the cursor on the rectangle's last row at the logical column just
    past it, resets the text attributes, leaves the protocol state clean and cursor
    visibility / synchronized-update mode alone; [R] has exactly [h - 1] line feeds, does
    not end with one, and at every line feed the cursor is at the end column with default
    attributes (so that padding written around a line is blank). *)
From Coq Require Import List ZArith Bool Lia.
Import ListNotations.
From TI Require Import lib.Term lib.TermFacts.
Open Scope Z_scope.

(** at every LF the cursor is at logical column [lm + w] with default attributes, ground
    state *)
Fixpoint lf_ok (lm w : Z) (t : term) (ts : list tok) : Prop :=
  match ts with
  | [] => True
  | x :: rest =>
    (match x with
     | TLF => col t = lm + w /\ sgr t = adefault /\ parser t = Ground
     | _ => True
     end) /\ lf_ok lm w (step lm t x) rest
  end.

Lemma lf_ok_app lm w : forall a b t,
  lf_ok lm w t (a ++ b) <-> lf_ok lm w t a /\ lf_ok lm w (exec lm t a) b.
Proof.
  induction a as [|x a IH]; intros b t; cbn [lf_ok app].
  - rewrite exec_nil. tauto.
  - rewrite exec_cons, IH. tauto.
Qed.

Lemma lf_ok_nolf lm w : forall ts t, count_lf ts = 0%nat -> lf_ok lm w t ts.
Proof.
  induction ts as [|x ts IH]; intros t H; cbn [lf_ok]; [exact I|].
  unfold count_lf in *. cbn [filter] in H. destruct x; cbn [is_lf] in H; cbn [length] in H;
    try discriminate; split; try exact I; apply IH; exact H.
Qed.

Lemma count_lf_app a b : count_lf (a ++ b) = (count_lf a + count_lf b)%nat.
Proof. unfold count_lf. rewrite filter_app, app_length. reflexivity. Qed.

(** [need i j]: the cell at line [i], column [j] of the rectangle must be covered
    (everything for a render; for a padding with an empty fill only the inner render) *)
Record RectAt (need : Z -> Z -> bool) (lm : Z) (t t' : term) (w h : Z) : Prop := {
  ra_log : exists evs,
      log t' = log t ++ evs
      /\ forallb (ev_inside (row t) lm h w) evs = true
      /\ (forall r c, row t <= r < row t + h -> lm <= c < lm + w ->
          need (r - row t) (c - lm) = true -> covered evs r c = true);
  ra_row : row t' = row t + h - 1;
  ra_col : col t' = lm + w;
  ra_sgr : sgr t' = adefault;
  ra_parser : parser t' = Ground;
  ra_pending : pending t' = None;
  ra_visible : visible t' = visible t;
  ra_synced : synced t' = synced t
}.

Definition RectG (need : Z -> Z -> bool) (w h : Z) (R : list tok) : Prop :=
  0 < w /\ 0 < h
  /\ (forall lm t, clean t -> col t = lm -> sgr t = adefault ->
        RectAt need lm t (exec lm t R) w h)
  /\ (forall lm t, clean t -> col t = lm -> sgr t = adefault -> lf_ok lm w t R)
  /\ count_lf R = Z.to_nat (h - 1)
  /\ last R TNul <> TLF.

Definition all_cells (_ _ : Z) : bool := true.
Definition Rect := RectG all_cells.

(** ** A rectangle that fits on the screen is drawn without wrapping, scrolling or
       leaving the screen *)
Lemma ev_inside_mono r0 c0 h w r1 c1 h1 w1 e :
  r1 <= r0 -> r0 + h <= r1 + h1 -> c1 <= c0 -> c0 + w <= c1 + w1 ->
  ev_inside r0 c0 h w e = true -> ev_inside r1 c1 h1 w1 e = true.
Proof.
  intros. destruct e; cbn in *; try discriminate;
    repeat (rewrite ?andb_true_iff, ?Z.leb_le, ?Z.ltb_lt in * ); lia.
Qed.

Theorem rect_fits need W H top lm t w h R :
  RectG need w h R -> clean t -> col t = lm -> sgr t = adefault ->
  0 <= lm -> lm + w <= W -> top <= row t -> row t + h <= top + H ->
  exists evs, log (exec lm t R) = log t ++ evs /\ fits_noscroll W H top evs = true.
Proof.
  intros (Hw & Hh & HR & _) Hc Hcol Hs Hlm HW Htop HH.
  destruct (ra_log _ _ _ _ _ _ (HR lm t Hc Hcol Hs)) as (evs & El & Hin & _).
  exists evs. split; [exact El|]. unfold fits_noscroll.
  rewrite forallb_forall in *. intros e He.
  eapply ev_inside_mono; [| | | |apply Hin, He]; lia.
Qed.

(** ** What the screen shows: the view of cells written left to right *)
Fixpoint cell_evs (r c : Z) (cells : list (glyph * attrs)) : list ev :=
  match cells with
  | [] => []
  | (g, a) :: rest => EText r c g a :: cell_evs r (c + 1) rest
  end.

Lemma view_from_app acc l1 l2 r c :
  view_from acc (l1 ++ l2) r c = view_from (view_from acc l1 r c) l2 r c.
Proof.
  revert acc; induction l1 as [|e l1 IH]; intros acc; [reflexivity|].
  destruct e; cbn [app view_from]; apply IH.
Qed.

Lemma view_from_cells r c cells : forall c0 acc,
  view_from acc (cell_evs r c0 cells) r c =
  if (c0 <=? c) && (c <? c0 + Z.of_nat (length cells))
  then match nth_error cells (Z.to_nat (c - c0)) with
       | Some (g, a) => VGlyph g a
       | None => acc
       end
  else acc.
Proof.
  induction cells as [|[g a] cells IH]; intros c0 acc.
  - cbn. destruct (c0 <=? c) eqn:E1; destruct (c <? c0 + 0) eqn:E2; try reflexivity.
    apply Z.leb_le in E1; apply Z.ltb_lt in E2; lia.
  - cbn [cell_evs view_from length]. rewrite Z.eqb_refl. cbn [andb].
    rewrite IH.
    destruct (c0 =? c) eqn:E0.
    + apply Z.eqb_eq in E0; subst c0.
      replace (c + 1 <=? c) with false by (symmetry; apply Z.leb_gt; lia). cbn [andb].
      rewrite Z.leb_refl. replace (c <? c + Z.of_nat (S (length cells))) with true
        by (symmetry; apply Z.ltb_lt; lia).
      cbn [andb]. replace (c - c) with 0 by lia. reflexivity.
    + apply Z.eqb_neq in E0.
      destruct (c0 <=? c) eqn:E1; destruct (c <? c0 + Z.of_nat (S (length cells))) eqn:E2;
        cbn [andb];
        [apply Z.leb_le in E1; apply Z.ltb_lt in E2
        |apply Z.leb_le in E1; apply Z.ltb_ge in E2
        |apply Z.leb_gt in E1|apply Z.leb_gt in E1].
      * replace (c0 + 1 <=? c) with true by (symmetry; apply Z.leb_le; lia).
        replace (c <? c0 + 1 + Z.of_nat (length cells)) with true
          by (symmetry; apply Z.ltb_lt; lia).
        cbn [andb]. replace (Z.to_nat (c - c0)) with (S (Z.to_nat (c - (c0 + 1)))) by lia.
        reflexivity.
      * replace (c <? c0 + 1 + Z.of_nat (length cells)) with false
          by (symmetry; apply Z.ltb_ge; lia).
        rewrite andb_false_r. reflexivity.
      * replace (c0 + 1 <=? c) with false by (symmetry; apply Z.leb_gt; lia). reflexivity.
      * replace (c0 + 1 <=? c) with false by (symmetry; apply Z.leb_gt; lia). reflexivity.
Qed.

Lemma view_from_cells_other_row r r' c cells : forall c0 acc,
  r' <> r -> view_from acc (cell_evs r' c0 cells) r c = acc.
Proof.
  induction cells as [|[g a] cells IH]; intros c0 acc Hne; [reflexivity|].
  cbn [cell_evs view_from]. replace (r' =? r) with false by (symmetry; apply Z.eqb_neq; exact Hne).
  cbn [andb]. apply IH, Hne.
Qed.

Lemma cell_evs_app r c l1 l2 :
  cell_evs r c (l1 ++ l2) = cell_evs r c l1 ++ cell_evs r (c + Z.of_nat (length l1)) l2.
Proof.
  revert c; induction l1 as [|[g a] l1 IH]; intros c; cbn [cell_evs app length].
  - f_equal; lia.
  - rewrite IH. do 3 f_equal. lia.
Qed.

Lemma text_evs_cells r c g a n : text_evs r c g a n = cell_evs r c (repeat (g, a) n).
Proof. revert c; induction n as [|n IH]; intros c; cbn; [reflexivity|]. rewrite IH. reflexivity. Qed.

(** events of a grid of cell rows drawn from (r, c), a line feed between rows *)
Fixpoint grid_evs (r c : Z) (rows : list (list (glyph * attrs))) : list ev :=
  match rows with
  | [] => []
  | [cells] => cell_evs r c cells
  | cells :: rest => cell_evs r c cells ++ EMove (r + 1) c :: grid_evs (r + 1) c rest
  end.

Lemma grid_evs_cons2 r c cells c2 rest :
  grid_evs r c (cells :: c2 :: rest) =
  cell_evs r c cells ++ EMove (r + 1) c :: grid_evs (r + 1) c (c2 :: rest).
Proof. reflexivity. Qed.

(** a view that changed implies the cell is covered *)
Lemma view_or_covered evs r c : forall acc,
  view_from acc evs r c = acc \/ covered evs r c = true.
Proof.
  induction evs as [|e evs IH]; intros acc; [left; reflexivity|].
  unfold covered in *. cbn [existsb].
  destruct e; cbn [view_from ev_covers]; try (rewrite orb_false_l; apply IH).
  - destruct ((r0 =? r) && (c0 =? c)); cbn [orb]; [right; reflexivity|apply IH].
  - destruct ((r0 =? r) && (c0 =? c)); cbn [orb]; [right; reflexivity|apply IH].
  - destruct (IH acc) as [H|H]; [left; exact H|right; rewrite H; apply orb_true_r].
Qed.

Lemma cells_inside r c w cells : forall c0,
  c <= c0 -> c0 + Z.of_nat (length cells) <= c + w ->
  forallb (ev_inside r c 1 w) (cell_evs r c0 cells) = true.
Proof.
  induction cells as [|[g a] cells IH]; intros c0 H1 H2; [reflexivity|].
  cbn [cell_evs forallb ev_inside length] in *. rewrite IH by lia.
  rewrite andb_true_r, !andb_true_iff, !Z.leb_le, !Z.ltb_lt. lia.
Qed.

Lemma forallb_inside_mono r0 c0 h w r1 c1 h1 w1 evs :
  r1 <= r0 -> r0 + h <= r1 + h1 -> c1 <= c0 -> c0 + w <= c1 + w1 ->
  forallb (ev_inside r0 c0 h w) evs = true -> forallb (ev_inside r1 c1 h1 w1) evs = true.
Proof.
  intros. rewrite forallb_forall in *. intros e He.
  eapply ev_inside_mono; [| | | |apply H3, He]; lia.
Qed.

Lemma grid_inside c w : forall rows r,
  0 < w -> (forall cells, In cells rows -> Z.of_nat (length cells) = w) ->
  forallb (ev_inside r c (Z.of_nat (length rows)) w) (grid_evs r c rows) = true.
Proof.
  induction rows as [|cells rest IH]; intros r Hw Hlen; [reflexivity|].
  assert (Hc : forallb (ev_inside r c (Z.of_nat (length (cells :: rest))) w) (cell_evs r c cells) = true).
  { eapply forallb_inside_mono; [| | | |apply (cells_inside r c w cells c)];
      try lia; [cbn [length]; lia|rewrite (Hlen cells (or_introl eq_refl)); lia]. }
  destruct rest as [|c2 rest'].
  - exact Hc.
  - rewrite grid_evs_cons2, forallb_app, Hc. cbn [andb forallb].
    apply andb_true_iff. split.
    + cbn [ev_inside length]. rewrite !andb_true_iff, !Z.leb_le, !Z.ltb_lt. lia.
    + eapply forallb_inside_mono; [| | | |apply IH]; try lia.
      * cbn [length]. lia.
      * intros x Hx. apply Hlen. right. exact Hx.
Qed.

Lemma grid_view_above c rows : forall r r' cc acc,
  r' < r -> view_from acc (grid_evs r c rows) r' cc = acc.
Proof.
  induction rows as [|cells rest IH]; intros r r' cc acc Hlt; [reflexivity|].
  destruct rest as [|c2 rest'].
  - cbn [grid_evs]. apply view_from_cells_other_row. lia.
  - rewrite grid_evs_cons2, view_from_app. cbn [view_from].
    rewrite view_from_cells_other_row by lia. apply IH. lia.
Qed.

Lemma grid_view c w : forall rows r i j acc,
  (forall cells, In cells rows -> Z.of_nat (length cells) = w) ->
  (i < length rows)%nat -> 0 <= j < w ->
  exists cells g a,
    nth_error rows i = Some cells /\ nth_error cells (Z.to_nat j) = Some (g, a)
    /\ view_from acc (grid_evs r c rows) (r + Z.of_nat i) (c + j) = VGlyph g a.
Proof.
  induction rows as [|cells rest IH]; intros r i j acc Hlen Hi Hj; [cbn in Hi; lia|].
  assert (Hl := Hlen cells (or_introl eq_refl)).
  destruct i as [|i].
  - (* the first row *)
    assert (Hn : exists g a, nth_error cells (Z.to_nat j) = Some (g, a)).
    { destruct (nth_error cells (Z.to_nat j)) as [[g a]|] eqn:E; [eauto|].
      apply nth_error_None in E. lia. }
    destruct Hn as (g & a & Hn). exists cells, g, a. split; [reflexivity|]. split; [exact Hn|].
    replace (r + Z.of_nat 0) with r by lia.
    assert (V : view_from acc (cell_evs r c cells) r (c + j) = VGlyph g a).
    { rewrite view_from_cells. replace (c <=? c + j) with true by (symmetry; apply Z.leb_le; lia).
      replace (c + j <? c + Z.of_nat (length cells)) with true by (symmetry; apply Z.ltb_lt; lia).
      cbn [andb]. replace (c + j - c) with j by lia. rewrite Hn. reflexivity. }
    destruct rest as [|c2 rest'].
    + exact V.
    + rewrite grid_evs_cons2, view_from_app, V. cbn [view_from]. apply grid_view_above. lia.
  - destruct rest as [|c2 rest']; [cbn in Hi; lia|].
    destruct (IH (r + 1) i j (view_from acc (cell_evs r c cells) (r + 1 + Z.of_nat i) (c + j)))
      as (cells' & g & a & N1 & N2 & V).
    { intros x Hx. apply Hlen. right. exact Hx. }
    { cbn [length] in *. lia. }
    { exact Hj. }
    exists cells', g, a. split; [exact N1|]. split; [exact N2|].
    rewrite grid_evs_cons2, view_from_app. cbn [view_from].
    replace (r + Z.of_nat (S i)) with (r + 1 + Z.of_nat i) by lia. exact V.
Qed.
