(** * Sched — threads, schedules, re-entrant locks (DESIGN 3.5; serves C14, C15)

    A concurrent system is a global state [G] (which contains the per-thread states,
    typically as a function [nat -> thread_state]) and ONE small-step function
    [step : G -> nat -> option G]: "thread [t] performs its next micro-step";
    [None] = the thread cannot move now (blocked on a lock, or finished).
    A schedule is a [list nat] of thread identifiers; a step that is not enabled is
    skipped (the scheduler picked a blocked thread).  Reachability is the reflexive
    transitive closure of the enabled steps over ALL thread identifiers, so an
    invariant proved by [reachable_ind_inv] holds for any number of threads and any
    interleaving.

    Lock objects are the (owner, count) pairs of [threading.RLock] /
    [multiprocessing.RLock]: acquiring is possible when the lock is free or already
    owned by the caller (re-entrant); releasing decrements and frees at zero. *)
From Coq Require Import List Arith Bool Lia.
Import ListNotations.

Definition upd {A} (f : nat -> A) (i : nat) (x : A) : nat -> A :=
  fun j => if Nat.eqb j i then x else f j.

Lemma upd_same {A} (f : nat -> A) i x : upd f i x i = x.
Proof. unfold upd. now rewrite Nat.eqb_refl. Qed.
Lemma upd_other {A} (f : nat -> A) i j x : j <> i -> upd f i x j = f j.
Proof. unfold upd. intro H. destruct (Nat.eqb_spec j i); congruence. Qed.

(** ** Re-entrant locks *)
Record lock := { owner : option nat; count : nat }.

Definition free_lock : lock := {| owner := None; count := 0 |}.

Definition can_acquire (l : lock) (t : nat) : bool :=
  match owner l with
  | None => true
  | Some o => Nat.eqb o t
  end.

Definition acquire (l : lock) (t : nat) : lock :=
  {| owner := Some t; count := S (count l) |}.

(** only meaningful when [owner l = Some t] (an RLock raises otherwise) *)
Definition release (l : lock) : lock :=
  match count l with
  | 0 | 1 => free_lock
  | S n => {| owner := owner l; count := n |}
  end.

Definition owned_by (l : lock) (t : nat) : bool :=
  match owner l with Some o => Nat.eqb o t | None => false end.

(** a well-formed lock: free with count 0, or owned with a positive count *)
Definition lock_wf (l : lock) : Prop :=
  match owner l with None => count l = 0 | Some _ => 0 < count l end.

Lemma free_lock_wf : lock_wf free_lock.
Proof. reflexivity. Qed.

Lemma acquire_wf l t : lock_wf (acquire l t).
Proof. unfold lock_wf, acquire; simpl. lia. Qed.

Lemma release_wf l : lock_wf l -> lock_wf (release l).
Proof.
  unfold lock_wf, release. destruct (count l) as [|[|n]]; simpl; auto.
  destruct (owner l); lia.
Qed.

Lemma acquire_owner l t : owner (acquire l t) = Some t.
Proof. reflexivity. Qed.

Lemma can_acquire_owned l t : owned_by l t = true -> can_acquire l t = true.
Proof. unfold owned_by, can_acquire. destruct (owner l); auto; discriminate. Qed.

Lemma can_acquire_other l t o :
  owner l = Some o -> o <> t -> can_acquire l t = false.
Proof. unfold can_acquire. intros -> H. now apply Nat.eqb_neq. Qed.

Lemma can_acquire_cases l t :
  can_acquire l t = true -> owner l = None \/ owner l = Some t.
Proof.
  unfold can_acquire. destruct (owner l) as [o|]; auto.
  intro H. apply Nat.eqb_eq in H. subst; auto.
Qed.

Lemma owned_by_eq l t : owned_by l t = true <-> owner l = Some t.
Proof.
  unfold owned_by. destruct (owner l) as [o|]; split; try discriminate.
  - intro H. apply Nat.eqb_eq in H. now subst.
  - intro H. inversion H. apply Nat.eqb_refl.
Qed.

Lemma release_owner l t :
  owner l = Some t -> owner (release l) = None \/ owner (release l) = Some t.
Proof.
  unfold release. destruct (count l) as [|[|n]]; simpl; auto.
Qed.

Lemma release_owner_count l t :
  owner l = Some t -> 2 <= count l ->
  owner (release l) = Some t /\ count (release l) = count l - 1.
Proof.
  unfold release. destruct (count l) as [|[|n]]; simpl; try lia. intros; split; auto; lia.
Qed.

Lemma release_last l : count l <= 1 -> release l = free_lock.
Proof. unfold release. destruct (count l) as [|[|n]]; auto; lia. Qed.

(** ** Systems, schedules, reachability *)
Section System.
  Variable G : Type.
  Variable step : G -> nat -> option G.

  (** run a schedule; a pick of a blocked / finished thread is a no-op *)
  Fixpoint run_sched (s : G) (sch : list nat) : G :=
    match sch with
    | [] => s
    | t :: r => match step s t with
                | Some s' => run_sched s' r
                | None => run_sched s r
                end
    end.

  Inductive reachable (s0 : G) : G -> Prop :=
  | reach_refl : reachable s0 s0
  | reach_step : forall s t s', reachable s0 s -> step s t = Some s' -> reachable s0 s'.

  Lemma reachable_trans s0 s1 s2 :
    reachable s0 s1 -> reachable s1 s2 -> reachable s0 s2.
  Proof. intros H01 H12. induction H12; auto. eapply reach_step; eauto. Qed.

  Lemma run_sched_reachable s0 sch : reachable s0 (run_sched s0 sch).
  Proof.
    assert (H : forall s, reachable s0 s -> reachable s0 (run_sched s sch)).
    { induction sch as [|t r IH]; intros s Hs; simpl; auto.
      destruct (step s t) eqn:E; auto. apply IH. eapply reach_step; eauto. }
    apply H. constructor.
  Qed.

  (** every reachable state is the result of some schedule *)
  Lemma reachable_run_sched s0 s : reachable s0 s -> exists sch, s = run_sched s0 sch.
  Proof.
    induction 1 as [|s t s' _ [sch ->] Hst].
    - exists []. reflexivity.
    - exists (sch ++ [t]).
      assert (H : forall a x, run_sched x (a ++ [t]) =
                              match step (run_sched x a) t with
                              | Some y => y | None => run_sched x a end).
      { induction a as [|u a IH]; intros x; simpl.
        - destruct (step x t); reflexivity.
        - destruct (step x u); apply IH. }
      rewrite H, Hst. reflexivity.
  Qed.

  (** the induction principle used for all invariants *)
  Lemma reachable_ind_inv (I : G -> Prop) s0 :
    I s0 ->
    (forall s t s', I s -> step s t = Some s' -> I s') ->
    forall s, reachable s0 s -> I s.
  Proof. intros H0 Hs s Hr. induction Hr; eauto. Qed.
End System.

Arguments run_sched {G} step s sch.
Arguments reachable {G} step s0 _.
