(** Proofs for the dimension "how the active terminal was found" of C14
    ([model/LockImport.v], [model/LocksFound.v], [model/LocksFoundTie.v]). *)
From Coq Require Import List Arith Bool.
Import ListNotations.
From TI Require Import lib.Sched model.Locks model.LocksSpec model.LockSites model.LocksCfg
  model.LocksTie model.LockImport model.LocksFound model.LocksFoundTie
  proofs.LocksProofs proofs.LocksTieProofs proofs.LocksCfgProofs.

(** ** 1. The search for the terminal *)
Lemma first_true_none l : forall k, first_true l k = None <-> existsb (fun b => b) l = false.
Proof.
  induction l as [|b r IH]; intro k; cbn; [tauto|].
  destruct b; cbn; [split; discriminate|]. apply IH.
Qed.

(** a terminal is found iff a standard stream is one or there is a controlling terminal *)
Lemma find_terminal_found e :
  found_tty (find_terminal e) = existsb (fun b => b) (e_streams e) || e_ctty e.
Proof.
  unfold find_terminal. destruct (first_true (e_streams e) 0) eqn:E.
  - destruct (existsb (fun b => b) (e_streams e)) eqn:X; [reflexivity|].
    apply (first_true_none _ 0) in X. congruence.
  - apply first_true_none in E. rewrite E. destruct (e_ctty e); reflexivity.
Qed.

(** the hooks are installed exactly when a terminal was found, by whatever route *)
Lemma code_installs_iff_found f : inst_code f = true <-> found_tty f = true.
Proof. unfold inst_code. tauto. Qed.

(** ** 2. With the hooks, the system is the one of [model/LocksCfg.v] *)
Lemma nextF_hooks pol sg c q r x : nextF true pol sg c q r x = nextQ pol sg c q r x.
Proof. unfold nextF. destruct (t_pc x); reflexivity. Qed.

Lemma stepF_hooks pol qc s i : stepF true pol qc s i = stepI pol qc s i.
Proof. unfold stepF, stepI. destruct i; [|reflexivity]. now rewrite nextF_hooks. Qed.

Lemma reachable_F_I pol qc s0 s :
  reachable_items (stepF true pol qc) s0 s -> reachable_items (stepI pol qc) s0 s.
Proof.
  induction 1 as [|s i s' R IH E]; [constructor|].
  apply ri_step with (s := s) (i := i); [exact IH|]. rewrite <- stepF_hooks. exact E.
Qed.

Lemma found_reachable_cfg fc s0 s :
  found_tty (f_found fc) = true ->
  reachable_items (stepFound inst_code fc) s0 s -> reachable_items (stepI pol_code (f_q fc)) s0 s.
Proof.
  unfold stepFound, inst_code. intros F R. rewrite F in R. now apply reachable_F_I.
Qed.

(** ** 3. The cross-process theorems, for every configuration in which a terminal was found *)
Lemma found_mutex_lemma fc :
  found_tty (f_found fc) = true -> single (q_base (f_q fc)) = false ->
  forall prog q0 s t1 t2,
    reachable_items (stepFound inst_code fc) (initQ prog q0) s ->
    in_body (qs s) t1 -> in_body (qs s) t2 -> t1 = t2.
Proof.
  intros F SG prog q0 s t1 t2 R. apply (code_mutex_lemma (f_q fc) SG prog q0).
  now apply found_reachable_cfg.
Qed.

Lemma found_trace_accepted_lemma fc :
  found_tty (f_found fc) = true -> single (q_base (f_q fc)) = false ->
  forall prog q0 s,
    reachable_items (stepFound inst_code fc) (initQ prog q0) s -> accepts (rev (log (qs s))) = true.
Proof.
  intros F SG prog q0 s R. apply (code_trace_accepted_lemma (f_q fc) SG prog q0).
  now apply found_reachable_cfg.
Qed.

Lemma found_queries_lemma fc :
  found_tty (f_found fc) = true -> single (q_base (f_q fc)) = false ->
  forall prog q0 s t n,
    reachable_items (stepFound inst_code fc) (initQ prog q0) s -> t_pc (th (qs s) t) = PWait n ->
    (reqs (qs s) = [(t, n)] /\ reps (qs s) = []) \/ (reqs (qs s) = [] /\ reps (qs s) = [(t, n)]).
Proof.
  intros F SG prog q0 s t n R. apply (code_queries_lemma (f_q fc) SG prog q0).
  now apply found_reachable_cfg.
Qed.

Lemma found_children_on_shared_lock fc :
  found_tty (f_found fc) = true -> single (q_base (f_q fc)) = false ->
  forall prog q0 s,
    reachable_items (stepFound inst_code fc) (initQ prog q0) s ->
    (forall p, lkC s p = free_lock) /\ (forall p, p <> 0 -> cur (qs s) p = LM).
Proof.
  intros F SG prog q0 s R.
  apply (cfg_children_on_shared_lock pol_code (f_q fc) prog q0 s pol_code_shares SG).
  now apply found_reachable_cfg.
Qed.

(** ** 4. Without the hooks [Process.start()] is the original one: one thread-local
    micro-step to the original start, no lock operation, no event, nothing handed over *)
Lemma nohooks_start_is_original pol sg c q r x ch :
  t_pc x = SRead ch ->
  nextF false pol sg c q r x = Some (ANone, with_pc x (SStart ch LT), []).
Proof. intro E. unfold nextF. now rewrite E. Qed.

(** no terminal found: the code installs no hook *)
Lemma none_found_no_hooks : inst_code FNone = false.
Proof. reflexivity. Qed.

(** a thread that is not executing the start wrapper does not get into it by a micro-step
    of the system without hooks *)
Lemma nextF_nohooks_wrapper_free pol sg c q r x a x' ev :
  wrapper_free (t_pc x) = true ->
  nextF false pol sg c q r x = Some (a, x', ev) ->
  wrapper_free (t_pc x') = true
  /\ match a with ASwap => False | AStart _ LM => False | _ => True end.
Proof.
  unfold nextF, nextQ, next. intros W E.
  destruct (t_pc x) eqn:P; cbn in W; try discriminate;
    repeat match type of E with
           | context [match ?y with _ => _ end] => destruct y eqn:?
           end;
    try discriminate; inversion E; subst; cbn; try rewrite P; auto.
  destruct h; [auto|discriminate].
Qed.

(** ** 5. Installing the hooks only when the terminal was found through a standard stream
    is refuted: the terminal is found through the fallback, the parent starts a child, parent
    and child are both inside a synchronized body *)
Definition found_refuting_sched : list sitem :=
  repeat (SMove 1) 3 ++ repeat (SMove 1) 5 ++ repeat (SMove 10) 5.

Lemma hooks_only_for_std_stream_refuted_lemma :
  exists fc prog q0 sch t1 t2,
    found_tty (f_found fc) = true /\ single (q_base (f_q fc)) = false /\ t1 <> t2 /\
    let s := run_items (stepFound inst_stream_only fc) (initQ prog q0) sch in
    in_body (qs s) t1 /\ in_body (qs s) t2.
Proof.
  exists {| f_q := scn_qc false; f_found := FDevTty |}, scn_prog, conf_default, found_refuting_sched, 1, 10.
  split; [reflexivity|]. split; [reflexivity|]. split; [discriminate|].
  split; apply in_bodyb_spec; vm_compute; reflexivity.
Qed.

(** the same environment under the code's installation: the child waits for the parent *)
Example found_devtty_child_waits :
  let fc := {| f_q := scn_qc false; f_found := FDevTty |} in
  let s := run_items (stepFound inst_code fc) (initQ scn_prog conf_default)
                     (repeat (SMove 1) 7 ++ repeat (SMove 1) 5 ++ repeat (SMove 10) 5) in
  reachable_items (stepFound inst_code fc) (initQ scn_prog conf_default) s
  /\ in_bodyb (qs s) 1 = true /\ in_bodyb (qs s) 10 = false
  /\ t_pc (th (qs s) 10) = PAcq1 LM /\ stepFound inst_code fc s (SMove 10) = None
  /\ cur (qs s) 0 = LM /\ cur (qs s) 10 = LM.
Proof.
  split; [apply run_items_reachable|]. vm_compute. repeat split; reflexivity.
Qed.

(** no terminal found: the start is the original one, the lock is never swapped, the child
    is on its own thread lock *)
Example found_none_no_lock_traffic :
  let fc := {| f_q := scn_qc false; f_found := FNone |} in
  let s := run_items (stepFound inst_code fc) (initQ scn_prog conf_default) (repeat (SMove 1) 3) in
  started (qs s) 10 = true /\ cur (qs s) 0 = LT /\ cur (qs s) 10 = LT
  /\ map snd (log (qs s)) = [EStart 10 LT] /\ lkT (qs s) = free_lock /\ lkM (qs s) = free_lock.
Proof. vm_compute. repeat split; reflexivity. Qed.

(** ** 6. The comparison of the correspondence *)

(** the scenario's trace in the model: the parent's body, then the child's — for every route
    by which a terminal was found and both start methods *)
Lemma scn_trace_found f fork :
  found_tty f = true ->
  scn_trace inst_code f fork = [(1, [3]); (1, [4]); (10, [3]); (10, [4])].
Proof. destruct f, fork; intro H; try discriminate H; vm_compute; reflexivity. Qed.

Lemma scn_trace_accepted f fork : obs_ok (scn_trace inst_code f fork) = true.
Proof.
  destruct (found_tty f) eqn:F.
  - rewrite scn_trace_found by exact F. vm_compute. reflexivity.
  - unfold scn_trace. rewrite F. reflexivity.
Qed.

Lemma checkF_codes c : checkF c = 0 \/ checkF c = 1 \/ checkF c = 3.
Proof.
  unfold checkF.
  destruct (row_agrees c); cbn [andb]; [|destruct (obs_ok (fc_obs c)); auto].
  destruct (tr_eqb (fc_obs c) (scn_trace inst_code (find_terminal (fc_env c)) (fc_fork c))) eqn:E.
  - apply tr_eqb_eq in E. rewrite E, scn_trace_accepted. auto.
  - destruct (obs_ok (fc_obs c)); auto.
Qed.

(** the scenario does exercise the race: in the refuted variant its trace is rejected when
    the terminal is found through the fallback, and only then *)
Example variantF_codes :
  let mk st ct := {| fc_env := {| e_streams := st; e_ctty := ct |}; fc_fork := false; fc_tty := true;
                     fc_start := true; fc_run := true; fc_obs := [] |} in
  variantF (mk [false; false; false] true) = 4 /\ variantF (mk [false; true; false] true) = 0
  /\ variantF (mk [false; false; false] false) = 0
  /\ scn_trace inst_stream_only FDevTty false = [(1, [3]); (10, [3]); (10, [4]); (1, [4])].
Proof. vm_compute. repeat split; reflexivity. Qed.

(** ** 7. No hooks, over ALL schedules: nothing is ever handed over *)

Definition handed_nothing (s : qstate) : Prop :=
  (forall t, wrapper_free (t_pc (th (qs s) t)) = true)
  /\ (forall p, started (qs s) p = true -> cur (qs s) p = LT).

Lemma applyQ_nohooks_frame qc s t a s1 :
  applyQ qc s t a = Some s1 ->
  match a with ASwap => False | AStart _ LM => False | _ => True end ->
  (forall p, started (qs s) p = true -> cur (qs s) p = LT) ->
  th (qs s1) = th (qs s) /\ (forall p, started (qs s1) p = true -> cur (qs s1) p = LT).
Proof.
  unfold applyQ, apply. intros E A K.
  destruct a; try contradiction;
    repeat match type of E with
           | context [if ?b then _ else _] => destruct b eqn:?
           | context [match ?y with _ => _ end] => destruct y eqn:?
           end;
    cbn in E; try discriminate; try contradiction; inversion E; subst; cbn; split; auto.
  all: intros p; unfold upd; destruct (Nat.eqb p c); auto.
  all: destruct h; [reflexivity|contradiction].
Qed.

Lemma stepF_nohooks_inv pol qc s i s' :
  stepF false pol qc s i = Some s' -> handed_nothing s -> handed_nothing s'.
Proof.
  unfold stepF. intros E [W K]. destruct i as [t|p f b].
  - destruct (Nat.eqb t (term_tid (q_base qc))) eqn:T.
    + unfold step in E. rewrite T in E.
      destruct (reqs (qs s)); cbn in E; [discriminate|]. inversion E; subst. split; assumption.
    + destruct (negb (started (qs s) (proc (q_base qc) t))); [discriminate|].
      destruct (nextF false pol (single (q_base qc)) (cur (qs s) (proc (q_base qc) t))
                      (conf s (proc (q_base qc) t)) (hd_error (reps (qs s))) (th (qs s) t))
        as [[[a x'] ev]|] eqn:NX; [|discriminate].
      destruct (applyQ qc s t a) as [s1|] eqn:AP; [|discriminate].
      inversion E; subst; clear E.
      destruct (nextF_nohooks_wrapper_free _ _ _ _ _ _ _ _ _ (W t) NX) as [WX AX].
      destruct (applyQ_nohooks_frame _ _ _ _ _ AP AX K) as [TH K1].
      split; cbn.
      * intro u. rewrite TH. unfold upd. destruct (Nat.eqb u t); auto.
      * exact K1.
  - destruct (started (qs s) p); [|discriminate]. inversion E; subst. split; assumption.
Qed.

Lemma handed_nothing_init prog q0 : handed_nothing (initQ prog q0).
Proof.
  split; cbn.
  - intro t. reflexivity.
  - intros p H. now rewrite H.
Qed.

(** no terminal found (no hooks), over ALL schedules: no thread ever executes the start
    wrapper, the lock of no running process is ever the shared one *)
Lemma nohooks_handed_nothing pol qc prog q0 s :
  reachable_items (stepF false pol qc) (initQ prog q0) s -> handed_nothing s.
Proof.
  induction 1 as [|s i s' R IH E]; [apply handed_nothing_init|].
  eapply stepF_nohooks_inv; eauto.
Qed.

Lemma none_found_handed_nothing fc prog q0 s :
  found_tty (f_found fc) = false ->
  reachable_items (stepFound inst_code fc) (initQ prog q0) s ->
  (forall t, wrapper_free (t_pc (th (qs s) t)) = true)
  /\ (forall p, started (qs s) p = true -> cur (qs s) p = LT).
Proof.
  unfold stepFound, inst_code. intros F R. rewrite F in R. exact (nohooks_handed_nothing _ _ _ _ _ R).
Qed.
