(** * QuerySrcTie — the per-component scaling of [x_parse_color], TRANSLATED from the source on
    every run ([gen/QuerySrc.v], by [harness/tx/tx_query.py]), is the model's [scale_component]
    (the function the C12 colour theorems are about) for EVERY component. *)
From Coq Require Import ZArith Bool Lia List.
From TI Require Import model.Query gen.QuerySrc.
Open Scope Z_scope.

Lemma pow16 : forall n : nat, 16 ^ Z.of_nat n = 1 * 2 ^ (Z.of_nat n * 4).
Proof.
  intros n. rewrite Z.mul_1_l, Z.mul_comm, Z.pow_mul_r by lia. reflexivity.
Qed.

Theorem scale_component_is_source : forall c v,
  scale_component c = Some v ->
  v = src_scale_component (hex_int c) (Z.of_nat (length c)).
Proof.
  intros c v H. unfold scale_component in H.
  destruct (is_nil c); [discriminate|].
  destruct (forallb is_hex c); [|discriminate].
  inversion H. unfold src_scale_component. rewrite pow16. reflexivity.
Qed.

Theorem scale_component_defined : forall c,
  c <> nil -> forallb is_hex c = true ->
  scale_component c = Some (src_scale_component (hex_int c) (Z.of_nat (length c))).
Proof.
  intros c Hc Hh. unfold scale_component. rewrite Hh.
  destruct c; [congruence|]. cbn [is_nil].
  unfold src_scale_component. rewrite pow16. reflexivity.
Qed.
