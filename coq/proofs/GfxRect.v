(** The kitty and iterm2 renders meet the render contract [Rect] (C01, graphics part). *)
From Coq Require Import List ZArith Bool Lia.
Import ListNotations.
From TI Require Import lib.Term lib.TermFacts lib.Rect lib.Lines model.GfxRender.
Open Scope Z_scope.
Local Arguments Z.eqb : simpl never.
Local Arguments Z.ltb : simpl never.
Local Arguments Z.leb : simpl never.

Lemma nth_error_map_inv {A B} (f : A -> B) l i y :
  nth_error (map f l) i = Some y -> exists x, nth_error l i = Some x /\ y = f x.
Proof.
  revert i; induction l as [|x l IH]; intros [|i] H; cbn in *; try discriminate.
  - inversion H. eauto.
  - apply IH, H.
Qed.

(** ** symbolic execution of the graphics tokens in a clean state *)

Lemma exec_conts lm k : forall pl t, pl <> [] ->
  parser t = Ground -> pending t = Some k -> kk_stay k = true ->
  exec lm t (conts pl) =
  {| row := row t; col := col t; sgr := sgr t; visible := visible t; synced := synced t;
     parser := Ground; pending := None;
     log := log t ++ [EImg (row t) (col t) (kk_rows k) (kk_cols k) (kk_z k)] |}.
Proof.
  induction pl as [|p rest IH]; intros t Hne Hg Hp Hs; [congruence|].
  destruct rest as [|p2 rest'].
  - cbn [conts exec fold_left]. unfold step. rewrite Hg. cbn [step_ground]. rewrite Hp.
    unfold place. rewrite Hs. unfold emit, set_pending; cbn. rewrite Hg. reflexivity.
  - change (conts (p :: p2 :: rest')) with (TKittyCont true p :: conts (p2 :: rest')).
    rewrite exec_cons. unfold step at 1. rewrite Hg. cbn [step_ground]. rewrite Hp.
    apply IH; auto; congruence.
Qed.

Lemma exec_transmission lm k pl t :
  clean t -> kk_stay k = true ->
  exec lm t (transmission k pl) =
  mk (row t) (col t) (sgr t) t [EImg (row t) (col t) (kk_rows k) (kk_cols k) (kk_z k)].
Proof.
  intros [Hg Hp] Hs. unfold transmission. destruct pl as [|p rest].
  - cbn [exec fold_left]. unfold step. rewrite Hg. cbn [step_ground]. rewrite Hp.
    unfold place. rewrite Hs. reflexivity.
  - rewrite exec_cons. unfold step. rewrite Hg. cbn [step_ground]. rewrite Hp.
    destruct rest as [|p2 rest'].
    + cbn [conts exec fold_left]. unfold place. rewrite Hs. reflexivity.
    + rewrite (exec_conts lm k); try (cbn; auto; congruence).
      unfold mk, set_pending; cbn. rewrite Hg, Hp. reflexivity.
Qed.

Lemma step_kdel lm t d : parser t = Ground ->
  step lm t (TKittyDel d) = mk (row t) (col t) (sgr t) t [EDel d (row t) (col t)].
Proof. intros H. unfold step; rewrite H. reflexivity. Qed.

Lemma step_iterm_stay lm t w h s p : parser t = Ground ->
  step lm t (TIterm w h true s p) = mk (row t) (col t) (sgr t) t [EImg (row t) (col t) h w 0].
Proof. intros H. unfold step; rewrite H. reflexivity. Qed.

Lemma step_iterm_move lm t w h s p : parser t = Ground ->
  step lm t (TIterm w h false s p) =
  mk (row t + h - 1) (col t + w) (sgr t) t
     [EImg (row t) (col t) h w 0; EMove (row t + h - 1) (col t + w)].
Proof.
  intros H. unfold step; rewrite H. cbn [step_ground]. unfold mk, emit, set_pos; cbn.
  rewrite <- app_assoc. reflexivity.
Qed.

Lemma erase_inside r c w : forall n c0,
  c <= c0 -> c0 + Z.of_nat n <= c + w ->
  forall a, forallb (ev_inside r c 1 w) (erase_evs r c0 a n) = true.
Proof.
  induction n as [|n IH]; intros c0 H1 H2 a; [reflexivity|].
  cbn [erase_evs forallb ev_inside]. rewrite IH by lia.
  rewrite andb_true_r, !andb_true_iff, !Z.leb_le, !Z.ltb_lt. lia.
Qed.

Lemma erase_covers r a : forall n c0 c,
  c0 <= c < c0 + Z.of_nat n -> covered (erase_evs r c0 a n) r c = true.
Proof.
  induction n as [|n IH]; intros c0 c H; [lia|].
  unfold covered in *. cbn [erase_evs existsb ev_covers].
  destruct (Z.eq_dec c0 c) as [->|Hne].
  - rewrite !Z.eqb_refl. reflexivity.
  - rewrite IH by lia. apply orb_true_r.
Qed.

Ltac inside_tac :=
  cbn [ev_inside]; rewrite ?andb_true_iff, ?Z.leb_le, ?Z.ltb_lt; lia.

(** ** kitty *)
Section Kitty.
Variable w h z : Z.
Variable mix blend : bool.
Hypothesis Hw : 0 < w.
Hypothesis Hh : 0 < h.

Lemma nolf_kfill : nolf (kfill w mix).
Proof. unfold kfill. destruct mix; repeat constructor. Qed.
Lemma nolf_kdel : nolf (kdel blend).
Proof. unfold kdel. destruct blend; repeat constructor. Qed.
Lemma nolf_conts pl : nolf (conts pl).
Proof.
  induction pl as [|p rest IH]; [constructor|]. destruct rest; [repeat constructor|].
  change (conts (p :: z0 :: rest)) with (TKittyCont true p :: conts (z0 :: rest)).
  constructor; [reflexivity|exact IH].
Qed.
Lemma nolf_transmission k pl : nolf (transmission k pl).
Proof. unfold transmission. destruct pl; repeat constructor. apply nolf_conts. Qed.

Lemma nocr_kfill : nocr (kfill w mix).
Proof. unfold kfill. destruct mix; repeat constructor. Qed.
Lemma nocr_kdel : nocr (kdel blend).
Proof. unfold kdel. destruct blend; repeat constructor. Qed.
Lemma nocr_conts pl : nocr (conts pl).
Proof.
  induction pl as [|p rest IH]; [constructor|]. destruct rest; [repeat constructor|].
  change (conts (p :: z0 :: rest)) with (TKittyCont true p :: conts (z0 :: rest)).
  constructor; [reflexivity|exact IH].
Qed.
Lemma nocr_transmission k pl : nocr (transmission k pl).
Proof. unfold transmission. destruct pl; repeat constructor. apply nocr_conts. Qed.
Lemma nocr_kitty_trans_line k pl : nocr (kdel blend ++ transmission k pl ++ kfill w mix).
Proof. apply nocr_app; [apply nocr_kdel|]. apply nocr_app; [apply nocr_transmission|apply nocr_kfill]. Qed.

(** [fill] from column [c]: erases (unless mixing) and skips [w] cells *)
Lemma exec_kfill lm t : parser t = Ground ->
  exec lm t (kfill w mix) =
  mk (row t) (col t + w) (sgr t) t
     ((if mix then [] else erase_evs (row t) (col t) (sgr t) (Z.to_nat w))
      ++ [EMove (row t) (col t + w)]).
Proof.
  intros Hg. unfold kfill, pos1. destruct mix; cbn [app exec fold_left].
  - rewrite step_cuf by exact Hg. unfold pos1. replace (Z.max w 1) with w by lia. reflexivity.
  - rewrite step_ech by exact Hg. rewrite step_cuf by exact Hg. rewrite mk_mk.
    unfold pos1. replace (Z.max w 1) with w by lia. reflexivity.
Qed.

Lemma exec_kdel lm t : parser t = Ground ->
  exec lm t (kdel blend) =
  mk (row t) (col t) (sgr t) t (if blend then [] else [EDel DelCursor (row t) (col t)]).
Proof.
  intros Hg. unfold kdel. destruct blend; cbn [exec fold_left].
  - symmetry. apply mk_id.
  - apply step_kdel, Hg.
Qed.

(** a line holding a transmission of [rows] rows, [i] lines below the render's top *)
Lemma kitty_trans_line_ok rows pl i :
  0 < rows -> 0 <= i -> i + rows <= h ->
  LineOK w h i (kdel blend ++ transmission {| kk_cols := w; kk_rows := rows; kk_z := z; kk_stay := true |} pl
                     ++ kfill w mix).
Proof.
  intros Hr Hi Hfit. split.
  - apply nolf_app; [apply nolf_kdel|]. apply nolf_app; [apply nolf_transmission|apply nolf_kfill].
  - intros lm t Hc Hcol Hs. destruct Hc as [Hg Hp].
    rewrite exec_app, exec_kdel by exact Hg. rewrite exec_app.
    rewrite exec_transmission by (try split; cbn; auto).
    rewrite exec_kfill by exact Hg. rewrite !mk_mk. cbn [row col sgr mk kk_rows kk_cols kk_z].
    rewrite Hcol, Hs. eexists. split; [reflexivity|].
    rewrite !forallb_app, !andb_true_iff. split; [|split; [|split]].
    + destruct blend; [reflexivity|]. cbn [forallb]. rewrite andb_true_r. inside_tac.
    + cbn [forallb]. rewrite andb_true_r. inside_tac.
    + destruct mix; [reflexivity|].
      eapply forallb_inside_mono; [| | | |apply (erase_inside (row t) lm w)]; try lia.
    + cbn [forallb]. rewrite andb_true_r. inside_tac.
Qed.

Lemma kfill_line_ok i : 0 <= i < h -> LineOK w h i (kfill w mix).
Proof.
  intros Hi. split; [apply nolf_kfill|].
  intros lm t [Hg Hp] Hcol Hs. rewrite exec_kfill by exact Hg. rewrite Hcol, Hs.
  eexists. split; [reflexivity|]. rewrite forallb_app. apply andb_true_iff. split.
  - destruct mix; [reflexivity|].
    eapply forallb_inside_mono; [| | | |apply (erase_inside (row t) lm w)]; try lia.
  - cbn [forallb]. rewrite andb_true_r. inside_tac.
Qed.

(** coverage by the placement of a transmission line *)
Lemma kitty_trans_line_covers rows pl lm t :
  clean t -> col t = lm -> sgr t = adefault ->
  forall r c, row t <= r < row t + rows -> lm <= c < lm + w ->
    covered (line_evs lm t (kdel blend ++ transmission {| kk_cols := w; kk_rows := rows; kk_z := z; kk_stay := true |} pl
                                  ++ kfill w mix)) r c = true.
Proof.
  intros [Hg Hp] Hcol Hs r c Hr Hc.
  erewrite line_evs_mk.
  2:{ rewrite exec_app, exec_kdel by exact Hg. rewrite exec_app.
      rewrite exec_transmission by (try split; cbn; auto).
      rewrite exec_kfill by exact Hg. rewrite !mk_mk. reflexivity. }
  cbn [row col sgr mk kk_rows kk_cols kk_z].
  rewrite covered_app. apply orb_true_iff. right.
  rewrite covered_app. apply orb_true_iff. left.
  unfold covered. cbn [existsb ev_covers]. rewrite orb_false_r.
  rewrite !andb_true_iff, !Z.leb_le, !Z.ltb_lt. lia.
Qed.

Theorem kitty_lines_lr pls :
  Z.of_nat (length pls) = h -> LinesRect all_cells w h (map (kitty_line w z mix blend) pls).
Proof.
  intros Hlen. constructor; auto.
  - rewrite map_length. exact Hlen.
  - destruct pls; [cbn in Hlen; lia|discriminate].
  - intros i l Hn. apply nth_error_map_inv in Hn. destruct Hn as (pl & Hn & ->).
    assert (i < length pls)%nat by (apply nth_error_Some; congruence).
    apply kitty_trans_line_ok; lia.
  - intros l Hin. apply in_map_iff in Hin. destruct Hin as (pl & <- & _).
    apply nocr_kitty_trans_line.
  - apply coverage_rows; [rewrite map_length; exact Hlen|].
    intros i l lm t Hn Hc Hcol Hs c Hcc.
    apply nth_error_map_inv in Hn. destruct Hn as (pl & Hn & ->).
    apply kitty_trans_line_covers; auto; lia.
Qed.

Theorem kitty_lines_rect pls :
  Z.of_nat (length pls) = h -> Rect w h (kitty_lines w z mix blend pls).
Proof. intros Hlen. apply lines_rect', kitty_lines_lr, Hlen. Qed.

Theorem kitty_whole_lr pl : LinesRect all_cells w h (kitty_whole_ls w h z mix blend pl).
Proof.
  unfold kitty_whole_ls. constructor; auto.
  - cbn [length]. rewrite repeat_length. lia.
  - discriminate.
  - intros i l Hn. destruct i as [|i].
    + inversion Hn; subst l. apply kitty_trans_line_ok; lia.
    + cbn [nth_error] in Hn. assert (Hi : (i < Z.to_nat (h - 1))%nat).
      { rewrite <- (repeat_length (kfill w mix)). apply nth_error_Some. congruence. }
      apply nth_error_In, repeat_spec in Hn. subst l. apply kfill_line_ok. lia.
  - intros l [<-|Hin]; [apply nocr_kitty_trans_line|].
    apply repeat_spec in Hin. subst l. apply nocr_kfill.
  - eapply (coverage_block _ _ _ _ 0%nat); [reflexivity|].
    intros lm t Hc Hcol Hs r c Hr Hcc. apply kitty_trans_line_covers; auto; lia.
Qed.

Theorem kitty_whole_rect pl : Rect w h (kitty_whole w h z mix blend pl).
Proof. apply lines_rect', kitty_whole_lr. Qed.
End Kitty.

(** ** iterm2 *)
Section Iterm2.
Variable w h : Z.
Variable konsole wezterm mix : bool.
Hypothesis Hw : 0 < w.
Hypothesis Hh : 0 < h.

Notation ierase := (ierase w wezterm mix).
Notation icuf := (icuf w).

Lemma nolf_ierase : nolf ierase.
Proof. unfold GfxRender.ierase. destruct (negb mix && wezterm); repeat constructor. Qed.
Lemma nolf_icuf : nolf icuf.
Proof. repeat constructor. Qed.

Lemma nocr_ierase : nocr ierase.
Proof. unfold GfxRender.ierase. destruct (negb mix && wezterm); repeat constructor. Qed.
Lemma nocr_icuf : nocr icuf.
Proof. repeat constructor. Qed.
Lemma nocr_iterm2_line sp : nocr (iterm2_line w konsole wezterm mix sp).
Proof.
  unfold iterm2_line. apply nocr_app; [apply nocr_ierase|]. apply nocr_app; [repeat constructor|].
  destruct konsole; [apply nocr_icuf|constructor].
Qed.

Definition ierase_evs (r c : Z) (a : attrs) : list ev :=
  if negb mix && wezterm then erase_evs r c a (Z.to_nat w) else [].

Lemma exec_ierase lm t : parser t = Ground ->
  exec lm t ierase = mk (row t) (col t) (sgr t) t (ierase_evs (row t) (col t) (sgr t)).
Proof.
  intros Hg. unfold GfxRender.ierase, ierase_evs. destruct (negb mix && wezterm); cbn [exec fold_left].
  - rewrite step_ech by exact Hg. unfold pos1. replace (Z.max w 1) with w by lia. reflexivity.
  - symmetry. apply mk_id.
Qed.

Lemma ierase_inside r lm i a : 0 <= i < h ->
  forallb (ev_inside (r - i) lm h w) (ierase_evs r lm a) = true.
Proof.
  intros Hi. unfold ierase_evs. destruct (negb mix && wezterm); [|reflexivity].
  eapply forallb_inside_mono; [| | | |apply (erase_inside r lm w)]; try lia.
Qed.

Lemma exec_icuf lm t : parser t = Ground ->
  exec lm t icuf = mk (row t) (col t + w) (sgr t) t [EMove (row t) (col t + w)].
Proof.
  intros Hg. cbn [GfxRender.icuf exec fold_left]. rewrite step_cuf by exact Hg.
  unfold pos1. replace (Z.max w 1) with w by lia. reflexivity.
Qed.

(** LINES *)
Lemma iterm2_line_exec sp lm t : clean t -> col t = lm -> sgr t = adefault ->
  exec lm t (iterm2_line w konsole wezterm mix sp) =
  mk (row t) (lm + w) adefault t
     (ierase_evs (row t) lm adefault ++
      (if konsole then [EImg (row t) lm 1 w 0; EMove (row t) (lm + w)]
       else [EImg (row t) lm 1 w 0; EMove (row t + 1 - 1) (lm + w)])).
Proof.
  intros [Hg Hp] Hcol Hs. unfold iterm2_line. rewrite exec_app, exec_ierase by exact Hg.
  cbn [app]. rewrite exec_cons. destruct konsole.
  - rewrite step_iterm_stay by exact Hg. rewrite exec_icuf by exact Hg. rewrite !mk_mk.
    cbn [row col sgr mk]. rewrite Hcol, Hs. reflexivity.
  - rewrite step_iterm_move by exact Hg. cbn [exec fold_left]. rewrite !mk_mk.
    cbn [row col sgr mk]. rewrite Hcol, Hs. unfold mk; cbn. f_equal. lia.
Qed.

Lemma iterm2_line_ok sp i : 0 <= i < h -> LineOK w h i (iterm2_line w konsole wezterm mix sp).
Proof.
  intros Hi. split.
  - unfold iterm2_line. apply nolf_app; [apply nolf_ierase|]. apply nolf_app; [repeat constructor|].
    destruct konsole; [apply nolf_icuf|constructor].
  - intros lm t Hc Hcol Hs. rewrite iterm2_line_exec by assumption.
    eexists. split; [reflexivity|]. rewrite forallb_app. apply andb_true_iff. split.
    + apply ierase_inside, Hi.
    + destruct konsole; cbn [forallb]; rewrite andb_true_r; apply andb_true_iff; split; inside_tac.
Qed.

Theorem iterm2_lines_lr sps :
  Z.of_nat (length sps) = h ->
  LinesRect all_cells w h (map (iterm2_line w konsole wezterm mix) sps).
Proof.
  intros Hlen. constructor; auto.
  - rewrite map_length. exact Hlen.
  - destruct sps; [cbn in Hlen; lia|discriminate].
  - intros i l Hn. apply nth_error_map_inv in Hn. destruct Hn as (sp & Hn & ->).
    assert (i < length sps)%nat by (apply nth_error_Some; congruence).
    apply iterm2_line_ok; lia.
  - intros l Hin. apply in_map_iff in Hin. destruct Hin as (sp & <- & _). apply nocr_iterm2_line.
  - apply coverage_rows; [rewrite map_length; exact Hlen|].
    intros i l lm t Hn Hc Hcol Hs c Hcc.
    apply nth_error_map_inv in Hn. destruct Hn as (sp & Hn & ->).
    erewrite line_evs_mk by (apply iterm2_line_exec; assumption).
    rewrite covered_app. apply orb_true_iff. right.
    destruct konsole; unfold covered; cbn [existsb ev_covers];
      rewrite orb_false_r, !andb_true_iff, !Z.leb_le, !Z.ltb_lt; lia.
Qed.

Theorem iterm2_lines_rect sps :
  Z.of_nat (length sps) = h -> Rect w h (iterm2_lines w konsole wezterm mix sps).
Proof. intros Hlen. apply lines_rect', iterm2_lines_lr, Hlen. Qed.

(** WHOLE / native ANIM *)
Lemma ierase_icuf_ok i : 0 <= i < h -> LineOK w h i (ierase ++ icuf).
Proof.
  intros Hi. split; [apply nolf_app; [apply nolf_ierase|apply nolf_icuf]|].
  intros lm t [Hg Hp] Hcol Hs. rewrite exec_app, exec_ierase, exec_icuf by exact Hg.
  rewrite mk_mk. cbn [row col sgr mk]. rewrite Hcol, Hs. eexists. split; [reflexivity|].
  rewrite forallb_app. apply andb_true_iff. split; [apply ierase_inside, Hi|].
  cbn [forallb]. rewrite andb_true_r. inside_tac.
Qed.

Lemma icuf_ok i : 0 <= i < h -> LineOK w h i icuf.
Proof.
  intros Hi. split; [apply nolf_icuf|].
  intros lm t [Hg Hp] Hcol Hs. rewrite exec_icuf by exact Hg. rewrite Hcol, Hs.
  eexists. split; [reflexivity|]. cbn [forallb]. rewrite andb_true_r. inside_tac.
Qed.

(** konsole: the image first, without moving the cursor *)
Definition kons_first (sp : Z * Z) : list tok :=
  ierase ++ [TIterm w h true (fst sp) (snd sp)] ++ icuf.

Lemma kons_first_exec sp lm t : clean t -> col t = lm -> sgr t = adefault ->
  exec lm t (kons_first sp) =
  mk (row t) (lm + w) adefault t
     (ierase_evs (row t) lm adefault ++ [EImg (row t) lm h w 0; EMove (row t) (lm + w)]).
Proof.
  intros [Hg Hp] Hcol Hs. unfold kons_first. rewrite exec_app, exec_ierase by exact Hg.
  cbn [app]. rewrite exec_cons. rewrite step_iterm_stay by exact Hg.
  rewrite exec_icuf by exact Hg. rewrite !mk_mk. cbn [row col sgr mk]. rewrite Hcol, Hs. reflexivity.
Qed.

(** other terminals: the image last, drawn from the top after moving up *)
Definition other_last (sp : Z * Z) : list tok :=
  ierase ++ (if 1 <? h then [TCuu (h - 1)] else []) ++ [TIterm w h false (fst sp) (snd sp)].

Lemma other_last_exec sp lm t : clean t -> col t = lm -> sgr t = adefault ->
  exec lm t (other_last sp) =
  mk (row t) (lm + w) adefault t
     (ierase_evs (row t) lm adefault
      ++ (if 1 <? h then [EMove (row t - (h - 1)) lm] else [])
      ++ [EImg (row t - (h - 1)) lm h w 0; EMove (row t) (lm + w)]).
Proof.
  intros [Hg Hp] Hcol Hs. unfold other_last. rewrite exec_app, exec_ierase by exact Hg.
  rewrite exec_app. destruct (1 <? h) eqn:E1.
  - apply Z.ltb_lt in E1. cbn [exec fold_left]. rewrite step_cuu by exact Hg.
    rewrite step_iterm_move by exact Hg. rewrite !mk_mk. cbn [row col sgr mk].
    unfold pos1. replace (Z.max (h - 1) 1) with (h - 1) by lia.
    rewrite Hcol, Hs. replace (row t - (h - 1) + h - 1) with (row t) by lia. reflexivity.
  - apply Z.ltb_ge in E1. assert (h = 1) by lia. subst h.
    cbn [exec fold_left]. rewrite step_iterm_move by exact Hg. rewrite !mk_mk.
    cbn [row col sgr mk]. rewrite Hcol, Hs.
    replace (row t - (1 - 1)) with (row t) by lia. replace (row t + 1 - 1) with (row t) by lia.
    reflexivity.
Qed.

Lemma nolf_kons_first sp : nolf (kons_first sp).
Proof.
  unfold kons_first. apply nolf_app; [apply nolf_ierase|].
  apply nolf_app; [repeat constructor|apply nolf_icuf].
Qed.

Lemma nolf_other_last sp : nolf (other_last sp).
Proof.
  unfold other_last. apply nolf_app; [apply nolf_ierase|].
  apply nolf_app; [destruct (1 <? h); repeat constructor|repeat constructor].
Qed.

Lemma nocr_kons_first sp : nocr (kons_first sp).
Proof.
  unfold kons_first. apply nocr_app; [apply nocr_ierase|].
  apply nocr_app; [repeat constructor|apply nocr_icuf].
Qed.
Lemma nocr_other_last sp : nocr (other_last sp).
Proof.
  unfold other_last. apply nocr_app; [apply nocr_ierase|].
  apply nocr_app; [destruct (1 <? h); repeat constructor|repeat constructor].
Qed.

Lemma whole_konsole_lr sp :
  LinesRect all_cells w h (kons_first sp :: repeat icuf (Z.to_nat (h - 1))).
Proof.
  constructor; auto.
  - cbn [length]. rewrite repeat_length. lia.
  - discriminate.
  - intros i l Hn. destruct i as [|i].
    + inversion Hn; subst l. split; [apply nolf_kons_first|].
      intros lm t Hc Hcol Hs. rewrite kons_first_exec by assumption.
      eexists. split; [reflexivity|]. rewrite forallb_app. apply andb_true_iff. split.
      * apply ierase_inside. lia.
      * cbn [forallb]. rewrite andb_true_r. apply andb_true_iff. split; inside_tac.
    + cbn [nth_error] in Hn. assert (Hi : (i < Z.to_nat (h - 1))%nat).
      { rewrite <- (repeat_length icuf). apply nth_error_Some. congruence. }
      apply nth_error_In, repeat_spec in Hn. subst l. apply icuf_ok. lia.
  - intros l [<-|Hin]; [apply nocr_kons_first|].
    apply repeat_spec in Hin. subst l. apply nocr_icuf.
  - eapply (coverage_block _ _ _ _ 0%nat); [reflexivity|].
    intros lm t Hc Hcol Hs r c Hr Hcc.
    erewrite line_evs_mk by (apply kons_first_exec; assumption).
    rewrite covered_app. apply orb_true_iff. right.
    unfold covered; cbn [existsb ev_covers].
    rewrite orb_false_r, !andb_true_iff, !Z.leb_le, !Z.ltb_lt. lia.
Qed.

Lemma whole_other_lr sp :
  LinesRect all_cells w h (repeat (ierase ++ icuf) (Z.to_nat (h - 1)) ++ [other_last sp]).
Proof.
  assert (Hlen : length (repeat (ierase ++ icuf) (Z.to_nat (h - 1)) ++ [other_last sp])
                 = Z.to_nat h).
  { rewrite app_length, repeat_length. cbn. lia. }
  constructor; auto.
  - rewrite Hlen. lia.
  - destruct (repeat (ierase ++ icuf) (Z.to_nat (h - 1))); discriminate.
  - intros i l Hn.
    assert (Hi : (i < Z.to_nat h)%nat) by (rewrite <- Hlen; apply nth_error_Some; congruence).
    destruct (Nat.lt_ge_cases i (Z.to_nat (h - 1))) as [Hlt|Hge].
    + rewrite nth_error_app1 in Hn by (rewrite repeat_length; exact Hlt).
      apply nth_error_In, repeat_spec in Hn. subst l. apply ierase_icuf_ok. lia.
    + rewrite nth_error_app2 in Hn by (rewrite repeat_length; exact Hge).
      rewrite repeat_length in Hn. replace (i - Z.to_nat (h - 1))%nat with 0%nat in Hn by lia.
      inversion Hn; subst l. assert (Ei : Z.of_nat i = h - 1) by lia. rewrite Ei.
      split; [apply nolf_other_last|].
      intros lm t Hc Hcol Hs. rewrite other_last_exec by assumption.
      eexists. split; [reflexivity|]. rewrite !forallb_app, !andb_true_iff.
      split; [|split].
      * apply ierase_inside. lia.
      * destruct (1 <? h); [|reflexivity]. cbn [forallb]. rewrite andb_true_r. inside_tac.
      * cbn [forallb]. rewrite andb_true_r. apply andb_true_iff. split; inside_tac.
  - intros l Hin. apply in_app_iff in Hin. destruct Hin as [Hin|[<-|[]]].
    + apply repeat_spec in Hin. subst l. apply nocr_app; [apply nocr_ierase|apply nocr_icuf].
    + apply nocr_other_last.
  - eapply (coverage_block _ _ _ _ (Z.to_nat (h - 1))).
    + rewrite nth_error_app2 by (rewrite repeat_length; lia).
      rewrite repeat_length, Nat.sub_diag. reflexivity.
    + intros lm t Hc Hcol Hs r c Hr Hcc.
      erewrite line_evs_mk by (apply other_last_exec; assumption).
      rewrite !covered_app. apply orb_true_iff. right. apply orb_true_iff. right.
      unfold covered; cbn [existsb ev_covers].
      rewrite orb_false_r, !andb_true_iff, !Z.leb_le, !Z.ltb_lt. lia.
Qed.

End Iterm2.

Theorem iterm2_whole_lr w h konsole wezterm mix sp :
  0 < w -> 0 < h -> LinesRect all_cells w h (iterm2_whole_ls w h konsole wezterm mix sp).
Proof.
  intros Hw Hh. unfold iterm2_whole_ls. destruct konsole.
  - apply (whole_konsole_lr w h wezterm mix Hw Hh sp).
  - apply (whole_other_lr w h wezterm mix Hw Hh sp).
Qed.

Theorem iterm2_whole_rect w h konsole wezterm mix sp :
  0 < w -> 0 < h -> Rect w h (iterm2_whole w h konsole wezterm mix sp).
Proof. intros Hw Hh. apply lines_rect', iterm2_whole_lr; assumption. Qed.
