(** Proofs for [model/IterArgs.v]: render arguments offered to a render iterator by class
    relation (same class / an ancestor's / a descendant's / unrelated). *)
From Coq Require Import List ZArith Bool Lia.
Import ListNotations.
From TI Require Import model.Iter model.IterSpec model.IterEnv model.IterArgs
     proofs.IterProofs proofs.IterProofs2 proofs.IterEnvProofs.
Open Scope Z_scope.

(** the code accepts exactly the documented (compatible) relations, with the documented
    resulting arguments *)
Lemma install_is_doc : forall x, install x = doc_install x.
Proof. intros [[] i o]; reflexivity. Qed.

Lemma install_accepts_iff_compatible : forall x,
    (exists v, install x = Some v) <-> compatible (o_rel x) = true.
Proof.
  intros [[] i o]; cbn; split; intros H; try reflexivity; try discriminate;
    try (now destruct H); eexists; reflexivity.
Qed.

Lemma lower_install_is_doc : forall a, lower install a = lower doc_install a.
Proof. intros [o|x]; cbn; [reflexivity | now rewrite install_is_doc]. Qed.

Lemma lower_ev_install_is_doc : forall e, lower_ev install e = lower_ev doc_install e.
Proof.
  intros [t [a|v]]; unfold lower_ev; cbn; [now rewrite lower_install_is_doc | reflexivity].
Qed.

Lemma with_args_install_is_doc : forall c x, with_args install c x = with_args doc_install c x.
Proof. intros c [x|]; unfold with_args; [now rewrite install_is_doc | reflexivity]. Qed.

Section ArgsProofs.
  Variable RS : Type.
  Variable render : RS -> Z -> whence -> size -> dur -> Z -> rres * RS.
  Variable n : option Z.

  (** [set_render_args] with arguments of a DESCENDANT's or an UNRELATED class: the documented
      error and NOTHING changes, in every state of the code model (hence after every history) *)
  Lemma incompatible_set_args_rejected : forall term (s : state RS) x,
      compatible (o_rel x) = false ->
      step RS render n term s (lower install (ASetArgs x)) =
      (s, OErr (if closed s then EFinalized else EIncompat)).
  Proof.
    intros term s [[] i o] H; try discriminate H; cbn; unfold set_render_args;
      destruct (closed s); reflexivity.
  Qed.

  (** ... and with arguments of the SAME class or an ANCESTOR's: accepted, the arguments in
      force become the documented ones, nothing else changes *)
  Lemma compatible_set_args_installed : forall term (s : state RS) x,
      compatible (o_rel x) = true -> closed s = false ->
      step RS render n term s (lower install (ASetArgs x)) = (set_args RS s (doc_value x), OOk).
  Proof.
    intros term s [[] i o] H Hc; try discriminate H; cbn; unfold set_render_args;
      rewrite Hc; reflexivity.
  Qed.

  (** after ANY history: the trace of the history extended by a rejected [set_render_args] and
      any continuation is the trace with that call answered by the error and otherwise absent *)
  Lemma args_trace_app : forall term (s : state RS) a b,
      trace RS render n term s (a ++ b) =
      trace RS render n term s a ++ trace RS render n term (run RS render n term s a) b.
  Proof.
    intros term s a; revert s; induction a as [|o a IH]; intros s b; [reflexivity|].
    cbn [app trace]. unfold run. cbn [fold_left].
    destruct (step RS render n term s o) as [s' x] eqn:E. cbn [fst].
    fold (run RS render n term s' a). rewrite IH. reflexivity.
  Qed.

  Lemma rejected_set_args_invisible : forall term (s : state RS) h x h',
      compatible (o_rel x) = false ->
      let s' := run RS render n term s (map (lower install) h) in
      trace RS render n term s (map (lower install) (h ++ ASetArgs x :: h')) =
      trace RS render n term s (map (lower install) h)
      ++ (OErr (if closed s' then EFinalized else EIncompat), pub_loop s')
      :: trace RS render n term s' (map (lower install) h').
  Proof.
    intros term s h x h' H s'. rewrite map_app, args_trace_app. f_equal. fold s'.
    cbn [map trace]. rewrite (incompatible_set_args_rejected term s' x H). reflexivity.
  Qed.

  (** construction: accepted only with compatible arguments, which are then the ones in force *)
  Lemma mk_accepts_compatible_only : forall term c x rs0 s,
      mk RS n term (with_args install c (Some x)) rs0 = inl s ->
      compatible (o_rel x) = true /\ args s = doc_value x.
  Proof.
    intros term c x rs0 s. unfold mk. cbn [with_args c_loops c_cache c_args c_pad c_size c_dur c_owns c_frame].
    destruct (match n with Some k => k <? 2 | None => false end); [discriminate|].
    destruct (c_loops c =? 0); [discriminate|].
    destruct (negb (cache_valid (c_cache c))); [discriminate|].
    rewrite install_is_doc. unfold doc_install.
    destruct (compatible (o_rel x)); [|discriminate].
    intros H. injection H as <-. split; reflexivity.
  Qed.

  Lemma mk_rejects_incompatible : forall term c x rs0,
      compatible (o_rel x) = false ->
      exists e, mk RS n term (with_args install c (Some x)) rs0 = inr e /\
                spec_mk RS n term (with_args doc_install c (Some x)) rs0 = inr e /\
                (e = EValue \/ e = EIncompat).
  Proof.
    intros term c x rs0 H.
    destruct (mk RS n term (with_args install c (Some x)) rs0) as [s|e] eqn:E.
    - apply mk_accepts_compatible_only in E. destruct E as [E _]. congruence.
    - exists e. split; [reflexivity|]. split.
      + rewrite <- with_args_install_is_doc. apply (mk_refines_spec RS n term). exact E.
      + revert E. unfold mk.
        destruct (match n with Some k => k <? 2 | None => false end); [intros [= <-]; now left|].
        destruct (c_loops (with_args install c (Some x)) =? 0); [intros [= <-]; now left|].
        destruct (negb (cache_valid (c_cache (with_args install c (Some x))))); [intros [= <-]; now left|].
        destruct (c_args (with_args install c (Some x))); [discriminate|intros [= <-]; now right].
  Qed.

  (** for EVERY history whose [set_render_args] carry arguments of any of the four relations
      (and a constructor given none or any): the trace of the code (its class test) is the trace
      of the documented machine under the documented compatibility rule *)
  Theorem args_history_refines_spec : forall term c x0 rs0 s a h,
      (cache_decision n (c_cache c) = false \/ render_det RS render) ->
      mk RS n term (with_args install c x0) rs0 = inl s ->
      spec_mk RS n term (with_args doc_install c x0) rs0 = inl a ->
      trace RS render n term s (map (lower install) h) =
      spec_trace RS render n term a (map (lower doc_install) h).
  Proof.
    intros term c x0 rs0 s a h Hm Hs Ha.
    rewrite (map_ext _ _ lower_install_is_doc).
    apply (iter_refines_spec RS render n term (with_args install c x0) rs0); auto.
    now rewrite with_args_install_is_doc.
  Qed.

  (** the same in a changing environment (terminal resizes, client writes to [.loop]) *)
  Theorem args_env_history_refines_spec : forall term0 c x0 rs0 s a h,
      (cache_decision n (c_cache c) = false \/ render_det RS render) ->
      mk RS n term0 (with_args install c x0) rs0 = inl s ->
      spec_mk RS n term0 (with_args doc_install c x0) rs0 = inl a ->
      trace_env RS render n s (map (lower_ev install) h) =
      spec_trace_env RS render n (a, None) (map (lower_ev doc_install) h).
  Proof.
    intros term0 c x0 rs0 s a h Hm Hs Ha.
    rewrite (map_ext _ _ lower_ev_install_is_doc).
    apply (iter_env_refines_spec RS render n term0 (with_args install c x0) rs0); auto.
    now rewrite with_args_install_is_doc.
  Qed.
End ArgsProofs.

(** ** the excluded design ([issubclass] fast path) *)

(** a renderable that shows the arguments it was handed *)
Definition show_render (r : unit) (o : Z) (w : whence) (sz : size) (d : dur) (a : Z) : rres * unit :=
  (ROk {| rf_number := o; rf_duration := 1; rf_size := sz; rf_output := [a] |}, r).

Definition ex_cfg : config :=
  {| c_loops := 1; c_cache := CBool false; c_size := (1, 1); c_dur := DStatic 1; c_args := None;
     c_pad := PExact 0 0 0 0; c_owns := true; c_frame := 0 |}.

Definition ex_leaf : offered := {| o_rel := CDescendant; o_inh := 3; o_own := 2 |}.
Definition ex_hist : list aop := [APlain Next; ASetArgs ex_leaf; APlain Next].

(** arguments of a subclass are incompatible, yet the variant accepts them ... *)
Example issub_accepts_incompatible :
  compatible (o_rel ex_leaf) = false /\ install ex_leaf = None /\ install_issub ex_leaf = Some 203.
Proof. repeat split. Qed.

(** ... and the frames that follow are rendered with them: on a 3-frame source, iterator over
    [value 1 1], history next / set_render_args(subclass args) / next — the documented machine
    answers IncompatibleRenderArgsError and goes on with the old arguments *)
Example issub_variant_refuted :
  exists s a,
    mk unit (Some 3) (80, 30) (with_args install_issub ex_cfg (Some {| o_rel := CSame; o_inh := 1; o_own := 1 |})) tt = inl s /\
    spec_mk unit (Some 3) (80, 30) (with_args doc_install ex_cfg (Some {| o_rel := CSame; o_inh := 1; o_own := 1 |})) tt = inl a /\
    map fst (trace unit show_render (Some 3) (80, 30) s (map (lower install_issub) ex_hist)) <>
    map fst (spec_trace unit show_render (Some 3) (80, 30) a (map (lower doc_install) ex_hist)).
Proof.
  eexists; eexists. split; [reflexivity|]. split; [reflexivity|].
  vm_compute. discriminate.
Qed.

(** the same history under the code's test: the documented trace (non-vacuity of the
    refinement's hypotheses on a concrete state, incompatible and converted arguments included) *)
Example install_history_example :
  exists s a,
    mk unit (Some 3) (80, 30) (with_args install ex_cfg (Some {| o_rel := CAncestor; o_inh := 1; o_own := 7 |})) tt = inl s /\
    spec_mk unit (Some 3) (80, 30) (with_args doc_install ex_cfg (Some {| o_rel := CAncestor; o_inh := 1; o_own := 7 |})) tt = inl a /\
    args s = 1 /\
    map fst (trace unit show_render (Some 3) (80, 30) s (map (lower install) ex_hist)) =
    [OFrame {| f_number := 0; f_duration := 1; f_size := (1, 1); f_output := [1]; f_pad := None |};
     OErr EIncompat;
     OFrame {| f_number := 1; f_duration := 1; f_size := (1, 1); f_output := [1]; f_pad := None |}] /\
    map fst (spec_trace unit show_render (Some 3) (80, 30) a (map (lower doc_install) ex_hist)) =
    map fst (trace unit show_render (Some 3) (80, 30) s (map (lower install) ex_hist)).
Proof.
  eexists; eexists. split; [reflexivity|]. split; [reflexivity|].
  split; [reflexivity|]. split; vm_compute; reflexivity.
Qed.
