(** Proofs for C16: the heap model of [RenderArgs] refines the value-level rule. *)
From Coq Require Import List ZArith Bool Arith Lia.
Import ListNotations.
From TI Require Import model.RArgs proofs.RArgsBasics.

Local Arguments Nat.eqb : simpl never.

(** ** Invariant, monotonicity, denotation *)

Record WF (F : forest) (h : heap) : Prop := {
  wf_bound : forall i o, hp h i = Some o -> i < nxt h;
  wf_keys : forall i k c d, getobj h i = Some (k, c, d) -> map fst d = keys F c;
  wf_itn : forall k c i, itn h k c = Some i -> getobj h i = Some (k, c, defaults F c);
  wf_base : itn h 0 0 = Some BASE
}.

(** nothing that exists is altered: every allocated cell keeps its content, every
    interning entry stays *)
Definition mono (h h' : heap) : Prop :=
  nxt h <= nxt h' /\
  (forall i, i < nxt h -> hp h' i = hp h i) /\
  (forall k c i, itn h k c = Some i -> itn h' k c = Some i).

Definition denotes (h : heap) (i : nat) (v : sval) : Prop :=
  exists k d, getobj h i = Some (k, s_cls v, d) /\ forall c, dget d c = s_ns v c.

Definition agree (h : heap) (r : res nat) (s : res sval) : Prop :=
  match r, s with
  | Ok i, Ok v => denotes h i v
  | Err e, Err e' => e = e'
  | _, _ => False
  end.

Definition init_agree (h : heap) (init : option nat) (iv : option sval) : Prop :=
  match init, iv with
  | Some i, Some v => denotes h i v
  | None, None => True
  | _, _ => False
  end.

Lemma mono_refl : forall h, mono h h.
Proof. intros. repeat split; auto. Qed.

Lemma mono_trans : forall a b c, mono a b -> mono b c -> mono a c.
Proof.
  intros a b c (A1 & A2 & A3) (B1 & B2 & B3). repeat split.
  - lia.
  - intros i Hi. rewrite B2 by lia. apply A2. assumption.
  - intros. apply B3. apply A3. assumption.
Qed.

Lemma getobj_bound : forall F h i x, WF F h -> getobj h i = Some x -> i < nxt h.
Proof.
  intros F h i x W H. unfold getobj in H. destruct (hp h i) eqn:E; [|discriminate].
  eapply wf_bound; eauto.
Qed.

Lemma mono_getobj : forall F h h' i x, WF F h -> mono h h' ->
  getobj h i = Some x -> getobj h' i = Some x.
Proof.
  intros F h h' i x W (_ & M & _) H. unfold getobj in *. rewrite M; [assumption|].
  destruct (hp h i) eqn:E; [|discriminate]. eapply wf_bound; eauto.
Qed.

Lemma mono_denotes : forall F h h' i v, WF F h -> mono h h' -> denotes h i v -> denotes h' i v.
Proof.
  intros F h h' i v W M (k & d & H1 & H2). exists k, d. split; [|assumption].
  eapply mono_getobj; eauto.
Qed.

Lemma WF_heap0 : forall F, wf_forest F -> WF F heap0.
Proof.
  intros F WFF. constructor.
  - intros i o H. simpl in *. unfold fupd in H. destruct (Nat.eqb i BASE) eqn:E.
    + apply Nat.eqb_eq in E. subst. unfold BASE. lia.
    + discriminate.
  - intros i k c d H. unfold getobj in H. simpl in H. unfold fupd in H.
    destruct (Nat.eqb i BASE); [|discriminate]. simpl in H. inversion H; subst.
    rewrite keys_0 by assumption. reflexivity.
  - intros k c i H. simpl in H.
    destruct (Nat.eqb k 0) eqn:E1; destruct (Nat.eqb c 0) eqn:E2; simpl in H; try discriminate.
    inversion H; subst. apply Nat.eqb_eq in E1, E2. subst.
    rewrite defaults_0 by assumption. reflexivity.
  - reflexivity.
Qed.

Lemma base_obj : forall F h, wf_forest F -> WF F h -> getobj h BASE = Some (0, 0, []).
Proof.
  intros F h WFF W. pose proof (wf_itn _ _ W _ _ _ (wf_base _ _ W)) as H.
  rewrite defaults_0 in H by assumption. exact H.
Qed.

(** an init operand that passes the "default" test holds only default values *)
Lemma default_like_content : forall F h k i ki ci di,
  wf_forest F -> WF F h -> getobj h i = Some (ki, ci, di) ->
  default_like h k (Some (i, ki, ci, di)) = true ->
  forall c f, dget di c = Some f -> f = dflt F c.
Proof.
  intros F h k i ki ci di WFF W G D c f Hc. simpl in D.
  apply orb_true_iff in D as [D|D].
  - apply Nat.eqb_eq in D. subst i. rewrite (base_obj F h WFF W) in G.
    inversion G; subst. discriminate.
  - unfold oeqb in D. destruct (itn h k ci) as [j|] eqn:E; [|discriminate].
    apply Nat.eqb_eq in D. subst j. apply (wf_itn _ _ W) in E. rewrite E in G.
    inversion G; subst. rewrite dget_defaults in Hc by assumption.
    destruct (anc F c ci && hasns F c); congruence.
Qed.

(** ** alloc / write *)

Lemma getobj_alloc_old : forall h k i, i <> nxt h -> getobj (fst (alloc h k)) i = getobj h i.
Proof. intros. unfold getobj, alloc. simpl. rewrite fupd_other by assumption. reflexivity. Qed.

Lemma WF_alloc : forall F h k, WF F h -> WF F (fst (alloc h k)).
Proof.
  intros F h k W. constructor.
  - intros i o H. simpl in *. unfold fupd in H. destruct (Nat.eqb i (nxt h)) eqn:E.
    + apply Nat.eqb_eq in E. lia.
    + apply (wf_bound _ _ W) in H. lia.
  - intros i k0 c d H. destruct (Nat.eq_dec i (nxt h)) as [->|N].
    + unfold getobj, alloc in H. simpl in H. rewrite fupd_same in H. discriminate.
    + rewrite getobj_alloc_old in H by assumption. eapply wf_keys; eauto.
  - intros k0 c i H. simpl in H. pose proof (wf_itn _ _ W _ _ _ H) as G.
    rewrite getobj_alloc_old; [assumption|]. apply (getobj_bound F) in G; [lia|assumption].
  - simpl. apply (wf_base _ _ W).
Qed.

Lemma mono_alloc : forall h k, mono h (fst (alloc h k)).
Proof.
  intros. repeat split; simpl.
  - lia.
  - intros i Hi. apply fupd_other. lia.
  - auto.
Qed.

(** ** The constructor *)

Section Construct.
Variable F : forest.
Hypothesis WFF : wf_forest F.

(** the content the rule demands, as a function of the denotations *)
Definition want (cls : nat) (iv : option sval) (nss : list nsv) (c : nat) : option (list Z) :=
  if anc F c cls && hasns F c then
    Some (match last_for c nss with
          | Some f => f
          | None => match iv with
                    | Some v => match s_ns v c with Some f => f | None => dflt F c end
                    | None => dflt F c
                    end
          end)
  else None.

Lemma compat_dmem : forall cls d nss, map fst d = keys F cls ->
  forallb (fun n => dmem d (fst n)) nss = forallb (ns_compatible F cls) nss.
Proof.
  intros cls d nss Hk. apply forallb_ext'. intros n. unfold ns_compatible.
  apply eq_true_iff_eq. rewrite dmem_In, Hk. apply keys_In.
Qed.

(** the dictionary [__init__] starts the namespace loop with *)
Definition start_dict (h : heap) (k cls : nat) (ii : option (nat * nat * nat * dict)) : dict :=
  match ii with
  | Some (i, _, ci, di) =>
    if negb (Nat.eqb i BASE) && negb (oeqb (itn h k ci) i)
    then dupdate (defaults F cls) di else defaults F cls
  | None => defaults F cls
  end.

Lemma start_dict_spec : forall h k cls init iv ii,
  WF F h -> init_agree h init iv -> init_info h init = Some ii ->
  match ii with Some (_, _, ci, _) => anc F ci cls = true | None => True end ->
  map fst (start_dict h k cls ii) = keys F cls /\
  forall c, dget (start_dict h k cls ii) c = want cls iv [] c.
Proof.
  intros h k cls init iv ii W IA II AN.
  destruct init as [i|]; destruct iv as [v|]; simpl in IA; try contradiction.
  - destruct IA as (ki & di & G & D). unfold init_info in II. rewrite G in II.
    inversion II; subst ii. clear II. simpl.
    destruct (negb (Nat.eqb i BASE) && negb (oeqb (itn h k (s_cls v)) i)) eqn:ND.
    + (* non-default init: defaults updated with init's namespaces *)
      assert (Hsub : forallb (fun n => dmem (defaults F cls) (fst n)) di = true).
      { apply forallb_forall. intros n Hn. apply dmem_In. rewrite keys_defaults.
        eapply keys_sub; eauto. rewrite <- (wf_keys _ _ W _ _ _ _ G).
        apply in_map. assumption. }
      pose proof (dupdate_assign _ _ Hsub) as HA.
      apply assign_all_some in HA as [H1 H2]. split.
      * rewrite H1. apply keys_defaults.
      * intro c. rewrite H2. unfold want. simpl.
        rewrite last_for_NoDup
          by (rewrite (wf_keys _ _ W _ _ _ _ G); apply keys_NoDup; assumption).
        rewrite D. rewrite dget_defaults by assumption.
        destruct (s_ns v c) as [f|] eqn:E.
        -- assert (In c (keys F cls)) as Hin.
           { eapply keys_sub; eauto. rewrite <- (wf_keys _ _ W _ _ _ _ G).
             apply dget_some_iff. exists f. congruence. }
           apply keys_In in Hin. rewrite Hin. reflexivity.
        -- reflexivity.
    + (* default-like init: plain defaults *)
      split; [apply keys_defaults|]. intro c. rewrite dget_defaults by assumption.
      unfold want. simpl. destruct (anc F c cls && hasns F c); [|reflexivity].
      destruct (s_ns v c) as [f|] eqn:E; [|reflexivity].
      f_equal. symmetry. eapply (default_like_content F h k i ki (s_cls v) di); eauto.
      * simpl. rewrite <- negb_orb in ND. apply negb_false_iff in ND. exact ND.
      * congruence.
  - inversion II; subst ii. simpl. split; [apply keys_defaults|].
    intro c. rewrite dget_defaults by assumption. reflexivity.
Qed.

Lemma want_assign : forall cls iv nss d d',
  (forall c, dget d c = want cls iv [] c) ->
  map fst d = keys F cls ->
  assign_all d nss = Some d' ->
  forall c, dget d' c = want cls iv nss c.
Proof.
  intros cls iv nss d d' Hd Hk HA c. apply assign_all_some in HA as [H1 H2].
  rewrite H2. destruct (last_for c nss) as [f|] eqn:E.
  - (* the class of a given namespace is a key *)
    unfold want. rewrite E.
    assert (In c (map fst d')) as Hin.
    { apply dget_some_iff. exists f. rewrite H2, E. reflexivity. }
    rewrite H1, Hk in Hin. apply keys_In in Hin. rewrite Hin. reflexivity.
  - rewrite Hd. unfold want. rewrite E. reflexivity.
Qed.

Lemma spec_construct_ok : forall cls iv nss,
  match iv with Some v => anc F (s_cls v) cls = true | None => True end ->
  forallb (ns_compatible F cls) nss = true ->
  spec_construct F cls iv nss = Ok {| s_cls := cls; s_ns := want cls iv nss |}.
Proof.
  intros cls iv nss HA HC. unfold spec_construct. rewrite HC. simpl.
  destruct iv as [v|]; [rewrite HA|]; reflexivity.
Qed.

Lemma spec_construct_ns_err : forall cls iv nss,
  match iv with Some v => anc F (s_cls v) cls = true | None => True end ->
  forallb (ns_compatible F cls) nss = false ->
  spec_construct F cls iv nss = Err EIncompatNS.
Proof.
  intros cls iv nss HA HC. unfold spec_construct. rewrite HC. simpl.
  destruct iv as [v|]; [rewrite HA|]; reflexivity.
Qed.

(** [__init__] on a freshly allocated object *)
Lemma rinit_fresh : forall h k cls init iv nss ii,
  WF F h -> init_agree h init iv -> init_info h init = Some ii ->
  match ii with Some (_, _, ci, _) => anc F ci cls = true | None => True end ->
  (match nss with [] => default_like h k ii | _ => false end) && is_some (itn h k cls) = false ->
  let h1 := fst (alloc h k) in
  let n := nxt h in
  match rinit F h1 n cls init nss with
  | Ok h2 => WF F h2 /\ mono h h2 /\
             forallb (ns_compatible F cls) nss = true /\
             denotes h2 n {| s_cls := cls; s_ns := want cls iv nss |}
  | Err e => e = EIncompatNS /\ forallb (ns_compatible F cls) nss = false
  end.
Proof.
  intros h k cls init iv nss ii W IA II AN NC h1 n.
  assert (II1 : init_info h1 init = Some ii).
  { unfold init_info in *. destruct init as [i|]; [|assumption].
    destruct (getobj h i) as [x|] eqn:G; [|discriminate].
    unfold h1. rewrite getobj_alloc_old; [rewrite G; assumption|].
    apply (getobj_bound F) in G; [lia|assumption]. }
  unfold rinit. unfold h1 at 1. simpl hp. unfold n. rewrite fupd_same. cbn [o_kind].
  fold h1. rewrite II1.
  assert (DL : default_like h1 k ii = default_like h k ii) by reflexivity.
  assert (IT : itn h1 = itn h) by reflexivity.
  rewrite DL, IT. rewrite NC.
  assert (NS : match ii with Some (i, _, _, _) => Nat.eqb i (nxt h) | None => false end = false).
  { destruct ii as [[[[i ki] ci] di]|]; [|reflexivity].
    unfold init_info in II. destruct init as [i0|]; [|discriminate].
    destruct (getobj h i0) as [[[k0 c0] d0]|] eqn:G; [|discriminate].
    inversion II; subst. apply (getobj_bound F) in G; [|assumption].
    apply Nat.eqb_neq. lia. }
  rewrite NS.
  destruct (start_dict_spec h k cls init iv ii W IA II AN) as [SK SD].
  change (match ii with
          | Some (i, _, ci, di) =>
            if negb (Nat.eqb i BASE) && negb (oeqb (itn h k ci) i)
            then dupdate (defaults F cls) di else defaults F cls
          | None => defaults F cls
          end) with (start_dict h k cls ii).
  destruct (assign_all (start_dict h k cls ii) nss) as [d2|] eqn:AA.
  - (* accepted *)
    assert (CP : forallb (ns_compatible F cls) nss = true).
    { rewrite <- (compat_dmem cls _ nss SK).
      destruct (forallb (fun n0 => dmem (start_dict h k cls ii) (fst n0)) nss) eqn:E;
        [reflexivity|]. apply assign_all_none in E. congruence. }
    pose proof (want_assign cls iv nss _ _ SD SK AA) as HW.
    pose proof (assign_all_some _ _ _ AA) as [HK _].
    set (hw := write h1 (nxt h) k cls d2).
    assert (Gw : getobj hw (nxt h) = Some (k, cls, d2)).
    { unfold getobj, hw, write. simpl. rewrite fupd_same. reflexivity. }
    assert (Go : forall i, i <> nxt h -> getobj hw i = getobj h i).
    { intros i Hi. unfold getobj, hw, write, h1, alloc. simpl.
      rewrite !fupd_other by assumption. reflexivity. }
    assert (Wb : forall i o, hp hw i = Some o -> i < nxt hw).
    { intros i o H. unfold hw, write, h1, alloc in *. simpl in *. unfold fupd in H.
      destruct (Nat.eqb i (nxt h)) eqn:E.
      - apply Nat.eqb_eq in E. lia.
      - apply (wf_bound _ _ W) in H. lia. }
    assert (Wk : forall i k0 c d, getobj hw i = Some (k0, c, d) -> map fst d = keys F c).
    { intros i k0 c d H. destruct (Nat.eq_dec i (nxt h)) as [->|N].
      - rewrite Gw in H. inversion H; subst. rewrite HK. assumption.
      - rewrite Go in H by assumption. eapply wf_keys; eauto. }
    assert (Wi : forall k0 c i, itn h k0 c = Some i -> getobj hw i = Some (k0, c, defaults F c)).
    { intros k0 c i H. pose proof (wf_itn _ _ W _ _ _ H) as G.
      rewrite Go; [assumption|]. apply (getobj_bound F) in G; [lia|assumption]. }
    assert (Mw : mono h hw).
    { repeat split; simpl.
      - lia.
      - intros i Hi. unfold fupd.
        replace (Nat.eqb i (nxt h)) with false by (symmetry; apply Nat.eqb_neq; lia).
        reflexivity.
      - auto. }
    assert (Dw : forall hx, getobj hx (nxt h) = Some (k, cls, d2) ->
                 denotes hx (nxt h) {| s_cls := cls; s_ns := want cls iv nss |}).
    { intros hx G. exists k, d2. split; [exact G|exact HW]. }
    destruct (match nss with [] => default_like h k ii | _ :: _ => false end) eqn:CND.
    + (* interned *)
      assert (nss = []) by (destruct nss; [reflexivity|discriminate]). subst nss.
      simpl in AA. inversion AA; subst d2. clear AA.
      rewrite andb_true_l in NC.
      destruct (itn h k cls) eqn:EI; [discriminate|].
      assert (SDef : start_dict h k cls ii = defaults F cls).
      { unfold start_dict. destruct ii as [[[[i ki] ci] di]|]; [|reflexivity].
        simpl in CND. rewrite <- negb_orb. rewrite CND. reflexivity. }
      split; [|split; [|split]].
      * constructor.
        -- exact Wb.
        -- exact Wk.
        -- intros k0 c i H. simpl in H. unfold fupd in H.
           destruct (Nat.eqb k0 k) eqn:E1.
           ++ apply Nat.eqb_eq in E1. subst k0. destruct (Nat.eqb c cls) eqn:E2.
              ** apply Nat.eqb_eq in E2. subst c. inversion H; subst i.
                 change (getobj hw (nxt h) = Some (k, cls, defaults F cls)).
                 rewrite Gw, SDef. reflexivity.
              ** apply Wi. assumption.
           ++ apply Wi. assumption.
        -- simpl. unfold fupd. destruct (Nat.eqb 0 k) eqn:E1.
           ++ apply Nat.eqb_eq in E1. subst k. destruct (Nat.eqb 0 cls) eqn:E2.
              ** apply Nat.eqb_eq in E2. subst cls. rewrite (wf_base _ _ W) in EI. discriminate.
              ** apply (wf_base _ _ W).
           ++ apply (wf_base _ _ W).
      * destruct Mw as (M1 & M2 & M3). repeat split; simpl; try assumption.
        intros k0 c i H. unfold fupd. destruct (Nat.eqb k0 k) eqn:E1; [|auto].
        apply Nat.eqb_eq in E1. subst k0. destruct (Nat.eqb c cls) eqn:E2; [|auto].
        apply Nat.eqb_eq in E2. subst c. congruence.
      * exact CP.
      * apply Dw. exact Gw.
    + split; [|split; [|split]].
      * constructor; [exact Wb|exact Wk|exact Wi|apply (wf_base _ _ W)].
      * exact Mw.
      * exact CP.
      * apply Dw. exact Gw.
  - split; [reflexivity|]. rewrite <- (compat_dmem cls _ nss SK).
    apply assign_all_none. assumption.
Qed.

(** *** The main refinement lemma for the constructor *)
Lemma construct_refines : forall h k cls init iv nss,
  WF F h -> init_agree h init iv ->
  WF F (fst (construct F h k cls init nss)) /\
  mono h (fst (construct F h k cls init nss)) /\
  agree (fst (construct F h k cls init nss)) (snd (construct F h k cls init nss))
        (spec_construct F cls iv nss).
Proof.
  intros h k cls init iv nss W IA.
  assert (exists ii, init_info h init = Some ii) as [ii II].
  { destruct init as [i|]; destruct iv as [v|]; simpl in IA; try contradiction.
    - destruct IA as (ki & di & G & _). unfold init_info. rewrite G. eauto.
    - simpl. eauto. }
  (* what the denotation says about ii *)
  assert (IIv : match ii, iv with
                | Some (i, ki, ci, di), Some v =>
                  init = Some i /\ getobj h i = Some (ki, ci, di) /\ ci = s_cls v /\
                  forall c, dget di c = s_ns v c
                | None, None => init = None
                | _, _ => False
                end).
  { destruct init as [i|]; destruct iv as [v|]; simpl in IA; try contradiction.
    - destruct IA as (ki & di & G & D). unfold init_info in II. rewrite G in II.
      inversion II; subst. auto.
    - inversion II; subst. reflexivity. }
  unfold construct, rnew. rewrite II.
  destruct (match ii with Some (_, _, ci, _) => negb (anc F ci cls) | None => false end) eqn:INC.
  { (* IncompatibleRenderArgsError *)
    simpl. split; [assumption|]. split; [apply mono_refl|].
    destruct ii as [[[[i ki] ci] di]|]; [|discriminate].
    destruct iv as [v|]; [|contradiction]. destruct IIv as (_ & _ & -> & _).
    unfold spec_construct. rewrite INC. reflexivity. }
  assert (AN : match ii with Some (_, _, ci, _) => anc F ci cls = true | None => True end).
  { destruct ii as [[[[i ki] ci] di]|]; [|exact I]. apply negb_false_iff in INC. exact INC. }
  assert (ANv : match iv with Some v => anc F (s_cls v) cls = true | None => True end).
  { destruct ii as [[[[i ki] ci] di]|]; destruct iv as [v|]; try contradiction; try exact I.
    destruct IIv as (_ & _ & <- & _). exact AN. }
  (* the generic "fresh object" continuation *)
  assert (FRESH :
    (match nss with [] => default_like h k ii | _ => false end) && is_some (itn h k cls) = false ->
    let r := match rinit F (fst (alloc h k)) (snd (alloc h k)) cls init nss with
             | Ok h2 => (h2, Ok (snd (alloc h k)))
             | Err e => (fst (alloc h k), Err e)
             end in
    WF F (fst r) /\ mono h (fst r) /\ agree (fst r) (snd r) (spec_construct F cls iv nss)).
  { intros NC. pose proof (rinit_fresh h k cls init iv nss ii W IA II AN NC) as R.
    cbv zeta in R. change (snd (alloc h k)) with (nxt h). cbv zeta.
    destruct (rinit F (fst (alloc h k)) (nxt h) cls init nss) as [h2|e].
    - destruct R as (R1 & R2 & R3 & R4). simpl. split; [assumption|]. split; [assumption|].
      rewrite spec_construct_ok by assumption. exact R4.
    - destruct R as (-> & R2). simpl. split; [apply WF_alloc; assumption|].
      split; [apply mono_alloc|]. rewrite spec_construct_ns_err by assumption. reflexivity. }
  destruct nss as [|n0 nss'].
  - (* no namespaces: the two interning shortcuts *)
    destruct (default_like h k ii) eqn:DL.
    + destruct (itn h k cls) as [j|] eqn:EI.
      * (* shortcut 1: the interned default set of [cls] is returned; __init__ stops at :963 *)
        pose proof (wf_itn _ _ W _ _ _ EI) as Gj.
        unfold rinit. assert (hp h j = Some {| o_kind := k; o_body := Some (cls, defaults F cls) |}) as Hj.
        { unfold getobj in Gj. destruct (hp h j) as [[kk bb]|]; [|discriminate]. simpl in Gj.
          destruct bb as [[cc dd]|]; [|discriminate]. inversion Gj; subst. reflexivity. }
        rewrite Hj. cbn [o_kind]. rewrite II, DL, EI. simpl.
        split; [assumption|]. split; [apply mono_refl|].
        rewrite spec_construct_ok by (try assumption; reflexivity).
        exists k, (defaults F cls). split; [exact Gj|].
        intro c. rewrite dget_defaults by assumption. unfold want. simpl.
        destruct (anc F c cls && hasns F c); [|reflexivity].
        destruct ii as [[[[i ki] ci] di]|]; destruct iv as [v|]; try contradiction; try reflexivity.
        destruct IIv as (_ & G & _ & D). destruct (s_ns v c) as [f|] eqn:E; [|reflexivity].
        f_equal. symmetry. eapply (default_like_content F h k i ki ci di); eauto. congruence.
      * (* default-like but nothing interned yet *)
        destruct ii as [[[[i ki] ci] di]|].
        -- destruct (Nat.eqb ki k && Nat.eqb ci cls) eqn:SAME.
           ++ (* impossible: a default-like init of the same kind and class is interned *)
              exfalso. apply andb_true_iff in SAME as [S1 S2].
              apply Nat.eqb_eq in S1, S2. subst ki ci.
              destruct iv as [v|]; [|contradiction]. destruct IIv as (_ & G & _ & _).
              simpl in DL. apply orb_true_iff in DL as [D|D].
              ** apply Nat.eqb_eq in D. subst i. rewrite (base_obj F h WFF W) in G.
                 inversion G; subst. rewrite (wf_base _ _ W) in EI. discriminate.
              ** rewrite EI in D. discriminate.
           ++ apply FRESH. reflexivity.
        -- apply FRESH. reflexivity.
    + (* init is not default-like *)
      destruct ii as [[[[i ki] ci] di]|]; [|discriminate].
      destruct (Nat.eqb ki k && Nat.eqb ci cls) eqn:SAME.
      * (* shortcut 2: init itself is returned; __init__ stops at :969 *)
        apply andb_true_iff in SAME as [S1 S2]. apply Nat.eqb_eq in S1, S2. subst ki ci.
        destruct iv as [v|]; [|contradiction]. destruct IIv as (-> & G & Ecls & D).
        unfold rinit.
        assert (exists so, hp h i = Some so /\ o_kind so = k) as (so & Hso & Kso).
        { unfold getobj in G. destruct (hp h i) as [[kk bb]|]; [|discriminate]. simpl in G.
          destruct bb as [[cc dd]|]; [|discriminate]. inversion G; subst. eauto. }
        rewrite Hso, Kso, II, DL. simpl. rewrite Nat.eqb_refl. simpl.
        split; [assumption|]. split; [apply mono_refl|].
        rewrite spec_construct_ok by (try assumption; reflexivity).
        exists k, di. split; [exact G|].
        intro c. unfold want. simpl. rewrite D.
        pose proof (wf_keys _ _ W _ _ _ _ G) as HK.
        destruct (anc F c cls && hasns F c) eqn:E.
        -- apply keys_In in E. rewrite <- HK in E. apply dget_some_iff in E as [f Hf].
           rewrite <- D, Hf. reflexivity.
        -- destruct (s_ns v c) as [f|] eqn:Ev; [|reflexivity]. exfalso.
           assert (In c (map fst di)) as Hin by (apply dget_some_iff; exists f; congruence).
           rewrite HK in Hin. apply keys_In in Hin. congruence.
      * apply FRESH. reflexivity.
  - apply FRESH. reflexivity.
Qed.

End Construct.
