(** * TrimTerm — [row_vis] is what the terminal of [lib/Term.v] shows, and the graphics
    branch of the canvas (C17) *)
From Coq Require Import List ZArith Bool Lia.
Import ListNotations.
From TI Require Import lib.Term lib.TermFacts lib.Rect model.Trim model.TrimSpec proofs.TrimLists.
Open Scope Z_scope.

(** ** the cells a text row writes *)
Fixpoint row_cells (a : attrs) (ts : list tok) : list (glyph * attrs) :=
  match ts with
  | [] => []
  | TChar g :: r => (g, a) :: row_cells a r
  | TSgr0 :: r => row_cells adefault r
  | TFg c :: r => row_cells {| fg := Some c; bg := bg a |} r
  | TBg c :: r => row_cells {| fg := fg a; bg := Some c |} r
  | _ :: r => row_cells a r
  end.

Lemma row_vis_cells ts : forall a,
  fst (row_vis a ts) = map (fun ga => gvis (fst ga) (snd ga)) (row_cells a ts).
Proof.
  induction ts as [|x ts IH]; intros a; [reflexivity|].
  destruct x; cbn [row_vis row_cells]; try apply IH.
  specialize (IH a). destruct (row_vis a ts). cbn [fst map] in *. f_equal. exact IH.
Qed.

Lemma gvis_visual g a : visual (VGlyph g a) = Some (gvis g a).
Proof. destruct g; reflexivity. Qed.

(** executing a text row on the terminal: the cursor advances by one per glyph, the
    attributes end as [row_vis] says, the log gains exactly the row's cells *)
Lemma exec_text_row lm ts : forall t, text_only ts = true -> parser t = Ground ->
  exec lm t ts
  = mk (row t) (col t + Z.of_nat (length (row_cells (sgr t) ts))) (snd (row_vis (sgr t) ts)) t
       (cell_evs (row t) (col t) (row_cells (sgr t) ts)).
Proof.
  induction ts as [|x ts IH]; intros t Ht Hp.
  - cbn. replace (col t + 0) with (col t) by lia. symmetry. apply mk_id.
  - cbn [text_only forallb] in Ht. apply andb_prop in Ht. destruct Ht as [Hx Ht].
    rewrite exec_cons.
    destruct x; try discriminate Hx; cbn [row_vis row_cells].
    + (* glyph *)
      rewrite step_char by exact Hp. rewrite IH; [|exact Ht|exact Hp].
      rewrite mk_mk. cbn [row col sgr mk length cell_evs].
      destruct (row_vis (sgr t) ts) as [v a'] eqn:E. cbn [snd].
      f_equal. lia.
    + (* NUL *)
      rewrite step_nul by exact Hp. apply IH; assumption.
    + rewrite step_sgr0 by exact Hp. rewrite IH; [|exact Ht|exact Hp]. rewrite mk_mk. reflexivity.
    + rewrite step_fg by exact Hp. rewrite IH; [|exact Ht|exact Hp]. rewrite mk_mk. reflexivity.
    + rewrite step_bg by exact Hp. rewrite IH; [|exact Ht|exact Hp]. rewrite mk_mk. reflexivity.
Qed.

(** Column [j] of a text row drawn at the cursor shows [nth j (row_vis …)] — whatever was
    on the screen before — and the attributes after the row are those [row_vis] returns. *)
Theorem row_vis_exec lm ts t j :
  text_only ts = true -> parser t = Ground ->
  (j < length (fst (row_vis (sgr t) ts)))%nat ->
  visual (view (log (exec lm t ts)) (row t) (col t + Z.of_nat j))
  = nth_error (fst (row_vis (sgr t) ts)) j
  /\ sgr (exec lm t ts) = snd (row_vis (sgr t) ts)
  /\ row (exec lm t ts) = row t
  /\ col (exec lm t ts) = col t + Z.of_nat (length (fst (row_vis (sgr t) ts))).
Proof.
  intros Ht Hp Hj. rewrite (exec_text_row lm ts t Ht Hp). cbn [mk log sgr row col].
  rewrite row_vis_cells in *. rewrite map_length in *.
  repeat split.
  unfold view. rewrite view_from_app, view_from_cells.
  replace ((col t <=? col t + Z.of_nat j)
           && (col t + Z.of_nat j <? col t + Z.of_nat (length (row_cells (sgr t) ts)))) with true
    by (symmetry; apply andb_true_intro; split; [apply Z.leb_le|apply Z.ltb_lt]; lia).
  replace (Z.to_nat (col t + Z.of_nat j - col t)) with j by lia.
  rewrite nth_error_map.
  destruct (nth_error (row_cells (sgr t) ts) j) as [[g a]|] eqn:E.
  - cbn [option_map fst snd]. apply gvis_visual.
  - apply nth_error_None in E. lia.
Qed.

(** ** the graphics branch *)

Lemma nth_error_firstn_lt {A} (l : list A) : forall n i, (i < n)%nat ->
  nth_error (firstn n l) i = nth_error l i.
Proof.
  induction l as [|x l IH]; intros [|n] [|i] Hi; try reflexivity; try lia.
  cbn [firstn nth_error]. apply IH. lia.
Qed.

Lemma nth_error_skipn' {A} (l : list A) : forall m i, nth_error (skipn m l) i = nth_error l (m + i).
Proof.
  induction l as [|x l IH]; intros [|m] i; try reflexivity.
  - cbn [skipn]. destruct i; reflexivity.
  - cbn [skipn Nat.add nth_error]. apply IH.
Qed.

Theorem graphics_vertical_select W H lines d tt rows :
  Z.of_nat (length lines) = H -> 0 < W -> 0 <= tt -> 0 < rows -> tt + rows <= H ->
  let out := content_gfx W H lines d 0 tt (Some W) (Some rows) in
  out = map (fun l => (l, d)) (firstn (Z.to_nat rows) (skipn (Z.to_nat tt) lines))
  /\ Z.of_nat (length out) = rows
  /\ forall i, (i < Z.to_nat rows)%nat ->
       nth_error out i = option_map (fun l => (l, d)) (nth_error lines (Z.to_nat tt + i)).
Proof.
  intros Hlen HW Htt Hrows Hfit out.
  assert (E : out = map (fun l => (l, d)) (firstn (Z.to_nat rows) (skipn (Z.to_nat tt) lines))).
  { subst out. unfold content_gfx, py_or.
    destruct (Z.eqb_spec rows 0); [lia|]. destruct (Z.eqb_spec W 0); [lia|].
    replace (W - 0 - W) with 0 by lia. cbn [Z.eqb negb orb].
    rewrite py_slice_nonneg by lia. do 2 f_equal. lia. }
  split; [exact E|]. rewrite E. split.
  - rewrite map_length, firstn_length, skipn_length. lia.
  - intros i Hi. rewrite nth_error_map. f_equal.
    rewrite nth_error_firstn_lt by exact Hi. apply nth_error_skipn'.
Qed.

Theorem graphics_horizontal_blank W H lines d tl tt cols rows :
  0 <= tl -> 0 < cols -> tl + cols <= W -> (tl <> 0 \/ tl + cols <> W) -> 0 < rows ->
  content_gfx W H lines d tl tt (Some cols) (Some rows) = repeat (spaces cols, O) (Z.to_nat rows)
  /\ row_vis adefault (spaces cols) = (repeat blank (Z.to_nat cols), adefault)
  /\ text_only (spaces cols) = true.
Proof.
  intros Htl Hcols Hfit Hne Hrows. split; [|split].
  - unfold content_gfx, py_or.
    destruct (Z.eqb_spec rows 0); [lia|]. destruct (Z.eqb_spec cols 0); [lia|].
    destruct (Z.eqb_spec tl 0); destruct (Z.eqb_spec (W - tl - cols) 0); cbn [negb orb];
      try reflexivity. lia.
  - apply row_vis_spaces.
  - apply text_only_spaces.
Qed.
