(** C15 — proofs about [terminal_size_cached] called with several argument tuples
    (model/CachesArgs.v).  No [lia] (see proofs/C15Arith.v). *)
From Coq Require Import List ZArith Bool Arith.
Import ListNotations.
From TI Require Import model.CachesArgs.

Lemma tsz_eqb_eq a b : tsz_eqb a b = true -> a = b.
Proof.
  destruct a as [a1 a2], b as [b1 b2]. unfold tsz_eqb. cbn [fst snd].
  intro H. apply andb_true_iff in H. destruct H as [H1 H2].
  apply Nat.eqb_eq in H1. apply Nat.eqb_eq in H2. subst. reflexivity.
Qed.

(** the slot holds a value computed for the size it is stamped with, with an argument
    tuple used since the last invalidation *)
Definition slot_inv (b : abody) (s : cstate) (called : list nat) : Prop :=
  match c_slot s with
  | Some (v, ts0) => existsb (fun k0 => Z.eqb v (b k0 ts0)) called = true
  | None => True
  end.

Lemma slot_inv_more b s called k : slot_inv b s called -> slot_inv b s (k :: called).
Proof.
  unfold slot_inv. destruct (c_slot s) as [[v ts0]|]; [|trivial].
  intro H. cbn [existsb]. rewrite H. apply orb_true_r.
Qed.

(** one call: the value is right for the size the call is made at, the body ran with the
    call's own arguments or not at all, the terminal moved iff the body ran (with a resize
    armed), the invariant is kept *)
Lemma code_call_ok b s k land called :
  slot_inv b s called ->
  let s' := fst (code_call b s k land) in
  let row := snd (code_call b s k land) in
  val_ok false b (c_tm s) (k :: called) k (fst row) = true
  /\ ran_ok k (snd row) = true
  /\ slot_inv b s' (k :: called)
  /\ c_tm s' = match snd row, land with
               | _ :: _, Some t => t
               | _, _ => c_tm s
               end.
Proof.
  intros I. unfold code_call.
  assert (M : let s' := fst (code_miss b s k land) in
              let row := snd (code_miss b s k land) in
              val_ok false b (c_tm s) (k :: called) k (fst row) = true
              /\ ran_ok k (snd row) = true
              /\ slot_inv b s' (k :: called)
              /\ c_tm s' = match snd row, land with
                           | _ :: _, Some t => t
                           | _, _ => c_tm s
                           end).
  { unfold code_miss. cbn [fst snd val_ok ran_ok existsb c_tm c_slot slot_inv].
    rewrite Z.eqb_refl, Nat.eqb_refl. cbn [orb].
    repeat split. }
  destruct (c_slot s) as [[v ts0]|] eqn:E; [|exact M].
  destruct (tsz_eqb (c_tm s) ts0) eqn:T; [|exact M].
  apply tsz_eqb_eq in T. cbn [fst snd val_ok ran_ok].
  pose proof (slot_inv_more b s called k I) as I'.
  repeat split.
  - unfold slot_inv in I'. rewrite E in I'. rewrite T. exact I'.
  - exact I'.
Qed.

Lemma code_spec_gen b : forall cmds s called,
  slot_inv b s called ->
  spec_ok false b (c_tm s) called cmds (code_run b s cmds) = true.
Proof.
  induction cmds as [|c cmds IH]; intros s called I; [reflexivity|].
  destruct c as [k|k t|t|]; cbn [code_run code_step].
  - pose proof (code_call_ok b s k None called I) as H.
    destruct (code_call b s k None) as [s' [v ran]]. cbn [fst snd] in H.
    destruct H as (V & R & I' & T).
    cbn [spec_ok]. rewrite V, R. cbn [andb].
    replace (c_tm s) with (c_tm s') by (rewrite T; destruct ran; reflexivity).
    apply IH. exact I'.
  - pose proof (code_call_ok b s k (Some t) called I) as H.
    destruct (code_call b s k (Some t)) as [s' [v ran]]. cbn [fst snd] in H.
    destruct H as (V & R & I' & T).
    cbn [spec_ok]. rewrite V, R. cbn [andb].
    replace (match ran with [] => c_tm s | _ :: _ => t end) with (c_tm s')
      by (rewrite T; destruct ran; reflexivity).
    apply IH. exact I'.
  - cbn [spec_ok]. apply (IH {| c_tm := t; c_slot := c_slot s |} called). exact I.
  - cbn [spec_ok]. apply (IH {| c_tm := c_tm s; c_slot := None |} []). exact Logic.I.
Qed.

(** ** every history: a value computed for the CURRENT size (never one for an earlier
       size), never an exception, the body only runs with the call's own arguments *)
Lemma args_current_size_lemma :
  forall (b : abody) (t0 : tsz) (cmds : list acmd),
    spec_ok false b t0 [] cmds (code_run b (cinit t0) cmds) = true.
Proof. intros. apply (code_spec_gen b cmds (cinit t0) []). exact Logic.I. Qed.

(** for a function of the terminal size the weak clause is the strong one *)
Lemma val_ok_strengthen b cur called k v :
  size_only b -> val_ok false b cur called k v = true -> val_ok true b cur called k v = true.
Proof.
  intros SO. destruct v as [z|]; cbn [val_ok]; [|trivial].
  intro H. apply existsb_exists in H. destruct H as (k0 & _ & H).
  rewrite (SO k k0 cur). exact H.
Qed.

Lemma spec_ok_strengthen b : size_only b ->
  forall cmds rows cur called,
    spec_ok false b cur called cmds rows = true -> spec_ok true b cur called cmds rows = true.
Proof.
  intros SO. induction cmds as [|c cmds IH]; intros rows cur called H.
  - exact H.
  - destruct c as [k|k t|t|]; destruct rows as [|[v ran] rows]; cbn [spec_ok] in *; try discriminate.
    + apply andb_true_iff in H. destruct H as [H H3]. apply andb_true_iff in H. destruct H as [H1 H2].
      rewrite (val_ok_strengthen _ _ _ _ _ SO H1), H2. cbn [andb]. apply IH. exact H3.
    + apply andb_true_iff in H. destruct H as [H H3]. apply andb_true_iff in H. destruct H as [H1 H2].
      rewrite (val_ok_strengthen _ _ _ _ _ SO H1), H2. cbn [andb]. apply IH. exact H3.
    + destruct v; [discriminate|]. destruct ran; [|discriminate]. apply IH. exact H.
    + destruct v; [discriminate|]. destruct ran; [|discriminate]. apply IH. exact H.
Qed.

(** ** freshness per argument tuple, every history *)
Lemma args_fresh_lemma :
  forall (b : abody) (t0 : tsz) (cmds : list acmd),
    size_only b ->
    spec_ok true b t0 [] cmds (code_run b (cinit t0) cmds) = true.
Proof. intros b t0 cmds SO. apply (spec_ok_strengthen b SO). apply args_current_size_lemma. Qed.

(** ** the same, spelt out for histories without a resize inside a body: what the callers
       get is the list of fresh computations, each with its own arguments, for the size
       current at the call — a function of the history alone *)
Lemma spec_ok_plain_vals b : forall cmds rows cur called,
  aplain cmds = true ->
  spec_ok true b cur called cmds rows = true ->
  map fst rows = fresh_vals b cur cmds.
Proof.
  induction cmds as [|c cmds IH]; intros rows cur called P H.
  - destruct rows; [reflexivity|discriminate].
  - destruct c as [k|k t|t|]; destruct rows as [|[v ran] rows]; cbn [spec_ok aplain] in *; try discriminate.
    + apply andb_true_iff in H. destruct H as [H H3]. apply andb_true_iff in H. destruct H as [H1 _].
      cbn [map fst fresh_vals]. rewrite (IH _ _ _ P H3).
      destruct v as [z|]; cbn [val_ok] in H1; [|discriminate]. apply Z.eqb_eq in H1. rewrite H1. reflexivity.
    + destruct v; [discriminate|]. destruct ran; [|discriminate].
      cbn [map fst fresh_vals]. rewrite (IH _ _ _ P H). reflexivity.
    + destruct v; [discriminate|]. destruct ran; [|discriminate].
      cbn [map fst fresh_vals]. rewrite (IH _ _ _ P H). reflexivity.
Qed.

Lemma args_fresh_plain_lemma :
  forall (b : abody) (t0 : tsz) (cmds : list acmd),
    size_only b -> aplain cmds = true ->
    map fst (code_run b (cinit t0) cmds) = fresh_vals b t0 cmds.
Proof.
  intros b t0 cmds SO P. apply (spec_ok_plain_vals b cmds _ t0 [] P). apply args_fresh_lemma. exact SO.
Qed.

(** ** non-vacuity and the excluded designs, on a concrete function of the terminal size *)
Definition ex_body : abody := fun _ t => (Z.of_nat (fst t) * 1000 + Z.of_nat (snd t))%Z.
Definition ex_body_args : abody := fun k t => (Z.of_nat (fst t) * 1000 + Z.of_nat (snd t) + 1000000 * Z.of_nat k)%Z.

Lemma ex_body_size_only : size_only ex_body.
Proof. intros k k' t. reflexivity. Qed.

(** two argument tuples cached, a resize, a call with each, a resize back: three body runs *)
Definition ex_hist : list acmd :=
  [ACall 0; ACall 1; AResize (121, 40); ACall 0; ACall 1; AResize (80, 24); ACall 1; ACall 0].

Example args_fresh_nonvacuous :
  aplain ex_hist = true
  /\ code_run ex_body (cinit (80, 24)) ex_hist
     = [(Some 80024%Z, [0]); (Some 80024%Z, []); (None, []); (Some 121040%Z, [0]); (Some 121040%Z, []);
        (None, []); (Some 80024%Z, [1]); (Some 80024%Z, [])].
Proof. split; vm_compute; reflexivity. Qed.

(** the dict keyed by the arguments with ONE remembered size: after [f(a); f(b); resize;
    f(a)] the call [f(b)] returns the value computed under the OLD size *)
Lemma dict1_single_stamp_refuted_lemma :
  exists (b : abody) (t0 : tsz) (cmds : list acmd),
    size_only b /\ aplain cmds = true
    /\ spec_ok true b t0 [] cmds (dict1_run b (dinit t0) cmds) = false
    /\ spec_ok false b t0 [] cmds (dict1_run b (dinit t0) cmds) = false
    /\ map fst (dict1_run b (dinit t0) cmds) <> fresh_vals b t0 cmds
    /\ nth 4 (map fst (dict1_run b (dinit t0) cmds)) None = Some (b 1 t0).
Proof.
  exists ex_body, (80, 24), [ACall 0; ACall 1; AResize (121, 40); ACall 0; ACall 1].
  split; [exact ex_body_size_only|].
  repeat match goal with |- _ /\ _ => split end; try (vm_compute; reflexivity).
  vm_compute. discriminate.
Qed.

(** why the claim carries [size_only]: the code is blind to the arguments — with a wrapped
    function whose result depends on them a call gets the value of the argument tuple that
    filled the slot (documented: "the last return value is returned") *)
Lemma code_argument_blind_lemma :
  exists (b : abody) (t0 : tsz) (cmds : list acmd),
    aplain cmds = true
    /\ spec_ok false b t0 [] cmds (code_run b (cinit t0) cmds) = true
    /\ spec_ok true b t0 [] cmds (code_run b (cinit t0) cmds) = false.
Proof.
  exists ex_body_args, (80, 24), [ACall 0; ACall 1].
  repeat match goal with |- _ /\ _ => split end; vm_compute; reflexivity.
Qed.
