(** C07, round 4 -- faults at ANY call.

    [SkelC07.v] / [SkelC07Old.v] inject faults at the stream write / flush / sleep / frame
    render calls ([cfg_draw]).  The property says "interrupted by Ctrl-C or fails with an
    exception AT ANY POINT before its own clean-up starts": here EVERY call of the
    translated skeletons -- tracked or not ([Other]: argument checks, size computations,
    [get_terminal_size()], ...; [OpenImg]: opening the image source; [FixSize]; [Snap]s;
    [tcgetattr] / [tcsetattr]; creating the frame iterator; ...) -- may raise
    KeyboardInterrupt or an Exception, before or after taking effect ([cfg_all]), anywhere
    outside the finally / except blocks of draw() and of the functions it calls ([protect]).

    What holds at that strength (and is proved below): cursor shown again, terminal
    attributes / image size setting / frame position as found, every cut frame write handled,
    a still image propagates KeyboardInterrupt.

    What does NOT hold at that strength, with the witness runs ([*_refuted]): an object that is
    CREATED before the [try] that releases it can be left to its finalizer by a fault in the
    window between the two (render data: between [_get_render_data_] and draw()'s [try] --
    [RenderData.__del__] finalizes it; the frame iterator: between its creation and
    [_animate_]'s / [_display_animated]'s [try]), and a KeyboardInterrupt that arrives before
    the animation loop's [try] is entered propagates.  From draw()'s [try] on, the render
    data IS finalized whatever raises ([draw_try_finalizes]). *)
From Coq Require Import List Bool Arith.
Import ListNotations.
From TI Require Import lib.Eff lib.EffSound lib.EffRun gen.Skeletons proofs.SkelC07.

(** ** Renderable.draw *)

Definition draw_any_post (o : outcome) (s : st) : bool :=
  negb (hidden s) && negb (tmod s) && negb (cut s)
  && (get fv_Renderable_draw__animation (vars s) || negb (kiseen s) || is_ki o).

Lemma draw_any_analysis : analyze cfg_all nv_Renderable_draw (protect sk_Renderable_draw) draw_any_post = true.
Proof. vm_compute. reflexivity. Qed.

Lemma draw_cleans_any_call :
  forall vs, length vs = nv_Renderable_draw ->
  forall o s', eval cfg_all false (protect sk_Renderable_draw) (init vs) o s' ->
    hidden s' = false /\ tmod s' = false /\ cut s' = false /\
    (get fv_Renderable_draw__animation (vars s') = false -> kiseen s' = true -> o = ORaise KI).
Proof.
  intros vs Hl o s' He. pose proof (analyze_sound _ _ _ _ draw_any_analysis vs Hl o s' He) as H.
  unfold draw_any_post in H.
  destruct (hidden s'), (tmod s'), (cut s'), (kiseen s'), (get fv_Renderable_draw__animation (vars s')), o as [| |[|]];
    simpl in H; try discriminate H; repeat split; intros; try reflexivity; try discriminate; try congruence.
Qed.

(** the last statement of a [sq [...]] *)
Fixpoint last_stmt (p : prog) : prog :=
  match p with
  | Seq a Skip => a
  | Seq _ b => last_stmt b
  | _ => p
  end.

(** draw()'s [try ... finally] *)
Definition draw_try : prog := last_stmt (protect sk_Renderable_draw).

Definition is_try_finally (p : prog) : bool := match p with TryFinally true _ _ => true | _ => false end.

(** the states in which draw() can reach its [try:]: any valuation of its flags, render data
    created and not finalized, [old_attr] holding the attributes read at entry and [new_attr]
    modified iff [not_echo_input], nothing else pending *)
Definition draw_try_entry (vs : list bool) : st :=
  mkst vs (if get fv_Renderable_draw__not_echo_input vs then [true; false] else [])
       false false false false true false false false false false [].

Definition draw_try_post (o : outcome) (s : st) : bool :=
  negb (unfin s) && negb (hidden s) && negb (tmod s) && negb (cut s).

Lemma draw_try_analysis :
  match exec cfg_all default_fuel false draw_try (map draw_try_entry (all_vals nv_Renderable_draw)) with
  | Some R => forallb (fun os => draw_try_post (fst os) (snd os)) R
  | None => false
  end = true.
Proof. vm_compute. reflexivity. Qed.

(** from draw()'s [try:] on, whatever raises at whatever call (outside clean-up blocks): the
    render data is finalized, the cursor shown, the attributes restored, cut frames handled *)
Lemma draw_try_finalizes :
  forall vs, length vs = nv_Renderable_draw ->
  forall o s', eval cfg_all false draw_try (draw_try_entry vs) o s' ->
    unfin s' = false /\ hidden s' = false /\ tmod s' = false /\ cut s' = false.
Proof.
  intros vs Hl o s' He. pose proof draw_try_analysis as Ha.
  destruct (exec cfg_all default_fuel false draw_try (map draw_try_entry (all_vals nv_Renderable_draw))) as [R|] eqn:E;
    [|discriminate].
  rewrite forallb_forall in Ha.
  assert (Hin : In (o, s') R).
  { eapply exec_sound; [exact E| |exact He]. apply in_map. apply all_vals_complete. assumption. }
  specialize (Ha _ Hin). unfold draw_try_post in Ha. simpl in Ha.
  repeat (apply andb_true_iff in Ha; destruct Ha as [Ha ?]).
  repeat match goal with Hx : negb _ = true |- _ => apply negb_true_iff in Hx end. auto.
Qed.

(** non-vacuity: it is a [try ... finally] of draw() itself, and it is entered with the
    render data unfinalized *)
Example draw_try_is_try : is_try_finally draw_try = true.
Proof. vm_compute. reflexivity. Qed.
Example draw_try_entry_unfinalized : unfin (draw_try_entry (repeat true nv_Renderable_draw)) = true.
Proof. reflexivity. Qed.

(** why [unfin] is not part of [draw_cleans_any_call]: a fault in the window between
    [_get_render_data_] and draw()'s [try] leaves the render data to [RenderData.__del__] *)
Example draw_any_call_unfin_refuted :
  exists vs o s', eval cfg_all false (protect sk_Renderable_draw) (init vs) o s' /\ unfin s' = true.
Proof.
  exists (repeat true nv_Renderable_draw), (ORaise KI).
  apply (witness_run cfg_all KI true (fun _ => true) unfin (ORaise KI) _ _ 40). vm_compute. reflexivity.
Qed.

(** why "animations end silently" is stated for [cfg_draw] only (where the one exception is the
    HIDE_CURSOR write): with every call a fault position, a KeyboardInterrupt that arrives before
    [_animate_]'s [try] is entered (in [tcsetattr], while the frame iterator is created, ...)
    propagates *)
Example draw_any_call_anim_ki_refuted :
  exists vs o s', eval cfg_all false (protect sk_Renderable_draw) (init vs) o s' /\
    get fv_Renderable_draw__animation (vars s') = true /\ o = ORaise KI.
Proof.
  pose (fin := fun s : st => get fv_Renderable_draw__animation (vars s)).
  destruct (witness_run cfg_all KI true (fun _ => true) fin (ORaise KI) (protect sk_Renderable_draw)
              (repeat true nv_Renderable_draw) 60) as [s' [He Hf]].
  { vm_compute. reflexivity. }
  exists (repeat true nv_Renderable_draw), (ORaise KI), s'. auto.
Qed.

(** ** BaseImage.draw *)

Definition old_draw_any_post (o : outcome) (s : st) : bool :=
  negb (hidden s) && negb (szmod s) && negb (skmod s) && negb (cut s)
  && (get fv_BaseImage_draw__animation (vars s) || negb (kiseen s) || is_ki o).

Lemma old_draw_any_analysis : analyze cfg_all nv_BaseImage_draw (protect sk_BaseImage_draw) old_draw_any_post = true.
Proof. vm_compute. reflexivity. Qed.

Lemma old_draw_cleans_any_call :
  forall vs, length vs = nv_BaseImage_draw ->
  forall o s', eval cfg_all false (protect sk_BaseImage_draw) (init vs) o s' ->
    hidden s' = false /\ szmod s' = false /\ skmod s' = false /\ cut s' = false /\
    (get fv_BaseImage_draw__animation (vars s') = false -> kiseen s' = true -> o = ORaise KI).
Proof.
  intros vs Hl o s' He. pose proof (analyze_sound _ _ _ _ old_draw_any_analysis vs Hl o s' He) as H.
  unfold old_draw_any_post in H.
  destruct (hidden s'), (szmod s'), (skmod s'), (cut s'), (kiseen s'), (get fv_BaseImage_draw__animation (vars s')), o as [| |[|]];
    simpl in H; try discriminate H; repeat split; intros; try reflexivity; try discriminate; try congruence.
Qed.

(** [_renderer] on its own, whatever the renderer does (here: a call that may raise) *)
Lemma renderer_any_analysis :
  analyze cfg_all nv_BaseImage__renderer (protect (sk_BaseImage__renderer (Op Other))) (fun _ s => negb (szmod s)) = true.
Proof. vm_compute. reflexivity. Qed.

Lemma renderer_restores_size_any_call :
  forall vs, length vs = nv_BaseImage__renderer ->
  forall o s', eval cfg_all false (protect (sk_BaseImage__renderer (Op Other))) (init vs) o s' -> szmod s' = false.
Proof.
  intros vs Hl o s' He. apply negb_true_iff. exact (analyze_sound _ _ _ _ renderer_any_analysis vs Hl o s' He).
Qed.

(** non-vacuity: a run in which the size WAS temporarily fixed, the source-opening step
    ([OpenImg]) then raised, and the setting is back at exit *)
Example old_draw_source_fault_witness :
  witness cfg_all Exc false szmod (fun s => negb (szmod s)) (ORaise Exc) (protect sk_BaseImage_draw)
          (repeat true nv_BaseImage_draw) 60 = true.
Proof. vm_compute. reflexivity. Qed.

(** the analysis rejects "size fixed and source opened before the try whose finally restores
    the size" (the fault: opening the source raises) *)
Example analysis_rejects_fix_size_before_try :
  analyze cfg_all 0
    (sq [Op (SaveSize 0); Op FixSize; Op (OpenImg 0); TryFinally true (Op Render) (Op (RestoreSize 0))])
    (fun _ s => negb (szmod s)) = false.
Proof. vm_compute. reflexivity. Qed.
(** ... which [cfg_draw] (faults at write / flush / sleep / render only) cannot see *)
Example cfg_draw_blind_to_fix_size_before_try :
  analyze cfg_draw 0
    (sq [Op (SaveSize 0); Op FixSize; Op (OpenImg 0); TryFinally true (Op Render) (Op (RestoreSize 0))])
    (fun _ s => negb (szmod s)) = true.
Proof. vm_compute. reflexivity. Qed.
