(** C12 — proofs about the initial state of the terminal (model/QueryInit.v):
      * over [ttyA] with [guard = always_flush] (the code) every function is the function of
        Query.v on the queue/clock part, and the attribute set met is the attribute set left;
      * a query's result does not depend on input that was unread when it was made
        ([query_clear] and its consequences for every getter);
      * hence the end-to-end theorems hold from EVERY initial queue content and EVERY
        attribute set;
      * the variant that performs the tcsetattr pair only when echo is on agrees with the
        code on echoing modes and is refuted on cbreak / raw with type-ahead. *)
From Coq Require Import Ascii String List ZArith Bool Arith Lia.
Import ListNotations.
From TI Require Import model.Query model.QuerySpec model.QueryInit
  proofs.QueryReadProofs proofs.QueryGetProofs proofs.QueryEndProofs.
Open Scope Z_scope.

Definition lift (a : tattr) (st : tty) : ttyA := {| core := st; attr := a |}.
Definition liftw (a : tattr) (w : tty * nv_memo) : ttyA * nv_memo := (lift a (fst w), snd w).
Definition lifte (a : tattr) (w : epoch) : epochA := (lift a (fst (fst w)), snd (fst w), snd w).

Lemma lift_core_attr s : lift (attr s) (core s) = s.
Proof. now destruct s. Qed.

(** ** the code over [ttyA] = Query.v on the core, attributes restored *)
Section Sim.
Variable cost : nat -> Z.
Variable cfg : config.
Variable term : terminal.

Lemma query_A_always more request s :
  query_A cost cfg term always_flush more request s
  = (fst (query cost cfg term more request (core s)),
     lift (attr s) (snd (query cost cfg term more request (core s)))).
Proof.
  unfold query_A, query. destruct (enabled cfg); cbn [negb].
  2: { cbn [fst snd]. now rewrite lift_core_attr. }
  unfold always_flush, timed_read_A, write_A, tcsetattr, with_core, flush_input.
  cbn [core attr now pend tick written].
  destruct (read_loop cost more (qtimeout cfg) _ _ _ _ _) as [[[inp rest] t] i].
  reflexivity.
Qed.

Lemma drain_A_sim s :
  drain_A cost s = (fst (drain_tty cost (core s)), lift (attr s) (snd (drain_tty cost (core s)))).
Proof.
  unfold drain_A, tcsetattr. cbn [core attr].
  destruct (drain_tty cost (core s)) as [inp st']. reflexivity.
Qed.

Lemma two_phase_A_always request s :
  two_phase_A cost cfg term always_flush request s
  = (fst (two_phase cost cfg term request (core s)),
     lift (attr s) (snd (two_phase cost cfg term request (core s)))).
Proof.
  unfold two_phase_A, two_phase. rewrite query_A_always.
  destruct (query cost cfg term more_not_csi request (core s)) as [resp st1]. cbn [fst snd].
  destruct (enabled cfg); [|reflexivity].
  rewrite drain_A_sim. reflexivity.
Qed.

Lemma get_fg_bg_A_always s :
  get_fg_bg_A cost cfg term always_flush s
  = (fst (get_fg_bg cost cfg term (core s)), lift (attr s) (snd (get_fg_bg cost cfg term (core s)))).
Proof.
  unfold get_fg_bg_A, get_fg_bg. rewrite two_phase_A_always.
  destruct (two_phase cost cfg term _ (core s)) as [resp st']. reflexivity.
Qed.

Lemma get_name_version_A_always s :
  get_name_version_A cost cfg term always_flush s
  = (fst (get_name_version cost cfg term (core s)),
     lift (attr s) (snd (get_name_version cost cfg term (core s)))).
Proof.
  unfold get_name_version_A, get_name_version. rewrite two_phase_A_always.
  destruct (two_phase cost cfg term _ (core s)) as [resp st']. reflexivity.
Qed.

Lemma get_cell_size_A_always c0 s :
  get_cell_size_A cost cfg term always_flush c0 s
  = (fst (get_cell_size cost cfg term c0 (core s)),
     lift (attr s) (snd (get_cell_size cost cfg term c0 (core s)))).
Proof.
  unfold get_cell_size_A, get_cell_size. destruct (cell_query_needed cfg c0).
  - rewrite query_A_always. destruct (query cost cfg term more_not_c _ (core s)) as [resp st1]. reflexivity.
  - cbn [fst snd]. now rewrite lift_core_attr.
Qed.

Lemma cached_name_version_A_always a w :
  cached_name_version_A cost cfg term always_flush (liftw a w)
  = (fst (cached_name_version cost cfg term w), liftw a (snd (cached_name_version cost cfg term w))).
Proof.
  destruct w as [st m]. unfold cached_name_version_A, cached_name_version, liftw. cbn [fst snd].
  destruct m as [r|]; [reflexivity|].
  rewrite get_name_version_A_always. cbn [core attr lift].
  destruct (get_name_version cost cfg term st) as [r st']. reflexivity.
Qed.

Lemma kitty_is_supported_A_always a w :
  kitty_is_supported_A cost cfg term always_flush (liftw a w)
  = (fst (kitty_is_supported cost cfg term w), liftw a (snd (kitty_is_supported cost cfg term w))).
Proof.
  unfold kitty_is_supported_A, kitty_is_supported. rewrite cached_name_version_A_always.
  destruct (cached_name_version cost cfg term w) as [nv w1]. cbn [fst snd].
  destruct (name_is (fst nv) "iterm2"); [reflexivity|].
  unfold liftw at 1. cbn [fst snd]. rewrite query_A_always. cbn [core attr lift].
  destruct (query cost cfg term more_kitty _ (fst w1)) as [resp st2]. reflexivity.
Qed.

Lemma iterm2_is_supported_A_always a w :
  iterm2_is_supported_A cost cfg term always_flush (liftw a w)
  = (fst (iterm2_is_supported cost cfg term w), liftw a (snd (iterm2_is_supported cost cfg term w))).
Proof.
  unfold iterm2_is_supported_A, iterm2_is_supported. rewrite cached_name_version_A_always.
  destruct (cached_name_version cost cfg term w) as [nv w1]. reflexivity.
Qed.

Lemma auto_image_class_A_always a w :
  auto_image_class_A cost cfg term always_flush (liftw a w)
  = (fst (auto_image_class cost cfg term w), liftw a (snd (auto_image_class cost cfg term w))).
Proof.
  unfold auto_image_class_A, auto_image_class. rewrite kitty_is_supported_A_always.
  destruct (kitty_is_supported cost cfg term w) as [k w1]. cbn [fst snd].
  destruct k; [reflexivity|].
  rewrite iterm2_is_supported_A_always.
  destruct (iterm2_is_supported cost cfg term w1) as [i w2]. cbn [fst snd].
  destruct i as [[|]|]; reflexivity.
Qed.

Lemma session_step_A_always a call w :
  session_step_A cost cfg term always_flush call (lifte a w)
  = (fst (session_step cost cfg term call w), lifte a (snd (session_step cost cfg term call w))).
Proof.
  destruct w as [[st mfg] mnv]. unfold lifte. cbn [fst snd].
  destruct call as [f|]; cbn [session_step_A session_step].
  - destruct (lookup_form f mfg) as [v|]; [reflexivity|].
    rewrite get_fg_bg_A_always. cbn [core attr lift].
    destruct (get_fg_bg cost cfg term st) as [r st']. cbn [fst snd].
    destruct r; reflexivity.
  - change (lift a st, mnv) with (liftw a (st, mnv)).
    rewrite cached_name_version_A_always.
    destruct (cached_name_version cost cfg term (st, mnv)) as [r w']. reflexivity.
Qed.

Lemma session_A_always a calls : forall w,
  session_A cost cfg term always_flush calls (lifte a w)
  = (fst (session cost cfg term calls w), lifte a (snd (session cost cfg term calls w))).
Proof.
  induction calls as [|call calls IH]; intros w; cbn [session_A session]; [reflexivity|].
  rewrite session_step_A_always.
  destruct (session_step cost cfg term call w) as [r w1]. cbn [fst snd].
  rewrite IH. destruct (session cost cfg term calls w1) as [rs w2]. reflexivity.
Qed.

(** ** a query forgets the input that was unread when it was made *)
Hypothesis Hen : enabled cfg = true.

Lemma filter_arrived st : arrived_all st -> filter (fun a => now st <? fst a) (pend st) = [].
Proof.
  unfold arrived_all. induction (pend st) as [|x l IH]; intros H; [reflexivity|].
  inversion H; subst. cbn [filter].
  replace (now st <? fst x) with false by (symmetry; apply Z.ltb_ge; assumption).
  now apply IH.
Qed.

Lemma query_clear more request st : arrived_all st ->
  query cost cfg term more request st = query cost cfg term more request (clear_input st).
Proof.
  intros H. unfold query. rewrite Hen. cbn [negb clear_input now pend tick written filter].
  now rewrite (filter_arrived st H).
Qed.

Lemma two_phase_clear request st : arrived_all st ->
  two_phase cost cfg term request st = two_phase cost cfg term request (clear_input st).
Proof. intros H. unfold two_phase. now rewrite (query_clear _ _ _ H). Qed.

Lemma get_fg_bg_clear st : arrived_all st ->
  get_fg_bg cost cfg term st = get_fg_bg cost cfg term (clear_input st).
Proof. intros H. unfold get_fg_bg. now rewrite (two_phase_clear _ _ H). Qed.

Lemma get_name_version_clear st : arrived_all st ->
  get_name_version cost cfg term st = get_name_version cost cfg term (clear_input st).
Proof. intros H. unfold get_name_version. now rewrite (two_phase_clear _ _ H). Qed.

Lemma get_cell_size_clear c0 st : arrived_all st -> cell_query_needed cfg c0 = true ->
  get_cell_size cost cfg term c0 st = get_cell_size cost cfg term c0 (clear_input st).
Proof. intros H Hn. unfold get_cell_size. rewrite Hn. now rewrite (query_clear _ _ _ H). Qed.

Lemma kitty_is_supported_clear st : arrived_all st ->
  kitty_is_supported cost cfg term (st, None) = kitty_is_supported cost cfg term (clear_input st, None).
Proof.
  intros H. unfold kitty_is_supported, cached_name_version. cbn [fst snd].
  now rewrite (get_name_version_clear _ H).
Qed.

Lemma auto_image_class_clear st : arrived_all st ->
  auto_image_class cost cfg term (st, None) = auto_image_class cost cfg term (clear_input st, None).
Proof. intros H. unfold auto_image_class. now rewrite (kitty_is_supported_clear _ H). Qed.

Lemma session_clear call calls st : arrived_all st ->
  session cost cfg term (call :: calls) (st, [], None)
  = session cost cfg term (call :: calls) (clear_input st, [], None).
Proof.
  intros H. cbn [session]. destruct call as [f|]; cbn [session_step lookup_form].
  - now rewrite (get_fg_bg_clear _ H).
  - unfold cached_name_version. cbn [fst snd]. now rewrite (get_name_version_clear _ H).
Qed.

(** over [ttyA]: whatever the attribute set [a] and the unread input, the query is the query
    made on an empty queue, and [a] is the attribute set afterwards *)
Lemma query_A_any_initial_state more request s : arrived_all (core s) ->
  query_A cost cfg term always_flush more request s
  = (fst (query cost cfg term more request (clear_input (core s))),
     lift (attr s) (snd (query cost cfg term more request (clear_input (core s))))).
Proof. intros H. rewrite query_A_always. now rewrite (query_clear _ _ _ H). Qed.

End Sim.

(** ** end to end from every initial state *)
Section InitEnd.
Variable cost : nat -> Z.
Variable c : Z.
Hypothesis cost_bounded : forall i, 0 <= cost i <= c.
Variable cfg : config.
Hypothesis Hen : enabled cfg = true.
Hypothesis Hto : 0 < qtimeout cfg.
Variable p : profile.
Hypothesis Hwf : wf_profile p = true.
Variable delays : list byte -> list Z.
Let term := profile_terminal p delays.

Lemma fg_bg_reports_profile_init s D :
  arrived_all (core s) -> timely c cfg term FGBG_request D ->
  exists s',
    get_fg_bg_A cost cfg term always_flush s = (Some (exp_fg_bg cfg p), s') /\
    pend (core s') = [] /\ attr s' = attr s /\
    written (core s') = written (core s) ++ [FGBG_request] /\
    now (core s) <= now (core s') <= now (core s) + qtimeout cfg
      + c * (Z.of_nat (length (stream (term FGBG_request))) + 4).
Proof.
  intros Ha Ht. rewrite get_fg_bg_A_always, (get_fg_bg_clear cost cfg term Hen _ Ha).
  destruct (fg_bg_reports_profile cost c cost_bounded cfg Hen Hto p Hwf delays
              (clear_input (core s)) D eq_refl Ht) as (st' & E & Hp & Hw & Hn).
  fold term in E. rewrite E. eexists; split; [reflexivity|]. cbn [fst snd lift core attr].
  repeat split; auto; apply Hn.
Qed.

Lemma name_version_reports_profile_init s D :
  arrived_all (core s) -> timely c cfg term XTV_request D ->
  exists s',
    get_name_version_A cost cfg term always_flush s = (exp_name_version cfg p, s') /\
    pend (core s') = [] /\ attr s' = attr s /\
    written (core s') = written (core s) ++ [XTV_request] /\
    now (core s) <= now (core s') <= now (core s) + qtimeout cfg
      + c * (Z.of_nat (length (stream (term XTV_request))) + 4).
Proof.
  intros Ha Ht. rewrite get_name_version_A_always, (get_name_version_clear cost cfg term Hen _ Ha).
  destruct (name_version_reports_profile cost c cost_bounded cfg Hen Hto p Hwf delays
              (clear_input (core s)) D eq_refl Ht) as (st' & E & Hp & Hw & Hn).
  fold term in E. rewrite E. eexists; split; [reflexivity|]. cbn [fst snd lift core attr].
  repeat split; auto; apply Hn.
Qed.

(** when no query is needed (the ioctl gave the pixel size) the terminal is not touched at
    all: the unread input stays where it was *)
Lemma cell_size_reports_profile_init c0 s D :
  cache_hit cfg c0 = false -> 0 < ws_cols cfg -> 0 < ws_rows cfg ->
  arrived_all (core s) -> timely c cfg term CELL_request D ->
  exists c1 s',
    get_cell_size_A cost cfg term always_flush c0 s = (exp_cell cfg p, c1, s') /\
    pend (core s') = (if cell_query_needed cfg c0 then [] else pend (core s)) /\
    attr s' = attr s /\
    now (core s) <= now (core s') <= now (core s) + qtimeout cfg + 2 * c.
Proof.
  intros Hc Hcols Hrows Ha Ht. rewrite get_cell_size_A_always.
  destruct (cell_query_needed cfg c0) eqn:En.
  - rewrite (get_cell_size_clear cost cfg term Hen _ _ Ha En).
    destruct (cell_size_reports_profile cost c cost_bounded cfg Hen Hto p Hwf delays c0
                (clear_input (core s)) D Hc Hcols Hrows eq_refl Ht) as (c1 & st' & E & Hp & Hn).
    fold term in E. rewrite E. exists c1. eexists; split; [reflexivity|].
    cbn [fst snd lift core attr]. repeat split; auto; apply Hn.
  - (* no query: the function does not look at the queue *)
    assert (Eq : get_cell_size cost cfg term c0 (core s)
                 = (fst (get_cell_size cost cfg term c0 (clear_input (core s))), core s)).
    { unfold get_cell_size. rewrite En. reflexivity. }
    destruct (cell_size_reports_profile cost c cost_bounded cfg Hen Hto p Hwf delays c0
                (clear_input (core s)) D Hc Hcols Hrows eq_refl Ht) as (c1 & st' & E & Hp & Hn).
    fold term in E. rewrite Eq, E. exists c1. eexists; split; [reflexivity|].
    cbn [fst snd lift core attr]. pose proof (c_nonneg cost c cost_bounded).
    repeat split; auto; lia.
Qed.

Lemma kitty_reports_profile_init s D1 D2 :
  arrived_all (core s) ->
  timely c cfg term XTV_request D1 -> timely c cfg term KITTY_request D2 ->
  exists s',
    kitty_is_supported_A cost cfg term always_flush (s, None)
    = (exp_kitty cfg p, (s', Some (exp_name_version cfg p))) /\
    pend (core s') = [] /\ attr s' = attr s /\
    now (core s) <= now (core s') <= now (core s) + 2 * qtimeout cfg
      + c * (Z.of_nat (length (stream (term XTV_request))) + 6).
Proof.
  intros Ha Ht1 Ht2.
  replace (s, @None (option (list byte) * option (list byte))) with (liftw (attr s) (core s, None))
    by (unfold liftw; cbn [fst snd]; now rewrite lift_core_attr).
  rewrite kitty_is_supported_A_always, (kitty_is_supported_clear cost cfg term Hen _ Ha).
  destruct (kitty_reports_profile cost c cost_bounded cfg Hen Hto p Hwf delays
              (clear_input (core s)) D1 D2 eq_refl Ht1 Ht2) as (st' & E & Hp & Hn).
  fold term in E. rewrite E. eexists; split; [reflexivity|]. cbn [fst snd lift core attr].
  repeat split; auto; apply Hn.
Qed.

Lemma auto_reports_profile_init s D1 D2 :
  arrived_all (core s) ->
  timely c cfg term XTV_request D1 -> timely c cfg term KITTY_request D2 ->
  exists s',
    auto_image_class_A cost cfg term always_flush (s, None)
    = (Some (exp_auto cfg p), (s', Some (exp_name_version cfg p))) /\
    pend (core s') = [] /\ attr s' = attr s /\
    now (core s) <= now (core s') <= now (core s) + 2 * qtimeout cfg
      + c * (Z.of_nat (length (stream (term XTV_request))) + 6).
Proof.
  intros Ha Ht1 Ht2.
  replace (s, @None (option (list byte) * option (list byte))) with (liftw (attr s) (core s, None))
    by (unfold liftw; cbn [fst snd]; now rewrite lift_core_attr).
  rewrite auto_image_class_A_always, (auto_image_class_clear cost cfg term Hen _ Ha).
  destruct (auto_reports_profile cost c cost_bounded cfg Hen Hto p Hwf delays
              (clear_input (core s)) D1 D2 eq_refl Ht1 Ht2) as (st' & E & Hp & Hn).
  fold term in E. rewrite E. eexists; split; [reflexivity|]. cbn [fst snd lift core attr].
  repeat split; auto; apply Hn.
Qed.

Lemma epoch_reports_profile_init D1 D2 :
  timely c cfg term FGBG_request D1 -> timely c cfg term XTV_request D2 ->
  forall s call calls, arrived_all (core s) ->
    fst (session_A cost cfg term always_flush (call :: calls) (s, [], None))
    = map (exp_call cfg p) (call :: calls) /\
    pend (core (fst (fst (snd (session_A cost cfg term always_flush (call :: calls) (s, [], None)))))) = [] /\
    attr (fst (fst (snd (session_A cost cfg term always_flush (call :: calls) (s, [], None))))) = attr s.
Proof.
  intros Ht1 Ht2 s call calls Ha.
  replace (s, @nil (fg_form * colour_value), @None (option (list byte) * option (list byte)))
    with (lifte (attr s) (core s, [], None))
    by (unfold lifte; cbn [fst snd]; now rewrite lift_core_attr).
  rewrite session_A_always, (session_clear cost cfg term Hen _ _ _ Ha).
  destruct (epoch_from_fresh cost c cost_bounded cfg Hen Hto p Hwf delays D1 D2 Ht1 Ht2
              (clear_input (core s)) (call :: calls) eq_refl) as [E Hp].
  fold term in E, Hp. cbn [fst snd]. split; [exact E|].
  destruct (snd (session cost cfg term (call :: calls) (clear_input (core s), [], None))) as [[st' m1] m2].
  cbn [lifte fst snd lift core attr] in *. now split.
Qed.

End InitEnd.

(** ** the variant that flushes (and restores) only when echo is on *)
Section Variant.
Variable cost : nat -> Z.
Variable cfg : config.
Variable term : terminal.

(** on an echoing terminal (a shell, a REPL) it is the code *)
Lemma flush_if_echo_agrees more request s : a_echo (attr s) = true ->
  query_A cost cfg term flush_if_echo more request s
  = query_A cost cfg term always_flush more request s.
Proof. intros H. unfold query_A, flush_if_echo, always_flush. now rewrite H. Qed.

(** with echo off it still leaves the attributes as met — and the unread input in front of
    the reply *)
Lemma flush_if_echo_keeps_input more request s : a_echo (attr s) = false -> enabled cfg = true ->
  query_A cost cfg term flush_if_echo more request s
  = (let (inp, s2) := timed_read_A cost more (qtimeout cfg) (write_A cost term request s) in (Some inp, s2)).
Proof. intros H He. unfold query_A, flush_if_echo. now rewrite H, He. Qed.

End Variant.

(** non-vacuity + refutation on the concrete terminal of QueryEndProofs ([ex_profile]: kitty
    0.26.5 answering every query): two keys "jk" typed ahead / a stale DA1 reply nobody read *)
Definition ex_typeahead : list byte := bs "jk".
Definition ex_stale_da1 : list byte := CSI ++ bs "?62;c".

Example ex_init_hypotheses :
  arrived_all (core (ttyA_init cbreak ex_typeahead)) /\
  arrived_all (core (ttyA_init rawmode ex_stale_da1)) /\
  pend (core (ttyA_init cbreak ex_typeahead)) <> [] /\
  a_echo cbreak = false /\ a_echo rawmode = false /\ a_echo cooked = true.
Proof.
  repeat split; try discriminate; unfold arrived_all; cbn; repeat constructor; discriminate.
Qed.

(** the code, from cbreak with type-ahead: the profile's answers, nothing unread, cbreak left *)
Example ex_init_answers :
  let term := profile_terminal ex_profile ex_delays in
  let s := ttyA_init cbreak ex_typeahead in
  fst (get_name_version_A (fun _ => 1) ex_cfg term always_flush s) = exp_name_version ex_cfg ex_profile /\
  pend (core (snd (get_name_version_A (fun _ => 1) ex_cfg term always_flush s))) = [] /\
  attr (snd (get_name_version_A (fun _ => 1) ex_cfg term always_flush s)) = cbreak /\
  fst (auto_image_class_A (fun _ => 1) ex_cfg term always_flush (s, None)) = Some Kitty.
Proof. repeat split; vm_compute; reflexivity. Qed.

(** the variant, same terminal, same (correct, timely) replies: name/version, cell size and
    the style derived from them are NOT what the terminal said; from the cooked mode it is
    fine — which is why a shell session never shows it *)
Example flush_if_echo_refuted :
  let term := profile_terminal ex_profile ex_delays in
  let s := ttyA_init cbreak ex_typeahead in
  fst (get_name_version_A (fun _ => 1) ex_cfg term flush_if_echo s) = (None, None) /\
  fst (get_name_version_A (fun _ => 1) ex_cfg term flush_if_echo s) <> exp_name_version ex_cfg ex_profile /\
  fst (fst (get_cell_size_A (fun _ => 1) ex_cfg term flush_if_echo (0, 0, 0, 0) s)) = CsNone /\
  exp_cell ex_cfg ex_profile = CsSize 10 20 /\
  fst (auto_image_class_A (fun _ => 1) ex_cfg term flush_if_echo (s, None)) = Some Block /\
  exp_auto ex_cfg ex_profile = Kitty /\
  fst (get_name_version_A (fun _ => 1) ex_cfg term flush_if_echo (ttyA_init cooked ex_typeahead))
    = exp_name_version ex_cfg ex_profile.
Proof. repeat split; try (vm_compute; reflexivity). vm_compute. discriminate. Qed.

(** a stale DA1 reply in the queue of a raw-mode terminal: the variant stops reading at the
    stale CSI, reports no colours, and the real replies are left behind or lost *)
Example flush_if_echo_refuted_stale_reply :
  let term := profile_terminal ex_profile ex_delays in
  let s := ttyA_init rawmode ex_stale_da1 in
  fst (get_fg_bg_A (fun _ => 1) ex_cfg term flush_if_echo s) = Some (None, None) /\
  fst (get_fg_bg_A (fun _ => 1) ex_cfg term always_flush s) = Some (exp_fg_bg ex_cfg ex_profile) /\
  exp_fg_bg ex_cfg ex_profile = (Some (255, 255, 255), Some (0, 128, 171)).
Proof. repeat split; vm_compute; reflexivity. Qed.

(** the refutation as a statement: a well-formed profile, timely replies, a no-echo attribute
    set, unread input that has arrived — and the variant does not report what the terminal said *)
Lemma flush_if_echo_refuted_exists :
  exists cfg p delays a q0 D,
    enabled cfg = true /\ 0 < qtimeout cfg /\ wf_profile p = true /\
    timely 1 cfg (profile_terminal p delays) XTV_request D /\
    a_echo a = false /\ arrived_all (core (ttyA_init a q0)) /\
    fst (get_name_version_A (fun _ => 1) cfg (profile_terminal p delays) flush_if_echo (ttyA_init a q0))
      <> exp_name_version cfg p /\
    fst (get_name_version_A (fun _ => 1) cfg (profile_terminal p delays) always_flush (ttyA_init a q0))
      = exp_name_version cfg p.
Proof.
  exists ex_cfg, ex_profile, ex_delays, cbreak, ex_typeahead, 3.
  split; [reflexivity|]. split; [reflexivity|]. split; [vm_compute; reflexivity|].
  split; [apply ex_timely; cbn; auto|]. split; [reflexivity|].
  split; [apply ex_init_hypotheses|].
  split; [vm_compute; discriminate|vm_compute; reflexivity].
Qed.
