(** Proofs about [model/RArgsShape.v]: the initial set is validated whatever follows it and
    whatever set it is; mix-ins in a render class statement do not cut the hierarchy. *)
From Coq Require Import List ZArith Bool Arith.
Import ListNotations.
From TI Require Import model.RArgs model.RArgsShape model.RArgsShapeTie.

Local Arguments Nat.eqb : simpl never.

(** ** 1. The initial set *)

Lemma rinit_errors : forall F h self cls init nss e,
    rinit F h self cls init nss = Err e -> e = EBadOperand \/ e = EIncompatNS.
Proof.
  intros F h self cls init nss e H. unfold rinit in H.
  destruct (hp h self) as [so|]; [|injection H as <-; left; reflexivity].
  destruct (init_info h init) as [ii|]; [|injection H as <-; left; reflexivity].
  destruct (_ && is_some _); [discriminate|].
  destruct (match ii with Some (i, _, _, _) => Nat.eqb i self | None => false end); [discriminate|].
  destruct (assign_all _ nss); [discriminate|].
  injection H as <-. right. reflexivity.
Qed.

Lemma init_info_some : forall h init i ki ci di,
    init_info h init = Some (Some (i, ki, ci, di)) -> init = Some i /\ getobj h i = Some (ki, ci, di).
Proof.
  intros h init i ki ci di H. unfold init_info in H. destruct init as [j|]; [|discriminate].
  destruct (getobj h j) as [[[k c] d]|] eqn:G; [|discriminate].
  injection H as <- <- <- <-. split; [reflexivity|exact G].
Qed.

Lemma rnew_errors : forall F h k cls init nss e,
    rnew F h k cls init nss = Err e ->
    e = EBadOperand \/
    (e = EIncompatRA /\ exists i ki ci di, init = Some i /\ getobj h i = Some (ki, ci, di) /\
                                          anc F ci cls = false).
Proof.
  intros F h k cls init nss e H. unfold rnew in H.
  destruct (init_info h init) as [ii|] eqn:II; [|injection H as <-; left; reflexivity].
  destruct ii as [[[[i ki] ci] di]|].
  - destruct (anc F ci cls) eqn:A; simpl in H.
    + destruct nss; [|discriminate].
      destruct (Nat.eqb i BASE || oeqb (itn h k ci) i); [destruct (itn h k cls)|]; try discriminate;
        destruct (Nat.eqb ki k && Nat.eqb ci cls); discriminate.
    + injection H as <-. right. split; [reflexivity|].
      apply init_info_some in II. destruct II as [E G]. exists i, ki, ci, di. auto.
  - destruct nss; [|discriminate].
    destruct (default_like h k None); [destruct (itn h k cls)|]; discriminate.
Qed.

Lemma construct_errors : forall F h k cls init nss e,
    snd (construct F h k cls init nss) = Err e ->
    e = EBadOperand \/ e = EIncompatNS \/
    (e = EIncompatRA /\ exists i ki ci di, init = Some i /\ getobj h i = Some (ki, ci, di) /\
                                          anc F ci cls = false).
Proof.
  intros F h k cls init nss e H. unfold construct in H.
  destruct (rnew F h k cls init nss) as [[h1 self]|e0] eqn:RN.
  - destruct (rinit F h1 self cls init nss) as [h2|e1] eqn:RI; simpl in H; [discriminate|].
    injection H as <-. apply rinit_errors in RI. destruct RI; auto.
  - simpl in H. injection H as <-. apply rnew_errors in RN. destruct RN; auto.
Qed.

Lemma init_rejected_iff : forall F h k cls i ki ci di nss,
    getobj h i = Some (ki, ci, di) ->
    (snd (construct F h k cls (Some i) nss) = Err EIncompatRA <-> anc F ci cls = false).
Proof.
  intros F h k cls i ki ci di nss G. split.
  - intro H. apply construct_errors in H.
    destruct H as [H|[H|[_ (i' & ki' & ci' & di' & E & G' & A)]]]; try discriminate.
    injection E as <-. rewrite G in G'. injection G' as <- <- <-. exact A.
  - intro A. unfold construct, rnew, init_info. rewrite G. rewrite A. reflexivity.
Qed.

(** the full statement: whether [K(cls, init, *nss)] raises IncompatibleRenderArgsError is a
    function of the class of [init] and of [cls] alone: not of the namespaces that follow,
    not of the heap (is [init] BASE, an interned default set, any other set), not of [K] *)
Lemma initial_set_compatibility_independent : forall F,
    (forall h k cls init nss,
        construct_p CheckAlways F h k cls init nss = construct F h k cls init nss) /\
    (forall h k cls i ki ci di nss,
        getobj h i = Some (ki, ci, di) ->
        (snd (construct F h k cls (Some i) nss) = Err EIncompatRA <-> anc F ci cls = false)) /\
    (forall cls ci h k i ki di nss h' k' i' ki' di' nss',
        getobj h i = Some (ki, ci, di) -> getobj h' i' = Some (ki', ci, di') ->
        (snd (construct F h k cls (Some i) nss) = Err EIncompatRA <->
         snd (construct F h' k' cls (Some i') nss') = Err EIncompatRA)).
Proof.
  intro F. split; [|split].
  - intros h k cls init nss. unfold construct_p.
    destruct (init_info h init) as [[[[[i ki] ci] di]|]|]; try reflexivity.
    simpl. rewrite andb_false_r. reflexivity.
  - exact (init_rejected_iff F).
  - intros cls ci h k i ki di nss h' k' i' ki' di' nss' G G'.
    rewrite (init_rejected_iff F h k cls i ki ci di nss G).
    rewrite (init_rejected_iff F h' k' cls i' ki' ci di' nss' G'). tauto.
Qed.

(** 1 = A(Args), 2 = B(A)(Args), 3 = C(A)(Args): siblings B and C *)
Definition F_sib : forest := mkF [0; 0; 1; 1] [None; Some [1%Z]; Some [2%Z]; Some [3%Z]].
(** after [RenderArgs(C)]: object 1 is the interned default set of C *)
Definition h_sib : heap := fst (construct F_sib heap0 0 3 None []).

(** non-vacuity: the interned default set of a sibling, followed by a namespace: rejected *)
Example sibling_default_then_namespace :
  getobj h_sib 1 = Some (0, 3, [(3, [3%Z]); (1, [1%Z])]) /\
  default_like h_sib 0 (Some (1, 0, 3, [])) = true /\
  snd (construct F_sib h_sib 0 2 (Some 1) [(2, [20%Z])]) = Err EIncompatRA /\
  snd (construct F_sib h_sib 0 2 (Some 1) []) = Err EIncompatRA.
Proof. vm_compute. repeat split; reflexivity. Qed.

Lemma check_only_when_used_refuted :
  exists F h k cls i ki ci di nss id,
    getobj h i = Some (ki, ci, di) /\ anc F ci cls = false /\
    snd (construct_p CheckWhenUsed F h k cls (Some i) nss) = Ok id /\
    snd (construct F h k cls (Some i) nss) = Err EIncompatRA /\
    spec_construct F cls (Some {| s_cls := ci; s_ns := dget di |}) nss = Err EIncompatRA /\
    (* without namespaces, or with a non-default initial set, the designs agree *)
    snd (construct_p CheckWhenUsed F h k cls (Some i) []) = Err EIncompatRA.
Proof.
  exists F_sib, h_sib, 0, 2, 1, 0, 3, [(3, [3%Z]); (1, [1%Z])], [(2, [20%Z])], 2.
  vm_compute. repeat split; reflexivity.
Qed.

(** ** 2. Mix-ins *)

Lemma walk_skip_app : forall l m,
    walk SkipNonRender (l ++ m) = walk SkipNonRender l ++ walk SkipNonRender m.
Proof.
  induction l as [|[c|c j] l IH]; intro m; simpl; [reflexivity| |apply IH].
  rewrite IH. reflexivity.
Qed.

Lemma walk_skip_mix : forall c n lo, walk SkipNonRender (mix_items c lo n) = [].
Proof.
  intros c. unfold mix_items. induction n as [|n IH]; intro lo; simpl; [reflexivity|apply IH].
Qed.

Lemma walk_skip_ins : forall g mid l,
    walk SkipNonRender mid = [] ->
    walk SkipNonRender (ins_before g mid l) = walk SkipNonRender l.
Proof.
  intros g mid l M. induction l as [|[c|c j] l IH]; simpl; [reflexivity| |exact IH].
  destruct (Nat.eqb c g); simpl.
  - rewrite walk_skip_app, M. reflexivity.
  - rewrite IH. reflexivity.
Qed.

Lemma walk_skip_mro : forall p mx fuel c,
    walk SkipNonRender (mro_f p mx fuel c) = chain_f p fuel c.
Proof.
  intros p mx. induction fuel as [|f IH]; intro c; simpl.
  - rewrite !walk_skip_app, !walk_skip_mix. reflexivity.
  - rewrite !walk_skip_app, walk_skip_ins, !walk_skip_mix by apply walk_skip_mix. simpl.
    destruct (Nat.eqb c 0); simpl; [reflexivity|]. rewrite IH. rewrite app_nil_r. reflexivity.
Qed.

Lemma existsb_filter_eqb' : forall (h : nat -> bool) c l,
    existsb (Nat.eqb c) (filter h l) = existsb (Nat.eqb c) l && h c.
Proof.
  intros h c. induction l as [|a l IH]; simpl; [reflexivity|].
  destruct (h a) eqn:Ha; simpl; rewrite IH.
  - destruct (Nat.eqb c a) eqn:E; simpl; [|reflexivity].
    apply Nat.eqb_eq in E. subst a. rewrite Ha. reflexivity.
  - destruct (Nat.eqb c a) eqn:E; simpl; [|reflexivity].
    apply Nat.eqb_eq in E. subst a. rewrite Ha. rewrite andb_false_r. reflexivity.
Qed.

Lemma held_skip_keys : forall F mx c, held SkipNonRender F mx c = keys F c.
Proof.
  intros F mx c. unfold held, mro, keys, chain. rewrite walk_skip_mro. reflexivity.
Qed.

(** the full statement: for EVERY forest and EVERY placement of mix-ins (any number before
    and after the render base, in every class of the chain), the owner classes whose default
    namespace a set for [c] holds are the render classes of the MRO that own a namespace
    class = [keys] of the mix-in-free forest, membership is the rule, and nothing depends on
    the mix-ins *)
Lemma mixins_do_not_cut_the_hierarchy : forall F mx c,
    walk SkipNonRender (mro F mx c) = chain F c /\
    held SkipNonRender F mx c = keys F c /\
    (forall a, existsb (Nat.eqb a) (held SkipNonRender F mx c) = in_hierarchy F c a) /\
    (forall mx', held SkipNonRender F mx' c = held SkipNonRender F mx c) /\
    defaults F c = map (fun k => (k, dflt F k)) (held SkipNonRender F mx c).
Proof.
  intros F mx c. split; [apply walk_skip_mro|]. split; [apply held_skip_keys|].
  split; [|split].
  - intro a. rewrite held_skip_keys. unfold in_hierarchy, ns_compatible, keys, anc. simpl.
    apply existsb_filter_eqb'.
  - intro mx'. rewrite !held_skip_keys. reflexivity.
  - rewrite held_skip_keys. reflexivity.
Qed.

(** the forest of the demo: 1 = A(Args), 2 = B(A)(Args), 3 = Q(Mixin, B)(Args), 4 = R(Q) *)
Definition F_mix : forest := mkF [0; 0; 1; 2; 3] [None; Some [1%Z]; Some [2%Z]; Some [4%Z]; None].
Definition mx_before_Q : mixes := mk_mixes [0; 0; 0; 1; 0] [0; 0; 1; 0; 0] [] [].
(** [class Q(B, Mixin, A)], [class R(Mixin', Q, Mixin'', Renderable)] *)
Definition mx_between : mixes := mk_mixes [0; 0; 0; 0; 1] [] [0; 0; 0; 1; 1] [0; 0; 0; 1; 0].

(** non-vacuity: mix-ins before AND after a render base, in two classes of one chain *)
Example mro_with_mixins :
  map enc (mro F_mix mx_before_Q 4) = [(4, 0); (3, 0); (3, 1); (2, 0); (1, 0); (0, 0); (2, 1)] /\
  held SkipNonRender F_mix mx_before_Q 4 = [3; 2; 1] /\
  held StopAtNonRender F_mix mx_before_Q 4 = [3] /\
  held StopAtNonRender F_mix mx_before_Q 2 = [2; 1] /\
  map enc (mro F_mix mx_between 4) = [(4, 0); (4, 1); (3, 0); (2, 0); (3, 1); (1, 0); (4, 2); (0, 0)] /\
  held SkipNonRender F_mix mx_between 3 = [3; 2; 1] /\ held StopAtNonRender F_mix mx_between 3 = [3; 2].
Proof. vm_compute. repeat split; reflexivity. Qed.

Lemma ins_before_nil : forall g l, ins_before g [] l = l.
Proof.
  intros g. induction l as [|[c|c j] l IH]; simpl; [reflexivity| |rewrite IH; reflexivity].
  destruct (Nat.eqb c g); [reflexivity|rewrite IH; reflexivity].
Qed.

Lemma walk_stop_no_mixes : forall p fuel c,
    walk StopAtNonRender (mro_f p no_mixes fuel c) = chain_f p fuel c.
Proof.
  intros p. induction fuel as [|f IH]; intro c; simpl; [reflexivity|].
  rewrite ins_before_nil.
  destruct (Nat.eqb c 0); simpl; [reflexivity|]. rewrite app_nil_r. rewrite IH. reflexivity.
Qed.

Lemma stop_at_first_non_render_class_refuted :
  (* indistinguishable on statements without mix-ins ... *)
  (forall F c, held StopAtNonRender F no_mixes c = keys F c) /\
  (* ... but a mix-in before the render base cuts off every ancestor *)
  (exists F mx c a, in_hierarchy F c a = true /\
                    existsb (Nat.eqb a) (held StopAtNonRender F mx c) = false /\
                    existsb (Nat.eqb a) (held SkipNonRender F mx c) = true).
Proof.
  split.
  - intros F c. unfold held, mro, keys, chain. rewrite walk_stop_no_mixes. reflexivity.
  - exists F_mix, mx_before_Q, 4, 1. vm_compute. repeat split; reflexivity.
Qed.

(** the comparison of the correspondence accepts what the model says, on a concrete case, and
    flags the cut hierarchy as a contradiction of the rule *)
Example mxcheck_example :
  let c held3 acc3 :=
      {| mc_par := [0; 0; 1; 2]; mc_own := [false; true; true; true];
         mc_before := [0; 0; 0; 1]; mc_after := [0; 0; 1; 0]; mc_mid := []; mc_g := [];
         mc_mro := [[(0, 0)]; [(1, 0); (0, 0)]; [(2, 0); (1, 0); (0, 0); (2, 1)];
                    [(3, 0); (3, 1); (2, 0); (1, 0); (0, 0); (2, 1)]];
         mc_held := [[]; [1]; [2; 1]; held3];
         mc_acc := [[9; 2; 2; 2]; [9; 0; 2; 2]; [9; 0; 0; 2]; acc3] |} in
  mxcheck (c [3; 2; 1] [9; 0; 0; 0]) = 0 /\ mxcheck (c [3] [9; 2; 2; 0]) = 3 /\
  mxcheck (c [1; 2; 3] [9; 0; 0; 0]) = 1.
Proof. vm_compute. repeat split; reflexivity. Qed.
