(** C09, round 9 — the image iterator's cache under histories of SETTING changes (incl. a
    change of KIND: fixed <-> dynamic, member -> member) and ENVIRONMENT changes (terminal
    size, cell ratio, cell size, each alone).  Corollaries of C11's simulation
    (proofs/ImgIterProofs.v, proofs/ImgIterEnvProofs.v) at the environment type
    [model/ImgIterRsz.v env3], and the two excluded stamps refuted.
    Lemmas only; restated in props/C09.v. *)
From Coq Require Import List ZArith Bool Arith Lia.
Import ListNotations.
From TI Require Import model.ImgIter model.ImgIterSpec model.ImgIterEnv model.ImgIterRsz
                       proofs.ImgIterProofs proofs.ImgIterEnvProofs.

Set Implicit Arguments.
Local Open Scope Z_scope.

Section RszProofs.
  Variables Str Size : Type.
  Variable fixed_size : Z -> Z -> Size.
  Variable rsize_dyn : nat -> env3 -> Size.
  Variable fmt_frame : nat -> Size -> res Str.
  Variable hash : Size -> Z.
  Variable N : nat.

  Notation rsize := (rsize fixed_size rsize_dyn).
  Notation lower := (lower rsize).
  Notation eop := (eop setting env3).

  (** TRANSPARENT CACHING over every history of next / seek / close / drop / setting change
      (whatever the kind before and after) / environment change (whichever component): with
      the stamp hash(rsize setting env) evaluated per frame the caller cannot tell the caching
      iterator from the non-caching one. *)
  Lemma rsz_cache_transparent : forall repeat pos0 g0 e0 (ops : list eop),
    renderer_ok fmt_frame N -> repeat <> 0 ->
    hash_separates hash (sizes_of (rsize g0 e0) (lower g0 e0 ops)) ->
    trace fmt_frame hash N true (init Str repeat pos0 (rsize g0 e0)) (lower g0 e0 ops) =
    trace fmt_frame hash N false (init Str repeat pos0 (rsize g0 e0)) (lower g0 e0 ops).
  Proof. intros. apply imgiter_cache_transparent; assumption. Qed.

  (** the size the generator reads when it validates a cached frame is the rendered size of
      the setting and the environment in force THEN *)
  Lemma rsz_size_is_current : forall cached repeat pos0 g0 e0 (ops : list eop),
    renderer_ok fmt_frame N -> repeat <> 0 ->
    (cached = true -> hash_separates hash (sizes_of (rsize g0 e0) (lower g0 e0 ops))) ->
    size (after fmt_frame hash N cached repeat pos0 (rsize g0 e0) (lower g0 e0 ops)) =
    rsize (fst (cur g0 e0 ops)) (snd (cur g0 e0 ops)).
  Proof.
    intros cached repeat pos0 g0 e0 ops Hr Hrep Hh.
    destruct (@reach _ _ fmt_frame hash N cached repeat pos0 (rsize g0 e0) (lower g0 e0 ops) Hr Hrep Hh) as (_ & HR).
    destruct HR as (_ & Hz & _).
    unfold ImgIter.after. rewrite <- Hz, srun_ssize.
    cbn [sinit ssize].
    change (rsize g0 e0) with (rsz rsize (g0, e0)). rewrite last_size_lower. reflexivity.
  Qed.

  (** A CACHED ENTRY IS SERVED ONLY FOR THE RENDERED SIZE IT WAS MADE FOR.  After every such
      history of a caching iterator: an entry (f, h) of the cache that passes the validity
      test under the current setting and environment (h = hash (rsize setting env)) was
      rendered at a size z that IS the current rendered size, and f is the direct formatting
      of that frame at the current rendered size. *)
  Lemma rsz_served_entry_current : forall repeat pos0 g0 e0 (ops : list eop) k f h,
    renderer_ok fmt_frame N -> repeat <> 0 ->
    hash_separates hash (sizes_of (rsize g0 e0) (lower g0 e0 ops)) ->
    let s := after fmt_frame hash N true repeat pos0 (rsize g0 e0) (lower g0 e0 ops) in
    let zc := rsize (fst (cur g0 e0 ops)) (snd (cur g0 e0 ops)) in
    ph s = P1 \/ ph s = P2 ->
    nth k (cache s) None = Some (f, h) ->
    h = hash zc ->
    exists z, h = hash z /\ fmt_frame k z = Ok f /\ z = zc /\ fmt_frame k zc = Ok f.
  Proof.
    intros repeat pos0 g0 e0 ops k f h Hr Hrep Hh s zc Hph Hnth Hhz.
    assert (Hsz : size s = zc).
    { apply rsz_size_is_current; auto. }
    destruct (@reach _ _ fmt_frame hash N true repeat pos0 (rsize g0 e0) (lower g0 e0 ops) Hr Hrep (fun _ => Hh)) as (HI & _).
    fold (after fmt_frame hash N true repeat pos0 (rsize g0 e0) (lower g0 e0 ops)) in HI. fold s in HI.
    destruct HI as (Hin & Hm).
    assert (Hok : cache_ok fmt_frame hash (sizes_of (rsize g0 e0) (lower g0 e0 ops)) (cache s)).
    { destruct Hph as [E|E]; rewrite E in Hm.
      - destruct Hm as (_ & _ & _ & _ & Hc). destruct (Hc eq_refl) as (_ & Hc'). exact Hc'.
      - destruct Hm as (_ & _ & _ & _ & _ & (_ & Hc')). exact Hc'. }
    destruct (Hok _ _ _ Hnth) as (z & Hz & Hhz' & Hf).
    assert (z = zc).
    { rewrite <- Hsz. apply Hh; auto. rewrite Hsz, <- Hhz, <- Hhz'. reflexivity. }
    subst z. exists zc. auto.
  Qed.

  (** when the setting was dynamic at creation the "kind at creation" stamp is the code's *)
  Lemma stamp_kind_dyn0 : forall hm ge,
    stamp_kind_at_creation fixed_size rsize_dyn hash hm true ge = stamp_rendered fixed_size rsize_dyn hash ge.
  Proof. reflexivity. Qed.
End RszProofs.

(* ====================================================================== *)
(** * A concrete instance (non-vacuity) and the two excluded stamps *)

(** a dynamic size that depends on every component of the environment *)
Definition ex_dyn (m : nat) (e : env3) : Z * Z :=
  (fst (term_size e) + Z.of_nat m,
   snd (term_size e) * fst (cell_ratio e) * 10 / (snd (cell_ratio e) * fst (cell_size e))).
Definition ex_rs := rsize (@pair Z Z) ex_dyn.
Definition ex_hash (z : Z * Z) : Z := fst z * 1000 + snd z.
Definition ex_hst (m : nat) (t : Z * Z) : Z := Z.of_nat m * 1000000 + fst t * 1000 + snd t.
Definition ex_hm (m : nat) : Z := - Z.of_nat m - 1.
Definition ex_fmt (k : nat) (z : Z * Z) : res Z :=
  if (k <? 2)%nat then Ok (fst z * 100000 + snd z * 100 + Z.of_nat k)
  else if (k =? 2)%nat then Eof else Err.
Definition e_a : env3 := {| term_size := (40, 12); cell_ratio := (1, 2); cell_size := (10, 20) |}.

Example ex_renderer_ok : renderer_ok ex_fmt 2.
Proof.
  split; [lia|]. split; [reflexivity|].
  intros k z Hk. unfold ex_fmt. destruct (Nat.ltb_spec k 2); [discriminate|lia].
Qed.

Example ex_each_component_matters :
  ex_rs (Dyn 0) e_a = (40, 6) /\
  ex_rs (Dyn 0) (with_term e_a (30, 8)) = (30, 4) /\
  ex_rs (Dyn 0) (with_ratio e_a (1, 1)) = (40, 12) /\
  ex_rs (Dyn 0) (with_cell e_a (5, 20)) = (40, 12) /\
  ex_rs (Fixed 7 3) (with_ratio e_a (1, 1)) = (7, 3).
Proof. vm_compute. repeat split. Qed.

Notation EN := (@ENext setting env3).

(** the cache is filled under environment [e_a]; one cached frame; ONE component of the
    environment changes; the rest of the cached loop and the next one *)
Definition env_change_history (e' : env3) : list (eop setting env3) :=
  [EN; EN; EN; ESetEnv e'; EN; EN; EN].

(** fixed at creation; the cache is filled; the setting becomes DYNAMIC in the cached loop
    (frames refreshed); then the terminal is resized *)
Definition kind_change_history : list (eop setting env3) :=
  [EN; EN; EN; ESetSize (Dyn 0); EN; EN; ESetEnv (with_term e_a (30, 8)); EN; EN; EN].

(** the code's stamp on these histories: the hypotheses of the theorems hold, and the traces
    with and without cache coincide *)
Example rsz_premises_ratio :
  hash_separates ex_hash (sizes_of (ex_rs (Dyn 0) e_a) (lower ex_rs (Dyn 0) e_a (env_change_history (with_ratio e_a (1, 1))))).
Proof.
  intros a b Ha Hb. vm_compute in Ha, Hb.
  destruct Ha as [<-|[<-|[]]]; destruct Hb as [<-|[<-|[]]]; vm_compute; intros; congruence.
Qed.

Example rsz_transparent_ratio :
  trace ex_fmt ex_hash 2 true (init Z (-1) 0 (ex_rs (Dyn 0) e_a)) (lower ex_rs (Dyn 0) e_a (env_change_history (with_ratio e_a (1, 1)))) =
  trace ex_fmt ex_hash 2 false (init Z (-1) 0 (ex_rs (Dyn 0) e_a)) (lower ex_rs (Dyn 0) e_a (env_change_history (with_ratio e_a (1, 1)))).
Proof. apply rsz_cache_transparent; [exact ex_renderer_ok|discriminate|exact rsz_premises_ratio]. Qed.

Definition code_stamp_agrees (g0 : setting) (h : list (eop setting env3)) : Prop :=
  trace (fmt_env ex_rs ex_fmt) (stamp_rendered (@pair Z Z) ex_dyn ex_hash) 2 true (init Z (-1) 0 (g0, e_a)) (lower2 g0 e_a h) =
  trace (fmt_env ex_rs ex_fmt) (stamp_rendered (@pair Z Z) ex_dyn ex_hash) 2 false (init Z (-1) 0 (g0, e_a)) (lower2 g0 e_a h).

Example rsz_code_stamp_on_witnesses :
  code_stamp_agrees (Dyn 0) (env_change_history (with_term e_a (30, 8))) /\
  code_stamp_agrees (Dyn 0) (env_change_history (with_ratio e_a (1, 1))) /\
  code_stamp_agrees (Dyn 0) (env_change_history (with_cell e_a (5, 20))) /\
  code_stamp_agrees (Fixed 7 3) kind_change_history.
Proof. unfold code_stamp_agrees. repeat split; vm_compute; reflexivity. Qed.

(** EXCLUDED: the stamp (setting, terminal size).  A terminal resize is seen ... *)
Example stamp_setting_term_sees_resize :
  trace (fmt_env ex_rs ex_fmt) (stamp_setting_term (@pair Z Z) ex_hash ex_hst) 2 true (init Z (-1) 0 (Dyn 0, e_a))
        (lower2 (Dyn 0) e_a (env_change_history (with_term e_a (30, 8)))) =
  trace (fmt_env ex_rs ex_fmt) (stamp_setting_term (@pair Z Z) ex_hash ex_hst) 2 false (init Z (-1) 0 (Dyn 0, e_a))
        (lower2 (Dyn 0) e_a (env_change_history (with_term e_a (30, 8)))).
Proof. vm_compute. reflexivity. Qed.

(** ... a cell-ratio change (and likewise a cell-size change) is not: after it the caching
    iterator yields the frames of the old rendered size where the non-caching one renders at
    the new one *)
Lemma stamp_setting_term_refuted :
  exists (e' : env3) (ops : list (eop setting env3)),
    term_size e' = term_size e_a /\
    trace (fmt_env ex_rs ex_fmt) (stamp_setting_term (@pair Z Z) ex_hash ex_hst) 2 true (init Z (-1) 0 (Dyn 0, e_a))
          (lower2 (Dyn 0) e_a ops) <>
    trace (fmt_env ex_rs ex_fmt) (stamp_setting_term (@pair Z Z) ex_hash ex_hst) 2 false (init Z (-1) 0 (Dyn 0, e_a))
          (lower2 (Dyn 0) e_a ops).
Proof.
  exists (with_ratio e_a (1, 1)), (env_change_history (with_ratio e_a (1, 1))).
  split; [reflexivity|]. vm_compute. discriminate.
Qed.

Example stamp_setting_term_refuted_cell_size :
  trace (fmt_env ex_rs ex_fmt) (stamp_setting_term (@pair Z Z) ex_hash ex_hst) 2 true (init Z (-1) 0 (Dyn 0, e_a))
        (lower2 (Dyn 0) e_a (env_change_history (with_cell e_a (5, 20)))) <>
  trace (fmt_env ex_rs ex_fmt) (stamp_setting_term (@pair Z Z) ex_hash ex_hst) 2 false (init Z (-1) 0 (Dyn 0, e_a))
        (lower2 (Dyn 0) e_a (env_change_history (with_cell e_a (5, 20)))).
Proof. vm_compute. discriminate. Qed.

(** EXCLUDED: the kind of the setting decided when the iterator is created.  With a setting
    that stays fixed (fixed -> fixed) nothing can be seen ... *)
Example stamp_kind_fixed_to_fixed_agrees :
  let h := [EN; EN; EN; ESetSize (Fixed 9 2); EN; EN; ESetEnv (with_term e_a (30, 8)); EN; EN; EN] in
  trace (fmt_env ex_rs ex_fmt) (stamp_kind_at_creation (@pair Z Z) ex_dyn ex_hash ex_hm false) 2 true (init Z (-1) 0 (Fixed 7 3, e_a))
        (lower2 (Fixed 7 3) e_a h) =
  trace (fmt_env ex_rs ex_fmt) (stamp_kind_at_creation (@pair Z Z) ex_dyn ex_hash ex_hm false) 2 false (init Z (-1) 0 (Fixed 7 3, e_a))
        (lower2 (Fixed 7 3) e_a h).
Proof. vm_compute. reflexivity. Qed.

(** ... fixed at creation, dynamic later, then a terminal resize: the frames cached since the
    switch are served stale *)
Lemma stamp_kind_at_creation_refuted :
  exists (g0 : setting) (ops : list (eop setting env3)),
    is_dyn g0 = false /\
    trace (fmt_env ex_rs ex_fmt) (stamp_kind_at_creation (@pair Z Z) ex_dyn ex_hash ex_hm (is_dyn g0)) 2 true (init Z (-1) 0 (g0, e_a))
          (lower2 g0 e_a ops) <>
    trace (fmt_env ex_rs ex_fmt) (stamp_kind_at_creation (@pair Z Z) ex_dyn ex_hash ex_hm (is_dyn g0)) 2 false (init Z (-1) 0 (g0, e_a))
          (lower2 g0 e_a ops).
Proof.
  exists (Fixed 7 3), kind_change_history.
  split; [reflexivity|]. vm_compute. discriminate.
Qed.

(* ====================================================================== *)
(** * KNOWN FINDING: a frame that depends on the environment beyond the rendered size

    The theorems above take the formatting of a frame to be a function of (frame number,
    rendered size).  For the graphics-based styles the render is made for rendered size x
    CELL SIZE pixels ([_get_render_size], kitty.py / iterm2.py): the cell size enters the frame
    itself.  The faithful model is [fmt_pix] (the frame records the pixel size) under the
    code's stamp [stamp_rendered]: a cell-size change that leaves the rendered size alone — always
    so under a FIXED setting — leaves the stale entries valid. *)
Definition fmt_pix (k : nat) (ge : setting * env3) : res Z :=
  let z := ex_rs (fst ge) (snd ge) in
  ex_fmt k (fst z * fst (cell_size (snd ge)), snd z * snd (cell_size (snd ge))).

Lemma cell_size_only_change_refuted :
  exists (g0 : setting) (e' : env3) (ops : list (eop setting env3)),
    ex_rs g0 e' = ex_rs g0 e_a /\ term_size e' = term_size e_a /\ cell_ratio e' = cell_ratio e_a /\
    trace fmt_pix (stamp_rendered (@pair Z Z) ex_dyn ex_hash) 2 true (init Z (-1) 0 (g0, e_a)) (lower2 g0 e_a ops) <>
    trace fmt_pix (stamp_rendered (@pair Z Z) ex_dyn ex_hash) 2 false (init Z (-1) 0 (g0, e_a)) (lower2 g0 e_a ops).
Proof.
  exists (Fixed 7 3), (with_cell e_a (5, 20)), (env_change_history (with_cell e_a (5, 20))).
  repeat split. vm_compute. discriminate.
Qed.

(** the stamp hash((rendered size, pixel size of the render)) sees it *)
Definition stamp_rendered_pix (ge : setting * env3) : Z :=
  let z := ex_rs (fst ge) (snd ge) in
  ex_hash z * 1000000 + ex_hash (fst z * fst (cell_size (snd ge)), snd z * snd (cell_size (snd ge))).

Example cell_size_only_change_seen_by_pixel_stamp :
  let ops := env_change_history (with_cell e_a (5, 20)) in
  trace fmt_pix stamp_rendered_pix 2 true (init Z (-1) 0 (Fixed 7 3, e_a)) (lower2 (Fixed 7 3) e_a ops) =
  trace fmt_pix stamp_rendered_pix 2 false (init Z (-1) 0 (Fixed 7 3, e_a)) (lower2 (Fixed 7 3) e_a ops).
Proof. vm_compute. reflexivity. Qed.
