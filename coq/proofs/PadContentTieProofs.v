(** Proofs about [model/PadContentTie.v] (C05): the code-point level oracle of the content
    correspondence accepts EVERY output that has the documented line structure — [t] lines,
    every line of the render between a left and a right margin, [b] lines, whatever the
    margins and the padding lines are made of (as long as they hold no U+000A) and whatever
    the lines of the render contain — so it can only fire on an output that is not of that
    form; and a verdict 0 of [ccheck] gives back both judgements. *)
From Coq Require Import List ZArith Bool Lia.
Import ListNotations.
From TI Require Import lib.Term lib.RectCheck model.Padding model.PadTie model.PadGen model.PadGenTie
     model.PadContentTie.
Open Scope Z_scope.
Local Arguments Z.eqb : simpl never.

Fixpoint zjoin (ls : list (list Z)) : list Z :=
  match ls with
  | [] => []
  | [l] => l
  | l :: rest => l ++ LF :: zjoin rest
  end.

Definition znolf (l : list Z) : Prop := Forall (fun x => (x =? LF) = false) l.

Lemma zjoin_cons2 l l2 rest : zjoin (l :: l2 :: rest) = l ++ LF :: zjoin (l2 :: rest).
Proof. reflexivity. Qed.

Lemma zsplit_of_nolf l : znolf l -> zsplit LF l = [l].
Proof.
  induction 1 as [|x l Hx _ IH]; [reflexivity|]. cbn [zsplit]. rewrite Hx, IH. reflexivity.
Qed.

Lemma zsplit_app_lf l rest : znolf l -> zsplit LF (l ++ LF :: rest) = l :: zsplit LF rest.
Proof.
  induction 1 as [|x l Hx _ IH].
  - cbn [app zsplit]. rewrite Z.eqb_refl. reflexivity.
  - cbn [app zsplit]. rewrite Hx, IH. reflexivity.
Qed.

Lemma zsplit_zjoin : forall ls, ls <> [] -> Forall znolf ls -> zsplit LF (zjoin ls) = ls.
Proof.
  induction ls as [|l rest IH]; intros Hne Hn; [congruence|].
  inversion Hn as [|? ? Hl Hrest]; subst.
  destruct rest as [|l2 rest'].
  - cbn [zjoin]. apply zsplit_of_nolf, Hl.
  - rewrite zjoin_cons2, zsplit_app_lf by exact Hl. rewrite IH; [reflexivity|congruence|exact Hrest].
Qed.

Lemma zprefixb_app a q : zprefixb a (a ++ q) = true.
Proof. induction a as [|x a IH]; [reflexivity|]. cbn. rewrite Z.eqb_refl, IH. reflexivity. Qed.

Lemma zinfixb_app p a q : zinfixb a (p ++ a ++ q) = true.
Proof.
  induction p as [|x p IH].
  - cbn [app]. destruct a as [|y a]; [destruct q; reflexivity|].
    cbn [zinfixb app]. change (zprefixb (y :: a) (y :: a ++ q)) with (zprefixb (y :: a) ((y :: a) ++ q)).
    rewrite zprefixb_app. reflexivity.
  - cbn [app zinfixb]. rewrite IH. apply orb_true_r.
Qed.

Lemma znolf_app a b : znolf a -> znolf b -> znolf (a ++ b).
Proof. intros; apply Forall_app; split; assumption. Qed.

(** the oracle accepts every output of the documented line structure *)
Theorem raw_oracle_accepts_line_structure c l t r b (lp rp line : list Z) (ils : list (list Z)) :
  gdims_of (c_g c) = (l, t, r, b) -> 0 <= t -> 0 <= b ->
  ils <> [] -> Forall znolf ils -> znolf lp -> znolf rp -> znolf line ->
  Z.of_nat (length ils) = g_h (c_g c) ->
  (g_obs_dims (c_g c) = [] \/ exists a1 a2 a3 a4 a5, g_obs_dims (c_g c) = [a1; a2; a3; a4; a5; t + g_h (c_g c) + b]) ->
  c_raw_inner c = zjoin ils ->
  c_raw_obs c = zjoin (repeat line (Z.to_nat t) ++ map (fun ln => lp ++ ln ++ rp) ils ++ repeat line (Z.to_nat b)) ->
  raw_wf c = true /\ raw_oracle c = true.
Proof.
  intros Hd Ht Hb Hne Hn Hlp Hrp Hline Hlen Hdims Hin Hobs.
  assert (Ei : zsplit LF (c_raw_inner c) = ils) by (rewrite Hin; apply zsplit_zjoin; assumption).
  set (ols := repeat line (Z.to_nat t) ++ map (fun ln => lp ++ ln ++ rp) ils ++ repeat line (Z.to_nat b)) in *.
  assert (Eo : zsplit LF (c_raw_obs c) = ols).
  { rewrite Hobs. apply zsplit_zjoin.
    - subst ols. destruct ils as [|x rest]; [congruence|]. intros E.
      apply app_eq_nil in E. destruct E as [_ E]. cbn [map app] in E. discriminate.
    - subst ols. apply Forall_app. split; [apply Forall_forall; intros x Hx; apply repeat_spec in Hx; subst; exact Hline|].
      apply Forall_app. split; [|apply Forall_forall; intros x Hx; apply repeat_spec in Hx; subst; exact Hline].
      apply Forall_forall. intros x Hx. apply in_map_iff in Hx. destruct Hx as (ln & <- & Hln).
      apply znolf_app; [exact Hlp|]. apply znolf_app; [|exact Hrp].
      exact (proj1 (Forall_forall _ _) Hn ln Hln). }
  assert (Lo : Z.of_nat (length ols) = t + g_h (c_g c) + b).
  { subst ols. rewrite !app_length, map_length, !repeat_length. lia. }
  split.
  - unfold raw_wf. rewrite Ei. apply Z.eqb_eq, Hlen.
  - unfold raw_oracle, raw_clauses. rewrite Hd, Ei, Eo.
    cbn [forallb]. rewrite !andb_true_iff. repeat split.
    + apply Z.leb_le, Ht.
    + apply Z.leb_le, Hb.
    + apply Z.eqb_eq, Lo.
    + destruct Hdims as [->|(a1 & a2 & a3 & a4 & a5 & ->)]; [reflexivity|]. apply Z.eqb_eq, Lo.
    + apply forallb_forall. intros i Hi. apply in_seq in Hi.
      subst ols. rewrite app_nth2 by (rewrite repeat_length; lia).
      rewrite repeat_length. replace (Z.to_nat t + i - Z.to_nat t)%nat with i by lia.
      rewrite app_nth1 by (rewrite map_length; lia).
      rewrite (nth_indep (map (fun ln => lp ++ ln ++ rp) ils) [] ((fun ln => lp ++ ln ++ rp) [])) by (rewrite map_length; lia).
      rewrite (map_nth (fun ln => lp ++ ln ++ rp) ils [] i). apply zinfixb_app.
Qed.

(** non-vacuity: the shape of the case that the excluded split design fails — 'ab<U+2028>c' over
    'xyz' under ExactPadding(2, 1, 1, 1, '*') — accepted as padded by the code, refused as
    padded by a split at U+2028 as well *)
Definition ex_g : gcase :=
  {| g_kind := PExact 2 1 1 1; g_fill := Some [TChar (GOther 42)]; g_tw := 12; g_th := 9; g_w := 3; g_h := 2;
     g_inner := []; g_obs := []; g_obs_dims := [2; 1; 1; 1; 6; 4] |}.
Example raw_oracle_nonvacuous :
  raw_oracle {| c_g := ex_g; c_lexed := false;
                c_raw_inner := [97; 98; 8232; 99; 10; 120; 121; 122];
                c_raw_obs := [42; 42; 42; 42; 42; 42; 10; 42; 42; 97; 98; 8232; 99; 42; 10;
                              42; 42; 120; 121; 122; 42; 10; 42; 42; 42; 42; 42; 42] |} = true
  /\ raw_oracle {| c_g := ex_g; c_lexed := false;
                   c_raw_inner := [97; 98; 8232; 99; 10; 120; 121; 122];
                   c_raw_obs := [42; 42; 42; 42; 42; 42; 10; 42; 42; 97; 98; 42; 10; 42; 42; 99; 42; 10;
                                 42; 42; 120; 121; 122; 42; 10; 42; 42; 42; 42; 42; 42] |} = false.
Proof. split; vm_compute; reflexivity. Qed.

(** a verdict 0 of [ccheck]: the case is well-formed, the code-point oracle holds and — when
    the content is in the terminal model's vocabulary — so does the token-level judgement *)
Theorem ccheck_zero_sound c :
  ccheck c = 0%nat ->
  raw_wf c = true /\ raw_oracle c = true /\ (c_lexed c = true -> gcheck (c_g c) = 0%nat).
Proof.
  unfold ccheck. intros H.
  destruct (raw_wf c); [|rewrite orb_true_r in H; destruct (_ || negb (raw_oracle c)); discriminate].
  destruct (raw_oracle c); [|rewrite orb_true_r in H; destruct (Nat.odd _ || negb true); discriminate].
  split; [reflexivity|]. split; [reflexivity|]. intros Hl. rewrite Hl in H.
  cbn [negb] in H. rewrite !orb_false_r in H.
  destruct (gcheck (c_g c)) as [|[|k]]; [reflexivity|cbn in H; discriminate|].
  exfalso. change (2 <=? S (S k))%nat with true in H. destruct (Nat.odd (S (S k))); discriminate.
Qed.
