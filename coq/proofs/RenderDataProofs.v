(** * RenderDataProofs — from SOURCE pixels to the screen (C02, end to end at render
    resolution): composing [RenderData.render_pair] with [Block.expect]. *)
From Coq Require Import List ZArith Bool Lia.
Import ListNotations.
From TI Require Import lib.Term model.Block model.RenderData proofs.BlockProofs.
Open Scope Z_scope.

Definition col_of (x : shown) : colour := match x with STermBg => CBg0 | SColour c => CRgb c end.

Section P.
Variable comp : Z -> Z -> Z -> Z.

(** the alpha class handed to the renderer is "transparent" exactly for the pixels the
    specification shows as terminal background *)
Lemma transparent_iff_termbg has_alpha s termbg p :
  Block.transparent (alpha_mode has_alpha s) (snd (render_px comp has_alpha s termbg p)) = true
  <-> src_expect comp has_alpha s termbg p = STermBg.
Proof.
  unfold Block.transparent, alpha_mode, render_px, src_expect.
  destruct has_alpha; destruct s as [|thr|c]; cbn [negb snd andb];
    try destruct (s_a p <? thr); cbn; split; intro H; try discriminate H; reflexivity.
Qed.

(** a pixel that is not shown as terminal background is handed over with exactly the colour
    the specification demands *)
Lemma colour_is_expected has_alpha s termbg p c :
  src_expect comp has_alpha s termbg p = SColour c -> fst (render_px comp has_alpha s termbg p) = c.
Proof.
  unfold render_px, src_expect.
  destruct has_alpha; cbn [negb]; destruct s as [|thr|cc]; cbn [fst]; try congruence.
  destruct (s_a p <? thr); congruence.
Qed.

(** without the kitty work-around, the cell painted for a source pixel pair shows exactly
    what the specification demands of the two source pixels *)
Theorem source_pair_exact has_alpha s termbg bgcol u l :
  Block.expect (alpha_mode has_alpha s) false bgcol (render_pair comp has_alpha s termbg u l)
  = (col_of (src_expect comp has_alpha s termbg u), col_of (src_expect comp has_alpha s termbg l)).
Proof.
  unfold render_pair.
  pose proof (transparent_iff_termbg has_alpha s termbg u) as Hu.
  pose proof (transparent_iff_termbg has_alpha s termbg l) as Hl.
  pose proof (colour_is_expected has_alpha s termbg u) as Cu.
  pose proof (colour_is_expected has_alpha s termbg l) as Cl.
  destruct (render_px comp has_alpha s termbg u) as [c1 x1].
  destruct (render_px comp has_alpha s termbg l) as [c2 x2].
  cbn [fst snd] in *. unfold Block.expect. cbn [p1 p2 a1 a2 andb].
  destruct (Block.transparent (alpha_mode has_alpha s) x1) eqn:T1;
    destruct (Block.transparent (alpha_mode has_alpha s) x2) eqn:T2; cbn [andb].
  - rewrite (proj1 Hu eq_refl), (proj1 Hl eq_refl). reflexivity.
  - rewrite (proj1 Hu eq_refl).
    destruct (src_expect comp has_alpha s termbg l) as [|c] eqn:E;
      [pose proof (proj2 Hl eq_refl); congruence|]. rewrite (Cl c eq_refl). reflexivity.
  - rewrite (proj1 Hl eq_refl).
    destruct (src_expect comp has_alpha s termbg u) as [|c] eqn:E;
      [pose proof (proj2 Hu eq_refl); congruence|]. rewrite (Cu c eq_refl). reflexivity.
  - destruct (src_expect comp has_alpha s termbg u) as [|cu] eqn:Eu;
      [pose proof (proj2 Hu eq_refl); congruence|].
    destruct (src_expect comp has_alpha s termbg l) as [|cl] eqn:El;
      [pose proof (proj2 Hl eq_refl); congruence|].
    rewrite (Cu cu eq_refl), (Cl cl eq_refl). cbn [col_of].
    destruct (rgb_eqb cu cl) eqn:Q; [|reflexivity].
    assert (cu = cl) as ->; [|reflexivity].
    destruct cu as [[r1 g1] b1], cl as [[r2 g2] b2]. unfold rgb_eqb in Q.
    apply andb_prop in Q as [Q Q3]. apply andb_prop in Q as [Q1 Q2].
    apply Z.eqb_eq in Q1, Q2, Q3. congruence.
Qed.
End P.

(** the exact composite: an opaque source pixel keeps its value, a fully transparent one
    shows the background, and the result stays within the channel range *)
Lemma comp_exact_opaque s d : comp_exact s 255 d = s.
Proof. unfold comp_exact. Z.div_mod_to_equations. lia. Qed.
Lemma comp_exact_clear s d : comp_exact s 0 d = d.
Proof. unfold comp_exact. Z.div_mod_to_equations. lia. Qed.
Lemma comp_exact_range s a d :
  0 <= s <= 255 -> 0 <= d <= 255 -> 0 <= a <= 255 -> 0 <= comp_exact s a d <= 255.
Proof. intros. unfold comp_exact. Z.div_mod_to_equations. nia. Qed.
Lemma comp_exact_nearest s a d :
  0 <= a <= 255 ->
  let e := comp_exact s a d in 2 * Z.abs (255 * e - (s * a + d * (255 - a))) < 255 + 1.
Proof. intros Ha e. subst e. unfold comp_exact. Z.div_mod_to_equations. lia. Qed.

(** an opaque source pixel is shown with its own RGB value whatever the setting *)
Lemma opaque_pixel_unchanged has_alpha s termbg c :
  (match s with AThreshold thr => thr <= 255 | _ => True end) ->
  src_expect comp_exact has_alpha s termbg {| s_rgb := c; s_a := 255 |} = SColour c.
Proof.
  intros H. unfold src_expect. cbn [s_rgb s_a]. destruct c as [[r g] b].
  destruct s as [|thr|cc]; destruct has_alpha; try reflexivity.
  - destruct (255 <? thr) eqn:E; [apply Z.ltb_lt in E; lia|].
    unfold comp_rgb. destruct (under termbg) as [[r' g'] b']. now rewrite !comp_exact_opaque.
  - unfold comp_rgb. destruct (match cc with Some c => c | None => under termbg end) as [[r' g'] b'].
    now rewrite !comp_exact_opaque.
Qed.

(** non-vacuity: a half-transparent red over a white terminal background *)
Example source_pair_example :
  render_pair comp_exact true (AThreshold 128) (Some (255, 255, 255))
              {| s_rgb := (255, 0, 0); s_a := 204 |} {| s_rgb := (0, 0, 0); s_a := 10 |}
  = {| p1 := (255, 51, 51); p2 := (245, 245, 245); a1 := 255; a2 := 0 |}.
Proof. vm_compute. reflexivity. Qed.
