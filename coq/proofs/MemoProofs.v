(** Proofs for C15 (concurrent part): the [cached] decorator of [model/Caches.v] part 3
    as a system over [lib/Sched.v].  For ANY number of threads, any programs (calls with
    any argument tuples, invalidations) and any schedule:
    - at most one thread is inside the decorator's lock;
    - the body runs at most once per argument tuple between two [cache.clear()]s;
    - all calls with one argument tuple that return between the same two
      [cache.clear()]s return the same value. *)
From Coq Require Import List ZArith Bool Arith.
Import ListNotations.
From TI Require Import lib.Sched model.Caches proofs.C15Arith.

Section Memo.
  (* what the n-th body execution does for key k: returns a value or raises ([None]); arbitrary *)
  Variable bv : nat -> nat -> option mres.

  Definition busy (s : mstate) (t : nat) : Prop := m_pc (m_th s t) <> PIdle.

  Definition pending (s : mstate) (k : nat) : Prop :=
    exists t v, m_pc (m_th s t) = PStore k v.

  Record MInv (s : mstate) : Prop := {
    (* the lock is held, once, exactly by the thread inside the wrapper *)
    i_busy_owner : forall t, busy s t -> m_lock s = {| owner := Some t; count := 1 |};
    i_idle_free : (forall t, m_pc (m_th s t) = PIdle) -> m_lock s = free_lock;
    (* a thread about to run the body saw a miss that still holds *)
    i_body_miss : forall t k, m_pc (m_th s t) = PBody k -> m_cache s k = None;
    (* the body counter of a key is 0 until its body has run since the last clear *)
    i_calls0 : forall k, m_cache s k = None -> ~ pending s k -> m_calls s k = 0;
    i_calls1 : forall k, m_calls s k <= 1;
    (* returned values are the cached ones *)
    i_release : forall t k v, m_pc (m_th s t) = PRelease (Some (k, v)) -> m_cache s k = Some v;
    i_rets_epoch : forall t ep k v, In (ep, k, v) (m_rets (m_th s t)) ->
                                    ep <= m_invals s /\ (ep = m_invals s -> m_cache s k = Some v);
    i_rets_agree : forall t1 t2 ep k v1 v2,
        In (ep, k, v1) (m_rets (m_th s t1)) -> In (ep, k, v2) (m_rets (m_th s t2)) -> v1 = v2
  }.

  Lemma minv_init prog : MInv (minit prog).
  Proof.
    constructor; simpl; unfold busy, pending; simpl; intros;
      try congruence; try nat_ar; try apply Nat.le_0_l; try tauto; try discriminate.
  Qed.

  (** two busy threads are the same thread *)
  Lemma busy_unique s t1 t2 : MInv s -> busy s t1 -> busy s t2 -> t1 = t2.
  Proof.
    intros I B1 B2. apply (i_busy_owner s I) in B1. apply (i_busy_owner s I) in B2. congruence.
  Qed.

  Lemma others_idle s t u : MInv s -> busy s t -> u <> t -> m_pc (m_th s u) = PIdle.
  Proof.
    intros I B N. destruct (m_pc (m_th s u)) eqn:E; auto;
      exfalso; apply N; apply (busy_unique s u t I); auto; unfold busy; congruence.
  Qed.

  (** who can be about to store / in the body / releasing when [t] is the busy thread *)
  Lemma pending_is_busy s t k : MInv s -> busy s t -> pending s k ->
                                exists v, m_pc (m_th s t) = PStore k v.
  Proof.
    intros I B (u & v & P). exists v. destruct (Nat.eq_dec u t) as [->|N]; auto.
    rewrite (others_idle s t u I B N) in P. discriminate.
  Qed.

  Lemma minv_step s t s' : MInv s -> mstep bv s t = Some s' -> MInv s'.
  Proof.
    intros I H. unfold mstep in H.
    destruct (m_pc (m_th s t)) eqn:PC.
    - (* PIdle: acquire *)
      destruct (m_todo (m_th s t)) as [|c rest] eqn:TD; try discriminate.
      destruct (can_acquire (m_lock s) t) eqn:CA; try discriminate.
      inversion H; subst s'; clear H.
      assert (IDLE : forall u, m_pc (m_th s u) = PIdle).
      { intro u. destruct (m_pc (m_th s u)) eqn:E; auto;
          assert (B : busy s u) by (unfold busy; congruence);
          pose proof (i_busy_owner s I u B) as L;
          unfold can_acquire in CA; rewrite L in CA; simpl in CA;
          apply Nat.eqb_eq in CA; subst u; congruence. }
      pose proof (i_idle_free s I IDLE) as FREE.
      assert (NP : forall k, ~ pending s k).
      { intros k (u & v & P). rewrite IDLE in P. discriminate. }
      constructor; simpl.
      + intros u B. unfold busy in B. simpl in B.
        destruct (Nat.eq_dec u t) as [->|N].
        * rewrite FREE. reflexivity.
        * rewrite upd_other in B by auto. now rewrite IDLE in B.
      + intro A. specialize (A t). rewrite upd_same in A. simpl in A. destruct c; discriminate.
      + intros u k P. destruct (Nat.eq_dec u t) as [->|N].
        * rewrite upd_same in P. simpl in P. destruct c; discriminate.
        * rewrite upd_other in P by auto. rewrite IDLE in P. discriminate.
      + intros k C NP'. apply (i_calls0 s I); auto.
      + apply (i_calls1 s I).
      + intros u k v P. destruct (Nat.eq_dec u t) as [->|N].
        * rewrite upd_same in P. simpl in P. destruct c; discriminate.
        * rewrite upd_other in P by auto. rewrite IDLE in P. discriminate.
      + intros u ep k v P. apply (i_rets_epoch s I u).
        destruct (Nat.eq_dec u t) as [->|N]; [rewrite upd_same in P|rewrite upd_other in P by auto]; auto.
      + intros t1 t2 ep k v1 v2 P1 P2. apply (i_rets_agree s I t1 t2 ep k);
          [destruct (Nat.eq_dec t1 t) as [->|N]; [rewrite upd_same in P1|rewrite upd_other in P1 by auto]; auto
          |destruct (Nat.eq_dec t2 t) as [->|N]; [rewrite upd_same in P2|rewrite upd_other in P2 by auto]; auto].
    - (* PLookup *)
      inversion H; subst s'; clear H.
      assert (B : busy s t) by (unfold busy; congruence).
      constructor; simpl.
      + intros u Bu. apply (i_busy_owner s I).
        destruct (Nat.eq_dec u t) as [->|N]; auto.
        unfold busy in *. simpl in Bu. now rewrite upd_other in Bu by auto.
      + intro A. specialize (A t). rewrite upd_same in A. simpl in A.
        destruct (m_cache s k); discriminate.
      + intros u k' P. destruct (Nat.eq_dec u t) as [->|N].
        * rewrite upd_same in P. simpl in P. destruct (m_cache s k) eqn:C; inversion P. now subst.
        * rewrite upd_other in P by auto. rewrite (others_idle s t u I B N) in P. discriminate.
      + intros k' C NP. apply (i_calls0 s I); auto.
        intros (u & v & P). apply NP. exists u, v. simpl.
        destruct (Nat.eq_dec u t) as [->|N]; [congruence|]. now rewrite upd_other by auto.
      + apply (i_calls1 s I).
      + intros u k' v P. destruct (Nat.eq_dec u t) as [->|N].
        * rewrite upd_same in P. simpl in P. destruct (m_cache s k) eqn:C; inversion P. now subst.
        * rewrite upd_other in P by auto. rewrite (others_idle s t u I B N) in P. discriminate.
      + intros u ep k' v P. apply (i_rets_epoch s I u).
        destruct (Nat.eq_dec u t) as [->|N]; [rewrite upd_same in P|rewrite upd_other in P by auto]; auto.
      + intros t1 t2 ep k' v1 v2 P1 P2. apply (i_rets_agree s I t1 t2 ep k');
          [destruct (Nat.eq_dec t1 t) as [->|N]; [rewrite upd_same in P1|rewrite upd_other in P1 by auto]; auto
          |destruct (Nat.eq_dec t2 t) as [->|N]; [rewrite upd_same in P2|rewrite upd_other in P2 by auto]; auto].
    - (* PBody: the body runs *)
      assert (B : busy s t) by (unfold busy; congruence).
      destruct (bv (m_total s) k) as [bvv|] eqn:BV.
      2:{ (* ... and raises: nothing is stored, the thread goes on to release the lock *)
        inversion H; subst s'; clear H.
        assert (NP : forall k', ~ pending s k').
        { intros k' P. destruct (pending_is_busy s t k' I B P) as [v P']. congruence. }
        constructor; simpl.
        + intros u Bu. apply (i_busy_owner s I).
          destruct (Nat.eq_dec u t) as [->|N]; auto.
          unfold busy in *. simpl in Bu. now rewrite upd_other in Bu by auto.
        + intro A. specialize (A t). rewrite upd_same in A. discriminate.
        + intros u k' P. destruct (Nat.eq_dec u t) as [->|N].
          * rewrite upd_same in P. discriminate.
          * rewrite upd_other in P by auto. rewrite (others_idle s t u I B N) in P. discriminate.
        + intros k' C NP'. apply (i_calls0 s I); auto.
        + apply (i_calls1 s I).
        + intros u k' v P. destruct (Nat.eq_dec u t) as [->|N].
          * rewrite upd_same in P. discriminate.
          * rewrite upd_other in P by auto. rewrite (others_idle s t u I B N) in P. discriminate.
        + intros u ep k' v P. apply (i_rets_epoch s I u).
          destruct (Nat.eq_dec u t) as [->|N]; [rewrite upd_same in P|rewrite upd_other in P by auto]; auto.
        + intros t1 t2 ep k' v1 v2 P1 P2. apply (i_rets_agree s I t1 t2 ep k');
            [destruct (Nat.eq_dec t1 t) as [->|N]; [rewrite upd_same in P1|rewrite upd_other in P1 by auto]; auto
            |destruct (Nat.eq_dec t2 t) as [->|N]; [rewrite upd_same in P2|rewrite upd_other in P2 by auto]; auto]. }
      inversion H; subst s'; clear H.
      assert (NP : forall k', ~ pending s k').
      { intros k' P. destruct (pending_is_busy s t k' I B P) as [v P']. congruence. }
      assert (C0 : m_calls s k = 0).
      { apply (i_calls0 s I); auto. apply (i_body_miss s I t); auto. }
      constructor; simpl.
      + intros u Bu. apply (i_busy_owner s I).
        destruct (Nat.eq_dec u t) as [->|N]; auto.
        unfold busy in *. simpl in Bu. now rewrite upd_other in Bu by auto.
      + intro A. specialize (A t). rewrite upd_same in A. discriminate.
      + intros u k' P. destruct (Nat.eq_dec u t) as [->|N].
        * rewrite upd_same in P. discriminate.
        * rewrite upd_other in P by auto. rewrite (others_idle s t u I B N) in P. discriminate.
      + intros k' C NP'. destruct (Nat.eq_dec k' k) as [->|N].
        * exfalso. apply NP'. exists t, bvv. simpl. now rewrite upd_same.
        * rewrite upd_other by auto. apply (i_calls0 s I); auto.
      + intro k'. destruct (Nat.eq_dec k' k) as [->|N].
        * rewrite upd_same, C0. apply le_n.
        * rewrite upd_other by auto. apply (i_calls1 s I).
      + intros u k' v P. destruct (Nat.eq_dec u t) as [->|N].
        * rewrite upd_same in P. discriminate.
        * rewrite upd_other in P by auto. rewrite (others_idle s t u I B N) in P. discriminate.
      + intros u ep k' v P. apply (i_rets_epoch s I u).
        destruct (Nat.eq_dec u t) as [->|N]; [rewrite upd_same in P|rewrite upd_other in P by auto]; auto.
      + intros t1 t2 ep k' v1 v2 P1 P2. apply (i_rets_agree s I t1 t2 ep k');
          [destruct (Nat.eq_dec t1 t) as [->|N]; [rewrite upd_same in P1|rewrite upd_other in P1 by auto]; auto
          |destruct (Nat.eq_dec t2 t) as [->|N]; [rewrite upd_same in P2|rewrite upd_other in P2 by auto]; auto].
    - (* PStore: setdefault *)
      inversion H; subst s'; clear H.
      assert (B : busy s t) by (unfold busy; congruence).
      set (c' := match m_cache s k with Some _ => m_cache s | None => upd (m_cache s) k (Some v) end).
      assert (CK : exists w, c' k = Some w).
      { unfold c'. destruct (m_cache s k) eqn:C; eauto. rewrite upd_same. eauto. }
      assert (MONO : forall k0 w, m_cache s k0 = Some w -> c' k0 = Some w).
      { intros k0 w C. unfold c'. destruct (m_cache s k) eqn:Ck; auto.
        destruct (Nat.eq_dec k0 k) as [->|N]; [congruence|]. now rewrite upd_other by auto. }
      assert (NONE : forall k0, c' k0 = None -> m_cache s k0 = None /\ k0 <> k).
      { intros k0 C. split.
        - destruct (m_cache s k0) eqn:E; auto. apply MONO in E. congruence.
        - intros ->. destruct CK. congruence. }
      constructor; simpl.
      + intros u Bu. apply (i_busy_owner s I).
        destruct (Nat.eq_dec u t) as [->|N]; auto.
        unfold busy in *. simpl in Bu. now rewrite upd_other in Bu by auto.
      + intro A. specialize (A t). rewrite upd_same in A. discriminate.
      + intros u k' P. destruct (Nat.eq_dec u t) as [->|N].
        * rewrite upd_same in P. discriminate.
        * rewrite upd_other in P by auto. rewrite (others_idle s t u I B N) in P. discriminate.
      + intros k' C NP'. destruct (NONE k' C) as [C' N]. apply (i_calls0 s I); auto.
        intro P. destruct (pending_is_busy s t k' I B P) as [w P']. congruence.
      + apply (i_calls1 s I).
      + intros u k' w P. destruct (Nat.eq_dec u t) as [->|N].
        * rewrite upd_same in P. simpl in P. destruct CK as [w0 CK]. fold c' in P. rewrite CK in P.
          simpl in P. inversion P. subst. exact CK.
        * rewrite upd_other in P by auto. rewrite (others_idle s t u I B N) in P. discriminate.
      + intros u ep k' w P.
        assert (P' : In (ep, k', w) (m_rets (m_th s u))).
        { destruct (Nat.eq_dec u t) as [->|N]; [rewrite upd_same in P|rewrite upd_other in P by auto]; auto. }
        destruct (i_rets_epoch s I u ep k' w P') as [Le Eq]. split; auto.
      + intros t1 t2 ep k' v1 v2 P1 P2. apply (i_rets_agree s I t1 t2 ep k');
          [destruct (Nat.eq_dec t1 t) as [->|N]; [rewrite upd_same in P1|rewrite upd_other in P1 by auto]; auto
          |destruct (Nat.eq_dec t2 t) as [->|N]; [rewrite upd_same in P2|rewrite upd_other in P2 by auto]; auto].
    - (* PRelease *)
      inversion H; subst s'; clear H.
      assert (B : busy s t) by (unfold busy; congruence).
      assert (IDLE' : forall u, m_pc (upd (m_th s) t
                       {| m_pc := PIdle; m_todo := m_todo (m_th s t);
                          m_rets := match r with
                                    | Some (k, v) => m_rets (m_th s t) ++ [(m_invals s, k, v)]
                                    | None => m_rets (m_th s t) end |} u) = PIdle).
      { intro u. destruct (Nat.eq_dec u t) as [->|N]; [now rewrite upd_same|].
        rewrite upd_other by auto. apply (others_idle s t u I B N). }
      assert (RETS : forall u x,
                 In x (m_rets (upd (m_th s) t
                       {| m_pc := PIdle; m_todo := m_todo (m_th s t);
                          m_rets := match r with
                                    | Some (k, v) => m_rets (m_th s t) ++ [(m_invals s, k, v)]
                                    | None => m_rets (m_th s t) end |} u)) ->
                 In x (m_rets (m_th s u))
                 \/ (u = t /\ exists k v, r = Some (k, v) /\ x = (m_invals s, k, v)
                                          /\ m_cache s k = Some v)).
      { intros u x P. destruct (Nat.eq_dec u t) as [->|N].
        - rewrite upd_same in P. simpl in P. destruct r as [[k v]|]; auto.
          apply in_app_or in P. destruct P as [P|[P|[]]]; auto.
          right. split; auto. exists k, v. repeat split; auto. apply (i_release s I t). congruence.
        - rewrite upd_other in P by auto. auto. }
      constructor; simpl.
      + intros u Bu. unfold busy in Bu. simpl in Bu. now rewrite IDLE' in Bu.
      + intros _. rewrite (i_busy_owner s I t B). reflexivity.
      + intros u k' P. rewrite IDLE' in P. discriminate.
      + intros k' C NP'. apply (i_calls0 s I); auto.
        intro P. destruct (pending_is_busy s t k' I B P) as [w P']. congruence.
      + apply (i_calls1 s I).
      + intros u k' w P. rewrite IDLE' in P. discriminate.
      + intros u ep k' w P. destruct (RETS u _ P) as [P'|(-> & k0 & v0 & -> & E & C)].
        * apply (i_rets_epoch s I u); auto.
        * inversion E; subst. split; auto.
      + intros t1 t2 ep k' v1 v2 P1 P2.
        destruct (RETS t1 _ P1) as [Q1|(-> & k1 & w1 & R1 & E1 & C1)];
          destruct (RETS t2 _ P2) as [Q2|(-> & k2 & w2 & R2 & E2 & C2)].
        * apply (i_rets_agree s I t1 t2 ep k'); auto.
        * inversion E2; subst. destruct (i_rets_epoch s I t1 _ _ _ Q1) as [_ Eq].
          specialize (Eq eq_refl). congruence.
        * inversion E1; subst. destruct (i_rets_epoch s I t2 _ _ _ Q2) as [_ Eq].
          specialize (Eq eq_refl). congruence.
        * inversion E1; inversion E2; subst. congruence.
    - (* PClear: invalidate *)
      inversion H; subst s'; clear H.
      assert (B : busy s t) by (unfold busy; congruence).
      constructor; simpl.
      + intros u Bu. apply (i_busy_owner s I).
        destruct (Nat.eq_dec u t) as [->|N]; auto.
        unfold busy in *. simpl in Bu. now rewrite upd_other in Bu by auto.
      + intro A. specialize (A t). rewrite upd_same in A. discriminate.
      + intros u k' P. destruct (Nat.eq_dec u t) as [->|N].
        * rewrite upd_same in P. discriminate.
        * rewrite upd_other in P by auto. rewrite (others_idle s t u I B N) in P. discriminate.
      + reflexivity.
      + intros; apply Nat.le_0_l.
      + intros u k' w P. destruct (Nat.eq_dec u t) as [->|N].
        * rewrite upd_same in P. discriminate.
        * rewrite upd_other in P by auto. rewrite (others_idle s t u I B N) in P. discriminate.
      + intros u ep k' w P.
        assert (P' : In (ep, k', w) (m_rets (m_th s u))).
        { destruct (Nat.eq_dec u t) as [->|N]; [rewrite upd_same in P|rewrite upd_other in P by auto]; auto. }
        destruct (i_rets_epoch s I u ep k' w P') as [Le _]. split; [now apply le_S|]. intros ->. exfalso. exact (Nat.nle_succ_diag_l _ Le).
      + intros t1 t2 ep k' v1 v2 P1 P2. apply (i_rets_agree s I t1 t2 ep k');
          [destruct (Nat.eq_dec t1 t) as [->|N]; [rewrite upd_same in P1|rewrite upd_other in P1 by auto]; auto
          |destruct (Nat.eq_dec t2 t) as [->|N]; [rewrite upd_same in P2|rewrite upd_other in P2 by auto]; auto].
  Qed.

  Lemma minv_reachable prog s : reachable (mstep bv) (minit prog) s -> MInv s.
  Proof.
    apply (reachable_ind_inv mstate (mstep bv) MInv).
    - apply minv_init.
    - intros; eapply minv_step; eauto.
  Qed.

  (** at most one thread is between acquire and release of the decorator's lock *)
  Lemma memo_mutex prog s t1 t2 :
    reachable (mstep bv) (minit prog) s -> busy s t1 -> busy s t2 -> t1 = t2.
  Proof. intros R. apply busy_unique. now apply (minv_reachable prog). Qed.

  (** the body runs at most once per argument tuple until invalidated *)
  Lemma memo_body_once_lemma prog s k :
    reachable (mstep bv) (minit prog) s -> m_calls s k <= 1.
  Proof. intros R. apply i_calls1. now apply (minv_reachable prog). Qed.

  (** a body that raises stores nothing: the step of an aborted body execution leaves
      the cache and the per-key counters of completed executions exactly as they were
      (and the thread then only releases the lock) *)
  Lemma memo_raise_stores_nothing_lemma s t k s' :
    m_pc (m_th s t) = PBody k -> bv (m_total s) k = None -> mstep bv s t = Some s' ->
    m_cache s' = m_cache s /\ m_calls s' = m_calls s /\ m_pc (m_th s' t) = PRelease None.
  Proof.
    intros PC BV H. unfold mstep in H. rewrite PC, BV in H. inversion H; subst s'; simpl.
    now rewrite upd_same.
  Qed.

  (** a lookup that finds an entry — WHATEVER it holds, Python's [None] included — does
      not run the body: the thread goes straight on to return the entry's content *)
  Lemma memo_hit_runs_no_body_lemma s t k r s' :
    m_pc (m_th s t) = PLookup k -> m_cache s k = Some r -> mstep bv s t = Some s' ->
    m_total s' = m_total s /\ m_calls s' = m_calls s /\ m_cache s' = m_cache s
    /\ m_pc (m_th s' t) = PRelease (Some (k, r)).
  Proof.
    intros PC C H. unfold mstep in H. rewrite PC, C in H. inversion H; subst s'; simpl.
    now rewrite upd_same.
  Qed.

  (** once a call with key [k] has returned in the current epoch — whatever it returned,
      [None] included — the entry is there (so by the lemma above no later call of the
      epoch runs the body) *)
  Lemma memo_returned_is_cached_lemma prog s t k r :
    reachable (mstep bv) (minit prog) s ->
    In (m_invals s, k, r) (m_rets (m_th s t)) -> m_cache s k = Some r.
  Proof.
    intros R H. destruct (i_rets_epoch s (minv_reachable prog s R) t _ _ _ H) as [_ E]. auto.
  Qed.

  (** sequential histories of calls and invalidations (one thread, run to completion) *)
  Lemma mseq_reachable cmds : reachable (mstep bv) (minit (seq_prog cmds)) (mseq bv cmds).
  Proof. apply run_sched_reachable. Qed.

  Lemma memo_seq_body_once_lemma cmds k : m_calls (mseq bv cmds) k <= 1.
  Proof. apply (memo_body_once_lemma (seq_prog cmds)). apply mseq_reachable. Qed.

  Lemma memo_seq_none_result_cached_lemma cmds k :
    In (m_invals (mseq bv cmds), k, None) (m_rets (m_th (mseq bv cmds) 0)) ->
    m_cache (mseq bv cmds) k = Some None /\ m_calls (mseq bv cmds) k <= 1.
  Proof.
    intro H. split.
    - apply (memo_returned_is_cached_lemma (seq_prog cmds) _ 0). apply mseq_reachable. exact H.
    - apply memo_seq_body_once_lemma.
  Qed.

  (** all calls with one argument tuple that return in one epoch return the same value *)
  Lemma memo_same_value_lemma prog s t1 t2 ep k v1 v2 :
    reachable (mstep bv) (minit prog) s ->
    In (ep, k, v1) (m_rets (m_th s t1)) -> In (ep, k, v2) (m_rets (m_th s t2)) -> v1 = v2.
  Proof. intros R. apply i_rets_agree. now apply (minv_reachable prog). Qed.
End Memo.

(** [m_calls] really counts body executions: without invalidations it equals the number of
    [PBody] steps for the key (it is only reset by [PClear]); non-vacuity: three threads
    calling with one key, any of these schedules runs the body exactly once and every
    thread returns its value *)
Example memo_three_threads :
  let prog := fun t => if Nat.ltb t 3 then [MCall 7] else [] in
  let bv := fun n _ => Some (Some (Z.of_nat (100 + n))) in
  forall sch, In sch [ [0;1;2;0;1;2;0;1;2;0;1;2;0;1;2;0;1;2;1;1;1;1;1;2;2;2;2;2];
                       [2;2;1;0;2;0;1;2;2;1;1;1;1;1;0;0;0;0;0];
                       [0;0;0;1;0;0;1;1;1;1;2;2;2;2;2] ] ->
    let s := run_sched (mstep bv) (minit prog) sch in
    m_calls s 7 = 1 /\ m_total s = 1
    /\ map (fun t => m_rets (m_th s t)) [0; 1; 2] = [[(0, 7, Some 100%Z)]; [(0, 7, Some 100%Z)]; [(0, 7, Some 100%Z)]].
Proof.
  intros prog bv sch H. simpl in H.
  destruct H as [<-|[<-|[<-|[]]]]; vm_compute; auto.
Qed.

(** ... and with a body that raises on its first execution: the first caller gets the
    exception (no return value recorded), nothing is stored, the next caller runs the
    body again — ONE completed execution, and both later callers get its value *)
Example memo_aborted_body :
  let prog := fun t => if Nat.ltb t 3 then [MCall 7] else [] in
  let bv := fun n _ => if Nat.eqb n 0 then None else Some (Some (Z.of_nat (100 + n))) in
  forall sch, In sch [ [0;1;2;0;1;2;0;1;2;0;1;2;0;1;2;0;1;2;1;1;1;1;1;2;2;2;2;2];
                       [0;0;0;0;1;1;1;1;1;2;2;2;2] ] ->
    let s := run_sched (mstep bv) (minit prog) sch in
    m_calls s 7 = 1 /\ m_total s = 2
    /\ map (fun t => m_rets (m_th s t)) [0; 1; 2] = [[]; [(0, 7, Some 101%Z)]; [(0, 7, Some 101%Z)]].
Proof.
  intros prog bv sch H. simpl in H.
  destruct H as [<-|[<-|[]]]; vm_compute; auto.
Qed.

(** ** results that are Python's [None]

    non-vacuity: a sequential history over a body that returns [None] for key 0, [0] for
    key 1, a number for key 2: three calls with key 0 run the body ONCE (the entry
    holding [None] is a hit), the invalidation starts a new epoch (one more run) *)
Definition none_bv : nat -> nat -> option mres :=
  fun _ k => Some (match k with 0 => None | 1 => Some 0%Z | _ => Some (Z.of_nat k) end).
Definition none_cmds : list mcmd :=
  [MCall 0; MCall 0; MCall 1; MCall 0; MCall 1; MCall 2; MInval; MCall 0; MCall 0].

Example memo_none_history :
  let s := mseq none_bv none_cmds in
  m_total s = 4 /\ m_calls s 0 = 1 /\ m_cache s 0 = Some None /\ m_pc (m_th s 0) = PIdle
  /\ m_todo (m_th s 0) = []
  /\ m_rets (m_th s 0) = [(0, 0, None); (0, 0, None); (0, 1, Some 0%Z); (0, 0, None); (0, 1, Some 0%Z);
                          (0, 2, Some 2%Z); (1, 0, None); (1, 0, None)]
  /\ map fst (mseq_trace none_bv none_cmds) = [1; 1; 2; 2; 2; 3; 3; 4; 4].
Proof. repeat split; vm_compute; reflexivity. Qed.

(** the variant of the wrapper that uses [None] as its "not cached yet" sentinel refutes
    [memo_body_once] — sequentially: two calls with a key whose result is [None] run the
    body twice in one epoch (the returned values stay right); a result [0] is still
    memoised by it *)
Lemma memo_body_once_refuted_by_none_sentinel :
  exists bv cmds k,
    m_calls (mseq_gen true bv cmds) k = 2 /\ m_invals (mseq_gen true bv cmds) = 0
    /\ m_rets (m_th (mseq_gen true bv cmds) 0) = m_rets (m_th (mseq bv cmds) 0)
    /\ m_calls (mseq bv cmds) k = 1.
Proof. exists none_bv, [MCall 0; MCall 0; MCall 1; MCall 1], 0. repeat split; vm_compute; reflexivity. Qed.
