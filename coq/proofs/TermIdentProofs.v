(** Proofs for model/TermIdent.v (C01, terminal identity -> quirk mode -> render shape).

    A. Routes: whatever sequence of [is_supported()] calls, forced-support switches and cache
       clearings on whatever classes of the chain precedes it, an instance that could be
       constructed renders with exactly what the detection derives from the terminal's identity
       ([route_rec_detect]); the design in which forced support short-circuits the support check
       does not have this property ([route_rec_lazy_refuted]).
    B. For EVERY terminal identity the iterm2 renders (LINES, WHOLE / native ANIM) made with the
       quirk mode derived from that identity meet the render contract under THAT terminal's
       conventions ([ident_iterm2_lines_rect], [ident_iterm2_whole_rect]); a render made in the
       mode of another identity does not ([other_mode_on_konsole_refuted],
       [other_mode_on_wezterm_refuted]).  kitty: the frames of an animation rendered with the
       arguments derived from the identity ([ident_kitty_frame_*_rect]). *)
From Coq Require Import String List ZArith Bool Lia.
Import ListNotations.
From TI Require Import lib.Term lib.TermFacts lib.Rect lib.RectCheck lib.Lines
     model.Query model.GfxRender model.TermIdent proofs.GfxRect.
Open Scope Z_scope.

(** * A. Routes *)
Section RouteProofs.
Variable D : Type.
Variable detect : option D.

Definition detected : bool := match detect with Some _ => true | None => false end.

Definition okown (o : own D) : Prop :=
  (forall b, o_sup o = Some (Some b) -> b = detected /\ (b = true -> o_rec o = detect))
  /\ (forall d, o_rec o = Some d -> detect = Some d).
Definition okworld (w : world D) : Prop := Forall okown w.

Lemma okown0 : okown own0.
Proof. split; cbn; intros; discriminate. Qed.

Lemma ok_nth w k : okworld w -> okown (nth k w own0).
Proof.
  intros H. revert k. induction H as [|o w Ho _ IH]; intros k.
  - destruct k; apply okown0.
  - destruct k; [exact Ho|apply IH].
Qed.

Lemma ok_set_nth : forall k w o, okworld w -> okown o -> okworld (set_nth w k o).
Proof.
  induction k as [|k IH]; intros w o Hw Ho; destruct w as [|x r]; cbn [set_nth].
  - constructor; [exact Ho|constructor].
  - inversion Hw; subst. constructor; assumption.
  - constructor; [apply okown0|]. apply IH; [constructor|exact Ho].
  - inversion Hw; subst. constructor; [assumption|]. apply IH; assumption.
Qed.

Lemma nth_set_nth : forall k (w : world D) o, nth k (set_nth w k o) own0 = o.
Proof.
  induction k as [|k IH]; intros w o; destruct w as [|x r]; cbn [set_nth nth]; try reflexivity; apply IH.
Qed.

Lemma look_set_nth_hit {A} (f : own D -> option A) w k o v :
  f o = Some v -> look f (set_nth w k o) k = Some v.
Proof. intros E. destruct k; cbn [look]; rewrite nth_set_nth, E; reflexivity. Qed.

(** a cached verdict read through any class is the detection's verdict *)
Lemma sup_of_ok w : okworld w -> forall k b, sup_of w k = Some b -> b = detected.
Proof.
  intros Hw. unfold sup_of. induction k as [|k IH]; intros b; cbn [look].
  - pose proof (ok_nth w 0 Hw) as [H1 _]. destruct (o_sup (nth 0 w own0)) as [[b'|]|] eqn:E; try discriminate.
    intros Eb; inversion Eb; subst. apply (H1 b eq_refl).
  - pose proof (ok_nth w (S k) Hw) as [H1 _].
    destruct (o_sup (nth (S k) w own0)) as [[b'|]|] eqn:E; try discriminate.
    + intros Eb; inversion Eb; subst. apply (H1 b eq_refl).
    + apply IH.
Qed.

(** every recorded value anywhere in the chain is the detection's *)
Lemma rec_of_ok w : okworld w -> forall k d, rec_of w k = Some d -> detect = Some d.
Proof.
  intros Hw. unfold rec_of. induction k as [|k IH]; intros d; cbn [look].
  - pose proof (ok_nth w 0 Hw) as [_ H2]. destruct (o_rec (nth 0 w own0)) as [d'|] eqn:E; try discriminate.
    intros Ed; inversion Ed; subst. apply H2, eq_refl.
  - pose proof (ok_nth w (S k) Hw) as [_ H2]. destruct (o_rec (nth (S k) w own0)) as [d'|] eqn:E.
    + intros Ed; inversion Ed; subst. apply H2, eq_refl.
    + apply IH.
Qed.

(** a positive cached verdict read through a class comes with the recorded data *)
Lemma sup_true_rec w : okworld w -> forall k, sup_of w k = Some true -> rec_of w k = detect.
Proof.
  intros Hw. unfold sup_of, rec_of. induction k as [|k IH]; cbn [look].
  - pose proof (ok_nth w 0 Hw) as [H1 _]. destruct (o_sup (nth 0 w own0)) as [[b'|]|] eqn:E; try discriminate.
    intros Eb; inversion Eb; subst. destruct (H1 true eq_refl) as [Hd Hr]. rewrite (Hr eq_refl).
    unfold detected in Hd. destruct detect; [reflexivity|discriminate].
  - pose proof (ok_nth w (S k) Hw) as [H1 H2].
    destruct (o_sup (nth (S k) w own0)) as [[b'|]|] eqn:E; try discriminate.
    + intros Eb; inversion Eb; subst. destruct (H1 true eq_refl) as [Hd Hr]. rewrite (Hr eq_refl).
      unfold detected in Hd. destruct detect; [reflexivity|discriminate].
    + intros Hs. specialize (IH Hs).
      destruct (o_rec (nth (S k) w own0)) as [d'|] eqn:Er; [|exact IH].
      symmetry. apply H2, eq_refl.
Qed.

Lemma ok_do_check w k : okworld w -> okworld (do_check detect w k).
Proof.
  intros Hw. unfold do_check. destruct (sup_of w k); [exact Hw|].
  apply ok_set_nth; [exact Hw|]. pose proof (ok_nth w k Hw) as [_ H2].
  split; cbn [o_sup o_rec].
  - intros b Eb. inversion Eb; subst. split; [reflexivity|]. intros Hd.
    destruct detect; [reflexivity|discriminate].
  - intros d Ed. destruct detect as [d0|]; [inversion Ed; reflexivity|apply H2, Ed].
Qed.

Lemma sup_after_check w k : exists b, sup_of (do_check detect w k) k = Some b.
Proof.
  unfold do_check. destruct (sup_of w k) as [b|] eqn:E; [exists b; exact E|].
  eexists. unfold sup_of. erewrite look_set_nth_hit; reflexivity.
Qed.

Lemma ok_rstep w op : okworld w -> okworld (rstep detect w op).
Proof.
  intros Hw. destruct op as [k|k b|k]; cbn [rstep].
  - apply ok_do_check, Hw.
  - apply ok_set_nth; [exact Hw|]. destruct (ok_nth w k Hw) as [H1 H2]. split; cbn; assumption.
  - apply ok_set_nth; [exact Hw|]. destruct (ok_nth w k Hw) as [H1 H2]. split; cbn [o_sup o_rec].
    + intros b Eb. discriminate.
    + exact H2.
Qed.

Lemma ok_run ops : forall w, okworld w -> okworld (fold_left (rstep detect) ops w).
Proof. induction ops as [|op ops IH]; intros w Hw; [exact Hw|]. apply IH, ok_rstep, Hw. Qed.

Lemma construct_rec w k w' : okworld w -> construct detect w k = Some w' -> rec_of w' k = detect.
Proof.
  intros Hw. unfold construct, supported_after.
  pose proof (ok_do_check w k Hw) as Hw1.
  destruct (sup_after_check w k) as [b Eb]. rewrite Eb.
  destruct (b || forced_of (do_check detect w k) k) eqn:E; [|discriminate].
  intros Ew; inversion Ew; subst w'. destruct b.
  - apply sup_true_rec; assumption.
  - pose proof (sup_of_ok _ Hw1 _ _ Eb) as Hd. unfold detected in Hd.
    destruct detect as [d0|] eqn:Ed; [discriminate|].
    destruct (rec_of (do_check None w k) k) as [d|] eqn:Er; [|reflexivity].
    rewrite <- Ed in *. apply (rec_of_ok _ Hw1) in Er. congruence.
Qed.

(** THE ROUTE THEOREM: after any route, an instance of any class of the chain that could be
    constructed renders with what the detection derives from the identity *)
Theorem route_rec_detect ops k r : route_rec detect ops k = Some r -> r = detect.
Proof.
  unfold route_rec. destruct (construct detect (run_route detect ops) k) as [w|] eqn:E; [|discriminate].
  intros Er; inversion Er; subst r. eapply construct_rec; [|exact E].
  apply ok_run. constructor.
Qed.

(** ... and construction fails exactly when the style is neither detected nor forced *)
Lemma construct_none w k : okworld w ->
  (construct detect w k = None <-> detected = false /\ forced_of (do_check detect w k) k = false).
Proof.
  intros Hw. unfold construct, supported_after.
  destruct (sup_after_check w k) as [b Eb]. rewrite Eb.
  pose proof (sup_of_ok _ (ok_do_check w k Hw) _ _ Eb) as Hd. rewrite <- Hd.
  destruct b, (forced_of (do_check detect w k) k); cbn; split; intros H; try discriminate; auto;
    destruct H; discriminate.
Qed.
End RouteProofs.

(** the excluded design: with forced support on and no earlier support check, an instance on a
    terminal that IS supported renders with nothing recorded *)
Theorem route_rec_lazy_refuted (D : Type) (d : D) :
  route_rec_lazy (Some d) [RForce 1 true] 1 = Some None
  /\ route_rec (Some d) [RForce 1 true] 1 = Some (Some d).
Proof. split; reflexivity. Qed.

(** * B. Renders under the conventions of the terminal an identity denotes *)

(** ** the identity's kind and the quirk mode derived from it agree *)
Lemma kind_konsole_quirk i : kind_of i = KKonsole -> q_konsole (iterm2_quirk_of i) = true.
Proof.
  unfold kind_of, iterm2_quirk_of, iterm2_recorded, iterm2_supported, konsole_has_iterm2, iquirk_of_term.
  destruct (name_is (id_name i) "konsole") eqn:Ek.
  - rewrite orb_true_r. cbn [orb negb].
    destruct (id_version i) as [v|]; [|discriminate].
    destruct (version_tuple v) as [t|]; [|discriminate].
    destruct (tuple_geb t [22; 4; 0]); [|discriminate].
    intros _. cbn [q_konsole]. exact Ek.
  - destruct (name_is (id_name i) "wezterm"); [discriminate|].
    destruct (name_is (id_name i) "iterm2"); discriminate.
Qed.

Lemma kind_wezterm_quirk i : kind_of i = KWezterm ->
  q_konsole (iterm2_quirk_of i) = false /\ q_wezterm (iterm2_quirk_of i) = true.
Proof.
  unfold kind_of, iterm2_quirk_of, iterm2_recorded, iterm2_supported, iquirk_of_term.
  destruct (name_is (id_name i) "konsole") eqn:Ek.
  - destruct (konsole_has_iterm2 (id_version i)); discriminate.
  - destruct (name_is (id_name i) "wezterm") eqn:Ew.
    + rewrite orb_true_r. cbn [negb]. intros _. cbn [q_konsole q_wezterm]. split; assumption.
    + destruct (name_is (id_name i) "iterm2"); discriminate.
Qed.

(** ** views distribute over the line structure *)
Lemma flat_map_joinlf (f : tok -> list tok) : f TLF = [TLF] ->
  forall ls, flat_map f (joinlf ls) = joinlf (map (flat_map f) ls).
Proof.
  intros Hf. induction ls as [|l ls IH]; [reflexivity|].
  destruct ls as [|l2 ls]; [reflexivity|].
  rewrite joinlf_cons2. cbn [map]. rewrite joinlf_cons2. rewrite flat_map_app. cbn [flat_map].
  rewrite Hf. cbn [app]. f_equal. f_equal. exact IH.
Qed.

Lemma map_repeat' {A B} (f : A -> B) x n : map f (repeat x n) = repeat (f x) n.
Proof. induction n; cbn; [reflexivity|f_equal; assumption]. Qed.

(** *** Konsole: a render made in Konsole mode is seen by Konsole as it is *)
Lemma seen_konsole_ierase w wz mix : flat_map seen_konsole (ierase w wz mix) = ierase w wz mix.
Proof. unfold ierase. destruct (negb mix && wz); reflexivity. Qed.

Lemma seen_konsole_lines w wz mix sps :
  flat_map seen_konsole (iterm2_lines w true wz mix sps) = iterm2_lines w true wz mix sps.
Proof.
  unfold iterm2_lines. rewrite flat_map_joinlf by reflexivity. f_equal. rewrite map_map.
  apply map_ext. intros sp. unfold iterm2_line. rewrite !flat_map_app, seen_konsole_ierase. reflexivity.
Qed.

Lemma seen_konsole_whole w h wz mix sp :
  flat_map seen_konsole (iterm2_whole w h true wz mix sp) = iterm2_whole w h true wz mix sp.
Proof.
  unfold iterm2_whole, iterm2_whole_ls. rewrite flat_map_joinlf by reflexivity. f_equal.
  cbn [map]. rewrite map_repeat'. f_equal.
  rewrite !flat_map_app, seen_konsole_ierase. reflexivity.
Qed.

(** *** WezTerm, [mix = false]: what remains of a WezTerm-mode render when images cover nothing *)
Section WezNomix.
Variable w h : Z.
Hypothesis Hw : 0 < w.
Hypothesis Hh : 0 < h.

Definition wz_line : list tok := [TEch w; TCuf w].
Definition wz_last : list tok :=
  [TEch w] ++ (if 1 <? h then [TCuu (h - 1)] else []) ++ (if 1 <? h then [TCud (h - 1)] else []) ++ [TCuf w].

Lemma seen_wez_lines sps :
  flat_map seen_wezterm_nomix (iterm2_lines w false true false sps) = joinlf (map (fun _ => wz_line) sps).
Proof.
  unfold iterm2_lines. rewrite flat_map_joinlf by reflexivity. f_equal. rewrite map_map.
  apply map_ext. intros sp. reflexivity.
Qed.

Lemma seen_wez_whole sp :
  flat_map seen_wezterm_nomix (iterm2_whole w h false true false sp)
  = joinlf (repeat wz_line (Z.to_nat (h - 1)) ++ [wz_last]).
Proof.
  unfold iterm2_whole, iterm2_whole_ls. rewrite flat_map_joinlf by reflexivity. f_equal.
  rewrite map_app, map_repeat'. f_equal. cbn [map]. f_equal.
  unfold wz_last, ierase. cbn [negb andb]. rewrite !flat_map_app.
  cbn [flat_map seen_wezterm_nomix]. destruct (1 <? h); reflexivity.
Qed.

Lemma exec_wz_line lm t : parser t = Ground ->
  exec lm t wz_line = mk (row t) (col t + w) (sgr t) t
     (erase_evs (row t) (col t) (sgr t) (Z.to_nat w) ++ [EMove (row t) (col t + w)]).
Proof. intros Hg. apply (exec_kfill w false Hw lm t Hg). Qed.

Lemma wz_line_ok i : 0 <= i < h -> LineOK w h i wz_line.
Proof. apply (kfill_line_ok w h false Hw). Qed.

Lemma exec_wz_last lm t : parser t = Ground ->
  exec lm t wz_last = mk (row t) (col t + w) (sgr t) t
     (erase_evs (row t) (col t) (sgr t) (Z.to_nat w)
      ++ (if 1 <? h then [EMove (row t - (h - 1)) (col t); EMove (row t) (col t)] else [])
      ++ [EMove (row t) (col t + w)]).
Proof.
  intros Hg. unfold wz_last. destruct (1 <? h) eqn:E1; cbn [app exec fold_left].
  - apply Z.ltb_lt in E1. rewrite step_ech by exact Hg.
    rewrite step_cuu by exact Hg. rewrite step_cud by exact Hg. rewrite step_cuf by exact Hg.
    rewrite !mk_mk. cbn [row col sgr mk]. unfold pos1.
    replace (Z.max (h - 1) 1) with (h - 1) by lia. replace (Z.max w 1) with w by lia.
    replace (row t - (h - 1) + (h - 1)) with (row t) by lia. reflexivity.
  - rewrite step_ech by exact Hg. rewrite step_cuf by exact Hg. rewrite !mk_mk. cbn [row col sgr mk].
    unfold pos1. replace (Z.max w 1) with w by lia. reflexivity.
Qed.

Lemma nolf_wz_last : nolf wz_last.
Proof. unfold wz_last. destruct (1 <? h); repeat constructor. Qed.
Lemma nocr_wz_last : nocr wz_last.
Proof. unfold wz_last. destruct (1 <? h); repeat constructor. Qed.
Lemma nocr_wz_line : nocr wz_line.
Proof. repeat constructor. Qed.

Lemma wz_last_ok : LineOK w h (h - 1) wz_last.
Proof.
  split; [apply nolf_wz_last|].
  intros lm t [Hg Hp] Hcol Hs. rewrite exec_wz_last by exact Hg. rewrite Hcol, Hs.
  eexists. split; [reflexivity|]. rewrite !forallb_app, !andb_true_iff. split; [|split].
  - eapply forallb_inside_mono; [| | | |apply (erase_inside (row t) lm w)]; try lia.
  - destruct (1 <? h); [|reflexivity]. cbn [forallb]. rewrite andb_true_r.
    apply andb_true_iff. split; inside_tac.
  - cbn [forallb]. rewrite andb_true_r. inside_tac.
Qed.

Lemma wz_line_covers lm t c : clean t -> col t = lm -> sgr t = adefault -> lm <= c < lm + w ->
  covered (line_evs lm t wz_line) (row t) c = true.
Proof.
  intros [Hg Hp] Hcol Hs Hc. erewrite line_evs_mk by (apply exec_wz_line; exact Hg).
  rewrite covered_app. apply orb_true_iff. left. apply erase_covers. lia.
Qed.

Lemma wz_last_covers lm t c : clean t -> col t = lm -> sgr t = adefault -> lm <= c < lm + w ->
  covered (line_evs lm t wz_last) (row t) c = true.
Proof.
  intros [Hg Hp] Hcol Hs Hc. erewrite line_evs_mk by (apply exec_wz_last; exact Hg).
  rewrite covered_app. apply orb_true_iff. left. apply erase_covers. lia.
Qed.

Lemma wez_lines_lr (sps : list (Z * Z)) :
  Z.of_nat (length sps) = h -> LinesRect all_cells w h (map (fun _ => wz_line) sps).
Proof.
  intros Hlen. constructor; auto.
  - rewrite map_length. exact Hlen.
  - destruct sps; [cbn in Hlen; lia|discriminate].
  - intros i l Hn. apply nth_error_map_inv in Hn. destruct Hn as (sp & Hn & ->).
    assert (i < length sps)%nat by (apply nth_error_Some; congruence).
    apply wz_line_ok; lia.
  - intros l Hin. apply in_map_iff in Hin. destruct Hin as (sp & <- & _). apply nocr_wz_line.
  - apply coverage_rows; [rewrite map_length; exact Hlen|].
    intros i l lm t Hn Hc Hcol Hs c Hcc.
    apply nth_error_map_inv in Hn. destruct Hn as (sp & Hn & ->).
    apply wz_line_covers; assumption.
Qed.

Lemma wez_whole_lr : LinesRect all_cells w h (repeat wz_line (Z.to_nat (h - 1)) ++ [wz_last]).
Proof.
  assert (Hlen : length (repeat wz_line (Z.to_nat (h - 1)) ++ [wz_last]) = Z.to_nat h).
  { rewrite app_length, repeat_length. cbn. lia. }
  constructor; auto.
  - rewrite Hlen. lia.
  - destruct (repeat wz_line (Z.to_nat (h - 1))); discriminate.
  - intros i l Hn.
    assert (Hi : (i < Z.to_nat h)%nat) by (rewrite <- Hlen; apply nth_error_Some; congruence).
    destruct (Nat.lt_ge_cases i (Z.to_nat (h - 1))) as [Hlt|Hge].
    + rewrite nth_error_app1 in Hn by (rewrite repeat_length; exact Hlt).
      apply nth_error_In, repeat_spec in Hn. subst l. apply wz_line_ok. lia.
    + rewrite nth_error_app2 in Hn by (rewrite repeat_length; exact Hge).
      rewrite repeat_length in Hn. replace (i - Z.to_nat (h - 1))%nat with 0%nat in Hn by lia.
      inversion Hn; subst l. assert (Ei : Z.of_nat i = h - 1) by lia. rewrite Ei. apply wz_last_ok.
  - intros l Hin. apply in_app_iff in Hin. destruct Hin as [Hin|[<-|[]]].
    + apply repeat_spec in Hin. subst l. apply nocr_wz_line.
    + apply nocr_wz_last.
  - apply coverage_rows; [rewrite Hlen; lia|].
    intros i l lm t Hn Hc Hcol Hs c Hcc.
    apply nth_error_In, in_app_iff in Hn. destruct Hn as [Hin|[<-|[]]].
    + apply repeat_spec in Hin. subst l. apply wz_line_covers; assumption.
    + apply wz_last_covers; assumption.
Qed.
End WezNomix.

(** ** THE IDENTITY THEOREMS (iterm2) *)
Theorem ident_iterm2_lines_rect (i : ident) (w h : Z) (mix : bool) (sps : list (Z * Z)) :
  0 < w -> 0 < h -> Z.of_nat (length sps) = h ->
  RectOn (kind_of i) mix w h (iterm2_lines_for (iterm2_recorded i) w mix sps).
Proof.
  intros Hw Hh Hlen. unfold RectOn, iterm2_lines_for. fold (iterm2_quirk_of i).
  destruct (kind_of i) eqn:Ek; cbn [views].
  - constructor; [|constructor]. apply iterm2_lines_rect; assumption.
  - rewrite (kind_konsole_quirk i Ek). rewrite seen_konsole_lines.
    constructor; [|constructor]. apply iterm2_lines_rect; assumption.
  - destruct (kind_wezterm_quirk i Ek) as [E1 E2]. rewrite E1, E2.
    destruct mix.
    + constructor; [|constructor]. apply iterm2_lines_rect; assumption.
    + constructor; [apply iterm2_lines_rect; assumption|]. constructor; [|constructor].
      rewrite seen_wez_lines. apply lines_rect', wez_lines_lr; assumption.
  - constructor; [|constructor]. apply iterm2_lines_rect; assumption.
Qed.

Theorem ident_iterm2_whole_rect (i : ident) (w h : Z) (mix : bool) (sp : Z * Z) :
  0 < w -> 0 < h ->
  RectOn (kind_of i) mix w h (iterm2_whole_for (iterm2_recorded i) w h mix sp).
Proof.
  intros Hw Hh. unfold RectOn, iterm2_whole_for. fold (iterm2_quirk_of i).
  destruct (kind_of i) eqn:Ek; cbn [views].
  - constructor; [|constructor]. apply iterm2_whole_rect; assumption.
  - rewrite (kind_konsole_quirk i Ek). rewrite seen_konsole_whole.
    constructor; [|constructor]. apply iterm2_whole_rect; assumption.
  - destruct (kind_wezterm_quirk i Ek) as [E1 E2]. rewrite E1, E2.
    destruct mix.
    + constructor; [|constructor]. apply iterm2_whole_rect; assumption.
    + constructor; [apply iterm2_whole_rect; assumption|]. constructor; [|constructor].
      rewrite seen_wez_whole. apply lines_rect', wez_whole_lr; assumption.
  - constructor; [|constructor]. apply iterm2_whole_rect; assumption.
Qed.

(** the two together with the route theorem: after ANY route, the render of an instance that
    could be constructed meets the contract under the conventions of the terminal *)
Theorem route_iterm2_lines_rect (i : ident) ops k term (w h : Z) (mix : bool) (sps : list (Z * Z)) :
  route_rec (iterm2_recorded i) ops k = Some term ->
  0 < w -> 0 < h -> Z.of_nat (length sps) = h ->
  RectOn (kind_of i) mix w h (iterm2_lines_for term w mix sps).
Proof. intros E. apply route_rec_detect in E. subst term. apply ident_iterm2_lines_rect. Qed.

Theorem route_iterm2_whole_rect (i : ident) ops k term (w h : Z) (mix : bool) (sp : Z * Z) :
  route_rec (iterm2_recorded i) ops k = Some term ->
  0 < w -> 0 < h ->
  RectOn (kind_of i) mix w h (iterm2_whole_for term w h mix sp).
Proof. intros E. apply route_rec_detect in E. subst term. apply ident_iterm2_whole_rect. Qed.

Theorem ident_iterm2_rect (i : ident) (w h : Z) (mix : bool) : 0 < w -> 0 < h ->
  (forall sps : list (Z * Z), Z.of_nat (length sps) = h ->
     RectOn (kind_of i) mix w h (iterm2_lines_for (iterm2_recorded i) w mix sps))
  /\ (forall sp : Z * Z,
     RectOn (kind_of i) mix w h (iterm2_whole_for (iterm2_recorded i) w h mix sp)).
Proof.
  intros Hw Hh. split; intros; [apply ident_iterm2_lines_rect|apply ident_iterm2_whole_rect]; assumption.
Qed.

Theorem route_iterm2_rect (i : ident) ops k term (w h : Z) (mix : bool) :
  route_rec (iterm2_recorded i) ops k = Some term -> 0 < w -> 0 < h ->
  (forall sps : list (Z * Z), Z.of_nat (length sps) = h ->
     RectOn (kind_of i) mix w h (iterm2_lines_for term w mix sps))
  /\ (forall sp : Z * Z, RectOn (kind_of i) mix w h (iterm2_whole_for term w h mix sp)).
Proof.
  intros E Hw Hh. split; intros;
    [eapply route_iterm2_lines_rect|eapply route_iterm2_whole_rect]; eassumption.
Qed.

(** ** a render made in the mode of ANOTHER identity is outside *)

(** the contract pins the final cursor position from the start state of the checker *)
Lemma rect_final w h R r0 lm : Rect w h R ->
  row (exec lm (start r0 lm) R) = r0 + h - 1 /\ col (exec lm (start r0 lm) R) = lm + w.
Proof.
  intros (_ & _ & HR & _). specialize (HR lm (start r0 lm)).
  assert (Hc : clean (start r0 lm)) by (split; reflexivity).
  destruct (HR Hc eq_refl eq_refl) as [_ Hrow Hcol _ _ _ _ _]. cbn [row start] in Hrow. split; assumption.
Qed.

(** on Konsole, EVERY render made in plain (iTerm2) or WezTerm mode leaves the cursor below the
    rectangle: LINES and WHOLE alike, every size *)
Lemma konsole_row_lines w wz mix : forall sps t, parser t = Ground -> sps <> [] ->
  row (exec (col t) t (flat_map seen_konsole (iterm2_lines w false wz mix sps)))
  = row t + 2 * Z.of_nat (length sps) - 1
  /\ parser (exec (col t) t (flat_map seen_konsole (iterm2_lines w false wz mix sps))) = Ground
  /\ col (exec (col t) t (flat_map seen_konsole (iterm2_lines w false wz mix sps))) = col t.
Proof.
  assert (Hline : forall sp t, parser t = Ground ->
            let t' := exec (col t) t (flat_map seen_konsole (iterm2_line w false wz mix sp)) in
            row t' = row t + 1 /\ parser t' = Ground /\ col t' = col t).
  { intros sp t Hg. unfold iterm2_line. rewrite !flat_map_app, seen_konsole_ierase.
    cbn [flat_map seen_konsole app]. cbn zeta. rewrite exec_app.
    assert (He : exists evs, exec (col t) t (ierase w wz mix) = mk (row t) (col t) (sgr t) t evs).
    { unfold ierase. destruct (negb mix && wz); cbn [exec fold_left].
      - rewrite step_ech by exact Hg. eexists; reflexivity.
      - exists []. symmetry. apply mk_id. }
    destruct He as [evs ->]. cbn [exec fold_left].
    rewrite step_iterm_stay by exact Hg. rewrite step_cud by exact Hg. rewrite step_cr by exact Hg.
    cbn [row col parser mk]. unfold pos1. split; [lia|]. split; [exact Hg|reflexivity]. }
  unfold iterm2_lines. induction sps as [|sp sps IH]; intros t Hg Hne; [congruence|].
  destruct sps as [|sp2 sps].
  - cbn [map joinlf length]. destruct (Hline sp t Hg) as (H1 & H2 & H3). cbn zeta in *.
    split; [lia|]. split; assumption.
  - cbn [map]. rewrite joinlf_cons2, flat_map_app. cbn [flat_map seen_konsole]. rewrite exec_app.
    destruct (Hline sp t Hg) as (H1 & H2 & H3). cbn zeta in *.
    set (t1 := exec (col t) t (flat_map seen_konsole (iterm2_line w false wz mix sp))) in *.
    cbn [app]. rewrite exec_cons. rewrite step_lf by exact H2.
    set (t2 := mk (row t1 + 1) (col t) (sgr t1) t1 [EMove (row t1 + 1) (col t)]).
    assert (Hg2 : parser t2 = Ground) by exact H2.
    assert (Hc2 : col t2 = col t) by reflexivity.
    specialize (IH t2 Hg2 ltac:(discriminate)). rewrite Hc2 in IH. cbn [map] in IH.
    destruct IH as (I1 & I2 & I3). split; [|split; assumption].
    rewrite I1. cbn [row t2 mk]. rewrite H1. cbn [length]. lia.
Qed.

Theorem other_mode_on_konsole_lines_refuted w h wz mix sps :
  0 < h -> Z.of_nat (length sps) = h ->
  ~ RectOn KKonsole mix w h (iterm2_lines w false wz mix sps).
Proof.
  intros Hh Hlen HR. unfold RectOn in HR. cbn [views] in HR. apply Forall_inv in HR.
  destruct (rect_final _ _ _ 0 0 HR) as [Hrow _].
  assert (Hne : sps <> []) by (destruct sps; [cbn in Hlen; lia|discriminate]).
  destruct (konsole_row_lines w wz mix sps (start 0 0) eq_refl Hne) as (E & _).
  cbn [col start row] in E. rewrite E in Hrow. lia.
Qed.

(** concrete witnesses (WHOLE, both terminals; also at a non-zero start position) *)
Example other_mode_on_konsole_refuted :
  ~ RectOn KKonsole false 3 2 (iterm2_whole 3 2 false false false (7, 12))
  /\ rect_on_checkb KKonsole false 3 2 5 3 (iterm2_whole 3 2 false false false (7, 12)) = false
  /\ rect_on_checkb KKonsole false 3 2 5 3 (iterm2_whole 3 2 true false false (7, 12)) = true.
Proof.
  split; [|split; vm_compute; reflexivity].
  intros HR. inversion HR as [|? ? H1 _]; subst.
  destruct (rect_final _ _ _ 0 0 H1) as [Hrow _]. vm_compute in Hrow. discriminate.
Qed.

(** on WezTerm a plain-mode render with [mix = false] leaves cells of the rectangle unerased:
    the contract demands every cell covered *)
Example other_mode_on_wezterm_refuted :
  ~ RectOn KWezterm false 3 2 (iterm2_whole 3 2 false false false (7, 12))
  /\ rect_on_checkb KWezterm false 3 2 5 3 (iterm2_whole 3 2 false false false (7, 12)) = false
  /\ rect_on_checkb KWezterm false 3 2 5 3 (iterm2_whole 3 2 false true false (7, 12)) = true
  /\ rect_on_checkb KWezterm true 3 2 5 3 (iterm2_whole 3 2 false false true (7, 12)) = true.
Proof.
  split; [|repeat split; vm_compute; reflexivity].
  intros HR. inversion HR as [|? ? _ H2]; subst. inversion H2 as [|? ? H3 _]; subst.
  destruct H3 as (_ & _ & HR3 & _).
  specialize (HR3 0 (start 0 0) ltac:(split; reflexivity) eq_refl eq_refl).
  destruct HR3 as [(evs & El & _ & Hcov) _ _ _ _ _ _ _].
  vm_compute in El. subst evs.
  specialize (Hcov 0 0 ltac:(cbn; lia) ltac:(lia) eq_refl). vm_compute in Hcov. discriminate.
Qed.

(** non-vacuity of the identity theorems: a Konsole, a WezTerm and an old Konsole identity *)
Definition konsole_22_12 : ident :=
  {| id_name := Some (bs "konsole"); id_version := Some (bs "22.12.3"); id_reply := None |}.
Definition wezterm_2023 : ident :=
  {| id_name := Some (bs "wezterm"); id_version := Some (bs "20230712-072601"); id_reply := None |}.
Definition konsole_21_12 : ident :=
  {| id_name := Some (bs "konsole"); id_version := Some (bs "21.12.3"); id_reply := None |}.

Example ident_examples :
  kind_of konsole_22_12 = KKonsole /\ iterm2_recorded konsole_22_12 = Some (bs "konsole")
  /\ kind_of wezterm_2023 = KWezterm /\ iterm2_recorded wezterm_2023 = Some (bs "wezterm")
  /\ kind_of konsole_21_12 = KOther /\ iterm2_recorded konsole_21_12 = None
  /\ route_rec (iterm2_recorded konsole_22_12) [RForce 0 true; RCheck 2; RClear 2; RForce 1 false] 3
     = Some (Some (bs "konsole"))
  /\ route_rec (iterm2_recorded konsole_21_12) [RCheck 1] 2 = None
  /\ route_rec (iterm2_recorded konsole_21_12) [RCheck 1; RForce 1 true] 2 = Some None.
Proof. repeat split; vm_compute; reflexivity. Qed.

(** ** kitty: the frames of an animation, for every identity *)
Theorem ident_kitty_frame_lines_rect (i : ident) (w h : Z) (mix : bool) (pls : list (list Z)) :
  0 < w -> 0 < h -> Z.of_nat (length pls) = h ->
  Rect w h (kitty_frame_lines_for (kitty_recorded i) w mix pls).
Proof. intros. apply kitty_lines_rect; assumption. Qed.

Theorem ident_kitty_frame_whole_rect (i : ident) (w h : Z) (mix : bool) (pl : list Z) :
  0 < w -> 0 < h ->
  Rect w h (kitty_frame_whole_for (kitty_recorded i) w h mix pl).
Proof. intros. apply kitty_whole_rect; assumption. Qed.

Theorem ident_kitty_frame_rect (i : ident) (w h : Z) (mix : bool) : 0 < w -> 0 < h ->
  (forall pls : list (list Z), Z.of_nat (length pls) = h ->
     Rect w h (kitty_frame_lines_for (kitty_recorded i) w mix pls))
  /\ (forall pl : list Z, Rect w h (kitty_frame_whole_for (kitty_recorded i) w h mix pl)).
Proof.
  intros Hw Hh. split; intros;
    [apply ident_kitty_frame_lines_rect|apply ident_kitty_frame_whole_rect]; assumption.
Qed.

Definition kitty_ident (v : string) : ident :=
  {| id_name := Some (bs "kitty"); id_version := Some (bs v);
     id_reply := Some ([27; 95] ++ bs "Gi=31;OK" ++ [27; 92] ++ [27; 91] ++ bs "?62;c") |}.

Example kitty_ident_examples :
  kitty_recorded (kitty_ident "0.25.0") = Some [0; 25; 0]
  /\ kitty_anim_blend (kitty_recorded (kitty_ident "0.25.0")) = true
  /\ kitty_recorded (kitty_ident "0.25.1") = Some [0; 25; 1]
  /\ kitty_anim_blend (kitty_recorded (kitty_ident "0.25.1")) = false
  /\ kitty_recorded (kitty_ident "0.19.3") = None
  /\ kitty_anim_blend None = true.
Proof. repeat split; vm_compute; reflexivity. Qed.
