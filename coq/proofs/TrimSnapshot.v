(** * TrimSnapshot — later renders of the widget / image do not change an earlier canvas (C17) *)
From Coq Require Import List ZArith Bool.
Import ListNotations.
From TI Require Import lib.Term model.Trim model.TrimCanvas.
Open Scope Z_scope.

Theorem canvas_is_snapshot cv lv1 lv2 tl tt cols rows :
  (cv_gfx cv = true -> lv_disguise lv1 = lv_disguise lv2) ->
  content cv lv1 tl tt cols rows = content cv lv2 tl tt cols rows.
Proof.
  intros Hd. unfold content.
  destruct (cv_size cv) as [W H], (cv_image_size cv) as [w h], (cv_align cv) as [ha va].
  destruct (cv_gfx cv); [rewrite (Hd eq_refl)|]; reflexivity.
Qed.

(** the text branch is [content_text] on the stored data *)
Theorem content_of_text_canvas render W H w h ha va lv tl tt cols rows :
  content (build false render (W, H) (w, h) (ha, va)) lv tl tt cols rows
  = map (fun r => (r, O)) (content_text ha va W H w h (ti_lines render) tl tt cols rows).
Proof. reflexivity. Qed.
