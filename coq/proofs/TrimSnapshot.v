(** * TrimSnapshot — later renders of the widget / image do not change an earlier canvas (C17) *)
From Coq Require Import List ZArith Bool.
Import ListNotations.
From Coq Require Import Lia.
From TI Require Import lib.Term model.Trim model.TrimCanvas proofs.TrimCalc.
Open Scope Z_scope.

Theorem canvas_is_snapshot cv lv1 lv2 tl tt cols rows :
  (cv_gfx cv = true -> lv_disguise lv1 = lv_disguise lv2) ->
  content cv lv1 tl tt cols rows = content cv lv2 tl tt cols rows.
Proof.
  intros Hd. unfold content.
  destruct (cv_size cv) as [W H], (cv_image_size cv) as [w h], (cv_align cv) as [ha va].
  destruct (cv_gfx cv); [rewrite (Hd eq_refl)|]; reflexivity.
Qed.

(** the text branch is [content_text] on the stored data *)
Theorem content_of_text_canvas render W H w h ha va lv tl tt cols rows :
  content (build false render (W, H) (w, h) (ha, va)) lv tl tt cols rows
  = map (fun r => (r, O)) (content_text ha va W H w h (ti_lines render) tl tt cols rows).
Proof. reflexivity. Qed.

(** ** flow widgets: in EVERY environment, the rows announced are the rows rendered *)
Theorem rows_agree_in (env : Type) (valid_size : env -> option Z -> Z * Z) e upscale maxcol :
  rows_in env valid_size e upscale maxcol = snd (flow_canvas_in env valid_size e upscale maxcol)
  /\ snd (flow_image_in env valid_size e upscale maxcol) = snd (flow_canvas_in env valid_size e upscale maxcol)
  /\ (fst (valid_size e (Some maxcol)) = maxcol ->
      fst (flow_image_in env valid_size e upscale maxcol) <= fst (flow_canvas_in env valid_size e upscale maxcol)).
Proof.
  unfold rows_in, flow_canvas_in, flow_image_in. split; [apply rows_agree|]. split.
  - apply (flow_image_fits (fst (valid_size e (Some maxcol)))). reflexivity.
  - intros Hf. apply (flow_image_fits maxcol). exact Hf.
Qed.

(** the environment matters: an ORIGINAL size remembered from another environment
    announces a wrong number of rows (a 10x20-pixel block image, cell ratio 0.5 at
    construction, 1.0 at layout: 10 rows announced, 20 rendered) *)
Definition ex_valid_size (ratio2 : Z) (req : option Z) : Z * Z :=    (* ratio2 = 2 * cell ratio *)
  match req with
  | None => (10, (20 * ratio2 + 1) / 2)
  | Some c => (c, (2 * c * ratio2 + 1) / 2)
  end.

Example stale_original_size_refuted :
  rows_stale Z ex_valid_size 1 2 false 10 = 10
  /\ snd (flow_canvas_in Z ex_valid_size 2 false 10) = 20
  /\ rows_in Z ex_valid_size 2 false 10 = 20.
Proof. repeat split; vm_compute; reflexivity. Qed.
