(** C11 — close() arriving while a next() of the same ImageIterator is executing
    (model/ImgIterReent.v): with the code's close() every such call is refused and the
    concurrent history shows exactly the trace of its sequential erasure, hence (by the
    refinement of proofs/ImgIterProofs.v) that of the specification; in particular the
    image is released by the first close / drop / exhaustion / failure that follows, whatever
    was refused before.  The detach-first close() is refuted.  Lemmas only; the theorems are
    restated in props/C11.v. *)
From Coq Require Import List ZArith Bool Arith Lia.
Import ListNotations.
From TI Require Import model.ImgIter model.ImgIterSpec model.ImgIterReent proofs.ImgIterProofs.

Set Implicit Arguments.
Local Open Scope Z_scope.

Section ReentRef.
  Variables Str Size : Type.
  Variable fmt_frame : nat -> Size -> res Str.
  Variable hash : Size -> Z.
  Variable N : nat.
  Variable cached : bool.
  Variable sizes : list Size.
  Hypothesis HN : (1 <= N)%nat.
  Hypothesis Heof : forall z, fmt_frame N z = Eof.
  Hypothesis Hnoeof : forall k z, (k < N)%nat -> fmt_frame k z <> Eof.
  Hypothesis Hinj : cached = true ->
    forall a b, In a sizes -> In b sizes -> hash a = hash b -> a = b.

  Notation st := (st Str Size).
  Notation rst := (rst Str Size).
  Notation Inv := (Inv fmt_frame hash N cached sizes).
  Notation step := (step fmt_frame hash N cached).
  Notation sstep := (sstep fmt_frame N).
  Notation ccode := (@close_code Str Size).
  Notation rstep := (rstep fmt_frame hash N cached ccode).
  Notation rtrace := (rtrace fmt_frame hash N cached ccode).
  Notation rrun := (rrun fmt_frame hash N cached ccode).
  Notation trace := (trace fmt_frame hash N cached).
  Notation strace := (strace fmt_frame N).

  (** the attributes are set exactly while the iterator has not ended *)
  Definition RInv (r : rst) : Prop := Inv (base r) /\ att r = negb (is_end (base r)).

  Lemma Inv_open : forall s : st, Inv s -> img_open s = negb (is_end s).
  Proof. intros s (_ & H). unfold is_end. destruct (ph s); simpl; intuition. Qed.

  Lemma end_it_fix : forall s : st, ph s = PEnd -> img_open s = false -> end_it s = s.
  Proof. intros []; unfold end_it; simpl; intros; subst; reflexivity. Qed.

  Lemma end_reopen : forall s s1 : st, ph s1 = PEnd -> img_open s1 = false -> end_it (reopen s s1) = s1.
  Proof. intros s []; unfold end_it, reopen; simpl; intros; subst; reflexivity. Qed.

  Lemma reopen_same : forall s s1 : st, img_open s1 = img_open s -> reopen s s1 = s1.
  Proof. intros s []; unfold reopen; simpl; intros H; rewrite <- H; reflexivity. Qed.

  Lemma is_end_ph : forall s : st, is_end s = true -> ph s = PEnd.
  Proof. intros s. unfold is_end. destruct (ph s); auto; discriminate. Qed.

  (** A REFUSED CLOSE CHANGES NOTHING: every close() that arrives while the generator of a live
      iterator executes raises ValueError and leaves the state as it is *)
  Lemma close_during_refused : forall r : rst, att r = true -> ccode true r = (r, true).
  Proof. intros r H. unfold close_code. rewrite H. reflexivity. Qed.

  Lemma attempts_code : forall m (r : rst), att r = true -> attempts ccode m r = (r, m).
  Proof.
    induction m as [|m IH]; intros r H; simpl; [reflexivity|].
    rewrite close_during_refused, IH by assumption. reflexivity.
  Qed.

  Lemma rstep_code : forall (r : rst) a o, RInv r -> R (base r) a -> op_ok sizes (erase o) ->
    step (base r) (erase o) = (base (fst (rstep r o)), fst (snd (rstep r o))) /\
    RInv (fst (rstep r o)) /\
    snd (snd (rstep r o)) = expected_refusals (att r) o.
  Proof.
    intros r a o (HI & Ha) HR Hok.
    pose proof (@step_sim Str Size fmt_frame hash N cached sizes HN Heof Hnoeof Hinj _ _ (erase o) HI HR Hok)
      as (_ & HI' & _).
    pose proof (Inv_open HI) as Hopen.
    pose proof (Inv_open HI') as Hopen'.
    assert (Hnx : erase o = Next -> forall m,
      step (base r) Next = (base (fst (rstep r (RNextCD m))), fst (snd (rstep r (RNextCD m)))) /\
      RInv (fst (rstep r (RNextCD m))) /\
      snd (snd (rstep r (RNextCD m))) = (if att r then m else 0)%nat).
    { intros Eo m. rewrite Eo in *. unfold ImgIterReent.rstep. destruct (att r) eqn:Eatt.
      - rewrite attempts_code by assumption.
        destruct (step (base r) Next) as [s1 x] eqn:Es. cbn [fst snd] in *.
        destruct (is_end s1) eqn:Ee.
        + unfold close_code. cbn [att base negb fst snd]. rewrite Eatt. cbn [negb fst snd base att].
          rewrite end_reopen; [|apply is_end_ph; exact Ee|exact Hopen'].
          split; [reflexivity|]. split; [|reflexivity]. split; [exact HI'|].
          cbn [base att]. rewrite Ee. reflexivity.
        + cbn [fst snd base att]. rewrite reopen_same.
          2:{ rewrite Hopen', Hopen, <- Ha. reflexivity. }
          split; [reflexivity|]. split; [|reflexivity]. split; [exact HI'|].
          cbn [base att]. rewrite Ee, Eatt. reflexivity.
      - cbn [fst snd]. assert (Ep : ph (base r) = PEnd).
        { apply is_end_ph. destruct (is_end (base r)); [reflexivity|discriminate]. }
        unfold ImgIter.step. rewrite Ep.
        split; [reflexivity|]. split; [|reflexivity]. split; [exact HI|]. rewrite Eatt. exact Ha. }
    destruct o as [[|p| | |z]|m]; cbn [erase expected_refusals] in *.
    - destruct (Hnx eq_refl 0%nat) as (H1 & H2 & H3).
      change (rstep r (RPlain Next)) with (rstep r (RNextCD 0)).
      split; [exact H1|]. split; [exact H2|]. rewrite H3. destruct (att r); reflexivity.
    - clear Hnx. unfold ImgIterReent.rstep. destruct (att r) eqn:Eatt.
      + destruct (step (base r) (Seek p)) as [s1 x] eqn:Es. cbn [fst snd base att] in *.
        split; [reflexivity|]. split; [|reflexivity]. split; [exact HI'|].
        cbn [base att].
        assert (Eph : ph s1 = ph (base r)).
        { revert Es. unfold ImgIter.step.
          destruct (negb ((0 <=? p) && (p <? Z.of_nat N))); [intros E; inversion E; reflexivity|].
          destruct (ph (base r)) eqn:Ep; intros E; inversion E; subst; simpl; assumption. }
        unfold is_end in *. rewrite Eph. exact Ha.
      + assert (Ep : ph (base r) = PEnd).
        { apply is_end_ph. destruct (is_end (base r)); [reflexivity|discriminate]. }
        cbn [fst snd]. unfold ImgIter.step, in_rng. rewrite Ep.
        destruct ((0 <=? p) && (p <? Z.of_nat N)); cbn [negb];
          (split; [reflexivity|]; split; [|reflexivity]; split; [exact HI|]; rewrite Eatt; exact Ha).
    - clear Hnx. unfold ImgIterReent.rstep, close_code. cbn [ImgIter.step fst snd] in *.
      destruct (att r) eqn:Eatt; cbn [negb fst snd base att].
      + split; [reflexivity|]. split; [|reflexivity]. split; [exact HI'|]. reflexivity.
      + assert (Ee : is_end (base r) = true) by (destruct (is_end (base r)); [reflexivity|discriminate]).
        rewrite end_it_fix; [|apply is_end_ph; exact Ee|rewrite Hopen, Ee; reflexivity].
        split; [reflexivity|]. split; [|reflexivity]. split; [exact HI|]. rewrite Eatt. exact Ha.
    - clear Hnx. unfold ImgIterReent.rstep, close_code. cbn [ImgIter.step fst snd] in *.
      destruct (att r) eqn:Eatt; cbn [negb fst snd base att].
      + split; [reflexivity|]. split; [|reflexivity]. split; [exact HI'|]. reflexivity.
      + assert (Ee : is_end (base r) = true) by (destruct (is_end (base r)); [reflexivity|discriminate]).
        rewrite end_it_fix; [|apply is_end_ph; exact Ee|rewrite Hopen, Ee; reflexivity].
        split; [reflexivity|]. split; [|reflexivity]. split; [exact HI|]. rewrite Eatt. exact Ha.
    - clear Hnx. unfold ImgIterReent.rstep. cbn [ImgIter.step fst snd base att] in *.
      split; [reflexivity|]. split; [|reflexivity]. split; [exact HI'|]. exact Ha.
    - destruct (Hnx eq_refl m) as (H1 & H2 & H3).
      split; [exact H1|]. split; [exact H2|]. exact H3.
  Qed.

  Notation srtrace := (srtrace fmt_frame N).
  Definition rop_ok (o : rop Size) : Prop := op_ok sizes (erase o).

  Lemma att_live : forall (r : rst) a, RInv r -> R (base r) a -> att r = negb (closed a).
  Proof.
    intros r a (HI & Ha) HR. rewrite Ha, <- (Inv_open HI). exact (Inv_img_open HI HR).
  Qed.

  Lemma rtrace_sim : forall ops (r : rst) a, RInv r -> R (base r) a -> Forall rop_ok ops ->
    rtrace r ops = srtrace a ops.
  Proof.
    induction ops as [|o ops IH]; intros r a HRI HR Hok; [reflexivity|].
    inversion Hok as [|? ? Ho Hops]; subst.
    pose proof (rstep_code o HRI HR Ho) as (E1 & HI1 & E3).
    pose proof (att_live HRI HR) as Hlive.
    destruct HRI as (HI & Ha).
    pose proof (@step_sim Str Size fmt_frame hash N cached sizes HN Heof Hnoeof Hinj _ _ (erase o) HI HR Ho)
      as (Hout & HI' & HR').
    simpl. destruct (rstep r o) as [r1 [x k]]. destruct (sstep a (erase o)) as [a1 y].
    rewrite E1 in *. cbn [fst snd] in *. subst y k.
    pose proof (Inv_img_open HI' HR') as Hop.
    destruct HR' as (Hp & Hsz & Hl & HRR).
    rewrite Hop, Hp, Hl, Hlive. f_equal. apply IH; auto. repeat split; assumption.
  Qed.

  Lemma rrun_sim : forall ops (r : rst) a, RInv r -> R (base r) a -> Forall rop_ok ops ->
    RInv (rrun r ops) /\ exists a', R (base (rrun r ops)) a'.
  Proof.
    induction ops as [|o ops IH]; intros r a HRI HR Hok; [simpl; eauto|].
    inversion Hok as [|? ? Ho Hops]; subst.
    pose proof (rstep_code o HRI HR Ho) as (E1 & HI1 & _).
    destruct HRI as (HI & Ha).
    pose proof (@step_sim Str Size fmt_frame hash N cached sizes HN Heof Hnoeof Hinj _ _ (erase o) HI HR Ho)
      as (_ & _ & HR').
    rewrite E1 in HR'. cbn [fst] in HR'. simpl. eapply IH; eauto.
  Qed.

  (** whatever was refused before, a close() / deletion that arrives while no next() is executing
      releases the image and detaches the attributes *)
  Lemma close_releases : forall (r : rst) o, RInv r -> o = Close \/ o = Drop ->
    img_open (base (fst (rstep r (RPlain o)))) = false /\ att (fst (rstep r (RPlain o))) = false.
  Proof.
    intros r o (HI & Ha) Ho. pose proof (Inv_open HI) as Hopen.
    assert (E : rstep r (RPlain o) = (fst (ccode false r), (OClosed, 0%nat))) by (destruct Ho; subst; reflexivity).
    rewrite E. cbn [fst]. unfold close_code. destruct (att r) eqn:Eatt; cbn [negb fst base att].
    - split; reflexivity.
    - split; [|exact Eatt]. rewrite Hopen. destruct (is_end (base r)); [reflexivity|discriminate].
  Qed.
End ReentRef.

(* ====================================================================== *)
Section ReentMain.
  Variables Str Size : Type.
  Variable fmt_frame : nat -> Size -> res Str.
  Variable hash : Size -> Z.
  Variable N : nat.

  Notation ccode := (@close_code Str Size).

  Lemma rops_in_sizes_of : forall z0 (ops : list (rop Size)),
    Forall (rop_ok (sizes_of z0 (map (@erase Size) ops))) ops.
  Proof.
    intros z0 ops. pose proof (ops_in_sizes_of z0 (map (@erase Size) ops)) as H.
    rewrite Forall_map in H. exact H.
  Qed.

  (** THE REFINEMENT for concurrent histories: next / seek / close / drop / size changes AND
      next() calls during which any number of close() calls arrive — every such call is refused
      (as long as the iterator is live) and the caller sees exactly what the specification shows for
      the sequential erasure: outcomes, frames, image.tell(), loop_no, image still open *)
  Lemma reent_refines_spec : forall cached repeat pos0 z0 (ops : list (rop Size)),
    renderer_ok fmt_frame N -> repeat <> 0 ->
    (cached = true -> hash_separates hash (sizes_of z0 (map (@erase Size) ops))) ->
    rtrace fmt_frame hash N cached ccode (rinit Str repeat pos0 z0) ops
    = srtrace fmt_frame N (sinit repeat pos0 z0) ops.
  Proof.
    intros cached repeat pos0 z0 ops (HN & He & Hne) Hr Hh.
    apply (@rtrace_sim Str Size fmt_frame hash N cached (sizes_of z0 (map (@erase Size) ops)) HN He Hne Hh).
    - split; [apply init_Inv; auto using z0_in_sizes_of|reflexivity].
    - apply init_R.
    - apply rops_in_sizes_of.
  Qed.

  (** open/close balance: after ANY history, including refused closes, the next close() / deletion
      hands the iterator's image to _close_image (and every later one is a no-op) *)
  Lemma reent_release : forall cached repeat pos0 z0 (ops : list (rop Size)) o,
    renderer_ok fmt_frame N -> repeat <> 0 ->
    (cached = true -> hash_separates hash (sizes_of z0 (map (@erase Size) ops))) ->
    o = Close \/ o = Drop ->
    let r := rrun fmt_frame hash N cached ccode (rinit Str repeat pos0 z0) (ops ++ [RPlain o]) in
    img_open (base r) = false /\ att r = false.
  Proof.
    intros cached repeat pos0 z0 ops o (HN & He & Hne) Hr Hh Ho.
    assert (Happ : forall l1 l2 (r : rst Str Size),
      rrun fmt_frame hash N cached ccode r (l1 ++ l2)
      = rrun fmt_frame hash N cached ccode (rrun fmt_frame hash N cached ccode r l1) l2).
    { induction l1; simpl; auto. }
    cbv zeta. rewrite Happ. cbn [rrun].
    destruct (@rrun_sim Str Size fmt_frame hash N cached (sizes_of z0 (map (@erase Size) ops)) HN He Hne Hh
                ops (rinit Str repeat pos0 z0) (sinit repeat pos0 z0)) as (HRI & _).
    - split; [apply init_Inv; auto using z0_in_sizes_of|reflexivity].
    - apply init_R.
    - apply rops_in_sizes_of.
    - eapply close_releases; eauto.
  Qed.
End ReentMain.

(* ---------------------------------------------------------------- examples *)

Definition rex_history : list (rop nat) :=
  [RPlain Next; RNextCD 2; RPlain (Seek 0); RNextCD 1; RPlain Close; RNextCD 3; RPlain Close].

(** non-vacuity: a history with three refused close() calls; the image stays open through them
    and is released by the close() that follows *)
Example rex_trace :
  map (fun x => (snd x, snd (fst x)))
      (rtrace ex_fmt Z.of_nat 3 true (@close_code nat nat) (rinit nat 2 0 5%nat) rex_history)
  = [(0, true); (2, true); (0, true); (1, true); (0, false); (0, false); (0, false)]%nat.
Proof. vm_compute. reflexivity. Qed.

Example rex_refines :
  rtrace ex_fmt Z.of_nat 3 true (@close_code nat nat) (rinit nat 2 0 5%nat) rex_history
  = srtrace ex_fmt 3 (sinit 2 0 5%nat) rex_history.
Proof. apply reent_refines_spec; [apply ex_renderer_ok|discriminate|intros _; apply ex_hash_separates]. Qed.

(** the excluded design (attributes detached before they are released): one refused close() and the
    image is never handed to _close_image, whatever clean-up follows *)
Lemma detach_first_refuted :
  exists ops : list (rop nat),
    let r := rrun ex_fmt Z.of_nat 3 false (@close_detach_first nat nat) (rinit nat 1 0 5%nat)
                  (ops ++ [RPlain Close; RPlain Drop]) in
    img_open (base r) = true.
Proof. exists [RPlain Next; RNextCD 1]. vm_compute. reflexivity. Qed.
