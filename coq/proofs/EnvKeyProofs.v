(** Proofs for C15 ([model/CachesEnv.v]): the cache key is the active terminal's WINDOW
    size; the process environment ([COLUMNS] / [LINES]) has no influence on any answer.

    With [key_window] the library-side state machine runs against the window itself, so
    the environment-aware machine IS [model/Caches.v]'s ([etrace_window]) and everything
    proved about it — in particular [trace_eq_spec]: every answer and every body counter
    is that of the cache-free specification, whose answers are fresh computations for the
    CURRENT window and settings — holds for every environment and every history of
    environment changes.  The excluded key function [key_env_first] refutes it: a variable
    that agrees with the window at start-up pins the key, and a resize is never noticed. *)
From Coq Require Import List ZArith Bool Arith.
Import ListNotations.
From TI Require Import lib.Sched model.Caches model.CachesEnv proofs.CachesProofs.
Open Scope Z_scope.
Local Arguments Nat.eqb : simpl never.

Lemma seen_window pe w : seen key_window pe w = w.
Proof. destruct w; reflexivity. Qed.

Lemma set_tm_same s : set_tm s (tm s) = s.
Proof. destruct s; reflexivity. Qed.

Lemma tm_get_cs e s : tm (fst (get_cs e s)) = tm s.
Proof.
  unfold get_cs. destruct (negb (has_tty e)); auto.
  destruct ((cols (tm s) =? k_c (csc s)) && (rows (tm s) =? k_r (csc s))); auto.
Qed.

Lemma tm_get_cs_abort e s : tm (fst (get_cs_abort e s)) = tm s.
Proof.
  unfold get_cs_abort. destruct (negb (has_tty e)); auto.
  destruct ((cols (tm s) =? k_c (csc s)) && (rows (tm s) =? k_r (csc s))); auto.
  destruct (ioctl_ok e (tm s)); auto. destruct (qen s); auto.
Qed.

Lemma tm_get_nv e s : tm (fst (get_nv e s)) = tm s.
Proof. unfold get_nv. destruct (m_nv s); auto. Qed.

Lemma tm_set_cell_ratio e s m : tm (fst (set_cell_ratio e s m)) = tm s.
Proof.
  unfold set_cell_ratio. destruct m.
  - destruct (supp s) as [b|].
    + destruct (negb b); auto. pose proof (tm_get_cs e s). destruct (get_cs e s); auto.
    + pose proof (tm_get_cs e s) as A. destruct (get_cs e s) as [s1 cs] eqn:G. simpl in A.
      destruct (negb (negb (has0 cs))); simpl; auto.
      pose proof (tm_get_cs e (set_supp s1 (Some (negb (has0 cs))))) as B.
      destruct (get_cs e (set_supp s1 (Some (negb (has0 cs))))). simpl in *. congruence.
  - destruct (supp s) as [b|].
    + destruct (negb b); auto.
    + pose proof (tm_get_cs e s) as A. destruct (get_cs e s) as [s1 cs] eqn:G. simpl in A.
      destruct (negb (negb (has0 cs))); simpl; auto.
  - destruct (n <=? 0); auto.
Qed.

(** what an operation does to the terminal the library runs against *)
Lemma step_tm e s o :
  tm (fst (step e s o))
  = match o with
    | Resize t => t
    | GetTscResize t => if Nat.eqb (n_tsc (fst (step e s o))) (n_tsc s) then tm s else t
    | _ => tm s
    end.
Proof.
  destruct o; simpl; auto.
  - destruct (swap s); auto.
  - destruct (swap s); auto.
  - destruct (qen s); auto.
  - pose proof (tm_set_cell_ratio e s m). destruct (set_cell_ratio e s m); auto.
  - pose proof (tm_get_cs e s). destruct (get_cs e s); auto.
  - unfold get_ratio. destruct (ratio s); auto. pose proof (tm_get_cs e s). destruct (get_cs e s); auto.
  - unfold get_col. destruct (m_col s k); auto.
  - pose proof (tm_get_nv e s). destruct (get_nv e s); auto.
  - unfold get_kitty. destruct (kitty_memo e).
    + destruct (m_kit s); auto. pose proof (tm_get_nv e s). destruct (get_nv e s); auto.
    + pose proof (tm_get_nv e s). destruct (get_nv e s); auto.
  - unfold get_tsc. destruct (tsc s) as [[v [c r]]|]; auto.
    destruct ((cols (tm s) =? c) && (rows (tm s) =? r)); auto.
  - unfold get_tsc_resize. destruct (tsc s) as [[v [c r]]|]; simpl.
    + destruct ((cols (tm s) =? c) && (rows (tm s) =? r)); simpl.
      * now rewrite Nat.eqb_refl.
      * destruct (Nat.eqb_spec (S (n_tsc s)) (n_tsc s)) as [E|E]; auto. now apply Nat.neq_succ_diag_l in E.
    + destruct (Nat.eqb_spec (S (n_tsc s)) (n_tsc s)) as [E|E]; auto. now apply Nat.neq_succ_diag_l in E.
  - pose proof (tm_get_cs_abort e s). destruct (get_cs_abort e s); auto.
  - unfold get_ratio_abort. destruct (ratio s); auto.
    pose proof (tm_get_cs_abort e s). destruct (get_cs_abort e s); auto.
  - unfold get_col_abort. destruct (m_col s k); auto. destruct (has_tty e && qen s); auto.
  - unfold get_nv_abort. destruct (m_nv s); auto. destruct (has_tty e && qen s); auto.
Qed.

(** with the window as the key, an operation of the environment-aware machine is the
    operation of [model/Caches.v] on the window, whatever the environment holds *)
Lemma estep_window e x o :
  tm (e_lib x) = e_win x ->
  let x' := fst (estep key_window e x o) in
  tm (e_lib x') = e_win x'
  /\ match o with
     | EnvSet pe => e_lib x' = e_lib x /\ snd (estep key_window e x o) = None
     | Op o' => e_lib x' = fst (step e (e_lib x) o') /\ snd (estep key_window e x o) = Some (snd (step e (e_lib x) o'))
     end.
Proof.
  intro I. destruct o as [pe|o'].
  - simpl. rewrite seen_window, <- I, set_tm_same. auto.
  - pose proof (step_tm e (e_lib x) o') as T.
    destruct o'; cbn [estep fst snd e_lib e_win e_pe];
      try (destruct (step e (e_lib x) _) as [l' out] eqn:S; cbn [fst snd e_lib e_win] in *; split; [congruence|auto]).
    + (* Resize *) rewrite seen_window. cbn [step fst snd]. destruct (e_lib x); auto.
    + (* GetTscResize *)
      rewrite seen_window. destruct (step e (e_lib x) (GetTscResize t)) as [l' out] eqn:S.
      cbn [fst snd e_lib e_win] in *. split; auto.
      destruct (Nat.eqb (n_tsc l') (n_tsc (e_lib x))); congruence.
Qed.

Lemma etrace_window e : forall ops x,
    tm (e_lib x) = e_win x -> etrace key_window e x ops = trace e (e_lib x) (strip ops).
Proof.
  induction ops as [|o r IH]; intros x I; auto.
  pose proof (estep_window e x o I) as [I' E]. cbv zeta in I', E.
  simpl. destruct (estep key_window e x o) as [x' out] eqn:S. simpl in *.
  destruct o as [pe|o'].
  - destruct E as [L ->]. simpl. rewrite (IH x' I'), L. reflexivity.
  - destruct E as [L ->]. simpl. destruct (step e (e_lib x) o') as [l' out'] eqn:S'. simpl in *.
    rewrite (IH x' I'), L. reflexivity.
Qed.

Lemma einit_window pe w : e_lib (einit key_window pe w) = init w /\ tm (e_lib (einit key_window pe w)) = e_win (einit key_window pe w).
Proof. unfold einit. simpl. rewrite seen_window. auto. Qed.

(** THE STATEMENT: for every start-up environment, every history of resizes, toggles,
    getters AND environment changes, the whole observable behaviour — every answer and
    every body counter — is that of the cache-free specification for the history of
    library operations: the answers are fresh computations for the current WINDOW size
    and settings *)
Lemma env_trace_is_specification e pe t0 ops :
  kitty_memo e = false -> wf_sizes t0 (strip ops) = true -> px_ok e t0 (strip ops) ->
  etrace key_window e (einit key_window pe t0) ops = spec_trace e (hinit t0) (strip ops).
Proof.
  intros K W P. destruct (einit_window pe t0) as [L I].
  rewrite (etrace_window e ops _ I), L. now apply trace_eq_spec.
Qed.

(** ... in particular no answer depends on [COLUMNS] / [LINES]: two runs of the same
    library operations in different environments, changed at different moments, are
    indistinguishable (no side condition) *)
Lemma env_independent e pe pe' t0 ops ops' :
  strip ops = strip ops' ->
  etrace key_window e (einit key_window pe t0) ops = etrace key_window e (einit key_window pe' t0) ops'.
Proof.
  intro E. destruct (einit_window pe t0) as [L I]. destruct (einit_window pe' t0) as [L' I'].
  rewrite (etrace_window e ops _ I), (etrace_window e ops' _ I'), L, L', E. reflexivity.
Qed.

(** the reason the excluded key function passes every test made without the variables:
    then it IS the window *)
Lemma env_first_without_variables pe w :
  pinned (pe_cols pe) = None -> pinned (pe_lines pe) = None -> seen key_env_first pe w = w.
Proof. unfold seen, key_env_first. intros -> ->. destruct w; reflexivity. Qed.

(** ** the refutation of the excluded key function, and non-vacuity

    80x24 cells at 800x480 px, [COLUMNS=80 LINES=24] exported — equal to the window at
    start-up —; get the cell size, resize the window to 100x30 cells at 800x600 px, get
    it again *)
Definition ek_env : tenv :=
  {| has_tty := true; io_px := true; xt_cell := true; xt_area := true; xt_name := Some (1, 1);
     env_name := (4, 3); col_fg := 0; col_bg := 0; kitty_memo := false |}.
Definition ek_t0 : tsize := {| cols := 80; rows := 24; xpx := 800; ypx := 480 |}.
Definition ek_t1 : tsize := {| cols := 100; rows := 30; xpx := 800; ypx := 600 |}.
Definition ek_pe : penv := {| pe_cols := Some 80; pe_lines := Some 24 |}.
Definition ek_ops : list eop := [Op GetCellSize; Op GetTsc; Op (Resize ek_t1); Op GetCellSize; Op GetTsc].

Example env_window_follows_resize :
  etrace key_window ek_env (einit key_window ek_pe ek_t0) ek_ops
  = [([1; 10; 20], [1; 0; 0; 0]); ([800; 480], [1; 0; 0; 1]); ([], [1; 0; 0; 1]);
     ([1; 8; 20], [2; 0; 0; 1]); ([800; 600], [2; 0; 0; 2])].
Proof. vm_compute. reflexivity. Qed.

Lemma env_first_key_refuted :
  exists e pe t0 ops,
    kitty_memo e = false /\ wf_sizes t0 (strip ops) = true /\ px_ok e t0 (strip ops)
    /\ pe_cols pe = Some (cols t0) /\ pe_lines pe = Some (rows t0)
    /\ etrace key_env_first e (einit key_env_first pe t0) ops <> spec_trace e (hinit t0) (strip ops)
    /\ nth 3 (etrace key_env_first e (einit key_env_first pe t0) ops) ([], []) = ([1; 10; 20], [1; 0; 0; 1])
    /\ nth 3 (spec_trace e (hinit t0) (strip ops)) ([], []) = ([1; 8; 20], [2; 0; 0; 1]).
Proof.
  exists ek_env, ek_pe, ek_t0, ek_ops. repeat split; try (vm_compute; reflexivity).
  vm_compute. discriminate.
Qed.

(** one variable alone pins its own dimension: [LINES] unset, [COLUMNS=80]; the window
    becomes 160 columns wide at the same pixel size — the cell width stays at 10 px *)
Example env_first_one_variable :
  let t1 := {| cols := 160; rows := 24; xpx := 800; ypx := 480 |} in
  let pe := {| pe_cols := Some 80; pe_lines := None |} in
  let ops := [Op GetCellSize; Op (Resize t1); Op GetCellSize] in
  nth 2 (etrace key_env_first ek_env (einit key_env_first pe ek_t0) ops) ([], []) = ([1; 10; 20], [1; 0; 0; 0])
  /\ nth 2 (etrace key_window ek_env (einit key_window pe ek_t0) ops) ([], []) = ([1; 5; 20], [2; 0; 0; 0]).
Proof. split; vm_compute; reflexivity. Qed.
