(** Proofs about the comparison used by the C14 correspondence ([model/LocksTie.v]):
    the integer encoding of events loses nothing, and the two verdicts of [check] are
    consistent — every trace of the model is accepted by the judge that is applied to the
    observed traces. *)
From Coq Require Import List Arith Bool Lia.
Import ListNotations.
From TI Require Import lib.Sched model.Locks model.LocksSpec model.LocksTie proofs.LocksProofs.
(** ** The encoding used by the correspondence loses nothing, and the two verdicts of
    [LocksTie.check] are consistent: a trace equal to the model's is accepted *)
Lemma dec_enc_event e : dec_event (enc_event e) = Some e.
Proof. destruct e; try destruct l; try destruct h; reflexivity. Qed.

Lemma dec_enc_trace tr :
  dec_trace (map (fun te => (fst te, enc_event (snd te))) tr) = Some tr.
Proof.
  induction tr as [|[t e] tr IH]; cbn [map dec_trace fst snd]; [reflexivity|].
  now rewrite dec_enc_event, IH.
Qed.

Lemma nl_eqb_eq a b : nl_eqb a b = true -> a = b.
Proof.
  revert b. induction a as [|x a IH]; destruct b as [|y b]; cbn; try discriminate; auto.
  intro H. apply andb_prop in H. destruct H as [H1 H2].
  apply Nat.eqb_eq in H1. subst. f_equal. auto.
Qed.

Lemma tr_eqb_eq a b : tr_eqb a b = true -> a = b.
Proof.
  revert b. induction a as [|[t l] a IH]; destruct b as [|[u m] b]; cbn; try discriminate; auto.
  intro H. apply andb_prop in H. destruct H as [H H3]. apply andb_prop in H.
  destruct H as [H1 H2]. apply Nat.eqb_eq in H1. apply nl_eqb_eq in H2. subst.
  f_equal. auto.
Qed.

Lemma model_trace_accepted c : obs_ok (model_trace c false) = true.
Proof.
  unfold obs_ok, model_trace. rewrite dec_enc_trace.
  apply (trace_accepted_lemma (cfg_of c false) eq_refl (prog_of c)).
  apply run_macro_reachable.
Qed.

(** code 2 ("the observed trace contradicts the specification") never comes without
    code 1: an observed trace that equals the model's is accepted *)
Lemma check_codes c : check c = 0 \/ check c = 1 \/ check c = 3.
Proof.
  unfold check. destruct (tr_eqb (l_obs c) (model_trace c false)) eqn:E.
  - apply tr_eqb_eq in E. rewrite E, model_trace_accepted. auto.
  - destruct (obs_ok (l_obs c)); auto.
Qed.
