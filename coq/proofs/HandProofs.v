(** Proofs for C15 ([model/CachesHand.v]): the hand-over of the cell-size cache at the
    first [Process.start()] as steps of a thread, concurrent with win-size-swap toggles
    (and every other "setting first, then zero the cache under the lock" invalidator) and
    with [get_cell_size] calls, as a system over [lib/Sched.v].

    For ANY number of threads, any programs of toggles, [get_cell_size] calls and
    [Process.start()]s and any schedule: whenever no toggle is between its flag write and
    its clear, the cache the module global names is empty or holds the value computed
    under the CURRENT flag, and every [get_cell_size] about to write the cache holds such
    a value.  Three facts carry the proof:

    - the copy is made, and both globals are rebound, inside ONE region of the old lock,
      and while the lock global still names the old lock nobody can be inside any other
      region: the array starts as an exact copy of a cache nobody can touch;
    - a [get_cell_size] that is inside has its SECOND lock expression equal to what the
      lock global names now (the old lock cannot be replaced while the getter holds it), so
      a toggle that evaluates the global after its flag write is excluded by it;
    - a toggle that evaluated the OLD lock before the rebinding clears, later, whatever
      cache the global names THEN — the new one.

    The variant that copies BEFORE taking the lock loses the first fact. *)
From Coq Require Import List Bool Arith.
Import ListNotations.
From TI Require Import lib.Sched model.CachesHand proofs.C15Arith.

Definition isl (l o : xobj) : nat := if xobj_eqb l o then 1 else 0.

(** how often a thread at [p] holds lock object [o] *)
Definition cnt (p : xpc) (o : xobj) : nat :=
  match p with
  | XTClear l | XTRel l | XGEval2 l | XGRel1 l _ | XSTest l | XSCopy l | XSBindC l | XSBindL l | XSRel l => isl l o
  | XGAcq2 l1 _ => isl l1 o
  | XGLook l1 l2 | XGRead l1 l2 | XGWrite l1 l2 _ | XGRel2 l1 l2 _ => isl l1 o + isl l2 o
  | _ => 0
  end.

(** the lock objects a thread at [p] has evaluated *)
Definition locks_of (p : xpc) : list xobj :=
  match p with
  | XTAcq l | XTClear l | XTRel l | XGAcq1 l | XGEval2 l | XGRel1 l _
  | XSAcq l | XSTest l | XSCopy l | XSBindC l | XSBindL l | XSRel l | XSAcqE l => [l]
  | XGAcq2 l1 l2 | XGLook l1 l2 | XGRead l1 l2 | XGWrite l1 l2 _ | XGRel2 l1 l2 _ => [l1; l2]
  | _ => []
  end.

Definition needs_old (p : xpc) : bool :=
  match p with XSCopy _ | XSBindC _ | XSBindL _ => true | _ => false end.
Definition is_bindc (p : xpc) : bool := match p with XSBindC _ => true | _ => false end.
Definition sync2 (p : xpc) : option xobj :=
  match p with XGAcq2 _ l2 | XGLook _ l2 | XGRead _ l2 | XGWrite _ l2 _ => Some l2 | _ => None end.
Definition pend (p : xpc) : bool := match p with XTEval | XTAcq _ | XTClear _ => true | _ => false end.
(** a pending toggle whose clear cannot overtake a getter holding lock [l] *)
Definition insync (p : xpc) (l : xobj) : bool :=
  match p with XTEval => true | XTAcq l' | XTClear l' => xobj_eqb l' l | _ => false end.
Definition gwrite (p : xpc) : option (xobj * bool) :=
  match p with XGWrite _ l2 f => Some (l2, f) | _ => None end.

Lemma xobj_eqb_refl l : xobj_eqb l l = true.
Proof. now destruct l. Qed.
Lemma xobj_eqb_eq a b : xobj_eqb a b = true <-> a = b.
Proof. destruct a, b; simpl; split; congruence. Qed.
Lemma isl_same l : isl l l = 1.
Proof. unfold isl. now rewrite xobj_eqb_refl. Qed.
Lemma isl_other l o : l <> o -> isl l o = 0.
Proof. unfold isl. destruct (xobj_eqb l o) eqn:E; auto. apply xobj_eqb_eq in E. congruence. Qed.
Lemma isl_pos l o : 0 < isl l o -> l = o.
Proof. unfold isl. destruct (xobj_eqb l o) eqn:E; intro H; [now apply xobj_eqb_eq|nat_ar]. Qed.
Lemma oupd_same {A} (f : xobj -> A) o v : oupd f o v o = v.
Proof. unfold oupd. now rewrite xobj_eqb_refl. Qed.
Lemma oupd_other {A} (f : xobj -> A) o o' v : o' <> o -> oupd f o v o' = f o'.
Proof. unfold oupd. destruct (xobj_eqb o' o) eqn:E; auto. apply xobj_eqb_eq in E. congruence. Qed.
Lemma xobj_dec (a b : xobj) : {a = b} + {a <> b}.
Proof. decide equality. Qed.
Lemma insync_pend p l : insync p l = true -> pend p = true.
Proof. destruct p; simpl; auto. Qed.

Ltac thr u t :=
  destruct (Nat.eq_dec u t) as [->|?];
  [rewrite ?upd_same in *|rewrite ?upd_other in * by auto].

(** ** lock accounting *)
Record Acct (pcs : nat -> xpc) (lk : xobj -> lock) : Prop := {
  a_own : forall o t, 0 < cnt (pcs t) o -> lk o = {| owner := Some t; count := cnt (pcs t) o |};
  a_free : forall o, (forall t, cnt (pcs t) o = 0) -> lk o = free_lock
}.

Lemma mutex pcs lk o u t : Acct pcs lk -> 0 < cnt (pcs u) o -> 0 < cnt (pcs t) o -> u = t.
Proof. intros A U T. apply (a_own _ _ A) in U. apply (a_own _ _ A) in T. congruence. Qed.

Lemma acct_same pcs lk t p' :
  Acct pcs lk -> (forall o, cnt p' o = cnt (pcs t) o) -> Acct (upd pcs t p') lk.
Proof.
  intros A E. constructor.
  - intros o u U. thr u t.
    + rewrite E in *. now apply (a_own _ _ A).
    + now apply (a_own _ _ A).
  - intros o Z. apply (a_free _ _ A). intro u. specialize (Z u). thr u t; auto. now rewrite <- E.
Qed.

Lemma acct_acq pcs lk t p' l :
  Acct pcs lk -> can_acquire (lk l) t = true ->
  (forall o, cnt p' o = cnt (pcs t) o + isl l o) ->
  Acct (upd pcs t p') (oupd lk l (acquire (lk l) t)).
Proof.
  intros A CA E.
  assert (OTH : forall u, u <> t -> cnt (pcs u) l = 0).
  { intros u N. destruct (cnt (pcs u) l) eqn:C; auto. exfalso.
    assert (P : 0 < cnt (pcs u) l) by nat_ar. apply (a_own _ _ A) in P.
    unfold can_acquire in CA. rewrite P in CA. simpl in CA. apply Nat.eqb_eq in CA. congruence. }
  assert (NEW : acquire (lk l) t = {| owner := Some t; count := cnt p' l |}).
  { rewrite E, isl_same. unfold acquire. destruct (cnt (pcs t) l) eqn:C.
    - rewrite (a_free _ _ A l). { reflexivity. }
      intro u. destruct (Nat.eq_dec u t) as [->|N]; auto.
    - assert (P : 0 < cnt (pcs t) l) by nat_ar. apply (a_own _ _ A) in P. rewrite P. simpl. rewrite C, Nat.add_1_r. reflexivity. }
  constructor.
  - intros o u U. destruct (xobj_dec o l) as [->|NO].
    + rewrite oupd_same. thr u t; auto. rewrite OTH in U by auto. nat_ar.
    + rewrite oupd_other by auto. thr u t.
      * rewrite E, (isl_other l o) in * by auto. rewrite Nat.add_0_r in *. now apply (a_own _ _ A).
      * now apply (a_own _ _ A).
  - intros o Z. destruct (xobj_dec o l) as [->|NO].
    + exfalso. specialize (Z t). rewrite upd_same, E, isl_same in Z. nat_ar.
    + rewrite oupd_other by auto. apply (a_free _ _ A). intro u. specialize (Z u). thr u t; auto.
      rewrite E, (isl_other l o) in Z by auto. now rewrite Nat.add_0_r in Z.
Qed.

Lemma acct_rel pcs lk t p' l :
  Acct pcs lk -> (forall o, cnt p' o + isl l o = cnt (pcs t) o) ->
  Acct (upd pcs t p') (oupd lk l (release (lk l))).
Proof.
  intros A E.
  assert (C : cnt (pcs t) l = S (cnt p' l)) by (rewrite <- E, isl_same; nat_ar).
  assert (P : lk l = {| owner := Some t; count := S (cnt p' l) |}).
  { rewrite <- C. apply (a_own _ _ A). nat_ar. }
  assert (OTH : forall u, u <> t -> cnt (pcs u) l = 0).
  { intros u N. destruct (cnt (pcs u) l) eqn:CU; auto. exfalso. apply N.
    apply (mutex pcs lk l u t A); nat_ar. }
  assert (NEW : release (lk l) = match cnt p' l with 0 => free_lock | S _ => {| owner := Some t; count := cnt p' l |} end).
  { rewrite P. unfold release. simpl. destruct (cnt p' l); reflexivity. }
  constructor.
  - intros o u U. destruct (xobj_dec o l) as [->|NO].
    + rewrite oupd_same, NEW. thr u t.
      * destruct (cnt p' l); [nat_ar|reflexivity].
      * rewrite OTH in U by auto. nat_ar.
    + rewrite oupd_other by auto. thr u t.
      * specialize (E o). rewrite (isl_other l o) in E by auto. rewrite Nat.add_0_r in E. rewrite E in *.
        now apply (a_own _ _ A).
      * now apply (a_own _ _ A).
  - intros o Z. destruct (xobj_dec o l) as [->|NO].
    + rewrite oupd_same, NEW. specialize (Z t). rewrite upd_same in Z. now rewrite Z.
    + rewrite oupd_other by auto. apply (a_free _ _ A). intro u. specialize (Z u). thr u t; auto.
      specialize (E o). rewrite (isl_other l o) in E by auto. rewrite Nat.add_0_r in E. congruence.
Qed.

(** ** everything else *)
Record Rest (pcs : nat -> xpc) (curl curc : xobj) (flag : bool) (cache : xobj -> option bool) : Prop := {
  (* while the lock global names the old lock, nobody has seen the new one *)
  r_old : curl = XOld -> forall t l, In l (locks_of (pcs t)) -> l = XOld;
  (* the hand-over copies and rebinds while the lock global still names the old lock *)
  r_sold : forall t, needs_old (pcs t) = true -> curl = XOld;
  (* between the copy and the rebinding of the cache global, the array equals the current cache *)
  r_copy : forall t, is_bindc (pcs t) = true -> cache XNew = cache curc;
  (* the second lock of a getter is what the lock global names *)
  r_sync : forall t l2, sync2 (pcs t) = Some l2 -> l2 = curl;
  (* a value computed under another flag than the current one is only around while a toggle has its clear ahead *)
  r_cache : forall f, cache curc = Some f -> f <> flag -> exists u, pend (pcs u) = true;
  (* ... and, about to be WRITTEN, only while such a toggle is excluded by the writer's lock *)
  r_held : forall t l2 f, gwrite (pcs t) = Some (l2, f) -> f <> flag -> exists u, insync (pcs u) l2 = true
}.

(** thread [t] moves from [pcs t] to [p']; the globals stay *)
Lemma rest_local pcs curl curc flag cache t p' :
  Rest pcs curl curc flag cache ->
  (forall l, In l (locks_of p') -> In l (locks_of (pcs t)) \/ l = curl) ->
  (needs_old p' = true -> needs_old (pcs t) = true \/ curl = XOld) ->
  (is_bindc p' = true -> is_bindc (pcs t) = true) ->
  (forall l2, sync2 p' = Some l2 -> sync2 (pcs t) = Some l2 \/ l2 = curl) ->
  (pend (pcs t) = true -> pend p' = true) ->
  (forall l, insync (pcs t) l = true -> l = curl -> insync p' l = true) ->
  (forall l2 f, gwrite p' = Some (l2, f) -> gwrite (pcs t) = Some (l2, f) \/ f = flag) ->
  Rest (upd pcs t p') curl curc flag cache.
Proof.
  intros R HL HN HB HS HP HI HG. constructor.
  - intros O u l L. thr u t.
    + destruct (HL l L) as [L'|L']; [now apply (r_old _ _ _ _ _ R O t)|congruence].
    + now apply (r_old _ _ _ _ _ R O u).
  - intros u N. thr u t.
    + destruct (HN N) as [N'|N']; auto. now apply (r_sold _ _ _ _ _ R t).
    + now apply (r_sold _ _ _ _ _ R u).
  - intros u B. thr u t.
    + now apply (r_copy _ _ _ _ _ R t), HB.
    + now apply (r_copy _ _ _ _ _ R u).
  - intros u l2 S. thr u t.
    + destruct (HS l2 S) as [S'|S']; auto. now apply (r_sync _ _ _ _ _ R t).
    + now apply (r_sync _ _ _ _ _ R u).
  - intros f C N. destruct (r_cache _ _ _ _ _ R f C N) as [u P]. exists u. thr u t; auto.
  - intros g l2 f G N.
    assert (OLD : gwrite (pcs g) = Some (l2, f) -> exists u, insync (upd pcs t p' u) l2 = true).
    { intro G'. destruct (r_held _ _ _ _ _ R g l2 f G' N) as [u I]. exists u. thr u t; auto.
      apply HI; auto. apply (r_sync _ _ _ _ _ R g). destruct (pcs g); simpl in *; congruence. }
    thr g t.
    + destruct (HG l2 f G) as [G'|G']; [auto|congruence].
    + auto.
Qed.

(** the flag may change freely while a toggle that has just written it has everything ahead *)
Lemma rest_flag pcs curl curc flag flag' cache t :
  Rest pcs curl curc flag cache -> pcs t = XTEval -> Rest pcs curl curc flag' cache.
Proof.
  intros R T. constructor; try (destruct R; assumption).
  - intros. exists t. now rewrite T.
  - intros. exists t. now rewrite T.
Qed.

(** [XTClear l -> XTRel l]: the current cache is zeroed *)
Lemma rest_clear pcs lk curl curc flag cache t l :
  Acct pcs lk -> Rest pcs curl curc flag cache -> pcs t = XTClear l ->
  Rest (upd pcs t (XTRel l)) curl curc flag (oupd cache curc None).
Proof.
  intros A R T.
  assert (CT : cnt (pcs t) l = 1) by (rewrite T; simpl; apply isl_same).
  constructor.
  - intros O u l0 L. thr u t.
    + apply (r_old _ _ _ _ _ R O t). now rewrite T.
    + now apply (r_old _ _ _ _ _ R O u).
  - intros u N. thr u t; [discriminate|]. now apply (r_sold _ _ _ _ _ R u).
  - intros u B. thr u t; [discriminate|].
    destruct curc.
    + (* the current cache is the old one: the thread at the rebinding holds the old lock, and so does [t] *)
      exfalso. assert (O : curl = XOld). { apply (r_sold _ _ _ _ _ R u). destruct (pcs u); simpl in *; congruence. }
      assert (l = XOld). { apply (r_old _ _ _ _ _ R O t). rewrite T. simpl. auto. } subst l.
      assert (0 < cnt (pcs u) XOld).
      { destruct (pcs u) eqn:PU; simpl in B; try discriminate.
        assert (l = XOld). { apply (r_old _ _ _ _ _ R O u). rewrite PU. simpl. auto. } subst. simpl. rewrite isl_same. nat_ar. }
      apply n. apply (mutex pcs lk XOld u t A); auto. nat_ar.
    + reflexivity.
  - intros u l2 S. thr u t; [discriminate|]. now apply (r_sync _ _ _ _ _ R u).
  - intros f C. rewrite oupd_same in C. discriminate.
  - intros g l2 f G N. thr g t; [discriminate|].
    destruct (r_held _ _ _ _ _ R g l2 f G N) as [u I]. exists u. thr u t; auto.
    (* the witness is [t] itself: it holds the getter's second lock *)
    exfalso. rewrite T in I. simpl in I. apply xobj_eqb_eq in I. subst l2.
    apply n. apply (mutex pcs lk l g t A); [|nat_ar].
    destruct (pcs g); simpl in G; try discriminate. inversion G; subst. simpl. rewrite isl_same, Nat.add_1_r. nat_ar.
Qed.

(** [XGWrite l1 l2 f -> XGRel2 l1 l2 f]: the current cache is written *)
Lemma rest_gwrite pcs lk curl curc flag cache t l1 l2 f :
  Acct pcs lk -> Rest pcs curl curc flag cache -> pcs t = XGWrite l1 l2 f ->
  Rest (upd pcs t (XGRel2 l1 l2 f)) curl curc flag (oupd cache curc (Some f)).
Proof.
  intros A R T.
  assert (S2 : l2 = curl). { apply (r_sync _ _ _ _ _ R t). now rewrite T. }
  constructor.
  - intros O u l0 L. thr u t.
    + apply (r_old _ _ _ _ _ R O t). now rewrite T.
    + now apply (r_old _ _ _ _ _ R O u).
  - intros u N. thr u t; [discriminate|]. now apply (r_sold _ _ _ _ _ R u).
  - intros u B. thr u t; [discriminate|].
    destruct curc.
    + exfalso. assert (O : curl = XOld). { apply (r_sold _ _ _ _ _ R u). destruct (pcs u); simpl in *; congruence. }
      assert (0 < cnt (pcs u) XOld).
      { destruct (pcs u) eqn:PU; simpl in B; try discriminate.
        assert (l = XOld). { apply (r_old _ _ _ _ _ R O u). rewrite PU. simpl. auto. } subst. simpl. rewrite isl_same. nat_ar. }
      apply n. apply (mutex pcs lk XOld u t A); auto. rewrite T. simpl. subst l2. rewrite O, isl_same, Nat.add_1_r. nat_ar.
    + reflexivity.
  - intros u l0 S. thr u t; [discriminate|]. now apply (r_sync _ _ _ _ _ R u).
  - intros f0 C N. rewrite oupd_same in C. inversion C; subst f0.
    destruct (r_held _ _ _ _ _ R t l2 f) as [u I]; auto. { now rewrite T. }
    exists u. thr u t. { rewrite T in I. discriminate. } now apply insync_pend in I.
  - intros g l0 f0 G N. thr g t; [discriminate|].
    destruct (r_held _ _ _ _ _ R g l0 f0 G N) as [u I]. exists u. thr u t; auto.
    rewrite T in I. discriminate.
Qed.

(** [XSCopy l -> XSBindC l]: the array is created as a copy of the current cache *)
Lemma rest_scopy pcs curl curc flag cache t l :
  Rest pcs curl curc flag cache -> pcs t = XSCopy l ->
  Rest (upd pcs t (XSBindC l)) curl curc flag (oupd cache XNew (cache curc)).
Proof.
  intros R T.
  assert (CC : oupd cache XNew (cache curc) curc = cache curc).
  { destruct curc; [now rewrite oupd_other by discriminate|now rewrite oupd_same]. }
  constructor.
  - intros O u l0 L. thr u t.
    + apply (r_old _ _ _ _ _ R O t). now rewrite T.
    + now apply (r_old _ _ _ _ _ R O u).
  - intros u N. thr u t.
    + apply (r_sold _ _ _ _ _ R t). now rewrite T.
    + now apply (r_sold _ _ _ _ _ R u).
  - intros u B. now rewrite CC, oupd_same.
  - intros u l0 S. thr u t; [discriminate|]. now apply (r_sync _ _ _ _ _ R u).
  - intros f C N. rewrite CC in C. destruct (r_cache _ _ _ _ _ R f C N) as [u P]. exists u. thr u t; auto.
    rewrite T in P. discriminate.
  - intros g l0 f0 G N. thr g t; [discriminate|].
    destruct (r_held _ _ _ _ _ R g l0 f0 G N) as [u I]. exists u. thr u t; auto.
    rewrite T in I. discriminate.
Qed.

(** [XSBindC l -> XSBindL l]: the cache global names the array *)
Lemma rest_sbindc pcs curl curc flag cache t l :
  Rest pcs curl curc flag cache -> pcs t = XSBindC l ->
  Rest (upd pcs t (XSBindL l)) curl XNew flag cache.
Proof.
  intros R T.
  assert (CP : cache XNew = cache curc). { apply (r_copy _ _ _ _ _ R t). now rewrite T. }
  constructor.
  - intros O u l0 L. thr u t.
    + apply (r_old _ _ _ _ _ R O t). now rewrite T.
    + now apply (r_old _ _ _ _ _ R O u).
  - intros u N. thr u t.
    + apply (r_sold _ _ _ _ _ R t). now rewrite T.
    + now apply (r_sold _ _ _ _ _ R u).
  - reflexivity.
  - intros u l0 S. thr u t; [discriminate|]. now apply (r_sync _ _ _ _ _ R u).
  - intros f C N. rewrite CP in C. destruct (r_cache _ _ _ _ _ R f C N) as [u P]. exists u. thr u t; auto.
    rewrite T in P. discriminate.
  - intros g l0 f0 G N. thr g t; [discriminate|].
    destruct (r_held _ _ _ _ _ R g l0 f0 G N) as [u I]. exists u. thr u t; auto.
    rewrite T in I. discriminate.
Qed.

(** [XSBindL l -> XSRel l]: the lock global names the array's lock *)
Lemma rest_sbindl pcs lk curl curc flag cache t l :
  Acct pcs lk -> Rest pcs curl curc flag cache -> pcs t = XSBindL l ->
  Rest (upd pcs t (XSRel l)) XNew curc flag cache.
Proof.
  intros A R T.
  assert (O : curl = XOld). { apply (r_sold _ _ _ _ _ R t). now rewrite T. }
  assert (l = XOld). { apply (r_old _ _ _ _ _ R O t). rewrite T. simpl. auto. } subst l.
  assert (CT : 0 < cnt (pcs t) XOld). { rewrite T. simpl. rewrite isl_same. nat_ar. }
  constructor.
  - discriminate.
  - intros u N. exfalso. thr u t; [discriminate|].
    apply n. apply (mutex pcs lk XOld u t A); auto.
    destruct (pcs u) eqn:PU; simpl in N; try discriminate;
      (assert (l = XOld) by (apply (r_old _ _ _ _ _ R O u); rewrite PU; simpl; auto)); subst; simpl; rewrite ?isl_same, ?Nat.add_1_r; nat_ar.
  - intros u B. thr u t; [discriminate|]. now apply (r_copy _ _ _ _ _ R u).
  - intros u l2 S. exfalso. thr u t; [discriminate|].
    apply n. apply (mutex pcs lk XOld u t A); auto.
    destruct (pcs u) eqn:PU; simpl in S; try discriminate;
      (assert (l1 = XOld) by (apply (r_old _ _ _ _ _ R O u); rewrite PU; simpl; auto)); subst; simpl; rewrite ?isl_same, ?Nat.add_1_r; nat_ar.
  - intros f C N. destruct (r_cache _ _ _ _ _ R f C N) as [u P]. exists u. thr u t; auto.
    rewrite T in P. discriminate.
  - intros g l0 f0 G N. thr g t; [discriminate|].
    destruct (r_held _ _ _ _ _ R g l0 f0 G N) as [u I]. exists u. thr u t; auto.
    rewrite T in I. discriminate.
Qed.

(** ** the invariant of the system *)
Definition pcs_of (s : xstate) : nat -> xpc := fun t => x_pc (x_th s t).

Definition XInv (s : xstate) : Prop :=
  Acct (pcs_of s) (x_lk s) /\ Rest (pcs_of s) (x_curl s) (x_curc s) (x_flag s) (x_cache s).

Lemma acct_ext pcs pcs' lk : (forall u, pcs' u = pcs u) -> Acct pcs lk -> Acct pcs' lk.
Proof.
  intros E A. constructor.
  - intros o t. rewrite E. apply (a_own _ _ A).
  - intros o Z. apply (a_free _ _ A). intro t. rewrite <- E. apply Z.
Qed.

Lemma rest_ext pcs pcs' curl curc flag cache :
  (forall u, pcs' u = pcs u) -> Rest pcs curl curc flag cache -> Rest pcs' curl curc flag cache.
Proof.
  intros E R. constructor.
  - intros O t l. rewrite E. now apply (r_old _ _ _ _ _ R O).
  - intros t. rewrite E. apply (r_sold _ _ _ _ _ R).
  - intros t. rewrite E. apply (r_copy _ _ _ _ _ R).
  - intros t l2. rewrite E. apply (r_sync _ _ _ _ _ R).
  - intros f C N. destruct (r_cache _ _ _ _ _ R f C N) as [u P]. exists u. now rewrite E.
  - intros t l2 f. rewrite E. intros G N. destruct (r_held _ _ _ _ _ R t l2 f G N) as [u I]. exists u. now rewrite E.
Qed.

Lemma pcs_upd th t x u :
  x_pc (upd th t x u) = upd (fun v => x_pc (th v)) t (x_pc x) u.
Proof. unfold upd. destruct (Nat.eqb u t); reflexivity. Qed.

Lemma xinv_init f0 warm prog : XInv (xinit f0 warm prog).
Proof.
  split; constructor; unfold pcs_of; simpl; intros; try discriminate; try tauto; try nat_ar; try reflexivity.
  exfalso. destruct warm; [|discriminate]. inversion H. congruence.
Qed.

(** shape of the successor state, for every kind of step *)
Ltac fin := unfold XInv, pcs_of; simpl;
            split; [eapply acct_ext; [intro; apply pcs_upd|]|eapply rest_ext; [intro; apply pcs_upd|]]; simpl.


Lemma xinv_step s t s' : XInv s -> xstep s t = Some s' -> XInv s'.
Proof.
  intros [A R] H. unfold xstep in H. unfold pcs_of in A, R.
  destruct (x_pc (x_th s t)) eqn:PC.
  - (* XIdle *)
    destruct (x_todo (x_th s t)) as [|c rest]; try discriminate.
    inversion H; subst s'; clear H. fin.
    + apply acct_same; auto. intro o. rewrite PC. destruct c as [b| |]; simpl; auto. destruct (Bool.eqb (x_flag s) b); auto.
    + apply rest_local; auto; rewrite ?PC; simpl; try discriminate; try tauto;
        destruct c as [b| |]; simpl; try discriminate; try tauto; try (destruct (Bool.eqb (x_flag s) b); simpl; try discriminate; tauto).
      * intros l [<-|[]]. auto.
      * intros l [<-|[]]. auto.
  - (* XTSet *)
    inversion H; subst s'; clear H. fin.
    + apply acct_same; auto. intro o. now rewrite PC.
    + apply rest_flag with (flag := x_flag s) (t := t); [|apply upd_same].
      apply rest_local; auto; rewrite ?PC; simpl; try discriminate; tauto.
  - (* XTEval *)
    inversion H; subst s'; clear H. fin.
    + apply acct_same; auto. intro o. now rewrite PC.
    + apply rest_local; auto; rewrite ?PC; simpl; try discriminate; try tauto.
      * intros l [<-|[]]. auto.
      * intros l _ ->. apply xobj_eqb_refl.
  - (* XTAcq *)
    unfold xacq in H. destruct (can_acquire (x_lk s l) t) eqn:CA; try discriminate.
    inversion H; subst s'; clear H. fin.
    + apply acct_acq; auto. intro o. rewrite PC. reflexivity.
    + apply rest_local; auto; rewrite ?PC; simpl; try discriminate; tauto.
  - (* XTClear *)
    inversion H; subst s'; clear H. fin.
    + apply acct_same; auto. intro o. now rewrite PC.
    + eapply rest_clear; eauto.
  - (* XTRel *)
    inversion H; subst s'; clear H. fin.
    + apply acct_rel; auto. intro o. rewrite PC. reflexivity.
    + apply rest_local; auto; rewrite ?PC; simpl; try discriminate; tauto.
  - (* XGAcq1 *)
    unfold xacq in H. destruct (can_acquire (x_lk s l1) t) eqn:CA; try discriminate.
    inversion H; subst s'; clear H. fin.
    + apply acct_acq; auto. intro o. rewrite PC. reflexivity.
    + apply rest_local; auto; rewrite ?PC; simpl; try discriminate; tauto.
  - (* XGEval2 *)
    inversion H; subst s'; clear H. fin.
    + apply acct_same; auto. intro o. now rewrite PC.
    + apply rest_local; auto; rewrite ?PC; simpl; try discriminate; try tauto.
      * intros l [<-|[<-|[]]]; auto.
      * intros l2 E. inversion E. auto.
  - (* XGAcq2 *)
    unfold xacq in H. destruct (can_acquire (x_lk s l2) t) eqn:CA; try discriminate.
    inversion H; subst s'; clear H. fin.
    + apply acct_acq; auto. intro o. rewrite PC. reflexivity.
    + apply rest_local; auto; rewrite ?PC; simpl; try discriminate; tauto.
  - (* XGLook *)
    inversion H; subst s'; clear H. fin.
    + apply acct_same; auto. intro o. rewrite PC. destruct (x_cache s (x_curc s)); reflexivity.
    + apply rest_local; auto; rewrite ?PC; destruct (x_cache s (x_curc s)); simpl; try discriminate; tauto.
  - (* XGRead *)
    inversion H; subst s'; clear H. fin.
    + apply acct_same; auto. intro o. now rewrite PC.
    + apply rest_local; auto; rewrite ?PC; simpl; try discriminate; try tauto.
      intros l0 f E. inversion E. auto.
  - (* XGWrite *)
    inversion H; subst s'; clear H. fin.
    + apply acct_same; auto. intro o. now rewrite PC.
    + eapply rest_gwrite; eauto.
  - (* XGRel2 *)
    inversion H; subst s'; clear H. fin.
    + apply acct_rel; auto. intro o. rewrite PC. reflexivity.
    + apply rest_local; auto; rewrite ?PC; simpl; try discriminate; tauto.
  - (* XGRel1 *)
    inversion H; subst s'; clear H. fin.
    + apply acct_rel; auto. intro o. rewrite PC. reflexivity.
    + apply rest_local; auto; rewrite ?PC; simpl; try discriminate; tauto.
  - (* XSAcq *)
    unfold xacq in H. destruct (can_acquire (x_lk s l) t) eqn:CA; try discriminate.
    inversion H; subst s'; clear H. fin.
    + apply acct_acq; auto. intro o. rewrite PC. reflexivity.
    + apply rest_local; auto; rewrite ?PC; simpl; try discriminate; tauto.
  - (* XSTest *)
    inversion H; subst s'; clear H. fin.
    + apply acct_same; auto. intro o. rewrite PC. destruct (x_curl s); reflexivity.
    + apply rest_local; auto; rewrite ?PC; destruct (x_curl s); simpl; try discriminate; tauto.
  - (* XSCopy *)
    inversion H; subst s'; clear H. fin.
    + apply acct_same; auto. intro o. now rewrite PC.
    + eapply rest_scopy; eauto.
  - (* XSBindC *)
    inversion H; subst s'; clear H. fin.
    + apply acct_same; auto. intro o. now rewrite PC.
    + eapply rest_sbindc; eauto.
  - (* XSBindL *)
    inversion H; subst s'; clear H. fin.
    + apply acct_same; auto. intro o. now rewrite PC.
    + eapply rest_sbindl; eauto.
  - (* XSRel *)
    inversion H; subst s'; clear H. fin.
    + apply acct_rel; auto. intro o. rewrite PC. reflexivity.
    + apply rest_local; auto; rewrite ?PC; simpl; try discriminate; tauto.
  - discriminate.
  - discriminate.
  - discriminate.
Qed.

Lemma xinv_reachable f0 warm prog s : reachable xstep (xinit f0 warm prog) s -> XInv s.
Proof.
  apply (reachable_ind_inv xstate xstep XInv).
  - apply xinv_init.
  - intros; eapply xinv_step; eauto.
Qed.

Lemma x_pending_pend s t : x_pending s t <-> pend (pcs_of s t) = true.
Proof.
  unfold x_pending, pcs_of. split.
  - intros [E|[l [E|E]]]; now rewrite E.
  - destruct (x_pc (x_th s t)); simpl; try discriminate; eauto.
Qed.

(** inside the region protected by lock object [o] *)
Definition x_inside (s : xstate) (t : nat) (o : xobj) : Prop := 0 < cnt (x_pc (x_th s t)) o.

(** at most one thread is inside the region of one lock object — through the hand-over, too *)
Lemma hand_mutex_lemma f0 warm prog s o t1 t2 :
  reachable xstep (xinit f0 warm prog) s -> x_inside s t1 o -> x_inside s t2 o -> t1 = t2.
Proof.
  intros Re A B. destruct (xinv_reachable f0 warm prog s Re) as [AC _].
  now apply (mutex (pcs_of s) (x_lk s) o t1 t2 AC).
Qed.

(** the module globals are rebound in the order cache, lock, and only once *)
Lemma hand_bindings_lemma f0 warm prog s :
  reachable xstep (xinit f0 warm prog) s ->
  x_curl s = XOld -> forall t l, In l (locks_of (x_pc (x_th s t))) -> l = XOld.
Proof.
  intros Re O. destruct (xinv_reachable f0 warm prog s Re) as [_ R]. exact (r_old _ _ _ _ _ R O).
Qed.

(** THE STATEMENT: in every reachable state — any number of threads, any programs of
    toggles, [get_cell_size()] calls and [Process.start()]s, any schedule — in which no
    toggle is between its flag write and its clear (in particular: all toggles have
    returned), the cache the module global names NOW is empty or holds the value for the
    current flag, so [get_cell_size()] answers with the fresh value for the current flag,
    and every [get_cell_size] in flight that is about to write the cache holds such a
    value *)
Lemma hand_fresh_lemma f0 warm prog s :
  reachable xstep (xinit f0 warm prog) s ->
  (forall u, ~ x_pending s u) ->
  x_answer s = x_flag s
  /\ (x_cache s (x_curc s) = None \/ x_cache s (x_curc s) = Some (x_flag s))
  /\ (forall t l1 l2 f, x_pc (x_th s t) = XGWrite l1 l2 f -> f = x_flag s).
Proof.
  intros Re Q. destruct (xinv_reachable f0 warm prog s Re) as [_ R].
  assert (C : forall f, x_cache s (x_curc s) = Some f -> f = x_flag s).
  { intros f C. destruct (bool_dec f (x_flag s)) as [E|N]; auto.
    destruct (r_cache _ _ _ _ _ R f C N) as [u P]. destruct (Q u). now apply x_pending_pend. }
  repeat split.
  - unfold x_answer. destruct (x_cache s (x_curc s)) eqn:E; auto.
  - destruct (x_cache s (x_curc s)) eqn:E; auto. right. f_equal. auto.
  - intros t l1 l2 f PC. destruct (bool_dec f (x_flag s)) as [E|N]; auto.
    destruct (r_held _ _ _ _ _ R t l2 f) as [u I]; auto. { unfold pcs_of. now rewrite PC. }
    destruct (Q u). apply x_pending_pend. now apply insync_pend in I.
Qed.

Lemma hand_fresh_schedules f0 warm prog sch :
  let s := run_sched xstep (xinit f0 warm prog) sch in
  (forall u, ~ x_pending s u) -> x_answer s = x_flag s.
Proof.
  intros s Q. apply (hand_fresh_lemma f0 warm prog s); auto. apply run_sched_reachable.
Qed.

(** a hand-over that runs alone keeps the entry: the first [get_cell_size()] after the
    first [Process.start()] is served from the array *)
Example hand_keeps_entry :
  let s := run_sched xstep (xinit true true (fun t => match t with 0 => [XStart; XGet] | _ => [] end))
                     (repeat 0 20) in
  x_done s 1 /\ x_curl s = XNew /\ x_curc s = XNew /\ x_cache s XNew = Some true /\ x_ncomp s = 0
  /\ x_rets (x_th s 0) = [true].
Proof.
  cbv zeta. split; [|repeat match goal with |- _ /\ _ => split end; vm_compute; reflexivity].
  intros t Lt. destruct t as [|t]; [split; vm_compute; reflexivity|nat_ar].
Qed.

(** ** non-vacuity and the refutation of the variant

    the cache is warm (filled under the old flag); thread 0 starts a process, thread 1
    toggles.  Thread 1 runs — to completion if it can — when thread 0 has made the copy. *)
Definition hd_prog (t : nat) : list xcmd :=
  match t with 0 => [XStart] | 1 => [XToggle true] | _ => [] end.

(** the real code: the copy is made under the lock; the toggle has written the flag and
    evaluated the OLD lock; it waits, acquires the old lock after the hand-over and zeroes
    the cache the global names then — the array *)
Definition hd_sched : list nat := [0; 0; 0; 0; 1; 1; 1; 1; 1; 1; 1; 0; 0; 0; 0; 1; 1; 1; 1].
Example hand_toggle_at_copy :
  let s := run_sched xstep (xinit false true hd_prog) hd_sched in
  x_done s 2 /\ x_flag s = true /\ x_curc s = XNew /\ x_curl s = XNew
  /\ x_cache s XNew = None /\ x_cache s XOld = Some false /\ x_answer s = x_flag s.
Proof.
  cbv zeta. split; [|repeat match goal with |- _ /\ _ => split end; vm_compute; reflexivity].
  intros t Lt. destruct t as [|[|t]]; [split; vm_compute; reflexivity|split; vm_compute; reflexivity|nat_ar].
Qed.

(** the variant that copies BEFORE it takes the lock: thread 0 tests and copies (two
    micro-steps after the start of the command), thread 1 toggles — nothing makes it
    wait: it zeroes the OLD list —, thread 0 installs the copy: both threads have finished,
    no toggle is pending, and the array the global names holds the value computed under
    the flag before the toggle *)
Definition hd_sched_early : list nat := [0; 0; 1; 1; 1; 1; 1; 1; 0; 0; 0; 0; 0].
Lemma hand_refuted_copy_before_lock :
  exists f0 warm prog sch,
    let s := run_sched (xstep_gen true) (xinit f0 warm prog) sch in
    x_done s 2 /\ (forall u, ~ x_pending s u)
    /\ x_flag s = true /\ x_curc s = XNew /\ x_cache s (x_curc s) = Some false /\ x_answer s <> x_flag s.
Proof.
  exists false, true, hd_prog, hd_sched_early. cbv zeta.
  assert (D : forall t, x_pc (x_th (run_sched (xstep_gen true) (xinit false true hd_prog) hd_sched_early) t) = XIdle).
  { intro t. destruct t as [|[|t]]; vm_compute; reflexivity. }
  split; [|split; [|split; [|split; [|split]]]].
  - intros t Lt. destruct t as [|[|t]]; [split; vm_compute; reflexivity|split; vm_compute; reflexivity|nat_ar].
  - intros u [E|[l [E|E]]]; rewrite D in E; discriminate.
  - vm_compute. reflexivity.
  - vm_compute. reflexivity.
  - vm_compute. reflexivity.
  - vm_compute. discriminate.
Qed.

(** ... and under the schedule of the refutation the real code is fine: the toggle finds
    the lock taken from the hand-over's second micro-step on *)
Example hand_real_code_same_schedule :
  let s := run_sched xstep (xinit false true hd_prog) (hd_sched_early ++ [0; 0; 0; 1; 1; 1; 1]) in
  x_done s 2 /\ x_flag s = true /\ x_answer s = x_flag s /\ x_cache s (x_curc s) = None.
Proof.
  cbv zeta. split; [|repeat match goal with |- _ /\ _ => split end; vm_compute; reflexivity].
  intros t Lt. destruct t as [|[|t]]; [split; vm_compute; reflexivity|split; vm_compute; reflexivity|nat_ar].
Qed.
