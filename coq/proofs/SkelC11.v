(** Control-flow (effect skeleton) obligations of C11 (resource side): every image opened
    by the library is handed to [_close_image] on every path and under every fault
    position, the frame image of an iterator is never closed by a render, [_renderer]
    restores the size setting, an animated draw() restores the seek position and closes its
    iterator.  Lemmas only.

    Two kinds of skeleton:
    * TRANSLATED from the working tree on every run (gen/Skeletons.v, harness/tx/tx_skel.py):
      [draw], [draw.render], [_display_animated], [_renderer].  Image convention of the
      translator: [OpenImg i] at [self._get_image()]; [CloseImg i] at [self._close_image(x)]
      and at the call [self._render_image(x, ..)], which takes over the image.
    * HAND-WRITTEN (model/ImgSkel.v): what happens behind that call — [_get_render_data],
      [convert_resize_img] and the three [_render_image]s with the aliasing of [img] /
      [prev_img] / [frame_img] resolved; [render_image_closes_its_image] below is the
      justification of the translator's convention.

    The statements are about the code AS REPAIRED by
    pending_fixes/C11_close_unrendered_images.diff ([_renderer] closes the image when the
    renderer raises).  Before that repair the full statement fails:
    [analyze cfg_draw .. draw .. imgs_closed = false] (an exception between [_get_image()] and
    the point where the image is handed over — the cursor-hiding write, an invalid style
    argument, an invalid repeat / cached — left the image to the garbage collector), and
    [unguarded_renderer_leaks] below shows that the handler is necessary. *)
From Coq Require Import List Bool Arith.
Import ListNotations.
From TI Require Import lib.Eff lib.EffSound lib.EffRun gen.Skeletons model.ImgSkel.

(** ** [_renderer] restores the size setting -- whatever raises, anywhere *)
Lemma renderer_size_analysis :
  analyze cfg_all nv_BaseImage__renderer (sk_BaseImage__renderer (Op Render)) (fun _ s => negb (szmod s)) = true.
Proof. vm_compute. reflexivity. Qed.

Lemma renderer_restores_size :
  forall vs, length vs = nv_BaseImage__renderer ->
  forall o s', eval cfg_all false (sk_BaseImage__renderer (Op Render)) (init vs) o s' -> szmod s' = false.
Proof. intros vs Hl o s' He. apply negb_true_iff. exact (analyze_sound _ _ _ _ renderer_size_analysis vs Hl o s' He). Qed.

(** the same for the whole old draw() (renderer = the inner render()), every call outside
    the clean-up blocks of draw() and its callees ([protect]) a fault position *)
Lemma old_draw_size_analysis :
  analyze cfg_all nv_BaseImage_draw (protect sk_BaseImage_draw) (fun _ s => negb (szmod s)) = true.
Proof. vm_compute. reflexivity. Qed.
Lemma old_draw_restores_size :
  forall vs, length vs = nv_BaseImage_draw ->
  forall o s', eval cfg_all false (protect sk_BaseImage_draw) (init vs) o s' -> szmod s' = false.
Proof. intros vs Hl o s' He. apply negb_true_iff. exact (analyze_sound _ _ _ _ old_draw_size_analysis vs Hl o s' He). Qed.

(** ** an animated draw() restores the seek position and closes the image it was given *)
Lemma display_animated_analysis :
  analyze cfg_c11 nv_BaseImage__display_animated sk_BaseImage__display_animated
    (fun _ s => negb (skmod s) && imgs_closed s) = true.
Proof. vm_compute. reflexivity. Qed.

Lemma display_animated_restores :
  forall vs, length vs = nv_BaseImage__display_animated ->
  forall o s', eval cfg_c11 false sk_BaseImage__display_animated (init vs) o s' ->
    skmod s' = false /\ imgs_closed s' = true.
Proof.
  intros vs Hl o s' He. pose proof (analyze_sound _ _ _ _ display_animated_analysis vs Hl o s' He) as H.
  simpl in H. apply andb_true_iff in H. destruct H as [H1 H2]. apply negb_true_iff in H1. auto.
Qed.

(** ... and closes its frame iterator.  Fault positions here: frame renders (incl. the
    generator's next()), frame writes, flushes, sleeps ([cfg_draw]) -- NOT the two string
    formatting expressions between the creation of the iterator and the [try] (1332-1333),
    an exception in which would leave the iterator to its [__del__]; and the translator
    reads [image_it.close()] (repaired code, 1332: release of the image the constructor
    opened) as the end of the iterator without seeing that the next line re-arms it, so a
    statement under [cfg_c11] would hold for the wrong reason. *)
Lemma display_animated_iter_analysis :
  analyze cfg_draw nv_BaseImage__display_animated sk_BaseImage__display_animated
    (fun _ s => negb (iter_open s)) = true.
Proof. vm_compute. reflexivity. Qed.

Lemma display_animated_closes_iterator :
  forall vs, length vs = nv_BaseImage__display_animated ->
  forall o s', eval cfg_draw false sk_BaseImage__display_animated (init vs) o s' -> iter_open s' = false.
Proof.
  intros vs Hl o s' He. apply negb_true_iff.
  exact (analyze_sound _ _ _ _ display_animated_iter_analysis vs Hl o s' He).
Qed.

(** ** the whole draw(): image, size setting, seek position -- one statement *)
Definition draw_clean (s : st) : bool := imgs_closed s && negb (szmod s) && negb (skmod s).

Lemma draw_analysis :
  analyze cfg_c11 nv_BaseImage_draw (protect sk_BaseImage_draw) (fun _ s => draw_clean s) = true.
Proof. vm_compute. reflexivity. Qed.

Lemma draw_leaves_nothing :
  forall vs, length vs = nv_BaseImage_draw ->
  forall o s', eval cfg_c11 false (protect sk_BaseImage_draw) (init vs) o s' ->
    imgs_closed s' = true /\ szmod s' = false /\ skmod s' = false.
Proof.
  intros vs Hl o s' He. pose proof (analyze_sound _ _ _ _ draw_analysis vs Hl o s' He) as H.
  unfold draw_clean in H. repeat (apply andb_true_iff in H; destruct H as [H ?]).
  repeat match goal with Hx : negb _ = true |- _ => apply negb_true_iff in Hx end. auto.
Qed.

Lemma draw_iter_analysis :
  analyze cfg_draw nv_BaseImage_draw (protect sk_BaseImage_draw) (fun _ s => negb (skmod s) && negb (iter_open s)) = true.
Proof. vm_compute. reflexivity. Qed.

(** (fault positions of [cfg_draw], see above) *)
Lemma draw_restores_seek :
  forall vs, length vs = nv_BaseImage_draw ->
  forall o s', eval cfg_draw false (protect sk_BaseImage_draw) (init vs) o s' -> skmod s' = false /\ iter_open s' = false.
Proof.
  intros vs Hl o s' He. pose proof (analyze_sound _ _ _ _ draw_iter_analysis vs Hl o s' He) as H.
  simpl in H. apply andb_true_iff in H. destruct H as [H1 H2]. apply negb_true_iff in H1, H2. auto.
Qed.

(** every image opened by draw() is closed on every path, whatever raises *)
Lemma images_balanced :
  forall vs, length vs = nv_BaseImage_draw ->
  forall o s', eval cfg_c11 false (protect sk_BaseImage_draw) (init vs) o s' -> imgs_closed s' = true.
Proof. intros vs Hl o s' He. destruct (draw_leaves_nothing vs Hl o s' He) as (? & _). assumption. Qed.

(** ** [_renderer]: when the renderer raises, the image has been closed -- whatever the
    renderer is (here: one that may raise at any point and never closes anything) *)
Lemma renderer_failure_analysis :
  analyze cfg_c11 nv_BaseImage__renderer (sk_BaseImage__renderer (sq [Op Other; Op Render; Op Other]))
    (fun o s => match o with ORaise _ => imgs_closed s | _ => true end) = true.
Proof. vm_compute. reflexivity. Qed.

Lemma renderer_closes_on_failure :
  forall vs, length vs = nv_BaseImage__renderer ->
  forall k s', eval cfg_c11 false (sk_BaseImage__renderer (sq [Op Other; Op Render; Op Other])) (init vs) (ORaise k) s' ->
    imgs_closed s' = true.
Proof. intros vs Hl k s' He. exact (analyze_sound _ _ _ _ renderer_failure_analysis vs Hl _ s' He). Qed.

(** ** behind [_render_image] (hand-written skeletons, model/ImgSkel.v) *)

(** format() / str() / a still draw(): [_renderer] around each style's [_render_image] with
    [frame = False] -- the image is closed on EVERY exit, the size setting restored *)
Lemma format_analysis :
  forallb (fun r => analyze cfg_c11 nv_imgskel (sk_BaseImage__renderer (as_renderer r))
                      (fun _ s => imgs_closed s && negb (szmod s))) render_images = true.
Proof. vm_compute. reflexivity. Qed.

Lemma format_images_balanced :
  forall r, In r render_images ->
  forall vs, length vs = nv_imgskel ->
  forall o s', eval cfg_c11 false (sk_BaseImage__renderer (as_renderer r)) (init vs) o s' ->
    imgs_closed s' = true /\ szmod s' = false.
Proof.
  intros r Hr vs Hl o s' He.
  pose proof (proj1 (forallb_forall _ _) format_analysis r Hr) as Ha.
  pose proof (analyze_sound _ _ _ _ Ha vs Hl o s' He) as H. simpl in H.
  apply andb_true_iff in H. destruct H as [H1 H2]. apply negb_true_iff in H2. auto.
Qed.

(** the translator's convention: a [_render_image(img, .., frame=False)] that RETURNS has
    handed [img] to [_close_image] *)
Lemma render_image_analysis :
  forallb (fun r => analyze cfg_c11 nv_imgskel (sq [Op (OpenImg 0); as_renderer r])
                      (fun o s => match o with ORaise _ => true | _ => imgs_closed s end)) render_images = true.
Proof. vm_compute. reflexivity. Qed.

Lemma render_image_closes_its_image :
  forall r, In r render_images ->
  forall vs, length vs = nv_imgskel ->
  forall o s', eval cfg_c11 false (sq [Op (OpenImg 0); as_renderer r]) (init vs) o s' ->
    (forall k, o <> ORaise k) -> imgs_closed s' = true.
Proof.
  intros r Hr vs Hl o s' He Ho.
  pose proof (proj1 (forallb_forall _ _) render_image_analysis r Hr) as Ha.
  pose proof (analyze_sound _ _ _ _ Ha vs Hl o s' He) as H. simpl in H.
  destruct o; auto. elim (Ho k). reflexivity.
Qed.

(** ... and one that raises may not have: without the handler of [_renderer] the image is
    left to the garbage collector (this is the code before the repair) *)
Lemma unguarded_renderer_leaks :
  forallb (fun r => negb (analyze cfg_c11 nv_imgskel (sq [Op (OpenImg 0); as_renderer r])
                            (fun _ s => imgs_closed s))) render_images = true.
Proof. vm_compute. reflexivity. Qed.

(** a frame of an iterator ([frame = True]): the image passed in is NEVER closed, on no
    path, whatever raises (the iterator keeps using it; [ImageIterator.close] closes it) *)
Lemma frame_analysis :
  forallb (fun r => analyze cfg_c11 nv_imgskel (as_frame r) (fun _ s => get 0 (imgs s))) render_images = true.
Proof. vm_compute. reflexivity. Qed.

Lemma frame_image_never_closed :
  forall r, In r render_images ->
  forall vs, length vs = nv_imgskel ->
  forall o s', eval cfg_c11 false (as_frame r) (init vs) o s' -> get 0 (imgs s') = true.
Proof.
  intros r Hr vs Hl o s' He.
  pose proof (proj1 (forallb_forall _ _) frame_analysis r Hr) as Ha.
  exact (analyze_sound _ _ _ _ Ha vs Hl o s' He).
Qed.

(** ** non-vacuity *)
(** an animation interrupted after the seek position moved *)
Example display_animated_witness :
  witness cfg_c11 KI true skmod (fun s => negb (skmod s) && imgs_closed s) ONorm sk_BaseImage__display_animated
          (repeat false nv_BaseImage__display_animated) 60 = true.
Proof. vm_compute. reflexivity. Qed.

(** a draw() that fails while its image is open: the image is closed when the exception leaves *)
Definition img0_open (s : st) : bool := get 0 (imgs s).
Example draw_failure_witness :
  witness cfg_c11 Exc false img0_open draw_clean (ORaise Exc) (protect sk_BaseImage_draw)
          (repeat false nv_BaseImage_draw) 80 = true.
Proof. vm_compute. reflexivity. Qed.

(** a conversion that fails inside [_get_render_data] during format(): closed by [_renderer] *)
Example format_failure_witness :
  witness cfg_c11 Exc false img0_open imgs_closed (ORaise Exc)
          (sk_BaseImage__renderer (as_renderer sk_kitty_render_image)) (repeat false nv_imgskel) 80 = true.
Proof. vm_compute. reflexivity. Qed.
