(** Control-flow (effect skeleton) obligations of C11 (resource side): images opened by
    the library are closed on every path, [_renderer] restores the size setting, an
    animated draw() restores the seek position.  Lemmas only.

    Image convention of the translator (harness/tx/tx_skel.py): [OpenImg i] at
    [self._get_image()]; [CloseImg i] at [self._close_image(x)] and at the call
    [self._render_image(x, ...)], which takes over the image (the style's [_render_image]
    -> [_get_render_data] closes it: that pairing, with its aliasing of [img] / [prev_img] /
    [frame_img], is NOT translated -- see the report). *)
From Coq Require Import List Bool Arith.
Import ListNotations.
From TI Require Import lib.Eff lib.EffSound lib.EffRun gen.Skeletons.

(** ** [_renderer] restores the size setting -- whatever raises, anywhere *)
Lemma renderer_size_analysis :
  analyze cfg_all nv_BaseImage__renderer (sk_BaseImage__renderer (Op Render)) (fun _ s => negb (szmod s)) = true.
Proof. vm_compute. reflexivity. Qed.

Lemma renderer_restores_size :
  forall vs, length vs = nv_BaseImage__renderer ->
  forall o s', eval cfg_all false (sk_BaseImage__renderer (Op Render)) (init vs) o s' -> szmod s' = false.
Proof. intros vs Hl o s' He. apply negb_true_iff. exact (analyze_sound _ _ _ _ renderer_size_analysis vs Hl o s' He). Qed.

(** the same for the whole old draw() (renderer = the inner render()), every call outside
    the clean-up blocks of draw() and its callees ([protect]) a fault position *)
Lemma old_draw_size_analysis :
  analyze cfg_all nv_BaseImage_draw (protect sk_BaseImage_draw) (fun _ s => negb (szmod s)) = true.
Proof. vm_compute. reflexivity. Qed.
Lemma old_draw_restores_size :
  forall vs, length vs = nv_BaseImage_draw ->
  forall o s', eval cfg_all false (protect sk_BaseImage_draw) (init vs) o s' -> szmod s' = false.
Proof. intros vs Hl o s' He. apply negb_true_iff. exact (analyze_sound _ _ _ _ old_draw_size_analysis vs Hl o s' He). Qed.

(** ** an animated draw() restores the seek position and closes its iterator *)
(** fault positions: frame renders (incl. the generator's next()), frame writes, flushes, sleeps *)
Lemma display_animated_seek_analysis :
  analyze cfg_draw nv_BaseImage__display_animated sk_BaseImage__display_animated
    (fun _ s => negb (skmod s) && negb (iter_open s) && imgs_closed s) = true.
Proof. vm_compute. reflexivity. Qed.

Lemma display_animated_restores :
  forall vs, length vs = nv_BaseImage__display_animated ->
  forall o s', eval cfg_draw false sk_BaseImage__display_animated (init vs) o s' ->
    skmod s' = false /\ iter_open s' = false /\ imgs_closed s' = true.
Proof.
  intros vs Hl o s' He. pose proof (analyze_sound _ _ _ _ display_animated_seek_analysis vs Hl o s' He) as H.
  simpl in H. repeat (apply andb_true_iff in H; destruct H as [H ?]).
  repeat match goal with Hx : negb _ = true |- _ => apply negb_true_iff in Hx end. auto.
Qed.

Lemma old_draw_seek_analysis :
  analyze cfg_draw nv_BaseImage_draw (protect sk_BaseImage_draw) (fun _ s => negb (skmod s) && negb (iter_open s)) = true.
Proof. vm_compute. reflexivity. Qed.
Lemma draw_restores_seek :
  forall vs, length vs = nv_BaseImage_draw ->
  forall o s', eval cfg_draw false (protect sk_BaseImage_draw) (init vs) o s' -> skmod s' = false /\ iter_open s' = false.
Proof.
  intros vs Hl o s' He. pose proof (analyze_sound _ _ _ _ old_draw_seek_analysis vs Hl o s' He) as H.
  simpl in H. apply andb_true_iff in H. destruct H as [H1 H2]. apply negb_true_iff in H1, H2. auto.
Qed.

(** ** images opened by the library are closed again *)
(** fault positions: frame renders, the generator's next(), frame writes, sleeps *)
Definition mf_frames (o : op) : bool :=
  match o with Render | AnimNext | Sleep | Write WFrame => true | _ => false end.
Definition cfg_frames : cfg := mkcfg mf_frames all_kinds.

Lemma old_draw_images_analysis :
  analyze cfg_frames nv_BaseImage_draw (protect sk_BaseImage_draw) (fun _ s => imgs_closed s) = true.
Proof. vm_compute. reflexivity. Qed.

(** PARTIAL (see [old_draw_images_refuted]): the image opened by [_renderer] is closed on
    every path when the failure is in a frame render / frame write / sleep.  The full
    statement -- [cfg_draw] or [cfg_render] in place of [cfg_frames] -- does not hold of the
    current source: *)
Lemma images_balanced_partial :
  forall vs, length vs = nv_BaseImage_draw ->
  forall o s', eval cfg_frames false (protect sk_BaseImage_draw) (init vs) o s' -> imgs_closed s' = true.
Proof. exact (analyze_sound _ _ _ _ old_draw_images_analysis). Qed.

(** an exception raised between [_get_image()] and the point where the image is handed to
    [_render_image] / [_display_animated]'s [try] -- the cursor-hiding write, an invalid
    style argument rejected by [_check_style_args], an invalid [repeat]/[cached] rejected by
    [ImageIterator] -- leaves the opened image to the garbage collector *)
Lemma old_draw_images_refuted :
  analyze cfg_draw nv_BaseImage_draw (protect sk_BaseImage_draw) (fun _ s => imgs_closed s) = false /\
  analyze cfg_render nv_BaseImage_draw (protect sk_BaseImage_draw) (fun _ s => imgs_closed s) = false.
Proof. vm_compute. auto. Qed.

(** non-vacuity: an animation interrupted after the seek position moved *)
Example display_animated_witness :
  witness cfg_draw KI true skmod (fun s => negb (skmod s) && imgs_closed s) ONorm sk_BaseImage__display_animated
          (repeat false nv_BaseImage__display_animated) 60 = true.
Proof. vm_compute. reflexivity. Qed.
