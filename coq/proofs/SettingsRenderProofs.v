(** Proofs about [model/SettingsRender.v] (C20): the render method a render actually uses
    is the effective one unless overridden for that call — for every history, every
    source, every data size and EVERY value of the global native-animation limit. *)
From Coq Require Import List ZArith Bool Arith Lia.
Import ListNotations.
From TI Require Import model.Settings model.SettingsRender proofs.SettingsProofs.
Local Arguments Nat.eqb : simpl never.

(** *** the decision itself *)

(** the method used is the documented function of the requested method alone *)
Lemma render_used_doc eff ov animated frame size limit :
  used (render_used eff ov animated frame size limit)
  = doc_used (match ov with Some m => m | None => eff end) animated frame.
Proof.
  unfold render_used, doc_used.
  destruct ((match ov with Some m => m | None => eff end) =? ANIM)%Z, animated, frame;
    reflexivity.
Qed.

(** the data size and the limit never enter the choice of the method *)
Theorem render_used_ignores_limit eff ov animated frame size limit size' limit' :
  used (render_used eff ov animated frame size limit)
  = used (render_used eff ov animated frame size' limit').
Proof. rewrite !render_used_doc. reflexivity. Qed.

(** a source to which the requested method applies (every source for LINES / WHOLE; an
    animated source rendered whole for ANIM) is rendered with the effective method,
    unless a per-call method is given, which then wins *)
Definition applies (m : Z) (animated frame : bool) : bool :=
  negb (m =? ANIM)%Z || (animated && negb frame).

Theorem render_used_effective eff animated frame size limit :
  applies eff animated frame = true ->
  used (render_used eff None animated frame size limit) = eff.
Proof.
  intros H. rewrite render_used_doc. unfold doc_used, applies in *.
  destruct (eff =? ANIM)%Z eqn:E; [|reflexivity].
  apply Z.eqb_eq in E. subst eff.
  destruct animated, frame; cbn in H; try discriminate; reflexivity.
Qed.

Theorem render_used_override eff m animated frame size limit :
  applies m animated frame = true ->
  used (render_used eff (Some m) animated frame size limit) = m.
Proof. intros H. exact (render_used_effective m animated frame size limit H). Qed.

(** the only substitution: ANIM -> WHOLE where ANIM does not apply *)
Theorem render_used_fallback eff ov animated frame size limit :
  let m := match ov with Some m => m | None => eff end in
  applies m animated frame = false ->
  used (render_used eff ov animated frame size limit) = WHOLE.
Proof.
  intros m H. rewrite render_used_doc. fold m. unfold doc_used, applies in *.
  destruct (m =? ANIM)%Z; [|discriminate H].
  destruct animated, frame; cbn in H; try discriminate; reflexivity.
Qed.

(** the limit decides the warning, and only for a native animation *)
Theorem render_warned_iff eff ov animated frame size limit :
  warned (render_used eff ov animated frame size limit) = true
  <-> used (render_used eff ov animated frame size limit) = ANIM /\ (limit < size)%Z.
Proof.
  unfold render_used.
  set (m := match ov with Some m => m | None => eff end).
  destruct (m =? ANIM)%Z eqn:E, animated, frame; cbn [andb negb used warned];
    try (split; [discriminate|intros [H _]; try discriminate H]).
  - split; [intros H; split; [reflexivity|apply Z.ltb_lt, H]|intros [_ H]; apply Z.ltb_lt, H].
  - apply Z.eqb_neq in E. contradiction.
  - apply Z.eqb_neq in E. contradiction.
  - apply Z.eqb_neq in E. contradiction.
  - apply Z.eqb_neq in E. contradiction.
Qed.

(** *** histories *)

Lemma meth_ops_snoc h o :
  meth_ops (h ++ [o]) = meth_ops h ++ match o with RMeth o' => [o'] | _ => [] end.
Proof. unfold meth_ops. rewrite flat_map_app. cbn. rewrite app_nil_r. reflexivity. Qed.
Lemma lim_ops_snoc h o :
  lim_ops (h ++ [o]) = lim_ops h ++ match o with RLim g => [g] | _ => [] end.
Proof. unfold lim_ops. rewrite flat_map_app. cbn. rewrite app_nil_r. reflexivity. Qed.

Lemma grun_snoc ops o : grun (ops ++ [o]) = fst (gstep (grun ops) o).
Proof. unfold grun. rewrite fold_left_app. reflexivity. Qed.

Section Histories.
Variable k : kind.
Variable par : nat -> nat.
Hypothesis Hwf : wf_par par.
Variable icls : nat -> nat.
Variable src : sources.

(** the state the model is in after a history *)
Definition rrun (h : list rop) : rstate :=
  {| rs_set := run k par (meth_ops h); rs_lim := grun (lim_ops h) |}.

Lemma rrun_nil : rrun [] = rinit k.
Proof. reflexivity. Qed.

Lemma rrun_snoc h o : fst (rstep k par icls src (rrun h) o) = rrun (h ++ [o]).
Proof.
  unfold rrun. rewrite meth_ops_snoc, lim_ops_snoc.
  destruct o as [o'|g|i ov fr]; cbn [rstep fst rs_set rs_lim].
  - rewrite run_snoc, app_nil_r. reflexivity.
  - rewrite grun_snoc, app_nil_r. reflexivity.
  - rewrite !app_nil_r. reflexivity.
Qed.

(** one render after any history: model = documented rule *)
Theorem render_after_history h i ov fr :
  snd (rstep k par icls src (rrun h) (RRender i ov fr))
  = Some (spec_render k par icls src h i ov fr).
Proof.
  cbn [rstep snd]. f_equal. unfold spec_render, rrun; cbn [rs_set rs_lim].
  rewrite render_uses_effective, (inst_lookup_spec k par Hwf).
  destruct (native_anim_global (lim_ops h) (icls i) 0) as [-> _].
  set (m := match ov with Some m => m | None => spec_inst k par icls (meth_ops h) i end).
  unfold render_used, doc_used. fold m.
  destruct (m =? ANIM)%Z eqn:E, (s_animated src i), fr; cbn [andb negb]; try reflexivity;
    try (rewrite E; reflexivity).
Qed.

(** every render of every history *)
Theorem rtrace_spec_from done todo :
  rtrace k par icls src (rrun done) todo = spec_rtrace k par icls src done todo.
Proof.
  revert done. induction todo as [|o r IH]; intros done; [reflexivity|].
  cbn [rtrace].
  destruct (rstep k par icls src (rrun done) o) as [st' x] eqn:E.
  assert (Hst : st' = rrun (done ++ [o])) by (rewrite <- rrun_snoc, E; reflexivity).
  assert (Hx : x = snd (rstep k par icls src (rrun done) o)) by (rewrite E; reflexivity).
  subst st'. clear E.
  destruct o as [o'|g|i ov fr].
  - cbn [rstep snd] in Hx. subst x. cbn [spec_rtrace]. apply IH.
  - cbn [rstep snd] in Hx. subst x. cbn [spec_rtrace]. apply IH.
  - rewrite render_after_history in Hx. subst x. cbn [spec_rtrace]. f_equal. apply IH.
Qed.

Theorem rtrace_spec h :
  rtrace k par icls src (rinit k) h = spec_rtrace k par icls src [] h.
Proof. rewrite <- rrun_nil. apply rtrace_spec_from. Qed.

(** "the render method actually used for a render is the effective one unless
    overridden for that call": after every history of set / unset operations at every
    level, interleaved with any operations on the limit, for every data size — whatever
    the limit then is *)
Theorem render_uses_effective_after_history h i fr :
  applies (spec_inst k par icls (meth_ops h) i) (s_animated src i) fr = true ->
  forall x, snd (rstep k par icls src (rrun h) (RRender i None fr)) = Some x ->
  used x = spec_inst k par icls (meth_ops h) i.
Proof.
  intros Ha x Hx. rewrite render_after_history in Hx. injection Hx as <-.
  cbn [spec_render used]. unfold doc_used, applies in *.
  destruct (spec_inst k par icls (meth_ops h) i =? ANIM)%Z eqn:E; [|reflexivity].
  apply Z.eqb_eq in E. rewrite E.
  destruct (s_animated src i), fr; cbn in Ha; try discriminate; reflexivity.
Qed.

Theorem render_override_after_history h i m fr :
  applies m (s_animated src i) fr = true ->
  forall x, snd (rstep k par icls src (rrun h) (RRender i (Some m) fr)) = Some x ->
  used x = m.
Proof.
  intros Ha x Hx. rewrite render_after_history in Hx. injection Hx as <-.
  cbn [spec_render used]. unfold doc_used, applies in *.
  destruct (m =? ANIM)%Z eqn:E; [|reflexivity].
  apply Z.eqb_eq in E. rewrite E.
  destruct (s_animated src i), fr; cbn in Ha; try discriminate; reflexivity.
Qed.

(** operations on the limit never change which method any later render uses *)
Theorem limit_ops_do_not_change_method h g i ov fr x y :
  snd (rstep k par icls src (rrun h) (RRender i ov fr)) = Some x ->
  snd (rstep k par icls src (rrun (h ++ [RLim g])) (RRender i ov fr)) = Some y ->
  used x = used y.
Proof.
  rewrite !render_after_history. intros Hx Hy. injection Hx as <-. injection Hy as <-.
  cbn [spec_render used]. rewrite meth_ops_snoc, app_nil_r. reflexivity.
Qed.

End Histories.

(** *** non-vacuity: forest 0 <- 1 <- 2, 0 <- 3 ([ex_par]); instance 0 of class 2
        (animated, 897 bytes), instance 1 of class 3 (not animated).  ANIM set on class 1
        is inherited by class 2; the limit goes to 896 (one byte below the size), 897, 898:
        the method stays ANIM, only the warning changes; a frame render and the
        non-animated source fall back to WHOLE; a per-call LINES wins. *)
Definition ex_src : sources :=
  {| s_animated := fun i => Nat.eqb i 0; s_size := fun _ => 897%Z |}.
Definition ex_hist : list rop :=
  [RMeth (ClsSet 1 2); RLim (GSet 3 896); RRender 0 None false;
   RLim (GSet 0 897); RRender 0 None false; RRender 0 None true;
   RLim (GUnset 2); RRender 0 (Some 0%Z) false; RRender 1 (Some 2%Z) false;
   RMeth (InstSet 0 1); RRender 0 None false; RLim (GSet 1 5); RRender 0 (Some 2%Z) false].
Example ex_rtrace :
  let k := k_render_method 3 in
  map (fun r => (used r, warned r)) (rtrace k ex_par (parf [2; 3]) ex_src (rinit k) ex_hist)
  = [(2, true); (2, false); (1, false); (0, false); (1, false); (1, false); (2, true)]%Z
  /\ applies (spec_inst k ex_par (parf [2; 3]) (meth_ops (firstn 2 ex_hist)) 0) true false = true.
Proof. vm_compute. split; reflexivity. Qed.
