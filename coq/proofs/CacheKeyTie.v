(** * CacheKeyTie — the model's cache validity test compares exactly the components the
    source compares and stores ([gen/CacheKeySrc.v], regenerated from render/_iterator.py by
    [harness/tx/tx_cachekey.py] on every run). *)
From Coq Require Import List ZArith Bool.
Import ListNotations.
From TI Require Import model.Iter model.IterKey gen.CacheKeySrc.

Lemma key_eqb_is_source_lemma :
  forall e r a, key_eqb e r a = key_eqb_by src_key_lookup e r a.
Proof.
  intros e r a. unfold key_eqb, key_eqb_by, src_key_lookup. cbn [forallb field_eqb].
  rewrite andb_true_r. rewrite andb_assoc. reflexivity.
Qed.

Lemma lookup_store_agree_lemma : src_key_lookup = src_key_store /\ src_cache_holds_unpadded = true.
Proof. split; reflexivity. Qed.

Lemma size_eqb_refl s : size_eqb s s = true.
Proof. unfold size_eqb. rewrite !Z.eqb_refl. reflexivity. Qed.

Lemma dur_eqb_refl d : dur_eqb d d = true.
Proof. destruct d; cbn; [reflexivity|apply Z.eqb_refl]. Qed.

(** what the code stores is what the model stores, and it is valid for the settings it was
    stored under *)
Lemma stored_entry_is_model_lemma :
  forall e0 fr r a,
    store_by src_key_store e0 fr r a
    = {| ce_frame := fr; ce_size := d_size r; ce_dur := d_dur r; ce_args := a |}
    /\ key_eqb (store_by src_key_store e0 fr r a) r a = true.
Proof.
  intros e0 fr r a. split; [reflexivity|].
  unfold key_eqb. cbn. rewrite size_eqb_refl, dur_eqb_refl, Z.eqb_refl. reflexivity.
Qed.

(** a test that leaves out a component accepts a stale entry: the excluded designs *)
Lemma key_without_component_refuted_lemma :
  (exists e r a, key_eqb_by [KDur; KArgs] e r a = true /\ key_eqb e r a = false)
  /\ (exists e r a, key_eqb_by [KSize; KArgs] e r a = true /\ key_eqb e r a = false)
  /\ (exists e r a, key_eqb_by [KSize; KDur] e r a = true /\ key_eqb e r a = false).
Proof.
  pose (fr := {| rf_number := 0%Z; rf_duration := 0%Z; rf_size := (1, 1)%Z; rf_output := [] |}).
  repeat split.
  - exists {| ce_frame := fr; ce_size := (1, 1)%Z; ce_dur := DDynamic; ce_args := 0%Z |},
           {| fo := 0; wh := WCurrent; d_size := (2, 1)%Z; d_dur := DDynamic |}, 0%Z. split; reflexivity.
  - exists {| ce_frame := fr; ce_size := (1, 1)%Z; ce_dur := DDynamic; ce_args := 0%Z |},
           {| fo := 0; wh := WCurrent; d_size := (1, 1)%Z; d_dur := DStatic 5 |}, 0%Z. split; reflexivity.
  - exists {| ce_frame := fr; ce_size := (1, 1)%Z; ce_dur := DDynamic; ce_args := 0%Z |},
           {| fo := 0; wh := WCurrent; d_size := (1, 1)%Z; d_dur := DDynamic |}, 1%Z. split; reflexivity.
Qed.
