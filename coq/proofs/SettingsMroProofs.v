(** Proofs about [model/SettingsMro.v] (C20): the documented resolution rule over class
    hierarchies with multiple inheritance (lookup = first class of the MRO holding a value). *)
From Coq Require Import List ZArith Bool Arith Lia.
Import ListNotations.
From TI Require Import model.Settings model.SettingsVal model.SettingsMro.
From TI Require Import proofs.SettingsProofs proofs.SettingsValProofs.
Local Arguments Nat.eqb : simpl never.

(** *** [first_some] *)

Lemma first_some_ext d1 d2 l :
  (forall x, In x l -> d1 x = d2 x) -> first_some d1 l = first_some d2 l.
Proof.
  induction l as [|x l IH]; intros H; [reflexivity|]. cbn [first_some].
  rewrite (H x) by (left; reflexivity). destruct (d2 x); [reflexivity|].
  apply IH. intros y Hy. apply H. right. exact Hy.
Qed.

Lemma first_some_none d l : (forall x, In x l -> d x = None) -> first_some d l = None.
Proof.
  induction l as [|x l IH]; intros H; [reflexivity|]. cbn [first_some].
  rewrite (H x) by (left; reflexivity). apply IH. intros y Hy. apply H. right. exact Hy.
Qed.

Lemma first_some_in d l x : In x l -> d x <> None -> first_some d l <> None.
Proof.
  induction l as [|y l IH]; intros Hin Hx; [contradiction|]. cbn [first_some].
  destruct (d y) eqn:Ey; [congruence|]. destruct Hin as [->|Hin]; [congruence|].
  apply IH; assumption.
Qed.

Lemma first_some_upd_notin d c v l :
  ~ In c l -> first_some (upd d c v) l = first_some d l.
Proof.
  intros H. apply first_some_ext. intros x Hx. unfold upd.
  destruct (Nat.eqb_spec x c) as [->|]; [contradiction|reflexivity].
Qed.

(** the value a list of classes provides *)
Definition m_eff_over (k : kind) (s : state) (l : list nat) : Z :=
  match first_some (cd s) l with Some v => v | None => k_default k end.

Section Generic.
Variable k : kind.
Variable H : hier.

Hypothesis Hmro : wf_mro H.
Hypothesis Hwf : wf_hier k H.

Notation root := (h_root H).

(** *** history-level facts *)

Lemma m_own_cls_snoc ops o c :
  m_own_cls k H (ops ++ [o]) c = m_own_cls_step k H c (m_own_cls k H ops c) o.
Proof. unfold m_own_cls. rewrite fold_left_app. reflexivity. Qed.

Lemma own_inst_snoc' ops o i :
  own_inst k (ops ++ [o]) i = own_inst_step k i (own_inst k ops i) o.
Proof. unfold own_inst. rewrite fold_left_app. reflexivity. Qed.

Lemma m_run_snoc ops o : m_run k H (ops ++ [o]) = fst (m_step k H (m_run k H ops) o).
Proof. unfold m_run. rewrite fold_left_app. reflexivity. Qed.

(** a class the setting does not exist on never has a value of its own *)
Lemma own_absent ops c : h_has H c = false -> m_own_cls k H ops c = None.
Proof.
  intros Hc. induction ops as [|o ops IH] using rev_ind; [reflexivity|].
  rewrite m_own_cls_snoc, IH. destruct o as [c' v|c'|i v|i]; cbn; try reflexivity.
  - destruct (Nat.eqb_spec c' c) as [->|]; [|reflexivity]. rewrite Hc. reflexivity.
  - destruct (Nat.eqb c' c && k_cls_unset k); reflexivity.
Qed.

(** *** the representation invariant *)

Definition MRep (s : state) (ops : list op) : Prop :=
  (forall i, idt s i = own_inst k ops i) /\
  (forall c, (c <> root \/ k_pinned k = false) -> cd s c = m_own_cls k H ops c) /\
  (k_pinned k = true ->
   cd s root = Some (match m_own_cls k H ops root with Some v => v | None => k_default k end)).

Lemma MRep_init : MRep (m_init k H) [].
Proof.
  unfold MRep, m_init, m_own_cls, own_inst; cbn. repeat split.
  - intros c [Hc|Hp].
    + destruct (Nat.eqb_spec c root); [contradiction|]. rewrite andb_false_r. reflexivity.
    + rewrite Hp. reflexivity.
  - intros Hp. rewrite Hp, Nat.eqb_refl. reflexivity.
Qed.

(** the classes above the root in its own MRO hold nothing *)
Lemma above_root_none s ops r :
  MRep s ops -> k_pinned k = true -> h_has H root = true -> h_mro H root = root :: r ->
  forall x, In x r -> cd s x = None.
Proof.
  intros (_ & Hc & _) Hp Hr Hm x Hx.
  destruct (Hwf Hp) as (_ & H2).
  pose proof (H2 root [] r Hm x Hx) as Hax.
  assert (x <> root) by (intros ->; congruence).
  rewrite Hc by (left; assumption). apply own_absent, Hax.
Qed.

Lemma MRep_step s ops o : MRep s ops -> MRep (fst (m_step k H s o)) (ops ++ [o]).
Proof.
  intros HR. pose proof HR as (Hi & Hc & Hr). unfold MRep.
  destruct o as [c v|c|i v|i]; cbn [m_step].
  - (* ClsSet *)
    destruct (h_has H c && k_valid k v) eqn:Ev; cbn [fst cd idt].
    + repeat split.
      * intros i. rewrite own_inst_snoc'. cbn. apply Hi.
      * intros x Hx. rewrite m_own_cls_snoc. cbn. unfold upd.
        rewrite (Nat.eqb_sym c x). destruct (Nat.eqb_spec x c) as [->|].
        -- rewrite Ev. reflexivity.
        -- cbn. apply Hc, Hx.
      * intros Hp. rewrite m_own_cls_snoc. cbn. unfold upd.
        rewrite (Nat.eqb_sym c root). destruct (Nat.eqb_spec root c) as [<-|].
        -- rewrite Ev. reflexivity.
        -- cbn. apply Hr, Hp.
    + repeat split.
      * intros i. rewrite own_inst_snoc'. cbn. apply Hi.
      * intros x Hx. rewrite m_own_cls_snoc. cbn. rewrite Ev, andb_false_r. apply Hc, Hx.
      * intros Hp. rewrite m_own_cls_snoc. cbn. rewrite Ev, andb_false_r. apply Hr, Hp.
  - (* ClsUnset *)
    destruct (k_cls_unset k) eqn:Eu; cbn [fst cd idt].
    2:{ repeat split.
        - intros i. rewrite own_inst_snoc'. cbn. apply Hi.
        - intros x Hx. rewrite m_own_cls_snoc. cbn. rewrite Eu, andb_false_r. apply Hc, Hx.
        - intros Hp. rewrite m_own_cls_snoc. cbn. rewrite Eu, andb_false_r. apply Hr, Hp. }
    destruct (h_has H c) eqn:Ehc; cbn [fst cd idt].
    2:{ (* the setting does not exist on [c]: nothing happens, and [c] had no value *)
        repeat split.
        - intros i. rewrite own_inst_snoc'. cbn. apply Hi.
        - intros x Hx. rewrite m_own_cls_snoc. cbn. rewrite Eu, andb_true_r.
          destruct (Nat.eqb_spec c x) as [->|]; [|apply Hc, Hx].
          rewrite Hc by exact Hx. apply own_absent, Ehc.
        - intros Hp. rewrite m_own_cls_snoc. cbn. rewrite Eu, andb_true_r.
          destruct (Nat.eqb_spec c root) as [->|]; [|apply Hr, Hp].
          rewrite (Hr Hp), (own_absent ops root Ehc). reflexivity. }
    destruct (k_pinned k) eqn:Ep.
    2:{ repeat split.
        - intros i. rewrite own_inst_snoc'. cbn. apply Hi.
        - intros x Hx. rewrite m_own_cls_snoc. cbn. rewrite Eu, andb_true_r. unfold upd.
          rewrite (Nat.eqb_sym c x). destruct (Nat.eqb_spec x c); [reflexivity|].
          apply Hc. right. reflexivity.
        - discriminate. }
    (* pinned: del, then restore the default if nothing is found through the MRO *)
    destruct (Hmro c Ehc) as (r & Hm).
    destruct (Nat.eqb_spec c root) as [->|Hne].
    + (* the root itself: nothing above it has a value *)
      assert (Hl : first_some (upd (cd s) root None) (h_mro H root) = None).
      { rewrite Hm. cbn [first_some]. unfold upd at 1. rewrite Nat.eqb_refl.
        apply first_some_none. intros x Hx. unfold upd.
        destruct (Nat.eqb_spec x root); [reflexivity|].
        apply (above_root_none s ops r HR Ep Ehc Hm x Hx). }
      rewrite Hl. cbn [cd]. repeat split.
      * intros i. rewrite own_inst_snoc'. cbn. apply Hi.
      * intros x [Hx|Hx]; [|discriminate]. rewrite m_own_cls_snoc. cbn. unfold upd.
        rewrite (Nat.eqb_sym root x). destruct (Nat.eqb_spec x root); [contradiction|].
        cbn. apply Hc. left. assumption.
      * intros _. rewrite m_own_cls_snoc. cbn. rewrite Nat.eqb_refl, Eu. cbn.
        unfold upd. rewrite Nat.eqb_refl. reflexivity.
    + (* below the root: the root is found *)
      assert (Hl : first_some (upd (cd s) c None) (h_mro H c) <> None).
      { destruct (Hwf Ep) as (H1 & _).
        apply (first_some_in _ _ root (H1 c Ehc)). unfold upd.
        destruct (Nat.eqb_spec root c); [congruence|]. rewrite (Hr eq_refl). congruence. }
      destruct (first_some (upd (cd s) c None) (h_mro H c)) eqn:El; [|congruence].
      cbn [cd]. repeat split.
      * intros i. rewrite own_inst_snoc'. cbn. apply Hi.
      * intros x Hx. rewrite m_own_cls_snoc. cbn. rewrite Eu, andb_true_r. unfold upd.
        rewrite (Nat.eqb_sym c x). destruct (Nat.eqb_spec x c); [reflexivity|].
        apply Hc, Hx.
      * intros _. rewrite m_own_cls_snoc. cbn. unfold upd.
        destruct (Nat.eqb_spec c root); [contradiction|].
        destruct (Nat.eqb_spec root c); [congruence|]. cbn. apply Hr. reflexivity.
  - (* InstSet *)
    destruct (k_inst_set k) eqn:Es; [destruct (k_valid k v) eqn:Ev|]; cbn [fst cd idt];
      (repeat split;
       [ intros j; rewrite own_inst_snoc'; cbn; rewrite ?Es, ?Ev, ?andb_false_r, ?andb_true_r;
         unfold upd; rewrite ?(Nat.eqb_sym i j); destruct (Nat.eqb j i); cbn; try reflexivity; apply Hi
       | intros x Hx; rewrite m_own_cls_snoc; cbn; apply Hc, Hx
       | intros Hp; rewrite m_own_cls_snoc; cbn; apply Hr, Hp ]).
  - (* InstUnset *)
    destruct (k_inst_set k) eqn:Es; cbn [fst cd idt];
      (repeat split;
       [ intros j; rewrite own_inst_snoc'; cbn; rewrite ?Es, ?andb_false_r, ?andb_true_r;
         unfold upd; rewrite ?(Nat.eqb_sym i j); destruct (Nat.eqb j i); cbn; try reflexivity; apply Hi
       | intros x Hx; rewrite m_own_cls_snoc; cbn; apply Hc, Hx
       | intros Hp; rewrite m_own_cls_snoc; cbn; apply Hr, Hp ]).
Qed.

Lemma MRep_run ops : MRep (m_run k H ops) ops.
Proof.
  induction ops as [|o ops IH] using rev_ind.
  - apply MRep_init.
  - rewrite m_run_snoc. apply MRep_step, IH.
Qed.

(** under the invariant, Python's lookup through the MRO computes the documented rule *)
Lemma lookup_is_first s ops : MRep s ops -> forall l,
  (k_pinned k = true -> forall l1 l2, l = l1 ++ root :: l2 -> forall x, In x l2 -> h_has H x = false) ->
  match first_some (cd s) l with Some v => v | None => k_default k end =
  match first_some (m_own_cls k H ops) l with Some v => v | None => k_default k end.
Proof.
  intros (_ & Hc & Hr). induction l as [|x l IH]; intros Hl; [reflexivity|].
  cbn [first_some]. destruct (k_pinned k) eqn:Ep.
  - destruct (Nat.eqb_spec x root) as [->|Hx].
    + rewrite (Hr eq_refl). destruct (m_own_cls k H ops root); [reflexivity|].
      rewrite first_some_none; [reflexivity|].
      intros y Hy. apply own_absent. apply (Hl eq_refl [] l eq_refl y Hy).
    + rewrite (Hc x) by (left; exact Hx). destruct (m_own_cls k H ops x); [reflexivity|].
      apply IH. intros _ l1 l2 E. apply (Hl eq_refl (x :: l1) l2). rewrite E. reflexivity.
  - rewrite (Hc x) by (right; reflexivity). destruct (m_own_cls k H ops x); [reflexivity|].
    apply IH. intros Hp; discriminate.
Qed.

(** *** C20 main statement over MROs: effective value = own, else that of the first class
        of the MRO that has one, else the default *)

Theorem m_cls_lookup_spec ops c : m_cls_eff k H (m_run k H ops) c = m_spec_cls k H ops c.
Proof.
  unfold m_cls_eff, m_spec_cls. apply lookup_is_first; [apply MRep_run|].
  intros Hp l1 l2 E. destruct (Hwf Hp) as (_ & H2). apply (H2 c l1 l2 E).
Qed.

Theorem m_inst_lookup_spec icls ops i :
  m_inst_eff k H icls (m_run k H ops) i = m_spec_inst k H icls ops i.
Proof.
  unfold m_inst_eff, m_spec_inst. destruct (MRep_run ops) as (Hi & _). rewrite Hi.
  destruct (own_inst k ops i); [reflexivity|]. apply m_cls_lookup_spec.
Qed.

(** *** unset makes the level follow the next one: the REST of its MRO *)

Theorem m_cls_unset_follows_next ops c r :
  k_cls_unset k = true -> h_has H c = true -> h_mro H c = c :: r ->
  (c <> root \/ k_pinned k = false) ->
  let s' := fst (m_step k H (m_run k H ops) (ClsUnset c)) in
  m_cls_eff k H s' c = m_eff_over k s' r.
Proof.
  intros Hu Hc Hm Hne s'. subst s'. cbn [m_step]. rewrite Hu, Hc. cbn [fst].
  unfold m_cls_eff, m_eff_over. cbn [cd]. rewrite Hm.
  destruct (k_pinned k) eqn:Ep.
  - destruct Hne as [Hne|]; [|discriminate].
    destruct (MRep_run ops) as (_ & _ & Hr).
    assert (Hl : first_some (upd (cd (m_run k H ops)) c None) (c :: r) <> None).
    { destruct (Hwf Ep) as (H1 & _).
      rewrite <- Hm. apply (first_some_in _ _ root (H1 c Hc)). unfold upd.
      destruct (Nat.eqb_spec root c); [congruence|]. rewrite (Hr Ep). congruence. }
    destruct (first_some (upd (cd (m_run k H ops)) c None) (c :: r)) eqn:El; [|congruence].
    cbn [first_some]. unfold upd at 1. rewrite Nat.eqb_refl. reflexivity.
  - cbn [first_some]. unfold upd at 1. rewrite Nat.eqb_refl. reflexivity.
Qed.

(** in terms of the history: after the unset, [c] reads what the documented rule gives for
    the rest of its MRO *)
Theorem m_cls_unset_spec ops c r :
  k_cls_unset k = true -> h_has H c = true -> h_mro H c = c :: r ->
  m_spec_cls k H (ops ++ [ClsUnset c]) c
  = match first_some (m_own_cls k H (ops ++ [ClsUnset c])) r with
    | Some v => v | None => k_default k end.
Proof.
  intros Hu Hc Hm. unfold m_spec_cls. rewrite Hm. cbn [first_some].
  rewrite m_own_cls_snoc. cbn. rewrite Nat.eqb_refl, Hu. reflexivity.
Qed.

Theorem m_root_unset_gives_default ops :
  k_cls_unset k = true -> k_pinned k = true -> h_has H root = true ->
  m_cls_eff k H (fst (m_step k H (m_run k H ops) (ClsUnset root))) root = k_default k.
Proof.
  intros Hu Hp Hr. rewrite <- (m_run_snoc ops (ClsUnset root)). rewrite m_cls_lookup_spec.
  unfold m_spec_cls. destruct (Hmro root Hr) as (r & Hm). rewrite Hm. cbn [first_some].
  rewrite m_own_cls_snoc. cbn. rewrite Nat.eqb_refl, Hu. cbn.
  rewrite first_some_none; [reflexivity|]. intros x Hx. apply own_absent.
  destruct (Hwf Hp) as (_ & H2). apply (H2 root [] r Hm x Hx).
Qed.

Theorem m_inst_unset_follows_class icls ops i :
  k_inst_set k = true ->
  let s' := fst (m_step k H (m_run k H ops) (InstUnset i)) in
  m_inst_eff k H icls s' i = m_cls_eff k H s' (icls i).
Proof.
  intros Hs s'. subst s'. cbn [m_step]. rewrite Hs. cbn [fst]. unfold m_inst_eff. cbn [idt].
  unfold upd. rewrite Nat.eqb_refl. reflexivity.
Qed.

End Generic.

(** *** setting is local (from ANY state, any hierarchy): a class-level operation on [c] is
        seen only by classes that have [c] in their MRO; an instance-level one by that
        instance only *)

Lemma m_step_cd_only_at k H s o : forall x,
  (match o with ClsSet c _ | ClsUnset c => x <> c | _ => True end) ->
  cd (fst (m_step k H s o)) x = cd s x.
Proof.
  intros x Hx. destruct o as [c v|c|i v|i]; cbn [m_step].
  - destruct (h_has H c && k_valid k v); cbn; [|reflexivity]. unfold upd.
    destruct (Nat.eqb_spec x c); [contradiction|reflexivity].
  - destruct (k_cls_unset k); cbn [fst cd]; [|reflexivity].
    destruct (h_has H c); cbn [fst cd]; [|reflexivity].
    destruct (k_pinned k).
    + destruct (first_some (upd (cd s) c None) (h_mro H c)); cbn [cd]; unfold upd;
        destruct (Nat.eqb_spec x c); try contradiction; reflexivity.
    + cbn [cd]. unfold upd. destruct (Nat.eqb_spec x c); [contradiction|reflexivity].
  - destruct (k_inst_set k); [destruct (k_valid k v)|]; reflexivity.
  - destruct (k_inst_set k); reflexivity.
Qed.

Theorem m_class_op_is_local k H s o d :
  (match o with ClsSet c _ | ClsUnset c => ~ In c (h_mro H d) | _ => True end) ->
  m_cls_eff k H (fst (m_step k H s o)) d = m_cls_eff k H s d.
Proof.
  intros Hn. unfold m_cls_eff.
  rewrite (first_some_ext (cd (fst (m_step k H s o))) (cd s) (h_mro H d)); [reflexivity|].
  intros x Hx.
  apply m_step_cd_only_at. destruct o as [c v|c|i v|i]; try exact I; intros ->; contradiction.
Qed.

Theorem m_inst_op_is_local k H icls s o j :
  (match o with InstSet i _ | InstUnset i => j <> i | _ => False end) ->
  m_inst_eff k H icls (fst (m_step k H s o)) j = m_inst_eff k H icls s j.
Proof.
  intros Hj. destruct o as [c v|c|i v|i]; try contradiction; cbn [m_step];
    destruct (k_inst_set k); try reflexivity.
  - destruct (k_valid k v); [|reflexivity]. unfold m_inst_eff, m_cls_eff; cbn [fst idt cd].
    unfold upd. destruct (Nat.eqb_spec j i); [contradiction|reflexivity].
  - unfold m_inst_eff, m_cls_eff; cbn [fst idt cd].
    unfold upd. destruct (Nat.eqb_spec j i); [contradiction|reflexivity].
Qed.

Theorem m_inst_op_keeps_classes k H s o c :
  (match o with InstSet _ _ | InstUnset _ => True | _ => False end) ->
  m_cls_eff k H (fst (m_step k H s o)) c = m_cls_eff k H s c.
Proof. intros Ho. apply m_class_op_is_local. destruct o; try contradiction; exact I. Qed.

Theorem m_rejected_no_change k H s o :
  snd (m_step k H s o) = Rejected -> fst (m_step k H s o) = s.
Proof.
  destruct o as [c v|c|i v|i]; cbn [m_step].
  - destruct (h_has H c && k_valid k v); cbn; [discriminate|reflexivity].
  - destruct (k_cls_unset k); [destruct (h_has H c)|]; cbn; try discriminate; reflexivity.
  - destruct (k_inst_set k); [destruct (k_valid k v)|]; cbn; try discriminate; reflexivity.
  - destruct (k_inst_set k); cbn; [discriminate|reflexivity].
Qed.

(** *** the single-inheritance forest of [model/Settings.v] is the special case in which the
        MRO of a class is the chain of its parents *)

Lemma first_some_chain par d : forall fuel c,
  first_some d (chain par fuel c) = cls_lookup par d fuel c.
Proof.
  induction fuel as [|f IH]; intros c; cbn [chain first_some cls_lookup].
  - destruct (d c); reflexivity.
  - destruct (d c); [reflexivity|]. destruct (Nat.eqb c 0); [reflexivity|]. apply IH.
Qed.

Theorem forest_cls_eff k par s c : m_cls_eff k (hier_of_par par) s c = cls_eff k par s c.
Proof. unfold m_cls_eff, cls_eff. cbn [hier_of_par h_mro]. rewrite first_some_chain. reflexivity. Qed.

Theorem forest_inst_eff k par icls s i :
  m_inst_eff k (hier_of_par par) icls s i = inst_eff k par icls s i.
Proof. unfold m_inst_eff, inst_eff. rewrite forest_cls_eff. reflexivity. Qed.

Theorem forest_step k par s o : m_step k (hier_of_par par) s o = step k par s o.
Proof.
  destruct o as [c v|c|i v|i]; cbn [m_step step hier_of_par h_has h_mro andb]; try reflexivity.
  destruct (k_cls_unset k); [|reflexivity]. destruct (k_pinned k); [|reflexivity].
  rewrite first_some_chain. reflexivity.
Qed.

Theorem forest_run k par ops : m_run k (hier_of_par par) ops = run k par ops.
Proof.
  unfold m_run, run.
  assert (Hi : m_init k (hier_of_par par) = init k) by reflexivity. rewrite Hi.
  generalize (init k). induction ops as [|o ops IH]; intros s; [reflexivity|].
  cbn [fold_left]. rewrite forest_step. apply IH.
Qed.

(** *** value level *)

Lemma m_front_is_doc st H lv t v : m_front st H lv t v = to_fres (m_doc_meaning st H lv t v).
Proof.
  unfold m_front, m_doc_meaning. destruct (absent H lv t).
  - destruct st; try reflexivity. apply front_is_doc.
  - apply front_is_doc.
Qed.

(** an invalid value — for the target it is handed to — is rejected with the documented
    error and nothing changes, from any state *)
Theorem m_invalid_rejected st H u lv t v e :
  m_doc_meaning st H lv t v = MInvalid e -> m_vstep st H u (VSet lv t v) = (u, VRej e).
Proof. intros E. cbn [m_vstep]. rewrite m_front_is_doc, E. reflexivity. Qed.

Lemma ci_find_empty_names0 s : ci_find 0 s (names 0) = None.
Proof. reflexivity. Qed.

Lemma doc_rm0_never_set lv v z : doc_meaning (SRm 0) lv v <> MSet z.
Proof. destruct v; cbn; discriminate. Qed.

Lemma m_doc_set_has st H lv t v z :
  m_doc_meaning st H lv t v = MSet z -> absent H lv t = false /\ doc_meaning st lv v = MSet z.
Proof.
  unfold m_doc_meaning. destruct (absent H lv t); [|auto].
  destruct st; try discriminate. intros E. exfalso. exact (doc_rm0_never_set lv v z E).
Qed.

Lemma m_vstep_doc st k H u o :
  kind_of st = Some k ->
  u_s (fst (m_vstep st H u o))
  = fold_left (fun s o => fst (m_step k H s o)) (m_doc_op st H o) (u_s u).
Proof.
  intros Hk. destruct o as [lv t v|lv t].
  - cbn [m_vstep m_doc_op]. rewrite m_front_is_doc.
    destruct (m_doc_meaning st H lv t v) as [z| |e] eqn:E; cbn [to_fres fst fold_left].
    + destruct (m_doc_set_has st H lv t v z E) as [Ha Ed].
      destruct (doc_set_valid st k lv v z Hk Ed) as [Hv Hi].
      unfold do_set. rewrite Hk. destruct lv; cbn [m_step u_s].
      * cbn in Ha. apply negb_false_iff in Ha. rewrite Ha, Hv. reflexivity.
      * rewrite (Hi eq_refl), Hv. reflexivity.
    + assert (Hst : exists n, st = SRm n).
      { unfold m_doc_meaning in E. destruct (absent H lv t).
        - destruct st; try discriminate. eauto.
        - apply doc_unset_only_none in E. tauto. }
      destruct Hst as [n ->]. inversion Hk; subst k.
      unfold m_do_unset. cbn [kind_of]. destruct lv; cbn [m_step k_render_method k_cls_unset k_inst_set k_pinned];
        [destruct (h_has H t)|]; reflexivity.
    + reflexivity.
  - cbn [m_vstep m_doc_op]. rewrite has_del_doc.
    destruct st as [n| | | |]; inversion Hk; subst k; destruct lv; cbn [doc_del fst fold_left];
      unfold m_do_unset; cbn [kind_of m_step k_render_method k_jpeg_quality k_read_from_file
                                k_forced_support k_cls_unset k_inst_set k_pinned];
      try reflexivity; destruct (h_has H t); reflexivity.
Qed.

Lemma m_vfold_doc st k H (Hk : kind_of st = Some k) ops : forall u,
  u_s (fold_left (fun u o => fst (m_vstep st H u o)) ops u)
  = fold_left (fun s o => fst (m_step k H s o)) (m_doc_ops st H ops) (u_s u).
Proof.
  induction ops as [|o ops IH]; intros u; [reflexivity|].
  cbn [fold_left m_doc_ops flat_map]. rewrite fold_left_app, IH.
  rewrite (m_vstep_doc st k H u o Hk). reflexivity.
Qed.

(** the dictionaries after a value-level history are those of its documented reading *)
Theorem m_vrun_doc st k H ops :
  kind_of st = Some k -> u_s (m_vrun st H ops) = m_run k H (m_doc_ops st H ops).
Proof.
  intros Hk. unfold m_vrun, m_run. rewrite (m_vfold_doc st k H Hk).
  unfold m_uinit. rewrite Hk. reflexivity.
Qed.

Lemma m_vstep_gdoc H u o :
  u_g (fst (m_vstep SNam H u o))
  = fold_left (fun g o => fst (gstep g o)) (m_doc_gop H o) (u_g u).
Proof.
  destruct o as [lv t v|lv t].
  - cbn [m_vstep m_doc_gop]. rewrite m_front_is_doc.
    destruct (m_doc_meaning SNam H lv t v) as [z| |e] eqn:E; cbn [to_fres fst fold_left].
    + destruct (m_doc_set_has SNam H lv t v z E) as [_ Ed].
      cbn. rewrite (doc_nam_pos lv v z Ed). reflexivity.
    + exfalso. unfold m_doc_meaning in E. destruct (absent H lv t); [discriminate|].
      apply doc_unset_only_none in E. destruct E as [[n Hn] _]. discriminate.
    + reflexivity.
  - cbn [m_vstep m_doc_gop]. destruct lv; cbn [has_del doc_del andb]; [|reflexivity].
    unfold m_do_unset. cbn [kind_of]. destruct (absent H LCls t); reflexivity.
Qed.

Theorem m_vrun_gdoc H ops : u_g (m_vrun SNam H ops) = grun (m_doc_gops H ops).
Proof.
  unfold m_vrun, grun.
  assert (Hg : forall u, u_g (fold_left (fun u o => fst (m_vstep SNam H u o)) ops u)
                         = fold_left (fun g o => fst (gstep g o)) (m_doc_gops H ops) (u_g u)).
  { induction ops as [|o ops IH]; intros u; [reflexivity|].
    cbn [fold_left m_doc_gops flat_map]. rewrite fold_left_app, IH, m_vstep_gdoc. reflexivity. }
  rewrite Hg. reflexivity.
Qed.

Lemma m_vrun_snoc st H ops o :
  m_vrun st H (ops ++ [o]) = fst (m_vstep st H (m_vrun st H ops) o).
Proof. unfold m_vrun. rewrite fold_left_app. reflexivity. Qed.

(** the hierarchy is well-formed for every setting it is used with *)
Definition wf_hier_st (st : setting) (H : hier) : Prop :=
  wf_mro H /\ forall k, kind_of st = Some k -> wf_hier k H.

(** *** main statement at value level over MROs *)
Theorem m_vobserve_spec st H icls nc ni ops :
  wf_hier_st st H ->
  m_vobserve st H icls nc ni (m_vrun st H ops) = m_vspec_observe st H icls nc ni ops.
Proof.
  intros [Hm Hw]. unfold m_vobserve, m_vspec_observe. destruct (kind_of st) as [k|] eqn:Hk.
  - rewrite (m_vrun_doc st k H ops Hk). unfold m_observe, m_spec_observe. f_equal.
    + apply map_ext. intros c. destruct (h_has H c); [|reflexivity].
      apply m_cls_lookup_spec; [exact Hm|apply Hw; reflexivity].
    + apply map_ext. intros i. apply m_inst_lookup_spec; [exact Hm|apply Hw; reflexivity].
  - destruct st; try discriminate. rewrite m_vrun_gdoc.
    destruct (native_anim_global (m_doc_gops H ops) 0%nat 0%nat) as [Hg _]. unfold gread in *.
    rewrite Hg. reflexivity.
Qed.

Lemma m_vstep_out st H u o : snd (m_vstep st H u o) = m_doc_out st H o.
Proof.
  destruct o as [lv t v|lv t]; cbn [m_vstep m_doc_out].
  - rewrite m_front_is_doc. destruct (m_doc_meaning st H lv t v); reflexivity.
  - rewrite has_del_doc. destruct (doc_del st lv); reflexivity.
Qed.

Lemma m_vtrace_spec_aux st H icls nc ni (Hwf : wf_hier_st st H) todo : forall done,
  m_vtrace st H icls nc ni (m_vrun st H done) todo
  = m_vspec_trace_aux st H icls nc ni done todo.
Proof.
  induction todo as [|o todo IH]; intros done; [reflexivity|].
  cbn [m_vtrace m_vspec_trace_aux].
  destruct (m_vstep st H (m_vrun st H done) o) as [u' x] eqn:E.
  assert (Hu : u' = m_vrun st H (done ++ [o])) by (rewrite m_vrun_snoc, E; reflexivity).
  assert (Hx : x = m_doc_out st H o)
    by (rewrite <- (m_vstep_out st H (m_vrun st H done) o), E; reflexivity).
  subst u' x. rewrite m_vobserve_spec by exact Hwf. rewrite IH. reflexivity.
Qed.

(** the two sides of the correspondence agree with each other, on every hierarchy *)
Theorem m_vtrace_spec st H icls nc ni ops :
  wf_hier_st st H ->
  m_vtrace st H icls nc ni (m_uinit st H) ops = m_vspec_trace st H icls nc ni ops.
Proof. intros Hwf. exact (m_vtrace_spec_aux st H icls nc ni Hwf ops []). Qed.
