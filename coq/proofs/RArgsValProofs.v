(** * RArgsValProofs — the namespace rejection / assignment rules hold for EVERY field value (C16)

    Lemmas about [model/RArgsVal.v]: the laws of Python's [==] / [hash] on the value
    universe, the namespace constructor and [update] against the field-by-field rule,
    rejection of unknown field names whatever the values and whatever the split between
    positional and keyword arguments, heap monotonicity, refinement of the value-level
    rule by programs, and the embedding of the integer-valued model. *)
From Coq Require Import List ZArith Bool Arith Lia.
Import ListNotations.
From TI Require Import model.RArgs model.RArgsVal.

Local Arguments Nat.eqb : simpl never.
Local Arguments Nat.ltb : simpl never.
Local Arguments Nat.leb : simpl never.

(** ** Values *)

Lemma val_eqb_eq : forall a b, val_eqb a b = true <-> a = b.
Proof.
  intros a b; split.
  - destruct a, b; cbn; intros H; try discriminate; try reflexivity;
      try (apply Z.eqb_eq in H; subst; reflexivity);
      try (apply Nat.eqb_eq in H; subst; reflexivity).
    apply Bool.eqb_prop in H; subst; reflexivity.
  - intros <-. destruct a; cbn; try reflexivity;
      try apply Z.eqb_refl; try apply Nat.eqb_refl. apply Bool.eqb_reflx.
Qed.

Lemma num_hkey : forall a z, num a = Some z -> hkey a = VInt z.
Proof. intros a z H; unfold hkey; rewrite H; reflexivity. Qed.

Lemma hkey_nonum : forall a, num a = None -> hkey a = a.
Proof. intros a H; unfold hkey; rewrite H; reflexivity. Qed.

(** [a == b] iff [a] is not a NaN-like object and both have the same hash key *)
Lemma py_eq_iff : forall a b, py_eq a b = true <-> is_nan a = false /\ hkey a = hkey b.
Proof.
  intros a b; split.
  - unfold py_eq, hkey.
    destruct (num a) as [x|] eqn:Ha, (num b) as [y|] eqn:Hb; try discriminate.
    + intros H; apply Z.eqb_eq in H; subst. split; [destruct a; try discriminate; reflexivity|reflexivity].
    + destruct a, b; try discriminate; intros H; cbn; split; try reflexivity.
      apply Nat.eqb_eq in H; subst; reflexivity.
  - intros [Hn H]. unfold py_eq, hkey in *.
    destruct (num a) as [x|] eqn:Ha, (num b) as [y|] eqn:Hb.
    + inversion H; apply Z.eqb_refl.
    + subst b; discriminate.
    + subst a; discriminate.
    + subst b. destruct a; try discriminate; try reflexivity. apply Nat.eqb_refl.
Qed.

Lemma hkey_nan : forall a b, hkey a = hkey b -> is_nan a = is_nan b.
Proof.
  intros a b; unfold hkey.
  destruct (num a) eqn:Ha, (num b) eqn:Hb; intros H.
  - destruct a, b; try discriminate; reflexivity.
  - subst b. destruct a; try discriminate.
  - subst a. destruct b; try discriminate.
  - subst; reflexivity.
Qed.

Lemma py_eq_hkey : forall a b, py_eq a b = true -> hkey a = hkey b.
Proof. intros a b H; apply py_eq_iff in H; tauto. Qed.

Lemma py_eq_sym : forall a b, py_eq a b = py_eq b a.
Proof.
  intros a b.
  destruct (py_eq a b) eqn:H1, (py_eq b a) eqn:H2; try reflexivity.
  - apply py_eq_iff in H1 as [Hn Hk].
    assert (py_eq b a = true) by (apply py_eq_iff; split; [rewrite <- (hkey_nan _ _ Hk)|]; auto).
    congruence.
  - apply py_eq_iff in H2 as [Hn Hk].
    assert (py_eq a b = true) by (apply py_eq_iff; split; [rewrite <- (hkey_nan _ _ Hk)|]; auto).
    congruence.
Qed.

Lemma py_eq_trans : forall a b c, py_eq a b = true -> py_eq b c = true -> py_eq a c = true.
Proof.
  intros a b c H1 H2. apply py_eq_iff in H1 as [Hn H1], H2 as [_ H2].
  apply py_eq_iff; split; [assumption|congruence].
Qed.

Lemma py_eq_refl_iff : forall a, py_eq a a = true <-> is_nan a = false.
Proof. intros a; rewrite py_eq_iff; tauto. Qed.

Lemma py_eq_laws :
  (forall a b, py_eq a b = py_eq b a) /\
  (forall a b c, py_eq a b = true -> py_eq b c = true -> py_eq a c = true) /\
  (forall a, py_eq a a = true <-> is_nan a = false) /\
  (forall a b, py_eq a b = true -> hkey a = hkey b).
Proof. exact (conj py_eq_sym (conj py_eq_trans (conj py_eq_refl_iff py_eq_hkey))). Qed.

(** the cross-type equalities Python has, and the ones it has not *)
Lemma py_eq_table :
  py_eq (VInt 0) (VBool false) = true /\ py_eq (VBool true) (VFloat 1) = true /\
  hkey (VInt 0) = hkey (VBool false) /\ hkey (VBool false) = hkey (VFloat 0) /\
  py_eq VNone (VInt 0) = false /\ py_eq VNone (VBool false) = false /\
  py_eq (VStr 0) (VInt 0) = false /\ py_eq VEmptyTuple (VBool false) = false /\
  py_eq VNone VNone = true /\ py_eq VEllipsis VNone = false /\
  (forall i, py_eq (VNan i) (VNan i) = false).
Proof. repeat split. Qed.

Lemma vl_eqb_eq : forall a b, vl_eqb a b = true <-> a = b.
Proof.
  induction a as [|x a IH]; destruct b as [|y b]; cbn; split; intros H; try discriminate; try reflexivity.
  - apply andb_true_iff in H as [H1 H2]. apply val_eqb_eq in H1. apply IH in H2. congruence.
  - inversion H; subst. apply andb_true_iff; split; [apply val_eqb_eq|apply IH]; reflexivity.
Qed.

Lemma vl_pyeq_hkey : forall a b, vl_pyeq a b = true -> map hkey a = map hkey b.
Proof.
  induction a as [|x a IH]; destruct b as [|y b]; cbn; intros H; try discriminate; try reflexivity.
  apply andb_true_iff in H as [H1 H2]. rewrite (py_eq_hkey _ _ H1), (IH _ H2). reflexivity.
Qed.

Lemma vl_pyeq_sym : forall a b, vl_pyeq a b = vl_pyeq b a.
Proof.
  induction a as [|x a IH]; destruct b as [|y b]; cbn; try reflexivity.
  rewrite py_eq_sym, IH. reflexivity.
Qed.

Lemma vl_pyeq_trans : forall a b c, vl_pyeq a b = true -> vl_pyeq b c = true -> vl_pyeq a c = true.
Proof.
  induction a as [|x a IH]; destruct b as [|y b], c as [|z c]; cbn; intros H1 H2; try discriminate; try reflexivity.
  apply andb_true_iff in H1 as [H1 H1'], H2 as [H2 H2'].
  apply andb_true_iff; split; [eapply py_eq_trans|eapply IH]; eassumption.
Qed.

(** reflexive exactly on the lists without a NaN-like object *)
Lemma vl_pyeq_refl_iff : forall a, vl_pyeq a a = true <-> existsb is_nan a = false.
Proof.
  induction a as [|x a IH]; cbn; [tauto|].
  rewrite andb_true_iff, orb_false_iff, py_eq_refl_iff, IH. tauto.
Qed.

(** ** Field lists *)

Lemma vset_length : forall l n v, length (vset l n v) = length l.
Proof. induction l as [|x l IH]; intros [|n] v; cbn; auto. Qed.

Lemma apply_kw_length : forall kw f, length (apply_kw f kw) = length f.
Proof.
  unfold apply_kw. induction kw as [|[k v] r IH]; intros f; cbn [fold_left fst snd]; [reflexivity|].
  rewrite IH, vset_length. reflexivity.
Qed.

Lemma nth_vset : forall l k v j d,
  nth j (vset l k v) d = if Nat.eqb k j && (k <? length l) then v else nth j l d.
Proof.
  induction l as [|x l IH]; intros k v j d.
  - cbn [vset length]. destruct k; cbn [vset]; rewrite andb_comm; reflexivity.
  - destruct k as [|k]; cbn [vset length].
    + destruct j as [|j]; cbn [nth]; reflexivity.
    + destruct j as [|j]; cbn [nth]; [reflexivity|].
      rewrite IH. change (S k =? S j) with (k =? j). change (S k <? S (length l)) with (k <? length l).
      reflexivity.
Qed.

Lemma has_unknown_known : forall nf kw, has_unknown nf kw = negb (all_known nf kw).
Proof.
  intros nf kw; unfold has_unknown, all_known. induction kw as [|[k v] r IH]; cbn [existsb forallb fst]; [reflexivity|].
  rewrite IH, negb_andb. f_equal. rewrite Nat.ltb_antisym, negb_involutive. reflexivity.
Qed.

Lemma all_known_cons : forall nf k v r,
  all_known nf ((k, v) :: r) = (k <? nf) && all_known nf r.
Proof. reflexivity. Qed.

(** after [d.update(kw)] every field holds the last value given for it, else the old one *)
Lemma nth_apply_kw : forall kw f j d,
  all_known (length f) kw = true ->
  nth j (apply_kw f kw) d = match kw_last j kw with Some v => v | None => nth j f d end.
Proof.
  unfold apply_kw. induction kw as [|[k v] r IH]; intros f j d Hk; cbn [fold_left kw_last fst snd]; [reflexivity|].
  rewrite all_known_cons in Hk. apply andb_true_iff in Hk as [Hk Hr].
  rewrite IH by (rewrite vset_length; exact Hr).
  destruct (kw_last j r); [reflexivity|].
  rewrite nth_vset, Hk, andb_true_r. destruct (k =? j); reflexivity.
Qed.

Lemma fields_by_rule_length : forall nf base kw, length (fields_by_rule nf base kw) = nf.
Proof. intros; unfold fields_by_rule; rewrite map_length, seq_length; reflexivity. Qed.

Lemma nth_fields_by_rule : forall nf base kw j d,
  j < nf ->
  nth j (fields_by_rule nf base kw) d = match kw_last j kw with Some v => v | None => base j end.
Proof.
  intros nf base kw j d Hj. unfold fields_by_rule.
  rewrite (nth_indep _ d (match kw_last 0 kw with Some v => v | None => base 0 end))
    by (rewrite map_length, seq_length; exact Hj).
  rewrite (map_nth (fun j => match kw_last j kw with Some v => v | None => base j end) (seq 0 nf) 0 j).
  rewrite seq_nth by exact Hj. reflexivity.
Qed.

Lemma apply_kw_rule : forall f kw,
  all_known (length f) kw = true ->
  apply_kw f kw = fields_by_rule (length f) (fun j => nth j f VNone) kw.
Proof.
  intros f kw Hk. apply (nth_ext _ _ VNone VNone).
  - rewrite apply_kw_length, fields_by_rule_length. reflexivity.
  - intros j Hj. rewrite apply_kw_length in Hj.
    rewrite nth_apply_kw by exact Hk. rewrite nth_fields_by_rule by exact Hj. reflexivity.
Qed.

Lemma fields_by_rule_ext : forall nf b1 b2 kw,
  (forall j, j < nf -> b1 j = b2 j) -> fields_by_rule nf b1 kw = fields_by_rule nf b2 kw.
Proof.
  intros nf b1 b2 kw H. unfold fields_by_rule. apply map_ext_in. intros j Hj.
  apply in_seq in Hj. rewrite H by lia. reflexivity.
Qed.

(** positional values: [dict(zip(_FIELDS, values))] merged over the defaults *)
Lemma apply_positional : forall pos pre l,
  length pos <= length l ->
  apply_kw (pre ++ l) (combine (seq (length pre) (length pos)) pos) =
  pre ++ pos ++ skipn (length pos) l.
Proof.
  unfold apply_kw. induction pos as [|p ps IH]; intros pre l Hl; cbn [length seq combine fold_left fst snd skipn app].
  - reflexivity.
  - destruct l as [|x l]; [cbn in Hl; lia|]. cbn [length] in Hl.
    assert (Hs : vset (pre ++ x :: l) (length pre) p = (pre ++ [p]) ++ l).
    { clear. induction pre as [|y pre IH]; cbn [app length vset]; [reflexivity|]. rewrite IH. reflexivity. }
    rewrite Hs.
    replace (S (length pre)) with (length (pre ++ [p])) by (rewrite app_length; cbn; lia).
    rewrite IH by lia. rewrite <- app_assoc. reflexivity.
Qed.

Lemma nth_skipn_add : forall (l : list val) n i d, nth i (skipn n l) d = nth (n + i) l d.
Proof.
  induction l as [|x l IH]; intros [|n] i d; cbn [skipn nth plus]; try reflexivity.
  - destruct i; reflexivity.
  - apply IH.
Qed.

Lemma nth_positional : forall dfl pos j d,
  length pos <= length dfl ->
  nth j (apply_kw dfl (combine (seq 0 (length pos)) pos)) d =
  if j <? length pos then nth j pos d else nth j dfl d.
Proof.
  intros dfl pos j d Hl.
  pose proof (apply_positional pos [] dfl Hl) as E. cbn [app length] in E. rewrite E.
  destruct (j <? length pos) eqn:Hj.
  - apply Nat.ltb_lt in Hj. apply app_nth1; exact Hj.
  - apply Nat.ltb_ge in Hj. rewrite app_nth2 by exact Hj. rewrite nth_skipn_add.
    f_equal. lia.
Qed.

(** ** The constructor and [update] ARE the field-by-field rule, for all values *)

Lemma nctor_is_rule : forall dfl pos kw, nctor dfl pos kw = spec_nctor dfl pos kw.
Proof.
  intros dfl pos kw. unfold nctor, spec_nctor.
  destruct (length dfl <? length pos) eqn:Hn; [reflexivity|].
  apply Nat.ltb_ge in Hn.
  rewrite has_unknown_known. destruct (all_known (length dfl) kw) eqn:Hk; cbn [negb]; [|reflexivity].
  assert (He : existsb (fun p : nat * val => fst p <? length pos) kw =
               negb (forallb (fun p : nat * val => length pos <=? fst p) kw)).
  { clear. induction kw as [|[k v] r IH]; cbn [existsb forallb fst]; [reflexivity|].
    rewrite IH, negb_andb. f_equal. rewrite Nat.ltb_antisym. reflexivity. }
  rewrite He. destruct (forallb (fun p : nat * val => length pos <=? fst p) kw); cbn [negb]; [|reflexivity].
  f_equal.
  rewrite apply_kw_rule by (rewrite apply_kw_length; exact Hk).
  rewrite apply_kw_length. apply fields_by_rule_ext. intros j Hj.
  apply nth_positional; exact Hn.
Qed.

Lemma nupdate_is_rule : forall nf f kw,
  length f = nf ->
  match nupdate nf f kw with
  | NErr e => spec_nupdate nf f kw = NErr e
  | NOk None => kw = [] /\ spec_nupdate nf f kw = NOk f
  | NOk (Some f') => kw <> [] /\ spec_nupdate nf f kw = NOk f'
  end.
Proof.
  intros nf f kw Hl. unfold nupdate, spec_nupdate.
  destruct kw as [|p r].
  - split; [reflexivity|]. cbn [all_known forallb negb]. f_equal.
    subst nf. apply (nth_ext _ _ VNone VNone).
    + apply fields_by_rule_length.
    + intros j Hj. rewrite fields_by_rule_length in Hj. rewrite nth_fields_by_rule by exact Hj. reflexivity.
  - rewrite has_unknown_known. destruct (all_known nf (p :: r)) eqn:Hk; cbn [negb]; [|reflexivity].
    split; [discriminate|]. f_equal. subst nf. symmetry. apply apply_kw_rule. exact Hk.
Qed.

(** ** Unknown field names are rejected — whatever the value, whatever else is passed *)

Lemma has_unknown_mid : forall nf kw1 j v kw2,
  nf <= j -> has_unknown nf (kw1 ++ (j, v) :: kw2) = true.
Proof.
  intros nf kw1 j v kw2 Hj. unfold has_unknown. rewrite existsb_app. cbn [existsb fst].
  apply Nat.leb_le in Hj. rewrite Hj. rewrite orb_true_l, orb_true_r. reflexivity.
Qed.

Lemma update_rejects_unknown : forall nf f kw1 j v kw2,
  nf <= j -> nupdate nf f (kw1 ++ (j, v) :: kw2) = NErr NEUnknown.
Proof.
  intros nf f kw1 j v kw2 Hj. unfold nupdate.
  rewrite (has_unknown_mid nf kw1 j v kw2 Hj).
  destruct (kw1 ++ (j, v) :: kw2) eqn:E; [destruct kw1; discriminate|reflexivity].
Qed.

(** every split between positional and keyword arguments: rejected, with
    [UnknownArgsFieldError] unless there are also more positional values than fields *)
Lemma ctor_rejects_unknown : forall dfl pos kw1 j v kw2,
  length dfl <= j ->
  nctor dfl pos (kw1 ++ (j, v) :: kw2) =
  NErr (if length dfl <? length pos then NEType else NEUnknown).
Proof.
  intros dfl pos kw1 j v kw2 Hj. unfold nctor.
  destruct (length dfl <? length pos); [reflexivity|].
  rewrite (has_unknown_mid _ kw1 j v kw2 Hj). reflexivity.
Qed.

Lemma update_accepts_iff : forall nf f kw,
  (exists r, nupdate nf f kw = NOk r) <-> (forall j v, In (j, v) kw -> j < nf).
Proof.
  intros nf f kw. unfold nupdate. split.
  - intros [r H] j v Hin. destruct kw as [|p q]; [destruct Hin|].
    destruct (has_unknown nf (p :: q)) eqn:Hu; [discriminate|].
    unfold has_unknown in Hu.
    destruct (Nat.lt_ge_cases j nf) as [Hlt|Hge]; [exact Hlt|].
    assert (existsb (fun p0 : nat * val => nf <=? fst p0) (p :: q) = true).
    { apply existsb_exists. exists (j, v). split; [exact Hin|]. apply Nat.leb_le; exact Hge. }
    congruence.
  - intros H. destruct kw as [|p q]; [eexists; reflexivity|].
    destruct (has_unknown nf (p :: q)) eqn:Hu; [|eexists; reflexivity].
    unfold has_unknown in Hu. apply existsb_exists in Hu as [[j v] [Hin Hj]].
    apply Nat.leb_le in Hj. cbn [fst] in Hj. specialize (H j v Hin). lia.
Qed.

(** ** Known fields take the value given for them, whatever it is *)

Lemma kw_last_in : forall kw j v,
  NoDup (map fst kw) -> In (j, v) kw -> kw_last j kw = Some v.
Proof.
  induction kw as [|[k w] r IH]; intros j v Hnd Hin; [destruct Hin|].
  cbn [map fst] in Hnd. inversion Hnd as [|? ? Hnot Hnd']; subst.
  cbn [kw_last]. destruct Hin as [Heq|Hin].
  - inversion Heq; subst.
    assert (Hn : kw_last j r = None).
    { clear - Hnot. induction r as [|[k w] r IH]; [reflexivity|]. cbn [kw_last].
      cbn [map fst] in Hnot.
      rewrite IH by (intros H; apply Hnot; right; exact H).
      destruct (k =? j) eqn:E; [|reflexivity]. apply Nat.eqb_eq in E. subst. exfalso; apply Hnot; left; reflexivity. }
    rewrite Hn, Nat.eqb_refl. reflexivity.
  - rewrite (IH j v Hnd' Hin). reflexivity.
Qed.

Lemma kw_last_none : forall kw j, ~ In j (map fst kw) -> kw_last j kw = None.
Proof.
  induction kw as [|[k w] r IH]; intros j Hn; [reflexivity|]. cbn [kw_last]. cbn [map fst] in Hn.
  rewrite IH by (intros H; apply Hn; right; exact H).
  destruct (k =? j) eqn:E; [|reflexivity]. apply Nat.eqb_eq in E. subst. exfalso; apply Hn; left; reflexivity.
Qed.

Lemma all_known_in : forall nf kw j v, all_known nf kw = true -> In (j, v) kw -> j < nf.
Proof.
  intros nf kw j v H Hin. unfold all_known in H. rewrite forallb_forall in H.
  specialize (H _ Hin). apply Nat.ltb_lt in H. exact H.
Qed.

Lemma update_takes_values : forall nf f kw f',
  length f = nf -> nupdate nf f kw = NOk (Some f') -> NoDup (map fst kw) ->
  length f' = nf /\
  (forall j v, In (j, v) kw -> nth_error f' j = Some v) /\
  (forall j, ~ In j (map fst kw) -> nth_error f' j = nth_error f j).
Proof.
  intros nf f kw f' Hl H Hnd.
  pose proof (nupdate_is_rule nf f kw Hl) as R. rewrite H in R. destruct R as [_ R].
  unfold spec_nupdate in R. destruct (all_known nf kw) eqn:Hk; cbn [negb] in R; [|discriminate].
  inversion R as [R']. clear R. split; [apply fields_by_rule_length|]. split.
  - intros j v Hin. pose proof (all_known_in _ _ _ _ Hk Hin) as Hj.
    rewrite (nth_error_nth' _ VNone) by (rewrite fields_by_rule_length; exact Hj).
    rewrite nth_fields_by_rule by exact Hj. rewrite (kw_last_in _ _ _ Hnd Hin). reflexivity.
  - intros j Hn. destruct (Nat.lt_ge_cases j nf) as [Hj|Hj].
    + rewrite (nth_error_nth' _ VNone) by (rewrite fields_by_rule_length; exact Hj).
      rewrite nth_fields_by_rule by exact Hj. rewrite (kw_last_none _ _ Hn).
      symmetry. apply nth_error_nth'. lia.
    + assert (nth_error f j = None) as -> by (apply nth_error_None; lia).
      apply nth_error_None. rewrite fields_by_rule_length. exact Hj.
Qed.

Lemma ctor_takes_values : forall dfl pos kw f,
  nctor dfl pos kw = NOk f -> NoDup (map fst kw) ->
  length f = length dfl /\
  (forall j v, In (j, v) kw -> nth_error f j = Some v) /\
  (forall j, j < length pos -> nth_error f j = nth_error pos j) /\
  (forall j, length pos <= j -> ~ In j (map fst kw) -> nth_error f j = nth_error dfl j).
Proof.
  intros dfl pos kw f H Hnd. rewrite nctor_is_rule in H. unfold spec_nctor in H.
  destruct (length dfl <? length pos) eqn:Hn; [discriminate|]. apply Nat.ltb_ge in Hn.
  destruct (all_known (length dfl) kw) eqn:Hk; cbn [negb] in H; [|discriminate].
  destruct (forallb (fun p : nat * val => length pos <=? fst p) kw) eqn:Hm; cbn [negb] in H; [|discriminate].
  inversion H as [H']. clear H.
  split; [apply fields_by_rule_length|]. split; [|split].
  - intros j v Hin. pose proof (all_known_in _ _ _ _ Hk Hin) as Hj.
    rewrite (nth_error_nth' _ VNone) by (rewrite fields_by_rule_length; exact Hj).
    rewrite nth_fields_by_rule by exact Hj. rewrite (kw_last_in _ _ _ Hnd Hin). reflexivity.
  - intros j Hj.
    rewrite (nth_error_nth' _ VNone) by (rewrite fields_by_rule_length; lia).
    rewrite nth_fields_by_rule by lia.
    assert (Hnone : kw_last j kw = None).
    { apply kw_last_none. intros Hin. apply in_map_iff in Hin as [[k w] [E Hin]]. cbn [fst] in E. subst k.
      rewrite forallb_forall in Hm. specialize (Hm _ Hin). apply Nat.leb_le in Hm. cbn [fst] in Hm. lia. }
    rewrite Hnone. apply Nat.ltb_lt in Hj. rewrite Hj. apply Nat.ltb_lt in Hj.
    symmetry. apply nth_error_nth'. exact Hj.
  - intros j Hj Hnot. destruct (Nat.lt_ge_cases j (length dfl)) as [Hlt|Hge].
    + rewrite (nth_error_nth' _ VNone) by (rewrite fields_by_rule_length; exact Hlt).
      rewrite nth_fields_by_rule by exact Hlt. rewrite (kw_last_none _ _ Hnot).
      apply Nat.ltb_ge in Hj. rewrite Hj. symmetry. apply nth_error_nth'. exact Hlt.
    + assert (nth_error dfl j = None) as -> by (apply nth_error_None; lia).
      apply nth_error_None. rewrite fields_by_rule_length. exact Hge.
Qed.

(** ** Programs: heap invariant, monotonicity, refinement of the rule *)

Definition WFn (cl : list (list val)) (h : list nobj) : Prop :=
  forall i c f, nth_error h i = Some (c, f) -> c < length cl /\ length f = nfields cl c.

Definition nagree (h : list nobj) (r : nres rv) (s : nres sv) : Prop :=
  match r, s with
  | NOk (RObj i), NOk (SObj c f) => nth_error h i = Some (c, f)
  | NOk (RVal v), NOk (SVal w) => v = w
  | NErr e, NErr e' => e = e'
  | _, _ => False
  end.

Lemma nagree_ext : forall h t r s, nagree h r s -> nagree (h ++ t) r s.
Proof.
  intros h t [[i|v]|e] [[c f|w]|e']; cbn; auto.
  intros H. rewrite nth_error_app1; [exact H|]. apply nth_error_Some. congruence.
Qed.

Lemma Forall2_nagree_ext : forall h t env senv,
  Forall2 (nagree h) env senv -> Forall2 (nagree (h ++ t)) env senv.
Proof.
  intros h t env senv H. induction H; constructor; [apply nagree_ext; assumption|assumption].
Qed.

Lemma WFn_snoc : forall cl h c f,
  WFn cl h -> c < length cl -> length f = nfields cl c -> WFn cl (h ++ [(c, f)]).
Proof.
  intros cl h c f H Hc Hf i c' f' Hi.
  destruct (Nat.lt_ge_cases i (length h)) as [Hlt|Hge].
  - rewrite nth_error_app1 in Hi by exact Hlt. eapply H; exact Hi.
  - rewrite nth_error_app2 in Hi by exact Hge.
    destruct (i - length h) as [|n]; cbn in Hi; [|destruct n; discriminate].
    inversion Hi; subst. split; assumption.
Qed.

Lemma nlookup_agree : forall h env senv x,
  Forall2 (nagree h) env senv ->
  match nlookup h env x with
  | Some (i, (c, f)) => nth_error senv x = Some (NOk (SObj c f)) /\ nth_error h i = Some (c, f)
  | None => match nth_error senv x with Some (NOk (SObj _ _)) => False | _ => True end
  end.
Proof.
  intros h env senv x H. unfold nlookup. revert x.
  induction H as [|r s env senv Hrs H IH]; intros x.
  - destruct x; cbn; exact I.
  - destruct x as [|x]; cbn [nth_error]; [|apply IH].
    destruct r as [[i|v]|e], s as [[c f|w]|e']; cbn in Hrs; try contradiction; try exact I.
    rewrite Hrs. split; [reflexivity|exact Hrs].
Qed.

Lemma do_update_refines : forall cl h i c f kw,
  WFn cl h -> nth_error h i = Some (c, f) ->
  let hr := do_update cl h i c f kw in
  nagree (fst hr) (snd hr)
         (match spec_nupdate (nfields cl c) f kw with NOk f' => NOk (SObj c f') | NErr e => NErr e end) /\
  WFn cl (fst hr) /\ (exists t, fst hr = h ++ t) /\ (forall e, snd hr = NErr e -> fst hr = h).
Proof.
  intros cl h i c f kw Hwf Hi. destruct (Hwf _ _ _ Hi) as [Hc Hl].
  unfold do_update. pose proof (nupdate_is_rule (nfields cl c) f kw Hl) as R.
  destruct (nupdate (nfields cl c) f kw) as [[f'|]|e]; cbn [fst snd].
  - destruct R as [_ R]. rewrite R. cbn [nagree].
    assert (Hl' : length f' = nfields cl c).
    { unfold spec_nupdate in R. destruct (negb (all_known (nfields cl c) kw)); [discriminate|].
      inversion R. apply fields_by_rule_length. }
    split; [|split; [|split]].
    + rewrite nth_error_app2 by lia. rewrite Nat.sub_diag. reflexivity.
    + apply WFn_snoc; assumption.
    + eexists; reflexivity.
    + intros e He; discriminate.
  - destruct R as [_ R]. rewrite R. cbn [nagree].
    split; [exact Hi|]. split; [exact Hwf|]. split; [exists []; rewrite app_nil_r; reflexivity|reflexivity].
  - rewrite R. cbn [nagree]. split; [reflexivity|]. split; [exact Hwf|].
    split; [exists []; rewrite app_nil_r; reflexivity|reflexivity].
Qed.

(** every operation: the result denotes what the rule says, existing instances are kept
    (the heap only grows) and a rejected call changes nothing *)
Lemma nstep_refines : forall cl h env senv o,
  WFn cl h -> Forall2 (nagree h) env senv ->
  let hr := nstep_op cl h env o in
  nagree (fst hr) (snd hr) (spec_nop cl senv o) /\
  WFn cl (fst hr) /\ (exists t, fst hr = h ++ t) /\ (forall e, snd hr = NErr e -> fst hr = h).
Proof.
  intros cl h env senv o Hwf Hag.
  assert (Triv : forall e, nagree h (NErr e) (NErr e) /\ WFn cl h /\ (exists t, h = h ++ t) /\
                           (forall e', @NErr rv e = NErr e' -> h = h)).
  { intros e. split; [reflexivity|]. split; [exact Hwf|]. split; [exists []; rewrite app_nil_r; reflexivity|reflexivity]. }
  destruct o as [c pos kw|x kw|x m kw|x j]; cbn [nstep_op spec_nop].
  - destruct (nth_error cl c) as [dfl|] eqn:Hc; [|apply Triv].
    rewrite <- nctor_is_rule.
    destruct (nctor dfl pos kw) as [f|e] eqn:Hn; [|apply Triv]. cbn [fst snd nagree].
    assert (Hl : length f = nfields cl c).
    { rewrite nctor_is_rule in Hn. unfold spec_nctor in Hn.
      destruct (length dfl <? length pos); [discriminate|].
      destruct (negb (all_known (length dfl) kw)); [discriminate|].
      destruct (negb (forallb (fun p : nat * val => length pos <=? fst p) kw)); [discriminate|].
      inversion Hn. rewrite fields_by_rule_length. unfold nfields.
      rewrite (nth_error_nth _ _ [] Hc). reflexivity. }
    split; [|split; [|split]].
    + rewrite nth_error_app2 by lia. rewrite Nat.sub_diag. reflexivity.
    + apply WFn_snoc; [exact Hwf| |exact Hl]. apply nth_error_Some. congruence.
    + eexists; reflexivity.
    + intros e He; discriminate.
  - pose proof (nlookup_agree h env senv x Hag) as L.
    destruct (nlookup h env x) as [[i [c f]]|].
    + destruct L as [Ls Lh]. rewrite Ls. apply do_update_refines; assumption.
    + destruct (nth_error senv x) as [[[c f|w]|e]|]; try contradiction; apply Triv.
  - pose proof (nlookup_agree h env senv x Hag) as L.
    destruct (nlookup h env x) as [[i [c f]]|].
    + destruct L as [Ls Lh]. rewrite Ls.
      destruct (length cl <=? m); [apply Triv|].
      rewrite Nat.ltb_antisym. destruct (c <=? m); cbn [negb]; [|apply Triv].
      apply do_update_refines; assumption.
    + destruct (nth_error senv x) as [[[c f|w]|e]|]; try contradiction; apply Triv.
  - pose proof (nlookup_agree h env senv x Hag) as L.
    destruct (nlookup h env x) as [[i [c f]]|].
    + destruct L as [Ls Lh]. rewrite Ls.
      destruct (j <? nfields cl c); [|apply Triv]. cbn [fst snd nagree].
      split; [reflexivity|]. split; [exact Hwf|]. split; [exists []; rewrite app_nil_r; reflexivity|reflexivity].
    + destruct (nth_error senv x) as [[[c f|w]|e]|]; try contradiction; apply Triv.
Qed.

Lemma nth_error_heap_of : forall cl s i,
  i < length cl -> nth_error (heap_of s cl) i = Some (s + i, nth i cl []).
Proof.
  induction cl as [|d r IH]; intros s i Hi; [cbn in Hi; lia|].
  destruct i as [|i]; cbn [heap_of nth_error nth].
  - rewrite Nat.add_0_r. reflexivity.
  - rewrite IH by (cbn in Hi; lia). f_equal. f_equal. lia.
Qed.

Lemma heap_of_length : forall cl s, length (heap_of s cl) = length cl.
Proof. induction cl as [|d r IH]; intros s; cbn; [reflexivity|rewrite IH; reflexivity]. Qed.

Lemma WFn_heap0 : forall cl, WFn cl (heap_of 0 cl).
Proof.
  intros cl i c f Hi.
  assert (Hlt : i < length cl).
  { rewrite <- (heap_of_length cl 0). apply nth_error_Some. congruence. }
  rewrite nth_error_heap_of in Hi by exact Hlt. inversion Hi; subst. cbn.
  split; [exact Hlt|reflexivity].
Qed.

Lemma agree_state0 : forall cl, Forall2 (nagree (heap_of 0 cl)) (snd (nstate0 cl)) (senv0 cl).
Proof.
  intros cl. unfold nstate0, senv0. cbn [snd].
  assert (G : forall l, (forall c, In c l -> c < length cl) ->
                        Forall2 (nagree (heap_of 0 cl)) (map (fun i => NOk (RObj i)) l)
                                (map (fun c => NOk (SObj c (nth c cl []))) l)).
  { induction l as [|c l IH]; intros H; cbn [map]; constructor.
    - cbn [nagree]. rewrite nth_error_heap_of by (apply H; left; reflexivity). reflexivity.
    - apply IH. intros c' Hc'. apply H; right; exact Hc'. }
  apply G. intros c Hc. apply in_seq in Hc. lia.
Qed.

Lemma nrun_from_refines : forall cl p h env senv,
  WFn cl h -> Forall2 (nagree h) env senv ->
  let s := nrun_from cl (h, env) p in
  WFn cl (fst s) /\ Forall2 (nagree (fst s)) (snd s) (spec_nrun_from cl senv p) /\
  exists t, fst s = h ++ t.
Proof.
  induction p as [|o p IH]; intros h env senv Hwf Hag.
  - cbn. split; [exact Hwf|]. split; [exact Hag|]. exists []; rewrite app_nil_r; reflexivity.
  - pose proof (nstep_refines cl h env senv o Hwf Hag) as R. cbn zeta in R.
    destruct (nstep_op cl h env o) as [h' r] eqn:E. cbn [fst snd] in R.
    assert (Es : nstep cl (h, env) o = (h', env ++ [r])).
    { unfold nstep. cbn [fst snd]. rewrite E. reflexivity. }
    destruct R as [Ra [Rw [[t Rt] _]]].
    assert (Hag' : Forall2 (nagree h') (env ++ [r]) (senv ++ [spec_nop cl senv o])).
    { apply Forall2_app; [|constructor; [exact Ra|constructor]].
      subst h'. apply Forall2_nagree_ext; exact Hag. }
    specialize (IH h' (env ++ [r]) (senv ++ [spec_nop cl senv o]) Rw Hag').
    cbn zeta in IH.
    change (nrun_from cl (h, env) (o :: p)) with (nrun_from cl (nstep cl (h, env) o) p).
    change (spec_nrun_from cl senv (o :: p)) with (spec_nrun_from cl (senv ++ [spec_nop cl senv o]) p).
    rewrite Es.
    destruct IH as [I1 [I2 [t' I3]]]. split; [exact I1|]. split; [exact I2|].
    exists (t ++ t'). rewrite I3, Rt, app_assoc. reflexivity.
Qed.

(** operation SEQUENCES obey the rule; the heap is well formed *)
Lemma nrun_refines : forall cl p,
  WFn cl (fst (nrun cl p)) /\
  Forall2 (nagree (fst (nrun cl p))) (snd (nrun cl p)) (spec_nrun cl p).
Proof.
  intros cl p. unfold nrun, spec_nrun.
  pose proof (nrun_from_refines cl p (heap_of 0 cl) (snd (nstate0 cl)) (senv0 cl)
                                (WFn_heap0 cl) (agree_state0 cl)) as R.
  cbn zeta in R. destruct R as [R1 [R2 _]]. split; [exact R1|exact R2].
Qed.

(** no program alters a live instance, the shared default instances included *)
Lemma nrun_heap_monotone : forall cl p q i o,
  nth_error (fst (nrun cl p)) i = Some o -> nth_error (fst (nrun cl (p ++ q))) i = Some o.
Proof.
  intros cl p q i o H. unfold nrun, nrun_from in *. rewrite fold_left_app.
  pose proof (nrun_refines cl p) as [Hw Ha]. unfold nrun, nrun_from in Hw, Ha.
  destruct (fold_left (nstep cl) p (nstate0 cl)) as [h env] eqn:E. cbn [fst snd] in *.
  pose proof (nrun_from_refines cl q h env (spec_nrun cl p) Hw) as R.
  specialize (R Ha). cbn zeta in R. destruct R as [_ [_ [t Rt]]].
  unfold nrun_from in Rt. rewrite Rt. rewrite nth_error_app1; [exact H|].
  apply nth_error_Some. congruence.
Qed.

Lemma defaults_never_altered : forall cl p c,
  c < length cl -> nth_error (fst (nrun cl p)) c = Some (c, nth c cl []).
Proof.
  intros cl p c Hc.
  apply (nrun_heap_monotone cl [] p c). cbn. apply (nth_error_heap_of cl 0 c Hc).
Qed.

(** the unknown-field rule at the level of operations: with live operands, an unknown
    keyword — whatever its value, wherever it stands among the others — makes the
    operation fail with [UnknownArgsFieldError] and leaves the heap as it was *)
Lemma op_update_unknown : forall cl h env x i c f kw1 j v kw2,
  nlookup h env x = Some (i, (c, f)) -> nfields cl c <= j ->
  nstep_op cl h env (NUpdate x (kw1 ++ (j, v) :: kw2)) = (h, NErr NEUnknown).
Proof.
  intros. cbn [nstep_op]. rewrite H. unfold do_update. rewrite update_rejects_unknown by assumption. reflexivity.
Qed.

Lemma op_ra_update_unknown : forall cl h env x m i c f kw1 j v kw2,
  nlookup h env x = Some (i, (c, f)) -> c <= m < length cl -> nfields cl c <= j ->
  nstep_op cl h env (NRaUpdate x m (kw1 ++ (j, v) :: kw2)) = (h, NErr NEUnknown).
Proof.
  intros cl h env x m i c f kw1 j v kw2 H [H1 H2] Hj. cbn [nstep_op]. rewrite H.
  assert (E1 : (length cl <=? m) = false) by (apply Nat.leb_gt; exact H2).
  assert (E2 : (m <? c) = false) by (apply Nat.ltb_ge; exact H1).
  rewrite E1, E2. unfold do_update. rewrite update_rejects_unknown by assumption. reflexivity.
Qed.

Lemma op_ctor_unknown : forall cl h env c dfl pos kw1 j v kw2,
  nth_error cl c = Some dfl -> length dfl <= j ->
  nstep_op cl h env (NCtor c pos (kw1 ++ (j, v) :: kw2)) =
  (h, NErr (if length dfl <? length pos then NEType else NEUnknown)).
Proof.
  intros. cbn [nstep_op]. rewrite H. rewrite ctor_rejects_unknown by assumption. reflexivity.
Qed.

(** [RenderArgs.update(render_cls, fields...)] decides and computes exactly as
    [ArgsNamespace.update] on the namespace the set holds *)
Lemma ra_update_is_ns_update : forall cl h env x m i c f kw,
  nlookup h env x = Some (i, (c, f)) -> c <= m < length cl ->
  nstep_op cl h env (NRaUpdate x m kw) = nstep_op cl h env (NUpdate x kw).
Proof.
  intros cl h env x m i c f kw H [H1 H2]. cbn [nstep_op]. rewrite H.
  assert (E1 : (length cl <=? m) = false) by (apply Nat.leb_gt; exact H2).
  assert (E2 : (m <? c) = false) by (apply Nat.ltb_ge; exact H1).
  rewrite E1, E2. reflexivity.
Qed.

(** ** [==] and [hash] of namespace instances *)

Lemma nobj_eq_hash : forall h i j, nobj_eq h i j = true -> nobj_hash h i = nobj_hash h j.
Proof.
  intros h i j. unfold nobj_eq, nobj_hash.
  destruct (nth_error h i) as [[c f]|] eqn:Hi, (nth_error h j) as [[c' f']|] eqn:Hj; try discriminate.
  intros H. apply orb_true_iff in H as [H|H].
  - apply Nat.eqb_eq in H. subst j. rewrite Hi in Hj. inversion Hj; reflexivity.
  - apply andb_true_iff in H as [H1 H2]. apply Nat.eqb_eq in H1. subst c'.
    rewrite (vl_pyeq_hkey _ _ H2). reflexivity.
Qed.

Lemma nobj_eq_refl : forall (h : list nobj) i o, nth_error h i = Some o -> nobj_eq h i i = true.
Proof. intros h i [c f] H. unfold nobj_eq. rewrite H, Nat.eqb_refl. reflexivity. Qed.

Lemma nobj_eq_sym : forall h i j, nobj_eq h i j = nobj_eq h j i.
Proof.
  intros h i j. unfold nobj_eq.
  destruct (nth_error h i) as [[c f]|], (nth_error h j) as [[c' f']|]; try reflexivity.
  rewrite (Nat.eqb_sym i j), (Nat.eqb_sym c c'), vl_pyeq_sym. reflexivity.
Qed.

Lemma nobj_eq_trans : forall h i j k,
  nobj_eq h i j = true -> nobj_eq h j k = true -> nobj_eq h i k = true.
Proof.
  intros h i j k. unfold nobj_eq.
  destruct (nth_error h i) as [[c f]|] eqn:Hi, (nth_error h j) as [[c' f']|] eqn:Hj,
           (nth_error h k) as [[c'' f'']|] eqn:Hk; try discriminate.
  intros H1 H2. apply orb_true_iff in H1 as [H1|H1]; [apply Nat.eqb_eq in H1; subst j; rewrite Hi in Hj; inversion Hj; subst; exact H2|].
  apply orb_true_iff in H2 as [H2|H2]; [apply Nat.eqb_eq in H2; subst k; rewrite Hj in Hk; inversion Hk; subst; rewrite H1; apply orb_true_r|].
  apply andb_true_iff in H1 as [A1 B1], H2 as [A2 B2].
  apply Nat.eqb_eq in A1, A2. subst. rewrite Nat.eqb_refl, (vl_pyeq_trans _ _ _ B1 B2). apply orb_true_r.
Qed.

Lemma nobj_eq_equivalence :
  (forall (h : list nobj) i o, nth_error h i = Some o -> nobj_eq h i i = true) /\
  (forall h i j, nobj_eq h i j = nobj_eq h j i) /\
  (forall h i j k, nobj_eq h i j = true -> nobj_eq h j k = true -> nobj_eq h i k = true).
Proof. exact (conj nobj_eq_refl (conj nobj_eq_sym nobj_eq_trans)). Qed.

(** two DISTINCT instances are equal iff they are associated with the same class and
    have pairwise [==] field values *)
Lemma nobj_eq_distinct : forall (h : list nobj) i j c f c' f',
  nth_error h i = Some (c, f) -> nth_error h j = Some (c', f') -> i <> j ->
  nobj_eq h i j = sv_eq (SObj c f) (SObj c' f').
Proof.
  intros h i j c f c' f' Hi Hj Hn. unfold nobj_eq, sv_eq. rewrite Hi, Hj.
  apply Nat.eqb_neq in Hn. rewrite Hn. reflexivity.
Qed.

(** ** The integer-valued model is the restriction of this layer to [VInt] *)

Lemma vset_map : forall l n z, vset (map VInt l) n (VInt z) = map VInt (set_nth l n z).
Proof. induction l as [|x l IH]; intros [|n] z; cbn; try reflexivity. rewrite IH. reflexivity. Qed.

Lemma apply_kw_map : forall fields f,
  apply_kw (map VInt f) (kw_of_Z fields) =
  map VInt (fold_left (fun acc p => set_nth acc (fst p) (snd p)) fields f).
Proof.
  unfold apply_kw, kw_of_Z. induction fields as [|[k z] r IH]; intros f; cbn [map fold_left fst snd]; [reflexivity|].
  rewrite vset_map. apply IH.
Qed.

Lemma int_model_embeds : forall F c f fields,
  nupdate (length (dflt F c)) (map VInt f) (kw_of_Z fields) =
  match ns_update F c f fields with
  | Ok f' => NOk (match fields with [] => None | _ => Some (map VInt f') end)
  | Err _ => NErr NEUnknown
  end.
Proof.
  intros F c f fields. unfold nupdate, ns_update.
  destruct fields as [|p r]; [reflexivity|].
  change (kw_of_Z (p :: r)) with ((fst p, VInt (snd p)) :: kw_of_Z r).
  assert (E : has_unknown (length (dflt F c)) ((fst p, VInt (snd p)) :: kw_of_Z r) =
              existsb (fun p0 : nat * Z => length (dflt F c) <=? fst p0) (p :: r)).
  { change ((fst p, VInt (snd p)) :: kw_of_Z r) with (kw_of_Z (p :: r)).
    unfold has_unknown, kw_of_Z. generalize (p :: r). intros l.
    induction l as [|q l IH]; cbn [map existsb fst]; [reflexivity|]. rewrite IH. reflexivity. }
  rewrite E. destruct (existsb (fun p0 : nat * Z => length (dflt F c) <=? fst p0) (p :: r)); [reflexivity|].
  change ((fst p, VInt (snd p)) :: kw_of_Z r) with (kw_of_Z (p :: r)).
  rewrite apply_kw_map. reflexivity.
Qed.

(** ** Non-vacuity: a program over the whole universe *)

Example exN_cl : list (list val) := [[VNone; VInt 0; VStr 1]; [VBool false]].
Example exN : list nop :=
  [ NCtor 0 [VInt 5] [(2, VNone)];                 (* positional + keyword, None as a value *)
    NCtor 0 [VInt 5; VInt 6; VInt 7] [(3, VNone)]; (* full positional list + unknown=None *)
    NUpdate 2 [(1, VBool false); (0, VNan 0)];     (* falsy / NaN-like values are taken *)
    NUpdate 0 [(3, VNone)];                        (* unknown=None on the shared default *)
    NUpdate 0 [(0, VNone); (4, VNone)];            (* "unchanged" known + unknown *)
    NRaUpdate 2 1 [(1, VEmptyTuple)];
    NRaUpdate 2 1 [(0, VInt 1); (5, VEllipsis)];
    NCtor 1 [] [(0, VInt 0)];                      (* C1.Args(f0=0) == the default (False) *)
    NUpdate 4 [];
    NGet 4 0;
    NGet 4 3 ].

Example exN_runs :
  snd (nrun exN_cl exN) =
  [ NOk (RObj 0); NOk (RObj 1);
    NOk (RObj 2); NErr NEUnknown; NOk (RObj 3); NErr NEUnknown; NErr NEUnknown;
    NOk (RObj 4); NErr NEUnknown; NOk (RObj 5); NOk (RObj 3); NOk (RVal (VNan 0)); NErr NEUnknown ] /\
  fst (nrun exN_cl exN) =
  [ (0, [VNone; VInt 0; VStr 1]); (1, [VBool false]);
    (0, [VInt 5; VInt 0; VNone]); (0, [VNan 0; VBool false; VNone]);
    (0, [VInt 5; VEmptyTuple; VNone]); (1, [VInt 0]) ] /\
  nobj_eq (fst (nrun exN_cl exN)) 5 1 = true /\          (* 0 == False *)
  nobj_hash (fst (nrun exN_cl exN)) 5 = nobj_hash (fst (nrun exN_cl exN)) 1 /\
  nobj_eq (fst (nrun exN_cl exN)) 3 3 = true /\          (* identity, in spite of the NaN *)
  vl_pyeq [VNan 0] [VNan 0] = false.
Proof. vm_compute. repeat split. Qed.
