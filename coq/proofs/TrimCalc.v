(** * TrimCalc — the arithmetic of [_ti_calc_trim] and of the flow-widget sizing (C17) *)
From Coq Require Import List ZArith Bool Lia.
Import ListNotations.
From TI Require Import lib.Term model.Padding model.Trim.
Open Scope Z_scope.

(** For a canvas axis [size = pad1 + img + pad2] and a visible window [[t1, size - t2)]:
    every output of [calc_trim] is the length of an interval intersection, and the three
    visible parts partition the window. *)
Theorem calc_trim_spec size img t1 p1 t2 p2 :
  size = p1 + img + p2 -> 0 <= p1 -> 0 <= p2 -> 0 <= img -> 0 <= t1 -> 0 <= t2 -> t1 + t2 < size ->
  let '(np1, ti1, ti2, np2) := calc_trim size img t1 p1 t2 p2 in
  (* visible part of the side-1 padding: [t1, size - t2) /\ [0, p1) *)
  np1 = Z.max 0 (Z.min p1 (size - t2) - t1)
  (* image cells cut off at side 1: [0, t1) /\ [p1, p1 + img) *)
  /\ ti1 = Z.min img (Z.max 0 (t1 - p1))
  (* image cells cut off at side 2: [size - t2, size) /\ [p1, p1 + img) *)
  /\ ti2 = Z.min img (Z.max 0 (t2 - p2))
  (* visible part of the side-2 padding: [t1, size - t2) /\ [p1 + img, size) *)
  /\ np2 = Z.max 0 (size - t2 - Z.max t1 (p1 + img))
  (* visible part of the image: [t1, size - t2) /\ [p1, p1 + img) *)
  /\ img - ti1 - ti2 = Z.max 0 (Z.min (size - t2) (p1 + img) - Z.max t1 p1)
  (* partition *)
  /\ np1 + (img - ti1 - ti2) + np2 = size - t1 - t2
  /\ 0 <= np1 /\ 0 <= ti1 <= img /\ 0 <= ti2 <= img /\ 0 <= np2.
Proof.
  intros Hs H1 H2 H3 H4 H5 H6. unfold calc_trim. rewrite !Z.geb_leb.
  destruct (Z.leb_spec (size - p2) t1); [|destruct (Z.leb_spec p1 t1)];
    (destruct (Z.leb_spec (size - p1) t2); [|destruct (Z.leb_spec p2 t2)]);
    repeat split; lia.
Qed.

(** the paddings that [content] recomputes from the alignment are the ones
    [_format_render] used ([Padding.old_dims]) *)
Lemma align_pads_old_dims W H ha va w h :
  w <= W -> h <= H ->
  let '(l, t, r, b) := old_dims W H ha va w h in
  align_pads ha (W - w) = (l, r) /\ align_pads va (H - h) = (t, b).
Proof.
  intros Hw Hh. unfold old_dims, align_pads.
  destruct (Z.ltb_spec w W), (Z.ltb_spec h H);
    destruct ha as [|[|[|?]]], va as [|[|[|?]]]; cbn -[Z.div Z.sub];
    repeat match goal with |- context [?a - ?b] => replace (a - b) with 0 by lia end;
    split; reflexivity.
Qed.

Lemma align_pads_sum al p : 0 <= p ->
  let '(a, b) := align_pads al p in a + b = p /\ 0 <= a /\ 0 <= b.
Proof.
  intros Hp. unfold align_pads. destruct al as [|[|[|?]]]; try lia.
  all: pose proof (Z.div_pos p 2 Hp ltac:(lia)); pose proof (Z.div_le_upper_bound p 2 p ltac:(lia) ltac:(lia)); lia.
Qed.

(** ** flow widgets: the number of rows announced is the number of rows rendered *)
Theorem rows_agree maxcol upscale fit ori :
  rows upscale fit ori = snd (flow_canvas_size maxcol upscale fit ori).
Proof.
  unfold rows, flow_canvas_size, flow_image_size. cbn [snd].
  destruct upscale; [reflexivity|].
  destruct ((fst ori <=? fst fit) && (snd ori <=? snd fit)); reflexivity.
Qed.

(** the image never exceeds the canvas width ([fit = _valid_size(maxcol)] has width
    [maxcol], common.py:1825-1832) *)
Theorem flow_image_fits maxcol upscale fit ori :
  fst fit = maxcol ->
  fst (flow_image_size upscale fit ori) <= fst (flow_canvas_size maxcol upscale fit ori)
  /\ snd (flow_image_size upscale fit ori) = snd (flow_canvas_size maxcol upscale fit ori).
Proof.
  intros Hf. unfold flow_canvas_size, flow_image_size. cbn [fst snd].
  destruct upscale; [lia|].
  destruct (Z.leb_spec (fst ori) (fst fit)); cbn [andb]; [|lia].
  destruct (Z.leb_spec (snd ori) (snd fit)); lia.
Qed.

(** the same on natural numbers, in the form the list-slicing lemmas need: an axis made of
    [p] padding cells, [n] image cells, [q] padding cells; the window [[t, t + c)] *)
Lemma calc_trim_nat (p n q t c : nat) :
  (0 < c)%nat -> (t + c <= p + n + q)%nat ->
  calc_trim (Z.of_nat (p + n + q)) (Z.of_nat n) (Z.of_nat t) (Z.of_nat p)
            (Z.of_nat (p + n + q - t - c)) (Z.of_nat q)
  = (Z.of_nat (Nat.min c (p - t)),
     Z.of_nat (Nat.min n (t - p)),
     Z.of_nat (Nat.min n (p + n + q - t - c - q)),
     Z.of_nat (Nat.min (c - (p - t) - (n - (t - p))) (q - (t - p - n)))).
Proof.
  intros Hc Hfit. unfold calc_trim. rewrite !Z.geb_leb.
  destruct (Z.leb_spec (Z.of_nat (p + n + q) - Z.of_nat q) (Z.of_nat t));
    [|destruct (Z.leb_spec (Z.of_nat p) (Z.of_nat t))];
    (destruct (Z.leb_spec (Z.of_nat (p + n + q) - Z.of_nat p) (Z.of_nat (p + n + q - t - c)));
     [|destruct (Z.leb_spec (Z.of_nat q) (Z.of_nat (p + n + q - t - c)))]);
    repeat (f_equal; try lia).
Qed.
