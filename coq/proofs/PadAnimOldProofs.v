(** Proofs about [model/PadAnimOld.v] / [model/PadAnimOldTie.v] (C05 on animated draws of the
    image classes, per style / terminal identity).

    [old_animation_final_is_pad]: for every pre-animation step of the code ([pre_of]: none, or
    the placeholder with the cursor return [max(pad_height, rendered_height) - 1]), every
    clearing of the kitty style, every first frame and list of later frames, every minimum
    size and alignment, every screen the box fits and start row: nothing outside the box
    [max W' w x max H' h] is touched by ANY frame and the box finally shows, cell for cell,
    what [_format_render] (= [pad] with blanks and the margins of the alignment) of the LAST
    frame drawn alone from the start position shows (C06's [old_animate_final], read with the
    parameterised stream).  The two parameters discriminate:
    [unformatted_placeholder_return_refuted] (cursor return by the line count of the
    unformatted placeholder: same function when the vertical padding is not effective,
    refuted as soon as it is) and [zero_parameter_cursor_up_refuted] (the bare [CSI n A]
    template: same function on every box of two or more lines, refuted on a box of exactly
    one line, where [CSI 0 A] moves up one line). *)
From Coq Require Import List ZArith Bool Lia.
Import ListNotations.
From TI Require Import lib.Term lib.TermFacts lib.Rect lib.RectCheck lib.Lines lib.TermScroll
     model.Padding model.PadTie model.Draw model.DrawTie model.PadAnim model.PadAnimOld model.PadAnimOldTie
     proofs.PadProofs proofs.DrawLines proofs.DrawProofs proofs.DrawProofsOld proofs.DrawFinal
     proofs.PadAnimProofs.
Open Scope Z_scope.

(** the code is the instance [up = cursor_up], [k = max(pad_height, rendered_height) - 1] *)
Lemma old_anim_stream_by_code tty lines pre clear P1 Ps :
  old_anim_stream_by cuu tty lines pre clear P1 Ps = old_anim_stream tty lines pre clear P1 Ps.
Proof. reflexivity. Qed.

Lemma pre_of_code (wez : bool) W H ha va w h :
  pre_of (if wez then PrePlaceholder else PreNone) W H ha va w h
  = if wez then wez_pre W H ha va w h else [].
Proof.
  destruct wez; [|reflexivity].
  unfold pre_of, pre_by, wez_pre, old_frame. reflexivity.
Qed.

Theorem old_animation_final_is_pad :
  forall (W H lm W' H' : Z) (ha va : nat) (w h : Z) (oldk tty : bool) (s : pre_step)
         (ls1 : list (list tok)) (lss : list (list (list tok))) (t0 : term) (top0 : Z),
  0 <= lm -> lm + Z.max W' w <= W -> Z.max H' h <= H ->
  LinesRect all_cells w h ls1 -> (forall ln, In ln ls1 -> Downward ln) ->
  Forall (LinesRect all_cells w h) lss ->
  okat t0 (row t0) lm -> top0 <= row t0 < top0 + H ->
  DrawFinal W H lm top0 t0 tty (Z.max W' w) (Z.max H' h)
    (pad (Some GSpace) (old_dims W' H' ha va w h) w (joinlf (lastframe ls1 lss)))
    (old_anim_stream_by cuu tty (Z.max H' h) (pre_of s W' H' ha va w h) (kitty_clear oldk)
       (format_render W' H' ha va w h (joinlf ls1))
       (map (fun ls => format_render W' H' ha va w h (joinlf ls)) lss)).
Proof.
  intros W H lm W' H' ha va w h oldk tty s ls1 lss t0 top0 Hlm HW HH H1 HD HF Hok Htop.
  rewrite old_anim_stream_by_code.
  pose proof (old_animate_final W H lm W' H' ha va w h oldk
                (match s with PrePlaceholder => true | PreNone => false end) tty
                ls1 lss t0 top0 Hlm HW HH H1 HD HF Hok Htop) as T.
  cbv zeta in T. rewrite <- pre_of_code in T.
  destruct s; exact T.
Qed.

(** ** the excluded designs agree with the code away from the boundary *)

Lemma raw_cuu_agrees_above_one_line tty lines pre clear P1 Ps :
  2 <= lines ->
  old_anim_stream_by raw_cuu tty lines pre clear P1 Ps = old_anim_stream_by cuu tty lines pre clear P1 Ps.
Proof.
  intros Hl. unfold old_anim_stream_by, old_anim_body_by, old_frame_by, raw_cuu, cuu.
  replace (0 <? lines - 1) with true by (symmetry; apply Z.ltb_lt; lia). reflexivity.
Qed.

Lemma pre_unformatted_agrees_without_vertical_padding W H ha va w h :
  H <= h -> pre_unformatted W H ha va w h = pre_of PrePlaceholder W H ha va w h.
Proof.
  intros Hh. unfold pre_unformatted, pre_of. rewrite Z.max_r by lia. reflexivity.
Qed.

(** ** refutations *)

Lemma ex_downward g : forall ln, In ln [[TChar g]] -> Downward ln.
Proof. intros ln [<-|[]]. intros r c. cbn. rewrite Z.leb_refl. reflexivity. Qed.

(** one-cell frames [A], [B], minimum size 1 x 2, top alignment, iterm2 style on WezTerm
    ([mix] false): the placeholder is formatted to the two-line box; with the cursor taken back
    by the line count of the UNFORMATTED placeholder (0 lines) every frame is drawn from the
    box's second line and the padded frames reach one line below the box. *)
Theorem unformatted_placeholder_return_refuted :
  exists W' H' ha va ls1 lss,
    LinesRect all_cells 1 1 ls1 /\ Forall (LinesRect all_cells 1 1) lss /\ 1 < H'
    /\ DrawFinal 10 8 0 0 (pos 2 0) true (Z.max W' 1) (Z.max H' 1)
         (pad (Some GSpace) (old_dims W' H' ha va 1 1) 1 (joinlf (lastframe ls1 lss)))
         (old_anim_stream_by cuu true (Z.max H' 1) (pre_of PrePlaceholder W' H' ha va 1 1) []
            (format_render W' H' ha va 1 1 (joinlf ls1))
            (map (fun ls => format_render W' H' ha va 1 1 (joinlf ls)) lss))
    /\ ~ DrawFinal 10 8 0 0 (pos 2 0) true (Z.max W' 1) (Z.max H' 1)
         (pad (Some GSpace) (old_dims W' H' ha va 1 1) 1 (joinlf (lastframe ls1 lss)))
         (old_anim_stream_by cuu true (Z.max H' 1) (pre_unformatted W' H' ha va 1 1) []
            (format_render W' H' ha va 1 1 (joinlf ls1))
            (map (fun ls => format_render W' H' ha va 1 1 (joinlf ls)) lss)).
Proof.
  exists 1, 2, 0%nat, 0%nat, ex_A, [ex_B].
  split; [apply ex_frame_lr|]. split; [constructor; [apply ex_frame_lr|constructor]|].
  split; [lia|]. split.
  - apply (old_animation_final_is_pad 10 8 0 1 2 0 0 1 1 false true PrePlaceholder ex_A [ex_B] (pos 2 0) 0);
      try (cbn; lia).
    + apply ex_frame_lr.
    + apply ex_downward.
    + constructor; [apply ex_frame_lr|constructor].
    + apply okat_pos.
  - intros [_ _ _ _ _ _ Hbox _]. vm_compute in Hbox. discriminate.
Qed.

(** one-cell frames [A], [B], minimum size 1 x 1 (a padded box of exactly ONE line), any
    style: with the bare [CSI n A] template every frame is followed by [CSI 0 A], executed
    as "up one line": the second frame is drawn on the line ABOVE the box. *)
Theorem zero_parameter_cursor_up_refuted :
  exists W' H' ha va ls1 lss,
    LinesRect all_cells 1 1 ls1 /\ Forall (LinesRect all_cells 1 1) lss /\ Z.max H' 1 = 1
    /\ DrawFinal 10 8 0 0 (pos 2 0) true (Z.max W' 1) (Z.max H' 1)
         (pad (Some GSpace) (old_dims W' H' ha va 1 1) 1 (joinlf (lastframe ls1 lss)))
         (old_anim_stream_by cuu true (Z.max H' 1) [] []
            (format_render W' H' ha va 1 1 (joinlf ls1))
            (map (fun ls => format_render W' H' ha va 1 1 (joinlf ls)) lss))
    /\ ~ DrawFinal 10 8 0 0 (pos 2 0) true (Z.max W' 1) (Z.max H' 1)
         (pad (Some GSpace) (old_dims W' H' ha va 1 1) 1 (joinlf (lastframe ls1 lss)))
         (old_anim_stream_by raw_cuu true (Z.max H' 1) [] []
            (format_render W' H' ha va 1 1 (joinlf ls1))
            (map (fun ls => format_render W' H' ha va 1 1 (joinlf ls)) lss)).
Proof.
  exists 1, 1, 0%nat, 0%nat, ex_A, [ex_B].
  split; [apply ex_frame_lr|]. split; [constructor; [apply ex_frame_lr|constructor]|].
  split; [reflexivity|]. split.
  - apply (old_animation_final_is_pad 10 8 0 1 1 0 0 1 1 false true PreNone ex_A [ex_B] (pos 2 0) 0);
      try (cbn; lia).
    + apply ex_frame_lr.
    + apply ex_downward.
    + constructor; [apply ex_frame_lr|constructor].
    + apply okat_pos.
  - intros [_ _ _ _ _ _ Hbox _]. vm_compute in Hbox. discriminate.
Qed.

(** ** the tie *)
Theorem ocheck_zero_sound c :
  ocheck c = 0%nat ->
  omodel c = Some (o_obs c) /\ forallb (ooracle c) (o_rows c) = true /\ o_frames c <> [].
Proof.
  unfold ocheck. intros H.
  destruct (omodel c) as [st|]; [|destruct (forallb (ooracle c) (o_rows c) && _); discriminate].
  unfold toks_eqb in H. destruct (list_eq_dec tok_dec st (o_obs c)) as [E|]; [|destruct (forallb (ooracle c) (o_rows c) && _); discriminate].
  destruct (forallb (ooracle c) (o_rows c)) eqn:Eo; [|discriminate].
  destruct (o_frames c); [discriminate|]. subst st. repeat split; discriminate.
Qed.

(** the oracle accepts the modelled stream on a concrete two-frame animation with the
    placeholder step and effective padding on both axes (non-vacuity of the judge) *)
Example ocheck_accepts_model :
  let c0 := {| o_tw := 10; o_th := 8; o_rawW := 3; o_rawH := 3; o_ha := 1; o_va := 2; o_w := 1; o_h := 1;
               o_tty := true; o_pre := PrePlaceholder; o_oldk := false;
               o_frames := [[TChar (GOther 65)]; [TChar (GOther 66)]]; o_obs := []; o_rows := [0; 2] |} in
  match omodel c0 with
  | Some st => ocheck {| o_tw := 10; o_th := 8; o_rawW := 3; o_rawH := 3; o_ha := 1; o_va := 2; o_w := 1; o_h := 1;
               o_tty := true; o_pre := PrePlaceholder; o_oldk := false;
               o_frames := [[TChar (GOther 65)]; [TChar (GOther 66)]]; o_obs := st; o_rows := [0; 2] |} = 0%nat
  | None => False
  end.
Proof. vm_compute. reflexivity. Qed.
