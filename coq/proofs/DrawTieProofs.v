(** The executable forms used by the C06 correspondence ([model/DrawTie.v]) are sound:
    [final_ok] implies [DrawFinal]; [docb] / [old_docb] decide the documented rules. *)
From Coq Require Import List ZArith Bool Lia.
Import ListNotations.
From TI Require Import lib.Term lib.TermFacts lib.RectCheck lib.TermScroll lib.TermPlace lib.Lines
     model.Padding model.Draw model.DrawTie proofs.DrawLines proofs.DrawProofs.
Open Scope Z_scope.
Local Arguments Z.eqb : simpl never.
Local Arguments Z.ltb : simpl never.
Local Arguments Z.leb : simpl never.

Lemma attrs_eqb_eq a b : attrs_eqb a b = true -> a = b.
Proof.
  unfold attrs_eqb. destruct a as [f1 b1], b as [f2 b2]. cbn [fg bg].
  destruct (orgb_dec f1 f2); destruct (orgb_dec b1 b2); try discriminate. intros _. congruence.
Qed.

Lemma zrange_in a n x : a <= x < a + n -> In x (zrange a n).
Proof.
  intros Hx. unfold zrange. apply in_map_iff. exists (Z.to_nat (x - a)). split; [lia|].
  apply in_seq. lia.
Qed.

Lemma oev_eqb_eq a b : oev_eqb a b = true -> a = b.
Proof.
  destruct a, b; cbn; try discriminate; try reflexivity.
  destruct (ev_dec e e0); [congruence|discriminate].
Qed.

Theorem final_ok_sound kitty W H pw ph Ref St r0 hide :
  final_ok kitty W H pw ph Ref St r0 = true ->
  DrawFinal W H 0 0 (start r0 0) hide pw ph Ref St.
Proof.
  unfold final_ok, final_clauses. cbn [forallb]. intros Hf.
  apply andb_true_iff in Hf; destruct Hf as [C1 Hf].
  apply andb_true_iff in Hf; destruct Hf as [C2 Hf].
  apply andb_true_iff in Hf; destruct Hf as [C3 Hf].
  apply andb_true_iff in Hf; destruct Hf as [C4 Hf].
  apply andb_true_iff in Hf; destruct Hf as [C5 Hf].
  apply andb_true_iff in Hf; destruct Hf as [C6 Hf].
  apply andb_true_iff in Hf; destruct Hf as [C7 Hf].
  apply andb_true_iff in Hf; destruct Hf as [C8 Hf].
  apply andb_true_iff in C5. destruct C5 as [C5a C5b].
  constructor; cbn [row col visible start].
  - apply Z.eqb_eq, C1.
  - apply Z.eqb_eq, C2.
  - apply attrs_eqb_eq, C3.
  - rewrite C4. destruct hide; reflexivity.
  - split.
    + destruct (parser (exec 0 (start r0 0) St)); try discriminate. reflexivity.
    + destruct (pending (exec 0 (start r0 0) St)); try discriminate. reflexivity.
  - unfold oz_eqb in C6. destruct (srun W H 0 0 (start r0 0) St); [|discriminate].
    apply Z.eqb_eq in C6. rewrite C6. reflexivity.
  - exact C7.
  - intros r c Hr Hc. rewrite forallb_forall in C8.
    specialize (C8 (r - r0) (zrange_in 0 ph (r - r0) ltac:(lia))).
    rewrite forallb_forall in C8. specialize (C8 c (zrange_in 0 pw c ltac:(lia))).
    replace (r0 + (r - r0)) with r in C8 by lia. apply oev_eqb_eq, C8.
Qed.

Theorem docb_spec cs allow anim pw ph tw th :
  docb cs allow anim pw ph tw th = true <-> doc_fits cs allow anim pw ph tw th.
Proof.
  unfold docb, doc_fits.
  destruct (pw <=? tw) eqn:E1; destruct (ph <=? th) eqn:E2;
    rewrite ?Z.leb_le, ?Z.leb_gt in *;
    destruct cs, allow, anim; cbn [orb andb negb];
    intuition (try congruence; try lia; try (exfalso; lia)).
Qed.

Theorem old_docb_spec cs scroll anim dyn w h rawW rawH tw th :
  old_docb cs scroll anim dyn w h rawW rawH tw th = true
  <-> old_doc_fits cs scroll anim dyn w h rawW rawH tw th.
Proof.
  unfold old_docb, old_doc_fits.
  destruct (rawW <=? tw) eqn:E0; destruct (rawH <=? th) eqn:E3;
    destruct (w <=? tw) eqn:E1; destruct (h <=? th) eqn:E2;
    rewrite ?Z.leb_le, ?Z.leb_gt in *;
    destruct cs, scroll, anim, dyn; cbn [orb andb negb];
    intuition (try congruence; try lia; try (exfalso; lia)).
Qed.

Lemma pls_eqb_eq : forall a b, pls_eqb a b = true -> a = b.
Proof.
  induction a as [|x a IH]; intros [|y b] H; cbn in H; try discriminate; [reflexivity|].
  apply andb_true_iff in H. destruct H as [H1 H2]. rewrite (IH b H2). f_equal.
  unfold pl_eqb in H1. rewrite !andb_true_iff, !Z.eqb_eq in H1.
  destruct x, y; cbn in *. destruct H1 as ((((-> & ->) & ->) & ->) & ->). reflexivity.
Qed.

(** with the kitty flag the predicate also gives: the placements left on the screen are
    those of the reference *)
Theorem final_ok_live W H pw ph Ref St r0 :
  final_ok true W H pw ph Ref St r0 = true ->
  live (exec_evs 0 (start r0 0) St) = live (exec_evs 0 (start r0 0) Ref).
Proof.
  unfold final_ok, final_clauses. cbn [forallb]. intros Hf.
  do 8 (apply andb_true_iff in Hf; destruct Hf as [_ Hf]).
  apply andb_true_iff in Hf. destruct Hf as [C9 _]. apply pls_eqb_eq, C9.
Qed.
