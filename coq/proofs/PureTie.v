(** * PureTie (padding) — the functions TRANSLATED from the source on every run ([gen/Pure.v], by
    [harness/tx/tx_pure.py]) are, for ALL arguments, the model functions the property
    theorems are stated about.  For these functions the tie between model and code is
    therefore a theorem about what the source says now, not a sample of runs. *)
From Coq Require Import ZArith Bool Lia List.
From TI Require Import gen.Pure model.Padding.
Open Scope Z_scope.

(** ** padding.py *)

Lemma align_ratios_is_model : forall a, (a < 3)%nat -> align_ratios (Z.of_nat a) = align_ratio a.
Proof. intros a H. destruct a as [|[|[|a]]]; try reflexivity; lia. Qed.

(** [AlignedPadding._get_exact_dimensions_]: raises iff relative, otherwise the model's
    [aligned_dims], for the three members of [HAlign] / [VAlign] *)
Lemma aligned_exact_dimensions_is_model :
  forall rel W H (ha va : nat) w h, (ha < 3)%nat -> (va < 3)%nat ->
    aligned_exact_dimensions rel W H (Z.of_nat ha) (Z.of_nat va) w h
    = if rel then None else Some (aligned_dims W H ha va w h).
Proof.
  intros rel W H ha va w h Ha Hv. unfold aligned_exact_dimensions, aligned_dims, aligned_axis.
  destruct rel; [reflexivity|].
  rewrite !align_ratios_is_model by assumption.
  rewrite (Z.gtb_ltb W w), (Z.gtb_ltb H h).
  destruct (w <? W); destruct (h <? H);
    destruct (align_ratio ha) as [n1 d1]; destruct (align_ratio va) as [n2 d2]; reflexivity.
Qed.

(** the enumeration values the model's alignment indices stand for *)
Lemma align_enum_values :
  (halign_left, halign_center, halign_right) = (0, 1, 2) /\
  (valign_top, valign_middle, valign_bottom) = (0, 1, 2) /\ align_ratios_len = 3.
Proof. repeat split. Qed.

(** [AlignedPadding.resolve] *)
Lemma aligned_resolve_is_model :
  forall tw th W H,
    Padding.resolve tw th W H = if Padding.relative W H then aligned_resolve_relative W H tw th else (W, H).
Proof. intros. unfold Padding.resolve, aligned_resolve_relative. destruct (Padding.relative W H); reflexivity. Qed.

(** [Padding.get_padded_size] *)
Lemma padded_size_is_model :
  forall l t r b w h, Padding.padded_size (l, t, r, b) w h = Pure.padded_size l t r b w h.
Proof. reflexivity. Qed.

