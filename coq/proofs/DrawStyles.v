(** Every render style keeps the downward discipline ([DrawLines.Downward]): no line of a
    block, kitty (LINES / WHOLE) or iterm2 (LINES / WHOLE / native ANIM) render touches a
    row below its own — so the line feeds between the lines are the only way the render
    reaches a new row and scrolling while the first frame is drawn is sound (C06).
    Also: the wezterm pre-erase of the old API is a line-structured render. *)
From Coq Require Import List ZArith Bool Lia.
Import ListNotations.
From TI Require Import lib.Term lib.TermFacts lib.Rect lib.Lines lib.TermScroll
     model.Block model.GfxRender model.Padding model.Draw
     proofs.BlockProofs proofs.BlockRect proofs.GfxRect proofs.DrawLines.
Open Scope Z_scope.
Local Arguments Z.eqb : simpl never.
Local Arguments Z.ltb : simpl never.
Local Arguments Z.leb : simpl never.

Lemma Downward_of_exec ln :
  (forall r c, exists evs r' c' a',
      exec c (pos r c) ln = mk r' c' a' (pos r c) evs /\ forallb (ev_notbelow r) evs = true) ->
  Downward ln.
Proof.
  intros Hx r c. destruct (Hx r c) as (evs & r' & c' & a' & E & Hn).
  unfold cevs. rewrite (exec_mk_evs _ _ _ _ _ _ _ E). exact Hn.
Qed.

Lemma nb_refl r : (r <=? r) = true. Proof. apply Z.leb_refl. Qed.

Lemma erase_notbelow r a : forall n c, forallb (ev_notbelow r) (erase_evs r c a n) = true.
Proof.
  induction n as [|n IH]; intros c; [reflexivity|]. cbn [erase_evs forallb].
  rewrite IH. unfold ev_notbelow. cbn [ev_row]. rewrite nb_refl. reflexivity.
Qed.

Lemma cells_notbelow r : forall cells c, forallb (ev_notbelow r) (cell_evs r c cells) = true.
Proof.
  induction cells as [|[g a] cells IH]; intros c; [reflexivity|]. cbn [cell_evs forallb].
  rewrite IH. unfold ev_notbelow. cbn [ev_row]. rewrite nb_refl. reflexivity.
Qed.

Ltac nb := unfold ev_notbelow; cbn [ev_row]; rewrite ?nb_refl; try reflexivity.

(** ** block *)
Lemma block_line_downward alpha kitty bgcol split pxs :
  pxs <> [] -> Downward (line alpha kitty bgcol split pxs ++ [TSgr0]).
Proof.
  intros Hne. apply Downward_of_exec. intros r c.
  destruct (line_exec alpha kitty bgcol split c pxs (pos r c) eq_refl Hne) as (cells & a & E & _).
  eexists _, _, _, _. split.
  - rewrite exec_app, E. cbn [exec fold_left]. rewrite step_sgr0 by reflexivity.
    rewrite mk_mk, app_nil_r. reflexivity.
  - apply cells_notbelow.
Qed.

Theorem block_downward alpha kitty bgcol split (w : nat) rows :
  (0 < w)%nat -> (forall r, In r rows -> length r = w) ->
  forall ln, In ln (block_ls alpha kitty bgcol split rows) -> Downward ln.
Proof.
  intros Hw Hlen ln Hin. unfold block_ls in Hin. apply in_map_iff in Hin.
  destruct Hin as (r & <- & Hr). apply block_line_downward.
  intros ->. specialize (Hlen [] Hr). cbn in Hlen. lia.
Qed.

(** ** kitty *)
Section Kitty.
Variables w h z : Z.
Variables mix blend : bool.
Hypothesis Hw : 0 < w.

Lemma kfill_downward : Downward (kfill w mix).
Proof.
  apply Downward_of_exec. intros r c. eexists _, _, _, _. split.
  - apply (exec_kfill w mix Hw). reflexivity.
  - rewrite forallb_app. cbn [row col sgr pos set_pos origin forallb].
    apply andb_true_iff. split; [destruct mix; [reflexivity|apply erase_notbelow]|nb].
Qed.

Lemma kitty_trans_downward rows pl :
  Downward (kdel blend ++ transmission {| kk_cols := w; kk_rows := rows; kk_z := z; kk_stay := true |} pl
            ++ kfill w mix).
Proof.
  apply Downward_of_exec. intros r c. eexists _, _, _, _. split.
  - rewrite exec_app, exec_kdel by reflexivity. rewrite exec_app.
    rewrite exec_transmission by (try split; reflexivity).
    rewrite (exec_kfill w mix Hw) by reflexivity. rewrite !mk_mk. reflexivity.
  - cbn [row col sgr mk pos set_pos origin kk_rows kk_cols kk_z].
    rewrite !forallb_app, !andb_true_iff. repeat split.
    + destruct blend; [reflexivity|]. cbn [forallb]. nb.
    + cbn [forallb]. nb.
    + destruct mix; [reflexivity|apply erase_notbelow].
    + cbn [forallb]. nb.
Qed.

Theorem kitty_lines_downward pls :
  forall ln, In ln (map (kitty_line w z mix blend) pls) -> Downward ln.
Proof.
  intros ln Hin. apply in_map_iff in Hin. destruct Hin as (pl & <- & _).
  apply kitty_trans_downward.
Qed.

Theorem kitty_whole_downward pl :
  forall ln, In ln (kitty_whole_ls w h z mix blend pl) -> Downward ln.
Proof.
  intros ln [<-|Hin]; [apply kitty_trans_downward|].
  apply repeat_spec in Hin. subst ln. apply kfill_downward.
Qed.
End Kitty.

(** ** iterm2 *)
Section Iterm2.
Variables w h : Z.
Variables konsole wezterm mix : bool.
Hypothesis Hw : 0 < w.
Hypothesis Hh : 0 < h.

Lemma ierase_notbelow r c a : forallb (ev_notbelow r) (ierase_evs w wezterm mix r c a) = true.
Proof. unfold ierase_evs. destruct (negb mix && wezterm); [apply erase_notbelow|reflexivity]. Qed.

Lemma iterm2_line_downward sp : Downward (iterm2_line w konsole wezterm mix sp).
Proof.
  apply Downward_of_exec. intros r c. eexists _, _, _, _. split.
  - apply (iterm2_line_exec w konsole wezterm mix Hw sp c (pos r c)); try reflexivity. split; reflexivity.
  - cbn [row pos set_pos origin]. rewrite forallb_app, ierase_notbelow.
    destruct konsole; cbn [andb forallb]; unfold ev_notbelow; cbn [ev_row];
      rewrite ?nb_refl; try reflexivity.
    replace (r + 1 - 1 <=? r) with true by (symmetry; apply Z.leb_le; lia). reflexivity.
Qed.

Lemma icuf_downward : Downward (icuf w).
Proof.
  apply Downward_of_exec. intros r c. eexists _, _, _, _. split.
  - apply (exec_icuf w Hw). reflexivity.
  - cbn [row pos set_pos origin forallb]. nb.
Qed.

Lemma ierase_icuf_downward : Downward (ierase w wezterm mix ++ icuf w).
Proof.
  apply Downward_of_exec. intros r c. eexists _, _, _, _. split.
  - rewrite exec_app, (exec_ierase w wezterm mix Hw) by reflexivity.
    rewrite (exec_icuf w Hw) by reflexivity. rewrite mk_mk. reflexivity.
  - cbn [row col sgr mk pos set_pos origin]. rewrite forallb_app, ierase_notbelow.
    cbn [andb forallb]. nb.
Qed.

Lemma kons_first_downward sp : Downward (kons_first w h wezterm mix sp).
Proof.
  apply Downward_of_exec. intros r c. eexists _, _, _, _. split.
  - apply (kons_first_exec w h wezterm mix Hw sp c (pos r c)); try reflexivity. split; reflexivity.
  - cbn [row pos set_pos origin]. rewrite forallb_app, ierase_notbelow. cbn [andb forallb]. nb.
Qed.

Lemma other_last_downward sp : Downward (other_last w h wezterm mix sp).
Proof.
  apply Downward_of_exec. intros r c. eexists _, _, _, _. split.
  - apply (other_last_exec w h wezterm mix Hw Hh sp c (pos r c)); try reflexivity. split; reflexivity.
  - cbn [row pos set_pos origin]. rewrite !forallb_app, ierase_notbelow.
    assert (E : (r - (h - 1) <=? r) = true) by (apply Z.leb_le; lia).
    destruct (1 <? h); cbn [andb forallb]; unfold ev_notbelow; cbn [ev_row];
      rewrite ?nb_refl, ?E; reflexivity.
Qed.

Theorem iterm2_lines_downward sps :
  forall ln, In ln (map (iterm2_line w konsole wezterm mix) sps) -> Downward ln.
Proof.
  intros ln Hin. apply in_map_iff in Hin. destruct Hin as (sp & <- & _).
  apply iterm2_line_downward.
Qed.

Theorem iterm2_whole_downward sp :
  forall ln, In ln (iterm2_whole_ls w h konsole wezterm mix sp) -> Downward ln.
Proof.
  intros ln Hin. unfold iterm2_whole_ls in Hin. destruct konsole.
  - destruct Hin as [<-|Hin]; [apply kons_first_downward|].
    apply repeat_spec in Hin. subst ln. apply icuf_downward.
  - apply in_app_iff in Hin. destruct Hin as [Hin|[<-|[]]].
    + apply repeat_spec in Hin. subst ln. apply ierase_icuf_downward.
    + apply other_last_downward.
Qed.
End Iterm2.

(** ** the wezterm pre-erase lines of the old API: [ERASE_CHARS w, CURSOR_FORWARD w] per line *)
Section Wez.
Variables w h : Z.
Hypothesis Hw : 0 < w.
Hypothesis Hh : 0 < h.

Lemma wez_line_is_kfill : [TEch w; TCuf w] = kfill w false.
Proof. reflexivity. Qed.

Theorem wez_erase_lr : LinesRect all_cells w h (wez_erase_ls w h).
Proof.
  unfold wez_erase_ls. rewrite wez_line_is_kfill. constructor.
  - exact Hw.
  - rewrite repeat_length. lia.
  - destruct (Z.to_nat h) eqn:E; [lia|discriminate].
  - intros i l Hn. assert (Hi : (i < Z.to_nat h)%nat).
    { rewrite <- (repeat_length (kfill w false) (Z.to_nat h)). apply nth_error_Some. congruence. }
    apply nth_error_In, repeat_spec in Hn. subst l. apply kfill_line_ok; [exact Hw|lia].
  - intros l Hin. apply repeat_spec in Hin. subst l. apply nocr_kfill.
  - apply coverage_rows; [rewrite repeat_length; lia|].
    intros i l lm t Hn [Hg Hp] Hcol Hs c Hc.
    apply nth_error_In, repeat_spec in Hn. subst l.
    erewrite line_evs_mk by (apply (exec_kfill w false Hw); exact Hg).
    rewrite covered_app. apply orb_true_iff. left. apply erase_covers. lia.
Qed.

Theorem wez_erase_downward : forall ln, In ln (wez_erase_ls w h) -> Downward ln.
Proof.
  intros ln Hin. apply repeat_spec in Hin. subst ln. rewrite wez_line_is_kfill.
  apply kfill_downward, Hw.
Qed.
End Wez.
