(** Control-flow (effect skeleton) obligations of C10: render data created by
    [_init_render_] is finalized on every exit when [finalize=True] ([render], [__str__]),
    and by [draw]'s [finally] otherwise.  Lemmas only.

    Configuration [cfg_render]: every frame render AND every untracked call may raise
    KeyboardInterrupt or an Exception, before or after taking effect (the creation of the
    render data itself, [_get_render_data_], is not a fault position: an exception raised
    right after it, before the [try], would leave the data to [RenderData.__del__]). *)
From Coq Require Import List Bool Arith.
Import ListNotations.
From TI Require Import lib.Eff lib.EffSound lib.EffRun gen.Skeletons.

(** [_init_render_] with a renderer that renders (and may raise) *)
Definition init_render_post (o : outcome) (s : st) : bool :=
  negb (get fv_Renderable__init_render___finalize (vars s)) || negb (unfin s).

Lemma init_render_analysis :
  analyze cfg_render nv_Renderable__init_render_ (sk_Renderable__init_render_ (Op Render)) init_render_post = true.
Proof. vm_compute. reflexivity. Qed.

(** every exit of [_init_render_] called with [finalize=True] has finalized the data:
    normal return, size-validation error, an exception or KeyboardInterrupt from the
    renderer or from any call inside the [try] *)
Lemma init_render_finalizes :
  forall vs, length vs = nv_Renderable__init_render_ ->
  forall o s', eval cfg_render false (sk_Renderable__init_render_ (Op Render)) (init vs) o s' ->
    get fv_Renderable__init_render___finalize (vars s') = true -> unfin s' = false.
Proof.
  intros vs Hl o s' He Hf. pose proof (analyze_sound _ _ _ _ init_render_analysis vs Hl o s' He) as H.
  unfold init_render_post in H. rewrite Hf in H. simpl in H. apply negb_true_iff. assumption.
Qed.

(** with [finalize=False] and a renderer that only hands the data out (draw's lambda), a
    normal return passes the obligation to the caller *)
Lemma init_render_analysis_nofinalize :
  analyze cfg_render nv_Renderable__init_render_ (sk_Renderable__init_render_ Skip)
    (fun o s => get fv_Renderable__init_render___finalize (vars s) || negb (is_norm o || match o with ORet => true | _ => false end) || unfin s) = true.
Proof. vm_compute. reflexivity. Qed.

Lemma render_analysis : analyze cfg_render nv_Renderable_render sk_Renderable_render (fun _ s => negb (unfin s)) = true.
Proof. vm_compute. reflexivity. Qed.
Lemma str_analysis : analyze cfg_render nv_Renderable___str__ sk_Renderable___str__ (fun _ s => negb (unfin s)) = true.
Proof. vm_compute. reflexivity. Qed.

Lemma render_finalizes :
  forall vs, length vs = nv_Renderable_render ->
  forall o s', eval cfg_render false sk_Renderable_render (init vs) o s' -> unfin s' = false.
Proof. intros vs Hl o s' He. apply negb_true_iff. exact (analyze_sound _ _ _ _ render_analysis vs Hl o s' He). Qed.

Lemma str_finalizes :
  forall vs, length vs = nv_Renderable___str__ ->
  forall o s', eval cfg_render false sk_Renderable___str__ (init vs) o s' -> unfin s' = false.
Proof. intros vs Hl o s' He. apply negb_true_iff. exact (analyze_sound _ _ _ _ str_analysis vs Hl o s' He). Qed.

(** [draw]: every exit past its [try] has finalized; the only exit with unfinalized data
    is an exception raised before the [try] is entered ([_init_render_]'s validation
    error, or a call between [_init_render_] and the [try] raising), which leaves the data
    to [RenderData.__del__] (counted as garbage-collected by the property).  Stated with
    the frame renders, stream writes, flushes and sleeps as fault positions
    ([cfg_draw]): then the only such exit is the un-faulted validation error. *)
Definition draw_finalize_post (o : outcome) (s : st) : bool :=
  negb (unfin s) || (match o with ORaise Exc => true | _ => false end && negb (kiseen s) && negb (excseen s)).
Lemma draw_finalize_analysis :
  analyze cfg_draw nv_Renderable_draw sk_Renderable_draw draw_finalize_post = true.
Proof. vm_compute. reflexivity. Qed.
Lemma draw_finalizes :
  forall vs, length vs = nv_Renderable_draw ->
  forall o s', eval cfg_draw false sk_Renderable_draw (init vs) o s' ->
    unfin s' = false \/ (o = ORaise Exc /\ kiseen s' = false /\ excseen s' = false).
Proof.
  intros vs Hl o s' He. pose proof (analyze_sound _ _ _ _ draw_finalize_analysis vs Hl o s' He) as H.
  unfold draw_finalize_post in H.
  destruct (unfin s'), (kiseen s'), (excseen s'), o as [| |[|]]; simpl in H; try discriminate H;
    first [left; reflexivity | right; repeat split; reflexivity].
Qed.

(** non-vacuity: a render that raises after the data was created, finalized on the way out *)
Example render_fault_witness :
  witness cfg_render Exc false unfin (fun s => negb (unfin s)) (ORaise Exc) sk_Renderable_render
          (repeat false nv_Renderable_render) 60 = true.
Proof. vm_compute. reflexivity. Qed.

(** the analysis rejects "finalize only on success" *)
Example analysis_rejects_finalize_on_success_only :
  analyze cfg_render 0 (sq [Op NewData; Op Render; Op Finalize]) (fun _ s => negb (unfin s)) = false.
Proof. vm_compute. reflexivity. Qed.
