(** Proofs for C14 under a changing library configuration ([model/LocksCfg.v]).

    1. under the code's policy ([pol q = true] for every configuration [q]) the thread-local
       transition never looks at the configuration ([nextQ_code]);
    2. in the system of [model/Locks.v] a thread of a child process only ever holds
       references to the SHARED lock ([safe_reachable]) — which is what makes the private
       thread lock of a child process irrelevant;
    3. simulation: every step of the extended system is a step of [Locks.step] on the
       [qs] component or leaves it unchanged ([stepI_sim]); hence every reachable state of
       the extended system — any threads, any processes, any interleaving of moves and
       configuration changes, any initial configuration, fresh or inherited configuration in
       the children — projects to a reachable state of [Locks.step] ([cfg_reachable_base]),
       and the private locks are never touched ([cfg_children_on_shared_lock]);
    4. the theorems of [proofs/LocksProofs.v] transported ([cfg_mutex_lemma] ...);
    5. [cfg_share_only_when_enabled_refuted_lemma]: the policy that shares the lock only
       while queries are enabled admits "disable queries; start the child; parent and child
       both inside a synchronized body";
    6. non-vacuity. *)
From Coq Require Import List Arith Bool Lia.
Import ListNotations.
From TI Require Import lib.Sched model.Locks model.LocksSpec model.LockSites model.LocksCfg
  proofs.LocksProofs.

Local Arguments Nat.eqb : simpl never.

(** ** 0. Schedules of items *)
Section ItemsFacts.
  Variables (G I : Type) (stp : G -> I -> option G).

  Lemma reachable_items_trans s0 s1 s2 :
    reachable_items stp s0 s1 -> reachable_items stp s1 s2 -> reachable_items stp s0 s2.
  Proof. intros H01 H12. induction H12; auto. eapply ri_step; eauto. Qed.

  Lemma run_items_reachable s0 sch : reachable_items stp s0 (run_items stp s0 sch).
  Proof.
    assert (H : forall s, reachable_items stp s0 s -> reachable_items stp s0 (run_items stp s sch)).
    { induction sch as [|i r IH]; intros s Hs; simpl; auto.
      destruct (stp s i) eqn:E; auto. apply IH. eapply ri_step; eauto. }
    apply H. constructor.
  Qed.

  Lemma reachable_items_ind_inv (P : G -> Prop) s0 :
    P s0 -> (forall s i s', P s -> stp s i = Some s' -> P s') ->
    forall s, reachable_items stp s0 s -> P s.
  Proof. intros H0 Hs s Hr. induction Hr; eauto. Qed.
End ItemsFacts.
Arguments run_items_reachable {G I} stp s0 sch.
Arguments reachable_items_trans {G I} stp s0 s1 s2.
Arguments reachable_items_ind_inv {G I} stp P s0.

(** ** 1. The code's policy does not look at the configuration *)
Lemma nextQ_code pol sg c q r x :
  (forall q', pol q' = true) -> nextQ pol sg c q r x = next sg c r x.
Proof.
  intro P. unfold nextQ, next. destruct (t_pc x); try reflexivity.
  destruct c; [rewrite P|]; reflexivity.
Qed.

(** ** 2. Threads of child processes only hold references to the shared lock *)
Definition pc_lm (p : pc) : Prop :=
  match p with
  | PAcq1 l | PRead2 l | PRel1 l | SAcq _ l | SCheck _ l | SSwap _ l => l = LM
  | PAcq2 a b | PRel2 a b => a = LM /\ b = LM
  | SRel _ l h => l = LM /\ h = LM
  | SStart _ h => h = LM
  | _ => True
  end.

Definition th_lm (x : thread) : Prop :=
  pc_lm (t_pc x) /\ Forall (fun f => fst f = LM /\ snd f = LM) (t_stack x).

Definition act_lm (a : action) : Prop :=
  match a with AAcq l | ARel l => l = LM | _ => True end.

Lemma next_lm r x a x' ev :
  next false LM r x = Some (a, x', ev) -> th_lm x -> th_lm x' /\ act_lm a.
Proof.
  unfold next, th_lm. intros H [P F].
  destruct (t_pc x) eqn:PC; step_cases H; subst; cbn in *;
    repeat match goal with E : t_stack _ = _ |- _ => rewrite E in * end; cbn in *.
  all: try solve [intuition (subst; auto)].
  all: try solve [inversion F; subst; cbn in *; intuition (subst; auto)].
  all: try solve [inversion F; subst; cbn in *; destruct l; cbn; intuition (subst; auto)].
Qed.

Definition Safe (cf : cfg) (s : state) : Prop :=
  forall t, proc cf t <> 0 -> th_lm (th s t).

Section Base.
  Variable cf : cfg.
  Hypothesis SG : single cf = false.

  Lemma safe_init prog : Safe cf (init prog).
  Proof. intros t _. split; cbn; auto. Qed.

  Lemma safe_step s t s' :
    Inv cf s -> Safe cf s -> step cf s t = Some s' -> Safe cf s'.
  Proof.
    intros I S H.
    destruct (step_inv cf SG _ _ _ H)
      as [(ET & r & rest & ER & ->) | (NT & ST & a & x' & ev & s1 & NX & AP & ->)].
    { exact S. }
    pose proof (apply_th cf _ _ _ _ AP) as TH.
    intros u NU. cbn [th set_th]. rewrite TH.
    destruct (Nat.eq_dec u t) as [->|N].
    - rewrite upd_same. rewrite (I_child cf _ I _ NU) in NX.
      exact (proj1 (next_lm _ _ _ _ _ NX (S t NU))).
    - rewrite upd_other by auto. exact (S u NU).
  Qed.

  Lemma inv_safe_reachable prog s :
    reachable (step cf) (init prog) s -> Inv cf s /\ Safe cf s.
  Proof.
    apply (reachable_ind_inv _ (step cf) (fun s => Inv cf s /\ Safe cf s)).
    - split; [apply inv_init | apply safe_init].
    - intros s0 t s' [I S] H. split; [eapply inv_step | eapply safe_step]; eauto.
  Qed.

  Lemma safe_reachable prog s : reachable (step cf) (init prog) s -> Safe cf s.
  Proof. intro R. exact (proj2 (inv_safe_reachable _ _ R)). Qed.
End Base.

(** ** 3. Simulation *)
Section Sim.
  Variable pol : policy.
  Variable qc : qcfg.
  Hypothesis POL : forall q, pol q = true.
  Hypothesis SG : single (q_base qc) = false.
  Let cf := q_base qc.

  Lemma private_root t l : proc cf t = 0 -> private cf t l = false.
  Proof. unfold private. intros ->. destruct l; reflexivity. Qed.

  Lemma applyQ_shared s t a s1 :
    (forall l, a = AAcq l \/ a = ARel l -> private cf t l = false) ->
    applyQ qc s t a = Some s1 ->
    apply cf (qs s) t a = Some (qs s1) /\ lkC s1 = lkC s.
  Proof.
    intros NP H. unfold applyQ in H. fold cf in H.
    destruct a.
    - cbn in H. inversion H. cbn. auto.
    - rewrite (NP l) in H by auto. destruct (apply cf (qs s) t (AAcq l)); inversion H. cbn. auto.
    - rewrite (NP l) in H by auto. destruct (apply cf (qs s) t (ARel l)); inversion H. cbn. auto.
    - cbn in H. inversion H. cbn. auto.
    - destruct (apply cf (qs s) t (AStart c h)); inversion H. cbn. auto.
    - cbn in H. inversion H. cbn. auto.
    - destruct (apply cf (qs s) t ARead); inversion H. cbn. auto.
  Qed.

  Lemma stepI_sim s i s' :
    Inv cf (qs s) -> Safe cf (qs s) -> stepI pol qc s i = Some s' ->
    lkC s' = lkC s /\ (qs s' = qs s \/ exists t, step cf (qs s) t = Some (qs s')).
  Proof.
    intros I S H. unfold stepI in H. fold cf in H. destruct i as [t|p f b].
    - destruct (Nat.eqb t (term_tid cf)) eqn:ET.
      + destruct (step cf (qs s) t) as [b|] eqn:E; inversion H. cbn. split; auto.
        right. exists t. exact E.
      + destruct (started (qs s) (proc cf t)) eqn:ST; [|discriminate]. cbn [negb] in H.
        rewrite (nextQ_code pol _ _ _ _ _ POL) in H.
        destruct (next (single cf) (cur (qs s) (proc cf t)) (hd_error (reps (qs s))) (th (qs s) t))
          as [[[a x'] ev]|] eqn:NX; [|discriminate].
        destruct (applyQ qc s t a) as [s1|] eqn:AQ; [|discriminate]. inversion H. cbn.
        assert (NP : forall l, a = AAcq l \/ a = ARel l -> private cf t l = false).
        { intros l AL. destruct (Nat.eq_dec (proc cf t) 0) as [Z|NZ]; [now apply private_root|].
          unfold cf in NX. rewrite SG in NX. fold cf in NX.
          rewrite (I_child cf _ I _ NZ) in NX.
          destruct (next_lm _ _ _ _ _ NX (S t NZ)) as [_ AL'].
          destruct AL as [-> | ->]; cbn in AL'; subst; reflexivity. }
        destruct (applyQ_shared _ _ _ _ NP AQ) as [AP LK]. split; auto.
        right. exists t. unfold step. rewrite ET, ST. cbn [negb]. rewrite NX, AP. reflexivity.
    - destruct (started (qs s) p); inversion H. cbn. auto.
  Qed.

  Lemma cfg_reachable_base_inv prog q0 s :
    reachable_items (stepI pol qc) (initQ prog q0) s ->
    reachable (step cf) (init prog) (qs s) /\ lkC s = fun _ => free_lock.
  Proof.
    apply (reachable_items_ind_inv (stepI pol qc)
             (fun s => reachable (step cf) (init prog) (qs s) /\ lkC s = fun _ => free_lock)).
    - split; [constructor | reflexivity].
    - intros s0 i s' [R L] H.
      destruct (inv_safe_reachable cf SG _ _ R) as [I S].
      destruct (stepI_sim _ _ _ I S H) as [LK [E | [t E]]].
      + rewrite E, LK. auto.
      + split; [eapply reach_step; eauto | congruence].
  Qed.
End Sim.

(** every reachable state of the extended system projects to a reachable state of
    [Locks.step], whatever the policy as long as it shares for every configuration *)
Lemma cfg_reachable_base pol qc prog q0 s :
  (forall q, pol q = true) -> single (q_base qc) = false ->
  reachable_items (stepI pol qc) (initQ prog q0) s ->
  reachable (step (q_base qc)) (init prog) (qs s).
Proof. intros P SG R. exact (proj1 (cfg_reachable_base_inv pol qc P SG _ _ _ R)). Qed.

(** no process is ever left on a private lock: the thread locks of the child processes are
    never touched *)
Lemma cfg_children_on_shared_lock pol qc prog q0 s :
  (forall q, pol q = true) -> single (q_base qc) = false ->
  reachable_items (stepI pol qc) (initQ prog q0) s ->
  (forall p, lkC s p = free_lock) /\ (forall p, p <> 0 -> cur (qs s) p = LM).
Proof.
  intros P SG R. destruct (cfg_reachable_base_inv pol qc P SG _ _ _ R) as [RB L].
  split; [intro p; now rewrite L|].
  intros p NP. exact (I_child _ _ (inv_reachable _ SG _ _ RB) p NP).
Qed.

(** ** 4. The theorems of [proofs/LocksProofs.v], for every interleaving of moves and
    configuration changes *)
Lemma cfg_mutex_lemma pol qc :
  (forall q, pol q = true) -> single (q_base qc) = false ->
  forall prog q0 s t1 t2,
    reachable_items (stepI pol qc) (initQ prog q0) s ->
    in_body (qs s) t1 -> in_body (qs s) t2 -> t1 = t2.
Proof.
  intros P SG prog q0 s t1 t2 R. apply (mutex_lemma (q_base qc) SG prog).
  eapply cfg_reachable_base; eauto.
Qed.

Lemma cfg_trace_accepted_lemma pol qc :
  (forall q, pol q = true) -> single (q_base qc) = false ->
  forall prog q0 s,
    reachable_items (stepI pol qc) (initQ prog q0) s -> accepts (rev (log (qs s))) = true.
Proof.
  intros P SG prog q0 s R. apply (trace_accepted_lemma (q_base qc) SG prog).
  eapply cfg_reachable_base; eauto.
Qed.

Lemma cfg_queries_lemma pol qc :
  (forall q, pol q = true) -> single (q_base qc) = false ->
  forall prog q0 s t n,
    reachable_items (stepI pol qc) (initQ prog q0) s -> t_pc (th (qs s) t) = PWait n ->
    (reqs (qs s) = [(t, n)] /\ reps (qs s) = []) \/ (reqs (qs s) = [] /\ reps (qs s) = [(t, n)]).
Proof.
  intros P SG prog q0 s t n R. apply (queries_lemma (q_base qc) SG prog).
  eapply cfg_reachable_base; eauto.
Qed.

(** a thread inside a body keeps moving in the extended system too (the configuration never
    blocks anybody): re-entrancy *)
Lemma cfg_owner_proceeds_lemma pol qc :
  (forall q, pol q = true) -> single (q_base qc) = false ->
  forall prog q0 s t,
    reachable_items (stepI pol qc) (initQ prog q0) s -> t <> term_tid (q_base qc) ->
    in_body (qs s) t -> ~ waits_reply (qs s) t ->
    exists s', stepI pol qc s (SMove t) = Some s'.
Proof.
  intros P SG prog q0 s t R NT B W.
  pose proof (cfg_reachable_base _ _ _ _ _ P SG R) as RB.
  destruct (owner_proceeds_lemma (q_base qc) SG prog _ _ RB NT B W) as [b E].
  destruct (inv_safe_reachable _ SG _ _ RB) as [I S].
  unfold stepI. unfold step in E.
  destruct (Nat.eqb t (term_tid (q_base qc))) eqn:ET.
  { apply Nat.eqb_eq in ET. contradiction. }
  destruct (started (qs s) (proc (q_base qc) t)) eqn:ST; [|discriminate]. cbn [negb] in *.
  rewrite (nextQ_code pol _ _ _ _ _ P).
  destruct (next (single (q_base qc)) (cur (qs s) (proc (q_base qc) t))
                 (hd_error (reps (qs s))) (th (qs s) t)) as [[[a x'] ev]|] eqn:NX; [|discriminate].
  destruct (apply (q_base qc) (qs s) t a) as [s1|] eqn:AP; [|discriminate].
  assert (NP : forall l, a = AAcq l \/ a = ARel l -> private (q_base qc) t l = false).
  { intros l AL. destruct (Nat.eq_dec (proc (q_base qc) t) 0) as [Z|NZ]; [now apply private_root|].
    rewrite SG in NX. rewrite (I_child _ _ I _ NZ) in NX.
    destruct (next_lm _ _ _ _ _ NX (S t NZ)) as [_ AL'].
    destruct AL as [-> | ->]; cbn in AL'; subst; reflexivity. }
  assert (AQ : exists s1', applyQ qc s t a = Some s1').
  { unfold applyQ. destruct a; try rewrite (NP l) by auto; rewrite AP; cbn; eauto. }
  destruct AQ as [s1' ->]. eauto.
Qed.

(** the macro grain used by the correspondence is covered *)
Lemma macroI_reachable pol qc s i s' :
  macroI pol qc s i = Some s' -> reachable_items (stepI pol qc) s s'.
Proof.
  unfold macroI. destruct (stepI pol qc s i) as [s1|] eqn:E1; [|discriminate].
  assert (R1 : reachable_items (stepI pol qc) s s1) by (eapply ri_step; [constructor|eauto]).
  destruct i as [t|p f b]; [|intro H; inversion H; subst; exact R1].
  assert (M : forall x, reachable_items (stepI pol qc) s x ->
                        reachable_items (stepI pol qc) s
                          (if is_read (t_pc (th (qs x) t))
                           then match stepI pol qc x (SMove t) with Some y => y | None => x end
                           else x)).
  { intros x R. destruct (is_read (t_pc (th (qs x) t))); auto.
    destruct (stepI pol qc x (SMove t)) eqn:E; auto. eapply ri_step; eauto. }
  destruct (Nat.eqb t (term_tid (q_base qc))); intro H; inversion H; subst; clear H;
    [exact R1 | apply M; apply M; exact R1].
Qed.

Lemma run_macroI_reachable pol qc s0 sch :
  reachable_items (stepI pol qc) s0 (run_items (macroI pol qc) s0 sch).
Proof.
  assert (K : forall s, reachable_items (stepI pol qc) s0 s ->
                        reachable_items (stepI pol qc) s0 (run_items (macroI pol qc) s sch)).
  { induction sch as [|i sch IH]; intros s R; cbn; auto.
    destruct (macroI pol qc s i) as [s1|] eqn:E; auto. apply IH.
    eapply reachable_items_trans; [exact R|]. eapply macroI_reachable; eauto. }
  apply K. constructor.
Qed.

(** ** 5. Sharing the lock only while queries are enabled is refuted *)

Definition qc_fresh : qcfg := {| q_base := cf_double; q_init := fun _ => Some conf_default |}.
Definition qc_inherit : qcfg := {| q_base := cf_double; q_init := fun _ => None |}.

(** thread 1 (root process) starts child process 10 and then calls a synchronized
    function; thread 10 (the child) calls one *)
Definition cfg_prog (t : nat) : list cmd :=
  match t with
  | 1 => [CStart 10; CCall 0 false]
  | 10 => [CCall 0 false]
  | _ => []
  end.

(** [term_image.disable_queries()]; [Process.start()] (6 micro-steps); the parent enters a
    body (5 micro-steps); the child enters a body (5 micro-steps) *)
Definition cfg_sched : list sitem :=
  [SConf 0 0 false] ++ repeat (SMove 1) 6 ++ repeat (SMove 1) 5 ++ repeat (SMove 10) 5.

Lemma cfg_share_only_when_enabled_refuted_lemma :
  exists qc prog q0 sch t1 t2,
    single (q_base qc) = false /\ t1 <> t2 /\
    let s := run_items (stepI pol_if_queries qc) (initQ prog q0) sch in
    in_body (qs s) t1 /\ in_body (qs s) t2.
Proof.
  exists qc_fresh, cfg_prog, conf_default, cfg_sched, 1, 10.
  split; [reflexivity|]. split; [discriminate|].
  split; apply in_bodyb_spec; vm_compute; reflexivity.
Qed.

(** the same with a child that inherits the configuration (fork) *)
Example cfg_refuted_inherited :
  let s := run_items (stepI pol_if_queries qc_inherit) (initQ cfg_prog conf_default) cfg_sched in
  in_bodyb (qs s) 1 = true /\ in_bodyb (qs s) 10 = true
  /\ cur (qs s) 0 = LT /\ cur (qs s) 10 = LT /\ owner (lkC s 10) = Some 10 /\ owner (lkT (qs s)) = Some 1.
Proof. vm_compute. repeat split; reflexivity. Qed.

(** ** 6. Non-vacuity: the same schedule (the start takes one more micro-step, the swap)
    under the code's policy — the lock is shared although queries are disabled, the child
    waits for the parent *)
Example cfg_code_policy_child_waits :
  let s := run_items (stepI pol_code qc_fresh) (initQ cfg_prog conf_default)
                     (SMove 1 :: cfg_sched) in
  reachable_items (stepI pol_code qc_fresh) (initQ cfg_prog conf_default) s
  /\ conf s 0 0 = false /\ conf s 10 0 = true
  /\ in_bodyb (qs s) 1 = true /\ in_bodyb (qs s) 10 = false
  /\ t_pc (th (qs s) 10) = PAcq1 LM /\ stepI pol_code qc_fresh s (SMove 10) = None
  /\ cur (qs s) 0 = LM /\ cur (qs s) 10 = LM.
Proof.
  split; [apply run_items_reachable|]. vm_compute. repeat split; reflexivity.
Qed.

(** queries re-enabled between two starts, configuration changed by the child as well: still
    one shared lock *)
Example cfg_toggle_between_starts :
  let prog := fun t => match t with
                       | 1 => [CStart 10; CStart 12]
                       | 10 => [CStart 11; CCall 0 true]
                       | _ => [CCall 0 false]
                       end in
  let cf := {| proc := fun t => if Nat.eqb t 1 then 0 else t; single := false; term_tid := 0 |} in
  let qc := {| q_base := cf; q_init := fun p => if Nat.eqb p 10 then None else Some conf_default |} in
  let s := run_items (stepI pol_code qc) (initQ prog conf_default)
             ([SConf 0 0 false; SConf 0 1 true] ++ repeat (SMove 1) 7 ++ [SConf 0 0 true; SConf 10 0 true]
              ++ repeat (SMove 10) 6 ++ [SConf 10 0 false] ++ repeat (SMove 1) 6
              ++ repeat (SMove 11) 5 ++ repeat (SMove 12) 5) in
  conf s 10 1 = true /\ conf s 11 0 = true /\ started (qs s) 12 = true
  /\ in_bodyb (qs s) 11 = true /\ in_bodyb (qs s) 12 = false
  /\ cur (qs s) 11 = LM /\ cur (qs s) 12 = LM.
Proof. vm_compute. repeat split; reflexivity. Qed.

(** ** 7. Instances for the code's policy *)
Lemma pol_code_shares q : pol_code q = true.
Proof. reflexivity. Qed.

Lemma code_mutex_lemma qc :
  single (q_base qc) = false ->
  forall prog q0 s t1 t2,
    reachable_items (stepI pol_code qc) (initQ prog q0) s ->
    in_body (qs s) t1 -> in_body (qs s) t2 -> t1 = t2.
Proof. exact (cfg_mutex_lemma pol_code qc pol_code_shares). Qed.

Lemma code_trace_accepted_lemma qc :
  single (q_base qc) = false ->
  forall prog q0 s,
    reachable_items (stepI pol_code qc) (initQ prog q0) s -> accepts (rev (log (qs s))) = true.
Proof. exact (cfg_trace_accepted_lemma pol_code qc pol_code_shares). Qed.

Lemma code_queries_lemma qc :
  single (q_base qc) = false ->
  forall prog q0 s t n,
    reachable_items (stepI pol_code qc) (initQ prog q0) s -> t_pc (th (qs s) t) = PWait n ->
    (reqs (qs s) = [(t, n)] /\ reps (qs s) = []) \/ (reqs (qs s) = [] /\ reps (qs s) = [(t, n)]).
Proof. exact (cfg_queries_lemma pol_code qc pol_code_shares). Qed.

Lemma code_owner_proceeds_lemma qc :
  single (q_base qc) = false ->
  forall prog q0 s t,
    reachable_items (stepI pol_code qc) (initQ prog q0) s -> t <> term_tid (q_base qc) ->
    in_body (qs s) t -> ~ waits_reply (qs s) t ->
    exists s', stepI pol_code qc s (SMove t) = Some s'.
Proof. exact (cfg_owner_proceeds_lemma pol_code qc pol_code_shares). Qed.
