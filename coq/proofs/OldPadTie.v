(** * OldPadTie — the padding arithmetic of the old image API ([BaseImage._format_render],
    [_check_formatting]), TRANSLATED from the source on every run ([gen/OldPad.v], by
    [harness/tx/tx_oldpad.py]), is, for ALL arguments, the model's [old_dims] / [old_resolve] that
    the C05 old-API theorems are about; and the vertical padding lines are as wide as the
    horizontally padded render. *)
From Coq Require Import ZArith Bool Lia List.
From TI Require Import lib.Term model.Padding gen.OldPad.
Open Scope Z_scope.

Theorem old_dims_is_source : forall W H ha va w h,
  old_dims W H ha va w h = src_old_dims (Z.of_nat ha) W (Z.of_nat va) H w h.
Proof.
  intros W H ha va w h. unfold old_dims, src_old_dims. rewrite !Z.gtb_ltb.
  assert (Hh : forall n : nat, (Z.of_nat n =? 0) = match n with O => true | _ => false end).
  { intros [|n]; [reflexivity|]. apply Z.eqb_neq. lia. }
  assert (H2 : forall n : nat, (Z.of_nat n =? 2) = match n with S (S O) => true | _ => false end).
  { intros [|[|[|n]]]; try reflexivity. apply Z.eqb_neq. lia. }
  rewrite !Hh, !H2.
  destruct (w <? W) eqn:Ew; destruct (h <? H) eqn:Eh;
    try apply Z.ltb_lt in Ew; try apply Z.ltb_lt in Eh;
    destruct ha as [|[|[|ha]]]; destruct va as [|[|[|va]]]; cbn [fst snd];
    repeat rewrite Z.max_l by (try (apply Z.div_pos; lia); Z.div_mod_to_equations; lia);
    reflexivity.
Qed.

Theorem old_resolve_is_source : forall tw th W H,
  old_resolve tw th W H = src_old_resolve tw th W H.
Proof. intros. unfold old_resolve, src_old_resolve. rewrite !Z.gtb_ltb. reflexivity. Qed.

(** "padding lines must be as wide as the (horizontally padded) render" — the repaired F4 *)
Theorem old_padded_width_is_box_width : forall W H ha va w h,
  0 <= w ->
  let '(l, t, r, b) := old_dims W H ha va w h in
  src_old_padded_width W w = l + w + r.
Proof.
  intros W H ha va w h Hw. unfold old_dims, src_old_padded_width.
  destruct (w <? W) eqn:Ew; [apply Z.ltb_lt in Ew | apply Z.ltb_ge in Ew];
    destruct (h <? H); destruct ha as [|[|[|ha]]]; destruct va as [|[|[|va]]]; lia.
Qed.
