(** Proofs for C15 (sequential part): the cache state machine of [model/Caches.v]
    simulates the history-level specification (answers are fresh computations under the
    provenance status). *)
From Coq Require Import List ZArith Bool Arith.
Import ListNotations.
From TI Require Import lib.Sched model.Caches.
Open Scope Z_scope.

(** ** closed forms of the fresh computations *)

Lemma pos_size_spec t : pos_size t = true -> 0 < cols t /\ 0 < rows t.
Proof. unfold pos_size. intro H. apply andb_prop in H. destruct H. split; now apply Z.ltb_lt. Qed.

Lemma fresh_cs_eq e t sw q :
  pos_size t = true ->
  fresh_cs e t sw q = if has_tty e then compute_cell e t sw q else (0, 0).
Proof.
  intro P. apply pos_size_spec in P. destruct P as [Pc Pr].
  unfold fresh_cs, get_cs. destruct (has_tty e); simpl; auto.
  destruct (cols t =? 0) eqn:E; simpl; auto. apply Z.eqb_eq in E. rewrite E in Pc. now apply Z.lt_irrefl in Pc.
Qed.

Lemma fresh_nv_eq e t sw q : fresh_nv e t sw q = name_body e (has_tty e && q).
Proof. reflexivity. Qed.

Lemma fresh_col_eq e t sw q k : fresh_col e t sw q k = col_body e (has_tty e && q) k.
Proof. reflexivity. Qed.

Lemma fresh_tsc_eq t : fresh_tsc t = (xpx t, ypx t).
Proof. reflexivity. Qed.

Lemma fresh_dyn_ratio_eq e t sw q : fresh_dyn_ratio e t sw q = ratio_of (fresh_cs e t sw q).
Proof.
  unfold fresh_dyn_ratio, fresh_cs, get_ratio, get_cs. simpl.
  destruct (has_tty e); simpl; auto.
  destruct ((cols t =? 0) && (rows t =? 0)); reflexivity.
Qed.

(** ** the simulation invariant *)

Definition csc_of (e : tenv) (sw : bool) (f : option (tsize * bool)) : cscache :=
  match f with
  | None => zero_csc
  | Some (t0, b) =>
    {| k_c := cols t0; k_r := rows t0;
       v_w := fst (compute_cell e t0 sw b); v_h := snd (compute_cell e t0 sw b) |}
  end.

Definition fill_pos (f : option (tsize * bool)) : Prop :=
  match f with Some (t0, _) => pos_size t0 = true | None => True end.

Record Sim (e : tenv) (s : state) (h : hstate) : Prop := {
  sim_tm : tm s = h_tm h;
  sim_swap : swap s = h_swap h;
  sim_qen : qen s = h_qen h;
  sim_ratio : ratio s = h_ratio h;
  sim_supp : supp s = h_supp h;
  sim_csc : csc s = csc_of e (h_swap h) (h_fill h);
  sim_ncs : n_cs s = h_ncs h;
  sim_col : forall k, m_col s k = option_map (fun b => col_body e (has_tty e && b) k) (h_col h k);
  sim_ncol : n_col s = h_ncol h;
  sim_nv : m_nv s = option_map (fun b => name_body e (has_tty e && b)) (h_nv h);
  sim_nnv : n_nv s = h_nnv h;
  sim_tsc : tsc s = option_map (fun t0 => ((xpx t0, ypx t0), (cols t0, rows t0))) (h_tsc h);
  sim_ntsc : n_tsc s = h_ntsc h;
  sim_pos : pos_size (h_tm h) = true;
  sim_fpos : fill_pos (h_fill h)
}.

(** the part of the side condition a cell-size call needs *)
Definition fill_ok (h : hstate) : bool :=
  match h_fill h with Some (t0, _) => px_sameb t0 (h_tm h) | None => true end.
Definition tsc_ok (h : hstate) : bool :=
  match h_tsc h with Some t0 => px_sameb t0 (h_tm h) | None => true end.

Lemma tsize_ext a b :
  cols a = cols b -> rows a = rows b -> xpx a = xpx b -> ypx a = ypx b -> a = b.
Proof. destruct a, b; simpl; intros; subst; reflexivity. Qed.

Lemma same_px_eq t0 t : same_cells t0 t = true -> px_sameb t0 t = true -> t0 = t.
Proof.
  unfold px_sameb, same_cells. intros C P. rewrite C in P. simpl in P.
  apply andb_prop in C. destruct C as [C1 C2]. apply andb_prop in P. destruct P as [P1 P2].
  apply Z.eqb_eq in C1, C2, P1, P2. now apply tsize_ext.
Qed.

Lemma same_cells_refl t : same_cells t t = true.
Proof. unfold same_cells. now rewrite !Z.eqb_refl. Qed.

Lemma px_sameb_refl t : px_sameb t t = true.
Proof. unfold px_sameb. rewrite same_cells_refl. simpl. now rewrite !Z.eqb_refl. Qed.

Lemma same_cells_sym a b : same_cells a b = same_cells b a.
Proof. unfold same_cells. now rewrite (Z.eqb_sym (cols a)), (Z.eqb_sym (rows a)). Qed.

(** a cell-size call: the model and the specification stay related and answer alike *)
Lemma sim_cell e s h :
  Sim e s h -> fill_ok h = true ->
  Sim e (fst (get_cs e s)) (fst (h_cell e h))
  /\ snd (get_cs e s) = snd (h_cell e h)
  /\ fill_ok (fst (h_cell e h)) = true.
Proof.
  intros S F. destruct S. unfold get_cs, h_cell.
  destruct (has_tty e) eqn:T; simpl.
  2:{ split; [constructor; rewrite ?T; auto|]. split; auto.
      unfold fresh_cs, get_cs. rewrite T. reflexivity. }
  unfold fill_ok in F. unfold cell_prov.
  destruct (h_fill h) as [[t0 b]|] eqn:HF.
  - (* an entry exists *)
    rewrite sim_csc0; simpl. rewrite sim_tm0.
    rewrite (Z.eqb_sym (cols (h_tm h))), (Z.eqb_sym (rows (h_tm h))).
    change ((cols t0 =? cols (h_tm h)) && (rows t0 =? rows (h_tm h))) with (same_cells t0 (h_tm h)).
    destruct (same_cells t0 (h_tm h)) eqn:C; simpl.
    + (* hit *)
      pose proof (same_px_eq _ _ C F) as ->.
      split; [constructor; rewrite ?T, ?HF; auto|]. split.
      * rewrite fresh_cs_eq, T by auto. now destruct (compute_cell e (h_tm h) (h_swap h) b).
      * unfold fill_ok. rewrite HF. auto.
    + (* miss: recompute *)
      split; [constructor; rewrite ?T; simpl; rewrite ?sim_swap0, ?sim_qen0, ?sim_ncs0; auto|].
      split.
      * rewrite fresh_cs_eq, T by auto. now rewrite sim_swap0, sim_qen0.
      * unfold fill_ok. simpl. apply px_sameb_refl.
  - (* no entry: the zero cache cannot match a terminal with at least one cell *)
    rewrite sim_csc0; simpl. rewrite sim_tm0.
    destruct (pos_size_spec _ sim_pos0) as [Pc Pr].
    destruct (cols (h_tm h) =? 0) eqn:E; [apply Z.eqb_eq in E; rewrite E in Pc; now apply Z.lt_irrefl in Pc|]. simpl.
    split; [constructor; rewrite ?T; simpl; rewrite ?sim_swap0, ?sim_qen0, ?sim_ncs0; auto|].
    split.
    * rewrite fresh_cs_eq, T by auto. now rewrite sim_swap0, sim_qen0.
    * unfold fill_ok. simpl. apply px_sameb_refl.
Qed.

Lemma sim_name e s h :
  Sim e s h ->
  Sim e (fst (get_nv e s)) (fst (h_name e h)) /\ snd (get_nv e s) = snd (h_name e h).
Proof.
  intros S. destruct S. unfold get_nv, h_name, nv_prov. rewrite sim_nv0.
  destruct (h_nv h) as [b|] eqn:HN; simpl.
  - split; [constructor; rewrite ?HN; auto|]. now rewrite fresh_nv_eq.
  - split; [constructor; simpl; rewrite ?sim_qen0, ?sim_nnv0; auto|].
    now rewrite fresh_nv_eq, sim_qen0.
Qed.

Lemma sim_colors e s h k :
  Sim e s h ->
  Sim e (fst (get_col e s k)) (fst (h_colors e h k)) /\ snd (get_col e s k) = snd (h_colors e h k).
Proof.
  intros S. destruct S. unfold get_col, h_colors, col_prov. rewrite sim_col0.
  destruct (h_col h k) as [b|] eqn:HC; simpl.
  - split; [constructor; rewrite ?HC; auto|]. now rewrite fresh_col_eq.
  - split; [constructor; simpl; rewrite ?sim_qen0, ?sim_ncol0; auto|].
    + intro k'. unfold upd. destruct (Nat.eqb k' k) eqn:E; simpl; auto.
      apply Nat.eqb_eq in E. now subst.
    + now rewrite fresh_col_eq, sim_qen0.
Qed.

Lemma sim_probe e s h :
  Sim e s h -> tsc_ok h = true ->
  Sim e (fst (get_tsc s)) (fst (h_probe h)) /\ snd (get_tsc s) = snd (h_probe h).
Proof.
  intros S F. destruct S. unfold get_tsc, h_probe, tsc_ok in *. rewrite sim_tsc0, sim_tm0.
  destruct (h_tsc h) as [t0|] eqn:HT; simpl.
  - rewrite (Z.eqb_sym (cols (h_tm h))), (Z.eqb_sym (rows (h_tm h))).
    change ((cols t0 =? cols (h_tm h)) && (rows t0 =? rows (h_tm h))) with (same_cells t0 (h_tm h)).
    destruct (same_cells t0 (h_tm h)) eqn:C; simpl.
    + pose proof (same_px_eq _ _ C F) as ->.
      split; [constructor; rewrite ?HT; auto|]. now rewrite fresh_tsc_eq.
    + split; [constructor; simpl; rewrite ?sim_ntsc0; auto|]. now rewrite fresh_tsc_eq.
  - split; [constructor; simpl; rewrite ?sim_ntsc0; auto|]. now rewrite fresh_tsc_eq.
Qed.

(** the probe with a resize landing during its body: the entry made is keyed by — and
    its provenance is — the terminal the body saw; the terminal is [t] afterwards *)
Lemma sim_probe_resize e s h t :
  Sim e s h -> tsc_ok h = true -> pos_size t = true ->
  Sim e (fst (get_tsc_resize s t)) (fst (h_probe_resize h t))
  /\ snd (get_tsc_resize s t) = snd (h_probe_resize h t).
Proof.
  intros S F P. destruct S. unfold get_tsc_resize, h_probe_resize, tsc_ok in *.
  rewrite sim_tsc0, sim_tm0.
  destruct (h_tsc h) as [t0|] eqn:HT; simpl.
  - rewrite (Z.eqb_sym (cols (h_tm h))), (Z.eqb_sym (rows (h_tm h))).
    change ((cols t0 =? cols (h_tm h)) && (rows t0 =? rows (h_tm h))) with (same_cells t0 (h_tm h)).
    destruct (same_cells t0 (h_tm h)) eqn:C; simpl.
    + pose proof (same_px_eq _ _ C F) as ->.
      split; [constructor; rewrite ?HT; auto|]. now rewrite fresh_tsc_eq.
    + split; [constructor; simpl; rewrite ?sim_ntsc0; auto|]. now rewrite fresh_tsc_eq.
  - split; [constructor; simpl; rewrite ?sim_ntsc0; auto|]. now rewrite fresh_tsc_eq.
Qed.

(** ** aborted computations: closed forms *)

Definition cs_hit (s : state) : bool := (cols (tm s) =? k_c (csc s)) && (rows (tm s) =? k_r (csc s)).
(** the call really waits for the terminal's reply (so an armed fault fires) *)
Definition cs_waits (e : tenv) (s : state) : bool :=
  has_tty e && negb (cs_hit s) && negb (ioctl_ok e (tm s)) && qen s.
Definition memo_waits {A} (e : tenv) (s : state) (entry : option A) : bool :=
  no_entry entry && (has_tty e && qen s).

(** an armed call either raises leaving the state alone, or IS the plain call *)
Lemma get_cs_abort_eq e s :
  get_cs_abort e s
  = if cs_waits e s then (s, None) else (fst (get_cs e s), Some (snd (get_cs e s))).
Proof.
  unfold get_cs_abort, get_cs, cs_waits, cs_hit, compute_cell, ioctl_ok.
  destruct (has_tty e); simpl; auto.
  destruct ((cols (tm s) =? k_c (csc s)) && (rows (tm s) =? k_r (csc s))); simpl; auto.
  destruct (io_px e && negb (has0 (xpx (tm s), ypx (tm s)))); simpl; auto.
  destruct (qen s); simpl; auto.
Qed.

Lemma get_nv_abort_eq e s :
  get_nv_abort e s
  = if memo_waits e s (m_nv s) then (s, None) else (fst (get_nv e s), Some (snd (get_nv e s))).
Proof.
  unfold get_nv_abort, get_nv, memo_waits. destruct (m_nv s); simpl; auto.
  destruct (has_tty e && qen s); simpl; auto.
Qed.

Lemma get_col_abort_eq e s k :
  get_col_abort e s k
  = if memo_waits e s (m_col s k) then (s, None)
    else (fst (get_col e s k), Some (snd (get_col e s k))).
Proof.
  unfold get_col_abort, get_col, memo_waits. destruct (m_col s k); simpl; auto.
  destruct (has_tty e && qen s); simpl; auto.
Qed.

Lemma get_ratio_abort_eq e s :
  get_ratio_abort e s
  = if match ratio s with Dynamic => cs_waits e s | Fixed _ => false end then (s, None)
    else (fst (get_ratio e s), Some (snd (get_ratio e s))).
Proof.
  unfold get_ratio_abort, get_ratio. destruct (ratio s); simpl; auto.
  rewrite get_cs_abort_eq. destruct (cs_waits e s); simpl; auto.
  now destruct (get_cs e s).
Qed.

Definition h_live (h : hstate) : bool :=
  match h_fill h with Some (t0, _) => same_cells t0 (h_tm h) | None => false end.

Lemma sim_hit e s h : Sim e s h -> cs_hit s = h_live h.
Proof.
  intros S. destruct S. unfold cs_hit, h_live. rewrite sim_csc0, sim_tm0.
  destruct (h_fill h) as [[t0 b]|]; simpl.
  - unfold same_cells. now rewrite (Z.eqb_sym (cols (h_tm h))), (Z.eqb_sym (rows (h_tm h))).
  - destruct (pos_size_spec _ sim_pos0) as [Pc Pr].
    destruct (cols (h_tm h) =? 0) eqn:E; [apply Z.eqb_eq in E; rewrite E in Pc; now apply Z.lt_irrefl in Pc|]. reflexivity.
Qed.

Lemma sim_waits e s h :
  Sim e s h -> cs_waits e s = negb (h_live h) && fresh_cs_waits e (h_tm h) (h_qen h).
Proof.
  intro S. unfold cs_waits, fresh_cs_waits. rewrite (sim_hit e s h S).
  rewrite (sim_tm _ _ _ S), (sim_qen _ _ _ S).
  destruct (has_tty e), (h_live h), (ioctl_ok e (h_tm h)), (h_qen h); reflexivity.
Qed.

Lemma sim_cell_abort e s h :
  Sim e s h -> fill_ok h = true ->
  Sim e (fst (get_cs_abort e s)) (fst (h_cell_abort e h))
  /\ snd (get_cs_abort e s) = snd (h_cell_abort e h)
  /\ fill_ok (fst (h_cell_abort e h)) = true.
Proof.
  intros S F. rewrite get_cs_abort_eq. unfold h_cell_abort. fold (h_live h).
  rewrite (sim_waits e s h S).
  destruct (negb (h_live h) && fresh_cs_waits e (h_tm h) (h_qen h)); simpl; auto.
  destruct (sim_cell e s h S F) as (S' & A & F').
  destruct (h_cell e h); simpl in *. rewrite A. auto.
Qed.

Lemma sim_get_ratio_abort e s h :
  Sim e s h -> fill_ok h = true ->
  Sim e (fst (get_ratio_abort e s)) (fst (h_get_ratio_abort e h))
  /\ snd (get_ratio_abort e s) = snd (h_get_ratio_abort e h).
Proof.
  intros S F. unfold get_ratio_abort, h_get_ratio_abort. rewrite (sim_ratio _ _ _ S).
  destruct (h_ratio h); simpl; auto.
  destruct (sim_cell_abort e s h S F) as (S' & A & _).
  destruct (get_cs_abort e s), (h_cell_abort e h); simpl in *. split; auto. now subst.
Qed.

Lemma sim_name_abort e s h :
  Sim e s h ->
  Sim e (fst (get_nv_abort e s)) (fst (h_name_abort e h))
  /\ snd (get_nv_abort e s) = snd (h_name_abort e h).
Proof.
  intros S. rewrite get_nv_abort_eq. unfold h_name_abort, memo_waits, fresh_memo_waits.
  rewrite (sim_nv _ _ _ S), (sim_qen _ _ _ S).
  assert (E : forall A B (f : A -> B) x, no_entry (option_map f x) = no_entry x)
    by (now destruct x).
  rewrite E.
  destruct (no_entry (h_nv h) && (has_tty e && h_qen h)); simpl; auto.
  destruct (sim_name e s h S) as (S' & A).
  destruct (h_name e h); simpl in *. rewrite A. auto.
Qed.

Lemma sim_colors_abort e s h k :
  Sim e s h ->
  Sim e (fst (get_col_abort e s k)) (fst (h_colors_abort e h k))
  /\ snd (get_col_abort e s k) = snd (h_colors_abort e h k).
Proof.
  intros S. rewrite get_col_abort_eq. unfold h_colors_abort, memo_waits, fresh_memo_waits.
  rewrite (sim_col _ _ _ S), (sim_qen _ _ _ S).
  assert (E : forall A B (f : A -> B) x, no_entry (option_map f x) = no_entry x)
    by (now destruct x).
  rewrite E.
  destruct (no_entry (h_col h k) && (has_tty e && h_qen h)); simpl; auto.
  destruct (sim_colors e s h k S) as (S' & A).
  destruct (h_colors e h k); simpl in *. rewrite A. auto.
Qed.

Lemma sim_set_supp e s h v : Sim e s h -> Sim e (set_supp s v) (hset_supp h v).
Proof. intros []. constructor; auto. Qed.

Lemma sim_set_ratio e s h v : Sim e s h -> Sim e (set_ratio s v) (hset_ratio h v).
Proof. intros []. constructor; auto. Qed.

Lemma sim_get_ratio e s h :
  Sim e s h -> fill_ok h = true ->
  Sim e (fst (get_ratio e s)) (fst (h_get_ratio e h))
  /\ snd (get_ratio e s) = snd (h_get_ratio e h).
Proof.
  intros S F. unfold get_ratio, h_get_ratio. rewrite (sim_ratio _ _ _ S).
  destruct (h_ratio h); simpl; auto.
  destruct (sim_cell e s h S F) as (S' & A & _).
  destruct (get_cs e s), (h_cell e h); simpl in *. split; auto. now subst.
Qed.

Lemma sim_set_cell_ratio e s h m :
  Sim e s h -> fill_ok h = true ->
  Sim e (fst (set_cell_ratio e s m)) (fst (h_set_ratio e h m))
  /\ snd (set_cell_ratio e s m) = snd (h_set_ratio e h m).
Proof.
  intros S F.
  assert (Auto : forall fixed : bool,
             let m := if fixed then RAutoFixed else RAutoDynamic in
             Sim e (fst (set_cell_ratio e s m)) (fst (h_set_ratio e h m))
             /\ snd (set_cell_ratio e s m) = snd (h_set_ratio e h m)).
  { intro fixed.
    (* the support check *)
    assert (Sup : let r1 := match supp s with
                            | None => let (s', cs) := get_cs e s in
                                      (set_supp s' (Some (negb (has0 cs))), negb (has0 cs))
                            | Some b => (s, b) end in
                  let r2 := match h_supp h with
                            | None => let (h', cs) := h_cell e h in
                                      (hset_supp h' (Some (negb (has0 cs))), negb (has0 cs))
                            | Some b => (h, b) end in
                  Sim e (fst r1) (fst r2) /\ snd r1 = snd r2 /\ fill_ok (fst r2) = true).
    { rewrite (sim_supp _ _ _ S). destruct (h_supp h); simpl; auto.
      destruct (sim_cell e s h S F) as (S' & A & F').
      destruct (get_cs e s), (h_cell e h); simpl in *. subst.
      split; [now apply sim_set_supp|]. split; auto. }
    simpl in Sup.
    destruct fixed; simpl;
      destruct (match supp s with
                | None => let (s', cs) := get_cs e s in
                          (set_supp s' (Some (negb (has0 cs))), negb (has0 cs))
                | Some b => (s, b) end) as [s1 sup1];
      destruct (match h_supp h with
                | None => let (h', cs) := h_cell e h in
                          (hset_supp h' (Some (negb (has0 cs))), negb (has0 cs))
                | Some b => (h, b) end) as [h1 sup2];
      simpl in Sup; destruct Sup as (S1 & -> & F1);
      destruct sup2; simpl; auto.
    - destruct (sim_cell e s1 h1 S1 F1) as (S2 & A & _).
      destruct (get_cs e s1), (h_cell e h1); simpl in *. subst.
      split; auto. now apply sim_set_ratio.
    - split; auto. now apply sim_set_ratio. }
  destruct m.
  - exact (Auto true).
  - exact (Auto false).
  - simpl. destruct (n <=? 0); simpl; auto. split; auto. now apply sim_set_ratio.
Qed.

(** ** one operation *)
Lemma sim_step e s h o :
  kitty_memo e = false ->
  Sim e s h -> op_pos o = true -> read_okb h o = true ->
  Sim e (fst (step e s o)) (fst (hstep e h o)) /\ snd (step e s o) = snd (hstep e h o).
Proof.
  intros K S P R. unfold read_okb in R. apply andb_prop in R. destruct R as [R1 R2].
  destruct o; simpl in *.
  - (* Resize *) destruct S. split; auto. constructor; auto.
  - (* EnableSwap *)
    rewrite (sim_swap _ _ _ S). destruct (h_swap h); simpl; auto.
    destruct S. split; auto. constructor; simpl; auto.
  - rewrite (sim_swap _ _ _ S). destruct (h_swap h); simpl; auto.
    destruct S. split; auto. constructor; simpl; auto.
  - (* EnableQueries *)
    rewrite (sim_qen _ _ _ S). destruct (h_qen h); simpl; auto.
    destruct S. split; auto. constructor; simpl; auto.
  - destruct S. split; auto. constructor; auto.
  - (* SetRatio *)
    assert (F : (forall n d, m <> RFloat n d) -> fill_ok h = true).
    { intro NF. unfold fill_ok. destruct m; simpl in R1; auto. now destruct (NF n d). }
    destruct m as [| |n d].
    3:{ simpl. destruct (n <=? 0); simpl; auto. split; auto. now apply sim_set_ratio. }
    + assert (F' : fill_ok h = true) by (apply F; discriminate).
      destruct (sim_set_cell_ratio e s h RAutoFixed S F') as [S' A].
      destruct (set_cell_ratio e s RAutoFixed), (h_set_ratio e h RAutoFixed); simpl in *; now subst.
    + assert (F' : fill_ok h = true) by (apply F; discriminate).
      destruct (sim_set_cell_ratio e s h RAutoDynamic S F') as [S' A].
      destruct (set_cell_ratio e s RAutoDynamic), (h_set_ratio e h RAutoDynamic); simpl in *; now subst.
  - (* GetCellSize *)
    destruct (sim_cell e s h S R1) as (S' & A & _).
    destruct (get_cs e s), (h_cell e h); simpl in *. now subst.
  - destruct (sim_get_ratio e s h S R1) as (S' & A).
    destruct (get_ratio e s), (h_get_ratio e h); simpl in *. now subst.
  - destruct (sim_colors e s h k S) as (S' & A).
    destruct (get_col e s k), (h_colors e h k); simpl in *. now subst.
  - destruct (sim_name e s h S) as (S' & A).
    destruct (get_nv e s), (h_name e h); simpl in *. now subst.
  - (* IsOnKitty, after the fix: derived from the memoised getter on every call *)
    unfold get_kitty. rewrite K.
    destruct (sim_name e s h S) as (S' & A).
    destruct (get_nv e s), (h_name e h); simpl in *. now subst.
  - destruct (sim_probe e s h S R2) as (S' & A).
    destruct (get_tsc s), (h_probe h); simpl in *. now subst.
  - (* the probe with a resize during its body *)
    destruct (sim_probe_resize e s h t S R2 P) as (S' & A).
    destruct (get_tsc_resize s t), (h_probe_resize h t); simpl in *. now subst.
  - (* the armed calls *)
    destruct (sim_cell_abort e s h S R1) as (S' & A & _).
    destruct (get_cs_abort e s), (h_cell_abort e h); simpl in *. now subst.
  - destruct (sim_get_ratio_abort e s h S R1) as (S' & A).
    destruct (get_ratio_abort e s), (h_get_ratio_abort e h); simpl in *. now subst.
  - destruct (sim_colors_abort e s h k S) as (S' & A).
    destruct (get_col_abort e s k), (h_colors_abort e h k); simpl in *. now subst.
  - destruct (sim_name_abort e s h S) as (S' & A).
    destruct (get_nv_abort e s), (h_name_abort e h); simpl in *. now subst.
Qed.

Lemma sim_init e t0 : pos_size t0 = true -> Sim e (init t0) (hinit t0).
Proof. intro P. constructor; simpl; auto. Qed.

(** ** whole histories *)
Lemma sim_run e ops : forall s h,
  kitty_memo e = false -> Sim e s h ->
  forallb op_pos ops = true -> px_okb e h ops = true ->
  Sim e (run_from e s ops) (hrun_from e h ops)
  /\ trace e s ops = spec_trace e h ops.
Proof.
  induction ops as [|o r IH]; intros s h K S P X; simpl in *; auto.
  apply andb_prop in P. destruct P as [P1 P2]. apply andb_prop in X. destruct X as [X1 X2].
  destruct (sim_step e s h o K S P1 X1) as [S' A].
  destruct (step e s o) as [s' out], (hstep e h o) as [h' out']; simpl in *. subst.
  destruct (IH s' h' K S' P2 X2) as [S'' T]. split; auto.
  f_equal; auto. f_equal. destruct S'. unfold counters, hcounters. congruence.
Qed.

Lemma wf_sizes_split t0 ops : wf_sizes t0 ops = true -> pos_size t0 = true /\ forallb op_pos ops = true.
Proof. unfold wf_sizes. intro H. now apply andb_prop in H. Qed.

Lemma px_okb_app e ops1 : forall h ops2,
  px_okb e h (ops1 ++ ops2) = px_okb e h ops1 && px_okb e (hrun_from e h ops1) ops2.
Proof.
  induction ops1 as [|o r IH]; intros h ops2; simpl; auto.
  rewrite IH. now rewrite andb_assoc.
Qed.

(** the model's whole observable behaviour is the specification's *)
Lemma trace_eq_spec e t0 ops :
  kitty_memo e = false -> wf_sizes t0 ops = true -> px_ok e t0 ops ->
  trace e (init t0) ops = spec_trace e (hinit t0) ops.
Proof.
  intros K W X. apply wf_sizes_split in W. destruct W as [W1 W2].
  now apply (sim_run e ops (init t0) (hinit t0) K (sim_init e t0 W1) W2 X).
Qed.

Lemma sim_after e t0 ops :
  kitty_memo e = false -> wf_sizes t0 ops = true -> px_ok e t0 ops ->
  Sim e (run e t0 ops) (hrun e t0 ops).
Proof.
  intros K W X. apply wf_sizes_split in W. destruct W as [W1 W2].
  now apply (sim_run e ops (init t0) (hinit t0) K (sim_init e t0 W1) W2 X).
Qed.

(** ** the general statement: a getter's answer is the fresh answer for the current
    terminal and swap setting, under the status in force when its entry was made *)
Lemma getter_fresh e t0 ops o :
  kitty_memo e = false -> wf_sizes t0 (ops ++ [o]) = true -> px_ok e t0 (ops ++ [o]) ->
  let s := run e t0 ops in
  let h := hrun e t0 ops in
  is_getter h o = true ->
  snd (step e s o) = fresh_answer e (tm s) (swap s) (prov h o) o.
Proof.
  intros K W X s h G.
  unfold px_ok in X. rewrite px_okb_app in X. apply andb_prop in X. destruct X as [X1 X2].
  apply wf_sizes_split in W. destruct W as [W1 W2]. rewrite forallb_app in W2.
  apply andb_prop in W2. destruct W2 as [W2 W3].
  assert (S : Sim e s h).
  { apply sim_after; auto. unfold wf_sizes. now rewrite W1, W2. }
  simpl in X2, W3. rewrite !andb_true_r in *. fold (hrun e t0 ops) in X2. fold h in X2.
  destruct (sim_step e s h o K S W3 X2) as [_ A]. rewrite A.
  rewrite (sim_tm _ _ _ S), (sim_swap _ _ _ S).
  destruct o; simpl in *; try discriminate.
  - unfold h_cell. destruct (negb (has_tty e) || _); reflexivity.
  - unfold h_get_ratio. destruct (h_ratio h); try discriminate.
    unfold h_cell. rewrite fresh_dyn_ratio_eq.
    destruct (negb (has_tty e) || _); reflexivity.
  - unfold h_colors. destruct (h_col h k); reflexivity.
  - unfold h_name. destruct (h_nv h); reflexivity.
  - unfold h_name. destruct (h_nv h); reflexivity.
  - unfold h_probe. destruct (match h_tsc h with Some t1 => same_cells t1 (h_tm h) | None => false end); reflexivity.
  - unfold h_probe_resize. destruct (match h_tsc h with Some t1 => same_cells t1 (h_tm h) | None => false end); reflexivity.
Qed.

(** ** re-enabling queries discards what was obtained while they were disabled

    History-level invariant: while queries are enabled, every live entry was made with
    queries enabled. *)
Definition Prov (h : hstate) : Prop :=
  h_qen h = true ->
  (forall t0 b, h_fill h = Some (t0, b) -> b = true)
  /\ (forall k b, h_col h k = Some b -> b = true)
  /\ (forall b, h_nv h = Some b -> b = true).

Lemma prov_cell e h : Prov h -> Prov (fst (h_cell e h)).
Proof.
  intros P. unfold h_cell. destruct (negb (has_tty e) || _); simpl; auto.
  intro Q. destruct (P Q) as (A & B & C). repeat split; auto.
  simpl. intros t0 b H. inversion H. now subst.
Qed.

Lemma prov_set_supp h v : Prov h -> Prov (hset_supp h v).
Proof. auto. Qed.
Lemma prov_set_ratio h v : Prov h -> Prov (hset_ratio h v).
Proof. auto. Qed.

Lemma prov_set_cell_ratio e h m : Prov h -> Prov (fst (h_set_ratio e h m)).
Proof.
  intro P. unfold h_set_ratio.
  assert (P1 : Prov (fst (match h_supp h with
                          | None => let (h', cs) := h_cell e h in
                                    (hset_supp h' (Some (negb (has0 cs))), negb (has0 cs))
                          | Some b => (h, b) end))).
  { destruct (h_supp h); simpl; auto. pose proof (prov_cell e h P) as P'.
    destruct (h_cell e h); simpl in *. now apply prov_set_supp. }
  destruct m.
  - destruct (match h_supp h with
              | None => let (h', cs) := h_cell e h in
                        (hset_supp h' (Some (negb (has0 cs))), negb (has0 cs))
              | Some b => (h, b) end) as [h1 sup]; simpl in *.
    destruct sup; simpl; auto. pose proof (prov_cell e h1 P1) as P2.
    destruct (h_cell e h1); simpl in *. now apply prov_set_ratio.
  - destruct (match h_supp h with
              | None => let (h', cs) := h_cell e h in
                        (hset_supp h' (Some (negb (has0 cs))), negb (has0 cs))
              | Some b => (h, b) end) as [h1 sup]; simpl in *.
    destruct sup; simpl; auto.
  - destruct (n <=? 0); simpl; auto.
Qed.

Lemma prov_step_colors e h k : Prov h -> Prov (fst (h_colors e h k)).
Proof.
  intro P. unfold h_colors. destruct (h_col h k) eqn:HC; simpl; auto.
  intro Q. destruct (P Q) as (A & B & C). repeat split; auto. simpl.
  intros k' b. unfold upd. destruct (Nat.eqb k' k); eauto. intro H. inversion H. now subst.
Qed.

Lemma prov_step_name e h : Prov h -> Prov (fst (h_name e h)).
Proof.
  intro P. unfold h_name. destruct (h_nv h) eqn:HN; simpl; auto.
  intro Q. destruct (P Q) as (A & B & C). repeat split; auto. simpl.
  intros b H. inversion H. now subst.
Qed.

Lemma prov_step e h o : Prov h -> Prov (fst (hstep e h o)).
Proof.
  intro P. destruct o; simpl; auto.
  - destruct (h_swap h); simpl; auto. intro Q. destruct (P Q) as (A & B & C).
    repeat split; auto. simpl. discriminate.
  - destruct (h_swap h); simpl; auto. intro Q. destruct (P Q) as (A & B & C).
    repeat split; auto. simpl. discriminate.
  - destruct (h_qen h) eqn:Q; simpl; auto. intros _. repeat split; simpl; discriminate.
  - intro Q. discriminate.
  - pose proof (prov_set_cell_ratio e h m P). now destruct (h_set_ratio e h m).
  - pose proof (prov_cell e h P). now destruct (h_cell e h).
  - unfold h_get_ratio. destruct (h_ratio h); simpl; auto.
    pose proof (prov_cell e h P). now destruct (h_cell e h).
  - unfold h_colors. destruct (h_col h k) eqn:HC; simpl; auto.
    intro Q. destruct (P Q) as (A & B & C). repeat split; auto. simpl.
    intros k' b. unfold upd. destruct (Nat.eqb k' k); eauto. intro H. inversion H. now subst.
  - unfold h_name. destruct (h_nv h) eqn:HN; simpl; auto.
    intro Q. destruct (P Q) as (A & B & C). repeat split; auto. simpl.
    intros b H. inversion H. now subst.
  - unfold h_name. destruct (h_nv h) eqn:HN; simpl; auto.
    intro Q. destruct (P Q) as (A & B & C). repeat split; auto. simpl.
    intros b H. inversion H. now subst.
  - unfold h_probe. destruct (match h_tsc h with Some t0 => same_cells t0 (h_tm h) | None => false end); simpl; auto.
  - unfold h_probe_resize. destruct (match h_tsc h with Some t0 => same_cells t0 (h_tm h) | None => false end); simpl; auto.
  - (* the armed calls: either nothing changes or the plain call is made *)
    unfold h_cell_abort. destruct (_ && _); simpl; auto.
    pose proof (prov_cell e h P). now destruct (h_cell e h).
  - unfold h_get_ratio_abort. destruct (h_ratio h); simpl; auto.
    unfold h_cell_abort. destruct (_ && _); simpl; auto.
    pose proof (prov_cell e h P). now destruct (h_cell e h).
  - unfold h_colors_abort. destruct (_ && _); simpl; auto.
    pose proof (prov_step_colors e h k P). now destruct (h_colors e h k).
  - unfold h_name_abort. destruct (_ && _); simpl; auto.
    pose proof (prov_step_name e h P). now destruct (h_name e h).
Qed.

Lemma prov_run e ops : forall h, Prov h -> Prov (hrun_from e h ops).
Proof.
  induction ops as [|o r IH]; intros h P; simpl; auto. apply IH. now apply prov_step.
Qed.

Lemma prov_hrun e t0 ops : Prov (hrun e t0 ops).
Proof. apply prov_run. intros _. repeat split; simpl; discriminate. Qed.

(** whenever queries are enabled, the status under which every served entry was made is
    "enabled" — whatever happened before (in particular after any [EnableQueries]) *)
Lemma enabled_prov_true e t0 ops o :
  h_qen (hrun e t0 ops) = true -> prov (hrun e t0 ops) o = true.
Proof.
  intro Q. destruct (prov_hrun e t0 ops Q) as (A & B & C).
  set (h := hrun e t0 ops) in *.
  assert (CP : cell_prov h = true).
  { unfold cell_prov. destruct (h_fill h) as [[t1 b]|] eqn:F; auto.
    destruct (same_cells t1 (h_tm h)); eauto. }
  destruct o; simpl; auto.
  - unfold col_prov. destruct (h_col h k) eqn:E; eauto.
  - unfold nv_prov. destruct (h_nv h) eqn:E; eauto.
  - unfold nv_prov. destruct (h_nv h) eqn:E; eauto.
Qed.

Lemma reenable_discards_lemma e t0 ops o :
  kitty_memo e = false -> wf_sizes t0 (ops ++ [o]) = true -> px_ok e t0 (ops ++ [o]) ->
  let s := run e t0 ops in
  qen s = true -> is_getter (hrun e t0 ops) o = true ->
  snd (step e s o) = fresh_answer e (tm s) (swap s) true o.
Proof.
  intros K W X s Q G. unfold s. rewrite getter_fresh; auto.
  rewrite enabled_prov_true; auto.
  assert (S : Sim e (run e t0 ops) (hrun e t0 ops)).
  { unfold px_ok in X. rewrite px_okb_app in X. apply andb_prop in X. destruct X as [X1 _].
    apply wf_sizes_split in W. destruct W as [W1 W2]. rewrite forallb_app in W2.
    apply andb_prop in W2. destruct W2 as [W2 _].
    apply sim_after; auto. unfold wf_sizes. now rewrite W1, W2. }
  rewrite <- (sim_qen _ _ _ S). exact Q.
Qed.

(** the last operation of the history that touched the switch decides it *)
Lemma qen_after_enable e s : qen (fst (step e s EnableQueries)) = true.
Proof. simpl. destruct (qen s) eqn:Q; simpl; auto. Qed.

Definition keeps_queries (o : op) : bool := match o with DisableQueries => false | _ => true end.

Lemma qen_get_cs e s : qen s = true -> qen (fst (get_cs e s)) = true.
Proof.
  intro Q. unfold get_cs. destruct (negb (has_tty e)); simpl; auto. destruct (_ && _); simpl; auto.
Qed.

Lemma qen_kept e o s : keeps_queries o = true -> qen s = true -> qen (fst (step e s o)) = true.
Proof.
  intros Kp Q. destruct o; simpl in *; try discriminate; auto.
  - destruct (swap s); auto.
  - destruct (swap s); auto.
  - now rewrite Q.
  - unfold set_cell_ratio. destruct m.
    + destruct (supp s); [|unfold get_cs; destruct (negb (has_tty e)); [|destruct (_ && _)]]; simpl.
      all: repeat match goal with
                  | |- context [if ?c then _ else _] => destruct c; simpl
                  end; auto.
      all: unfold get_cs; simpl; repeat match goal with
                  | |- context [if ?c then _ else _] => destruct c; simpl
                  end; auto.
    + destruct (supp s); [|unfold get_cs; destruct (negb (has_tty e)); [|destruct (_ && _)]]; simpl.
      all: repeat match goal with
                  | |- context [if ?c then _ else _] => destruct c; simpl
                  end; auto.
    + destruct (n <=? 0); auto.
  - unfold get_cs. repeat match goal with
                  | |- context [if ?c then _ else _] => destruct c; simpl
                  end; auto.
  - unfold get_ratio, get_cs. destruct (ratio s); simpl; auto.
    repeat match goal with
           | |- context [if ?c then _ else _] => destruct c; simpl
           end; auto.
  - unfold get_col. destruct (m_col s k); auto.
  - unfold get_nv. destruct (m_nv s); auto.
  - unfold get_kitty, get_nv. destruct (kitty_memo e); [destruct (m_kit s)|]; destruct (m_nv s); auto.
  - unfold get_tsc. destruct (tsc s) as [[v [c r]]|]; simpl; auto.
    destruct (_ && _); auto.
  - unfold get_tsc_resize. destruct (tsc s) as [[v [c r]]|]; simpl; auto.
    destruct (_ && _); auto.
  - rewrite get_cs_abort_eq. destruct (cs_waits e s); simpl; auto. apply qen_get_cs; auto.
  - rewrite get_ratio_abort_eq. destruct (match ratio s with Dynamic => _ | Fixed _ => _ end); simpl; auto.
    unfold get_ratio. destruct (ratio s); simpl; auto.
    pose proof (qen_get_cs e s Q). now destruct (get_cs e s).
  - rewrite get_col_abort_eq. destruct (memo_waits e s _); simpl; auto.
    unfold get_col. destruct (m_col s k); auto.
  - rewrite get_nv_abort_eq. destruct (memo_waits e s _); simpl; auto.
    unfold get_nv. destruct (m_nv s); auto.
Qed.

Lemma run_from_app e ops1 : forall s ops2,
  run_from e s (ops1 ++ ops2) = run_from e (run_from e s ops1) ops2.
Proof. induction ops1; intros; simpl; auto. Qed.

Lemma qen_run_kept e ops : forall s,
  forallb keeps_queries ops = true -> qen s = true -> qen (run_from e s ops) = true.
Proof.
  induction ops as [|o r IH]; intros s F Q; simpl in *; auto.
  apply andb_prop in F. destruct F. apply IH; auto. now apply qen_kept.
Qed.

Lemma reenable_discards_full e t0 ops1 ops2 o :
  kitty_memo e = false ->
  let ops := ops1 ++ EnableQueries :: ops2 in
  wf_sizes t0 (ops ++ [o]) = true -> px_ok e t0 (ops ++ [o]) ->
  forallb keeps_queries ops2 = true ->
  let s := run e t0 ops in
  is_getter (hrun e t0 ops) o = true ->
  snd (step e s o) = fresh_answer e (tm s) (swap s) true o.
Proof.
  intros K ops W X F s G. apply reenable_discards_lemma; auto.
  unfold ops, run. rewrite run_from_app.
  change (run_from e (run_from e (init t0) ops1) (EnableQueries :: ops2))
    with (run_from e (fst (step e (run_from e (init t0) ops1) EnableQueries)) ops2).
  apply qen_run_kept; auto. apply qen_after_enable.
Qed.

(** ** FIXED is a snapshot *)

Lemma get_cs_set_supp e s v :
  get_cs e (set_supp s v) = (set_supp (fst (get_cs e s)) v, snd (get_cs e s)).
Proof.
  unfold get_cs. simpl. destruct (negb (has_tty e)); simpl; auto.
  destruct (_ && _); simpl; auto.
Qed.

Lemma get_cs_idem e s : get_cs e (fst (get_cs e s)) = (fst (get_cs e s), snd (get_cs e s)).
Proof.
  unfold get_cs. destruct (negb (has_tty e)) eqn:T; simpl; rewrite ?T; auto.
  destruct ((cols (tm s) =? k_c (csc s)) && (rows (tm s) =? k_r (csc s))) eqn:H; simpl.
  - rewrite ?T, H. reflexivity.
  - rewrite ?T. simpl. rewrite !Z.eqb_refl. simpl.
    now destruct (compute_cell e (tm s) (swap s) (qen s)).
Qed.

Definition snapshot (e : tenv) (s : state) (m : rarg) : Z * Z :=
  match m with
  | RFloat n d => (n, d)
  | _ => ratio_of (snd (get_cs e s))   (* the cell size the terminal has NOW *)
  end.

Lemma set_ratio_fixed e s m :
  snd (set_cell_ratio e s m) = 0 -> m <> RAutoDynamic ->
  ratio (fst (set_cell_ratio e s m)) = Fixed (snapshot e s m).
Proof.
  intros Ok ND. destruct m; try congruence; simpl in *.
  - destruct (supp s) as [[|]|] eqn:SP; simpl in *; try discriminate.
    + destruct (get_cs e s); reflexivity.
    + destruct (get_cs e s) as [s' cs] eqn:G. simpl in *.
      destruct (has0 cs) eqn:Z0; simpl in *; try discriminate.
      rewrite get_cs_set_supp. pose proof (get_cs_idem e s) as I. rewrite G in I. simpl in I.
      rewrite I. reflexivity.
  - destruct (n <=? 0); simpl in *; try discriminate. reflexivity.
Qed.

Definition is_setratio (o : op) : bool := match o with SetRatio _ => true | _ => false end.

Lemma ratio_get_cs e s : ratio (fst (get_cs e s)) = ratio s.
Proof.
  unfold get_cs. destruct (negb (has_tty e)); simpl; auto. destruct (_ && _); simpl; auto.
Qed.

Lemma ratio_frame e s o : is_setratio o = false -> ratio (fst (step e s o)) = ratio s.
Proof.
  intro N. destruct o; simpl in *; try discriminate; auto.
  - destruct (swap s); auto.
  - destruct (swap s); auto.
  - destruct (qen s); auto.
  - pose proof (ratio_get_cs e s). now destruct (get_cs e s).
  - unfold get_ratio. destruct (ratio s) eqn:R; simpl; auto.
    pose proof (ratio_get_cs e s). destruct (get_cs e s). simpl in *. congruence.
  - unfold get_col. destruct (m_col s k); auto.
  - unfold get_nv. destruct (m_nv s); auto.
  - unfold get_kitty, get_nv. destruct (kitty_memo e); [destruct (m_kit s)|]; destruct (m_nv s); auto.
  - unfold get_tsc. destruct (tsc s) as [[v [c r]]|]; simpl; auto. destruct (_ && _); auto.
  - unfold get_tsc_resize. destruct (tsc s) as [[v [c r]]|]; simpl; auto. destruct (_ && _); auto.
  - rewrite get_cs_abort_eq. destruct (cs_waits e s); simpl; auto. apply ratio_get_cs.
  - rewrite get_ratio_abort_eq. destruct (match ratio s with Dynamic => _ | Fixed _ => _ end); simpl; auto.
    unfold get_ratio. destruct (ratio s) eqn:R; simpl; auto.
    pose proof (ratio_get_cs e s). destruct (get_cs e s). simpl in *. congruence.
  - rewrite get_col_abort_eq. destruct (memo_waits e s _); simpl; auto.
    unfold get_col. destruct (m_col s k); auto.
  - rewrite get_nv_abort_eq. destruct (memo_waits e s _); simpl; auto.
    unfold get_nv. destruct (m_nv s); auto.
Qed.

Lemma ratio_run_frame e ops : forall s,
  forallb (fun o => negb (is_setratio o)) ops = true -> ratio (run_from e s ops) = ratio s.
Proof.
  induction ops as [|o r IH]; intros s F; simpl in *; auto.
  apply andb_prop in F. destruct F as [F1 F2]. rewrite IH; auto.
  apply ratio_frame. now apply negb_true_iff.
Qed.

Lemma fixed_ratio_is_snapshot_lemma e s m ops :
  snd (set_cell_ratio e s m) = 0 -> m <> RAutoDynamic ->
  forallb (fun o => negb (is_setratio o)) ops = true ->
  snd (step e (run_from e (fst (set_cell_ratio e s m)) ops) GetCellRatio)
  = view_ratio (snapshot e s m).
Proof.
  intros Ok ND F. simpl. unfold get_ratio.
  rewrite ratio_run_frame, set_ratio_fixed; auto.
Qed.

(** ** derived facts *)

Lemma kitty_is_derived e s :
  kitty_memo e = false ->
  step e s IsOnKitty = (fst (get_nv e s), view_b (is_kitty (snd (get_nv e s)))).
Proof. intro K. simpl. unfold get_kitty. rewrite K. now destruct (get_nv e s). Qed.

(** the code before the fix ([_is_on_kitty] memoised on its own, never invalidated)
    refutes the statement: F9 *)
Definition f9_env : tenv :=
  {| has_tty := true; io_px := true; xt_cell := true; xt_area := true;
     xt_name := Some (KITTY, 1); env_name := (4, 3); col_fg := 0; col_bg := 0;
     kitty_memo := true |}.
Definition f9_t0 : tsize := {| cols := 80; rows := 24; xpx := 800; ypx := 480 |}.
Definition f9_ops : list op := [DisableQueries; IsOnKitty; EnableQueries].

Lemma derived_facts_refuted_before_fix :
  exists e t0 ops,
    kitty_memo e = true /\ wf_sizes t0 (ops ++ [IsOnKitty]) = true /\ px_ok e t0 (ops ++ [IsOnKitty])
    /\ qen (run e t0 ops) = true
    /\ snd (step e (run e t0 ops) IsOnKitty)
       <> fresh_answer e (tm (run e t0 ops)) (swap (run e t0 ops)) true IsOnKitty.
Proof.
  exists f9_env, f9_t0, f9_ops. repeat split; try reflexivity. vm_compute. discriminate.
Qed.

(** ** non-vacuity: a history that satisfies the hypotheses and exercises a stale-prone
    path (compute, swap toggle, recompute at an unchanged size; disable, resize,
    compute, re-enable) with answers that really change *)
Definition nv_env : tenv :=
  {| has_tty := true; io_px := false; xt_cell := false; xt_area := true;
     xt_name := Some (KITTY, 1); env_name := (4, 3); col_fg := 255; col_bg := -1;
     kitty_memo := false |}.
Definition nv_ops : list op :=
  [GetCellSize; EnableSwap; GetCellSize; DisableQueries; GetCellSize;
   Resize {| cols := 100; rows := 30; xpx := 1000; ypx := 600 |}; GetCellSize; IsOnKitty;
   EnableQueries; GetCellSize; IsOnKitty; SetRatio RAutoDynamic; GetCellRatio].

Example hypotheses_satisfiable :
  kitty_memo nv_env = false /\ wf_sizes f9_t0 nv_ops = true /\ px_ok nv_env f9_t0 nv_ops
  /\ map fst (trace nv_env (init f9_t0) nv_ops)
     = [[1; 10; 20]; []; [1; 6; 33]; []; [1; 6; 33]; []; [0]; [0]; []; [1; 6; 33]; [1]; [0]; [6; 33]].
Proof. repeat split; vm_compute; reflexivity. Qed.

(** ** the statements of props/C15.v *)

Lemma cell_size_fresh e t0 ops :
  kitty_memo e = false ->
  wf_sizes t0 (ops ++ [GetCellSize]) = true -> px_ok e t0 (ops ++ [GetCellSize]) ->
  let s := run e t0 ops in
  snd (step e s GetCellSize)
  = view_cs (fresh_cs e (tm s) (swap s) (cell_prov (hrun e t0 ops))).
Proof. intros K W X. exact (getter_fresh e t0 ops GetCellSize K W X eq_refl). Qed.

Lemma dynamic_ratio_fresh e t0 ops :
  kitty_memo e = false ->
  wf_sizes t0 (ops ++ [GetCellRatio]) = true -> px_ok e t0 (ops ++ [GetCellRatio]) ->
  let s := run e t0 ops in
  ratio s = Dynamic ->
  snd (step e s GetCellRatio)
  = view_ratio (fresh_dyn_ratio e (tm s) (swap s) (cell_prov (hrun e t0 ops))).
Proof.
  intros K W X s D.
  assert (S : Sim e s (hrun e t0 ops)).
  { unfold px_ok in X. rewrite px_okb_app in X. apply andb_prop in X. destruct X as [X1 _].
    apply wf_sizes_split in W. destruct W as [W1 W2]. rewrite forallb_app in W2.
    apply andb_prop in W2. destruct W2 as [W2 _].
    apply sim_after; auto. unfold wf_sizes. now rewrite W1, W2. }
  apply (getter_fresh e t0 ops GetCellRatio K W X). simpl.
  rewrite <- (sim_ratio _ _ _ S). fold s. now rewrite D.
Qed.

Lemma colors_fresh e t0 ops k :
  kitty_memo e = false ->
  wf_sizes t0 (ops ++ [GetColors k]) = true -> px_ok e t0 (ops ++ [GetColors k]) ->
  let s := run e t0 ops in
  snd (step e s (GetColors k))
  = view_col (fresh_col e (tm s) (swap s) (col_prov (hrun e t0 ops) k) k).
Proof. intros K W X. exact (getter_fresh e t0 ops (GetColors k) K W X eq_refl). Qed.

Lemma name_version_fresh e t0 ops :
  kitty_memo e = false ->
  wf_sizes t0 (ops ++ [GetNameVersion]) = true -> px_ok e t0 (ops ++ [GetNameVersion]) ->
  let s := run e t0 ops in
  snd (step e s GetNameVersion)
  = view_nv (fresh_nv e (tm s) (swap s) (nv_prov (hrun e t0 ops))).
Proof. intros K W X. exact (getter_fresh e t0 ops GetNameVersion K W X eq_refl). Qed.

Lemma derived_facts_fresh e t0 ops :
  kitty_memo e = false ->
  wf_sizes t0 (ops ++ [IsOnKitty]) = true -> px_ok e t0 (ops ++ [IsOnKitty]) ->
  let s := run e t0 ops in
  snd (step e s IsOnKitty)
  = view_b (is_kitty (fresh_nv e (tm s) (swap s) (nv_prov (hrun e t0 ops))))
  /\ snd (step e s IsOnKitty) = view_b (is_kitty (snd (get_nv e s))).
Proof.
  intros K W X s. split.
  - exact (getter_fresh e t0 ops IsOnKitty K W X eq_refl).
  - now rewrite kitty_is_derived.
Qed.

Lemma size_cached_fresh e t0 ops :
  kitty_memo e = false ->
  wf_sizes t0 (ops ++ [GetTsc]) = true -> px_ok e t0 (ops ++ [GetTsc]) ->
  let s := run e t0 ops in
  snd (step e s GetTsc) = view_ratio (fresh_tsc (tm s)).
Proof. intros K W X. exact (getter_fresh e t0 ops GetTsc K W X eq_refl). Qed.

(** ** a resize that lands while the [terminal_size_cached] body runs

    [size_cached_fresh] above quantifies over histories that contain [GetTscResize t] at
    any position.  The call during whose body the resize lands answers with the fresh
    value for the terminal it was made at: *)
Lemma size_cached_fresh_resize_in_body e t0 ops t :
  kitty_memo e = false ->
  wf_sizes t0 (ops ++ [GetTscResize t]) = true -> px_ok e t0 (ops ++ [GetTscResize t]) ->
  let s := run e t0 ops in
  snd (step e s (GetTscResize t)) = view_ratio (fresh_tsc (tm s)).
Proof. intros K W X. exact (getter_fresh e t0 ops (GetTscResize t) K W X eq_refl). Qed.

(** either the entry served the call (nothing changed at all, the terminal was not
    resized) or the body ran, the terminal is [t] now, and the entry holds the value
    under the size the wrapper read BEFORE the body *)
Lemma resize_in_body_cases s t :
  let s1 := fst (get_tsc_resize s t) in
  s1 = s
  \/ (n_tsc s1 = S (n_tsc s) /\ tm s1 = t
      /\ tsc s1 = Some (fresh_tsc (tm s), (cols (tm s), rows (tm s)))).
Proof.
  unfold get_tsc_resize. destruct (tsc s) as [[v [c r]]|]; simpl; auto.
  destruct (_ && _); simpl; auto.
Qed.

(** ... and the call AFTER it returns the fresh value for the terminal as it is then:
    when the body ran, for the NEW size [t] — the value computed for the old size during
    whose computation the resize landed is not served for [t] *)
Lemma call_after_resize_in_body_fresh e t0 ops t :
  kitty_memo e = false ->
  wf_sizes t0 (ops ++ [GetTscResize t; GetTsc]) = true ->
  px_ok e t0 (ops ++ [GetTscResize t; GetTsc]) ->
  let s := run e t0 ops in
  let s1 := fst (step e s (GetTscResize t)) in
  snd (step e s1 GetTsc) = view_ratio (fresh_tsc (tm s1))
  /\ (n_tsc s1 = S (n_tsc s) ->
      tm s1 = t /\ snd (step e s1 GetTsc) = view_ratio (fresh_tsc t)).
Proof.
  intros K W X s s1.
  assert (E : ops ++ [GetTscResize t; GetTsc] = (ops ++ [GetTscResize t]) ++ [GetTsc])
    by now rewrite <- app_assoc.
  rewrite E in W, X.
  pose proof (size_cached_fresh e t0 (ops ++ [GetTscResize t]) K W X) as F.
  cbv zeta in F. unfold run in F. rewrite run_from_app in F.
  change (run_from e (run_from e (init t0) ops) [GetTscResize t]) with s1 in F.
  split; [exact F|]. intro N.
  assert (T : tm s1 = t).
  { pose proof (resize_in_body_cases s t) as C. unfold s1 in *. simpl in *.
    destruct (get_tsc_resize s t) as [s' v]; simpl in *.
    destruct C as [C|(_ & C & _)]; auto. subst s'. symmetry in N. now apply Nat.neq_succ_diag_l in N. }
  split; auto. now rewrite <- T.
Qed.

(** the variant of the wrapper that reads the key AFTER the body
    ([cache = (func(...), get_terminal_size())]) refutes the statement: the value computed
    for 80x24 is stored under 100x30 and served for it *)
Definition get_tsc_resize_late_key (s : state) (t : tsize) : state * (Z * Z) :=
  let v := (xpx (tm s), ypx (tm s)) in
  let fill := (set_tm (set_tsc s (Some (v, (cols t, rows t))) (S (n_tsc s))) t, v) in
  match tsc s with
  | Some (v0, (c, r)) => if (cols (tm s) =? c) && (rows (tm s) =? r) then (s, v0) else fill
  | None => fill
  end.

Definition rz_t1 : tsize := {| cols := 100; rows := 30; xpx := 900; ypx := 750 |}.
Definition rz_t0 : tsize := {| cols := 80; rows := 24; xpx := 800; ypx := 480 |}.

Example late_key_serves_stale_value :
  let s1 := fst (get_tsc_resize_late_key (init rz_t0) rz_t1) in
  tm s1 = rz_t1 /\ snd (get_tsc s1) = (800, 480) /\ fresh_tsc (tm s1) = (900, 750)
  /\ snd (get_tsc (fst (get_tsc_resize (init rz_t0) rz_t1))) = (900, 750).
Proof. repeat split; vm_compute; reflexivity. Qed.

(** non-vacuity: a history with resizes landing during the body — compute; hit (no
    resize happens); resize between calls; a resize lands during the recomputation (the
    call itself sees the size it started at); the next call recomputes for the new size;
    the same going back to the first size *)
Definition rz_ops : list op :=
  [GetTsc; GetTscResize rz_t1; GetTsc; Resize rz_t1; GetTscResize rz_t0; GetTsc; GetTsc;
   GetTscResize rz_t1; GetTsc; GetCellSize].

Example resize_in_body_history_satisfiable :
  kitty_memo nv_env = false /\ wf_sizes rz_t0 rz_ops = true /\ px_ok nv_env rz_t0 rz_ops
  /\ trace nv_env (init rz_t0) rz_ops
     = [([800; 480], [0; 0; 0; 1]); ([800; 480], [0; 0; 0; 1]); ([800; 480], [0; 0; 0; 1]);
        ([], [0; 0; 0; 1]); ([900; 750], [0; 0; 0; 2]); ([800; 480], [0; 0; 0; 3]);
        ([800; 480], [0; 0; 0; 3]); ([800; 480], [0; 0; 0; 3]); ([800; 480], [0; 0; 0; 3]);
        ([1; 10; 20], [1; 0; 0; 3])]
  /\ tm (run nv_env rz_t0 (firstn 5 rz_ops)) = rz_t0
  /\ tsc (run nv_env rz_t0 (firstn 5 rz_ops)) = Some ((900, 750), (100, 30)).
Proof. repeat split; vm_compute; reflexivity. Qed.

(** ** aborted computations

    An operation whose caller sees the exception leaves the WHOLE state as it was: no
    cache entry is created, none is modified, no counter moves.  (Stated for every
    operation; only the armed calls can produce [raised].) *)

Lemma view_cs_not_raised cs : view_cs cs <> raised.
Proof. unfold view_cs, raised. destruct (has0 cs); discriminate. Qed.

Lemma set_cell_ratio_code e s m :
  snd (set_cell_ratio e s m) = 0 \/ snd (set_cell_ratio e s m) = 1 \/ snd (set_cell_ratio e s m) = 2.
Proof.
  unfold set_cell_ratio. destruct m.
  - destruct (supp s) as [[|]|]; simpl.
    + destruct (get_cs e s); simpl; auto.
    + auto.
    + destruct (get_cs e s) as [s' cs]; simpl. destruct (negb (has0 cs)); simpl; auto.
      destruct (get_cs e (set_supp s' (Some true))); simpl; auto.
  - destruct (supp s) as [[|]|]; simpl; auto.
    destruct (get_cs e s) as [s' cs]; simpl. destruct (negb (has0 cs)); simpl; auto.
  - destruct (n <=? 0); simpl; auto.
Qed.

Lemma aborted_changes_nothing_lemma e s o :
  snd (step e s o) = raised -> fst (step e s o) = s.
Proof.
  destruct o; simpl.
  - discriminate.
  - destruct (swap s); discriminate.
  - destruct (swap s); discriminate.
  - destruct (qen s); discriminate.
  - discriminate.
  - pose proof (set_cell_ratio_code e s m) as C. destruct (set_cell_ratio e s m) as [s' c]; simpl in *.
    unfold raised. intro H. inversion H as [H1]. rewrite H1 in C. destruct C as [C|[C|C]]; discriminate C.
  - destruct (get_cs e s); simpl. intro H. now apply view_cs_not_raised in H.
  - destruct (get_ratio e s); discriminate.
  - destruct (get_col e s k); discriminate.
  - destruct (get_nv e s); discriminate.
  - destruct (get_kitty e s) as [s' []]; discriminate.
  - destruct (get_tsc s); discriminate.
  - destruct (get_tsc_resize s t); discriminate.
  - rewrite get_cs_abort_eq. destruct (cs_waits e s); simpl; auto.
    intro H. now apply view_cs_not_raised in H.
  - rewrite get_ratio_abort_eq. destruct (match ratio s with Dynamic => _ | Fixed _ => _ end); simpl; auto.
    discriminate.
  - rewrite get_col_abort_eq. destruct (memo_waits e s _); simpl; auto. discriminate.
  - rewrite get_nv_abort_eq. destruct (memo_waits e s _); simpl; auto. discriminate.
Qed.

(** an armed call either raises (and changes nothing) or IS the plain call *)
Lemma abort_raises_or_plain e s o :
  (snd (step e s o) = raised /\ fst (step e s o) = s) \/ step e s o = step e s (plain o).
Proof.
  destruct o; try (right; reflexivity); simpl.
  - rewrite get_cs_abort_eq. destruct (cs_waits e s); simpl; auto. right. now destruct (get_cs e s).
  - rewrite get_ratio_abort_eq. destruct (match ratio s with Dynamic => _ | Fixed _ => _ end); simpl; auto.
    right. now destruct (get_ratio e s).
  - rewrite get_col_abort_eq. destruct (memo_waits e s _); simpl; auto. right. now destruct (get_col e s k).
  - rewrite get_nv_abort_eq. destruct (memo_waits e s _); simpl; auto. right. now destruct (get_nv e s).
Qed.

(** the same on the history alone *)
Lemma aborted_spec_changes_nothing e h o :
  snd (hstep e h o) = raised -> fst (hstep e h o) = h.
Proof.
  destruct o; simpl.
  - discriminate.
  - destruct (h_swap h); discriminate.
  - destruct (h_swap h); discriminate.
  - destruct (h_qen h); discriminate.
  - discriminate.
  - destruct (h_set_ratio e h m) as [h' c] eqn:E; simpl. unfold raised. intro H. inversion H. subst c.
    exfalso. revert E. unfold h_set_ratio. destruct m.
    + destruct (h_supp h) as [[|]|]; simpl.
      * destruct (h_cell e h); simpl. intro E; inversion E.
      * intro E; inversion E.
      * destruct (h_cell e h) as [h1 cs]; simpl. destruct (negb (has0 cs)); simpl.
        -- destruct (h_cell e (hset_supp h1 (Some true))); simpl. intro E; inversion E.
        -- intro E; inversion E.
    + destruct (h_supp h) as [[|]|]; simpl; try (intro E; inversion E; fail).
      destruct (h_cell e h) as [h1 cs]; simpl. destruct (negb (has0 cs)); simpl; intro E; inversion E.
    + destruct (n <=? 0); intro E; inversion E.
  - destruct (h_cell e h); simpl. intro H. now apply view_cs_not_raised in H.
  - destruct (h_get_ratio e h); discriminate.
  - destruct (h_colors e h k); discriminate.
  - destruct (h_name e h); discriminate.
  - destruct (h_name e h) as [h' v]; simpl. unfold view_b. destruct (is_kitty v); discriminate.
  - destruct (h_probe h); discriminate.
  - destruct (h_probe_resize h t); discriminate.
  - unfold h_cell_abort. destruct (_ && _); simpl; auto.
    destruct (h_cell e h); simpl. intro H. now apply view_cs_not_raised in H.
  - unfold h_get_ratio_abort. destruct (h_ratio h); simpl; [discriminate|].
    unfold h_cell_abort. destruct (_ && _); simpl; auto.
    destruct (h_cell e h); simpl. discriminate.
  - unfold h_colors_abort. destruct (_ && _); simpl; auto. destruct (h_colors e h k); discriminate.
  - unfold h_name_abort. destruct (_ && _); simpl; auto. destruct (h_name e h); discriminate.
Qed.

(** an aborted computation is invisible to the rest of the history: deleting it from the
    history gives the same state, hence the same answers ever after *)
Lemma aborted_is_invisible e t0 ops1 a ops2 :
  snd (step e (run e t0 ops1) a) = raised ->
  run e t0 (ops1 ++ a :: ops2) = run e t0 (ops1 ++ ops2).
Proof.
  intro H. unfold run in *. rewrite !run_from_app. simpl.
  now rewrite (aborted_changes_nothing_lemma _ _ _ H).
Qed.

(** the seeded pattern, stated directly: a cell-size computation that was aborted is
    simply made again by the next call — whose answer is the fresh one for the current
    terminal with queries enabled (an aborted query implies they are), whatever an
    earlier computation at another terminal size left in the cache *)
Lemma retry_after_abort_fresh e t0 ops :
  kitty_memo e = false ->
  wf_sizes t0 (ops ++ [GetCellSizeAbort; GetCellSize]) = true ->
  px_ok e t0 (ops ++ [GetCellSizeAbort; GetCellSize]) ->
  let s := run e t0 ops in
  snd (step e s GetCellSizeAbort) = raised ->
  snd (step e (fst (step e s GetCellSizeAbort)) GetCellSize)
  = view_cs (fresh_cs e (tm s) (swap s) true).
Proof.
  intros K W X s R.
  rewrite (aborted_changes_nothing_lemma _ _ _ R).
  (* the history without the aborted call satisfies the hypotheses as well *)
  assert (W' : wf_sizes t0 (ops ++ [GetCellSize]) = true).
  { apply wf_sizes_split in W. destruct W as [W1 W2]. unfold wf_sizes. rewrite W1. simpl.
    rewrite forallb_app in *. apply andb_prop in W2. destruct W2 as [W2 _]. now rewrite W2. }
  assert (S : Sim e s (hrun e t0 ops)).
  { unfold px_ok in X. rewrite px_okb_app in X. apply andb_prop in X. destruct X as [X1 _].
    apply wf_sizes_split in W'. destruct W' as [W1 W2]. rewrite forallb_app in W2.
    apply andb_prop in W2. destruct W2 as [W2 _].
    apply sim_after; auto. unfold wf_sizes. now rewrite W1, W2. }
  assert (X' : px_ok e t0 (ops ++ [GetCellSize])).
  { unfold px_ok in *. rewrite px_okb_app in *. apply andb_prop in X. destruct X as [X1 X2].
    rewrite X1. cbn [px_okb] in *. apply andb_prop in X2. destruct X2 as [X2 _].
    change (read_okb (hrun_from e (hinit t0) ops) GetCellSize)
      with (read_okb (hrun_from e (hinit t0) ops) GetCellSizeAbort). now rewrite X2. }
  pose proof (cell_size_fresh e t0 ops K W' X') as F. simpl in F. fold s in F.
  (* the aborted call found no live entry and queries enabled: the retry computes *)
  assert (Rh : snd (hstep e (hrun e t0 ops) GetCellSizeAbort) = raised).
  { unfold px_ok in X. rewrite px_okb_app in X. apply andb_prop in X. destruct X as [_ X2].
    simpl in X2. apply andb_prop in X2. destruct X2 as [X2 _].
    destruct (sim_step e s (hrun e t0 ops) GetCellSizeAbort K S eq_refl X2) as [_ A].
    now rewrite <- A. }
  assert (P : cell_prov (hrun e t0 ops) = true).
  { revert Rh. simpl. unfold h_cell_abort, fresh_cs_waits, cell_prov.
    destruct (h_fill (hrun e t0 ops)) as [[t1 b]|].
    - destruct (same_cells t1 (h_tm (hrun e t0 ops))); simpl.
      + destruct (h_cell e (hrun e t0 ops)); simpl. intro H. now apply view_cs_not_raised in H.
      + destruct (has_tty e && negb (ioctl_ok e (h_tm (hrun e t0 ops))) && h_qen (hrun e t0 ops)) eqn:E; simpl.
        * intros _. apply andb_prop in E. tauto.
        * destruct (h_cell e (hrun e t0 ops)); simpl. intro H. now apply view_cs_not_raised in H.
    - simpl.
      destruct (has_tty e && negb (ioctl_ok e (h_tm (hrun e t0 ops))) && h_qen (hrun e t0 ops)) eqn:E; simpl.
      + intros _. apply andb_prop in E. tauto.
      + destruct (h_cell e (hrun e t0 ops)); simpl. intro H. now apply view_cs_not_raised in H. }
  rewrite <- P. exact F.
Qed.

(** non-vacuity: a history with an aborted computation in the middle — compute, resize
    in cells (the ioctl gives no pixel size: the terminal is queried), aborted call,
    call again at the same size: the retry answers (9, 25), not the (10, 20) of before *)
Definition ab_ops : list op :=
  [GetCellSize; Resize {| cols := 100; rows := 30; xpx := 900; ypx := 750 |};
   GetCellSizeAbort; GetCellSize; GetNameVersionAbort; GetNameVersion;
   DisableQueries; GetColorsAbort 2; EnableQueries; GetColorsAbort 2; GetColors 2;
   SetRatio RAutoDynamic; Resize f9_t0; GetCellRatioAbort; GetCellRatio].

Example aborted_history_satisfiable :
  kitty_memo nv_env = false /\ wf_sizes f9_t0 ab_ops = true /\ px_ok nv_env f9_t0 ab_ops
  /\ trace nv_env (init f9_t0) ab_ops
     = [([1; 10; 20], [1; 0; 0; 0]); ([], [1; 0; 0; 0]);
        (raised, [1; 0; 0; 0]); ([1; 9; 25], [2; 0; 0; 0]);
        (raised, [2; 0; 0; 0]); ([1; 1], [2; 0; 1; 0]);
        ([], [2; 0; 1; 0]); ([0; -1; -1], [2; 1; 1; 0]); ([], [2; 1; 1; 0]);
        (raised, [2; 1; 1; 0]); ([2; 255; -1], [2; 2; 1; 0]);
        ([0], [3; 2; 1; 0]); ([], [3; 2; 1; 0]); (raised, [3; 2; 1; 0]); ([10; 20], [4; 2; 1; 0])]
  /\ snd (step nv_env (run nv_env f9_t0 (firstn 2 ab_ops)) GetCellSizeAbort) = raised
  /\ run nv_env f9_t0 (firstn 3 ab_ops) = run nv_env f9_t0 (firstn 2 ab_ops).
Proof. repeat split; vm_compute; reflexivity. Qed.
