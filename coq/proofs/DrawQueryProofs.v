(** C06: draws that talk to the terminal ([model/DrawQuery.v]).  With the tty's ECHO flag
    switched off for the whole exchange -- as [query_terminal] does: the attribute change
    brackets write + read -- nothing is echoed WHENEVER the reply arrives, so the stream the
    screen receives is exactly the draw's own writes and the final-state theorems apply to it;
    the variant whose echo-off begins only at the read lets a reply that arrives in the window
    between transmission and read be echoed into the region. *)
From Coq Require Import List ZArith Bool Lia.
Import ListNotations.
From TI Require Import lib.Term lib.RectCheck model.Padding model.Draw model.DrawTie
     model.DrawQuery model.DrawQueryTie.
Open Scope Z_scope.

(** ** nothing is echoed, for any arrival time *)

Lemma quiet_screen_gen :
  forall evs echo out,
  (out = true -> echo = false) ->
  disciplined echo out (prog_of evs) = true ->
  timely out evs = true ->
  screen echo evs = own (prog_of evs).
Proof.
  induction evs as [|ev evs IH]; intros echo out I D T; [reflexivity|].
  destruct ev as [p|reply].
  - destruct p as [ts|b| |]; cbn [prog_of disciplined timely screen own] in *.
    + f_equal. apply (IH echo out); assumption.
    + apply andb_true_iff in D. destruct D as [D1 D2].
      apply (IH b out); try assumption.
      intros ->. cbn in D1. destruct b; [discriminate|reflexivity].
    + apply andb_true_iff in D. destruct D as [D1 D2].
      apply (IH echo true); try assumption.
      intros _. destruct echo; [discriminate|reflexivity].
    + apply (IH echo false); try assumption. discriminate.
  - cbn [prog_of timely screen] in *.
    apply andb_true_iff in T. destruct T as [T1 T2].
    assert (E := I T1). subst echo. cbn [app]. apply (IH false out); assumption.
Qed.

Theorem quiet_screen :
  forall evs e,
  disciplined e false (prog_of evs) = true ->
  timely false evs = true ->
  screen e evs = own (prog_of evs).
Proof. intros. apply (quiet_screen_gen evs e false); [discriminate|assumption|assumption]. Qed.

(** ** the library's discipline *)

Lemma own_app p q : own (p ++ q) = own p ++ own q.
Proof.
  induction p as [|x p IH]; [reflexivity|].
  destruct x; cbn [app own]; rewrite ?IH, ?app_assoc; reflexivity.
Qed.

Lemma draw_prog_disciplined e s0 segs :
  disciplined e false (draw_prog (query_terminal e) s0 segs) = true.
Proof.
  revert s0. induction segs as [|s segs IH]; intros s0; [reflexivity|].
  cbn [draw_prog disciplined query_terminal read_tty app negb orb andb].
  apply IH.
Qed.

Lemma draw_prog_own qt s0 segs :
  own qt = [] -> own (draw_prog qt s0 segs) = s0 ++ concat segs.
Proof.
  intros Hq. revert s0. induction segs as [|s segs IH]; intros s0.
  - cbn. reflexivity.
  - cbn [draw_prog own concat]. rewrite own_app, Hq, IH. reflexivity.
Qed.

(** the main statement: a draw whose queries are [query_terminal], on a tty found with ECHO on
    or off, with the terminal's replies (in any number of pieces) arriving at ANY time between
    the transmission of a request and the return of the read that waits for it: the screen
    receives exactly the draw's own writes *)
Theorem draw_queries_nothing_echoed :
  forall e s0 segs evs,
  prog_of evs = draw_prog (query_terminal e) s0 segs ->
  timely false evs = true ->
  screen e evs = s0 ++ concat segs.
Proof.
  intros e s0 segs evs Hp T.
  rewrite (quiet_screen evs e); [|rewrite Hp; apply draw_prog_disciplined|assumption].
  rewrite Hp. apply draw_prog_own. reflexivity.
Qed.

(** ... hence whatever holds of the draw's own stream [S] (the final-state theorems:
    [DrawProofs.DrawFinal] of [anim_stream] / [still_stream] / [old_anim_stream] /
    [old_still_stream]) holds of what the screen receives *)
Theorem query_final_transfer :
  forall (P : list tok -> Prop) e s0 segs evs S,
  P S -> s0 ++ concat segs = S ->
  prog_of evs = draw_prog (query_terminal e) s0 segs ->
  timely false evs = true ->
  P (screen e evs).
Proof.
  intros P e s0 segs evs S HP HS Hp T.
  rewrite (draw_queries_nothing_echoed e s0 segs evs Hp T), HS. exact HP.
Qed.

(** [Renderable.draw] with [echo_input = False] keeps ECHO off around the whole draw: whatever
    the queries inside do about ECHO themselves -- bracketing or not -- nothing is echoed (which
    is why only the old API and [echo_input = True] can show the excluded variant) *)
Lemma draw_prog_late_disciplined s0 segs :
  disciplined false false (draw_prog (query_terminal_late false) s0 segs) = true.
Proof.
  revert s0. induction segs as [|s segs IH]; intros s0; [reflexivity|].
  cbn [draw_prog disciplined query_terminal_late read_tty app negb orb andb].
  apply IH.
Qed.

Fixpoint out_after (out : bool) (p : list pstep) : bool :=
  match p with
  | [] => out
  | PSend :: r => out_after true r
  | PRecv :: r => out_after false r
  | _ :: r => out_after out r
  end.

Lemma disciplined_app echo out p q :
  disciplined echo out (p ++ q)
  = disciplined echo out p && disciplined (echo_after echo p) (out_after out p) q.
Proof.
  revert echo out. induction p as [|x p IH]; intros echo out; [reflexivity|].
  destruct x; cbn [app disciplined echo_after out_after]; rewrite IH, ?andb_assoc; reflexivity.
Qed.

Lemma out_after_app out p q : out_after out (p ++ q) = out_after (out_after out p) q.
Proof. revert out. induction p as [|x p IH]; intros out; [reflexivity|]. destruct x; cbn [app out_after]; apply IH. Qed.

Lemma draw_prog_out_after qt s0 segs :
  (forall o, out_after o qt = false) -> out_after false (draw_prog qt s0 segs) = false.
Proof.
  intros Hq. revert s0. induction segs as [|s segs IH]; intros s0; [reflexivity|].
  cbn [draw_prog out_after]. rewrite out_after_app, Hq. apply IH.
Qed.

Theorem new_draw_masks :
  forall e s0 segs evs (late : bool),
  prog_of evs = new_draw_prog e (if late then query_terminal_late false else query_terminal false) s0 segs ->
  timely false evs = true ->
  screen e evs = s0 ++ concat segs.
Proof.
  intros e s0 segs evs late Hp T.
  rewrite (quiet_screen evs e); [| |assumption].
  - rewrite Hp. unfold new_draw_prog. cbn [own]. rewrite own_app. cbn [own]. rewrite app_nil_r.
    apply draw_prog_own. destruct late; reflexivity.
  - rewrite Hp. unfold new_draw_prog. cbn [disciplined negb orb andb].
    rewrite disciplined_app. apply andb_true_iff. split.
    + destruct late; [apply draw_prog_late_disciplined|apply draw_prog_disciplined].
    + rewrite draw_prog_out_after; [reflexivity|]. intros o. destruct late; reflexivity.
Qed.

(** ** the harness's schedule: the run the correspondence builds is such a run *)

Lemma screen_arrivals_off ps rest : screen false (map Arrive ps ++ rest) = screen false rest.
Proof. induction ps as [|p ps IH]; [reflexivity|]. cbn [map app screen]. exact IH. Qed.

Lemma screen_exchange e e' w r rest : screen e (exchange e' w r ++ rest) = screen e' rest.
Proof.
  unfold exchange. cbn [app screen]. rewrite <- !app_assoc. rewrite screen_arrivals_off.
  cbn [app screen]. rewrite <- !app_assoc. rewrite screen_arrivals_off. reflexivity.
Qed.

(** for ANY placement of the reply's pieces (window / read) at every exchange and any cut
    positions: the woven run shows the own stream *)
Theorem weave_quiet :
  forall cuts e st done, screen e (weave exchange e st done cuts) = st.
Proof.
  induction cuts as [|[k [w r]] cuts IH]; intros e st done.
  - cbn. apply app_nil_r.
  - cbn [weave screen]. rewrite screen_exchange, IH. apply firstn_skipn.
Qed.

Lemma screen_app_quiet e evs rest :
  screen e (evs ++ rest) = screen e evs ++ screen (echo_after e (prog_of evs)) rest.
Proof.
  revert e. induction evs as [|ev evs IH]; intros e; [reflexivity|].
  destruct ev as [[ts|b| |]|reply]; cbn [app screen prog_of echo_after]; rewrite IH, ?app_assoc; reflexivity.
Qed.

(** the correspondence's model of a querying draw IS the model of the draw *)
Theorem q_model_is_model c : q_model c = model_stream (q_c c).
Proof.
  unfold q_model, q_run. destruct (model_stream (q_c c)) as [st|]; [|reflexivity].
  f_equal. destruct (q_self c).
  - cbn [screen]. rewrite screen_app_quiet, weave_quiet. cbn. apply app_nil_r.
  - apply weave_quiet.
Qed.

Theorem q_term_model_nil c : q_term_model c = [].
Proof. unfold q_term_model. apply weave_quiet. Qed.

Theorem qcheck_is_check c :
  (q_redirected c = true -> q_term c = []) -> qcheck c = check (q_c c).
Proof.
  intros Hr. unfold qcheck. destruct (q_redirected c).
  - rewrite q_term_model_nil, (Hr eq_refl).
    replace (toks_eqb [] []) with true by reflexivity.
    cbn [is_nil]. rewrite !andb_true_r. reflexivity.
  - unfold check, qmodel_agrees, model_agrees. rewrite q_model_is_model. reflexivity.
Qed.

(** redirected, the other direction: a terminal that received anything fails the check *)
Theorem qcheck_redirected_term c :
  q_redirected c = true -> q_term c <> [] -> (2 <= qcheck c)%nat.
Proof.
  intros Hr Hn. unfold qcheck. rewrite Hr.
  destruct (q_term c) as [|x l]; [congruence|]. cbn [is_nil]. rewrite andb_false_r.
  destruct (model_agrees (q_c c) && _); cbn; lia.
Qed.

(** ** the excluded variant *)

(** a 2 x 1 picture in a 4 x 3 box (old API, still image, on a tty), the terminal's colours
    asked for after the cursor has been hidden *)
Definition ex_frame : list tok := [TBg (200, 30, 30); TChar GSpace; TChar GSpace; TSgr0].
Definition ex_ref : list tok := format_render 4 3 0 0 2 1 ex_frame.
Definition ex_stream : list tok := old_still_stream true ex_ref.
Definition ex_reply : list Z := [27; 93; 49; 49; 59; 114; 103; 98; 58; 49; 48; 47; 49; 48; 47; 49; 48; 27; 92; 27; 91; 63; 54; 50; 99].
Definition ex_run (x : xch) (w r : list (list Z)) : list event := weave x true ex_stream 0 [(1%nat, (w, r))].

Example late_echo_refuted :
  (* both runs are runs of the same draw, the replies arrive in time *)
  prog_of (ex_run exchange [ex_reply] []) = draw_prog (query_terminal true) [THide] [skipn 1 ex_stream]
  /\ prog_of (ex_run exchange_late [ex_reply] []) = draw_prog (query_terminal_late true) [THide] [skipn 1 ex_stream]
  /\ timely false (ex_run exchange [ex_reply] []) = true
  /\ timely false (ex_run exchange_late [ex_reply] []) = true
  (* bracketed: the picture is in place from every start row *)
  /\ screen true (ex_run exchange [ex_reply] []) = ex_stream
  /\ forallb (final_ok false 10 8 4 3 ex_ref (screen true (ex_run exchange [ex_reply] []))) [0; 4; 7] = true
  (* echo switched off at the read only: a reply that arrives in the window is echoed into the
     region -- 28 glyphs between the hidden cursor and the picture -- and the final state is lost *)
  /\ screen true (ex_run exchange_late [ex_reply] [])
     = [THide] ++ echo_text ex_reply ++ skipn 1 ex_stream
  /\ length (echo_text ex_reply) = 28%nat
  /\ final_ok false 10 8 4 3 ex_ref (screen true (ex_run exchange_late [ex_reply] [])) 0 = false
  (* ... while a reply that arrives during the read is not *)
  /\ screen true (ex_run exchange_late [] [ex_reply]) = ex_stream.
Proof. vm_compute. repeat split; reflexivity. Qed.

(** non-vacuity of the hypotheses of [draw_queries_nothing_echoed] on a run with two exchanges,
    one reply in two pieces *)
Example quiet_run_example :
  let evs := weave exchange true ex_stream 0 [(1%nat, ([[27; 93]], [[49; 48]])); (3%nat, ([], [ex_reply]))] in
  prog_of evs = draw_prog (query_terminal true) (firstn 1 ex_stream) [firstn 2 (skipn 1 ex_stream); skipn 3 ex_stream]
  /\ timely false evs = true
  /\ screen true evs = ex_stream.
Proof. vm_compute. repeat split; reflexivity. Qed.
