(** The judge of the "drawio" correspondence (model/DrawUseTie.v) is consistent with the
    theorems: observations that agree with the model satisfy the specification side, for
    every case - so a property failure (bit 2) on the unchanged model is impossible unless
    the implementation deviates from the model.  Lemmas only. *)
From Coq Require Import List Bool Arith Lia.
Import ListNotations.
From TI Require Import model.DrawUse model.DrawUseTie proofs.DrawUseProofs.

Lemma dlist_eqb_entry : forall a b, dlist_eqb entry_eqb a b = true -> a = b.
Proof.
  induction a as [|[k x] a IH]; destruct b as [|[k' y] b]; simpl; intros H; try discriminate; auto.
  apply andb_prop in H. destruct H as [H1 H2]. apply andb_prop in H1. destruct H1 as [Hk Hx]. simpl in *.
  apply Nat.eqb_eq in Hk. apply Bool.eqb_prop in Hx. subst. f_equal. apply IH. exact H2.
Qed.

Lemma decode_enc : forall l, decode (map enc_entry l) = Some l.
Proof.
  induction l as [|[h b] l IH]; simpl; auto. rewrite IH. destruct h; reflexivity.
Qed.

Lemma entries_ok_rev : forall l, entries_ok (rev l) = entries_ok l.
Proof.
  intros l. unfold entries_ok, count_fin. f_equal.
  - induction l as [|e l IH]; simpl; auto. rewrite forallb_app, IH. simpl. rewrite andb_true_r. apply andb_comm.
  - f_equal. induction l as [|e l IH]; simpl; auto. rewrite filter_app, app_length, IH. simpl.
    destruct (hook_eqb (fst e) HFinalize); simpl; lia.
Qed.

Lemma model_entries_ok : forall nested t, entries_ok (evs (snd (model_run nested t))) = true.
Proof.
  intros nested t. unfold model_run. destruct (d_op t); [apply drawio_entries_ok|apply renderio_entries_ok].
Qed.

Lemma agrees_spec : forall nested t, agrees nested t = true -> dspec_ok t = true.
Proof.
  intros nested t Hm. unfold agrees in Hm.
  pose proof (model_entries_ok nested t) as He. destruct (model_run nested t) as [r s_end]. simpl in He.
  repeat (apply andb_prop in Hm; destruct Hm as [Hm ?]).
  match goal with H : dlist_eqb entry_eqb _ _ = true |- _ => apply dlist_eqb_entry in H; rename H into Hev end.
  unfold dspec_ok. rewrite <- Hev, decode_enc, entries_ok_rev, He.
  destruct (d_fins t) as [|f fs]; [discriminate|]. simpl. assumption.
Qed.

Theorem model_agreement_implies_spec : forall t,
  d_async t = false -> dmodel_ok t = true -> dspec_ok t = true.
Proof.
  intros t Ha Hm. unfold dmodel_ok in Hm. rewrite Ha in Hm. simpl in Hm.
  apply orb_prop in Hm. destruct Hm as [Hm|Hm]; eapply agrees_spec; exact Hm.
Qed.
