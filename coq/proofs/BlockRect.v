(** The block renderer meets the render contract [Rect] (C01, block part) and shows
    exactly the image's pixels (C02). *)
From Coq Require Import List ZArith Bool Lia.
Import ListNotations.
From TI Require Import lib.Term lib.TermFacts lib.Rect lib.Lines model.Block proofs.BlockProofs.
Open Scope Z_scope.

Lemma nth_error_map_inv {A B} (f : A -> B) l i y :
  nth_error (map f l) i = Some y -> exists x, nth_error l i = Some x /\ y = f x.
Proof.
  revert i; induction l as [|x l IH]; intros [|i] H; cbn in *; try discriminate.
  - inversion H. eauto.
  - apply IH, H.
Qed.

Section Block.
Variable alpha kitty : bool.
Variable bgcol : option rgb.
Variable split : bool.

Notation update_buffer := (update_buffer alpha kitty bgcol split).
Notation line_loop := (line_loop alpha kitty bgcol split).
Notation line := (line alpha kitty bgcol split).
Notation render_lines := (render_lines alpha kitty bgcol split).
Notation render := (render alpha kitty bgcol split).
Notation expect := (expect alpha kitty bgcol).

(** *** no line feed inside a line *)
Lemma nolf_glyphs sp g n : nolf (glyphs sp g n).
Proof.
  induction n as [|n IH]; [constructor|]. cbn [glyphs]. unfold cell_toks.
  destruct sp; repeat constructor; exact IH.
Qed.

Lemma nolf_update_buffer c1 c2 ac1 ac2 n : nolf (update_buffer c1 c2 ac1 ac2 n).
Proof.
  unfold Block.update_buffer.
  repeat match goal with |- context [if ?b then _ else _] => destruct b end;
    repeat (constructor; [reflexivity|]); apply nolf_glyphs.
Qed.

Lemma nolf_line_loop : forall pxs c1 c2 ac1 ac2 n, nolf (line_loop c1 c2 ac1 ac2 n pxs).
Proof.
  induction pxs as [|p rest IH]; intros; cbn [Block.line_loop].
  - apply nolf_update_buffer.
  - destruct (flush_cond alpha c1 c2 ac1 ac2 p); [|apply IH].
    apply Forall_app. split; [apply nolf_update_buffer|apply IH].
Qed.

Lemma Forall_removelast {A} (P : A -> Prop) l : Forall P l -> Forall P (removelast l).
Proof.
  induction 1 as [|x l Hx Hl IH]; [constructor|]. cbn [removelast].
  destruct l; [constructor|]. constructor; [exact Hx|exact IH].
Qed.

Lemma nolf_if_removelast (b : bool) l : nolf l -> nolf (if b then removelast l else l).
Proof. intros H. destruct b; [apply Forall_removelast|]; exact H. Qed.

Lemma nolf_line pxs : nolf (line pxs).
Proof.
  unfold Block.line. destruct pxs as [|p rest]; [constructor|].
  apply nolf_if_removelast, nolf_line_loop.
Qed.

Lemma count_lf_render_lines : forall rows, rows <> [] ->
  count_lf (render_lines rows) = (length rows - 1)%nat.
Proof.
  induction rows as [|r rest IH]; intros Hne; [congruence|].
  destruct rest as [|r2 rest'].
  - cbn [Block.render_lines length]. apply nolf_count, nolf_line.
  - rewrite render_lines_cons2, !count_lf_app, (nolf_count _ (nolf_line r)), IH by congruence.
    cbn. lia.
Qed.

(** *** at each line feed: end column, default attributes *)
Lemma lf_ok_render_lines lm w : forall rows t,
  parser t = Ground -> col t = lm -> rows <> [] -> (0 < w)%nat ->
  (forall r, In r rows -> length r = w) ->
  lf_ok lm (Z.of_nat w) t (render_lines rows).
Proof.
  induction rows as [|r rest IH]; intros t Hg Hc Hne Hw Hlen; [congruence|].
  assert (Hr : r <> []).
  { intros ->. specialize (Hlen [] (or_introl eq_refl)). cbn in Hlen. lia. }
  destruct rest as [|r2 rest'].
  - cbn [Block.render_lines]. apply lf_ok_nolf, nolf_count, nolf_line.
  - rewrite render_lines_cons2. apply lf_ok_app. split.
    + apply lf_ok_nolf, nolf_count, nolf_line.
    + destruct (line_exec alpha kitty bgcol split lm r t Hg Hr) as (cells & a & E & _).
      rewrite E, (Hlen r (or_introl eq_refl)), Hc.
      cbn [app lf_ok]. split; [exact I|]. rewrite step_sgr0 by exact Hg.
      split.
      * cbn [col sgr parser mk]. auto.
      * rewrite step_lf by exact Hg. rewrite !mk_mk. cbn [row col sgr mk].
        apply IH; [exact Hg|reflexivity|congruence|exact Hw|].
        intros x Hx. apply Hlen. right. exact Hx.
Qed.

Lemma Forall2_len {A B} (R : A -> B -> Prop) l1 l2 : Forall2 R l1 l2 -> length l1 = length l2.
Proof. induction 1; cbn; congruence. Qed.

Lemma cellrows_len w cellrows rows :
  Forall2 (fun cells pxs => map vis cells = map (fun p => Some (expect p)) pxs) cellrows rows ->
  (forall r, In r rows -> length r = w) ->
  forall cells, In cells cellrows -> Z.of_nat (length cells) = Z.of_nat w.
Proof.
  induction 1 as [|cells pxs cr rs HV _ IH]; intros Hlen cells0 Hin; [destruct Hin|].
  destruct Hin as [<-|Hin].
  - f_equal. rewrite <- (map_length vis), HV, map_length. apply Hlen. left. reflexivity.
  - apply IH; [|exact Hin]. intros x Hx. apply Hlen. right. exact Hx.
Qed.

(** *** C01 for the block style *)
Theorem block_rect w rows :
  rows <> [] -> (0 < w)%nat -> (forall r, In r rows -> length r = w) ->
  Rect (Z.of_nat w) (Z.of_nat (length rows)) (render rows).
Proof.
  intros Hne Hw Hlen. unfold Rect, RectG.
  assert (Hh : (0 < length rows)%nat) by (destruct rows; [congruence|cbn; lia]).
  split; [lia|]. split; [lia|]. split; [|split; [|split]].
  - intros lm t [Hg Hp] Hc _.
    destruct (render_exec alpha kitty bgcol split lm w rows t Hg Hc Hne Hw Hlen)
      as (cellrows & E & F).
    rewrite E.
    assert (Hcl := cellrows_len w cellrows rows F Hlen).
    assert (Hn : length cellrows = length rows) by (eapply Forall2_len; exact F).
    constructor; cbn [row col sgr parser pending visible synced log mk]; auto; try lia.
    exists (grid_evs (row t) lm cellrows). split; [reflexivity|]. split.
    + rewrite <- Hn. apply grid_inside; [lia|exact Hcl].
    + intros r c Hr Hcc _.
      destruct (grid_view lm (Z.of_nat w) cellrows (row t) (Z.to_nat (r - row t)) (c - lm) VNone Hcl)
        as (cells & g & a & _ & _ & V); [lia|lia|].
      replace (row t + Z.of_nat (Z.to_nat (r - row t))) with r in V by lia.
      replace (lm + (c - lm)) with c in V by lia.
      destruct (view_or_covered (grid_evs (row t) lm cellrows) r c VNone) as [H|H];
        [congruence|exact H].
  - intros lm t [Hg Hp] Hc Hs. unfold Block.render. apply lf_ok_app. split.
    + apply lf_ok_render_lines; assumption.
    + cbn. auto.
  - unfold Block.render. rewrite count_lf_app, count_lf_render_lines by exact Hne.
    cbn. lia.
  - unfold Block.render. rewrite last_last. discriminate.
Qed.

(** *** C02: every cell shows exactly its two pixels *)
Theorem block_pixels_exact lm w rows t i j :
  parser t = Ground -> col t = lm -> (0 < w)%nat -> (forall r, In r rows -> length r = w) ->
  (i < length rows)%nat -> (j < w)%nat ->
  exists pxs p,
    nth_error rows i = Some pxs /\ nth_error pxs j = Some p /\
    visual (view (log (exec lm t (render rows))) (row t + Z.of_nat i) (lm + Z.of_nat j))
    = Some (expect p).
Proof.
  intros Hg Hc Hw Hlen Hi Hj.
  assert (Hne : rows <> []) by (destruct rows; [cbn in Hi; lia|congruence]).
  destruct (render_exec alpha kitty bgcol split lm w rows t Hg Hc Hne Hw Hlen)
    as (cellrows & E & F).
  rewrite E. cbn [log mk]. unfold view. rewrite view_from_app.
  assert (Hcl := cellrows_len w cellrows rows F Hlen).
  assert (Hn : length cellrows = length rows) by (eapply Forall2_len; exact F).
  destruct (grid_view lm (Z.of_nat w) cellrows (row t) i (Z.of_nat j)
                      (view_from VNone (log t) (row t + Z.of_nat i) (lm + Z.of_nat j)) Hcl)
    as (cells & g & a & N1 & N2 & V); [lia|lia|].
  rewrite V. rewrite Nat2Z.id in N2.
  (* the i-th cell row corresponds to the i-th pixel row *)
  assert (Hrow : exists pxs, nth_error rows i = Some pxs
                              /\ map vis cells = map (fun p => Some (expect p)) pxs).
  { clear - F N1. revert i N1. induction F as [|c0 p0 cr rs HV _ IH]; intros i N1.
    - destruct i; discriminate.
    - destruct i as [|i]; cbn in N1.
      + inversion N1; subst. exists p0. split; [reflexivity|exact HV].
      + destruct (IH i N1) as (pxs & A & B). exists pxs. split; [exact A|exact B]. }
  destruct Hrow as (pxs & Nr & HV).
  assert (Hpx : exists p, nth_error pxs j = Some p).
  { destruct (nth_error pxs j) eqn:En; [eauto|]. apply nth_error_None in En.
    rewrite (Hlen pxs) in En by (eapply nth_error_In; exact Nr). lia. }
  destruct Hpx as (p & Np). exists pxs, p. split; [exact Nr|]. split; [exact Np|].
  assert (Hm : nth_error (map vis cells) j = Some (vis (g, a))) by (apply map_nth_error, N2).
  rewrite HV in Hm. rewrite (map_nth_error _ _ _ Np) in Hm. inversion Hm as [Hv].
  unfold vis in Hv. cbn [fst snd] in Hv. symmetry. exact Hv.
Qed.


(** *** the block render as a list of lines (for padding, C05) *)
Definition block_ls (rows : list (list px)) : list (list tok) :=
  map (fun r => line r ++ [TSgr0]) rows.

Lemma render_as_lines : forall rows, rows <> [] -> render rows = joinlf (block_ls rows).
Proof.
  unfold Block.render. induction rows as [|r rest IH]; intros Hne; [congruence|].
  destruct rest as [|r2 rest'].
  - reflexivity.
  - rewrite render_lines_cons2. unfold block_ls in *. cbn [map]. rewrite joinlf_cons2.
    rewrite <- !app_assoc. f_equal. cbn [app]. f_equal. f_equal.
    apply IH. congruence.
Qed.

Lemma nocr_glyphs sp g n : nocr (glyphs sp g n).
Proof.
  induction n as [|n IH]; [constructor|]. cbn [glyphs]. unfold cell_toks.
  destruct sp; repeat constructor; exact IH.
Qed.
Lemma nocr_update_buffer c1 c2 ac1 ac2 n : nocr (update_buffer c1 c2 ac1 ac2 n).
Proof.
  unfold Block.update_buffer.
  repeat match goal with |- context [if ?b then _ else _] => destruct b end;
    repeat (constructor; [reflexivity|]); apply nocr_glyphs.
Qed.
Lemma nocr_line_loop : forall pxs c1 c2 ac1 ac2 n, nocr (line_loop c1 c2 ac1 ac2 n pxs).
Proof.
  induction pxs as [|p rest IH]; intros; cbn [Block.line_loop].
  - apply nocr_update_buffer.
  - destruct (flush_cond alpha c1 c2 ac1 ac2 p); [|apply IH].
    apply Forall_app. split; [apply nocr_update_buffer|apply IH].
Qed.
Lemma nocr_line pxs : nocr (line pxs).
Proof.
  unfold Block.line. destruct pxs as [|p rest]; [constructor|].
  assert (H : forall (b : bool) l, nocr l -> nocr (if b then removelast l else l))
    by (intros b l Hl; destruct b; [apply Forall_removelast|]; exact Hl).
  apply H, nocr_line_loop.
Qed.

Lemma cells_covered r c cells : forall c0,
  c0 <= c < c0 + Z.of_nat (length cells) -> covered (cell_evs r c0 cells) r c = true.
Proof.
  intros c0 Hc.
  destruct (view_or_covered (cell_evs r c0 cells) r c VNone) as [H|H]; [|exact H].
  rewrite view_from_cells in H.
  replace (c0 <=? c) with true in H by (symmetry; apply Z.leb_le; lia).
  replace (c <? c0 + Z.of_nat (length cells)) with true in H by (symmetry; apply Z.ltb_lt; lia).
  cbn [andb] in H. destruct (nth_error cells (Z.to_nat (c - c0))) as [[g a]|] eqn:E; [discriminate|].
  apply nth_error_None in E. lia.
Qed.

Theorem block_lr w rows :
  rows <> [] -> (0 < w)%nat -> (forall r, In r rows -> length r = w) ->
  LinesRect all_cells (Z.of_nat w) (Z.of_nat (length rows)) (block_ls rows).
Proof.
  intros Hne Hw Hlen. unfold block_ls.
  assert (HL : forall r, In r rows ->
           forall lm t, clean t -> col t = lm ->
             exists cells, length cells = w /\
               exec lm t (line r ++ [TSgr0]) =
               mk (row t) (lm + Z.of_nat w) adefault t (cell_evs (row t) lm cells)).
  { intros r Hin lm t [Hg Hp] Hcol.
    assert (Hr : r <> []).
    { intros ->. specialize (Hlen [] Hin). cbn in Hlen. lia. }
    destruct (line_exec alpha kitty bgcol split lm r t Hg Hr) as (cells & a & E & V).
    exists cells. split.
    - rewrite <- (map_length vis), V, map_length. apply Hlen, Hin.
    - rewrite exec_app, E. cbn [exec fold_left]. rewrite step_sgr0 by exact Hg.
      rewrite mk_mk, app_nil_r. cbn [row col mk]. rewrite (Hlen r Hin), Hcol. reflexivity. }
  constructor.
  - lia.
  - rewrite map_length. reflexivity.
  - destruct rows; [congruence|discriminate].
  - intros i l Hn. apply nth_error_map_inv in Hn. destruct Hn as (r & Hn & ->).
    assert (Hin : In r rows) by (eapply nth_error_In; exact Hn).
    assert (Hi : (i < length rows)%nat) by (apply nth_error_Some; congruence).
    split.
    + apply nolf_app; [apply nolf_line|repeat constructor].
    + intros lm t Hc Hcol Hs. destruct (HL r Hin lm t Hc Hcol) as (cells & Hcl & E).
      exists (cell_evs (row t) lm cells). split; [exact E|].
      eapply forallb_inside_mono; [| | | |apply (cells_inside (row t) lm (Z.of_nat w) cells lm)];
        try lia.
  - intros l Hin. apply in_map_iff in Hin. destruct Hin as (r & <- & _).
    apply nocr_app; [apply nocr_line|repeat constructor].
  - apply coverage_rows; [rewrite map_length; reflexivity|].
    intros i l lm t Hn Hc Hcol Hs c Hcc.
    apply nth_error_map_inv in Hn. destruct Hn as (r & Hn & ->).
    assert (Hin : In r rows) by (eapply nth_error_In; exact Hn).
    destruct (HL r Hin lm t Hc Hcol) as (cells & Hcl & E).
    rewrite (line_evs_mk _ _ _ _ _ _ _ E). apply cells_covered. lia.
Qed.

End Block.
