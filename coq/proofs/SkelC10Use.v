(** C10, "never used afterwards", on the control-flow skeletons regenerated from the source:
    no call that hands the render data to renderable-defined code - [_render_] /
    [next(render_iter)] ([Render]) and the interrupted-draw hook [_handle_interrupted_draw_]
    ([HandleInterrupt]) - is ever made after the data was finalized, on any path of
    [draw] (still and animated), [_animate_], [render], [__str__], [_init_render_], under
    any fault position.  Stated on the ghost semantics [UseMon.evalU] of the translated
    skeleton itself; established by the shared abstract interpreter on the monitored
    skeleton and transferred by [UseMonSound.monitored_sound].  Lemmas only.

    Configuration [cfg_all]: EVERY call (tracked or not: write, flush, sleep, frame render,
    the hook itself, any helper) may raise KeyboardInterrupt or an Exception, before or
    after taking effect, outside the clean-up blocks of the operation. *)
From Coq Require Import List Bool Arith.
Import ListNotations.
From TI Require Import lib.Eff lib.EffSound lib.EffRun gen.Skeletons model.UseMon proofs.UseMonSound.

(** ** draw *)
Definition nvd := nv_Renderable_draw.
Lemma draw_fresh : fresh nvd (S nvd) sk_Renderable_draw = true.
Proof. vm_compute. reflexivity. Qed.
Lemma draw_use_analysis :
  analyze cfg_all nvd (monitored nvd (S nvd) sk_Renderable_draw) (no_bad_use (S nvd)) = true.
Proof. vm_compute. reflexivity. Qed.

Lemma draw_no_use_after_finalize :
  forall vs, length vs = nv_Renderable_draw ->
  forall o s' b', evalU cfg_all false sk_Renderable_draw (init vs, false) o (s', b') -> b' = false.
Proof. exact (monitored_sound cfg_all nvd sk_Renderable_draw draw_fresh draw_use_analysis). Qed.

(** the same with exactly the property's fault positions (frame render, write, flush, sleep) *)
Lemma draw_use_analysis_io :
  analyze cfg_draw nvd (monitored nvd (S nvd) sk_Renderable_draw) (no_bad_use (S nvd)) = true.
Proof. vm_compute. reflexivity. Qed.
Lemma draw_no_use_after_finalize_io :
  forall vs, length vs = nv_Renderable_draw ->
  forall o s' b', evalU cfg_draw false sk_Renderable_draw (init vs, false) o (s', b') -> b' = false.
Proof. exact (monitored_sound cfg_draw nvd sk_Renderable_draw draw_fresh draw_use_analysis_io). Qed.

(** ** _animate_ on its own (an overriding [draw] may call it): handed live data, it never
    uses it finalized - and never finalizes it (the caller owns it).  The creation of the
    data is the caller's: not a fault position. *)
Definition nva := nv_Renderable__animate_.
Definition cfg_callee : cfg := mkcfg (fun o => match o with NewData => false | _ => true end) all_kinds.
Definition animate_prog : prog := with_live_data sk_Renderable__animate_.
Lemma animate_fresh : fresh nva (S nva) animate_prog = true.
Proof. vm_compute. reflexivity. Qed.
Lemma animate_use_analysis :
  analyze cfg_callee nva (monitored nva (S nva) animate_prog) (no_bad_use (S nva)) = true.
Proof. vm_compute. reflexivity. Qed.
Lemma animate_no_use_after_finalize :
  forall vs, length vs = nv_Renderable__animate_ ->
  forall o s' b', evalU cfg_callee false animate_prog (init vs, false) o (s', b') -> b' = false.
Proof. exact (monitored_sound cfg_callee nva animate_prog animate_fresh animate_use_analysis). Qed.

Lemma animate_keeps_analysis :
  analyze cfg_callee nva animate_prog (fun _ s => unfin s) = true.
Proof. vm_compute. reflexivity. Qed.
Lemma animate_leaves_data_unfinalized :
  forall vs, length vs = nv_Renderable__animate_ ->
  forall o s', eval cfg_callee false animate_prog (init vs) o s' -> unfin s' = true.
Proof. intros vs Hl o s' He. exact (analyze_sound _ _ _ _ animate_keeps_analysis vs Hl o s' He). Qed.

(** ** render / __str__ / _init_render_ with a renderer that renders *)
Lemma render_fresh : fresh nv_Renderable_render (S nv_Renderable_render) sk_Renderable_render = true.
Proof. vm_compute. reflexivity. Qed.
Lemma render_use_analysis :
  analyze cfg_all nv_Renderable_render (monitored nv_Renderable_render (S nv_Renderable_render) sk_Renderable_render)
    (no_bad_use (S nv_Renderable_render)) = true.
Proof. vm_compute. reflexivity. Qed.
Lemma render_no_use_after_finalize :
  forall vs, length vs = nv_Renderable_render ->
  forall o s' b', evalU cfg_all false sk_Renderable_render (init vs, false) o (s', b') -> b' = false.
Proof. exact (monitored_sound cfg_all _ _ render_fresh render_use_analysis). Qed.

Lemma str_fresh : fresh nv_Renderable___str__ (S nv_Renderable___str__) sk_Renderable___str__ = true.
Proof. vm_compute. reflexivity. Qed.
Lemma str_use_analysis :
  analyze cfg_all nv_Renderable___str__ (monitored nv_Renderable___str__ (S nv_Renderable___str__) sk_Renderable___str__)
    (no_bad_use (S nv_Renderable___str__)) = true.
Proof. vm_compute. reflexivity. Qed.
Lemma str_no_use_after_finalize :
  forall vs, length vs = nv_Renderable___str__ ->
  forall o s' b', evalU cfg_all false sk_Renderable___str__ (init vs, false) o (s', b') -> b' = false.
Proof. exact (monitored_sound cfg_all _ _ str_fresh str_use_analysis). Qed.

Definition init_render_prog : prog := sk_Renderable__init_render_ (Op Render).
Lemma init_render_fresh :
  fresh nv_Renderable__init_render_ (S nv_Renderable__init_render_) init_render_prog = true.
Proof. vm_compute. reflexivity. Qed.
Lemma init_render_use_analysis :
  analyze cfg_all nv_Renderable__init_render_
    (monitored nv_Renderable__init_render_ (S nv_Renderable__init_render_) init_render_prog)
    (no_bad_use (S nv_Renderable__init_render_)) = true.
Proof. vm_compute. reflexivity. Qed.
Lemma init_render_no_use_after_finalize :
  forall vs, length vs = nv_Renderable__init_render_ ->
  forall o s' b', evalU cfg_all false init_render_prog (init vs, false) o (s', b') -> b' = false.
Proof. exact (monitored_sound cfg_all _ _ init_render_fresh init_render_use_analysis). Qed.

(** ** the statement is not vacuous and the monitor is not blind *)

(** "release the data of a one-off render early": finalize right after the render, then
    write; the [finally] finalizes again (idempotent: still exactly one finalizer call) *)
Definition early_still : prog :=
  sq [ Op NewData;
       TryFinally true
         (sq [ TryFinally false (Op Render) (Op Finalize);
               TryExcept true (sq [Op (Write WFrame); Op Flush])
                 CYes (sq [Op HandleInterrupt; Raise KI])
                 CYes (sq [Op HandleInterrupt; Raise Exc]) ])
         (Op Finalize) ].

(** every exit has finalized the data: the "exactly once" analysis accepts it *)
Example early_still_finalizes :
  analyze cfg_draw 0 early_still (fun _ s => negb (unfin s)) = true.
Proof. vm_compute. reflexivity. Qed.
(** the use analysis rejects it *)
Example early_still_rejected :
  analyze cfg_draw 0 (monitored 0 1 early_still) (no_bad_use 1) = false.
Proof. vm_compute. reflexivity. Qed.
(** and for a reason: the run in which the write is interrupted hands finalized data to the hook *)
Example early_still_bad_use :
  exists s', evalU cfg_draw false early_still (init [], false) (ORaise KI) (s', true).
Proof.
  eexists. unfold early_still, sq. simpl.
  eapply U_SeqN; [apply U_Op|].
  apply U_SeqA; [|reflexivity].
  change (ORaise KI) with (after_finally (ORaise KI) ONorm).
  eapply U_Finally.
  - eapply U_SeqN.
    + change ONorm with (after_finally ONorm ONorm). eapply U_Finally; apply U_Op.
    + apply U_SeqA; [|reflexivity].
      eapply U_ExceptKI; [| reflexivity |].
      * apply U_SeqA; [|reflexivity]. apply (U_FaultBefore cfg_draw (Write WFrame) KI); reflexivity.
      * eapply U_SeqN; [apply U_Op|]. apply U_SeqA; [|reflexivity]. apply U_Raise.
  - simpl. apply U_Op.
Qed.

(** closing the iterator's data before the last frame is written: rejected as well *)
Example early_animate_rejected :
  analyze cfg_draw 0
    (monitored 0 1 (sq [ Op NewData;
                         TryFinally true
                           (Loop (sq [ Op Render;
                                       TryExcept true (sq [Op (Write WFrame); Op Flush])
                                         CYes (sq [Op HandleInterrupt; Return])
                                         CYes (sq [Op HandleInterrupt; Raise Exc]);
                                       Choice Skip (Op Finalize) ]))
                           (Op Finalize) ]))
    (no_bad_use 1) = false.
Proof. vm_compute. reflexivity. Qed.

