(** * SettingsSrcTie — the translated bodies of [BaseImage.set_render_method]
    ([gen/SettingsSrc.v], regenerated from image/common.py by [harness/tx/tx_settings.py] on
    every run) ARE [Settings.step] for the render-method kind. *)
From Coq Require Import List ZArith Bool Arith.
Import ListNotations.
From TI Require Import model.Settings model.SettingsProg gen.SettingsSrc.

Lemma valid_is_k_valid n v : valid_method n v = k_valid (k_render_method n) v.
Proof. reflexivity. Qed.

(** class level, a style that implements render methods *)
Lemma cls_prog_is_step_lemma :
  forall (n : Z) (par : nat -> nat) (s : state) (c : nat) (m : marg),
    (0 < n)%Z ->
    cls_run n par s c m src_set_render_method_cls = step (k_render_method n) par s (op_of_cls c m).
Proof.
  intros n par s c m Hn.
  assert (Hpos : (0 <? n)%Z = true) by (apply Z.ltb_lt; exact Hn).
  unfold cls_run, src_set_render_method_cls, op_of_cls.
  destruct m as [| |v].
  - (* None: reset *)
    cbn [cexec_list cexec ccond acond]. rewrite Hpos.
    cbn [step k_render_method k_cls_unset k_pinned k_default].
    destruct (cls_lookup par (upd (cd s) c None) c c); reflexivity.
  - (* a non-string *)
    cbn [cexec_list cexec ccond acond]. reflexivity.
  - (* a string *)
    cbn [cexec_list cexec ccond acond].
    destruct (Z.eqb_spec v EMPTY) as [He|He].
    + subst v. reflexivity.
    + cbn [step]. rewrite <- valid_is_k_valid.
      destruct (valid_method n v) eqn:Hv; cbn [negb]; reflexivity.
Qed.

(** class level, a style WITHOUT render methods: a reset is accepted and changes nothing,
    everything else is rejected *)
Lemma cls_prog_no_methods_lemma :
  forall (n : Z) (par : nat -> nat) (s : state) (c : nat) (m : marg),
    (n <= 0)%Z ->
    cls_run n par s c m src_set_render_method_cls
    = match m with MNone => ({| cd := cd s; idt := idt s |}, Ok) | _ => (s, Rejected) end.
Proof.
  intros n par s c m Hn.
  assert (Hpos : (0 <? n)%Z = false) by (apply Z.ltb_ge; exact Hn).
  unfold cls_run, src_set_render_method_cls.
  destruct m as [| |v]; cbn [cexec_list cexec ccond acond]; try rewrite Hpos; try reflexivity.
  assert (Hv : valid_method n v = false).
  { unfold valid_method. destruct (Z.leb_spec 0 v) as [H0|H0]; [|reflexivity].
    cbn [andb]. apply Z.ltb_ge. apply Z.le_trans with 0%Z; assumption. }
  rewrite Hv. reflexivity.
Qed.

(** instance level, any style *)
Lemma inst_prog_is_step_lemma :
  forall (n : Z) (par icls : nat -> nat) (s : state) (i : nat) (m : marg),
    inst_run n par icls s i m src_set_render_method_inst = step (k_render_method n) par s (op_of_inst i m).
Proof.
  intros n par icls s i m.
  unfold inst_run, src_set_render_method_inst, op_of_inst.
  destruct m as [| |v]; cbn [iexec_list iexec icond acond step k_render_method k_inst_set].
  - reflexivity.
  - reflexivity.
  - change (k_valid (k_render_method n) v) with (valid_method n v).
    destruct (valid_method n v) eqn:Hv; cbn [negb].
    + destruct (Z.eqb_spec v EMPTY) as [He|He]; [|reflexivity].
      subst v. unfold valid_method in Hv. discriminate Hv.
    + reflexivity.
Qed.

(** the excluded body (the defect repaired by 621a044): a class-level reset that writes the
    default unconditionally is NOT the model's step — a subclass under a parent with a value *)
Lemma cls_unconditional_default_refuted_lemma :
  exists (par : nat -> nat) (s : state),
    cls_run 2 par s 1 MNone
            [SRaiseIf CBadType; SRaiseIf CUnknown;
             SIf CFalsy [SIf CHasMethods [SDelOwn; SSetDefault] []] [SSetMethod]]
    <> step (k_render_method 2) par s (op_of_cls 1 MNone)
    /\ cls_eff (k_render_method 2) par (fst (step (k_render_method 2) par s (op_of_cls 1 MNone))) 1 = 1%Z.
Proof.
  exists (fun _ => 0%nat), {| cd := fun c => if Nat.eqb c 0 then Some 1%Z else None; idt := fun _ => None |}.
  split; [|reflexivity].
  intro H. apply (f_equal (fun r => cd (fst r) 1%nat)) in H. vm_compute in H. discriminate H.
Qed.

(** ** the iterm2 properties *)

Lemma jpeg_quality_is_step_lemma :
  forall (par : nat -> nat) (s : state) (x : nat) (a : parg),
    pcls_run jcode s x a src_jpeg_quality_set = step k_jpeg_quality par s (ClsSet x (jcode a))
    /\ pinst_run jcode s x a src_jpeg_quality_set = step k_jpeg_quality par s (InstSet x (jcode a))
    /\ pcls_run jcode s x a src_jpeg_quality_del = step k_jpeg_quality par s (ClsUnset x)
    /\ pinst_run jcode s x a src_jpeg_quality_del = step k_jpeg_quality par s (InstUnset x)
    /\ k_default k_jpeg_quality = src_jpeg_quality_default.
Proof.
  intros par s x a.
  unfold pcls_run, pinst_run, src_jpeg_quality_set, src_jpeg_quality_del, jcode.
  cbn [pexec step k_jpeg_quality k_valid k_inst_set k_cls_unset k_pinned].
  repeat split.
  - destruct a as [|v|b]; cbn [pcond_holds pval].
    + reflexivity.
    + rewrite Z.leb_antisym. destruct (95 <? v)%Z; reflexivity.
    + destruct b; reflexivity.
  - destruct a as [|v|b]; cbn [pcond_holds pval].
    + reflexivity.
    + rewrite Z.leb_antisym. destruct (95 <? v)%Z; reflexivity.
    + destruct b; reflexivity.
Qed.

Lemma read_from_file_is_step_lemma :
  forall (par : nat -> nat) (s : state) (x : nat) (a : parg),
    pcls_run rcode s x a src_read_from_file_set = step k_read_from_file par s (ClsSet x (rcode a))
    /\ pinst_run rcode s x a src_read_from_file_set = step k_read_from_file par s (InstSet x (rcode a))
    /\ pcls_run rcode s x a src_read_from_file_del = step k_read_from_file par s (ClsUnset x)
    /\ pinst_run rcode s x a src_read_from_file_del = step k_read_from_file par s (InstUnset x)
    /\ k_default k_read_from_file = (if src_read_from_file_default then 1 else 0)%Z.
Proof.
  intros par s x a.
  unfold pcls_run, pinst_run, src_read_from_file_set, src_read_from_file_del.
  cbn [pexec step k_read_from_file k_valid k_inst_set k_cls_unset k_pinned].
  repeat split; destruct a as [|v|b]; cbn [pcond_holds rcode]; try reflexivity; destruct b; reflexivity.
Qed.
