(** Two more control-flow facts about [draw] for C10 (lemmas only; see SkelC10.v).

    [draw_returns_finalized]: with EVERY call a fault position ([cfg_all]: tracked and
    untracked calls alike may raise KeyboardInterrupt or an Exception, before or after
    taking effect), every exit of [draw] that is not an exception (normal end, [return])
    has finalized the render data.

    [draw_closes_iterator]: with the frame renders, writes, flushes and sleeps as fault
    positions ([cfg_draw]), every exit of [draw] has closed the render iterator that
    [_animate_] opened on the (caller-owned) render data. *)
From Coq Require Import List Bool Arith.
Import ListNotations.
From TI Require Import lib.Eff lib.EffSound lib.EffRun gen.Skeletons.

Definition draw_ret_post (o : outcome) (s : st) : bool :=
  negb (unfin s) || match o with ORaise _ => true | _ => false end.

Lemma draw_ret_analysis : analyze cfg_all nv_Renderable_draw sk_Renderable_draw draw_ret_post = true.
Proof. vm_compute. reflexivity. Qed.

Lemma draw_returns_finalized :
  forall vs, length vs = nv_Renderable_draw ->
  forall o s', eval cfg_all false sk_Renderable_draw (init vs) o s' ->
    (forall k, o <> ORaise k) -> unfin s' = false.
Proof.
  intros vs Hl o s' He Hn. pose proof (analyze_sound _ _ _ _ draw_ret_analysis vs Hl o s' He) as H.
  unfold draw_ret_post in H. destruct o as [| |k]; try (exfalso; apply (Hn k); reflexivity);
    rewrite orb_false_r in H; apply negb_true_iff; exact H.
Qed.

Lemma draw_iter_analysis :
  analyze cfg_draw nv_Renderable_draw sk_Renderable_draw (fun _ s => negb (iter_open s)) = true.
Proof. vm_compute. reflexivity. Qed.

Lemma draw_closes_iterator :
  forall vs, length vs = nv_Renderable_draw ->
  forall o s', eval cfg_draw false sk_Renderable_draw (init vs) o s' -> iter_open s' = false.
Proof. intros vs Hl o s' He. apply negb_true_iff. exact (analyze_sound _ _ _ _ draw_iter_analysis vs Hl o s' He). Qed.
