(** * IterFinRaiseProofs — C10 when [_finalize_render_data_] itself may raise

    [model/IterFin.v] runs [Iter] with an oracle [fr : nat -> bool] (the k-th invocation of
    the finalizer on the data raises).  Everything here is for ALL oracles, all renderables
    ([render]) and all histories (induction on the operation list). *)
From Coq Require Import List ZArith Bool Lia Arith.
Import ListNotations.
From TI Require Import model.Iter model.IterFin model.IterTie proofs.IterFinalProofs.
Open Scope Z_scope.

Section Raise.
  Variable RS : Type.
  Variable render : RS -> Z -> whence -> size -> dur -> Z -> rres * RS.
  Variable n : option Z.
  Variable term : size.
  Variable fr : nat -> bool.

  Notation state := (state RS).
  Notation step := (step RS render n term).
  Notation run := (run RS render n term).
  Notation trace := (trace RS render n term).
  Notation mk := (mk RS n term).
  Notation fdata_finalize := (fdata_finalize fr).
  Notation fclose := (fclose RS fr).
  Notation fnext := (fnext RS render n fr).
  Notation fstep := (fstep RS render n term fr).
  Notation frun := (frun RS render n term fr).
  Notation ftrace := (ftrace RS render n term fr).
  Notation fin_inv := (fin_inv RS).

  (** ** the wrapper changes outcomes only: its states are [Iter]'s *)

  Lemma fdata_finalize_fst : forall g, fst (fdata_finalize g) = data_finalize g.
  Proof. intros g. unfold IterFin.fdata_finalize, data_finalize. destruct (finalized g); reflexivity. Qed.

  Lemma fclose_fst : forall s, fst (fclose s) = close RS s.
  Proof.
    intros s. unfold IterFin.fclose, close. destruct (closed s); [reflexivity|].
    destruct (owns (gh s)); [|reflexivity].
    rewrite <- fdata_finalize_fst. destruct (fdata_finalize (gh s)); reflexivity.
  Qed.

  Lemma fstep_fst : forall s o, fst (fstep s o) = fst (step s o).
  Proof.
    intros s o. destruct o; cbn [IterFin.fstep Iter.step];
      try (destruct (Iter.seek _ _ _ _ _) || destruct (set_duration _ _ _) || destruct (set_padding _ _ _ _)
           || destruct (set_render_args _ _ _) || destruct (set_render_size _ _ _); reflexivity).
    - unfold IterFin.fnext. destruct (next RS render n s) as [s' x]. destruct (_ && _); reflexivity.
    - rewrite <- fclose_fst. destruct (fclose s); reflexivity.
    - rewrite <- fclose_fst. destruct (fclose s); reflexivity.
  Qed.

  Lemma fstep_unraise : forall s o, unraise (snd (fstep s o)) = snd (step s o).
  Proof.
    intros s o. destruct o; cbn [IterFin.fstep Iter.step];
      try (destruct (Iter.seek _ _ _ _ _) || destruct (set_duration _ _ _) || destruct (set_padding _ _ _ _)
           || destruct (set_render_args _ _ _) || destruct (set_render_size _ _ _); reflexivity).
    - unfold IterFin.fnext. destruct (next RS render n s) as [s' x]. destruct (_ && _); reflexivity.
    - destruct (fclose s) as [s' []]; reflexivity.
    - destruct (fclose s) as [s' []]; reflexivity.
  Qed.

  Theorem frun_run : forall ops s, frun s ops = run s ops.
  Proof.
    induction ops as [|o ops IH]; intros s; [reflexivity|].
    unfold IterFin.frun, Iter.run; cbn [fold_left]. rewrite fstep_fst. apply IH.
  Qed.

  (** erasing "the finalizer's exception propagated instead" gives exactly [Iter]'s trace *)
  Theorem ftrace_unraise : forall ops s,
      map (fun p => (unraise (fst p), snd p)) (ftrace s ops) = trace s ops.
  Proof.
    induction ops as [|o ops IH]; intros s; [reflexivity|].
    cbn [IterFin.ftrace Iter.trace].
    pose proof (fstep_fst s o) as E1. pose proof (fstep_unraise s o) as E2.
    destruct (fstep s o) as [s1 y], (step s o) as [s2 x]. cbn [fst snd] in *. subst.
    cbn [map fst snd]. rewrite IH. reflexivity.
  Qed.

  (** ** exactly-once survives a raising finalizer *)

  Theorem fin_at_most_once_raising : forall c rs0 s ops,
      mk c rs0 = inl s -> (fin_calls (gh (frun s ops)) <= 1)%nat.
  Proof. intros. rewrite frun_run. eapply finalize_at_most_once; eassumption. Qed.

  Theorem finalized_iff_closed_raising : forall c rs0 s ops,
      mk c rs0 = inl s ->
      let s' := frun s ops in
      owns (gh s') = c_owns c /\
      (closed s' = true -> c_owns c = true -> finalized (gh s') = true /\ fin_calls (gh s') = 1%nat) /\
      (closed s' = true -> c_owns c = false -> finalized (gh s') = false /\ fin_calls (gh s') = 0%nat) /\
      (closed s' = false -> finalized (gh s') = false /\ fin_calls (gh s') = 0%nat).
  Proof. intros c rs0 s ops Hm. cbv zeta. rewrite frun_run. exact (finalized_iff_closed RS render n term c rs0 s ops Hm). Qed.

  Theorem no_render_on_finalized_raising : forall c rs0 s ops,
      mk c rs0 = inl s -> Forall (fun rc => rc_finalized rc = false) (log (gh (frun s ops))).
  Proof. intros. rewrite frun_run. eapply no_render_on_finalized; eassumption. Qed.

  (** [finalize()]: after a first call — whether or not the finalizer raised — the flag is
      set, and a repeated call neither invokes the finalizer nor raises *)
  Theorem finalize_idempotent_raising : forall g,
      let g1 := fst (fdata_finalize g) in
      finalized g1 = true /\
      fdata_finalize g1 = (g1, false) /\
      (fin_calls g1 <= S (fin_calls g))%nat /\
      (snd (fdata_finalize g) = true -> finalized g = false /\ fin_calls g1 = S (fin_calls g) /\ fr (fin_calls g) = true).
  Proof.
    intros g. unfold IterFin.fdata_finalize. destruct (finalized g) eqn:E; cbn [fst snd].
    - rewrite E. repeat split; auto; discriminate.
    - cbn. repeat split; auto.
  Qed.

  (** ** the operation during which the finalizer raises closes the iterator *)

  Lemma fclose_raised : forall s, fin_inv s -> snd (fclose s) = true ->
      closed s = false /\ owns (gh s) = true /\ fr 0%nat = true.
  Proof.
    intros s (Hf & Hn & _) H. unfold IterFin.fclose in H.
    destruct (closed s) eqn:Hc; [discriminate|].
    rewrite andb_false_r in Hf, Hn.
    destruct (owns (gh s)) eqn:Ho; [|discriminate].
    unfold IterFin.fdata_finalize in H. rewrite Hf in H. cbn in H. rewrite Hn in H. auto.
  Qed.

  Theorem raised_closes : forall s o x,
      fin_inv s -> snd (fstep s o) = FRaised x ->
      let s' := fst (fstep s o) in
      closed s = false /\ closed s' = true /\ owns (gh s') = true /\
      finalized (gh s') = true /\ fin_calls (gh s') = 1%nat /\ fr 0%nat = true /\
      (o = Next \/ o = Close \/ o = Drop).
  Proof.
    intros s o x Hi H s'.
    assert (Hi' : fin_inv s') by (unfold s'; rewrite fstep_fst; apply inv_step; exact Hi).
    assert (Ho' : owns (gh s') = owns (gh s)) by (unfold s'; rewrite fstep_fst; apply owns_step).
    assert (K : closed s = false /\ owns (gh s) = true /\ fr 0%nat = true /\ closed s' = true /\
                (o = Next \/ o = Close \/ o = Drop)).
    { destruct o; cbn [IterFin.fstep] in H;
        try (destruct (Iter.step _ _ _ _ _ _) in H; discriminate).
      - unfold IterFin.fnext in H. unfold s'. cbn [IterFin.fstep]. unfold IterFin.fnext.
        destruct (next RS render n s) as [s1 x1]. cbn [fst snd] in *.
        destruct (negb (closed s) && closed s1 && snd (fclose s)) eqn:E; [|discriminate].
        apply andb_true_iff in E. destruct E as [E12 E3]. apply andb_true_iff in E12. destruct E12 as [_ E2].
        destruct (fclose_raised s Hi E3) as (A & B & C). auto 10.
      - destruct (fclose s) as [s1 r] eqn:Ec. destruct r; [|discriminate].
        assert (E3 : snd (fclose s) = true) by (rewrite Ec; reflexivity).
        destruct (fclose_raised s Hi E3) as (A & B & C).
        assert (closed s' = true).
        { unfold s'. rewrite fstep_fst. cbn. apply (close_open RS s A). }
        auto 10.
      - destruct (fclose s) as [s1 r] eqn:Ec. destruct r; [|discriminate].
        assert (E3 : snd (fclose s) = true) by (rewrite Ec; reflexivity).
        destruct (fclose_raised s Hi E3) as (A & B & C).
        assert (closed s' = true).
        { unfold s'. rewrite fstep_fst. cbn. apply (close_open RS s A). }
        auto 10. }
    destruct K as (A & B & C & D & E). destruct Hi' as (Hf & Hn & _).
    rewrite Ho', B, D in *. cbn in Hf, Hn. repeat split; assumption.
  Qed.

  (** afterwards nothing raises any more and nothing changes: the iterator is closed *)
  Theorem closed_fstep : forall s o, closed s = true -> fstep s o = (s, FO (closed_out o)).
  Proof.
    intros s o Hc. pose proof (closed_step RS render n term s o Hc) as E.
    destruct o; cbn [IterFin.fstep Iter.step] in *; try (rewrite E; reflexivity).
    - unfold IterFin.fnext. rewrite E. rewrite Hc. reflexivity.
    - unfold IterFin.fclose. rewrite Hc. reflexivity.
    - unfold IterFin.fclose. rewrite Hc. reflexivity.
  Qed.

  Definition raises (l : list (fout * Z)) : nat := length (filter (fun p => raisedb (fst p)) l).

  Lemma closed_no_raise : forall ops s, closed s = true ->
      raises (ftrace s ops) = 0%nat /\ frun s ops = s.
  Proof.
    induction ops as [|o ops IH]; intros s Hc; [split; reflexivity|].
    unfold IterFin.frun; cbn [IterFin.ftrace fold_left]. rewrite closed_fstep by exact Hc. cbn [fst].
    destruct (IH s Hc) as [A B]. split; [|exact B]. unfold raises in *. cbn. exact A.
  Qed.

  (** in any history the finalizer's exception is seen at most once *)
  Theorem raise_at_most_once : forall ops s, fin_inv s -> (raises (ftrace s ops) <= 1)%nat.
  Proof.
    induction ops as [|o ops IH]; intros s Hi; [cbn; lia|].
    cbn [IterFin.ftrace].
    pose proof (raised_closes s o) as R.
    assert (Hi' : fin_inv (fst (fstep s o))) by (rewrite fstep_fst; apply inv_step; exact Hi).
    destruct (fstep s o) as [s1 y] eqn:E. cbn [fst snd] in *.
    unfold raises. cbn [filter fst]. destruct y as [x|x]; cbn [raisedb].
    - apply IH. exact Hi'.
    - destruct (R x Hi eq_refl) as (_ & Hc & _).
      destruct (closed_no_raise ops s1 Hc) as [A _]. unfold raises in A. cbn [length]. rewrite A. lia.
  Qed.

  (** after a history whose last operation saw the finalizer raise: the iterator is
      closed, the data finalized by exactly one call, and every continuation behaves as on
      any closed iterator (next stops, control operations raise FinalizedIteratorError,
      close()/drop return normally: idempotent) *)
  Theorem closed_after_raising_finalizer : forall c rs0 s ops o x ops',
      mk c rs0 = inl s ->
      snd (fstep (frun s ops) o) = FRaised x ->
      let s' := frun s (ops ++ [o]) in
      closed s' = true /\ finalized (gh s') = true /\ fin_calls (gh s') = 1%nat /\
      frun s' ops' = s' /\
      ftrace s' ops' = map (fun o => (FO (closed_out o), pub_loop s')) ops'.
  Proof.
    intros c rs0 s ops o x ops' Hm H s'.
    destruct (inv_mk RS n term c rs0 s Hm) as (Hi & _ & _).
    assert (Hi0 : fin_inv (frun s ops)) by (rewrite frun_run; apply inv_run; exact Hi).
    destruct (raised_closes _ _ _ Hi0 H) as (_ & Hc & _ & Hf & Hn & _).
    assert (Es : s' = fst (fstep (frun s ops) o)).
    { unfold s', IterFin.frun. rewrite fold_left_app. reflexivity. }
    rewrite <- Es in Hc, Hf, Hn. repeat split; try assumption.
    - apply closed_no_raise. exact Hc.
    - clear - Hc. induction ops' as [|o' r IH]; [reflexivity|].
      cbn [IterFin.ftrace map]. rewrite closed_fstep by exact Hc. rewrite IH. reflexivity.
  Qed.

  (** ** one-shot operations *)

  (** [try: body finally: render_data.finalize()] on fresh data, then its garbage
      collection: one invocation in all, flag set, [__del__] invokes nothing and raises
      nothing; the finalizer's exception wins over the body's *)
  Theorem oneshot_exactly_once : forall body_raises,
      let g1 := fst (try_finally_finalize fr body_raises fresh_data) in
      let o := snd (try_finally_finalize fr body_raises fresh_data) in
      fin_calls g1 = 1%nat /\ finalized g1 = true /\ del_data fr g1 = (g1, false) /\
      (o = FinalizerRaised <-> fr 0%nat = true) /\
      (fr 0%nat = false -> o = if body_raises then BodyRaised else Returned).
  Proof.
    intros b. cbn. destruct (fr 0%nat) eqn:E; cbn; repeat split; auto; try discriminate;
      destruct b; discriminate.
  Qed.

  (** data abandoned before any [finally] (draw()'s validation failure, a half-built
      object): [RenderData.__del__] finalizes it, once, even if the finalizer raises there *)
  Theorem del_exactly_once :
      let g1 := fst (del_data fr fresh_data) in
      fin_calls g1 = 1%nat /\ finalized g1 = true /\ del_data fr g1 = (g1, false).
  Proof. cbn. repeat split. Qed.
End Raise.

(** ** why the [finally]s are needed *)

(** the seeded variant of [RenderData.finalize()] — flag set only when the finalizer
    returns — is refuted: with a finalizer that raises, a second [finalize()] invokes it
    again *)
Example flag_after_refuted :
  exists fr g,
    let g1 := fst (fdata_finalize_flag_after fr g) in
    let g2 := fst (fdata_finalize_flag_after fr g1) in
    fin_calls g = 0%nat /\ fin_calls g2 = 2%nat /\ finalized g2 = false.
Proof. exists (fun _ => true), fresh_data. cbn. repeat split. Qed.

(** the unrepaired [close()] is refuted: with a finalizer that raises, [close()] on an
    open, owning iterator leaves it open (and, in the code, without its generator) *)
Example close_unrepaired_refuted :
  exists fr s,
    mk vr_state (Some 3) term8030
       {| c_loops := 1; c_cache := CBool false; c_size := (1, 1); c_dur := DStatic 1; c_args := Some 0;
          c_pad := PExact 0 0 0 0; c_owns := true; c_frame := 0 |} t_rs0 = inl s /\
    snd (fclose_unrepaired vr_state fr s) = true /\
    closed (fst (fclose_unrepaired vr_state fr s)) = false /\
    fin_calls (gh (fst (fclose_unrepaired vr_state fr s))) = 1%nat /\
    (* the repaired one: *)
    snd (fclose vr_state fr s) = true /\ closed (fst (fclose vr_state fr s)) = true.
Proof. exists (fun _ => true). eexists. split; [reflexivity|]. cbn. repeat split. Qed.

(** non-vacuity of [raised_closes] / [closed_after_raising_finalizer]: a history on the
    instrumented renderable in which the exhausting [next] sees the finalizer raise *)
Example raise_on_exhaustion :
  match mk vr_state (Some 2) term8030
           {| c_loops := 1; c_cache := CBool false; c_size := (1, 1); c_dur := DStatic 1; c_args := Some 0;
              c_pad := PExact 0 0 0 0; c_owns := true; c_frame := 0 |} t_rs0 with
  | inl s =>
    let R := vr_render (Some 2) 5 [] [] false in
    map (fun p => match fst p with FO (OFrame _) => 0 | FO OStop => 1 | FO OOk => 2 | FO (OErr EFinalized) => 3
                              | FRaised OStop => 11 | FRaised _ => 12 | _ => 4 end)
        (ftrace vr_state R (Some 2) term8030 (fun k => Nat.eqb k 0) s [Next; Next; Next; Next; Seek 0 WStart; Close; Drop])
    = [0; 0; 11; 1; 3; 2; 2]
    /\ fin_calls (gh (frun vr_state R (Some 2) term8030 (fun k => Nat.eqb k 0) s [Next; Next; Next; Close; Drop])) = 1%nat
  | inr _ => False
  end.
Proof. vm_compute. split; reflexivity. Qed.
