(** * IterProofs3 — seeks, settings, countdown (C08 corollaries) *)
From Coq Require Import List ZArith Bool Lia.
Import ListNotations.
From TI Require Import model.Iter model.IterSpec proofs.IterProofs proofs.IterProofs2.
Open Scope Z_scope.

Section Cor.
  Variable RS : Type.
  Variable render : RS -> Z -> whence -> size -> dur -> Z -> rres * RS.
  Variable n : option Z.
  Variable term : size.

  Notation state := (state RS).
  Notation astate := (astate RS).
  Notation step := (step RS render n term).
  Notation spec_step := (spec_step RS render n term).
  Notation trace := (trace RS render n term).
  Notation spec_trace := (spec_trace RS render n term).
  Notation run := (run RS render n term).
  Notation spec_run := (spec_run RS render n term).
  Notation render_outcome := (render_outcome RS render n).
  Notation next_frame := (next_frame RS n).
  Notation next_loop := (next_loop RS n).
  Notation wraps := (wraps RS n).
  Notation refines := (refines RS render n).

  (** ** seeks on a definite source *)

  Lemma seek_target_spec : forall k nx off w t,
      seek_target k nx off w = Some t <->
      t = match w with WStart => off | WCurrent => nx + off | WEnd => k - 1 + off end /\ 0 <= t < k.
  Proof.
    intros. unfold seek_target.
    destruct ((0 <=? match w with WStart => off | WCurrent => nx + off | WEnd => k - 1 + off end) &&
              (match w with WStart => off | WCurrent => nx + off | WEnd => k - 1 + off end <? k)) eqn:E.
    - apply andb_true_iff in E. split; [intros H; inversion H; subst; split; [reflexivity|lia]|].
      intros [-> _]. reflexivity.
    - apply andb_false_iff in E. split; [discriminate|]. intros [-> H]. lia.
  Qed.

  Lemma spec_seek_accept : forall a k off w t,
      n = Some k -> a_closed a = false -> seek_target k (a_next a) off w = Some t ->
      spec_step a (Seek off w) = (a_with_pos RS a t (a_wh a), OOk).
  Proof. intros a k off w t En Hc Ht. unfold IterSpec.spec_step. rewrite Hc, En, Ht. reflexivity. Qed.

  Lemma spec_seek_then_next : forall a k off w t,
      n = Some k -> a_closed a = false -> seek_target k (a_next a) off w = Some t ->
      spec_trace a [Seek off w; Next] = [(OOk, a_loop a); (render_outcome a t WStart, a_loop a)].
  Proof.
    intros a k off w t En Hc Ht.
    pose proof (proj1 (seek_target_spec _ _ _ _ _) Ht) as [_ Hr].
    cbn [IterSpec.spec_trace]. rewrite (spec_seek_accept a k off w t En Hc Ht).
    set (a1 := a_with_pos RS a t (a_wh a)).
    assert (Hc1 : a_closed a1 = false) by exact Hc.
    assert (Hw : wraps a1 = false).
    { unfold IterSpec.wraps. rewrite En. cbn. lia. }
    assert (Hx : (wraps a1 && (next_loop a1 =? 0)) = false) by (rewrite Hw; reflexivity).
    pose proof (spec_next_outcome RS render n term a1 Hc1 Hx) as [Ho Hl].
    destruct (spec_step a1 Next) as [a2 x] eqn:E2. cbn [fst snd] in *.
    subst x. rewrite Hl. unfold IterSpec.next_loop, IterSpec.next_frame. rewrite Hw. cbn [andb].
    unfold IterSpec.render_outcome. rewrite En. cbn.
    destruct (fst (render (a_rs a) t WStart (a_size a) (a_dur a) (a_args a))); reflexivity.
  Qed.

  (** a seek takes effect at the next render and does not consume a loop — also at the
      end-of-pass boundary, also after the last frame of the last loop *)
  Theorem seek_keeps_loop : forall c rs0 s a ops k off w t,
      refines c -> mk RS n term c rs0 = inl s -> spec_mk RS n term c rs0 = inl a -> n = Some k ->
      let a' := spec_run a ops in
      a_closed a' = false -> seek_target k (a_next a') off w = Some t ->
      trace s (ops ++ [Seek off w; Next]) =
      trace s ops ++ [(OOk, a_loop a'); (render_outcome a' t WStart, a_loop a')].
  Proof.
    intros c rs0 s a ops k off w t Hm Hs Ha En a' Hc Ht.
    rewrite (iter_follows_spec_after RS render n term c rs0 s a ops _ Hm Hs Ha).
    f_equal. apply (spec_seek_then_next _ k); assumption.
  Qed.

  (** CURRENT is relative to the frame to be rendered next *)
  Theorem seek_current_relative_to_next : forall c rs0 s a ops k off,
      refines c -> mk RS n term c rs0 = inl s -> spec_mk RS n term c rs0 = inl a -> n = Some k ->
      let a' := spec_run a ops in
      a_closed a' = false ->
      (0 <= a_next a' + off < k ->
       trace s (ops ++ [Seek off WCurrent; Next]) =
       trace s ops ++ [(OOk, a_loop a'); (render_outcome a' (a_next a' + off) WStart, a_loop a')]) /\
      (~ 0 <= a_next a' + off < k ->
       trace s (ops ++ [Seek off WCurrent]) = trace s ops ++ [(OErr EValue, a_loop a')] /\
       spec_run a (ops ++ [Seek off WCurrent]) = a').
  Proof.
    intros c rs0 s a ops k off Hm Hs Ha En a' Hc. split.
    - intros Hr. apply (seek_keeps_loop c rs0 s a ops k); auto.
      apply seek_target_spec. split; [reflexivity|exact Hr].
    - intros Hr.
      assert (Ht : seek_target k (a_next a') off WCurrent = None).
      { destruct (seek_target k (a_next a') off WCurrent) eqn:E; [|reflexivity].
        apply seek_target_spec in E. destruct E as [-> E]. contradiction. }
      rewrite (iter_follows_spec_after RS render n term c rs0 s a ops _ Hm Hs Ha).
      rewrite spec_run_app. fold a'. cbn. unfold IterSpec.spec_step. rewrite Hc, En, Ht. auto.
  Qed.

  (** the frame number the documented machine keeps is the one after the frame rendered
      last, or the one set by the latest seek *)
  Lemma next_after_frame : forall a k f,
      n = Some k -> a_closed a = false -> snd (spec_step a Next) = OFrame f ->
      a_next (fst (spec_step a Next)) = next_frame a + 1.
  Proof.
    intros a k f En Hc. unfold IterSpec.spec_step. rewrite Hc. unfold IterSpec.spec_next, IterSpec.next_frame, IterSpec.wraps.
    rewrite En.
    destruct ((k <=? a_next a) && ((if (k <=? a_next a) && (0 <? a_loop a) then a_loop a - 1 else a_loop a) =? 0));
      [cbn; discriminate|].
    destruct (render (a_rs a) (if k <=? a_next a then 0 else a_next a) WStart (a_size a) (a_dur a) (a_args a))
      as [[g| |e] r']; cbn; try discriminate. reflexivity.
  Qed.

  Lemma next_after_seek : forall a k off w t,
      n = Some k -> a_closed a = false -> seek_target k (a_next a) off w = Some t ->
      a_next (fst (spec_step a (Seek off w))) = t.
  Proof.
    intros a k off w t En Hc Ht. unfold IterSpec.spec_step. rewrite Hc, En, Ht. reflexivity.
  Qed.

  Lemma next_frame_number : forall (a : astate) k,
      n = Some k -> a_closed a = false ->
      (forall f, snd (spec_step a Next) = OFrame f ->
                 a_next (fst (spec_step a Next)) = next_frame a + 1) /\
      (forall off w t, seek_target k (a_next a) off w = Some t ->
                 a_next (fst (spec_step a (Seek off w))) = t).
  Proof.
    intros a k En Hc. split.
    - intros f. exact (next_after_frame a k f En Hc).
    - intros off w t. exact (next_after_seek a k off w t En Hc).
  Qed.

  (** ** settings *)

  (** the documented state after an accepted setter *)
  Definition with_setting (a : astate) (o : op) : option astate :=
    match o with
    | SetDuration d =>
      if match d with DStatic ms => ms <=? 0 | DDynamic => false end then None
      else Some {| a_closed := a_closed a; a_next := a_next a; a_wh := a_wh a; a_loop := a_loop a; a_size := a_size a; a_dur := d; a_args := a_args a; a_pad := a_pad a; a_rs := a_rs a |}
    | SetPadding p =>
      Some {| a_closed := a_closed a; a_next := a_next a; a_wh := a_wh a; a_loop := a_loop a; a_size := a_size a; a_dur := a_dur a; a_args := a_args a; a_pad := resolve term p; a_rs := a_rs a |}
    | SetArgs (Some v) =>
      Some {| a_closed := a_closed a; a_next := a_next a; a_wh := a_wh a; a_loop := a_loop a; a_size := a_size a; a_dur := a_dur a; a_args := v; a_pad := a_pad a; a_rs := a_rs a |}
    | SetSize sz =>
      Some {| a_closed := a_closed a; a_next := a_next a; a_wh := a_wh a; a_loop := a_loop a; a_size := sz; a_dur := a_dur a; a_args := a_args a; a_pad := a_pad a; a_rs := a_rs a |}
    | _ => None
    end.

  Lemma spec_setter_then_next : forall a o a1,
      a_closed a = false -> with_setting a o = Some a1 ->
      (wraps a && (next_loop a =? 0)) = false ->
      map fst (spec_trace a [o; Next]) =
      [OOk; render_outcome a1 (next_frame a) (match n with Some _ => WStart | None => a_wh a end)].
  Proof.
    intros a o a1 Hc Hs Hx.
    assert (H1 : spec_step a o = (a1, OOk) /\ a_closed a1 = false /\ a_next a1 = a_next a /\
                 a_loop a1 = a_loop a /\ a_wh a1 = a_wh a).
    { unfold IterSpec.spec_step. rewrite Hc.
      destruct o; cbn in Hs; try discriminate.
      - destruct (match d with DStatic ms => ms <=? 0 | DDynamic => false end); [discriminate|].
        inversion Hs; subst; cbn. rewrite Hc. auto.
      - inversion Hs; subst; cbn. rewrite Hc. auto.
      - destruct a0; [|discriminate]. inversion Hs; subst; cbn. rewrite Hc. auto.
      - inversion Hs; subst; cbn. rewrite Hc. auto. }
    destruct H1 as (H1 & Hc1 & Hn1 & Hl1 & Hw1).
    cbn [IterSpec.spec_trace]. rewrite H1.
    assert (Hx1 : (wraps a1 && (next_loop a1 =? 0)) = false).
    { unfold IterSpec.next_loop, IterSpec.wraps in *. rewrite Hn1, Hl1. exact Hx. }
    pose proof (spec_next_outcome RS render n term a1 Hc1 Hx1) as [Ho _].
    destruct (spec_step a1 Next) as [a2 x]. cbn [fst snd map] in *. subst x.
    unfold IterSpec.next_frame, IterSpec.wraps. rewrite Hn1, Hw1. reflexivity.
  Qed.

  (** every setting applies from the next rendered frame: the setter yields nothing, and
      the next frame is rendered (same frame number as without the setter) with the new
      value; with [seek], nothing is rendered at the setter either *)
  Theorem settings_apply_from_next_frame : forall c rs0 s a ops o a1,
      refines c -> mk RS n term c rs0 = inl s -> spec_mk RS n term c rs0 = inl a ->
      let a' := spec_run a ops in
      a_closed a' = false -> with_setting a' o = Some a1 ->
      (wraps a' && (next_loop a' =? 0)) = false ->
      map fst (trace s (ops ++ [o; Next])) =
      map fst (trace s ops) ++
      [OOk; render_outcome a1 (next_frame a') (match n with Some _ => WStart | None => a_wh a' end)].
  Proof.
    intros c rs0 s a ops o a1 Hm Hs Ha a' Hc Hset Hx.
    rewrite (iter_follows_spec_after RS render n term c rs0 s a ops _ Hm Hs Ha).
    rewrite map_app. f_equal. apply spec_setter_then_next; assumption.
  Qed.

  (** ** INDEFINITE sources: the pending seek *)

  (** the two renders that follow a seek on an INDEFINITE source: the first is handed the
      seek, the second is handed "no seek" ([0, CURRENT]) *)
  Definition two_renders (a : astate) (off : Z) (w : whence) : list out :=
    let '(res, r') := render (a_rs a) off w (a_size a) (a_dur a) (a_args a) in
    match res with
    | ROk f =>
      [OFrame (wrap_frame (a_pad a) (padded_size (a_pad a) (a_size a)) f);
       render_outcome {| a_closed := false; a_next := 0; a_wh := WCurrent; a_loop := a_loop a;
                         a_size := a_size a; a_dur := a_dur a; a_args := a_args a; a_pad := a_pad a;
                         a_rs := r' |} 0 WCurrent]
    | RStop => [OStop; OStop]
    | RErr e => [OErr (ERender e); OStop]
    end.

  Lemma spec_indefinite_next_next : forall a,
      n = None -> a_closed a = false ->
      map fst (spec_trace a [Next; Next]) = two_renders a (a_next a) (a_wh a).
  Proof.
    intros a En Hc. cbn [IterSpec.spec_trace]. unfold two_renders.
    unfold IterSpec.spec_step at 1. rewrite Hc. unfold IterSpec.spec_next. rewrite En. cbn [andb].
    destruct (render (a_rs a) (a_next a) (a_wh a) (a_size a) (a_dur a) (a_args a)) as [[f| |e] r'] eqn:Er.
    - cbn [fst snd map]. f_equal.
      match goal with |- context [IterSpec.spec_step RS render None term ?x Next] => set (a1 := x) end.
      assert (Hc1 : a_closed a1 = false) by reflexivity.
      assert (Hx : (IterSpec.wraps RS None a1 && (IterSpec.next_loop RS None a1 =? 0)) = false) by reflexivity.
      pose proof (spec_next_outcome RS render None term a1 Hc1 Hx) as [Ho _].
      destruct (IterSpec.spec_step RS render None term a1 Next) as [a2 x]. cbn [fst snd map] in *. subst x.
      reflexivity.
    - cbn. reflexivity.
    - cbn. reflexivity.
  Qed.

  Lemma spec_indefinite_seek : forall a off w,
      n = None -> a_closed a = false -> indefinite_seek_ok off w = true ->
      spec_step a (Seek off w) = (a_with_pos RS a off w, OOk).
  Proof. intros a off w En Hc Hok. unfold IterSpec.spec_step. rewrite Hc, En, Hok. reflexivity. Qed.

  (** for INDEFINITE sources the last pending seek is handed to the renderable exactly
      once: of several seeks between two renders only the last counts, the render after
      it receives it, the render after that receives none *)
  Theorem indefinite_seek_delivered_once : forall c rs0 s a ops off0 w0 off w,
      mk RS n term c rs0 = inl s -> spec_mk RS n term c rs0 = inl a -> n = None ->
      let a' := spec_run a ops in
      a_closed a' = false -> indefinite_seek_ok off0 w0 = true -> indefinite_seek_ok off w = true ->
      map fst (trace s (ops ++ [Seek off0 w0; Seek off w; Next; Next])) =
      map fst (trace s ops) ++ [OOk; OOk] ++ two_renders a' off w.
  Proof.
    intros c rs0 s a ops off0 w0 off w Hs Ha En a' Hc Hok0 Hok.
    assert (Hm : refines c) by (left; unfold cache_decision; rewrite En; reflexivity).
    rewrite (iter_follows_spec_after RS render n term c rs0 s a ops _ Hm Hs Ha).
    rewrite map_app. f_equal. fold a'.
    change [Seek off0 w0; Seek off w; Next; Next] with ([Seek off0 w0; Seek off w] ++ [Next; Next]).
    rewrite spec_trace_app, map_app.
    cbn [IterSpec.spec_trace IterSpec.spec_run fold_left].
    rewrite (spec_indefinite_seek a' off0 w0 En Hc Hok0). cbn [fst snd].
    rewrite (spec_indefinite_seek (a_with_pos RS a' off0 w0) off w En Hc Hok). cbn [fst snd map app].
    f_equal. f_equal.
    change (map fst (spec_trace (a_with_pos RS (a_with_pos RS a' off0 w0) off w) [Next; Next]) = two_renders a' off w).
    rewrite (spec_indefinite_next_next _ En); [reflexivity | exact Hc].
  Qed.

  (** the documented ranges for INDEFINITE sources; a rejected seek leaves the pending one *)
  Theorem indefinite_seek_rejected : forall a off w,
      n = None -> a_closed a = false -> indefinite_seek_ok off w = false ->
      spec_step a (Seek off w) = (a, OErr EValue).
  Proof. intros a off w En Hc Hok. unfold IterSpec.spec_step. rewrite Hc, En, Hok. reflexivity. Qed.

  (** ** the loop countdown *)

  Lemma loop_only_next : forall a o, o <> Next -> a_loop (fst (spec_step a o)) = a_loop a.
  Proof.
    intros a o Ho. unfold IterSpec.spec_step. destruct (a_closed a); [reflexivity|].
    destruct o; try congruence; cbn.
    - destruct n; [destruct (seek_target _ _ _ _)|destruct (indefinite_seek_ok _ _)]; reflexivity.
    - destruct (match d with DStatic ms => ms <=? 0 | DDynamic => false end); reflexivity.
    - reflexivity.
    - destruct a0; reflexivity.
    - reflexivity.
    - reflexivity.
    - reflexivity.
  Qed.

  Lemma loop_at_next : forall a k,
      n = Some k -> a_closed a = false -> a_loop (fst (spec_step a Next)) = next_loop a.
  Proof.
    intros a k En Hc. unfold IterSpec.spec_step. rewrite Hc.
    unfold IterSpec.spec_next, IterSpec.next_loop, IterSpec.wraps. rewrite En.
    destruct ((k <=? a_next a) && ((if (k <=? a_next a) && (0 <? a_loop a) then a_loop a - 1 else a_loop a) =? 0));
      [reflexivity|].
    destruct (render _ _ _ _ _ _) as [[f| |e] r']; reflexivity.
  Qed.

  (** [iterator.loop] is the documented countdown: it starts at [loops], only [next]
      changes it, a [next] that starts a new loop (frame [n-1] was the last one rendered
      or skipped to) takes one off a positive value, a negative value never changes,
      and it is 0 exactly when a finite iteration is exhausted *)
  Theorem loop_countdown : forall c rs0 s a ops k,
      refines c -> mk RS n term c rs0 = inl s -> spec_mk RS n term c rs0 = inl a -> n = Some k ->
      let a' := spec_run a ops in
      pub_loop (run s ops) = a_loop a' /\
      a_loop a = c_loops c /\
      (forall o, o <> Next -> a_loop (fst (spec_step a' o)) = a_loop a') /\
      (a_closed a' = false ->
       a_loop (fst (spec_step a' Next)) =
       if (k <=? a_next a') && (0 <? a_loop a') then a_loop a' - 1 else a_loop a') /\
      (a_closed a' = false -> a_loop a' <> 0) /\
      (a_closed a' = false -> (k <=? a_next a') && (a_loop a' =? 1) = true ->
       snd (spec_step a' Next) = OStop /\ a_loop (fst (spec_step a' Next)) = 0).
  Proof.
    intros c rs0 s a ops k Hm Hs Ha En a'.
    pose proof (sim_mk RS render n term c rs0 Hm) as H0. rewrite Hs, Ha in H0.
    pose proof (sim_run RS render n term ops s a H0) as (_ & Hl & _).
    destruct (spec_mk_wf RS n term c rs0 a Ha) as [Hwf Hi].
    pose proof (spec_inv_run RS render n term ops a Hwf Hi) as Hi'. fold a' in Hi'.
    split; [exact Hl|]. split.
    { revert Ha. unfold spec_mk. rewrite En.
      destruct (k <? 2); [discriminate|]. destruct (c_loops c =? 0); [discriminate|].
      destruct (match c_cache c with CBool _ => false | CInt v => v <=? 0 end); [discriminate|].
      destruct (c_args c); [|discriminate]. intros H; inversion H; reflexivity. }
    split; [intros o Ho; apply loop_only_next; exact Ho|].
    split.
    { intros Hc. rewrite (loop_at_next a' k En Hc). unfold IterSpec.next_loop, IterSpec.wraps. rewrite En. reflexivity. }
    split; [intros Hc; apply (Hi' Hc)|].
    intros Hc Hb. apply andb_true_iff in Hb. destruct Hb as [Hw H1]. apply Z.eqb_eq in H1.
    assert (Hx : (wraps a' && (next_loop a' =? 0)) = true).
    { unfold IterSpec.next_loop, IterSpec.wraps. rewrite En, Hw, H1. reflexivity. }
    destruct (spec_next_exhausts RS render n term a' Hc Hx) as (A & B & _). auto.
  Qed.

  Theorem loop_negative_forever : forall k, n = Some k -> forall ops a,
      a_loop a < 0 -> a_loop (spec_run a ops) = a_loop a.
  Proof.
    intros k En. induction ops as [|o ops IH]; intros a H; [reflexivity|].
    cbn. assert (Hs : a_loop (fst (spec_step a o)) = a_loop a).
    { destruct (a_closed a) eqn:Hc.
      - unfold IterSpec.spec_step. rewrite Hc. reflexivity.
      - destruct o; try (apply loop_only_next; discriminate).
        unfold IterSpec.spec_step. rewrite Hc. unfold IterSpec.spec_next.
        assert (E : (0 <? a_loop a) = false) by lia. rewrite E, andb_false_r.
        assert (E0 : (a_loop a =? 0) = false) by lia. rewrite E0, andb_false_r.
        destruct (render _ _ _ _ _ _) as [[f| |e] r']; rewrite ?En; reflexivity. }
    fold (spec_run (fst (spec_step a o)) ops).
    rewrite IH; [exact Hs | rewrite Hs; exact H].
  Qed.
End Cor.
