(** Proofs about model/IterCtor.v: a fault at ANY step of the construction of a RenderIterator,
    followed by the collection of the half-built object (C10). *)
From Coq Require Import List Bool Arith Lia ZArith.
Import ListNotations.
From TI Require Import model.IterCtor model.Iter.
Open Scope nat_scope.

(** ** the once-flag of the data *)
Definition dwf (d : data) : Prop :=
  (d_finalized d = false /\ d_calls d = 0) \/ (d_finalized d = true /\ d_calls d = 1).

Lemma finalize_wf : forall d, dwf d -> dwf (finalize d).
Proof.
  intros d [[F C] | [F C]]; unfold finalize; rewrite F; right; cbn.
  - rewrite C; auto.
  - auto.
Qed.

Lemma finalize_done : forall d, dwf d -> d_finalized (finalize d) = true /\ d_calls (finalize d) = 1.
Proof.
  intros d [[F C] | [F C]]; unfold finalize; rewrite F; cbn.
  - rewrite C; auto.
  - auto.
Qed.

Lemma finalize_exists : forall d, d_exists (finalize d) = d_exists d.
Proof. intros d; unfold finalize; destruct (d_finalized d); reflexivity. Qed.

Lemma dwf_fresh : dwf fresh_data. Proof. left; split; reflexivity. Qed.
Lemma dwf_none : dwf no_data. Proof. left; split; reflexivity. Qed.

(** ** [exec] never touches the finalisation ghost of the data *)
Lemma with_obj_data : forall s f s', with_obj s f = Some s' -> c_data s' = c_data s.
Proof.
  intros s f s'; unfold with_obj; destruct (c_obj s); [destruct (f o) |]; intros H; inversion H; reflexivity.
Qed.

Lemma exec1_data : forall s i s', exec1 s i = Some s' -> c_data s' = c_data s \/ c_data s' = fresh_data.
Proof.
  intros s i s' H; destruct i; cbn in H;
    try (left; eapply with_obj_data; eassumption).
  - inversion H; left; reflexivity.
  - destruct (c_obj s); inversion H; right; reflexivity.
  - destruct (d_exists (c_data s) && negb (d_finalized (c_data s))); [left; eapply with_obj_data; eassumption | discriminate].
  - destruct (d_exists (c_data s)); [left; eapply with_obj_data; eassumption | discriminate].
Qed.

Lemma abort_data : forall s, c_data (abort s) = c_data s.
Proof. intros s; unfold abort; destruct (c_obj s) as [o|]; [destruct (a_iter o) as [[]|] |]; reflexivity. Qed.

Lemma exec_wf : forall p k s, dwf (c_data s) -> dwf (c_data (fst (exec p k s))).
Proof.
  induction p as [|i r IH]; intros k s W; cbn; [assumption|].
  destruct k as [|k]; cbn; [rewrite abort_data; assumption|].
  destruct (exec1 s i) as [s'|] eqn:E; cbn; [|rewrite abort_data; assumption].
  apply IH. destruct (exec1_data _ _ _ E) as [H | H]; rewrite H; [assumption | apply dwf_fresh].
Qed.

Lemma close_obj_wf : forall o d, dwf d -> dwf (snd (fst (close_obj o d))).
Proof.
  intros o d W; unfold close_obj.
  destruct (a_closed o) as [[]|]; cbn; try assumption.
  destruct (a_iter o); cbn; try assumption.
  destruct (a_flag o) as [[]|]; cbn; destruct (a_rdata o); cbn; try assumption.
  apply finalize_wf; assumption.
Qed.

Lemma drop_wf : forall s, dwf (c_data s) -> dwf (c_data (drop s)).
Proof.
  intros s W; unfold drop; destruct (c_obj s) as [o|]; [|assumption].
  pose proof (close_obj_wf o (c_data s) W) as H.
  destruct (close_obj o (c_data s)) as [[o' d'] b]; cbn in *; assumption.
Qed.

Lemma start_wf : forall kd, dwf (c_data (start kd)).
Proof. intros []; cbn; [apply dwf_none | apply dwf_fresh | apply dwf_fresh]. Qed.

Lemma after_drop_wf : forall kd p k, dwf (c_data (after_drop kd p k)).
Proof. intros; unfold after_drop; apply drop_wf, exec_wf, start_wf. Qed.

(** ** at most once, at every moment, for EVERY constructor program and fault position *)
Lemma dwf_le : forall d, dwf d -> d_calls d <= 1.
Proof. intros d [[_ C] | [_ C]]; rewrite C; lia. Qed.

Lemma collect_spec : forall s, dwf (c_data s) ->
  let d := c_data (collect s) in
  d_calls d <= 1 /\ (d_exists d = true -> d_finalized d = true /\ d_calls d = 1).
Proof.
  intros s W; unfold collect; cbn.
  destruct (d_exists (c_data s)) eqn:E.
  - split; [apply dwf_le, finalize_wf; assumption | intros _; apply finalize_done; assumption].
  - split; [apply dwf_le; assumption | rewrite E; discriminate].
Qed.

Lemma the_end_wf_arg : forall kd p k,
  dwf (c_data (match kd with
               | KKeep => {| c_obj := c_obj (after_drop kd p k); c_data := finalize (c_data (after_drop kd p k)) |}
               | _ => after_drop kd p k
               end)).
Proof.
  intros kd p k. pose proof (after_drop_wf kd p k) as W.
  destruct kd; cbn; [assumption | apply finalize_wf; assumption | assumption].
Qed.

Lemma ctor_at_most_once : forall kd p k,
  d_calls (c_data (after_drop kd p k)) <= 1 /\ d_calls (c_data (the_end kd p k)) <= 1.
Proof.
  intros kd p k; split; [apply dwf_le, after_drop_wf|].
  unfold the_end. apply collect_spec, the_end_wf_arg.
Qed.

(** ** exactly once in the end, for EVERY constructor program and fault position: the once-flag
    and [RenderData.__del__] see to it, whatever the half-built iterator did *)
Lemma ctor_exactly_once_in_the_end : forall kd p k,
  let d := c_data (the_end kd p k) in
  d_calls d <= 1 /\ (d_exists d = true -> d_finalized d = true /\ d_calls d = 1).
Proof. intros kd p k; unfold the_end; apply collect_spec, the_end_wf_arg. Qed.

(** ** data of a caller who keeps ownership: untouched after ANY fault, provided the flag is never
    given a value the caller did not ask for *)
Definition flag_ok (s : cstate) : Prop :=
  match c_obj s with Some o => a_flag o <> Some true | None => True end.

Definition untouched (d : data) : Prop := d_finalized d = false /\ d_calls d = 0.

Lemma with_obj_flag_ok : forall s f s',
  flag_ok s -> (forall o o', f o = Some o' -> a_flag o' = a_flag o) ->
  with_obj s f = Some s' -> flag_ok s'.
Proof.
  intros s f s' F K; unfold with_obj, flag_ok in *.
  destruct (c_obj s) as [o|]; [|discriminate].
  destruct (f o) as [o'|] eqn:E; [|discriminate].
  intros H; inversion H; cbn. rewrite (K _ _ E); assumption.
Qed.

Lemma exec1_keep : forall s i s',
  (forall v, i = ISetFlag v -> v = false) ->
  flag_ok s -> untouched (c_data s) -> exec1 s i = Some s' -> flag_ok s' /\ untouched (c_data s').
Proof.
  intros s i s' HF F U H.
  assert (D : untouched (c_data s')).
  { destruct (exec1_data _ _ _ H) as [E | E]; rewrite E; [assumption | split; reflexivity]. }
  split; [|assumption]. clear D U.
  destruct i; cbn in H.
  - inversion H; cbn; discriminate.
  - eapply with_obj_flag_ok; [eassumption | | eassumption]. intros o o' E; inversion E; reflexivity.
  - unfold flag_ok in *; destruct (c_obj s); inversion H; cbn; assumption.
  - destruct (_ && _); [|discriminate]. eapply with_obj_flag_ok; [eassumption | | eassumption].
    intros o o' E; inversion E; reflexivity.
  - destruct (d_exists _); [|discriminate]. eapply with_obj_flag_ok; [eassumption | | eassumption].
    intros o o' E; inversion E; reflexivity.
  - rewrite (HF v eq_refl) in H. unfold with_obj, flag_ok in *.
    destruct (c_obj s); inversion H; cbn; discriminate.
  - eapply with_obj_flag_ok; [eassumption | | eassumption].
    intros o o' E; cbv beta in E; destruct (a_iter o) as [[]|]; inversion E; reflexivity.
  - eapply with_obj_flag_ok; [eassumption | | eassumption].
    intros o o' E; cbv beta in E; destruct (a_iter o) as [[]|]; inversion E; reflexivity.
  - eapply with_obj_flag_ok; [eassumption | | eassumption].
    intros o o' E; cbv beta in E; destruct (a_iter o) as [[]|]; inversion E; reflexivity.
  - eapply with_obj_flag_ok; [eassumption | | eassumption].
    intros o o' E; cbv beta in E; destruct (a_iter o) as [[]|]; inversion E; reflexivity.
  - eapply with_obj_flag_ok; [eassumption | | eassumption]. intros o o' E; inversion E; reflexivity.
Qed.

Lemma abort_flag_ok : forall s, flag_ok s -> flag_ok (abort s).
Proof.
  intros s; unfold abort, flag_ok. destruct (c_obj s) as [o|] eqn:E; [|rewrite E; auto].
  destruct (a_iter o) as [[]|]; cbn; rewrite ?E; auto.
Qed.

Lemma exec_keep : forall p k s,
  (forall v, In (ISetFlag v) p -> v = false) ->
  flag_ok s -> untouched (c_data s) ->
  flag_ok (fst (exec p k s)) /\ untouched (c_data (fst (exec p k s))).
Proof.
  induction p as [|i r IH]; intros k s HF F U; cbn; [split; assumption|].
  destruct k as [|k]; cbn; [split; [apply abort_flag_ok; assumption | rewrite abort_data; assumption]|].
  destruct (exec1 s i) as [s'|] eqn:E; cbn;
    [|split; [apply abort_flag_ok; assumption | rewrite abort_data; assumption]].
  destruct (exec1_keep s i s') as [F' U']; try assumption.
  - intros v ->; apply HF; left; reflexivity.
  - apply IH; try assumption. intros v I; apply HF; right; assumption.
Qed.

Lemma drop_keep : forall s, flag_ok s -> untouched (c_data s) -> untouched (c_data (drop s)).
Proof.
  intros s F U; unfold drop, flag_ok in *. destruct (c_obj s) as [o|]; [|assumption].
  unfold close_obj. destruct (a_closed o) as [[]|]; cbn; try assumption.
  destruct (a_iter o); cbn; try assumption.
  destruct (a_flag o) as [[]|]; [exfalso; apply F; reflexivity | |];
    destruct (a_rdata o); cbn; assumption.
Qed.

Theorem ctor_kept_untouched : forall p k,
  flags_faithful KKeep p -> kept_untouched (c_data (after_drop KKeep p k)).
Proof.
  intros p k HF; unfold after_drop.
  destruct (exec_keep p k (start KKeep)) as [F U].
  - intros v I; apply (HF v I).
  - exact I.
  - split; reflexivity.
  - apply drop_keep; assumption.
Qed.

Lemma flags_faithfulb_sound : forall kd p, flags_faithfulb kd p = true -> flags_faithful kd p.
Proof.
  intros kd p; induction p as [|i r IH]; intros H v I; [destruct I|].
  destruct I as [-> | I].
  - cbn in H. apply andb_true_iff in H; destruct H as [H _]. apply eqb_prop; assumption.
  - apply IH; [|assumption]. destruct i; cbn in H; try assumption.
    apply andb_true_iff in H; tauto.
Qed.

Lemma code_flags_faithful : forall kd, flags_faithful kd (prog_of kd).
Proof. intros []; apply flags_faithfulb_sound; reflexivity. Qed.

(** the code: for every fault position, the data of a caller who asked to keep it is untouched once
    the half-built (or complete) iterator has been collected ... *)
Theorem ctor_code_kept_untouched : forall k,
  kept_untouched (c_data (after_drop KKeep (prog_of KKeep) k)).
Proof. intros k; apply ctor_kept_untouched, code_flags_faithful. Qed.

(** ... and data the iterator owns ([RenderIterator(...)], [finalize=True]) has seen exactly one
    finalizer call once everything is collected - if a data object came into being at all *)
Theorem ctor_code_exactly_once : forall kd k,
  let d := c_data (the_end kd (prog_of kd) k) in
  d_calls d <= 1 /\ (d_exists d = true -> d_finalized d = true /\ d_calls d = 1).
Proof. intros; apply ctor_exactly_once_in_the_end. Qed.

(** non-vacuity: the fault positions of the code's programs do different things - finalizer calls
    after the drop of the object, per fault position 0..10 (9: the object is complete but the
    constructor raises instead of returning it; 10 = no fault) *)
Example ctor_positions_give :
  map (fun k => d_calls (c_data (after_drop KGive (prog_of KGive) k))) (seq 0 11) = [0;0;0;0;0;0;0;1;1;1;1].
Proof. vm_compute; reflexivity. Qed.
Example ctor_positions_init :
  map (fun k => (d_exists (c_data (after_drop KInit prog_init k)), d_calls (c_data (after_drop KInit prog_init k))))
      (seq 0 11)
  = [(false,0);(false,0);(false,0);(true,0);(true,0);(true,0);(true,0);(true,1);(true,1);(true,1);(true,1)].
Proof. vm_compute; reflexivity. Qed.
Example ctor_positions_keep :
  map (fun k => d_calls (c_data (after_drop KKeep (prog_of KKeep) k))) (seq 0 11) = [0;0;0;0;0;0;0;0;0;0;0].
Proof. vm_compute; reflexivity. Qed.

(** ** the excluded design: default [True] first, the caller's [False] once set up.  Unfaulted it
    behaves like the code; a fault during priming (positions 7, 8), between priming and the late
    store (9) or after it (10: flag right again) - 7, 8, 9 make the collected half-built iterator finalize data the caller kept. *)
Example default_first_unfaulted_same :
  after_drop KKeep (prog_frd_default_first false) 11 = after_drop KKeep (prog_of KKeep) 10.
Proof. vm_compute; reflexivity. Qed.

Example default_first_refuted :
  map (fun k => d_calls (c_data (after_drop KKeep (prog_frd_default_first false) k))) (seq 0 12)
  = [0;0;0;0;0;0;0;1;1;1;0;0]
  /\ ~ kept_untouched (c_data (after_drop KKeep (prog_frd_default_first false) 7))
  /\ ~ flags_faithful KKeep (prog_frd_default_first false).
Proof.
  split; [vm_compute; reflexivity|]. split.
  - vm_compute. intros [H _]; discriminate.
  - intros H. specialize (H true). cbn in H. assert (true = false) by (apply H; auto 10). discriminate.
Qed.

(** ** the un-faulted construction is [Iter.mk] *)
Definition complete (kd : kind) : cstate :=
  {| c_obj := Some {| a_closed := Some false; a_iter := Some GSuspended; a_rdata := true;
                      a_flag := Some (owns_of kd) |};
     c_data := fresh_data |}.

Lemma ctor_complete : forall kd k, length (prog_of kd) <= k ->
  exec (prog_of kd) k (start kd) = (complete kd, true).
Proof.
  intros kd k H.
  assert (E : exists j, k = 10 + j) by (exists (k - 10); destruct kd; cbn in H; lia).
  destruct E as [j ->]. destruct kd; reflexivity.
Qed.

Section MkLink.
  Variable RS : Type.
  Variable n : option Z.
  Variable term : size.

  (** what [Iter.mk] returns is the complete object: open, generator at its dummy yield, fresh ghost,
      [owns] as asked; and dropping it is [Iter.close] *)
  Lemma ctor_complete_is_mk : forall kd c rs0 s,
    mk RS n term c rs0 = inl s -> c_owns c = owns_of kd ->
    let o := match c_obj (complete kd) with Some o => o | None => blank end in
    a_closed o = Some (closed s) /\ phase s = AtDummy /\ a_flag o = Some (owns (gh s)) /\
    d_finalized (c_data (complete kd)) = finalized (gh s) /\ d_calls (c_data (complete kd)) = fin_calls (gh s) /\
    d_finalized (c_data (drop (complete kd))) = finalized (gh (close RS s)) /\
    d_calls (c_data (drop (complete kd))) = fin_calls (gh (close RS s)).
  Proof.
    intros kd c rs0 s M O. unfold mk in M.
    destruct (match n with Some k => (k <? 2)%Z | None => false end); [discriminate|].
    destruct (c_loops c =? 0)%Z; [discriminate|].
    destruct (negb (cache_valid (c_cache c))); [discriminate|].
    destruct (c_args c); [|discriminate].
    inversion M; subst s; clear M. cbn. rewrite O.
    destruct kd; cbn; repeat split; reflexivity.
  Qed.
End MkLink.

(** ** the statements exported by props/C10.v *)
Lemma ctor_exactly_once_for_every_design_and_fault : forall kd p k,
  d_calls (c_data (after_drop kd p k)) <= 1 /\
  let d := c_data (the_end kd p k) in
  d_calls d <= 1 /\ (d_exists d = true -> d_finalized d = true /\ d_calls d = 1).
Proof.
  intros kd p k; split; [apply (ctor_at_most_once kd p k) | apply ctor_exactly_once_in_the_end].
Qed.

Lemma ctor_code_kept :
  (forall kd, flags_faithful kd (prog_of kd)) /\
  forall k, kept_untouched (c_data (after_drop KKeep (prog_of KKeep) k)).
Proof. split; [exact code_flags_faithful | exact ctor_code_kept_untouched]. Qed.

Lemma default_first_refuted_all :
  after_drop KKeep (prog_frd_default_first false) 11 = after_drop KKeep (prog_of KKeep) 10 /\
  map (fun k => d_calls (c_data (after_drop KKeep (prog_frd_default_first false) k))) (seq 0 12)
    = [0;0;0;0;0;0;0;1;1;1;0;0] /\
  ~ kept_untouched (c_data (after_drop KKeep (prog_frd_default_first false) 7)) /\
  ~ flags_faithful KKeep (prog_frd_default_first false).
Proof. split; [exact default_first_unfaulted_same | exact default_first_refuted]. Qed.

Lemma ctor_complete_is_mk_all : forall RS n term kd c rs0 s,
  mk RS n term c rs0 = inl s -> c_owns c = owns_of kd ->
  (forall k, length (prog_of kd) <= k -> exec (prog_of kd) k (start kd) = (complete kd, true)) /\
  let o := match c_obj (complete kd) with Some o => o | None => blank end in
  a_closed o = Some (closed s) /\ phase s = AtDummy /\ a_flag o = Some (owns (gh s)) /\
  d_finalized (c_data (complete kd)) = finalized (gh s) /\ d_calls (c_data (complete kd)) = fin_calls (gh s) /\
  d_finalized (c_data (drop (complete kd))) = finalized (gh (close RS s)) /\
  d_calls (c_data (drop (complete kd))) = fin_calls (gh (close RS s)).
Proof.
  intros RS n term kd c rs0 s M O; split; [exact (ctor_complete kd) | exact (ctor_complete_is_mk RS n term kd c rs0 s M O)].
Qed.
