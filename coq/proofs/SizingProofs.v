(** C04, the arithmetic part: what [_valid_size] returns, for every float arithmetic
    satisfying the IEEE standard model ([StandardModel], lib/FArith.v).  Proofs over
    [Q]: the rounding facts of the model give enclosures of every intermediate float
    (lib/FArithFacts.v), after which [lra] / [lia] finish. *)
From Coq Require Import ZArith QArith Qround Qabs Lqa Lia List Bool.
From TI Require Import lib.FArith lib.FArithFacts model.Sizing.
Open Scope Q_scope.

Definition L (n : positive) : Q := 1 - (Zpos n # 2 ^ 52).
Definition H (n : positive) : Q := 1 + (Zpos n # 2 ^ 52).
Definition delta : Q := 1 # 1024.
Definition two (k : Z) : Q := inject_Z (2 ^ k).          (* 2^k,  k >= 0 *)
Definition itwo (k : positive) : Q := 1 # (2 ^ k).       (* 2^-k *)
Notation QZ := inject_Z.

Ltac side := vm_compute; reflexivity.

(** ------------------------------------------------------------------------------
    pixels -> cells: "within one cell, never below 1" *)
Definition nearP (obs : Z) (x : Q) : Prop :=
  (x < 1 -> obs = 1%Z) /\ (1 <= x -> QZ obs - x < 1 /\ x - QZ obs < 1).

Lemma or1_pos : forall z, (0 <= z)%Z -> (0 < or1 z)%Z.
Proof. intros z Hz. unfold or1. destruct (z =? 0)%Z eqn:E; [lia|]. apply Z.eqb_neq in E. lia. Qed.
Lemma or1_id : forall z, (0 < z)%Z -> or1 z = z.
Proof. intros z Hz. unfold or1. destruct (z =? 0)%Z eqn:E; [apply Z.eqb_eq in E; lia|reflexivity]. Qed.
Lemma or1_le : forall z m, (z <= m)%Z -> (1 <= m)%Z -> (or1 z <= m)%Z.
Proof. intros z m H1 H2. unfold or1. destruct (z =? 0)%Z; lia. Qed.

(** floor division by the cell dimension (graphics; also text columns with [c = 1]) *)
Lemma near_floor : forall p c X, (0 <= p)%Z -> (1 <= c)%Z ->
  X - (1 # 2) - delta <= QZ p -> QZ p <= X + (1 # 2) + delta ->
  nearP (or1 (p / c)) (X / QZ c).
Proof.
  intros p c X Hp Hc Hl Hh.
  assert (D : delta < 1 # 2) by qdec.
  assert (C1 : 1 <= QZ c) by (change 1 with (QZ 1); rewrite <- Zle_Qle; lia).
  pose proof (Z.div_mod p c ltac:(lia)) as Edm.
  pose proof (Z.mod_pos_bound p c ltac:(lia)) as Hm.
  set (k := (p / c)%Z) in *.
  assert (K0 : (0 <= k)%Z) by (apply Z.div_pos; lia).
  assert (Kl : QZ c * QZ k <= QZ p) by (rewrite <- inject_Z_mult, <- Zle_Qle; lia).
  assert (Kh : QZ p <= QZ c * QZ k + QZ c - 1).
  { assert (p <= c * k + c - 1)%Z by lia.
    rewrite Zle_Qle in H0.
    unfold Z.sub in H0. rewrite !inject_Z_plus, inject_Z_mult in H0.
    change (QZ (- (1))) with (- (1)) in H0. lra. }
  split.
  - intro Hx.
    assert (X < QZ c).
    { assert (E : X == X / QZ c * QZ c) by (field; lra). rewrite E. nra. }
    assert (QZ p < QZ (c + 1)) by (rewrite inject_Z_plus; change (QZ 1) with 1; lra).
    apply Zlt_Q in H1.
    assert (k <= 1)%Z.
    { unfold k. apply Z.le_trans with (c / c)%Z; [apply Z.div_le_mono; lia|].
      rewrite Z.div_same; lia. }
    unfold or1. destruct (k =? 0)%Z eqn:E; [reflexivity|]. apply Z.eqb_neq in E. lia.
  - intro Hx.
    assert (QZ c <= X).
    { assert (E : X == X / QZ c * QZ c) by (field; lra). rewrite E. nra. }
    assert (QZ (c - 1) < QZ p).
    { unfold Z.sub. rewrite inject_Z_plus. change (QZ (- (1))) with (- (1)). lra. }
    apply Zlt_Q in H1.
    assert (1 <= k)%Z.
    { unfold k. apply Z.le_trans with (c / c)%Z; [rewrite Z.div_same; lia|].
      apply Z.div_le_mono; lia. }
    rewrite or1_id by lia.
    assert (E1 : QZ k - X / QZ c == (QZ c * QZ k - X) / QZ c) by (field; lra).
    assert (E2 : X / QZ c - QZ k == (X - QZ c * QZ k) / QZ c) by (field; lra).
    rewrite E1, E2. split; apply Qlt_shift_div_r; lra.
Qed.

(** text lines: [ceil(p / 2)] *)
Lemma near_ceil2 : forall p X, (0 <= p)%Z ->
  X - (1 # 2) - delta <= QZ p -> QZ p <= X + (1 # 2) + delta ->
  nearP (or1 ((p + 1) / 2)) (X / 2).
Proof.
  intros p X Hp Hl Hh.
  assert (D : delta < 1 # 2) by qdec.
  set (k := ((p + 1) / 2)%Z).
  assert (Hk : (2 * k = p \/ 2 * k = p + 1)%Z) by (unfold k; Z.div_mod_to_equations; lia).
  assert (Kq : 2 * QZ k == QZ p \/ 2 * QZ k == QZ p + 1).
  { destruct Hk as [E|E]; [left|right].
    - rewrite <- E, inject_Z_mult. reflexivity.
    - assert (E' : QZ (2 * k) == QZ (p + 1)) by (rewrite E; reflexivity).
      rewrite inject_Z_mult, inject_Z_plus in E'. exact E'. }
  change (X / 2) with (X * (1 # 2)).
  split.
  - intro Hx. assert (X < 2) by lra.
    assert (QZ p < QZ 3) by (change (QZ 3) with 3; lra).
    apply Zlt_Q in H1.
    unfold or1. destruct (k =? 0)%Z eqn:E; [reflexivity|]. apply Z.eqb_neq in E. lia.
  - intro Hx. assert (2 <= X) by lra.
    assert (QZ 1 < QZ p) by (change (QZ 1) with 1; lra).
    apply Zlt_Q in H1.
    rewrite or1_id by lia.
    split; destruct Kq as [E|E]; lra.
Qed.


Section Proofs.
Context {FA : FloatArith} (SM : StandardModel FA).
Local Notation fin := (finite SM).
Local Notation v := (val SM).
Local Notation u := ulp_rel.
Local Notation Ap := (Ap SM).

Definition dim30 (z : Z) : Prop := (1 <= z < 2 ^ 30)%Z.

Lemma dim30_Q : forall z, dim30 z -> 1 <= QZ z /\ QZ z <= two 30 /\ itwo 30 <= QZ z.
Proof.
  intros z [H1 H2]. unfold two, itwo.
  assert (QZ 1 <= QZ z) by (rewrite <- Zle_Qle; lia).
  assert (QZ z <= QZ (2 ^ 30)) by (rewrite <- Zle_Qle; lia).
  change (QZ 1) with 1 in *. repeat split; try assumption.
  apply Qle_trans with 1; [qdec|assumption].
Qed.

Lemma Ap_dim : forall z, dim30 z -> Ap (ofZ z) (QZ z) 1 1 1 (two 30).
Proof.
  intros z Hz. destruct (dim30_Q z Hz) as (A & B & C). destruct Hz.
  apply Ap_ofZ; try assumption; lia.
Qed.

(** the ratio frame / original *)
Lemma Ap_ratio : forall f o, dim30 f -> dim30 o ->
  Ap (fdiv (ofZ f) (ofZ o)) (QZ f / QZ o) (L 1) (H 1) (itwo 30) (two 30).
Proof.
  intros f o Hf Ho.
  apply (Ap_div_w SM _ _ _ _ _ _ _ _ _ _ _ _ _ _ _ _ (Ap_dim f Hf) (Ap_dim o Ho)). side.
Qed.

(** ------------------------------------------------------------------------------
    One half of the FIT computation (common.py:1800-1813), generically: [c] is the
    constraining axis, [n] the other one.  [adj] applies the pixel ratio. *)
Definition half (co cf no nf : Z) (sr : F FA) (adj : F FA -> F FA) : Z * Z :=
  let _c := fmul (ofZ co) sr in
  let _n := adj (fmul (ofZ no) sr) in
  let n := fmin _n (ofZ nf) in
  (fround (fmul (fdiv n _n) _c), fround n).

Lemma fit_px_half : forall pr ow oh fw fh,
  fit_px pr ow oh fw fh =
  let wr := fdiv (ofZ fw) (ofZ ow) in
  let hr := fdiv (ofZ fh) (ofZ oh) in
  let sr := fmin wr hr in
  if fltb wr hr then half ow fw oh fh sr (fun x => fmul x pr)
  else let '(c, n) := half oh fh ow fw sr (fun x => fdiv x pr) in (n, c).
Proof. intros. unfold fit_px, half. cbv zeta. destruct (fltb _ _); reflexivity. Qed.

Lemma half_spec : forall co cf no nf sr adj K,
  dim30 co -> dim30 cf -> dim30 no -> dim30 nf ->
  Ap sr (QZ cf / QZ co) (L 1) (H 1) (itwo 30) (two 30) ->
  Ap (adj (fmul (ofZ no) sr)) (QZ no * (QZ cf / QZ co) * K) (L 4) (H 4) (itwo 92) (two 92) ->
  let NX := QZ no * (QZ cf / QZ co) * K in
  let CX := QZ nf / NX * QZ cf in
  let '(cpx, npx) := half co cf no nf sr adj in
  (0 <= cpx <= cf)%Z /\ (0 <= npx <= nf)%Z /\
  ((cpx = cf /\ NX - (1 # 2) - delta <= QZ npx /\ QZ npx <= NX + (1 # 2) + delta) \/
   (npx = nf /\ CX - (1 # 2) - delta <= QZ cpx /\ QZ cpx <= CX + (1 # 2) + delta)).
Proof.
  intros co cf no nf sr adj K Hco Hcf Hno Hnf Asr An NX CX. unfold half.
  set (_c := fmul (ofZ co) sr). set (_n := adj (fmul (ofZ no) sr)) in *.
  destruct (dim30_Q _ Hco) as (Qco1 & Qco2 & _). destruct (dim30_Q _ Hcf) as (Qcf1 & Qcf2 & _).
  destruct (dim30_Q _ Hnf) as (Qnf1 & Qnf2 & _).
  (* _c approximates cf *)
  assert (Ac0 : Ap _c (QZ co * (QZ cf / QZ co)) (L 2) (H 2) (itwo 30) (two 60)).
  { apply (Ap_mul_w SM _ _ _ _ _ _ _ _ _ _ _ _ _ _ _ _ (Ap_dim co Hco) Asr). side. }
  assert (Ec : QZ co * (QZ cf / QZ co) == QZ cf) by (field; lra).
  assert (Ac : Ap _c (QZ cf) (L 2) (H 2) 1 (two 30)).
  { apply Ap_rebound with (lo := itwo 30) (hi := two 60); [|assumption|assumption].
    apply Ap_exact with (x := QZ co * (QZ cf / QZ co)); assumption. }
  destruct (Ap_abs SM _ _ _ _ _ _ delta Ac ltac:(side) ltac:(qdec) ltac:(qdec)) as [Cl Ch].
  destruct (Ap_pos SM _ _ _ _ _ _ Ac ltac:(side)) as (_ & Pc & _).
  assert (Fc : fin _c) by (destruct Ac; assumption).
  assert (Rc : v _c <= fbig).
  { apply Qle_trans with (two 30 + delta); [lra|qdec]. }
  destruct (Ap_pos SM _ _ _ _ _ _ An ltac:(side)) as (PNX & Pn & _).
  assert (Fn : fin _n) by (destruct An; assumption).
  destruct (ofZ_ok SM nf ltac:(destruct Hnf; lia)) as [Fnf Vnf].
  assert (Anf : Ap (ofZ nf) (QZ nf) 1 1 1 (two 30)) by (apply Ap_dim; assumption).
  destruct (fmin_cases SM _n (ofZ nf) Fn Fnf) as [(Eb & Hlt & Em)|(Eb & Hle & Em)];
    rewrite Em; clear Em.
  - (* clamped: the other axis is reduced to its frame dimension *)
    rewrite Vnf in Hlt.
    destruct (fdiv_le_1 SM (ofZ nf) _n Fnf Fn ltac:(rewrite Vnf; lra) ltac:(rewrite Vnf; lra))
      as (Fq & Q1 & Q0).
    destruct (fmul_le_r SM _ _c Fq Fc Q0 Q1 ltac:(lra) Rc) as (Fcv & CV1 & CV0).
    assert (Aq : Ap (fdiv (ofZ nf) _n) (QZ nf / NX) (L 6) (H 6) (itwo 92) (two 122)).
    { apply (Ap_div_w SM _ _ _ _ _ _ _ _ _ _ _ _ _ _ _ _ Anf An). side. }
    assert (Acv : Ap (fmul (fdiv (ofZ nf) _n) _c) (QZ nf / NX * QZ cf) (L 9) (H 9)
                     (itwo 92) (two 152)).
    { apply (Ap_mul_w SM _ _ _ _ _ _ _ _ _ _ _ _ _ _ _ _ Aq Ac). side. }
    fold CX in Acv.
    destruct (Ap_abs_val SM _ _ _ _ _ _ (two 30 + delta) delta Acv ltac:(side)
                ltac:(lra) ltac:(qdec) ltac:(qdec) ltac:(qdec)) as [Vl Vh].
    rewrite (fround_rhe SM _ Fcv), (fround_rhe SM _ Fnf).
    rewrite (rhe_comp _ _ Vnf), rhe_Z.
    pose proof (rhe_lo (v (fmul (fdiv (ofZ nf) _n) _c))) as Rl.
    pose proof (rhe_hi (v (fmul (fdiv (ofZ nf) _n) _c))) as Rh.
    assert (D : delta < 1 # 2) by qdec.
    split; [split; [apply rhe_nonneg; assumption|apply rhe_le; lra]|].
    split; [destruct Hnf; lia|].
    right. split; [reflexivity|]. split; lra.
  - (* not clamped: the constraining axis keeps its frame dimension exactly *)
    rewrite Vnf in Hle.
    destruct (div_self SM _n Fn Pn) as [Fq Vq].
    destruct (mul_one_l SM _ _c Fq Vq Fc ltac:(rewrite Qabs_pos; lra)) as [Fcv Vcv].
    rewrite (fround_rhe SM _ Fcv), (fround_rhe SM _ Fn).
    rewrite (rhe_comp _ _ Vcv).
    assert (D : delta < 1 # 2) by qdec.
    assert (Ecf : rhe (v _c) = cf) by (apply rhe_near; lra).
    rewrite Ecf.
    destruct (Ap_abs_val SM _ _ _ _ _ _ (two 30) delta An ltac:(side)
                ltac:(lra) ltac:(qdec) ltac:(qdec) ltac:(qdec)) as [Vl Vh].
    pose proof (rhe_lo (v _n)) as Rl. pose proof (rhe_hi (v _n)) as Rh.
    split; [destruct Hcf; lia|].
    split; [split; [apply rhe_nonneg; lra|apply rhe_le; lra]|].
    left. split; [reflexivity|]. fold NX in Vl, Vh. split; lra.
Qed.

(** the pixel ratio in force: finite, within [2^-32, 2^32] *)
Definition PR (pr : F FA) : Prop := fin pr /\ itwo 32 <= v pr /\ v pr <= two 32.

Lemma Ap_pr : forall pr, PR pr -> Ap pr (v pr) 1 1 (itwo 32) (two 32).
Proof. intros pr (Fp & Lp & Hp). constructor; auto; lra. Qed.

Lemma PR_pos : forall pr, PR pr -> 0 < v pr.
Proof. intros pr (Fp & Lp & Hp). apply Qlt_le_trans with (itwo 32); [qdec|assumption]. Qed.

(** exact aspect-preserving pixel values: the height that goes with width [w], the
    width that goes with height [h] *)
Definition HX (pr : F FA) (ow oh w : Z) : Q := QZ w * QZ oh / QZ ow * v pr.
Definition WX (pr : F FA) (ow oh h : Z) : Q := QZ h * QZ ow / (QZ oh * v pr).

(** common.py:1784-1813: FIT in pixels stays within the frame, keeps one axis at the
    frame dimension exactly, and the other within 1/2 + delta of the exact value *)
Lemma fit_px_spec : forall pr ow oh fw fh,
  dim30 ow -> dim30 oh -> dim30 fw -> dim30 fh -> PR pr ->
  let '(wpx, hpx) := fit_px pr ow oh fw fh in
  (0 <= wpx <= fw)%Z /\ (0 <= hpx <= fh)%Z /\
  ((wpx = fw /\ HX pr ow oh fw - (1 # 2) - delta <= QZ hpx
            /\ QZ hpx <= HX pr ow oh fw + (1 # 2) + delta) \/
   (hpx = fh /\ WX pr ow oh fh - (1 # 2) - delta <= QZ wpx
            /\ QZ wpx <= WX pr ow oh fh + (1 # 2) + delta)).
Proof.
  intros pr ow oh fw fh How Hoh Hfw Hfh Hpr. rewrite fit_px_half. cbv zeta.
  set (wr := fdiv (ofZ fw) (ofZ ow)). set (hr := fdiv (ofZ fh) (ofZ oh)).
  pose proof (Ap_ratio fw ow Hfw How) as Awr. fold wr in Awr.
  pose proof (Ap_ratio fh oh Hfh Hoh) as Ahr. fold hr in Ahr.
  assert (Fwr : fin wr) by (destruct Awr; assumption).
  assert (Fhr : fin hr) by (destruct Ahr; assumption).
  pose proof (PR_pos pr Hpr) as Ppr. pose proof (Ap_pr pr Hpr) as Apr.
  destruct (dim30_Q _ How) as (Qow & _). destruct (dim30_Q _ Hoh) as (Qoh & _).
  destruct (dim30_Q _ Hfw) as (Qfw & _). destruct (dim30_Q _ Hfh) as (Qfh & _).
  destruct (fltb wr hr) eqn:Eb.
  - (* width is the constraining axis *)
    apply (ltb_ok SM wr hr Fwr Fhr) in Eb.
    assert (Esr : fmin wr hr = wr).
    { unfold fmin. destruct (fltb hr wr) eqn:E2; [|reflexivity].
      apply (ltb_ok SM hr wr Fhr Fwr) in E2. lra. }
    rewrite Esr.
    assert (An : Ap (fmul (fmul (ofZ oh) wr) pr) (QZ oh * (QZ fw / QZ ow) * v pr)
                    (L 4) (H 4) (itwo 92) (two 92)).
    { assert (A1 : Ap (fmul (ofZ oh) wr) (QZ oh * (QZ fw / QZ ow)) (L 2) (H 2) (itwo 30) (two 60)).
      { apply (Ap_mul_w SM _ _ _ _ _ _ _ _ _ _ _ _ _ _ _ _ (Ap_dim oh Hoh) Awr). side. }
      apply (Ap_mul_w SM _ _ _ _ _ _ _ _ _ _ _ _ _ _ _ _ A1 Apr). side. }
    pose proof (half_spec ow fw oh fh wr (fun x => fmul x pr) (v pr) How Hfw Hoh Hfh Awr An) as S.
    cbv zeta in S. destruct (half ow fw oh fh wr (fun x => fmul x pr)) as [cpx npx].
    assert (E1 : QZ oh * (QZ fw / QZ ow) * v pr == HX pr ow oh fw) by (unfold HX; field; lra).
    assert (E2 : QZ fh / HX pr ow oh fw * QZ fw == WX pr ow oh fh)
      by (unfold WX, HX; field; lra).
    rewrite E1, E2 in S. exact S.
  - (* height is the constraining axis (or the ratios are equal) *)
    assert (Nlt : ~ v wr < v hr).
    { intro C. apply (ltb_ok SM wr hr Fwr Fhr) in C. congruence. }
    assert (Asr : Ap (fmin wr hr) (QZ fh / QZ oh) (L 1) (H 1) (itwo 30) (two 30)).
    { unfold fmin. destruct (fltb hr wr) eqn:E2; [assumption|].
      assert (~ v hr < v wr).
      { intro C. apply (ltb_ok SM hr wr Fhr Fwr) in C. congruence. }
      apply Ap_val_eq with (a := hr); try assumption. lra. }
    set (sr := fmin wr hr) in *.
    assert (An : Ap (fdiv (fmul (ofZ ow) sr) pr) (QZ ow * (QZ fh / QZ oh) * / v pr)
                    (L 4) (H 4) (itwo 92) (two 92)).
    { assert (A1 : Ap (fmul (ofZ ow) sr) (QZ ow * (QZ fh / QZ oh)) (L 2) (H 2) (itwo 30) (two 60)).
      { apply (Ap_mul_w SM _ _ _ _ _ _ _ _ _ _ _ _ _ _ _ _ (Ap_dim ow How) Asr). side. }
      apply (Ap_div_w SM _ _ _ _ _ _ _ _ _ _ _ _ _ _ _ _ A1 Apr). side. }
    pose proof (half_spec oh fh ow fw sr (fun x => fdiv x pr) (/ v pr) Hoh Hfh How Hfw Asr An) as S.
    cbv zeta in S. destruct (half oh fh ow fw sr (fun x => fdiv x pr)) as [cpx npx].
    assert (E1 : QZ ow * (QZ fh / QZ oh) * / v pr == WX pr ow oh fh) by (unfold WX; field; lra).
    assert (E2 : QZ fw / WX pr ow oh fh * QZ fh == HX pr ow oh fw)
      by (unfold HX, WX; field; lra).
    rewrite E1, E2 in S. destruct S as (S1 & S2 & S3).
    split; [exact S2|]. split; [exact S1|]. destruct S3 as [S3|S3]; [right|left]; exact S3.
Qed.

(** ------------------------------------------------------------------------------
    rounding a positive approximated quantity *)
Lemma round_near : forall a X lf hf lo hi,
  Ap a X lf hf lo hi -> factors_ok lf hf lo = true -> X <= two 40 ->
  Qleb (two 40 * (hf - 1)) delta && Qleb (two 40 * (1 - lf)) delta = true ->
  let p := fround a in
  (0 <= p <= 2 ^ 41)%Z /\ X - (1 # 2) - delta <= QZ p /\ QZ p <= X + (1 # 2) + delta.
Proof.
  intros a X lf hf lo hi A Hok HX40 Hc p. subst p.
  apply andb_prop in Hc. destruct Hc as [C1 C2]. apply Qleb_le in C1, C2.
  destruct (Ap_pos SM _ _ _ _ _ _ A Hok) as (PX & Pa & _).
  assert (A' : Ap a X lf hf lo (two 40)).
  { destruct A. constructor; auto. }
  destruct (Ap_abs SM _ _ _ _ _ _ delta A' Hok C1 C2) as [Vl Vh].
  assert (Fa : fin a) by (destruct A; assumption).
  rewrite (fround_rhe SM _ Fa).
  pose proof (rhe_lo (v a)) as Rl. pose proof (rhe_hi (v a)) as Rh.
  assert (D : delta < 1 # 2) by qdec.
  split; [split|split; lra].
  - apply rhe_nonneg. lra.
  - apply rhe_le. apply Qle_lt_trans with (two 40 + delta); [lra|]. qdec.
Qed.

(** common.py:1779 ORIGINAL's pixel height *)
Lemma original_hpx_spec : forall pr oh, dim30 oh -> PR pr -> QZ oh * v pr <= two 40 ->
  let p := fround (fmul (ofZ oh) pr) in
  (0 <= p <= 2 ^ 41)%Z /\ QZ oh * v pr - (1 # 2) - delta <= QZ p
  /\ QZ p <= QZ oh * v pr + (1 # 2) + delta.
Proof.
  intros pr oh Hoh Hpr Hb.
  assert (A : Ap (fmul (ofZ oh) pr) (QZ oh * v pr) (L 1) (H 1) (itwo 32) (two 62)).
  { apply (Ap_mul_w SM _ _ _ _ _ _ _ _ _ _ _ _ _ _ _ _ (Ap_dim oh Hoh) (Ap_pr pr Hpr)). side. }
  apply (round_near _ _ _ _ _ _ A); [side|assumption|side].
Qed.

(** without the bound: still a non-negative integer *)
Lemma original_hpx_nonneg : forall pr oh, dim30 oh -> PR pr ->
  (0 <= fround (fmul (ofZ oh) pr))%Z.
Proof.
  intros pr oh Hoh Hpr.
  assert (A : Ap (fmul (ofZ oh) pr) (QZ oh * v pr) (L 1) (H 1) (itwo 32) (two 62)).
  { apply (Ap_mul_w SM _ _ _ _ _ _ _ _ _ _ _ _ _ _ _ _ (Ap_dim oh Hoh) (Ap_pr pr Hpr)). side. }
  destruct (Ap_pos SM _ _ _ _ _ _ A ltac:(side)) as (_ & Pa & _).
  rewrite (fround_rhe SM); [|destruct A; assumption]. apply rhe_nonneg. lra.
Qed.

(** common.py:1824-1829 (and 1770-1773): the height that goes with a width in pixels *)
Lemma height_of_width_spec : forall pr ow oh wpx,
  dim30 ow -> dim30 oh -> dim30 wpx -> PR pr -> HX pr ow oh wpx <= two 40 ->
  let p := fround (fmul (whpx_w ow oh wpx) pr) in
  (0 <= p <= 2 ^ 41)%Z /\ HX pr ow oh wpx - (1 # 2) - delta <= QZ p
  /\ QZ p <= HX pr ow oh wpx + (1 # 2) + delta.
Proof.
  intros pr ow oh wpx How Hoh Hw Hpr Hb. unfold whpx_w.
  destruct (dim30_Q _ How) as (Qow & _).
  assert (A1 : Ap (fmul (fdiv (ofZ wpx) (ofZ ow)) (ofZ oh)) (QZ wpx / QZ ow * QZ oh)
                  (L 2) (H 2) (itwo 30) (two 60)).
  { apply (Ap_mul_w SM _ _ _ _ _ _ _ _ _ _ _ _ _ _ _ _ (Ap_ratio wpx ow Hw How) (Ap_dim oh Hoh)). side. }
  assert (A2 : Ap (fmul (fmul (fdiv (ofZ wpx) (ofZ ow)) (ofZ oh)) pr)
                  (QZ wpx / QZ ow * QZ oh * v pr) (L 3) (H 3) (itwo 62) (two 92)).
  { apply (Ap_mul_w SM _ _ _ _ _ _ _ _ _ _ _ _ _ _ _ _ A1 (Ap_pr pr Hpr)). side. }
  assert (E : QZ wpx / QZ ow * QZ oh * v pr == HX pr ow oh wpx) by (unfold HX; field; lra).
  apply (Ap_exact SM _ _ _ _ _ _ _ A2) in E.
  apply (round_near _ _ _ _ _ _ E); [side|assumption|side].
Qed.

(** common.py:1818-1822: the width that goes with a height in pixels *)
Lemma width_of_height_spec : forall pr ow oh hpx,
  dim30 ow -> dim30 oh -> dim30 hpx -> PR pr -> WX pr ow oh hpx <= two 40 ->
  let p := fround (fdiv (whpx_h ow oh hpx) pr) in
  (0 <= p <= 2 ^ 41)%Z /\ WX pr ow oh hpx - (1 # 2) - delta <= QZ p
  /\ QZ p <= WX pr ow oh hpx + (1 # 2) + delta.
Proof.
  intros pr ow oh hpx How Hoh Hh Hpr Hb. unfold whpx_h.
  destruct (dim30_Q _ Hoh) as (Qoh & _). pose proof (PR_pos pr Hpr).
  assert (A1 : Ap (fmul (fdiv (ofZ hpx) (ofZ oh)) (ofZ ow)) (QZ hpx / QZ oh * QZ ow)
                  (L 2) (H 2) (itwo 30) (two 60)).
  { apply (Ap_mul_w SM _ _ _ _ _ _ _ _ _ _ _ _ _ _ _ _ (Ap_ratio hpx oh Hh Hoh) (Ap_dim ow How)). side. }
  assert (A2 : Ap (fdiv (fmul (fdiv (ofZ hpx) (ofZ oh)) (ofZ ow)) pr)
                  (QZ hpx / QZ oh * QZ ow / v pr) (L 3) (H 3) (itwo 62) (two 92)).
  { apply (Ap_div_w SM _ _ _ _ _ _ _ _ _ _ _ _ _ _ _ _ A1 (Ap_pr pr Hpr)). side. }
  assert (E : QZ hpx / QZ oh * QZ ow / v pr == WX pr ow oh hpx) by (unfold WX; field; lra).
  apply (Ap_exact SM _ _ _ _ _ _ _ A2) in E.
  apply (round_near _ _ _ _ _ _ E); [side|assumption|side].
Qed.

End Proofs.
