(** C04, the arithmetic part: what [_valid_size] returns, for every float arithmetic
    satisfying the IEEE standard model ([StandardModel], lib/FArith.v).  Proofs over
    [Q]: the rounding facts of the model give enclosures of every intermediate float
    (lib/FArithFacts.v), after which [lra] / [lia] finish. *)
From Coq Require Import ZArith QArith Qround Qabs Lqa Lia List Bool.
From TI Require Import lib.FArith lib.FArithFacts model.Sizing model.SizingSpec.
Open Scope Q_scope.

Definition L (n : positive) : Q := 1 - (Zpos n # 2 ^ 52).
Definition H (n : positive) : Q := 1 + (Zpos n # 2 ^ 52).
Definition delta : Q := 1 # 1024.

Ltac side := vm_compute; reflexivity.

(** ------------------------------------------------------------------------------
    pixels -> cells: "within one cell, never below 1" *)
Lemma or1_pos : forall z, (0 <= z)%Z -> (0 < or1 z)%Z.
Proof. intros z Hz. unfold or1. destruct (z =? 0)%Z eqn:E; [lia|]. apply Z.eqb_neq in E. lia. Qed.
Lemma or1_id : forall z, (0 < z)%Z -> or1 z = z.
Proof. intros z Hz. unfold or1. destruct (z =? 0)%Z eqn:E; [apply Z.eqb_eq in E; lia|reflexivity]. Qed.
Lemma or1_le : forall z m, (z <= m)%Z -> (1 <= m)%Z -> (or1 z <= m)%Z.
Proof. intros z m H1 H2. unfold or1. destruct (z =? 0)%Z; lia. Qed.

(** floor division by the cell dimension (graphics; also text columns with [c = 1]) *)
Lemma near_floor : forall p c X, (0 <= p)%Z -> (1 <= c)%Z ->
  X - (1 # 2) - delta <= QZ p -> QZ p <= X + (1 # 2) + delta ->
  nearP (or1 (p / c)) (X / QZ c).
Proof.
  intros p c X Hp Hc Hl Hh.
  assert (D : delta < 1 # 2) by qdec.
  assert (C1 : 1 <= QZ c) by (change 1 with (QZ 1); rewrite <- Zle_Qle; lia).
  pose proof (Z.div_mod p c ltac:(lia)) as Edm.
  pose proof (Z.mod_pos_bound p c ltac:(lia)) as Hm.
  set (k := (p / c)%Z) in *.
  assert (K0 : (0 <= k)%Z) by (apply Z.div_pos; lia).
  assert (Kl : QZ c * QZ k <= QZ p) by (rewrite <- inject_Z_mult, <- Zle_Qle; lia).
  assert (Kh : QZ p <= QZ c * QZ k + QZ c - 1).
  { assert (p <= c * k + c - 1)%Z by lia.
    rewrite Zle_Qle in H0.
    unfold Z.sub in H0. rewrite !inject_Z_plus, inject_Z_mult in H0.
    change (QZ (- (1))) with (- (1)) in H0. lra. }
  split.
  - intro Hx.
    assert (X < QZ c).
    { assert (E : X == X / QZ c * QZ c) by (field; lra). rewrite E. nra. }
    assert (QZ p < QZ (c + 1)) by (rewrite inject_Z_plus; change (QZ 1) with 1; lra).
    apply Zlt_Q in H1.
    assert (k <= 1)%Z.
    { unfold k. apply Z.le_trans with (c / c)%Z; [apply Z.div_le_mono; lia|].
      rewrite Z.div_same; lia. }
    unfold or1. destruct (k =? 0)%Z eqn:E; [reflexivity|]. apply Z.eqb_neq in E. lia.
  - intro Hx.
    assert (QZ c <= X).
    { assert (E : X == X / QZ c * QZ c) by (field; lra). rewrite E. nra. }
    assert (QZ (c - 1) < QZ p).
    { unfold Z.sub. rewrite inject_Z_plus. change (QZ (- (1))) with (- (1)). lra. }
    apply Zlt_Q in H1.
    assert (1 <= k)%Z.
    { unfold k. apply Z.le_trans with (c / c)%Z; [rewrite Z.div_same; lia|].
      apply Z.div_le_mono; lia. }
    rewrite or1_id by lia.
    assert (E1 : QZ k - X / QZ c == (QZ c * QZ k - X) / QZ c) by (field; lra).
    assert (E2 : X / QZ c - QZ k == (X - QZ c * QZ k) / QZ c) by (field; lra).
    rewrite E1, E2. split; apply Qlt_shift_div_r; lra.
Qed.

(** text lines: [ceil(p / 2)] *)
Lemma near_ceil2 : forall p X, (0 <= p)%Z ->
  X - (1 # 2) - delta <= QZ p -> QZ p <= X + (1 # 2) + delta ->
  nearP (or1 ((p + 1) / 2)) (X / 2).
Proof.
  intros p X Hp Hl Hh.
  assert (D : delta < 1 # 2) by qdec.
  set (k := ((p + 1) / 2)%Z).
  assert (Hk : (2 * k = p \/ 2 * k = p + 1)%Z) by (unfold k; Z.div_mod_to_equations; lia).
  assert (Kq : 2 * QZ k == QZ p \/ 2 * QZ k == QZ p + 1).
  { destruct Hk as [E|E]; [left|right].
    - rewrite <- E, inject_Z_mult. reflexivity.
    - assert (E' : QZ (2 * k) == QZ (p + 1)) by (rewrite E; reflexivity).
      rewrite inject_Z_mult, inject_Z_plus in E'. exact E'. }
  change (X / 2) with (X * (1 # 2)).
  split.
  - intro Hx. assert (X < 2) by lra.
    assert (QZ p < QZ 3) by (change (QZ 3) with 3; lra).
    apply Zlt_Q in H1.
    unfold or1. destruct (k =? 0)%Z eqn:E; [reflexivity|]. apply Z.eqb_neq in E. lia.
  - intro Hx. assert (2 <= X) by lra.
    assert (QZ 1 < QZ p) by (change (QZ 1) with 1; lra).
    apply Zlt_Q in H1.
    rewrite or1_id by lia.
    split; destruct Kq as [E|E]; lra.
Qed.


Section Proofs.
Context {FA : FloatArith} (SM : StandardModel FA).
Local Notation fin := (finite SM).
Local Notation v := (val SM).
Local Notation u := ulp_rel.
Local Notation Ap := (Ap SM).
Local Notation HX := (HX SM).
Local Notation WX := (WX SM).
Local Notation ratio_ok := (ratio_ok SM).
Local Notation Dom0 := (Dom0 SM).
Local Notation Dom := (Dom SM).

Lemma dim30_Q : forall z, dim30 z -> 1 <= QZ z /\ QZ z <= two 30 /\ itwo 30 <= QZ z.
Proof.
  intros z [H1 H2]. unfold two, itwo.
  assert (QZ 1 <= QZ z) by (rewrite <- Zle_Qle; lia).
  assert (QZ z <= QZ (2 ^ 30)) by (rewrite <- Zle_Qle; lia).
  change (QZ 1) with 1 in *. repeat split; try assumption.
  apply Qle_trans with 1; [qdec|assumption].
Qed.

Lemma Ap_dim : forall z, dim30 z -> Ap (ofZ z) (QZ z) 1 1 1 (two 30).
Proof.
  intros z Hz. destruct (dim30_Q z Hz) as (A & B & C). destruct Hz.
  apply Ap_ofZ; try assumption; lia.
Qed.

(** the ratio frame / original *)
Lemma Ap_ratio : forall f o, dim30 f -> dim30 o ->
  Ap (fdiv (ofZ f) (ofZ o)) (QZ f / QZ o) (L 1) (H 1) (itwo 30) (two 30).
Proof.
  intros f o Hf Ho.
  apply (Ap_div_w SM _ _ _ _ _ _ _ _ _ _ _ _ _ _ _ _ (Ap_dim f Hf) (Ap_dim o Ho)). side.
Qed.

(** ------------------------------------------------------------------------------
    One half of the FIT computation (common.py:1800-1813), generically: [c] is the
    constraining axis, [n] the other one.  [adj] applies the pixel ratio. *)
Definition half (co cf no nf : Z) (sr : F FA) (adj : F FA -> F FA) : Z * Z :=
  let _c := fmul (ofZ co) sr in
  let _n := adj (fmul (ofZ no) sr) in
  let n := fmin _n (ofZ nf) in
  (fround (fmul (fdiv n _n) _c), fround n).

Lemma fit_px_half : forall pr ow oh fw fh,
  fit_px pr ow oh fw fh =
  let wr := fdiv (ofZ fw) (ofZ ow) in
  let hr := fdiv (ofZ fh) (ofZ oh) in
  let sr := fmin wr hr in
  if fltb wr hr then half ow fw oh fh sr (fun x => fmul x pr)
  else let '(c, n) := half oh fh ow fw sr (fun x => fdiv x pr) in (n, c).
Proof. intros. unfold fit_px, half. cbv zeta. destruct (fltb _ _); reflexivity. Qed.

Lemma half_spec : forall co cf no nf sr adj K,
  dim30 co -> dim30 cf -> dim30 no -> dim30 nf ->
  Ap sr (QZ cf / QZ co) (L 1) (H 1) (itwo 30) (two 30) ->
  Ap (adj (fmul (ofZ no) sr)) (QZ no * (QZ cf / QZ co) * K) (L 4) (H 4) (itwo 92) (two 92) ->
  let NX := QZ no * (QZ cf / QZ co) * K in
  let CX := QZ nf / NX * QZ cf in
  let '(cpx, npx) := half co cf no nf sr adj in
  (0 <= cpx <= cf)%Z /\ (0 <= npx <= nf)%Z /\
  ((cpx = cf /\ NX - (1 # 2) - delta <= QZ npx /\ QZ npx <= NX + (1 # 2) + delta) \/
   (npx = nf /\ CX - (1 # 2) - delta <= QZ cpx /\ QZ cpx <= CX + (1 # 2) + delta)).
Proof.
  intros co cf no nf sr adj K Hco Hcf Hno Hnf Asr An NX CX. unfold half.
  set (_c := fmul (ofZ co) sr). set (_n := adj (fmul (ofZ no) sr)) in *.
  destruct (dim30_Q _ Hco) as (Qco1 & Qco2 & _). destruct (dim30_Q _ Hcf) as (Qcf1 & Qcf2 & _).
  destruct (dim30_Q _ Hnf) as (Qnf1 & Qnf2 & _).
  (* _c approximates cf *)
  assert (Ac0 : Ap _c (QZ co * (QZ cf / QZ co)) (L 2) (H 2) (itwo 30) (two 60)).
  { apply (Ap_mul_w SM _ _ _ _ _ _ _ _ _ _ _ _ _ _ _ _ (Ap_dim co Hco) Asr). side. }
  assert (Ec : QZ co * (QZ cf / QZ co) == QZ cf) by (field; lra).
  assert (Ac : Ap _c (QZ cf) (L 2) (H 2) 1 (two 30)).
  { apply Ap_rebound with (lo := itwo 30) (hi := two 60); [|assumption|assumption].
    apply Ap_exact with (x := QZ co * (QZ cf / QZ co)); assumption. }
  destruct (Ap_abs SM _ _ _ _ _ _ delta Ac ltac:(side) ltac:(qdec) ltac:(qdec)) as [Cl Ch].
  destruct (Ap_pos SM _ _ _ _ _ _ Ac ltac:(side)) as (_ & Pc & _).
  assert (Fc : fin _c) by (destruct Ac; assumption).
  assert (Rc : v _c <= fbig).
  { apply Qle_trans with (two 30 + delta); [lra|qdec]. }
  destruct (Ap_pos SM _ _ _ _ _ _ An ltac:(side)) as (PNX & Pn & _).
  assert (Fn : fin _n) by (destruct An; assumption).
  destruct (ofZ_ok SM nf ltac:(destruct Hnf; lia)) as [Fnf Vnf].
  assert (Anf : Ap (ofZ nf) (QZ nf) 1 1 1 (two 30)) by (apply Ap_dim; assumption).
  destruct (fmin_cases SM _n (ofZ nf) Fn Fnf) as [(Eb & Hlt & Em)|(Eb & Hle & Em)];
    rewrite Em; clear Em.
  - (* clamped: the other axis is reduced to its frame dimension *)
    rewrite Vnf in Hlt.
    destruct (fdiv_le_1 SM (ofZ nf) _n Fnf Fn ltac:(rewrite Vnf; lra) ltac:(rewrite Vnf; lra))
      as (Fq & Q1 & Q0).
    destruct (fmul_le_r SM _ _c Fq Fc Q0 Q1 ltac:(lra) Rc) as (Fcv & CV1 & CV0).
    assert (Aq : Ap (fdiv (ofZ nf) _n) (QZ nf / NX) (L 6) (H 6) (itwo 92) (two 122)).
    { apply (Ap_div_w SM _ _ _ _ _ _ _ _ _ _ _ _ _ _ _ _ Anf An). side. }
    assert (Acv : Ap (fmul (fdiv (ofZ nf) _n) _c) (QZ nf / NX * QZ cf) (L 9) (H 9)
                     (itwo 92) (two 152)).
    { apply (Ap_mul_w SM _ _ _ _ _ _ _ _ _ _ _ _ _ _ _ _ Aq Ac). side. }
    fold CX in Acv.
    destruct (Ap_abs_val SM _ _ _ _ _ _ (two 30 + delta) delta Acv ltac:(side)
                ltac:(lra) ltac:(qdec) ltac:(qdec) ltac:(qdec)) as [Vl Vh].
    rewrite (fround_rhe SM _ Fcv), (fround_rhe SM _ Fnf).
    rewrite (rhe_comp _ _ Vnf), rhe_Z.
    pose proof (rhe_lo (v (fmul (fdiv (ofZ nf) _n) _c))) as Rl.
    pose proof (rhe_hi (v (fmul (fdiv (ofZ nf) _n) _c))) as Rh.
    assert (D : delta < 1 # 2) by qdec.
    split; [split; [apply rhe_nonneg; assumption|apply rhe_le; lra]|].
    split; [destruct Hnf; lia|].
    right. split; [reflexivity|]. split; lra.
  - (* not clamped: the constraining axis keeps its frame dimension exactly *)
    rewrite Vnf in Hle.
    destruct (div_self SM _n Fn Pn) as [Fq Vq].
    destruct (mul_one_l SM _ _c Fq Vq Fc ltac:(rewrite Qabs_pos; lra)) as [Fcv Vcv].
    rewrite (fround_rhe SM _ Fcv), (fround_rhe SM _ Fn).
    rewrite (rhe_comp _ _ Vcv).
    assert (D : delta < 1 # 2) by qdec.
    assert (Ecf : rhe (v _c) = cf) by (apply rhe_near; lra).
    rewrite Ecf.
    destruct (Ap_abs_val SM _ _ _ _ _ _ (two 30) delta An ltac:(side)
                ltac:(lra) ltac:(qdec) ltac:(qdec) ltac:(qdec)) as [Vl Vh].
    pose proof (rhe_lo (v _n)) as Rl. pose proof (rhe_hi (v _n)) as Rh.
    split; [destruct Hcf; lia|].
    split; [split; [apply rhe_nonneg; lra|apply rhe_le; lra]|].
    left. split; [reflexivity|]. fold NX in Vl, Vh. split; lra.
Qed.

(** the pixel ratio in force: finite, within [2^-32, 2^32] *)
Definition PR (pr : F FA) : Prop := fin pr /\ itwo 32 <= v pr /\ v pr <= two 32.

Lemma Ap_pr : forall pr, PR pr -> Ap pr (v pr) 1 1 (itwo 32) (two 32).
Proof. intros pr (Fp & Lp & Hp). constructor; auto; lra. Qed.

Lemma PR_pos : forall pr, PR pr -> 0 < v pr.
Proof. intros pr (Fp & Lp & Hp). apply Qlt_le_trans with (itwo 32); [qdec|assumption]. Qed.

(** common.py:1784-1813: FIT in pixels stays within the frame, keeps one axis at the
    frame dimension exactly, and the other within 1/2 + delta of the exact value *)
Lemma fit_px_spec : forall pr ow oh fw fh,
  dim30 ow -> dim30 oh -> dim30 fw -> dim30 fh -> PR pr ->
  let '(wpx, hpx) := fit_px pr ow oh fw fh in
  (0 <= wpx <= fw)%Z /\ (0 <= hpx <= fh)%Z /\
  ((wpx = fw /\ HX pr ow oh fw - (1 # 2) - delta <= QZ hpx
            /\ QZ hpx <= HX pr ow oh fw + (1 # 2) + delta) \/
   (hpx = fh /\ WX pr ow oh fh - (1 # 2) - delta <= QZ wpx
            /\ QZ wpx <= WX pr ow oh fh + (1 # 2) + delta)).
Proof.
  intros pr ow oh fw fh How Hoh Hfw Hfh Hpr. rewrite fit_px_half. cbv zeta.
  set (wr := fdiv (ofZ fw) (ofZ ow)). set (hr := fdiv (ofZ fh) (ofZ oh)).
  pose proof (Ap_ratio fw ow Hfw How) as Awr. fold wr in Awr.
  pose proof (Ap_ratio fh oh Hfh Hoh) as Ahr. fold hr in Ahr.
  assert (Fwr : fin wr) by (destruct Awr; assumption).
  assert (Fhr : fin hr) by (destruct Ahr; assumption).
  pose proof (PR_pos pr Hpr) as Ppr. pose proof (Ap_pr pr Hpr) as Apr.
  destruct (dim30_Q _ How) as (Qow & _). destruct (dim30_Q _ Hoh) as (Qoh & _).
  destruct (dim30_Q _ Hfw) as (Qfw & _). destruct (dim30_Q _ Hfh) as (Qfh & _).
  destruct (fltb wr hr) eqn:Eb.
  - (* width is the constraining axis *)
    apply (ltb_ok SM wr hr Fwr Fhr) in Eb.
    assert (Esr : fmin wr hr = wr).
    { unfold fmin. destruct (fltb hr wr) eqn:E2; [|reflexivity].
      apply (ltb_ok SM hr wr Fhr Fwr) in E2. lra. }
    rewrite Esr.
    assert (An : Ap (fmul (fmul (ofZ oh) wr) pr) (QZ oh * (QZ fw / QZ ow) * v pr)
                    (L 4) (H 4) (itwo 92) (two 92)).
    { assert (A1 : Ap (fmul (ofZ oh) wr) (QZ oh * (QZ fw / QZ ow)) (L 2) (H 2) (itwo 30) (two 60)).
      { apply (Ap_mul_w SM _ _ _ _ _ _ _ _ _ _ _ _ _ _ _ _ (Ap_dim oh Hoh) Awr). side. }
      apply (Ap_mul_w SM _ _ _ _ _ _ _ _ _ _ _ _ _ _ _ _ A1 Apr). side. }
    pose proof (half_spec ow fw oh fh wr (fun x => fmul x pr) (v pr) How Hfw Hoh Hfh Awr An) as S.
    cbv zeta in S. destruct (half ow fw oh fh wr (fun x => fmul x pr)) as [cpx npx].
    assert (E1 : QZ oh * (QZ fw / QZ ow) * v pr == HX pr ow oh fw) by (unfold HX; field; lra).
    assert (E2 : QZ fh / HX pr ow oh fw * QZ fw == WX pr ow oh fh)
      by (unfold WX, HX; field; lra).
    rewrite E1, E2 in S. exact S.
  - (* height is the constraining axis (or the ratios are equal) *)
    assert (Nlt : ~ v wr < v hr).
    { intro C. apply (ltb_ok SM wr hr Fwr Fhr) in C. congruence. }
    assert (Asr : Ap (fmin wr hr) (QZ fh / QZ oh) (L 1) (H 1) (itwo 30) (two 30)).
    { unfold fmin. destruct (fltb hr wr) eqn:E2; [assumption|].
      assert (~ v hr < v wr).
      { intro C. apply (ltb_ok SM hr wr Fhr Fwr) in C. congruence. }
      apply Ap_val_eq with (a := hr); try assumption. lra. }
    set (sr := fmin wr hr) in *.
    assert (An : Ap (fdiv (fmul (ofZ ow) sr) pr) (QZ ow * (QZ fh / QZ oh) * / v pr)
                    (L 4) (H 4) (itwo 92) (two 92)).
    { assert (A1 : Ap (fmul (ofZ ow) sr) (QZ ow * (QZ fh / QZ oh)) (L 2) (H 2) (itwo 30) (two 60)).
      { apply (Ap_mul_w SM _ _ _ _ _ _ _ _ _ _ _ _ _ _ _ _ (Ap_dim ow How) Asr). side. }
      apply (Ap_div_w SM _ _ _ _ _ _ _ _ _ _ _ _ _ _ _ _ A1 Apr). side. }
    pose proof (half_spec oh fh ow fw sr (fun x => fdiv x pr) (/ v pr) Hoh Hfh How Hfw Asr An) as S.
    cbv zeta in S. destruct (half oh fh ow fw sr (fun x => fdiv x pr)) as [cpx npx].
    assert (E1 : QZ ow * (QZ fh / QZ oh) * / v pr == WX pr ow oh fh) by (unfold WX; field; lra).
    assert (E2 : QZ fw / WX pr ow oh fh * QZ fh == HX pr ow oh fw)
      by (unfold HX, WX; field; lra).
    rewrite E1, E2 in S. destruct S as (S1 & S2 & S3).
    split; [exact S2|]. split; [exact S1|]. destruct S3 as [S3|S3]; [right|left]; exact S3.
Qed.

(** ------------------------------------------------------------------------------
    rounding a positive approximated quantity *)
Lemma round_near : forall a X lf hf lo hi,
  Ap a X lf hf lo hi -> factors_ok lf hf lo = true -> X <= two 40 ->
  Qleb (two 40 * (hf - 1)) delta && Qleb (two 40 * (1 - lf)) delta = true ->
  let p := fround a in
  (0 <= p <= 2 ^ 41)%Z /\ X - (1 # 2) - delta <= QZ p /\ QZ p <= X + (1 # 2) + delta.
Proof.
  intros a X lf hf lo hi A Hok HX40 Hc p. subst p.
  apply andb_prop in Hc. destruct Hc as [C1 C2]. apply Qleb_le in C1, C2.
  destruct (Ap_pos SM _ _ _ _ _ _ A Hok) as (PX & Pa & _).
  assert (A' : Ap a X lf hf lo (two 40)).
  { destruct A. constructor; auto. }
  destruct (Ap_abs SM _ _ _ _ _ _ delta A' Hok C1 C2) as [Vl Vh].
  assert (Fa : fin a) by (destruct A; assumption).
  rewrite (fround_rhe SM _ Fa).
  pose proof (rhe_lo (v a)) as Rl. pose proof (rhe_hi (v a)) as Rh.
  assert (D : delta < 1 # 2) by qdec.
  split; [split|split; lra].
  - apply rhe_nonneg. lra.
  - apply rhe_le. apply Qle_lt_trans with (two 40 + delta); [lra|]. qdec.
Qed.

(** common.py:1779 ORIGINAL's pixel height *)
Lemma original_hpx_spec : forall pr oh, dim30 oh -> PR pr -> QZ oh * v pr <= two 40 ->
  let p := fround (fmul (ofZ oh) pr) in
  (0 <= p <= 2 ^ 41)%Z /\ QZ oh * v pr - (1 # 2) - delta <= QZ p
  /\ QZ p <= QZ oh * v pr + (1 # 2) + delta.
Proof.
  intros pr oh Hoh Hpr Hb.
  assert (A : Ap (fmul (ofZ oh) pr) (QZ oh * v pr) (L 1) (H 1) (itwo 32) (two 62)).
  { apply (Ap_mul_w SM _ _ _ _ _ _ _ _ _ _ _ _ _ _ _ _ (Ap_dim oh Hoh) (Ap_pr pr Hpr)). side. }
  apply (round_near _ _ _ _ _ _ A); [side|assumption|side].
Qed.

(** without the bound: still a non-negative integer *)
Lemma original_hpx_nonneg : forall pr oh, dim30 oh -> PR pr ->
  (0 <= fround (fmul (ofZ oh) pr))%Z.
Proof.
  intros pr oh Hoh Hpr.
  assert (A : Ap (fmul (ofZ oh) pr) (QZ oh * v pr) (L 1) (H 1) (itwo 32) (two 62)).
  { apply (Ap_mul_w SM _ _ _ _ _ _ _ _ _ _ _ _ _ _ _ _ (Ap_dim oh Hoh) (Ap_pr pr Hpr)). side. }
  destruct (Ap_pos SM _ _ _ _ _ _ A ltac:(side)) as (_ & Pa & _).
  rewrite (fround_rhe SM); [|destruct A; assumption]. apply rhe_nonneg. lra.
Qed.

(** common.py:1824-1829 (and 1770-1773): the height that goes with a width in pixels *)
Lemma height_of_width_spec : forall pr ow oh wpx,
  dim30 ow -> dim30 oh -> dim30 wpx -> PR pr -> HX pr ow oh wpx <= two 40 ->
  let p := fround (fmul (whpx_w ow oh wpx) pr) in
  (0 <= p <= 2 ^ 41)%Z /\ HX pr ow oh wpx - (1 # 2) - delta <= QZ p
  /\ QZ p <= HX pr ow oh wpx + (1 # 2) + delta.
Proof.
  intros pr ow oh wpx How Hoh Hw Hpr Hb. unfold whpx_w.
  destruct (dim30_Q _ How) as (Qow & _).
  assert (A1 : Ap (fmul (fdiv (ofZ wpx) (ofZ ow)) (ofZ oh)) (QZ wpx / QZ ow * QZ oh)
                  (L 2) (H 2) (itwo 30) (two 60)).
  { apply (Ap_mul_w SM _ _ _ _ _ _ _ _ _ _ _ _ _ _ _ _ (Ap_ratio wpx ow Hw How) (Ap_dim oh Hoh)). side. }
  assert (A2 : Ap (fmul (fmul (fdiv (ofZ wpx) (ofZ ow)) (ofZ oh)) pr)
                  (QZ wpx / QZ ow * QZ oh * v pr) (L 3) (H 3) (itwo 62) (two 92)).
  { apply (Ap_mul_w SM _ _ _ _ _ _ _ _ _ _ _ _ _ _ _ _ A1 (Ap_pr pr Hpr)). side. }
  assert (E : QZ wpx / QZ ow * QZ oh * v pr == HX pr ow oh wpx) by (unfold HX; field; lra).
  apply (Ap_exact SM _ _ _ _ _ _ _ A2) in E.
  apply (round_near _ _ _ _ _ _ E); [side|assumption|side].
Qed.

(** common.py:1818-1822: the width that goes with a height in pixels *)
Lemma width_of_height_spec : forall pr ow oh hpx,
  dim30 ow -> dim30 oh -> dim30 hpx -> PR pr -> WX pr ow oh hpx <= two 40 ->
  let p := fround (fdiv (whpx_h ow oh hpx) pr) in
  (0 <= p <= 2 ^ 41)%Z /\ WX pr ow oh hpx - (1 # 2) - delta <= QZ p
  /\ QZ p <= WX pr ow oh hpx + (1 # 2) + delta.
Proof.
  intros pr ow oh hpx How Hoh Hh Hpr Hb. unfold whpx_h.
  destruct (dim30_Q _ Hoh) as (Qoh & _). pose proof (PR_pos pr Hpr).
  assert (A1 : Ap (fmul (fdiv (ofZ hpx) (ofZ oh)) (ofZ ow)) (QZ hpx / QZ oh * QZ ow)
                  (L 2) (H 2) (itwo 30) (two 60)).
  { apply (Ap_mul_w SM _ _ _ _ _ _ _ _ _ _ _ _ _ _ _ _ (Ap_ratio hpx oh Hh Hoh) (Ap_dim ow How)). side. }
  assert (A2 : Ap (fdiv (fmul (fdiv (ofZ hpx) (ofZ oh)) (ofZ ow)) pr)
                  (QZ hpx / QZ oh * QZ ow / v pr) (L 3) (H 3) (itwo 62) (two 92)).
  { apply (Ap_div_w SM _ _ _ _ _ _ _ _ _ _ _ _ _ _ _ _ A1 (Ap_pr pr Hpr)). side. }
  assert (E : QZ hpx / QZ oh * QZ ow / v pr == WX pr ow oh hpx) by (unfold WX; field; lra).
  apply (Ap_exact SM _ _ _ _ _ _ _ A2) in E.
  apply (round_near _ _ _ _ _ _ E); [side|assumption|side].
Qed.

(** ------------------------------------------------------------------------------
    the environment: cell size, cell ratio, pixels per cell *)
Lemma cell_default_ok : forall (e : env FA), cell_ok e ->
  (1 <= fst (cell_or_default e) <= 2 ^ 12 /\ 1 <= snd (cell_or_default e) <= 2 ^ 12)%Z.
Proof.
  intros e H. unfold cell_ok, cell_or_default in *. destruct (e_cell e) as [[cw ch]|]; cbn; lia.
Qed.

Lemma cwp_ok : forall fam (e : env FA), cell_ok e -> (1 <= cwp fam e <= 2 ^ 12)%Z.
Proof. intros fam e H. destruct (cell_default_ok e H). destruct fam; cbn; lia. Qed.
Lemma chp_ok : forall fam (e : env FA), cell_ok e -> (1 <= chp fam e <= 2 ^ 12)%Z.
Proof. intros fam e H. destruct (cell_default_ok e H). destruct fam; cbn; lia. Qed.

Lemma Ap_small : forall z, (1 <= z <= 2 ^ 12)%Z -> Ap (ofZ z) (QZ z) 1 1 1 (two 12).
Proof.
  intros z Hz. apply Ap_ofZ; try lia.
  - change 1 with (QZ 1). rewrite <- Zle_Qle. lia.
  - unfold two. rewrite <- Zle_Qle. lia.
Qed.

Lemma pr_ok : forall fam e, cell_ok e -> ratio_ok e -> PR (pixel_ratio fam e).
Proof.
  intros fam e Hc Hr. unfold pixel_ratio. destruct fam.
  - (* text: get_cell_ratio() * 2 *)
    assert (A2 : Ap (ofZ 2) (QZ 2) 1 1 2 2).
    { apply Ap_ofZ; try lia; change (QZ 2) with 2; lra. }
    unfold get_cell_ratio, ratio_ok in *. destruct (e_ratio e) as [r|].
    + destruct Hr as (Fr & Lr & Ur).
      assert (Ar : Ap r (v r) 1 1 (itwo 30) (two 30)) by (constructor; auto; lra).
      assert (A : Ap (fmul r (ofZ 2)) (v r * QZ 2) (L 1) (H 1) (itwo 29) (two 31)).
      { apply (Ap_mul_w SM _ _ _ _ _ _ _ _ _ _ _ _ _ _ _ _ Ar A2). side. }
      destruct (Ap_pos SM _ _ _ _ _ _ A ltac:(side)) as (_ & _ & Lo & Hi).
      destruct A as [Fa Alo Ahi _ _]. split; [assumption|].
      split; [apply Qle_trans with (itwo 29 * (1 # 2)); [qdec|nra]
             |apply Qle_trans with (two 31 * 2); [nra|qdec]].
    + destruct (cell_default_ok e Hc) as [Hw Hh].
      destruct (cell_or_default e) as [cw ch]. cbn [fst snd] in *.
      assert (A1 : Ap (fdiv (ofZ cw) (ofZ ch)) (QZ cw / QZ ch) (L 1) (H 1) (itwo 12) (two 12)).
      { apply (Ap_div_w SM _ _ _ _ _ _ _ _ _ _ _ _ _ _ _ _ (Ap_small cw Hw) (Ap_small ch Hh)). side. }
      assert (A : Ap (fmul (fdiv (ofZ cw) (ofZ ch)) (ofZ 2)) (QZ cw / QZ ch * QZ 2)
                     (L 2) (H 2) (itwo 11) (two 13)).
      { apply (Ap_mul_w SM _ _ _ _ _ _ _ _ _ _ _ _ _ _ _ _ A1 A2). side. }
      destruct (Ap_pos SM _ _ _ _ _ _ A ltac:(side)) as (_ & _ & Lo & Hi).
      destruct A as [Fa Alo Ahi _ _]. split; [assumption|].
      split; [apply Qle_trans with (itwo 11 * (1 # 2)); [qdec|nra]
             |apply Qle_trans with (two 13 * 2); [nra|qdec]].
  - (* graphics: 1.0 *)
    destruct (ofZ_ok SM 1 ltac:(vm_compute; discriminate)) as [F1 V1].
    split; [assumption|]. rewrite V1. change (QZ 1) with 1. split; qdec.
Qed.

(** the conversions, as integer arithmetic *)
Lemma px_of_cols_eq : forall fam (e : env FA) c, px_of_cols fam e c = (c * cwp fam e)%Z.
Proof. intros. destruct fam; cbn; lia. Qed.
Lemma px_of_lines_eq : forall fam (e : env FA) l, px_of_lines fam e l = (l * chp fam e)%Z.
Proof. intros. destruct fam; cbn; lia. Qed.
Lemma cols_of_px_eq : forall fam (e : env FA) p, cols_of_px fam e p = (p / cwp fam e)%Z.
Proof. intros. destruct fam; cbn; [rewrite Z.div_1_r|]; reflexivity. Qed.

Lemma Qceiling_half : forall p, Qceiling (QZ p / 2) = ((p + 1) / 2)%Z.
Proof.
  intros p. unfold Qceiling.
  assert (E : - (QZ p / 2) == QZ (- p) / QZ 2).
  { rewrite inject_Z_opp. change (QZ 2) with 2. field. }
  rewrite (Qfloor_comp _ _ E), <- Zdiv_Qdiv. Z.div_mod_to_equations. lia.
Qed.

Lemma text_lines_of_px : forall (e : env FA) p, (0 <= p <= 2 ^ 53)%Z ->
  lines_of_px Text e p = ((p + 1) / 2)%Z.
Proof.
  intros e p Hp. cbn [lines_of_px].
  destruct (ofZ_ok SM p ltac:(lia)) as [Fp Vp].
  destruct (ofZ_ok SM 2 ltac:(vm_compute; discriminate)) as [F2 V2].
  assert (E : v (ofZ p) / v (ofZ 2) == QZ p / 2) by (rewrite Vp, V2; reflexivity).
  assert (P0 : 0 <= QZ p) by (change 0 with (QZ 0); rewrite <- Zle_Qle; lia).
  assert (P1 : QZ p <= QZ (2 ^ 53)) by (rewrite <- Zle_Qle; lia).
  assert (R : Qabs (v (ofZ p) / v (ofZ 2)) <= fbig).
  { rewrite E, Qabs_pos.
    - apply Qle_trans with (QZ (2 ^ 53)); [|qdec].
      change (QZ p / 2) with (QZ p * (1 # 2)). lra.
    - change (QZ p / 2) with (QZ p * (1 # 2)). lra. }
  assert (Nz : ~ v (ofZ 2) == 0) by (rewrite V2; discriminate).
  destruct (div_ok SM _ _ Fp F2 Nz R) as [Fd Vd].
  rewrite (ceil_ok SM _ Fd).
  assert (Ev : v (fdiv (ofZ p) (ofZ 2)) == QZ p / 2).
  { rewrite Vd, (rnd_comp SM _ _ E). apply rnd_half. lia. }
  unfold Qceiling. rewrite (Qfloor_comp _ _ (Qopp_comp _ _ Ev)).
  apply Qceiling_half.
Qed.

Lemma lines_of_px_near : forall fam (e : env FA) p X, cell_ok e -> (0 <= p <= 2 ^ 53)%Z ->
  X - (1 # 2) - delta <= QZ p -> QZ p <= X + (1 # 2) + delta ->
  nearP (or1 (lines_of_px fam e p)) (X / QZ (chp fam e)).
Proof.
  intros fam e p X Hc Hp Hl Hh. destruct fam.
  - rewrite text_lines_of_px by assumption. cbn [chp]. change (QZ 2) with 2.
    apply near_ceil2; try assumption; lia.
  - cbn [lines_of_px chp]. destruct (cell_default_ok e Hc).
    apply near_floor; try assumption; lia.
Qed.

Lemma cols_of_px_near : forall fam (e : env FA) p X, cell_ok e -> (0 <= p)%Z ->
  X - (1 # 2) - delta <= QZ p -> QZ p <= X + (1 # 2) + delta ->
  nearP (or1 (cols_of_px fam e p)) (X / QZ (cwp fam e)).
Proof.
  intros fam e p X Hc Hp Hl Hh. rewrite cols_of_px_eq.
  pose proof (cwp_ok fam e Hc). apply near_floor; try assumption; lia.
Qed.

Lemma lines_of_px_nonneg : forall fam (e : env FA) p, cell_ok e -> (0 <= p <= 2 ^ 53)%Z ->
  (0 <= lines_of_px fam e p)%Z.
Proof.
  intros fam e p Hc Hp. destruct fam.
  - rewrite text_lines_of_px by assumption. Z.div_mod_to_equations. lia.
  - cbn [lines_of_px]. destruct (cell_default_ok e Hc). apply Z.div_pos; lia.
Qed.
Lemma cols_of_px_nonneg : forall fam (e : env FA) p, cell_ok e -> (0 <= p)%Z -> (0 <= cols_of_px fam e p)%Z.
Proof.
  intros fam e p Hc Hp. rewrite cols_of_px_eq. pose proof (cwp_ok fam e Hc). apply Z.div_pos; lia.
Qed.

(** cells -> pixels -> cells is the identity; pixels -> cells is monotone *)
Lemma cols_roundtrip : forall fam (e : env FA) c, cell_ok e -> cols_of_px fam e (px_of_cols fam e c) = c.
Proof.
  intros fam e c Hc. rewrite cols_of_px_eq, px_of_cols_eq. pose proof (cwp_ok fam e Hc).
  apply Z.div_mul. lia.
Qed.
Lemma lines_roundtrip : forall fam (e : env FA) l, cell_ok e -> (0 <= l)%Z ->
  (px_of_lines fam e l <= 2 ^ 53)%Z -> lines_of_px fam e (px_of_lines fam e l) = l.
Proof.
  intros fam e l Hc Hl Hb. destruct fam.
  - rewrite text_lines_of_px; cbn [px_of_lines] in *; [|lia]. Z.div_mod_to_equations. lia.
  - cbn [lines_of_px px_of_lines]. destruct (cell_default_ok e Hc). apply Z.div_mul. lia.
Qed.
Lemma cols_mono : forall fam (e : env FA) p q, cell_ok e -> (p <= q)%Z ->
  (cols_of_px fam e p <= cols_of_px fam e q)%Z.
Proof.
  intros fam e p q Hc H. rewrite !cols_of_px_eq. pose proof (cwp_ok fam e Hc).
  apply Z.div_le_mono; lia.
Qed.
Lemma lines_mono : forall fam (e : env FA) p q, cell_ok e -> (0 <= p)%Z -> (p <= q)%Z -> (q <= 2 ^ 53)%Z ->
  (lines_of_px fam e p <= lines_of_px fam e q)%Z.
Proof.
  intros fam e p q Hc H0 H H1. destruct fam.
  - rewrite !text_lines_of_px by lia. apply Z.div_le_mono; lia.
  - cbn [lines_of_px]. destruct (cell_default_ok e Hc). apply Z.div_le_mono; lia.
Qed.

(** ------------------------------------------------------------------------------
    the theorems about [valid_size] *)
Lemma resolve_pos : forall fd td, (1 <= resolve fd td)%Z.
Proof. intros. unfold resolve. destruct (0 <? fd)%Z eqn:E; [apply Z.ltb_lt in E|]; lia. Qed.

Lemma frame_cells : forall fam (e : env FA) ow oh frame, Dom fam e ow oh frame ->
  (1 <= columns e frame)%Z /\ (1 <= lines e frame)%Z /\
  cols_of_px fam e (fwpx fam e frame) = columns e frame /\
  lines_of_px fam e (fhpx fam e frame) = lines e frame.
Proof.
  intros fam e ow oh frame [[_ _ Hc _] Hfw Hfh].
  pose proof (resolve_pos (fst frame) (e_cols e)). pose proof (resolve_pos (snd frame) (e_lines e)).
  unfold fwpx, fhpx in *. unfold columns, lines in *. repeat split; try assumption.
  - apply cols_roundtrip. assumption.
  - apply lines_roundtrip; try assumption; [lia|]. destruct Hfh. lia.
Qed.

(** FIT (common.py:1784-1817) *)
Lemma valid_size_fit : forall fam (e : env FA) ow oh frame,
  valid_size fam e ow oh (DSize FIT) DNone frame =
  let '(wpx, hpx) := fit_px (pr_of fam e) ow oh (fwpx fam e frame) (fhpx fam e frame) in
  (or1 (cols_of_px fam e wpx), or1 (lines_of_px fam e hpx)).
Proof. reflexivity. Qed.

Lemma fit_spec : forall fam (e : env FA) ow oh frame, Dom fam e ow oh frame ->
  let '(a, b) := valid_size fam e ow oh (DSize FIT) DNone frame in
  (0 < a)%Z /\ (0 < b)%Z /\ (a <= columns e frame)%Z /\ (b <= lines e frame)%Z /\
  ((a = columns e frame /\
    nearP b (HX (pr_of fam e) ow oh (fwpx fam e frame) / QZ (chp fam e))) \/
   (b = lines e frame /\
    nearP a (WX (pr_of fam e) ow oh (fhpx fam e frame) / QZ (cwp fam e)))).
Proof.
  intros fam e ow oh frame D. rewrite valid_size_fit.
  destruct (frame_cells _ _ _ _ _ D) as (C1 & L1 & Rc & Rl).
  destruct D as [[How Hoh Hc Hr] Hfw Hfh].
  pose proof (pr_ok fam e Hc Hr) as Hpr.
  pose proof (fit_px_spec (pr_of fam e) ow oh _ _ How Hoh Hfw Hfh Hpr) as S.
  destruct (fit_px (pr_of fam e) ow oh (fwpx fam e frame) (fhpx fam e frame)) as [wpx hpx].
  destruct S as (Sw & Sh & Sc).
  assert (B53 : (fhpx fam e frame <= 2 ^ 53)%Z) by (destruct Hfh; lia).
  assert (Ha : (or1 (cols_of_px fam e wpx) <= columns e frame)%Z).
  { apply or1_le; [|assumption]. rewrite <- Rc. apply cols_mono; [assumption|lia]. }
  assert (Hb : (or1 (lines_of_px fam e hpx) <= lines e frame)%Z).
  { apply or1_le; [|assumption]. rewrite <- Rl. apply lines_mono; try assumption; lia. }
  split; [apply or1_pos, cols_of_px_nonneg; [assumption|lia]|].
  split; [apply or1_pos, lines_of_px_nonneg; [assumption|lia]|].
  split; [assumption|]. split; [assumption|].
  destruct Sc as [(E & Nl & Nh)|(E & Nl & Nh)]; [left|right]; subst.
  - split; [rewrite Rc; apply or1_id; lia|].
    apply lines_of_px_near; try assumption; lia.
  - split; [rewrite Rl; apply or1_id; lia|].
    apply cols_of_px_near; try assumption; lia.
Qed.

(** ORIGINAL (common.py:1777-1782) *)
Lemma valid_size_original : forall fam (e : env FA) ow oh frame,
  valid_size fam e ow oh (DSize ORIGINAL) DNone frame =
  (or1 (cols_of_px fam e ow), or1 (lines_of_px fam e (original_hpx fam e oh))).
Proof. reflexivity. Qed.

Lemma original_spec : forall fam (e : env FA) ow oh frame, Dom0 e ow oh ->
  QZ oh * v (pr_of fam e) <= two 40 ->
  let '(a, b) := valid_size fam e ow oh (DSize ORIGINAL) DNone frame in
  (0 < a)%Z /\ (0 < b)%Z /\
  nearP a (QZ ow / QZ (cwp fam e)) /\ nearP b (QZ oh * v (pr_of fam e) / QZ (chp fam e)).
Proof.
  intros fam e ow oh frame [How Hoh Hc Hr] Hb. rewrite valid_size_original.
  pose proof (pr_ok fam e Hc Hr) as Hpr.
  destruct (original_hpx_spec (pr_of fam e) oh Hoh Hpr Hb) as ((P0 & P1) & Nl & Nh).
  unfold original_hpx, pr_of in *.
  destruct How as [Ho1 Ho2].
  assert (D : 0 <= delta) by qdec.
  split; [apply or1_pos, cols_of_px_nonneg; [assumption|lia]|].
  split; [apply or1_pos, lines_of_px_nonneg; [assumption|lia]|].
  split.
  - apply cols_of_px_near; try assumption; try lia; lra.
  - apply lines_of_px_near; try assumption; lia.
Qed.

(** AUTO (common.py:1756-1765): ORIGINAL when ORIGINAL's own pixel size fits the
    frame's pixel area, FIT otherwise *)
Lemma auto_original_iff_fits : forall fam (e : env FA) ow oh frame,
  valid_size fam e ow oh (DSize AUTO) DNone frame =
  if ((ow <=? fwpx fam e frame) && (original_hpx fam e oh <=? fhpx fam e frame))%Z
  then valid_size fam e ow oh (DSize ORIGINAL) DNone frame
  else valid_size fam e ow oh (DSize FIT) DNone frame.
Proof.
  intros. unfold valid_size. cbn [has dim_is smode_eqb orb].
  fold (columns e frame) (lines e frame). fold (fwpx fam e frame) (fhpx fam e frame).
  rewrite (Z.ltb_antisym ow), (Z.ltb_antisym (original_hpx fam e oh)).
  destruct (ow <=? fwpx fam e frame)%Z, (original_hpx fam e oh <=? fhpx fam e frame)%Z; reflexivity.
Qed.

(** ORIGINAL's pixel height is the round-half-even of the correctly rounded product *)
Lemma original_hpx_value : forall fam (e : env FA) oh, dim30 oh -> cell_ok e -> ratio_ok e ->
  original_hpx fam e oh = rhe (rnd SM (QZ oh * v (pr_of fam e))).
Proof.
  intros fam e oh Hoh Hc Hr. unfold original_hpx, pr_of.
  pose proof (pr_ok fam e Hc Hr) as Hpr.
  assert (A : Ap (fmul (ofZ oh) (pixel_ratio fam e)) (QZ oh * v (pixel_ratio fam e))
                 (L 1) (H 1) (itwo 32) (two 62)).
  { apply (Ap_mul_w SM _ _ _ _ _ _ _ _ _ _ _ _ _ _ _ _ (Ap_dim oh Hoh) (Ap_pr _ Hpr)). side. }
  rewrite (fround_rhe SM); [|destruct A; assumption].
  destruct Hpr as (Fp & Lp & Up). destruct (dim30_Q _ Hoh) as (Q1 & Q2 & _).
  destruct (ofZ_ok SM oh ltac:(destruct Hoh; lia)) as [Fo Vo].
  assert (R : Qabs (v (ofZ oh) * v (pixel_ratio fam e)) <= fbig).
  { rewrite Vo. assert (0 < itwo 32) by qdec. rewrite Qabs_pos by nra.
    apply Qle_trans with (two 30 * two 32); [|qdec]. apply Qmul_le_mono; lra. }
  destruct (mul_ok SM _ _ Fo Fp R) as [_ Vm].
  apply rhe_comp. rewrite Vm. apply (rnd_comp SM). rewrite Vo. reflexivity.
Qed.

(** for graphics-based styles the pixel ratio is 1: the scaled height is [oh] itself *)
Lemma original_hpx_graphics : forall (e : env FA) oh, dim30 oh -> original_hpx Graphics e oh = oh.
Proof.
  intros e oh Hoh. unfold original_hpx. cbn [pixel_ratio].
  destruct (ofZ_ok SM 1 ltac:(vm_compute; discriminate)) as [F1 V1].
  destruct (ofZ_ok SM oh ltac:(destruct Hoh; lia)) as [Fo Vo].
  destruct (dim30_Q _ Hoh) as (Q1 & Q2 & _).
  assert (E : v (ofZ oh) * v (ofZ 1) == QZ oh) by (rewrite Vo, V1; change (QZ 1) with 1; ring).
  assert (R : Qabs (v (ofZ oh) * v (ofZ 1)) <= fbig).
  { rewrite E, Qabs_pos by lra. apply Qle_trans with (two 30); [assumption|qdec]. }
  destruct (mul_ok SM _ _ Fo F1 R) as [Fm Vm].
  rewrite (fround_rhe SM _ Fm).
  assert (Ev : v (fmul (ofZ oh) (ofZ 1)) == QZ oh).
  { rewrite Vm, (rnd_comp SM _ _ E). apply rnd_Z. destruct Hoh. lia. }
  rewrite (rhe_comp _ _ Ev). apply rhe_Z.
Qed.

Lemma auto_spec : forall fam (e : env FA) ow oh frame, Dom fam e ow oh frame ->
  let '(a, b) := valid_size fam e ow oh (DSize AUTO) DNone frame in
  (0 < a)%Z /\ (0 < b)%Z /\ (a <= columns e frame)%Z /\ (b <= lines e frame)%Z.
Proof.
  intros fam e ow oh frame D. rewrite auto_original_iff_fits.
  destruct ((ow <=? fwpx fam e frame) && (original_hpx fam e oh <=? fhpx fam e frame))%Z eqn:E.
  - apply andb_prop in E. destruct E as [E1 E2]. apply Z.leb_le in E1, E2.
    rewrite valid_size_original.
    destruct (frame_cells _ _ _ _ _ D) as (C1 & L1 & Rc & Rl).
    destruct D as [[How Hoh Hc Hr] Hfw Hfh].
    pose proof (pr_ok fam e Hc Hr) as Hpr.
    pose proof (original_hpx_nonneg (pr_of fam e) oh Hoh Hpr) as P0.
    change (0 <= original_hpx fam e oh)%Z in P0.
    assert (B53 : (fhpx fam e frame <= 2 ^ 53)%Z) by (destruct Hfh; lia).
    destruct How.
    split; [apply or1_pos, cols_of_px_nonneg; [assumption|lia]|].
    split; [apply or1_pos, lines_of_px_nonneg; [assumption|lia]|].
    split.
    + apply or1_le; [|assumption]. rewrite <- Rc. apply cols_mono; assumption.
    + apply or1_le; [|assumption]. rewrite <- Rl. apply lines_mono; try assumption; lia.
  - pose proof (fit_spec fam e ow oh frame D) as S.
    destruct (valid_size fam e ow oh (DSize FIT) DNone frame) as [a b].
    destruct S as (S1 & S2 & S3 & S4 & _). auto.
Qed.

(** FIT_TO_WIDTH (common.py:1766-1775) *)
Lemma valid_size_ftw : forall fam (e : env FA) ow oh frame,
  valid_size fam e ow oh (DSize FIT_TO_WIDTH) DNone frame =
  (or1 (cols_of_px fam e (fwpx fam e frame)),
   or1 (lines_of_px fam e (fround (fmul (whpx_w ow oh (fwpx fam e frame)) (pr_of fam e))))).
Proof. reflexivity. Qed.

Lemma fit_to_width_spec : forall fam (e : env FA) ow oh frame, Dom fam e ow oh frame ->
  HX (pr_of fam e) ow oh (fwpx fam e frame) <= two 40 ->
  let '(a, b) := valid_size fam e ow oh (DSize FIT_TO_WIDTH) DNone frame in
  a = columns e frame /\ (0 < b)%Z /\
  nearP b (HX (pr_of fam e) ow oh (fwpx fam e frame) / QZ (chp fam e)).
Proof.
  intros fam e ow oh frame D Hb. rewrite valid_size_ftw.
  destruct (frame_cells _ _ _ _ _ D) as (C1 & L1 & Rc & Rl).
  destruct D as [[How Hoh Hc Hr] Hfw Hfh].
  pose proof (pr_ok fam e Hc Hr) as Hpr.
  destruct (height_of_width_spec (pr_of fam e) ow oh _ How Hoh Hfw Hpr Hb) as ((P0 & P1) & Nl & Nh).
  split; [rewrite Rc; apply or1_id; lia|].
  split; [apply or1_pos, lines_of_px_nonneg; [assumption|lia]|].
  apply lines_of_px_near; try assumption; lia.
Qed.

(** the exactness of FIT_TO_WIDTH's width needs no float reasoning at all *)
Lemma fit_to_width_exact : forall fam (e : env FA) ow oh frame, cell_ok e ->
  fst (valid_size fam e ow oh (DSize FIT_TO_WIDTH) DNone frame) = columns e frame.
Proof.
  intros fam e ow oh frame Hc. rewrite valid_size_ftw. cbn [fst].
  unfold fwpx. rewrite cols_roundtrip by assumption.
  apply or1_id. pose proof (resolve_pos (fst frame) (e_cols e)). unfold columns. lia.
Qed.

(** a given width (common.py:1824-1832) *)
Lemma valid_size_width : forall fam (e : env FA) ow oh wi frame,
  valid_size fam e ow oh (DInt wi) DNone frame =
  (or1 wi, or1 (lines_of_px fam e
                  (fround (fmul (whpx_w ow oh (px_of_cols fam e wi)) (pr_of fam e))))).
Proof. reflexivity. Qed.

Lemma given_width_kept : forall fam (e : env FA) ow oh wi frame, (0 < wi)%Z ->
  fst (valid_size fam e ow oh (DInt wi) DNone frame) = wi.
Proof. intros. rewrite valid_size_width. cbn [fst]. apply or1_id. assumption. Qed.

Lemma given_width_spec : forall fam (e : env FA) ow oh wi frame, Dom0 e ow oh ->
  dim30 (px_of_cols fam e wi) -> (0 < wi)%Z ->
  HX (pr_of fam e) ow oh (px_of_cols fam e wi) <= two 40 ->
  let '(a, b) := valid_size fam e ow oh (DInt wi) DNone frame in
  a = wi /\ (0 < b)%Z /\
  nearP b (HX (pr_of fam e) ow oh (px_of_cols fam e wi) / QZ (chp fam e)).
Proof.
  intros fam e ow oh wi frame [How Hoh Hc Hr] Hw Hpos Hb. rewrite valid_size_width.
  pose proof (pr_ok fam e Hc Hr) as Hpr.
  destruct (height_of_width_spec (pr_of fam e) ow oh _ How Hoh Hw Hpr Hb) as ((P0 & P1) & Nl & Nh).
  split; [apply or1_id; assumption|].
  split; [apply or1_pos, lines_of_px_nonneg; [assumption|lia]|].
  apply lines_of_px_near; try assumption; lia.
Qed.

(** a given height (common.py:1818-1823, 1832) *)
Lemma valid_size_height : forall fam (e : env FA) ow oh hi frame,
  valid_size fam e ow oh DNone (DInt hi) frame =
  (or1 (cols_of_px fam e
          (fround (fdiv (whpx_h ow oh (px_of_lines fam e hi)) (pr_of fam e)))), or1 hi).
Proof. reflexivity. Qed.

Lemma given_height_kept : forall fam (e : env FA) ow oh hi frame, (0 < hi)%Z ->
  snd (valid_size fam e ow oh DNone (DInt hi) frame) = hi.
Proof. intros. rewrite valid_size_height. cbn [snd]. apply or1_id. assumption. Qed.

Lemma given_height_spec : forall fam (e : env FA) ow oh hi frame, Dom0 e ow oh ->
  dim30 (px_of_lines fam e hi) -> (0 < hi)%Z ->
  WX (pr_of fam e) ow oh (px_of_lines fam e hi) <= two 40 ->
  let '(a, b) := valid_size fam e ow oh DNone (DInt hi) frame in
  b = hi /\ (0 < a)%Z /\
  nearP a (WX (pr_of fam e) ow oh (px_of_lines fam e hi) / QZ (cwp fam e)).
Proof.
  intros fam e ow oh hi frame [How Hoh Hc Hr] Hh Hpos Hb. rewrite valid_size_height.
  pose proof (pr_ok fam e Hc Hr) as Hpr.
  destruct (width_of_height_spec (pr_of fam e) ow oh _ How Hoh Hh Hpr Hb) as ((P0 & P1) & Nl & Nh).
  split; [apply or1_id; assumption|].
  split; [apply or1_pos, cols_of_px_nonneg; [assumption|lia]|].
  apply cols_of_px_near; try assumption; lia.
Qed.

Lemma valid_size_mode : forall fam (e : env FA) ow oh w h m frame, auto_mode w h = Some m ->
  valid_size fam e ow oh w h frame = valid_size fam e ow oh (DSize m) DNone frame.
Proof.
  intros fam e ow oh w h m frame Hm.
  destruct w as [|wi|s|], h as [|hi|t|]; try discriminate; cbn in Hm; inversion Hm; subst; clear Hm.
  - reflexivity.
  - destruct m; reflexivity.
  - reflexivity.
Qed.

End Proofs.

(** ------------------------------------------------------------------------------
    Non-vacuity.  (1) [StandardModel] is satisfiable: exact rational arithmetic
    ([rnd] = identity) is an instance, so the theorems above are not vacuous because of
    an inconsistent assumption.  (2) The domain hypotheses hold on a concrete, ordinary
    state (a 288x288 source in an 80x30 terminal, cell ratio 1/2), where FIT gives the
    familiar 56x28. *)
Definition ExactFA : FloatArith :=
  {| F := Q; ofZ := inject_Z; fmul := Qmult; fdiv := Qdiv;
     fltb := fun a b => negb (Qle_bool b a); fleb := Qle_bool;
     fround := rhe; fceil := Qceiling |}.

Section Exact.
Let fin_ (x : Q) : Prop := True.
Let val_ (x : Q) : Q := x.
Let rnd_ (x : Q) : Q := x.
Lemma ex_rnd_comp : forall x y, x == y -> rnd_ x == rnd_ y. Proof. intros x y E. exact E. Qed.
Lemma ex_rnd_mono : forall x y, x <= y -> rnd_ x <= rnd_ y. Proof. intros x y E. exact E. Qed.
Lemma ex_rnd_err : forall x, fsmall <= Qabs x -> Qabs x <= fbig ->
  Qabs (rnd_ x - x) <= ulp_rel * Qabs x.
Proof.
  intros x _ _. unfold rnd_. assert (E : x - x == 0) by ring. rewrite (Qabs_wd _ _ E).
  change (Qabs 0) with 0. pose proof (Qabs_nonneg x). assert (0 < ulp_rel) by qdec. nra.
Qed.
Lemma ex_ltb : forall a b : Q, fin_ a -> fin_ b -> (negb (Qle_bool b a) = true <-> val_ a < val_ b).
Proof.
  intros a b _ _. unfold val_. split; intro H1.
  - apply Qnot_le_lt. intro C. apply Qle_bool_iff in C. rewrite C in H1. discriminate.
  - destruct (Qle_bool b a) eqn:E; [|reflexivity]. apply Qle_bool_iff in E. lra.
Qed.
Lemma ex_leb : forall a b : Q, fin_ a -> fin_ b -> (Qle_bool a b = true <-> val_ a <= val_ b).
Proof. intros a b _ _. apply Qle_bool_iff. Qed.

Definition exact_standard_model : StandardModel ExactFA :=
  @Build_StandardModel ExactFA fin_ val_ rnd_ ex_rnd_comp ex_rnd_mono
    (fun m e _ _ => Qeq_refl _) ex_rnd_err (fun a _ => Qeq_refl _)
    (fun z _ => conj I (Qeq_refl _)) (fun a b _ _ _ => conj I (Qeq_refl _))
    (fun a b _ _ _ _ => conj I (Qeq_refl _)) ex_ltb ex_leb
    (fun a _ => eq_refl) (fun a _ => eq_refl).
End Exact.

Definition ex_env : env ExactFA :=
  @Build_env ExactFA 80 30 None (Some (1 # 2)) None.

Example dom_nonvacuous :
  Dom exact_standard_model Text ex_env 288 288 default_frame
  /\ valid_size Text ex_env 288 288 (DSize FIT) DNone default_frame = (56, 28)%Z
  /\ valid_size Text ex_env 288 288 (DSize AUTO) DNone default_frame = (56, 28)%Z
  /\ valid_size Text ex_env 288 288 (DSize ORIGINAL) DNone default_frame = (288, 144)%Z.
Proof.
  split; [|vm_compute; auto].
  assert (D288 : dim30 288) by (split; [discriminate|reflexivity]).
  constructor; [constructor|..].
  - exact D288.
  - exact D288.
  - exact I.
  - cbn. split; [exact I|]. split; qdec.
  - split; [discriminate|reflexivity].
  - split; [discriminate|reflexivity].
Qed.
