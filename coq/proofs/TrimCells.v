(** * TrimCells — cell lists under the SGR state: colours are determined by the nearest
    prefix, first-colour recovery finds it (C17) *)
From Coq Require Import List ZArith Bool Lia.
Import ListNotations.
From TI Require Import lib.Term lib.TermFacts model.Trim model.TrimSpec proofs.TrimLists.
Open Scope Z_scope.

(** ** prefixes *)

Definition sgr_apply (a : attrs) (p : list tok) : attrs := snd (row_vis a p).

Lemma sgr_no_glyph p : forallb is_sgr p = true -> forall a, fst (row_vis a p) = [].
Proof.
  induction p as [|x p IH]; intros H a; [reflexivity|].
  cbn [forallb] in H. apply andb_prop in H. destruct H as [Hx Hp].
  destruct x; try discriminate Hx; cbn [row_vis]; apply IH, Hp.
Qed.

Lemma sgr_text_only p : forallb is_sgr p = true -> text_only p = true.
Proof.
  unfold text_only. rewrite !forallb_forall. intros H x Hx. specialize (H x Hx).
  destruct x; try discriminate H; reflexivity.
Qed.

(** two attribute records agree on the components marked in [k] *)
Definition agree (k : bool * bool) (a1 a2 : attrs) : Prop :=
  (fst k = true -> fg a1 = fg a2) /\ (snd k = true -> bg a1 = bg a2).

Lemma agree_refl k a : agree k a a.
Proof. split; reflexivity. Qed.

Lemma agree_none a1 a2 : agree (false, false) a1 a2.
Proof. split; discriminate. Qed.

Lemma agree_apply p : forallb is_sgr p = true -> forall k a1 a2,
  agree k a1 a2 -> agree (sets_from k p) (sgr_apply a1 p) (sgr_apply a2 p).
Proof.
  unfold sgr_apply.
  induction p as [|x p IH]; intros H k a1 a2 Ha; [exact Ha|].
  cbn [forallb] in H. apply andb_prop in H. destruct H as [Hx Hp].
  destruct x; try discriminate Hx; cbn [row_vis sets_from]; apply (IH Hp).
  - apply agree_refl.
  - destruct Ha as [_ Hb]. split; cbn [fst snd fg bg]; [reflexivity|exact Hb].
  - destruct Ha as [Hf _]. split; cbn [fst snd fg bg]; [exact Hf|reflexivity].
Qed.

Lemma covers_gvis k g a1 a2 : covers k g = true -> agree k a1 a2 -> gvis g a1 = gvis g a2.
Proof.
  intros Hc [Hf Hb]. unfold gvis, fgc, bgc.
  destruct g; cbn [covers] in Hc;
    try (rewrite (Hb Hc); reflexivity);
    apply andb_prop in Hc; destruct Hc as [H1 H2]; rewrite (Hf H1), (Hb H2); reflexivity.
Qed.

(** ** one cell, a list of cells *)

Definition cells_toks (cs : list cell) : list tok := concat (map cell_toks cs).
Definition vis_cells (a : attrs) (cs : list cell) : list vcell * attrs := row_vis a (cells_toks cs).
Definition cell_end (a : attrs) (c : cell) : attrs :=
  if post c then adefault else sgr_apply a (pre c).

Lemma row_vis_cell a c : forallb is_sgr (pre c) = true ->
  row_vis a (cell_toks c) = ([gvis (gl c) (sgr_apply a (pre c))], cell_end a c).
Proof.
  intros Hp. unfold cell_toks, cell_end, sgr_apply. rewrite row_vis_app. rewrite (sgr_no_glyph _ Hp).
  cbn [app fst snd]. destruct (post c); reflexivity.
Qed.

Lemma vis_cells_cons a c cs : forallb is_sgr (pre c) = true ->
  vis_cells a (c :: cs)
  = (gvis (gl c) (sgr_apply a (pre c)) :: fst (vis_cells (cell_end a c) cs),
     snd (vis_cells (cell_end a c) cs)).
Proof.
  intros Hp. unfold vis_cells, cells_toks. cbn [map concat]. rewrite row_vis_app, (row_vis_cell _ _ Hp).
  reflexivity.
Qed.

Lemma vis_cells_app a A B :
  vis_cells a (A ++ B)
  = (fst (vis_cells a A) ++ fst (vis_cells (snd (vis_cells a A)) B),
     snd (vis_cells (snd (vis_cells a A)) B)).
Proof. unfold vis_cells, cells_toks. rewrite map_app, concat_app. apply row_vis_app. Qed.

(** every prefix of the cells consists of SGR sequences *)
Definition sgr_pres (cs : list cell) : Prop := Forall (fun c => forallb is_sgr (pre c) = true) cs.

Lemma wf_sgr_pres cs : forall k ap, wf_cells k ap cs = true -> sgr_pres cs.
Proof.
  induction cs as [|c cs IH]; intros k ap H; [constructor|].
  cbn [wf_cells] in H. repeat (apply andb_prop in H; destruct H as [H ?]).
  constructor; [assumption|]. eapply IH; eassumption.
Qed.

Lemma vis_cells_length cs : sgr_pres cs -> forall a,
  length (fst (vis_cells a cs)) = length cs.
Proof.
  induction 1 as [|c cs Hc _ IH]; intros a; [reflexivity|].
  rewrite (vis_cells_cons _ _ _ Hc). cbn [fst length]. f_equal. apply IH.
Qed.

Lemma vis_cells_firstn cs : sgr_pres cs -> forall n a,
  fst (vis_cells a (firstn n cs)) = firstn n (fst (vis_cells a cs)).
Proof.
  induction 1 as [|c cs Hc _ IH]; intros n a.
  - rewrite !firstn_nil. reflexivity.
  - destruct n; [reflexivity|]. cbn [firstn].
    rewrite !(vis_cells_cons _ _ _ Hc). cbn [fst firstn]. f_equal. apply IH.
Qed.

Lemma sgr_pres_firstn n cs : sgr_pres cs -> sgr_pres (firstn n cs).
Proof.
  intros H. revert n. induction H as [|c cs Hc _ IH]; intros [|n]; cbn [firstn];
    try constructor; auto. apply IH.
Qed.
Lemma sgr_pres_skipn n cs : sgr_pres cs -> sgr_pres (skipn n cs).
Proof.
  intros H. revert n. induction H as [|c cs Hc Hcs IH]; intros [|n]; cbn [skipn];
    try (constructor; assumption). apply IH.
Qed.

Lemma vis_cells_skipn cs n a : sgr_pres cs ->
  skipn n (fst (vis_cells a cs)) = fst (vis_cells (snd (vis_cells a (firstn n cs))) (skipn n cs)).
Proof.
  intros H. rewrite <- (firstn_skipn n cs) at 1. rewrite vis_cells_app. cbn [fst].
  destruct (Nat.le_ge_cases n (length cs)) as [Hle|Hge].
  - rewrite skipn_app.
    rewrite (vis_cells_length _ (sgr_pres_firstn n cs H)), firstn_length_le by assumption.
    rewrite Nat.sub_diag. cbn [skipn].
    rewrite skipn_all2; [reflexivity|].
    rewrite (vis_cells_length _ (sgr_pres_firstn n cs H)), firstn_length_le by assumption. lia.
  - rewrite (skipn_all2 cs) by assumption. cbn. rewrite app_nil_r.
    apply skipn_all2. rewrite (vis_cells_length _ (sgr_pres_firstn n cs H)), firstn_length. lia.
Qed.

(** ** colours are determined by the nearest prefix *)

Lemma wf_same_vis cs : forall k ap a1 a2,
  wf_cells k ap cs = true -> agree k a1 a2 ->
  fst (vis_cells a1 cs) = fst (vis_cells a2 cs).
Proof.
  induction cs as [|c cs IH]; intros k ap a1 a2 H Ha; [reflexivity|].
  cbn [wf_cells] in H. repeat (apply andb_prop in H; destruct H as [H ?]).
  rename H into Hsgr.
  rewrite !(vis_cells_cons _ _ _ Hsgr). cbn [fst].
  set (k' := if is_nil (pre c) then k else sets_from (false, false) (pre c)) in *.
  assert (Hk' : agree k' (sgr_apply a1 (pre c)) (sgr_apply a2 (pre c))).
  { subst k'. destruct (pre c) as [|x p] eqn:Ep; cbn [is_nil].
    - exact Ha.
    - apply agree_apply; [exact Hsgr|apply agree_none]. }
  f_equal.
  - eapply covers_gvis; eassumption.
  - eapply IH; [eassumption|]. unfold cell_end. destruct (post c); [apply agree_refl|exact Hk'].
Qed.

(** a line whose last cell carries a reset ends with default attributes *)
Lemma vis_cells_end_default cs c a : sgr_pres (cs ++ [c]) -> post c = true ->
  snd (vis_cells a (cs ++ [c])) = adefault.
Proof.
  intros H Hp. rewrite vis_cells_app. cbn [snd].
  apply Forall_app in H. destruct H as [_ H]. inversion H as [|? ? Hc _]; subst.
  rewrite (vis_cells_cons _ _ _ Hc). cbn [snd]. unfold cell_end. rewrite Hp. reflexivity.
Qed.

(** ** the walk of [wf_cells] over a prefix of the line *)

Fixpoint walk (k : bool * bool) (ap : bool) (cs : list cell) : (bool * bool) * bool :=
  match cs with
  | [] => (k, ap)
  | c :: r => walk (if is_nil (pre c) then k else sets_from (false, false) (pre c)) (post c) r
  end.

Lemma wf_cells_app A : forall k ap B,
  wf_cells k ap (A ++ B)
  = wf_cells k ap A && wf_cells (fst (walk k ap A)) (snd (walk k ap A)) B.
Proof.
  induction A as [|c A IH]; intros k ap B; [reflexivity|].
  cbn [app wf_cells walk]. rewrite IH. rewrite !andb_assoc. reflexivity.
Qed.

Lemma walk_app A : forall k ap B,
  walk k ap (A ++ B) = walk (fst (walk k ap A)) (snd (walk k ap A)) B.
Proof. induction A as [|c A IH]; intros k ap B; [reflexivity|]. cbn [app walk]. apply IH. Qed.

(** ** first-colour recovery *)

(** what the scan of [_urwid.py:374-379] finds left of a cut after the cells [A] *)
Definition recovered (A : list cell) : list tok := find_first_color (rev (map cell_toks A)).

Lemma upto_last_m_sgr p : forallb is_sgr p = true -> p <> [] -> upto_last_m p = p.
Proof.
  induction p as [|x p IH]; intros H Hne; [congruence|].
  cbn [forallb] in H. apply andb_prop in H. destruct H as [Hx Hp].
  cbn [upto_last_m]. destruct p as [|y p'].
  - cbn. destruct x; try discriminate Hx; reflexivity.
  - rewrite (IH Hp) by discriminate. reflexivity.
Qed.

Lemma upto_last_m_cell p g : forallb is_sgr p = true -> p <> [] -> glyph_is_m g = false ->
  upto_last_m (p ++ [TChar g]) = p.
Proof.
  induction p as [|x p IH]; intros H Hne Hg; [congruence|].
  cbn [forallb] in H. apply andb_prop in H. destruct H as [Hx Hp].
  cbn [app upto_last_m]. destruct p as [|y p'].
  - cbn [app upto_last_m].
    assert (has_m (TChar g) = false) as ->.
    { destruct g as [| | |z]; try reflexivity. cbn in Hg |- *.
      destruct z as [|q|q]; try reflexivity.
      repeat (destruct q as [q|q|]; try reflexivity; try discriminate Hg). }
    destruct x; try discriminate Hx; reflexivity.
  - rewrite (IH Hp) by (discriminate || assumption). reflexivity.
Qed.

Lemma starts_esc_cell c : forallb is_sgr (pre c) = true ->
  starts_esc (cell_toks c) = negb (is_nil (pre c)).
Proof.
  intros H. unfold cell_toks. destruct (pre c) as [|x p]; [reflexivity|].
  cbn [forallb] in H. apply andb_prop in H. destruct H as [Hx _].
  destruct x; try discriminate Hx; reflexivity.
Qed.

Lemma recovered_snoc A c : forallb is_sgr (pre c) = true -> post c = false ->
  glyph_is_m (gl c) = false ->
  recovered (A ++ [c]) = if is_nil (pre c) then recovered A else pre c.
Proof.
  intros Hs Hp Hg. unfold recovered. rewrite map_app, rev_app_distr. cbn [map rev app find_first_color].
  rewrite (starts_esc_cell _ Hs). destruct (pre c) as [|x p] eqn:Ep; cbn [is_nil negb]; [reflexivity|].
  unfold cell_toks. rewrite Ep, Hp. rewrite <- Ep in *.
  apply upto_last_m_cell; try assumption. rewrite Ep. discriminate.
Qed.

(** Invariant of the scan: after the cells [A] of a well-formed line, either the last
    cell ended with a reset (attributes are default and the next cell carries its own
    prefix), or the attributes agree — on everything the following glyphs may depend on —
    with what the recovered prefix alone establishes. *)
Lemma recovery_invariant A :
  wf_cells (false, false) true A = true ->
  let a := snd (vis_cells adefault A) in
  let '(k, ap) := walk (false, false) true A in
  if ap then a = adefault
  else agree k a (sgr_apply adefault (recovered A)) /\ forallb is_sgr (recovered A) = true.
Proof.
  induction A as [|c A IH] using rev_ind; intros Hwf; [reflexivity|].
  rewrite wf_cells_app in Hwf. apply andb_prop in Hwf. destruct Hwf as [HA Hc].
  specialize (IH HA). cbn zeta in IH |- *.
  rewrite walk_app. destruct (walk (false, false) true A) as [k ap] eqn:Ew. cbn [fst snd] in *.
  cbn [wf_cells] in Hc. repeat (apply andb_prop in Hc; destruct Hc as [Hc ?]).
  rename Hc into Hsgr. cbn [walk].
  rewrite vis_cells_app. cbn [snd]. rewrite (vis_cells_cons _ _ _ Hsgr). cbn [snd].
  unfold vis_cells at 1, cells_toks at 1. cbn [map concat row_vis snd]. unfold cell_end.
  destruct (post c) eqn:Hp; [reflexivity|].
  rewrite (recovered_snoc A c Hsgr Hp) by (apply negb_true_iff; assumption).
  destruct (pre c) as [|x p] eqn:Ep; cbn [is_nil] in *.
  - destruct ap; [discriminate|]. exact IH.
  - split; [|rewrite <- Ep in *; exact Hsgr].
    apply agree_apply; [exact Hsgr|apply agree_none].
Qed.

(** The heart of C17's text branch: the cells [til, til+n) of a well-formed line, drawn
    on their own after the recovered first colour (nothing when the first visible cell
    carries its own prefix), show what they show inside the full line. *)
Lemma cut_shows_same cs til n :
  wf_cells (false, false) true cs = true -> (til < length cs)%nat ->
  let A := firstn til cs in
  let B := firstn n (skipn til cs) in
  let fc := if starts_esc (cell_toks (nth til cs {| pre := []; gl := GSpace; post := false |}))
            then [] else recovered A in
  forallb is_sgr fc = true
  /\ fst (vis_cells (sgr_apply adefault fc) B)
     = firstn n (skipn til (fst (vis_cells adefault cs))).
Proof.
  intros Hwf Hlt A B fc.
  pose proof (wf_sgr_pres _ _ _ Hwf) as Hs.
  rewrite (vis_cells_skipn cs til adefault Hs).
  rewrite <- (vis_cells_firstn _ (sgr_pres_skipn til cs Hs)). fold A. fold B.
  assert (Hcs : cs = A ++ skipn til cs) by (symmetry; apply firstn_skipn).
  rewrite Hcs in Hwf. rewrite wf_cells_app in Hwf. apply andb_prop in Hwf. destruct Hwf as [HA HR].
  pose proof (recovery_invariant A HA) as Inv. cbn zeta in Inv.
  destruct (walk (false, false) true A) as [k ap] eqn:Ew. cbn [fst snd] in HR.
  destruct (skipn til cs) as [|c R] eqn:ER.
  { exfalso. apply (f_equal (@length _)) in ER. rewrite skipn_length in ER. cbn in ER. lia. }
  assert (Hnth : nth til cs {| pre := []; gl := GSpace; post := false |} = c).
  { rewrite Hcs, app_nth2; subst A; rewrite firstn_length_le by lia; [|lia].
    rewrite Nat.sub_diag. reflexivity. }
  subst fc. rewrite Hnth.
  assert (Hc : forallb is_sgr (pre c) = true).
  { cbn [wf_cells] in HR. repeat (apply andb_prop in HR; destruct HR as [HR ?]). exact HR. }
  rewrite (starts_esc_cell _ Hc).
  assert (HB : wf_cells k ap B = true /\ (B = [] \/ exists R', B = c :: R')).
  { subst B. destruct n; [split; [reflexivity|left; reflexivity]|].
    split; [|right; eexists; reflexivity].
    replace (c :: R) with (firstn (S n) (c :: R) ++ skipn (S n) (c :: R)) in HR by apply firstn_skipn.
    rewrite wf_cells_app in HR. apply andb_prop in HR. apply HR. }
  destruct HB as [HB HBshape].
  destruct (pre c) as [|x p] eqn:Ep; cbn [is_nil negb].
  - (* the first visible cell has no prefix of its own: recover *)
    assert (ap = false) as ->.
    { cbn [wf_cells] in HR. rewrite Ep in HR. cbn [is_nil negb] in HR.
      destruct ap; [|reflexivity]. rewrite !andb_false_r in HR. cbn in HR.
      repeat (apply andb_prop in HR; destruct HR as [HR ?]); discriminate. }
    destruct Inv as [Hag Hfc]. split; [exact Hfc|].
    symmetry. eapply wf_same_vis; [exact HB|exact Hag].
  - (* it carries its own prefix: the start attributes do not matter *)
    split; [reflexivity|]. unfold sgr_apply at 1. cbn [row_vis snd].
    destruct HBshape as [->|[R' HB']]; [reflexivity|].
    rewrite HB' in HB |- *.
    assert (Hwf' : wf_cells (false, false) ap (c :: R') = true).
    { cbn [wf_cells] in HB |- *. rewrite Ep in HB |- *. cbn [is_nil] in HB |- *. exact HB. }
    eapply wf_same_vis; [exact Hwf'|apply agree_none].
Qed.
