(** Non-vacuity for C10: concrete iterators over the instrumented renderable of the
    correspondence ([vr_render]) on which the hypotheses of the theorems of
    [IterFinalProofs] hold and the conclusions are visibly non-trivial. *)
From Coq Require Import List ZArith Bool Lia.
Import ListNotations.
From TI Require Import model.Iter model.IterTie model.IterFinTie proofs.IterFinalProofs.
Open Scope Z_scope.

Definition fx_cfg (owner : bool) : config :=
  {| c_loops := 2; c_cache := CBool false; c_size := (2, 1); c_dur := DStatic 7; c_args := Some 1;
     c_pad := PExact 0 0 0 0; c_owns := owner; c_frame := 0 |}.

(** RuntimeError injected into the 2nd [_render_] call (call number 1) of a 3-frame source *)
Definition fx_render_err := vr_render (Some 3) 5 [(1%nat, 1)] [] false.
(** StopIteration injected into the 3rd [_render_] call of the same (definite) source *)
Definition fx_render_stop := vr_render (Some 3) 5 [(2%nat, 0)] [] false.

Definition summary (s : state vr_state) :=
  (closed s, owns (gh s), finalized (gh s), fin_calls (gh s), map rc_finalized (log (gh s))).

(** the iterator owns its data: frame, error (closed, finalized once), then Stop /
    FinalizedIteratorError / no second finalization by close() and __del__ *)
Example fx_owner_error :
  match mk vr_state (Some 3) term8030 (fx_cfg true) t_rs0 with
  | inl s =>
    map (fun x => match fst x with OFrame _ => 0 | OStop => 1 | OOk => 2 | OErr EFinalized => 3
                             | OErr (ERender e) => 10 + e | OErr _ => 4 end)
        (trace vr_state fx_render_err (Some 3) term8030 s [Next; Next; Next; Seek 0 WStart; Close; Drop; SetSize (1, 1)])
    = [0; 11; 1; 3; 2; 2; 3]
    /\ summary (run vr_state fx_render_err (Some 3) term8030 s [Next]) = (false, true, false, 0%nat, [false])
    /\ summary (run vr_state fx_render_err (Some 3) term8030 s [Next; Next]) = (true, true, true, 1%nat, [false; false])
    /\ summary (run vr_state fx_render_err (Some 3) term8030 s [Next; Next; Next; Seek 0 WStart; Close; Drop])
       = (true, true, true, 1%nat, [false; false])
  | inr _ => False
  end.
Proof. vm_compute. repeat split; reflexivity. Qed.

(** the hypothesis of [finalized_iff_ended] / [after_end_history] for a failing [next] *)
Example fx_hypothesis_error :
  match mk vr_state (Some 3) term8030 (fx_cfg true) t_rs0 with
  | inl s => is_end (snd (step vr_state fx_render_err (Some 3) term8030
                               (run vr_state fx_render_err (Some 3) term8030 s [Next]) Next)) = true
  | inr _ => False
  end.
Proof. vm_compute. reflexivity. Qed.

(** StopIteration from a definite source: StopDefiniteIterationError, closed, finalized once *)
Example fx_owner_stop_definite :
  match mk vr_state (Some 3) term8030 (fx_cfg true) t_rs0 with
  | inl s =>
    snd (step vr_state fx_render_stop (Some 3) term8030
              (run vr_state fx_render_stop (Some 3) term8030 s [Next; Next]) Next) = OErr EStopDefinite
    /\ summary (run vr_state fx_render_stop (Some 3) term8030 s [Next; Next; Next])
       = (true, true, true, 1%nat, [false; false; false])
  | inr _ => False
  end.
Proof. vm_compute. split; reflexivity. Qed.

(** the caller keeps ownership: the same error closes the iterator, the data is left alone *)
Example fx_caller_owned :
  match mk vr_state (Some 3) term8030 (fx_cfg false) t_rs0 with
  | inl s =>
    summary (run vr_state fx_render_err (Some 3) term8030 s [Next; Next]) = (true, false, false, 0%nat, [false; false])
    /\ summary (run vr_state fx_render_err (Some 3) term8030 s [Next; Close; Drop; Next]) = (true, false, false, 0%nat, [false])
  | inr _ => False
  end.
Proof. vm_compute. split; reflexivity. Qed.

(** exhaustion (2 loops x 3 frames) and garbage collection of an iterator nobody closed *)
Example fx_exhaustion_and_gc :
  match mk vr_state (Some 3) term8030 (fx_cfg true) t_rs0 with
  | inl s =>
    summary (run vr_state (vr_render (Some 3) 5 [] [] false) (Some 3) term8030 s (repeat Next 6))
    = (false, true, false, 0%nat, repeat false 6)
    /\ summary (run vr_state (vr_render (Some 3) 5 [] [] false) (Some 3) term8030 s (repeat Next 7))
    = (true, true, true, 1%nat, repeat false 6)
    /\ summary (run vr_state (vr_render (Some 3) 5 [] [] false) (Some 3) term8030 s [Next; Next; Drop])
    = (true, true, true, 1%nat, [false; false])
  | inr _ => False
  end.
Proof. vm_compute. repeat split; reflexivity. Qed.

(** the observation-level oracle of the correspondence is not trivially true: it rejects a
    double finalization, a late finalization, a finalized caller's data, a render on
    finalized data and an iterator that answers after it ended *)
Definition fx_tcase (obs : list (out * Z)) (lg : list rcall) (fin : nat) (fe : bool) : tcase :=
  {| t_n := Some 3; t_total := 5; t_faults := [(0%nat, 1)]; t_ffaults := []; t_stamp := false;
     t_cfg := fx_cfg true; t_ops := [Next; Seek 0 WStart]; t_ctor := None; t_obs := obs; t_tells := [0; 0];
     t_log := lg; t_fin := fin; t_finalized_end := fe |}.
Definition fx_rc (f : bool) : rcall :=
  {| rc_fo := 0; rc_wh := WStart; rc_size := (2, 1); rc_dur := DStatic 7; rc_args := 1; rc_finalized := f |}.
Definition fx_fcase (kind : nat) obs lg fins fzs fin fe : fcase :=
  {| f_t := fx_tcase obs lg fin fe; f_kind := kind; f_size_fault := false; f_data_fault := false;
     f_fin_ops := fins; f_fz_ops := fzs; f_closed_ops := [true; true]; f_others := []; f_fin_caller := 1;
     f_fin_faults := []; f_gc_raised := 0; f_caller_raised := false; f_nested := [] |}.
Definition fx_good_obs : list (out * Z) := [(OErr (ERender 1), 2); (OErr EFinalized, 2)].

Example fx_oracle_discriminates :
  check10 (fx_fcase 0 fx_good_obs [fx_rc false] [1; 1]%nat [true; true] 1%nat true) = 0%nat            (* what the code does *)
  /\ spec10_ok (fx_fcase 0 fx_good_obs [fx_rc false] [2; 2]%nat [true; true] 2%nat true) = false       (* finalized twice *)
  /\ spec10_ok (fx_fcase 0 fx_good_obs [fx_rc false] [0; 0]%nat [false; false] 1%nat true) = false     (* only at gc: first-frame error path skipped *)
  /\ spec10_ok (fx_fcase 0 fx_good_obs [fx_rc false] [0; 0]%nat [false; false] 0%nat false) = false    (* leak *)
  /\ spec10_ok (fx_fcase 1 fx_good_obs [fx_rc false] [1; 1]%nat [true; true] 1%nat true) = false       (* a caller's data finalized *)
  /\ spec10_ok (fx_fcase 0 fx_good_obs [fx_rc true] [1; 1]%nat [true; true] 1%nat true) = false        (* rendered with finalized data *)
  /\ spec10_ok (fx_fcase 0 [(OErr (ERender 1), 2); (OOk, 2)] [fx_rc false] [1; 1]%nat [true; true] 1%nat true) = false. (* open after an error *)
Proof. vm_compute. repeat split; reflexivity. Qed.

(** ... and, with a finalizer scheduled to raise at its first invocation (close() is the
    second operation), it accepts what the repaired code does and rejects: a second
    invocation by the caller's finalize() (flag not set), a flag left unset, an iterator
    that is not closed after the failing close() *)
Definition fx_rcase obs fins fzs fin fe caller craised : fcase :=
  {| f_t := {| t_n := Some 3; t_total := 5; t_faults := []; t_ffaults := []; t_stamp := false;
               t_cfg := fx_cfg true; t_ops := [Next; Close; Next; Seek 0 WStart; Close]; t_ctor := None;
               t_obs := obs; t_tells := [0; 0; 0; 0; 0]; t_log := [fx_rc false]; t_fin := fin; t_finalized_end := fe |};
     f_kind := 0; f_size_fault := false; f_data_fault := false;
     f_fin_ops := fins; f_fz_ops := fzs; f_closed_ops := [false; true; true; true; true]; f_others := [];
     f_fin_caller := caller; f_fin_faults := [0%nat]; f_gc_raised := 0; f_caller_raised := craised; f_nested := [] |}.
Definition fx_frame0 : out :=
  OFrame {| f_number := 0; f_duration := 7; f_size := (2, 1); f_output := [0; 0; 2; 1; 7; 1; -1; -1]; f_pad := None |}.
Definition fx_robs : list (out * Z) := [(fx_frame0, 2); (fin_err, 2); (OStop, 2); (OErr EFinalized, 2); (OOk, 2)].

Example fx_oracle_raising_finalizer :
  check10 (fx_rcase fx_robs [0; 1; 1; 1; 1]%nat [false; true; true; true; true] 1%nat true 1%nat false) = 0%nat
  /\ spec10_ok (fx_rcase fx_robs [0; 1; 1; 1; 1]%nat [false; false; false; false; false] 1%nat false 2%nat true) = false
  /\ spec10_ok (fx_rcase fx_robs [0; 1; 1; 1; 1]%nat [false; true; true; true; true] 1%nat true 2%nat false) = false
  /\ spec10_ok (fx_rcase [(fx_frame0, 2); (fin_err, 2); (OErr (ERender (-100)), 2); (OOk, 2); (OErr (ERender (-100)), 2)]
                         [0; 1; 1; 1; 1]%nat [false; true; true; true; true] 1%nat true 1%nat false) = false.
Proof. vm_compute. repeat split; reflexivity. Qed.
