(** C03 — the payload of one graphics command is ONE well-formed base64 text (proofs).

    1. Under the encoder hypotheses [unb64 (b64 x) = x] and [b64_wf is_pad (b64 x) = true]
       (padding only at the very end of the text, length a multiple of 4) the payload of
       every iterm2 command and the reassembled payload of every kitty transmission is
       well-formed, decodes to the data, and [size=] is the decoded length
       ([iterm2_payload_wf], [kitty_payload_wf]).
    2. The hypotheses are satisfiable by the real thing: RFC 4648 [enc] / strict [dec] on
       bytes ([dec_enc], [enc_wf], [codec_hyps_satisfiable_rfc4648]).
    3. Encoding a stream block by block ([encode_blocks n]) is the same encoder when [n] is
       a multiple of 3 ([encode_blocks_mult3]) and VIOLATES the well-formedness hypothesis
       for every other block size as soon as the data is longer than one block
       ([encode_blocks_breaks_wf], for ANY RFC-4648-shaped encoder; [blockwise_excluded],
       [mib_blocks_excluded] for 1 MiB blocks, [blockwise_example]). *)
From Coq Require Import String.
From Coq Require Import List ZArith Bool Arith Lia ZifyNat.
From Coq Require Strings.Byte.
Import ListNotations.
From TI Require Import gen.Consts model.KittyChunks model.B64Blocks proofs.KittyChunksProofs.

Local Open Scope nat_scope.

Ltac dm := zify; Z.div_mod_to_equations; lia.
Ltac pads := change (sextet pad64) with false; change (is_pad64 pad64) with true; cbn [andb].

(* ------------------------------------------------------------ well-formedness *)

Section WfFacts.
  Variable C : Type.
  Variable is_pad : C -> bool.

  Lemma wf_len4 : forall l, b64_wf is_pad l = true -> length l mod 4 = 0.
  Proof.
    intros l H. unfold b64_wf in H. apply andb_prop in H. destruct H as [H _].
    now apply Nat.eqb_eq in H.
  Qed.

  Lemma pads_nonpad_prefix : forall a l,
    forallb (fun c => negb (is_pad c)) a = true ->
    pads_only_at_end is_pad (a ++ l) = pads_only_at_end is_pad l.
  Proof.
    induction a as [|c a IH]; intros l H; [reflexivity|].
    cbn in H. apply andb_prop in H. destruct H as [Hc Ha].
    cbn. destruct (is_pad c); [discriminate|]. now apply IH.
  Qed.

  (** a padding character followed by a non-padding one, anywhere: ill-formed *)
  Lemma pad_inside_not_wf : forall body p c tl,
    is_pad p = true -> is_pad c = false ->
    pads_only_at_end is_pad (body ++ p :: c :: tl) = false.
  Proof.
    induction body as [|x body IH]; intros p c tl Hp Hc.
    - cbn. rewrite Hp. cbn. rewrite Hc. reflexivity.
    - cbn. destruct (is_pad x) eqn:Hx; [|now apply IH].
      rewrite forallb_app. cbn. rewrite Hc. cbn.
      now rewrite !andb_false_r.
  Qed.

  (** a text made of non-padding characters followed by [k] padding characters (the shape
      the correspondence measures: length, characters from the first '=' on) is well-formed
      iff its length is a multiple of 4 and k <= 2 *)
  Lemma wf_of_shape : forall body p k,
    forallb (fun c => negb (is_pad c)) body = true -> is_pad p = true ->
    b64_wf is_pad (body ++ repeat p k) = ((length body + k) mod 4 =? 0) && (k <=? 2).
  Proof.
    intros body p k Hb Hp. unfold b64_wf. rewrite app_length, repeat_length. f_equal.
    rewrite pads_nonpad_prefix by assumption.
    destruct k as [|k]; [reflexivity|]. cbn [repeat pads_only_at_end]. rewrite Hp.
    rewrite repeat_length.
    assert (E : forallb is_pad (repeat p k) = true).
    { induction k; cbn; [reflexivity|]. now rewrite Hp. }
    rewrite E. reflexivity.
  Qed.
End WfFacts.

(* ------------------------------------------- the payload theorems (abstract codec) *)

Section Payload.
  Variables B C : Type.
  Variable is_pad : C -> bool.
  Variable b64 : list B -> list C.
  Variable unb64 : list C -> list B.
  Variable zl : nat -> list B -> list B.
  Variable unzl : list B -> list B.
  Hypothesis b64_roundtrip : forall x, unb64 (b64 x) = x.
  Hypothesis zl_roundtrip : forall l x, unzl (zl l x) = x.
  Hypothesis b64_wf_h : forall x, b64_wf is_pad (b64 x) = true.

  (** the older hypothesis [length (b64 x) mod 4 = 0] is a consequence *)
  Lemma b64_len4_of_wf : forall x, length (b64 x) mod 4 = 0.
  Proof. intro x. apply wf_len4 with (is_pad := is_pad). apply b64_wf_h. Qed.

  (** iterm2: the payload of each [File=] command is one well-formed base64 text that
      decodes to the image data, and the [size=] key is the decoded length *)
  Lemma iterm2_payload_wf : forall b cols rows konsole (data : list B),
    let (h, p) := iterm2_emit b64 b cols rows konsole data in
    b64_wf is_pad p = true /\ unb64 p = data
    /\ exists rest, h = VLit "size="%string :: VNum (length (unb64 p)) :: rest.
  Proof.
    intros. unfold iterm2_emit. rewrite b64_roundtrip. repeat split; auto.
    destruct b; eexists; reflexivity.
  Qed.

  (** kitty: what the terminal reassembles from the chunks of one transmission is one
      well-formed base64 text, and it decodes (and decompresses) to the data *)
  Lemma kitty_payload_wf : forall size m fmt width height rw rh z level data, 0 < size ->
    let tx := transmit b64 zl size (kitty_ctrl m fmt width height rw rh z level) level data in
    b64_wf is_pad (concat (map (@item_data C) tx)) = true
    /\ receive unb64 unzl tx = data.
  Proof.
    intros. subst tx. split.
    - unfold transmit. rewrite emit_data by assumption. apply b64_wf_h.
    - apply transmit_roundtrip; auto.
  Qed.
End Payload.

(* -------------------------------------------------------------- RFC 4648 itself *)

Lemma list_ind3 : forall (A : Type) (P : list A -> Prop),
  P [] -> (forall a, P [a]) -> (forall a b, P [a; b]) ->
  (forall a b c r, P r -> P (a :: b :: c :: r)) -> forall l, P l.
Proof.
  intros A P H0 H1 H2 H3.
  fix F 1. intro l.
  destruct l as [|a [|b [|c r]]];
    [exact H0 | exact (H1 a) | exact (H2 a b) | exact (H3 a b c r (F r))].
Qed.

Definition bytes (l : list nat) : Prop := Forall (fun b => b < 256) l.

Lemma sext_not_pad : forall c, c < 64 -> is_pad64 c = false /\ sextet c = true.
Proof.
  intros c H. unfold is_pad64, sextet. split.
  - apply Nat.eqb_neq. lia.
  - apply Nat.ltb_lt. lia.
Qed.
Arguments sext_not_pad {c}.

Lemma enc3_sext : forall a b c, a < 256 -> b < 256 -> c < 256 ->
  forall s, In s (enc3 a b c) -> s < 64.
Proof.
  intros a b c Ha Hb Hc s Hs. unfold enc3 in Hs. cbn [In] in Hs.
  destruct Hs as [<-|[<-|[<-|[<-|[]]]]]; dm.
Qed.
Arguments enc3_sext {a b c}.

Lemma dec3_enc3 : forall a b c, a < 256 -> b < 256 -> c < 256 ->
  dec3 (a / 4) ((a mod 4) * 16 + b / 16) ((b mod 16) * 4 + c / 64) (c mod 64) = [a; b; c].
Proof. intros. unfold dec3. f_equal; [|f_equal; [|f_equal]]; dm. Qed.

Lemma dec2_enc2 : forall a b, a < 256 -> b < 256 ->
  dec2 (a / 4) ((a mod 4) * 16 + b / 16) ((b mod 16) * 4) = [a; b].
Proof. intros. unfold dec2. f_equal; [|f_equal]; dm. Qed.

Lemma dec1_enc1 : forall a, a < 256 -> dec1 (a / 4) ((a mod 4) * 16) = [a].
Proof. intros. unfold dec1. f_equal; dm. Qed.

(** strict decoding of the encoding gives the bytes back *)
Lemma dec_enc : forall x, bytes x -> dec (enc x) = Some x.
Proof.
  induction x as [| a | a b | a b c r IH] using list_ind3; intro Hb.
  - reflexivity.
  - inversion Hb; subst. cbn [enc enc1 dec].
    assert (S0 : a / 4 < 64) by dm. assert (S1 : (a mod 4) * 16 < 64) by dm.
    destruct (sext_not_pad S0) as [_ ->]. destruct (sext_not_pad S1) as [_ ->].
    pads. now rewrite dec1_enc1.
  - inversion Hb as [|? ? Ha Hb']; subst. inversion Hb' as [|? ? Hb2 _]; subst.
    cbn [enc enc2 dec].
    assert (S0 : a / 4 < 64) by dm. assert (S1 : (a mod 4) * 16 + b / 16 < 64) by dm.
    assert (S2 : (b mod 16) * 4 < 64) by dm.
    destruct (sext_not_pad S0) as [_ ->]. destruct (sext_not_pad S1) as [_ ->].
    destruct (sext_not_pad S2) as [_ ->].
    pads. now rewrite dec2_enc2.
  - inversion Hb as [|? ? Ha Hb']; subst. inversion Hb' as [|? ? Hb2 Hb'']; subst.
    inversion Hb'' as [|? ? Hc Hr]; subst.
    cbn [enc]. unfold enc3. cbn [app dec].
    assert (S0 : a / 4 < 64) by dm. assert (S1 : (a mod 4) * 16 + b / 16 < 64) by dm.
    assert (S2 : (b mod 16) * 4 + c / 64 < 64) by dm. assert (S3 : c mod 64 < 64) by dm.
    destruct (sext_not_pad S0) as [_ ->]. destruct (sext_not_pad S1) as [_ ->].
    destruct (sext_not_pad S2) as [_ ->]. destruct (sext_not_pad S3) as [_ ->].
    cbn [andb]. rewrite (IH Hr). now rewrite dec3_enc3.
Qed.
Arguments dec_enc {x}.

Lemma enc_length : forall x, length (enc x) = 4 * ((length x + 2) / 3).
Proof.
  induction x as [| a | a b | a b c r IH] using list_ind3; try reflexivity.
  cbn [enc]. rewrite app_length, IH. cbn [enc3 length]. dm.
Qed.

Lemma enc_pads_at_end : forall x, bytes x -> pads_only_at_end is_pad64 (enc x) = true.
Proof.
  induction x as [| a | a b | a b c r IH] using list_ind3; intro Hb.
  - reflexivity.
  - inversion Hb; subst. cbn [enc enc1 pads_only_at_end].
    assert (S0 : a / 4 < 64) by dm. assert (S1 : (a mod 4) * 16 < 64) by dm.
    destruct (sext_not_pad S0) as [-> _]. destruct (sext_not_pad S1) as [-> _]. reflexivity.
  - inversion Hb as [|? ? Ha Hb']; subst. inversion Hb' as [|? ? Hb2 _]; subst.
    cbn [enc enc2 pads_only_at_end].
    assert (S0 : a / 4 < 64) by dm. assert (S1 : (a mod 4) * 16 + b / 16 < 64) by dm.
    assert (S2 : (b mod 16) * 4 < 64) by dm.
    destruct (sext_not_pad S0) as [-> _]. destruct (sext_not_pad S1) as [-> _].
    destruct (sext_not_pad S2) as [-> _]. reflexivity.
  - inversion Hb as [|? ? Ha Hb']; subst. inversion Hb' as [|? ? Hb2 Hb'']; subst.
    inversion Hb'' as [|? ? Hc Hr]; subst.
    cbn [enc]. rewrite pads_nonpad_prefix; [now apply IH|].
    apply forallb_forall. intros s Hs.
    destruct (sext_not_pad (enc3_sext Ha Hb2 Hc s Hs)) as [-> _]. reflexivity.
Qed.
Arguments enc_pads_at_end {x}.

(** the encoding of any byte string is well-formed *)
Lemma enc_wf : forall x, bytes x -> b64_wf is_pad64 (enc x) = true.
Proof.
  intros x Hb. unfold b64_wf. rewrite (enc_pads_at_end Hb), andb_true_r.
  apply Nat.eqb_eq. rewrite enc_length. dm.
Qed.

(** encodings may be concatenated after a whole number of 3-byte groups *)
Lemma enc_app3 : forall a b, length a mod 3 = 0 -> enc (a ++ b) = enc a ++ enc b.
Proof.
  induction a as [| x | x y | x y z r IH] using list_ind3; intros b H.
  - reflexivity.
  - cbn in H. discriminate.
  - cbn in H. discriminate.
  - cbn [length] in H. cbn [app enc]. rewrite <- app_assoc. f_equal. apply IH. dm.
Qed.

(** a byte string that is not a whole number of 3-byte groups encodes with padding at the
    end; a non-empty one starts with a non-padding character *)
Lemma enc_ends_with_pad : forall x, length x mod 3 <> 0 ->
  exists body p, enc x = body ++ [p] /\ is_pad64 p = true.
Proof.
  induction x as [| a | a b | a b c r IH] using list_ind3; intro H.
  - cbn in H. congruence.
  - exists [a / 4; (a mod 4) * 16; pad64], pad64. split; reflexivity.
  - exists [a / 4; (a mod 4) * 16 + b / 16; (b mod 16) * 4], pad64. split; reflexivity.
  - cbn [length] in H. destruct IH as (body & p & E & Hp); [dm|].
    exists (enc3 a b c ++ body), p. cbn [enc]. rewrite E, app_assoc. auto.
Qed.

Lemma enc_starts_nonpad : forall x, bytes x -> x <> [] ->
  exists c r, enc x = c :: r /\ is_pad64 c = false.
Proof.
  intros x Hb Hx. destruct x as [|a x]; [congruence|].
  inversion Hb as [|? ? Ha _]; subst.
  assert (S0 : a / 4 < 64) by dm. destruct (sext_not_pad S0) as [E _].
  destruct x as [|b [|c r]]; eexists; eexists; (split; [reflexivity|exact E]).
Qed.

(* ----------------------------------------------------------------- block-wise *)

Section BlockFacts.
  Variable B : Type.

  Lemma blocks_step : forall f n (l : list B), 0 < n -> l <> [] ->
    blocks (S f) n l = firstn n l :: blocks f n (skipn n l).
  Proof.
    intros f n l Hn Hl. cbn [blocks].
    destruct l as [|x l]; [congruence|]. destruct n as [|n]; [lia|]. reflexivity.
  Qed.

  Lemma blocks_S : forall f n (l : list B),
    blocks (S f) n l
    = match firstn n l with [] => [] | blk => blk :: blocks f n (skipn n l) end.
  Proof. reflexivity. Qed.

  Lemma blocks_nil : forall f n, blocks f n (@nil B) = [].
  Proof. intros [|f] n; [reflexivity|]. cbn. now rewrite firstn_nil. Qed.
End BlockFacts.

(** block size a multiple of 3: block-wise encoding IS the encoding *)
Lemma encode_blocks_fuel : forall n, 0 < n -> n mod 3 = 0 ->
  forall f l, length l <= f -> concat (map enc (blocks f n l)) = enc l.
Proof.
  intros n Hn H3. induction f as [|f IH]; intros l Hl.
  - destruct l; [reflexivity|cbn in Hl; lia].
  - destruct l as [|x l]; [now rewrite blocks_nil|].
    rewrite blocks_step by (auto; congruence). cbn [map concat].
    rewrite IH.
    + destruct (le_lt_dec n (length (x :: l))) as [Hle|Hgt].
      * rewrite <- enc_app3; [now rewrite firstn_skipn|].
        rewrite firstn_length_le by assumption. exact H3.
      * rewrite firstn_all2, skipn_all2 by lia. cbn [enc]. now rewrite app_nil_r.
    + rewrite skipn_length. cbn [length] in *. lia.
Qed.

Lemma encode_blocks_mult3 : forall n l, 0 < n -> n mod 3 = 0 ->
  encode_blocks enc n l = enc l.
Proof. intros. unfold encode_blocks. now apply encode_blocks_fuel. Qed.

(** any other block size: as soon as the data is longer than one block, the first block's
    padding is followed by the next block's characters.  For ANY encoder of the RFC 4648
    shape (padding at the end of a text whose length is not a multiple of 3, no padding at
    the start of a non-empty one). *)
Section Breaks.
  Variables B C : Type.
  Variable is_pad : C -> bool.
  Variable encf : list B -> list C.
  Hypothesis ends_with_pad : forall x, length x mod 3 <> 0 ->
    exists body p, encf x = body ++ [p] /\ is_pad p = true.
  Hypothesis starts_nonpad : forall x, x <> [] ->
    exists c r, encf x = c :: r /\ is_pad c = false.

  Lemma encode_blocks_breaks_wf : forall n (l : list B),
    n mod 3 <> 0 -> n < length l ->
    b64_wf is_pad (encode_blocks encf n l) = false.
  Proof.
    intros n l H3 Hl.
    assert (Hn : 0 < n) by (destruct n; [cbn in H3; congruence | lia]).
    unfold encode_blocks, b64_wf.
    destruct (length l) as [|f] eqn:El; [lia|].
    assert (Hne : l <> []) by (intro; subst; discriminate).
    rewrite blocks_step by assumption. cbn [map concat].
    set (l2 := skipn n l).
    assert (Hl2 : length l2 = S f - n) by (subst l2; now rewrite skipn_length, El).
    assert (Hne2 : l2 <> []) by (intro E; rewrite E in Hl2; cbn [length] in Hl2; lia).
    destruct f as [|f]; [lia|].
    rewrite blocks_step by assumption. cbn [map concat].
    destruct (ends_with_pad (firstn n l)) as (body & p & -> & Hp).
    { rewrite firstn_length_le by lia. exact H3. }
    destruct (starts_nonpad (firstn n l2)) as (c & r & -> & Hc).
    { destruct l2; [congruence|]. destruct n; [lia|]. cbn. congruence. }
    rewrite <- app_assoc. cbn [app].
    rewrite pad_inside_not_wf by assumption. apply andb_false_r.
  Qed.
End Breaks.

(* ----------------------------------------------------- the encoder over bytes *)

Definition enc_b (x : list Byte.byte) : list nat := enc (map Byte.to_nat x).
Definition dec_b (l : list nat) : list Byte.byte :=
  match dec l with
  | Some y => map (fun k => match Byte.of_nat k with Some b => b | None => Byte.x00 end) y
  | None => []
  end.

Lemma bytes_of_byte : forall x, bytes (map Byte.to_nat x).
Proof.
  intro x. apply Forall_forall. intros k Hk. apply in_map_iff in Hk.
  destruct Hk as (b & <- & _). pose proof (Byte.to_nat_bounded b). lia.
Qed.

Lemma dec_enc_b : forall x, dec_b (enc_b x) = x.
Proof.
  intro x. unfold dec_b, enc_b. rewrite (dec_enc (bytes_of_byte x)).
  rewrite map_map. rewrite <- (map_id x) at 2. apply map_ext.
  intro b. now rewrite Byte.of_to_nat.
Qed.

Lemma enc_b_wf : forall x, b64_wf is_pad64 (enc_b x) = true.
Proof. intro x. apply enc_wf, bytes_of_byte. Qed.

(** the hypotheses of the payload theorems are satisfiable — by RFC 4648 on bytes *)
Lemma codec_hyps_satisfiable_rfc4648 :
  exists (is_pad : nat -> bool) (b64 : list Byte.byte -> list nat) unb64,
    (forall x, unb64 (b64 x) = x) /\ (forall x, b64_wf is_pad (b64 x) = true).
Proof. exists is_pad64, enc_b, dec_b. split; [exact dec_enc_b | exact enc_b_wf]. Qed.

Lemma encode_blocks_b_breaks : forall n (l : list Byte.byte),
  n mod 3 <> 0 -> n < length l ->
  b64_wf is_pad64 (encode_blocks enc_b n l) = false.
Proof.
  intros n l. apply encode_blocks_breaks_wf.
  - intros x Hx. apply enc_ends_with_pad. now rewrite map_length.
  - intros x Hx. apply enc_starts_nonpad; [apply bytes_of_byte|].
    destruct x; [congruence|discriminate].
Qed.

(** block-wise encoding with a block size that is not a multiple of 3 does NOT satisfy the
    encoder hypothesis of the C03 theorems *)
Lemma blockwise_excluded : forall n, n mod 3 <> 0 ->
  ~ (forall x, b64_wf is_pad64 (encode_blocks enc_b n x) = true).
Proof.
  intros n H3 H. specialize (H (repeat Byte.x00 (S n))).
  rewrite encode_blocks_b_breaks in H; [discriminate|assumption|].
  rewrite repeat_length. lia.
Qed.

Lemma mib_mod3 : 2 ^ 20 mod 3 = 1.
Proof. vm_compute. reflexivity. Qed.

(** 1 MiB blocks: every payload of more than 2^20 bytes is ill-formed *)
Lemma mib_blocks_excluded : forall l : list Byte.byte, 2 ^ 20 < length l ->
  b64_wf is_pad64 (encode_blocks enc_b (2 ^ 20) l) = false.
Proof. intros l H. apply encode_blocks_b_breaks; [rewrite mib_mod3; lia|assumption]. Qed.

(** ... and fine with blocks of 3 * 2^18 bytes, or any multiple of 3 *)
Lemma blocks_mult3_b : forall k l, 0 < k -> encode_blocks enc_b (3 * k) l = enc_b l.
Proof.
  intros k l Hk. unfold enc_b, encode_blocks.
  rewrite <- (encode_blocks_mult3 (3 * k) (map Byte.to_nat l)); [|lia|dm].
  unfold encode_blocks. rewrite map_length. f_equal.
  generalize (length l) as f. intro f. revert l.
  induction f as [|f IH]; intro l; [reflexivity|].
  rewrite !blocks_S, firstn_map, skipn_map.
  destruct (firstn (3 * k) l) eqn:E; [reflexivity|].
  cbn [map]. rewrite <- IH. reflexivity.
Qed.

Lemma b64_rfc4648_all :
  (forall x, Forall (fun b => b < 256) x -> dec (enc x) = Some x)
  /\ (forall x, Forall (fun b => b < 256) x -> b64_wf is_pad64 (enc x) = true)
  /\ exists (is_pad : nat -> bool) (b64 : list Byte.byte -> list nat) unb64,
       (forall x, unb64 (b64 x) = x) /\ (forall x, b64_wf is_pad (b64 x) = true).
Proof. exact (conj (@dec_enc) (conj enc_wf codec_hyps_satisfiable_rfc4648)). Qed.

Lemma blockwise_excluded_all :
  (forall n, n mod 3 <> 0 -> ~ (forall x, b64_wf is_pad64 (encode_blocks enc_b n x) = true))
  /\ (forall l : list Byte.byte, 2 ^ 20 < length l ->
        b64_wf is_pad64 (encode_blocks enc_b (2 ^ 20) l) = false)
  /\ (forall k l, 0 < k -> encode_blocks enc_b (3 * k) l = enc_b l).
Proof. exact (conj blockwise_excluded (conj mib_blocks_excluded blocks_mult3_b)). Qed.

(* ------------------------------------------------------------------ examples *)

Import Byte.

(** "hello" in blocks of 4 bytes: "aGVsbA==" ++ "bw==" — padding in the middle; a strict
    decoder rejects it, and it is not the encoding of "hello" ("aGVsbG8=") *)
Example blockwise_example :
  let x := [x68; x65; x6c; x6c; x6f] in
  enc_b x = [26; 6; 21; 44; 27; 6; 60; 64]
  /\ dec (enc_b x) = Some [104; 101; 108; 108; 111]
  /\ b64_wf is_pad64 (enc_b x) = true
  /\ encode_blocks enc_b 4 x = [26; 6; 21; 44; 27; 0; 64; 64; 27; 48; 64; 64]
  /\ b64_wf is_pad64 (encode_blocks enc_b 4 x) = false
  /\ dec (encode_blocks enc_b 4 x) = None
  /\ encode_blocks enc_b 3 x = enc_b x.
Proof. vm_compute. repeat split; reflexivity. Qed.
