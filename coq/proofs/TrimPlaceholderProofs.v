(** * TrimPlaceholderProofs — rows announced = rows rendered, ALSO when rendering fails and the
    error placeholder is shown (C17) *)
From Coq Require Import List ZArith Bool Lia.
Import ListNotations.
From TI Require Import model.Trim model.TrimCanvas model.TrimPlaceholder proofs.TrimCalc proofs.TrimProofs.
Open Scope Z_scope.

(** FLOW use.  Whenever [render((maxcol,))] returns a canvas — the image's, or ANY
    placeholder's, whether or not rendering failed — it is [maxcol] columns wide and has exactly
    the rows [rows((maxcol,))] announces. *)
Theorem rows_agree_placeholder maxcol upscale fit ori fails ph c r :
  render_outcome [maxcol] upscale fit ori fails ph = Canvas c r ->
  c = maxcol /\ r = rows upscale fit ori.
Proof.
  unfold render_outcome, settled_size, flow_canvas_size. rewrite (rows_agree maxcol).
  unfold flow_canvas_size. cbn [snd].
  destruct fails; [destruct ph as [p|]; [unfold ph_render; destruct (ph_box p)|]|];
    intros E; inversion E; auto.
Qed.

(** … and a canvas IS returned when rendering succeeds, or fails with a placeholder installed
    that accepts a box size *)
Theorem flow_render_with_box_placeholder maxcol upscale fit ori fails ph :
  (fails = true -> exists p, ph = Some p /\ ph_box p = true) ->
  render_outcome [maxcol] upscale fit ori fails ph = Canvas maxcol (rows upscale fit ori).
Proof.
  intros Hp. unfold render_outcome, settled_size. rewrite (rows_agree maxcol).
  unfold flow_canvas_size. cbn [fst snd].
  destruct fails; [|reflexivity]. destruct (Hp eq_refl) as (p & -> & Hb).
  unfold ph_render. rewrite Hb. reflexivity.
Qed.

Theorem render_rows_agree maxcol upscale fit ori fails ph :
  (fails = true -> exists p, ph = Some p /\ ph_box p = true) ->
  render_rows [maxcol] upscale fit ori fails ph = Some (rows upscale fit ori).
Proof.
  intros Hp. unfold render_rows. rewrite flow_render_with_box_placeholder by exact Hp. reflexivity.
Qed.

(** BOX use: a returned canvas has exactly the requested size *)
Theorem box_render_size c0 r0 upscale fit ori fails ph c r :
  render_outcome [c0; r0] upscale fit ori fails ph = Canvas c r -> c = c0 /\ r = r0.
Proof.
  unfold render_outcome, settled_size.
  destruct fails; [destruct ph as [p|]; [unfold ph_render; destruct (ph_box p)|]|];
    intros E; inversion E; auto.
Qed.

(** a render raises only when rendering the image failed and no placeholder accepting a box size
    is installed (flow and box use) *)
Theorem render_raises_only_without_box_placeholder size upscale fit ori fails ph :
  (length size = 1 \/ length size = 2)%nat ->
  render_outcome size upscale fit ori fails ph = Raised ->
  fails = true /\ (ph = None \/ exists p, ph = Some p /\ ph_box p = false).
Proof.
  intros Hl. unfold render_outcome, settled_size.
  destruct size as [|a [|b [|x y]]]; cbn in Hl; try lia;
    (destruct fails; [|unfold flow_canvas_size; discriminate]);
    (destruct ph as [p|]; [|auto]);
    unfold flow_canvas_size, ph_render; destruct (ph_box p) eqn:E; try discriminate; eauto.
Qed.

(** in EVERY environment ([_valid_size] evaluated in the environment current at the call) *)
Theorem rows_agree_placeholder_in (env : Type) (valid_size : env -> option Z -> Z * Z) e upscale maxcol
        fails ph c r :
  render_outcome [maxcol] upscale (valid_size e (Some maxcol)) (valid_size e None) fails ph = Canvas c r ->
  c = maxcol /\ r = rows_in env valid_size e upscale maxcol.
Proof. apply rows_agree_placeholder. Qed.

(** ** the excluded design is refuted: the placeholder handed the size urwid passed in.
    A 30-column flow widget whose image would take 15 rows; a placeholder that accepts both
    kinds of size and is 2 rows high on its own; a placeholder that only accepts a box size *)
Definition ex_ph_both : phw := {| ph_box := true; ph_flow := fun _ => Some 2 |}.
Definition ex_ph_boxonly : phw := {| ph_box := true; ph_flow := fun _ => None |}.

Example flowsize_placeholder_refuted :
  rows false (30, 15) (40, 20) = 15
  /\ render_outcome [30] false (30, 15) (40, 20) true (Some ex_ph_both) = Canvas 30 15
  /\ render_outcome [30] false (30, 15) (40, 20) true (Some ex_ph_boxonly) = Canvas 30 15
  (* the excluded design: 2 rows rendered for 15 announced; a box-only placeholder raises *)
  /\ render_outcome_flowsize [30] false (30, 15) (40, 20) true (Some ex_ph_both) = Canvas 30 2
  /\ render_outcome_flowsize [30] false (30, 15) (40, 20) true (Some ex_ph_boxonly) = Raised
  (* … and it cannot be told from the code's design on successful renders or in box use *)
  /\ render_outcome_flowsize [30] false (30, 15) (40, 20) false (Some ex_ph_both)
     = render_outcome [30] false (30, 15) (40, 20) false (Some ex_ph_both)
  /\ render_outcome_flowsize [30; 7] false (0, 0) (0, 0) true (Some ex_ph_both)
     = render_outcome [30; 7] false (0, 0) (0, 0) true (Some ex_ph_both).
Proof. repeat split; vm_compute; reflexivity. Qed.
