(** C11 — the two-phase generator of model/ImgIter.v refines the history-level
    specification model/ImgIterSpec.v; consequences. *)
From Coq Require Import List ZArith Bool Arith Lia.
Import ListNotations.
From TI Require Import model.ImgIter model.ImgIterSpec.

Set Implicit Arguments.
Local Open Scope Z_scope.

Section Refinement.
  Variables Str Size : Type.
  Variable fmt_frame : nat -> Size -> res Str.
  Variable hash : Size -> Z.
  Variable N : nat.
  Variable cached : bool.
  Variable sizes : list Size.          (* the sizes the image takes during the history *)

  (** n_frames >= 1; the renderer raises EOFError exactly when asked for frame n_frames
      (never for a real frame); the size hash separates the sizes that occur *)
  Hypothesis HN : (1 <= N)%nat.
  Hypothesis Heof : forall z, fmt_frame N z = Eof.
  Hypothesis Hnoeof : forall k z, (k < N)%nat -> fmt_frame k z <> Eof.
  Hypothesis Hinj : forall a b, In a sizes -> In b sizes -> hash a = hash b -> a = b.

  Notation st := (st Str Size).
  Notation sp := (sp Size).
  Notation step := (step fmt_frame hash N cached).
  Notation sstep := (sstep fmt_frame N).

  Definition cache_ok (c : list (option (Str * Z))) : Prop :=
    forall k f h, nth k c None = Some (f, h) ->
                  exists z, In z sizes /\ h = hash z /\ fmt_frame k z = Ok f.

  Definition Inv (s : st) : Prop :=
    In (size s) sizes /\
    match ph s with
    | P0 => n s = 0 /\ loop_no s = None /\ rep s <> 0
    | P1 => rep s <> 0 /\ -1 <= n s < Z.of_nat N /\ loop_no s = Some (rep s)
            /\ (cached = true -> length (cache s) = N /\ cache_ok (cache s))
    | P2 => cached = true /\ rep s <> 0 /\ -1 <= n s < Z.of_nat N /\ loop_no s = Some (rep s)
            /\ length (cache s) = N /\ cache_ok (cache s)
    | PEnd => True
    end.

  Definition R (s : st) (a : sp) : Prop :=
    spos a = pos s /\ ssize a = size s /\ sloop a = loop_no s /\
    match ph s with
    | P0 => started a = false /\ closed a = false /\ left a = rep s /\ nxt a = 0%nat
    | P1 | P2 => started a = true /\ closed a = false /\ left a = rep s
                 /\ nxt a = Z.to_nat (n s + 1)
    | PEnd => closed a = true
    end.

  (* ---------------------------------------------------------------- cache *)

  Lemma upd_length : forall A k (v : A) l, length (upd k v l) = length l.
  Proof. induction k; destruct l; simpl; auto. Qed.

  Lemma nth_upd_same : forall A k (v d : A) l, (k < length l)%nat -> nth k (upd k v l) d = v.
  Proof. induction k; destruct l; simpl; intros; try lia; auto. apply IHk. lia. Qed.

  Lemma nth_upd_other : forall A k j (v d : A) l, j <> k -> nth j (upd k v l) d = nth j l d.
  Proof.
    induction k; destruct l; simpl; intros; auto.
    - destruct j; [congruence|reflexivity].
    - destruct j; [reflexivity|]. apply IHk. congruence.
  Qed.

  Lemma cache_ok_upd : forall c k f z, cache_ok c -> In z sizes -> fmt_frame k z = Ok f ->
    cache_ok (upd k (Some (f, hash z)) c).
  Proof.
    intros c k f z Hc Hz Hf j f' h' Hn.
    destruct (Nat.eq_dec j k) as [->|Hjk].
    - destruct (Nat.lt_ge_cases k (length c)) as [Hlt|Hge].
      + rewrite nth_upd_same in Hn by assumption. inversion Hn; subst. eauto.
      + rewrite nth_overflow in Hn by (rewrite upd_length; lia). discriminate.
    - rewrite nth_upd_other in Hn by assumption. eauto.
  Qed.

  Lemma cache_ok_repeat : forall m, cache_ok (repeat None m).
  Proof.
    intros m k f h H. exfalso. revert k H. induction m; destruct k; simpl; intros; try discriminate; eauto.
  Qed.

  Lemma cache_ok_nil : cache_ok [].
  Proof. intros k f h H. destruct k; discriminate. Qed.

  (** a cache hit returns what rendering would return *)
  Lemma cache_hit : forall c k f h z, cache_ok c -> In z sizes ->
    nth k c None = Some (f, h) -> hash z = h -> fmt_frame k z = Ok f.
  Proof.
    intros c k f h z Hc Hz Hn Hh. destruct (Hc _ _ _ Hn) as (z' & Hz' & -> & Hf).
    now rewrite (Hinj Hz Hz' Hh).
  Qed.
End Refinement.
