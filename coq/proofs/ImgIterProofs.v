(** C11 — the two-phase generator of model/ImgIter.v refines the history-level
    specification model/ImgIterSpec.v (forward simulation, induction over the history);
    consequences.  Lemmas only; the theorems are restated in props/C11.v. *)
From Coq Require Import List ZArith Bool Arith Lia.
Import ListNotations.
From TI Require Import model.ImgIter model.ImgIterSpec.

Set Implicit Arguments.
Local Open Scope Z_scope.

Section Refinement.
  Variables Str Size : Type.
  Variable fmt_frame : nat -> Size -> res Str.
  Variable hash : Size -> Z.
  Variable N : nat.
  Variable cached : bool.
  Variable sizes : list Size.          (* the sizes the image takes during the history *)

  (** n_frames >= 1; the renderer raises EOFError exactly when asked for frame n_frames
      (never for a real frame); when frames are cached, the size hash separates the sizes
      that occur *)
  Hypothesis HN : (1 <= N)%nat.
  Hypothesis Heof : forall z, fmt_frame N z = Eof.
  Hypothesis Hnoeof : forall k z, (k < N)%nat -> fmt_frame k z <> Eof.
  Hypothesis Hinj : cached = true ->
    forall a b, In a sizes -> In b sizes -> hash a = hash b -> a = b.

  Notation st := (st Str Size).
  Notation sp := (sp Size).
  Notation step := (step fmt_frame hash N cached).
  Notation sstep := (sstep fmt_frame N).
  Notation p1_run := (p1_run fmt_frame hash N cached).
  Notation p2_inner := (p2_inner fmt_frame hash N).
  Notation p2_outer := (p2_outer fmt_frame hash N).
  Notation produce := (produce fmt_frame).
  Notation trace := (trace fmt_frame hash N cached).
  Notation strace := (strace fmt_frame N).
  Notation run := (run fmt_frame hash N cached).
  Notation srun := (srun fmt_frame N).

  Definition cache_ok (c : list (option (Str * Z))) : Prop :=
    forall k f h, nth k c None = Some (f, h) ->
                  exists z, In z sizes /\ h = hash z /\ fmt_frame k z = Ok f.

  Definition cache_fine (s : st) : Prop := length (cache s) = N /\ cache_ok (cache s).

  Definition Inv (s : st) : Prop :=
    In (size s) sizes /\
    match ph s with
    | P0 => n s = 0 /\ loop_no s = None /\ rep s <> 0 /\ img_open s = true
    | P1 => rep s <> 0 /\ -1 <= n s < Z.of_nat N /\ loop_no s = Some (rep s) /\ img_open s = true
            /\ (cached = true -> cache_fine s)
    | P2 => cached = true /\ rep s <> 0 /\ -1 <= n s < Z.of_nat N /\ loop_no s = Some (rep s)
            /\ img_open s = true /\ cache_fine s
    | PEnd => img_open s = false
    end.

  Definition R (s : st) (a : sp) : Prop :=
    spos a = pos s /\ ssize a = size s /\ sloop a = loop_no s /\
    match ph s with
    | P0 => started a = false /\ closed a = false /\ left a = rep s /\ nxt a = 0%nat
    | P1 | P2 => started a = true /\ closed a = false /\ left a = rep s
                 /\ nxt a = Z.to_nat (n s + 1)
    | PEnd => closed a = true
    end.

  (** the outcomes agree and the successor states are related again *)
  Definition simres (r : st * outcome Str) (q : sp * outcome Str) : Prop :=
    snd r = snd q /\ Inv (fst r) /\ R (fst r) (fst q).

  (* ---------------------------------------------------------------- cache *)

  Lemma upd_length : forall A k (v : A) l, length (upd k v l) = length l.
  Proof. induction k; destruct l; simpl; auto. Qed.

  Lemma nth_upd_same : forall A k (v d : A) l, (k < length l)%nat -> nth k (upd k v l) d = v.
  Proof. induction k; destruct l; simpl; intros; try lia; auto. apply IHk. lia. Qed.

  Lemma nth_upd_other : forall A k j (v d : A) l, j <> k -> nth j (upd k v l) d = nth j l d.
  Proof.
    induction k; destruct l; simpl; intros; auto.
    - destruct j; [congruence|reflexivity].
    - destruct j; [reflexivity|]. apply IHk. congruence.
  Qed.

  Lemma cache_ok_upd : forall c k f z, cache_ok c -> In z sizes -> fmt_frame k z = Ok f ->
    cache_ok (upd k (Some (f, hash z)) c).
  Proof.
    intros c k f z Hc Hz Hf j f' h' Hn.
    destruct (Nat.eq_dec j k) as [->|Hjk].
    - destruct (Nat.lt_ge_cases k (length c)) as [Hlt|Hge].
      + rewrite nth_upd_same in Hn by assumption. inversion Hn; subst. eauto.
      + rewrite nth_overflow in Hn by (rewrite upd_length; lia). discriminate.
    - rewrite nth_upd_other in Hn by assumption. eauto.
  Qed.

  Lemma cache_ok_repeat : forall m, cache_ok (repeat None m).
  Proof.
    intros m k f h H. exfalso. revert k H. induction m; destruct k; simpl; intros; try discriminate; eauto.
  Qed.

  Lemma cache_ok_nil : cache_ok [].
  Proof. intros k f h H. destruct k; discriminate. Qed.

  (** a cache hit returns what rendering would return *)
  Lemma cache_hit : forall c k f h z, cached = true -> cache_ok c -> In z sizes ->
    nth k c None = Some (f, h) -> hash z = h -> fmt_frame k z = Ok f.
  Proof.
    intros c k f h z Hca Hc Hz Hn Hh. destruct (Hc _ _ _ Hn) as (z' & Hz' & -> & Hf).
    now rewrite (Hinj Hca Hz Hz' Hh).
  Qed.

  (* ------------------------------------------------- producing one frame *)

  (** the generator is at the head of one of its loops, about to produce frame [n s] *)
  Definition ready (s : st) : Prop :=
    rep s <> 0 /\ 0 <= n s < Z.of_nat N /\ loop_no s = Some (rep s) /\ img_open s = true
    /\ In (size s) sizes.

  Lemma to_nat_lt : forall v, 0 <= v < Z.of_nat N -> (Z.to_nat v < N)%nat.
  Proof. intros. lia. Qed.

  Lemma p1_lt_sim : forall fuel s a,
    ready s -> (cached = true -> cache_fine s) -> ssize a = size s ->
    simres (p1_run fuel s) (produce a (Z.to_nat (n s)) (rep s)).
  Proof.
    intros fuel s a (Hr & Hn & Hl & Hio & Hz) Hc Ha.
    assert (Hk := to_nat_lt Hn).
    assert (E : p1_run fuel s =
      match fmt_frame (Z.to_nat (n s)) (size s) with
      | Ok f => (set_ph (if cached then set_cache (set_pos s (n s))
                                        (upd (Z.to_nat (n s)) (Some (f, hash (size s))) (cache s))
                         else set_pos s (n s)) P1, OYield (Z.to_nat (n s)) f)
      | Eof => p1_run fuel s
      | Err => raise (set_pos s (n s))
      end).
    { destruct fuel; simpl; destruct (rep s =? 0) eqn:E0; try (apply Z.eqb_eq in E0; contradiction);
        destruct (fmt_frame (Z.to_nat (n s)) (size s)); reflexivity. }
    rewrite E. clear E. unfold produce. rewrite Ha.
    destruct (fmt_frame (Z.to_nat (n s)) (size s)) as [f| |] eqn:Ef.
    - (* a frame *)
      unfold simres. split; [reflexivity|]. split.
      + unfold Inv. destruct cached eqn:Ec; simpl.
        * split; [assumption|]. repeat split; simpl; try lia; try assumption.
          -- rewrite upd_length. apply Hc; reflexivity.
          -- apply cache_ok_upd; auto. apply Hc; reflexivity.
        * split; [assumption|]. repeat split; try lia; try assumption; discriminate.
      + unfold R. destruct cached; simpl; repeat split; try lia; try congruence.
    - exfalso. exact (Hnoeof Hk Ef).
    - (* the renderer fails: the iterator closes *)
      unfold simres, raise. simpl. split; [reflexivity|]. split.
      + unfold Inv. simpl. auto.
      + unfold R. simpl. repeat split; try lia; congruence.
  Qed.

  Lemma p2_lt_sim : forall fuel s a,
    cached = true -> ready s -> cache_fine s -> ssize a = size s ->
    simres (p2_inner fuel s) (produce a (Z.to_nat (n s)) (rep s)).
  Proof.
    intros fuel s a Hca (Hr & Hn & Hl & Hio & Hz) (Hlen & Hok) Ha.
    assert (Hk := to_nat_lt Hn).
    set (k := Z.to_nat (n s)) in *.
    set (rer := match fmt_frame k (size s) with
                | Ok f => (set_ph (set_cache (set_pos s (n s)) (upd k (Some (f, hash (size s))) (cache s))) P2,
                           OYield k f)
                | _ => raise (set_pos s (n s))
                end).
    assert (E : p2_inner fuel s =
      match nth k (cache s) None with
      | Some (f, h) => if Z.eqb (hash (size s)) h then (set_ph (set_pos s (n s)) P2, OYield k f) else rer
      | None => rer
      end).
    { destruct fuel; simpl; destruct (n s <? Z.of_nat N) eqn:E0; try (apply Z.ltb_ge in E0; lia); reflexivity. }
    rewrite E. clear E.
    assert (Hrer : simres rer (produce a k (rep s))).
    { unfold rer, produce. rewrite Ha.
      destruct (fmt_frame k (size s)) as [f| |] eqn:Ef.
      - unfold simres. split; [reflexivity|]. split.
        + unfold Inv. simpl. split; [assumption|]. repeat split; simpl; try lia; try assumption.
          * rewrite upd_length. assumption.
          * apply cache_ok_upd; auto.
        + unfold R. simpl. repeat split; try lia; try congruence.
      - exfalso. exact (Hnoeof Hk Ef).
      - unfold simres, raise. simpl. split; [reflexivity|]. split.
        + unfold Inv. simpl. auto.
        + unfold R. simpl. repeat split; try lia; congruence. }
    destruct (nth k (cache s) None) as [[f h]|] eqn:En; [|exact Hrer].
    destruct (Z.eqb (hash (size s)) h) eqn:Eh; [|exact Hrer].
    apply Z.eqb_eq in Eh.
    (* a cache hit: the stored frame is what rendering at the current size gives *)
    assert (Hf : fmt_frame k (size s) = Ok f) by (eapply cache_hit; eauto).
    unfold produce. rewrite Ha, Hf. unfold simres. split; [reflexivity|]. split.
    - unfold Inv. simpl. split; [assumption|]. repeat split; try lia; assumption.
    - unfold R. simpl. repeat split; try lia; congruence.
  Qed.

  (* --------------------------------------------------- the end of a pass *)

  (** the state after the end-of-pass bookkeeping (2168-2170 / 2198-2200) *)
  Lemma wrap_fields : forall s : st,
    n (wrap s) = 0 /\ pos (wrap s) = 0 /\ size (wrap s) = size s /\ cache (wrap s) = cache s
    /\ img_open (wrap s) = img_open s /\ ph (wrap s) = ph s
    /\ rep (wrap s) = (if 0 <? rep s then rep s - 1 else rep s)
    /\ (loop_no s = Some (rep s) -> loop_no (wrap s) = Some (rep (wrap s))).
  Proof.
    intros s. unfold wrap. simpl. repeat split; auto.
    intros H. destruct (0 <? rep s); auto.
  Qed.

  Definition stop_state (a : sp) : sp :=
    {| started := true; closed := true; nxt := 0; left := 0; spos := 0; ssize := ssize a;
       sloop := Some 0 |}.

  Lemma finish_sim : forall s a,
    rep s = 0 -> pos s = 0 -> loop_no s = Some 0 -> ssize a = size s -> In (size s) sizes ->
    simres (finish s) (stop_state a, OStop).
  Proof.
    intros s a Hr Hp Hl Ha Hz. unfold simres, finish, stop_state. simpl. split; [reflexivity|]. split.
    - unfold Inv. simpl. auto.
    - unfold R. simpl. repeat split; congruence.
  Qed.

  (** what the specification does on [Next] when the pass is over *)
  Lemma sstep_next_wrap : forall a : sp,
    closed a = false -> nxt a = N ->
    sstep a Next =
      let l := if 0 <? left a then left a - 1 else left a in
      if l =? 0 then ({| started := true; closed := true; nxt := 0; left := l; spos := 0;
                         ssize := ssize a; sloop := Some l |}, OStop)
      else produce a 0%nat l.
  Proof.
    intros a Hc Hn. unfold ImgIterSpec.sstep. rewrite Hc, Hn.
    rewrite Nat.ltb_irrefl. reflexivity.
  Qed.

  Lemma sstep_next_lt : forall a : sp,
    closed a = false -> (nxt a < N)%nat -> sstep a Next = produce a (nxt a) (left a).
  Proof.
    intros a Hc Hn. unfold ImgIterSpec.sstep. rewrite Hc.
    apply Nat.ltb_lt in Hn. rewrite Hn. reflexivity.
  Qed.

  (** first loop, the renderer has just raised EOFError at frame [N] *)
  Lemma p1_eof_sim : forall fuel s a,
    rep s <> 0 -> n s = Z.of_nat N -> loop_no s = Some (rep s) -> img_open s = true ->
    In (size s) sizes -> (cached = true -> cache_fine s) ->
    ssize a = size s -> closed a = false -> nxt a = N -> left a = rep s ->
    simres (p1_run (S fuel) s) (sstep a Next).
  Proof.
    intros fuel s a Hr Hn Hl Hio Hz Hc Ha Hcl Hnx Hle.
    rewrite sstep_next_wrap by assumption. cbv zeta. rewrite Hle.
    simpl. destruct (rep s =? 0) eqn:E0; [apply Z.eqb_eq in E0; contradiction|].
    rewrite Hn, Nat2Z.id, Heof.
    set (s1 := set_pos s (Z.of_nat N)).
    destruct (wrap_fields s1) as (Wn & Wp & Wz & Wc & Wio & Wph & Wr & Wl).
    assert (Hl1 : loop_no s1 = Some (rep s1)) by exact Hl.
    specialize (Wl Hl1). change (rep s1) with (rep s) in Wr.
    change (size s1) with (size s) in Wz. change (cache s1) with (cache s) in Wc.
    change (img_open s1) with (img_open s) in Wio.
    rewrite <- Wr.
    assert (Hready : rep (wrap s1) <> 0 -> ready (wrap s1)).
    { intros H. unfold ready. rewrite Wn, Wz, Wio. repeat split; try assumption; lia. }
    assert (Hfin : rep (wrap s1) = 0 -> simres (finish (wrap s1))
              ({| started := true; closed := true; nxt := 0; left := rep (wrap s1); spos := 0;
                  ssize := ssize a; sloop := Some (rep (wrap s1)) |}, OStop)).
    { intros H. rewrite H. apply finish_sim; try congruence. }
    destruct (Bool.bool_dec cached true) as [Eca|Eca]; [|apply not_true_is_false in Eca].
    - (* break: second loop *)
      match goal with |- context [if cached then ?X else ?Y] =>
        replace (if cached then X else Y) with X by (rewrite Eca; reflexivity) end.
      unfold ImgIter.p2_outer. destruct (rep (wrap s1) =? 0) eqn:E1.
      + apply Z.eqb_eq in E1. apply Hfin; assumption.
      + apply Z.eqb_neq in E1.
        replace 0%nat with (Z.to_nat (n (wrap s1))) by (rewrite Wn; reflexivity).
        apply p2_lt_sim; auto; try congruence;
          try (unfold cache_fine; rewrite Wc; apply Hc; reflexivity).
    - (* continue: first loop again *)
      match goal with |- context [if cached then ?X else ?Y] =>
        replace (if cached then X else Y) with Y by (rewrite Eca; reflexivity) end.
      assert (E : p1_run fuel (wrap s1) =
                  if rep (wrap s1) =? 0 then finish (wrap s1) else p1_run fuel (wrap s1)).
      { generalize (wrap s1). intros w. destruct fuel; simpl; destruct (rep w =? 0); reflexivity. }
      rewrite E. clear E.
      destruct (rep (wrap s1) =? 0) eqn:E1.
      + apply Z.eqb_eq in E1. apply Hfin; assumption.
      + apply Z.eqb_neq in E1.
        replace 0%nat with (Z.to_nat (n (wrap s1))) by (rewrite Wn; reflexivity).
        apply p1_lt_sim; auto; try congruence.
  Qed.

  (** second loop, past the last frame *)
  Lemma p2_end_sim : forall fuel s a,
    cached = true -> rep s <> 0 -> n s = Z.of_nat N -> loop_no s = Some (rep s) -> img_open s = true ->
    In (size s) sizes -> cache_fine s ->
    ssize a = size s -> closed a = false -> nxt a = N -> left a = rep s ->
    simres (p2_inner (S fuel) s) (sstep a Next).
  Proof.
    intros fuel s a Hca Hr Hn Hl Hio Hz Hc Ha Hcl Hnx Hle.
    rewrite sstep_next_wrap by assumption. cbv zeta. rewrite Hle.
    simpl. destruct (n s <? Z.of_nat N) eqn:E0; [apply Z.ltb_lt in E0; lia|].
    destruct (wrap_fields s) as (Wn & Wp & Wz & Wc & Wio & Wph & Wr & Wl).
    specialize (Wl Hl). rewrite <- Wr.
    destruct (rep (wrap s) =? 0) eqn:E1.
    - apply Z.eqb_eq in E1. rewrite E1. apply finish_sim; congruence.
    - apply Z.eqb_neq in E1.
      replace 0%nat with (Z.to_nat (n (wrap s))) by (rewrite Wn; reflexivity).
      apply p2_lt_sim; auto; try congruence;
        try (unfold cache_fine; rewrite Wc; exact Hc).
      unfold ready. rewrite Wn, Wz, Wio. repeat split; try assumption; lia.
  Qed.

  (* -------------------------------------------------------- one operation *)

  Definition op_ok (o : op Size) : Prop :=
    match o with SetImageSize z => In z sizes | _ => True end.

  Lemma fuel_of_S : forall s : st, exists fu, fuel_of s = S fu.
  Proof. intros s. unfold fuel_of. eauto. Qed.

  Lemma step_sim : forall s a o, Inv s -> R s a -> op_ok o -> simres (step s o) (sstep a o).
  Proof.
    intros s a o (Hz & HI) (Rp & Rz & Rl & RR) Hok.
    destruct o as [|p| | |z].
    - (* Next *)
      unfold ImgIter.step. destruct (ph s) eqn:Eph.
      + (* not started: 2151-2159 *)
        destruct HI as (Hn & Hl & Hr & Hio). destruct RR as (Rs & Rc & Rle & Rn).
        rewrite sstep_next_lt by (try assumption; lia). rewrite Rn, Rle.
        match goal with |- simres (p1_run ?f ?s0) _ => set (s0' := s0); set (f0 := f) end.
        replace 0%nat with (Z.to_nat (n s0')) by reflexivity.
        change (rep s) with (rep s0').
        apply p1_lt_sim.
        * unfold ready, s0'. simpl. repeat split; try assumption; lia.
        * intros Hca. unfold cache_fine, s0'. simpl. rewrite Hca. split.
          -- apply repeat_length.
          -- apply cache_ok_repeat.
        * exact Rz.
      + (* first loop *)
        destruct HI as (Hr & Hn & Hl & Hio & Hc). destruct RR as (Rs & Rc & Rle & Rn).
        destruct (fuel_of_S s) as (fu & ->).
        destruct (Z.eq_dec (n s + 1) (Z.of_nat N)) as [E|E].
        * apply p1_eof_sim; simpl; auto. rewrite Rn, E. apply Nat2Z.id.
        * rewrite sstep_next_lt by (try assumption; lia). rewrite Rn, Rle.
          change (n s + 1) with (n (set_n s (n s + 1))) at 2.
          change (rep s) with (rep (set_n s (n s + 1))).
          apply p1_lt_sim; simpl; auto.
          unfold ready. simpl. repeat split; try assumption; lia.
      + (* second loop *)
        destruct HI as (Hca & Hr & Hn & Hl & Hio & Hc). destruct RR as (Rs & Rc & Rle & Rn).
        destruct (fuel_of_S s) as (fu & ->).
        destruct (Z.eq_dec (n s + 1) (Z.of_nat N)) as [E|E].
        * apply p2_end_sim; simpl; auto. rewrite Rn, E. apply Nat2Z.id.
        * rewrite sstep_next_lt by (try assumption; lia). rewrite Rn, Rle.
          change (n s + 1) with (n (set_n s (n s + 1))) at 2.
          change (rep s) with (rep (set_n s (n s + 1))).
          apply p2_lt_sim; simpl; auto.
          unfold ready. simpl. repeat split; try assumption; lia.
      + (* exhausted or closed *)
        unfold ImgIterSpec.sstep. rewrite RR. unfold simres. simpl. split; [reflexivity|]. split.
        * unfold Inv. rewrite Eph. auto 12.
        * unfold R. rewrite Eph. auto 12.
    - (* Seek *)
      unfold ImgIter.step, ImgIterSpec.sstep.
      destruct (negb ((0 <=? p) && (p <? Z.of_nat N))) eqn:Erange.
      + unfold simres. simpl. split; [reflexivity|]. split; [split; assumption|].
        unfold R. auto 12.
      + apply negb_false_iff, andb_true_iff in Erange. destruct Erange as (E1 & E2).
        apply Z.leb_le in E1. apply Z.ltb_lt in E2.
        destruct (ph s) eqn:Eph.
        * destruct RR as (Rs & Rc & Rle & Rn). rewrite Rc, Rs.
          unfold simres. simpl. split; [reflexivity|]. split.
          -- unfold Inv. rewrite Eph. auto 12.
          -- unfold R. rewrite Eph. auto 12.
        * destruct HI as (Hr & Hn & Hl & Hio & Hc). destruct RR as (Rs & Rc & Rle & Rn).
          rewrite Rc, Rs. unfold simres. simpl. split; [reflexivity|]. split.
          -- unfold Inv. simpl. rewrite Eph. split; [assumption|].
             split; [assumption|]. split; [lia|]. split; [assumption|]. split; [assumption|]. exact Hc.
          -- unfold R. simpl. rewrite Eph. repeat split; try assumption. f_equal. lia.
        * destruct HI as (Hca & Hr & Hn & Hl & Hio & Hc). destruct RR as (Rs & Rc & Rle & Rn).
          rewrite Rc, Rs. unfold simres. simpl. split; [reflexivity|]. split.
          -- unfold Inv. simpl. rewrite Eph. split; [assumption|].
             split; [assumption|]. split; [assumption|]. split; [lia|]. split; [assumption|].
             split; [assumption|]. exact Hc.
          -- unfold R. simpl. rewrite Eph. repeat split; try assumption. f_equal. lia.
        * rewrite RR. unfold simres. simpl. split; [reflexivity|]. split.
          -- unfold Inv. rewrite Eph. auto 12.
          -- unfold R. rewrite Eph. auto 12.
    - (* Close *)
      unfold simres. simpl. split; [reflexivity|]. split.
      + unfold Inv. simpl. auto.
      + unfold R. simpl. auto 12.
    - (* Drop *)
      unfold simres. simpl. split; [reflexivity|]. split.
      + unfold Inv. simpl. auto.
      + unfold R. simpl. auto 12.
    - (* the image's size is changed *)
      unfold simres. simpl. split; [reflexivity|]. split.
      + unfold Inv. simpl. split; [exact Hok|]. destruct (ph s); auto.
      + unfold R. simpl. split; [assumption|]. split; [reflexivity|]. split; [assumption|].
        destruct (ph s); exact RR.
  Qed.

  (* -------------------------------------------------------- all histories *)

  Lemma Inv_img_open : forall s a, Inv s -> R s a -> img_open s = negb (closed a).
  Proof.
    intros s a (_ & HI) (_ & _ & _ & RR). destruct (ph s).
    - destruct HI as (_ & _ & _ & ->). destruct RR as (_ & -> & _). reflexivity.
    - destruct HI as (_ & _ & _ & -> & _). destruct RR as (_ & -> & _). reflexivity.
    - destruct HI as (_ & _ & _ & _ & -> & _). destruct RR as (_ & -> & _). reflexivity.
    - rewrite HI, RR. reflexivity.
  Qed.

  Lemma trace_sim : forall ops s a, Inv s -> R s a -> Forall op_ok ops -> trace s ops = strace a ops.
  Proof.
    induction ops as [|o ops IH]; intros s a HI HR Hok; [reflexivity|].
    inversion Hok as [|? ? Ho Hops]; subst.
    pose proof (step_sim o HI HR Ho) as (Hout & HI' & HR').
    simpl. destruct (step s o) as [s1 x]. destruct (sstep a o) as [a1 y]. simpl in *.
    subst y. destruct HR' as (Hp & Hsz & Hl & HRR).
    rewrite (Inv_img_open HI' (conj Hp (conj Hsz (conj Hl HRR)))), Hp, Hl.
    f_equal. apply IH; auto. repeat split; assumption.
  Qed.

  Lemma run_sim : forall ops s a, Inv s -> R s a -> Forall op_ok ops ->
    Inv (fst (run s ops)) /\ R (fst (run s ops)) (srun a ops).
  Proof.
    induction ops as [|o ops IH]; intros s a HI HR Hok; [simpl; auto|].
    inversion Hok as [|? ? Ho Hops]; subst.
    pose proof (step_sim o HI HR Ho) as (Hout & HI' & HR').
    simpl. destruct (step s o) as [s1 x]. simpl in *.
    specialize (IH s1 (fst (sstep a o)) HI' HR' Hops).
    destruct (run s1 ops) as [s2 xs]. exact IH.
  Qed.

  Lemma init_Inv : forall repeat pos0 z, repeat <> 0 -> In z sizes -> Inv (init Str repeat pos0 z).
  Proof. intros. unfold Inv, init. simpl. auto. Qed.

  Lemma init_R : forall repeat pos0 z, R (init Str repeat pos0 z) (sinit repeat pos0 z).
  Proof. intros. unfold R, init, sinit. simpl. auto 10. Qed.

  (** the state reached by any history, with its specification counterpart *)
  Lemma reach_sim : forall repeat pos0 z ops,
    repeat <> 0 -> In z sizes -> Forall op_ok ops ->
    Inv (fst (run (init Str repeat pos0 z) ops)) /\
    R (fst (run (init Str repeat pos0 z) ops)) (srun (sinit repeat pos0 z) ops).
  Proof. intros. apply run_sim; auto using init_Inv, init_R. Qed.

  (* ------------------------------------------ facts about the specification *)

  Lemma produce_yield : forall (a a' : sp) k l j f,
    produce a k l = (a', OYield j f) ->
    j = k /\ spos a' = Z.of_nat k /\ fmt_frame k (ssize a) = Ok f /\ closed a' = false
    /\ sloop a' = Some l /\ ssize a' = ssize a.
  Proof.
    intros a a' k l j f. unfold ImgIterSpec.produce.
    destruct (fmt_frame k (ssize a)) eqn:E; intros H; inversion H; subst; simpl; auto 10.
  Qed.

  Lemma sstep_yield : forall (a a' : sp) o k f,
    sstep a o = (a', OYield k f) ->
    o = Next /\ (k < N)%nat /\ spos a' = Z.of_nat k /\ fmt_frame k (ssize a) = Ok f /\ closed a' = false.
  Proof.
    intros a a' o k f. destruct o as [|p| | |z]; simpl.
    - destruct (closed a); [discriminate|].
      destruct (nxt a <? N)%nat eqn:E.
      + intros H. apply produce_yield in H. destruct H as (-> & ? & ? & ? & _).
        apply Nat.ltb_lt in E. auto.
      + destruct (_ =? 0); [discriminate|].
        intros H. apply produce_yield in H. destruct H as (-> & ? & ? & ? & _).
        repeat split; auto; lia.
    - destruct (negb _); [discriminate|]. destruct (closed a); [discriminate|].
      destruct (started a); discriminate.
    - discriminate.
    - discriminate.
    - discriminate.
  Qed.

  Lemma sstep_no_hang : forall (a : sp) o, snd (sstep a o) <> OHang.
  Proof.
    intros a o. destruct o as [|p| | |z]; simpl; try discriminate.
    - destruct (closed a); [discriminate|].
      assert (P : forall k l, snd (produce a k l) <> OHang).
      { intros k l. unfold ImgIterSpec.produce. destruct (fmt_frame k (ssize a)); discriminate. }
      destruct (nxt a <? N)%nat; [apply P|]. destruct (_ =? 0); [discriminate|apply P].
    - destruct (negb _); [discriminate|]. destruct (closed a); [discriminate|].
      destruct (started a); discriminate.
  Qed.

  (** exhaustion in the specification: the pass counter has reached zero *)
  Lemma sstep_stop_open : forall (a a' : sp),
    closed a = false -> sstep a Next = (a', OStop) ->
    spos a' = 0 /\ sloop a' = Some 0 /\ closed a' = true.
  Proof.
    intros a a' Hc. simpl. rewrite Hc.
    assert (P : forall k l, produce a k l <> (a', OStop)).
    { intros k l. unfold ImgIterSpec.produce. destruct (fmt_frame k (ssize a)); discriminate. }
    destruct (nxt a <? N)%nat; [intros H; elim (P _ _ H)|].
    destruct (_ =? 0) eqn:E; [|intros H; elim (P _ _ H)].
    apply Z.eqb_eq in E. intros H. inversion H; subst; simpl. rewrite E. auto.
  Qed.

  (* ---------------------------------------- consequences, state by state *)

  (** a yielded frame is the direct formatting of that frame at the image's current size,
      and its number is the image's seek position; no other operation moves the position *)
  Lemma yield_sim : forall s a o s' k f,
    Inv s -> R s a -> op_ok o -> step s o = (s', OYield k f) ->
    o = Next /\ (k < N)%nat /\ pos s' = Z.of_nat k /\ fmt_frame k (size s) = Ok f /\ img_open s' = true.
  Proof.
    intros s a o s' k f HI HR Ho E.
    pose proof (step_sim o HI HR Ho) as (Hout & HI' & HR'). rewrite E in *. simpl in *.
    destruct (sstep a o) as [a' y] eqn:Es. simpl in *. subst y.
    destruct (sstep_yield _ _ Es) as (-> & Hk & Hp & Hf & Hc).
    destruct HR as (_ & Rz & _). rewrite Rz in Hf.
    rewrite (Inv_img_open HI' HR'), Hc. destruct HR' as (Rp & _). repeat split; auto. congruence.
  Qed.

  Lemma other_ops_keep_position : forall (s : st) o, o <> Next -> pos (fst (step s o)) = pos s.
  Proof.
    intros s o Ho. destruct o as [|p| | |z]; try contradiction; simpl; auto.
    destruct (negb _); [reflexivity|]. destruct (ph s); reflexivity.
  Qed.

  (** no history makes the generator spin *)
  Lemma no_hang_sim : forall s a o, Inv s -> R s a -> op_ok o -> snd (step s o) <> OHang.
  Proof.
    intros s a o HI HR Ho. pose proof (step_sim o HI HR Ho) as (Hout & _).
    rewrite Hout. apply sstep_no_hang.
  Qed.

  (** where [OStop] / [ORaise] come from in the generator: the iterator has been closed, the
      image handed to [_close_image]; a regular end has sought the source image to 0 *)
  Lemma p2_inner_ends : forall fuel s s' x, p2_inner fuel s = (s', x) ->
    (x = OStop -> ph s' = PEnd /\ img_open s' = false /\ src_reset s' = true) /\
    (x = ORaise -> ph s' = PEnd /\ img_open s' = false).
  Proof.
    induction fuel as [|fu IH]; intros s s' x; simpl.
    - destruct (n s <? Z.of_nat N).
      + destruct (nth _ (cache s) None) as [[f h]|]; [destruct (_ =? h)|];
          try destruct (fmt_frame _ (size s)); intros H; inversion H; subst; simpl;
          split; intros; try discriminate; auto.
      + destruct (_ =? 0); intros H; inversion H; subst; simpl; split; intros; try discriminate; auto.
    - destruct (n s <? Z.of_nat N).
      + destruct (nth _ (cache s) None) as [[f h]|]; [destruct (_ =? h)|];
          try destruct (fmt_frame _ (size s)); intros H; inversion H; subst; simpl;
          split; intros; try discriminate; auto.
      + destruct (_ =? 0); [intros H; inversion H; subst; simpl; split; intros; try discriminate; auto|].
        apply IH.
  Qed.

  Lemma p1_run_ends : forall fuel s s' x, p1_run fuel s = (s', x) ->
    (x = OStop -> ph s' = PEnd /\ img_open s' = false /\ src_reset s' = true) /\
    (x = ORaise -> ph s' = PEnd /\ img_open s' = false).
  Proof.
    assert (Fin : forall (s s' : st) x, finish s = (s', x) ->
      (x = OStop -> ph s' = PEnd /\ img_open s' = false /\ src_reset s' = true) /\
      (x = ORaise -> ph s' = PEnd /\ img_open s' = false)).
    { intros s s' x H. inversion H; subst; simpl. split; intros; try discriminate; auto. }
    assert (P2 : forall fuel s s' x, p2_outer fuel s = (s', x) ->
      (x = OStop -> ph s' = PEnd /\ img_open s' = false /\ src_reset s' = true) /\
      (x = ORaise -> ph s' = PEnd /\ img_open s' = false)).
    { intros fuel s s' x. unfold ImgIter.p2_outer. destruct (_ =? 0); [apply Fin|apply p2_inner_ends]. }
    induction fuel as [|fu IH]; intros s s' x; simpl.
    - destruct (_ =? 0); [apply Fin|].
      destruct (fmt_frame _ (size s)).
      + intros H; inversion H; subst. split; intros; discriminate.
      + destruct cached; [apply P2|]. intros H; inversion H; subst. split; intros; discriminate.
      + intros H; inversion H; subst; simpl. split; intros; try discriminate; auto.
    - destruct (_ =? 0); [apply Fin|].
      destruct (fmt_frame _ (size s)).
      + intros H; inversion H; subst. split; intros; discriminate.
      + destruct cached; [apply P2|apply IH].
      + intros H; inversion H; subst; simpl. split; intros; try discriminate; auto.
  Qed.

  Lemma step_ends : forall (s s' : st) o x, step s o = (s', x) -> ph s <> PEnd ->
    (x = OStop -> ph s' = PEnd /\ img_open s' = false /\ src_reset s' = true) /\
    (x = ORaise -> ph s' = PEnd /\ img_open s' = false).
  Proof.
    intros s s' o x. destruct o as [|p| | |z]; [unfold ImgIter.step|simpl..].
    - destruct (ph s); try (intros H _; revert H; first [apply p1_run_ends | apply p2_inner_ends]).
      intros _ H. contradiction.
    - destruct (negb _); [|destruct (ph s)]; intros H _; inversion H; subst; split; intros; discriminate.
    - intros H _; inversion H; subst; split; intros; discriminate.
    - intros H _; inversion H; subst; split; intros; discriminate.
    - intros H _; inversion H; subst; split; intros; discriminate.
  Qed.

  (** exhaustion: position 0, countdown 0, source image sought to 0, image closed *)
  Lemma exhaustion_sim : forall s a s',
    Inv s -> R s a -> ph s <> PEnd -> step s Next = (s', OStop) ->
    pos s' = 0 /\ loop_no s' = Some 0 /\ src_reset s' = true /\ ph s' = PEnd /\ img_open s' = false.
  Proof.
    intros s a s' HI HR Hph E.
    destruct (step_ends _ _ E Hph) as (Hs & _). destruct (Hs eq_refl) as (? & ? & ?).
    pose proof (step_sim Next HI HR I) as Hsim. rewrite E in Hsim.
    destruct (sstep a Next) as [a' y] eqn:Es. destruct Hsim as (Hout & HI' & HR').
    cbn [fst snd] in *. subst y.
    assert (Hc : closed a = false).
    { destruct HR as (_ & _ & _ & RR). destruct (ph s); try tauto; destruct RR as (_ & ? & _); assumption. }
    destruct (sstep_stop_open _ Hc Es) as (Sp & Sl & _).
    destruct HR' as (Rp & _ & Rl & _). repeat split; auto; congruence.
  Qed.

  (** seek(p) on a started, open iterator: the next frame is frame p at the current size;
      the position and the countdown are left alone by the seek itself and the countdown
      also by the frame that follows *)
  Lemma seek_sim : forall s a p,
    Inv s -> R s a -> (ph s = P1 \/ ph s = P2) -> 0 <= p < Z.of_nat N ->
    let s1 := fst (step s (Seek p)) in
    let r2 := step s1 Next in
    snd (step s (Seek p)) = OSeekOk /\ pos s1 = pos s /\ loop_no s1 = loop_no s /\
    loop_no (fst r2) = loop_no s /\ pos (fst r2) = p /\
    snd r2 = match fmt_frame (Z.to_nat p) (size s) with
             | Ok f => OYield (Z.to_nat p) f
             | _ => ORaise
             end.
  Proof.
    intros s a p HI HR Hph Hp.
    assert (Hrange : negb ((0 <=? p) && (p <? Z.of_nat N)) = false).
    { apply negb_false_iff, andb_true_iff. split; [apply Z.leb_le|apply Z.ltb_lt]; lia. }
    assert (Em : step s (Seek p) = (set_n s (p - 1), OSeekOk)).
    { simpl. rewrite Hrange. destruct Hph as [-> | ->]; reflexivity. }
    destruct HR as (Rp & Rz & Rl & RR).
    assert (Hst : started a = true /\ closed a = false /\ left a = rep s).
    { destruct Hph as [E|E]; rewrite E in RR; tauto. }
    destruct Hst as (Hst & Hcl & Hle).
    assert (Hll : loop_no s = Some (rep s)).
    { destruct HI as (_ & HI'). destruct Hph as [E|E]; rewrite E in HI'; tauto. }
    set (a1 := {| started := true; closed := false; nxt := Z.to_nat p; left := left a; spos := spos a;
                  ssize := ssize a; sloop := sloop a |}).
    assert (Es : sstep a (Seek p) = (a1, OSeekOk)).
    { simpl. rewrite Hrange, Hcl, Hst. reflexivity. }
    assert (Es2 : sstep a1 Next = produce a1 (Z.to_nat p) (left a)).
    { rewrite sstep_next_lt; simpl; auto. lia. }
    pose proof (step_sim (Seek p) HI (conj Rp (conj Rz (conj Rl RR))) I) as Hs1.
    rewrite Em, Es in Hs1. destruct Hs1 as (_ & HI1 & HR1). cbn [fst snd] in HI1, HR1.
    pose proof (step_sim Next HI1 HR1 I) as Hs2. rewrite Es2 in Hs2.
    rewrite Em. cbn [fst snd].
    destruct (step (set_n s (p - 1)) Next) as [s2 x2].
    destruct Hs2 as (Hout2 & _ & HR2). cbn [fst snd] in *.
    destruct HR2 as (Rp2 & _ & Rl2 & _).
    unfold ImgIterSpec.produce in *. change (ssize a1) with (ssize a) in *. rewrite Rz in *.
    destruct (fmt_frame (Z.to_nat p) (size s)); cbn [fst snd spos sloop] in *;
      (split; [reflexivity|]); (split; [reflexivity|]); (split; [reflexivity|]);
      repeat split; try congruence; try lia.
  Qed.

  (* ------------------------------------- an iterator that has ended stays so *)

  Notation ended_view := (ended_view Str N).

  Lemma ended_forever : forall ops (s : st),
    ph s = PEnd -> img_open s = false -> trace s ops = map (ended_view (pos s) (loop_no s)) ops.
  Proof.
    induction ops as [|o ops IH]; intros s Hph Hio; [reflexivity|].
    simpl. destruct o as [|p| | |z]; simpl.
    - rewrite Hph. simpl. rewrite Hio. f_equal. apply IH; assumption.
    - unfold ImgIterSpec.ended_view, in_range. destruct ((0 <=? p) && (p <? Z.of_nat N)); simpl.
      + rewrite Hph. simpl. rewrite Hio. f_equal. apply IH; assumption.
      + rewrite Hio. f_equal. apply IH; assumption.
    - f_equal. apply (IH (end_it s)); reflexivity.
    - f_equal. apply (IH (end_it s)); reflexivity.
    - rewrite Hio. f_equal. apply (IH (set_size s z)); assumption.
  Qed.

  Lemma close_final : forall (s : st) o ops, o = Close \/ o = Drop ->
    trace s (o :: ops) = (OClosed, pos s, loop_no s, false) :: map (ended_view (pos s) (loop_no s)) ops.
  Proof.
    intros s o ops [-> | ->]; simpl; f_equal; apply (ended_forever ops (end_it s)); reflexivity.
  Qed.
End Refinement.

(* ====================================================================== *)
(** * The theorems, for every history *)

Section Main.
  Variables Str Size : Type.
  Variable fmt_frame : nat -> Size -> res Str.
  Variable hash : Size -> Z.
  Variable N : nat.

  Notation trace := (trace fmt_frame hash N).
  Notation strace := (strace fmt_frame N).
  Notation run := (run fmt_frame hash N).
  Notation step := (step fmt_frame hash N).

  Lemma ops_in_sizes_of : forall z0 (ops : list (op Size)), Forall (op_ok (sizes_of z0 ops)) ops.
  Proof.
    intros z0 ops. apply Forall_forall. intros o Ho. destruct o; simpl; auto.
    right. apply in_flat_map. exists (SetImageSize z). simpl. auto.
  Qed.

  Lemma z0_in_sizes_of : forall z0 (ops : list (op Size)), In z0 (sizes_of z0 ops).
  Proof. intros. left. reflexivity. Qed.

  (** THE REFINEMENT: whatever the history, what the generator lets its caller see
      (outcome of every operation incl. the frame yielded, image.tell(), loop_no, image
      still open) is what the specification says *)
  Lemma imgiter_refines_spec : forall cached repeat pos0 z0 ops,
    renderer_ok fmt_frame N -> repeat <> 0 ->
    (cached = true -> hash_separates hash (sizes_of z0 ops)) ->
    trace cached (init Str repeat pos0 z0) ops = strace (sinit repeat pos0 z0) ops.
  Proof.
    intros cached repeat pos0 z0 ops (HN & He & Hne) Hr Hh.
    apply (@trace_sim Str Size fmt_frame hash N cached (sizes_of z0 ops) HN He Hne Hh).
    - apply init_Inv; auto using z0_in_sizes_of.
    - apply init_R.
    - apply ops_in_sizes_of.
  Qed.

  (** C09 for image iterators: the cache cannot be observed *)
  Lemma imgiter_cache_transparent : forall repeat pos0 z0 ops,
    renderer_ok fmt_frame N -> repeat <> 0 -> hash_separates hash (sizes_of z0 ops) ->
    trace true (init Str repeat pos0 z0) ops = trace false (init Str repeat pos0 z0) ops.
  Proof.
    intros. rewrite !imgiter_refines_spec; auto; discriminate.
  Qed.

  Lemma reach : forall cached repeat pos0 z0 ops,
    renderer_ok fmt_frame N -> repeat <> 0 ->
    (cached = true -> hash_separates hash (sizes_of z0 ops)) ->
    Inv fmt_frame hash N cached (sizes_of z0 ops) (fst (run cached (init Str repeat pos0 z0) ops)) /\
    R (fst (run cached (init Str repeat pos0 z0) ops)) (srun fmt_frame N (sinit repeat pos0 z0) ops).
  Proof.
    intros cached repeat pos0 z0 ops (HN & He & Hne) Hr Hh.
    apply (@reach_sim Str Size fmt_frame hash N cached (sizes_of z0 ops) HN He Hne Hh); auto using z0_in_sizes_of, ops_in_sizes_of.
  Qed.

  Lemma sizes_of_app_incl : forall z0 (ops : list (op Size)) o a,
    In a (sizes_of z0 ops) -> In a (sizes_of z0 (ops ++ [o])).
  Proof.
    intros z0 ops o a [H|H]; [left; assumption|right].
    rewrite flat_map_app. apply in_or_app. auto.
  Qed.

  Lemma Inv_mono : forall cached (l l' : list Size) s,
    (forall a, In a l -> In a l') -> (cached = true -> hash_separates hash l') ->
    Inv fmt_frame hash N cached l s -> Inv fmt_frame hash N cached l' s.
  Proof.
    intros cached l l' s Hincl _ (Hz & HI). split; [auto|].
    assert (Hc : forall c, cache_ok fmt_frame hash l c -> cache_ok fmt_frame hash l' c).
    { intros c Hc k f h Hn. destruct (Hc k f h Hn) as (z & ? & ? & ?). eauto. }
    assert (Hf : cache_fine fmt_frame hash N l s -> cache_fine fmt_frame hash N l' s).
    { intros (? & ?). split; auto. }
    destruct (ph s); auto.
    - destruct HI as (? & ? & ? & ? & ?). auto 10.
    - destruct HI as (? & ? & ? & ? & ? & ?). auto 10.
  Qed.

  (** the state [s] reached by history [ops], one more operation [o] *)
  Section AfterHistory.
    Variables (cached : bool) (repeat pos0 : Z) (z0 : Size) (ops : list (op Size)) (o : op Size).
    Hypothesis Hrend : renderer_ok fmt_frame N.
    Hypothesis Hrep : repeat <> 0.
    Hypothesis Hhash : cached = true -> hash_separates hash (sizes_of z0 (ops ++ [o])).

    Let s := fst (run cached (init Str repeat pos0 z0) ops).
    Let a := srun fmt_frame N (sinit repeat pos0 z0) ops.
    Let zs := sizes_of z0 (ops ++ [o]).

    Lemma reach_Inv : Inv fmt_frame hash N cached zs s /\ R s a /\ op_ok zs o.
    Proof.
      assert (Hh' : cached = true -> hash_separates hash (sizes_of z0 ops)).
      { intros Hc x y Hx Hy. apply (Hhash Hc); apply sizes_of_app_incl; assumption. }
      destruct (@reach cached repeat pos0 z0 ops Hrend Hrep Hh') as (HI & HR).
      split; [|split; [exact HR|]].
      - eapply Inv_mono; [|exact Hhash|exact HI]. intros x. apply sizes_of_app_incl.
      - pose proof (ops_in_sizes_of z0 (ops ++ [o])) as F. rewrite Forall_forall in F.
        apply F. apply in_or_app. right. left. reflexivity.
    Qed.

    (** the number of the last yielded frame is the image's seek position, the frame is the
        direct formatting of that frame at the image's current size; operations other than
        [next] leave the position alone *)
    Lemma seek_position_tracks_last_yield_gen :
      (forall s' k f, step cached s o = (s', OYield k f) ->
         o = Next /\ (k < N)%nat /\ pos s' = Z.of_nat k /\ fmt_frame k (size s) = Ok f /\ img_open s' = true)
      /\ (o <> Next -> pos (fst (step cached s o)) = pos s).
    Proof.
      destruct Hrend as (HN & He & Hne). destruct reach_Inv as (HI & HR & Ho). split.
      - intros s' k f E. exact (@yield_sim Str Size fmt_frame hash N cached zs HN He Hne Hhash s a o s' k f HI HR Ho E).
      - apply other_ops_keep_position.
    Qed.

    (** when [next] first reports the end: position 0, countdown 0, the source PIL image
        sought to frame 0, the iterator closed and its image handed to [_close_image] *)
    Lemma exhaustion_resets_to_zero_gen : forall s',
      o = Next -> ph s <> PEnd -> step cached s Next = (s', OStop) ->
      pos s' = 0 /\ loop_no s' = Some 0 /\ src_reset s' = true /\ ph s' = PEnd /\ img_open s' = false.
    Proof.
      intros s' Eo Hph E. destruct Hrend as (HN & He & Hne). destruct reach_Inv as (HI & HR & _).
      exact (@exhaustion_sim Str Size fmt_frame hash N cached zs HN He Hne Hhash s a s' HI HR Hph E).
    Qed.

    (** a failing frame closes the iterator and its image *)
    Lemma failure_closes_gen : forall s',
      ph s <> PEnd -> step cached s o = (s', ORaise) -> ph s' = PEnd /\ img_open s' = false.
    Proof.
      intros s' Hph E. destruct (@step_ends Str Size fmt_frame hash N cached zs Hhash s s' o ORaise E Hph) as (_ & H). exact (H eq_refl).
    Qed.

    (** the generator never spins without yielding *)
    Lemma never_hangs_gen : snd (step cached s o) <> OHang.
    Proof.
      destruct Hrend as (HN & He & Hne). destruct reach_Inv as (HI & HR & Ho).
      exact (@no_hang_sim Str Size fmt_frame hash N cached zs HN He Hne Hhash s a o HI HR Ho).
    Qed.

    (** seek(p) on a started, open iterator replaces the index of the next frame and does
        not consume a pass *)
    Lemma seek_replaces_next_index_gen : forall p,
      o = Seek p -> (ph s = P1 \/ ph s = P2) -> 0 <= p < Z.of_nat N ->
      let s1 := fst (step cached s (Seek p)) in
      let r2 := step cached s1 Next in
      snd (step cached s (Seek p)) = OSeekOk /\ pos s1 = pos s /\ loop_no s1 = loop_no s /\
      loop_no (fst r2) = loop_no s /\ pos (fst r2) = p /\
      snd r2 = match fmt_frame (Z.to_nat p) (size s) with
               | Ok f => OYield (Z.to_nat p) f
               | _ => ORaise
               end.
    Proof.
      intros p Eo Hph Hp. destruct Hrend as (HN & He & Hne). destruct reach_Inv as (HI & HR & _).
      exact (@seek_sim Str Size fmt_frame hash N cached zs HN He Hne Hhash s a p HI HR Hph Hp).
    Qed.
  End AfterHistory.

  Notation after := (after fmt_frame hash N).

  Lemma hash_sep_snoc : forall z0 (ops : list (op Size)) o,
    (forall z, o <> SetImageSize z) ->
    hash_separates hash (sizes_of z0 ops) -> hash_separates hash (sizes_of z0 (ops ++ [o])).
  Proof.
    intros z0 ops o Ho H x y Hx Hy.
    assert (G : forall a, In a (sizes_of z0 (ops ++ [o])) -> In a (sizes_of z0 ops)).
    { intros a0 [Ha|Ha]; [left; assumption|right]. rewrite flat_map_app in Ha.
      apply in_app_or in Ha. destruct Ha as [Ha|Ha]; [assumption|].
      destruct o; simpl in Ha; try contradiction. elim (Ho z). reflexivity. }
    apply H; apply G; assumption.
  Qed.

  (** the number of the last yielded frame is the image's seek position; the frame is the
      direct formatting of that frame at the image's current size; the iterator's image
      stays open; operations other than next() leave the position alone *)
  Lemma seek_position_tracks_last_yield : forall cached repeat pos0 z0 ops o,
    renderer_ok fmt_frame N -> repeat <> 0 ->
    (cached = true -> hash_separates hash (sizes_of z0 (ops ++ [o]))) ->
    let s := after cached repeat pos0 z0 ops in
    (forall s' k f, step cached s o = (s', OYield k f) ->
       o = Next /\ (k < N)%nat /\ pos s' = Z.of_nat k /\ fmt_frame k (size s) = Ok f /\ img_open s' = true)
    /\ (o <> Next -> pos (fst (step cached s o)) = pos s).
  Proof. intros. apply seek_position_tracks_last_yield_gen; assumption. Qed.

  (** when next() first reports the end: position 0, countdown 0, the source PIL image
      sought to frame 0, the iterator closed and its image handed to [_close_image] *)
  Lemma exhaustion_resets_to_zero : forall cached repeat pos0 z0 ops s',
    renderer_ok fmt_frame N -> repeat <> 0 ->
    (cached = true -> hash_separates hash (sizes_of z0 ops)) ->
    let s := after cached repeat pos0 z0 ops in
    ph s <> PEnd -> step cached s Next = (s', OStop) ->
    pos s' = 0 /\ loop_no s' = Some 0 /\ src_reset s' = true /\ ph s' = PEnd /\ img_open s' = false.
  Proof.
    intros cached repeat pos0 z0 ops s' Hr Hrep Hh s Hph E.
    apply (@exhaustion_resets_to_zero_gen cached repeat pos0 z0 ops Next); auto.
    intros Hc. apply hash_sep_snoc; auto. discriminate.
  Qed.

  (** a failing frame closes the iterator and its image *)
  Lemma failure_closes : forall cached repeat pos0 z0 ops o s',
    let s := after cached repeat pos0 z0 ops in
    ph s <> PEnd -> step cached s o = (s', ORaise) -> ph s' = PEnd /\ img_open s' = false.
  Proof.
    intros cached repeat pos0 z0 ops o s' s Hph E.
    destruct (@step_ends Str Size fmt_frame hash N cached [] (fun _ _ _ H => match H with end) s s' o ORaise E Hph)
      as (_ & H).
    exact (H eq_refl).
  Qed.

  (** the generator never spins without yielding *)
  Lemma never_hangs : forall cached repeat pos0 z0 ops o,
    renderer_ok fmt_frame N -> repeat <> 0 ->
    (cached = true -> hash_separates hash (sizes_of z0 (ops ++ [o]))) ->
    snd (step cached (after cached repeat pos0 z0 ops) o) <> OHang.
  Proof. intros. apply never_hangs_gen; assumption. Qed.

  (** seek(p) on a started, open iterator replaces the index of the next frame and does not
      consume a pass: position and countdown are unchanged by the seek, the next frame is
      frame p formatted at the current size, and the countdown is still the same *)
  Lemma seek_replaces_next_index : forall cached repeat pos0 z0 ops p,
    renderer_ok fmt_frame N -> repeat <> 0 ->
    (cached = true -> hash_separates hash (sizes_of z0 ops)) ->
    let s := after cached repeat pos0 z0 ops in
    (ph s = P1 \/ ph s = P2) -> 0 <= p < Z.of_nat N ->
    let s1 := fst (step cached s (Seek p)) in
    let r2 := step cached s1 Next in
    snd (step cached s (Seek p)) = OSeekOk /\ pos s1 = pos s /\ loop_no s1 = loop_no s /\
    loop_no (fst r2) = loop_no s /\ pos (fst r2) = p /\
    snd r2 = match fmt_frame (Z.to_nat p) (size s) with
             | Ok f => OYield (Z.to_nat p) f
             | _ => ORaise
             end.
  Proof.
    intros cached repeat pos0 z0 ops p Hr Hrep Hh s Hph Hp.
    apply (@seek_replaces_next_index_gen cached repeat pos0 z0 ops (Seek p)); auto.
    intros Hc. apply hash_sep_snoc; auto. discriminate.
  Qed.

  (** close() / deletion: from then on nothing is rendered, nothing moves *)
  Lemma close_is_final : forall cached (s : st Str Size) o ops, o = Close \/ o = Drop ->
    trace cached s (o :: ops) =
    (OClosed, pos s, loop_no s, false) :: map (ended_view Str N (pos s) (loop_no s)) ops.
  Proof. intros. apply close_final; assumption. Qed.

  (** the same after exhaustion or a failure *)
  Lemma ended_is_final : forall cached (s : st Str Size) ops,
    ph s = PEnd -> img_open s = false ->
    trace cached s ops = map (ended_view Str N (pos s) (loop_no s)) ops.
  Proof. intros. apply ended_forever; assumption. Qed.

  (* ------------------------------------------ plain iteration, pass by pass *)

  Section Frames.
    Variable F : nat -> Str.
    Variable z0 : Size.
    Hypothesis HN : (1 <= N)%nat.
    Hypothesis HF : forall k, (k < N)%nat -> fmt_frame k z0 = Ok (F k).

    Notation sp := (sp Size).
    Notation sstep := (sstep fmt_frame N).
    Notation srun := (srun fmt_frame N).

    Lemma strace_app : forall ops1 ops2 (a : sp),
      strace a (ops1 ++ ops2) = strace a ops1 ++ strace (srun a ops1) ops2.
    Proof.
      induction ops1 as [|o ops1 IH]; intros ops2 a; [reflexivity|].
      simpl. destruct (sstep a o) as [a1 x] eqn:E. simpl. f_equal. apply IH.
    Qed.

    (** inside a pass: frames j, j+1, .., N-1 *)
    Lemma rest_of_pass : forall m j (a : sp),
      (j + m = N)%nat -> closed a = false -> nxt a = j -> ssize a = z0 ->
      strace a (repeat Next m) =
        map (fun k => (OYield k (F k), Z.of_nat k, Some (left a), true)) (seq j m)
      /\ closed (srun a (repeat Next m)) = false /\ nxt (srun a (repeat Next m)) = N
      /\ left (srun a (repeat Next m)) = left a /\ ssize (srun a (repeat Next m)) = z0.
    Proof.
      induction m as [|m IH]; intros j a Hj Hc Hn Hz.
      - simpl. repeat split; auto. lia.
      - assert (E : sstep a Next =
          ({| started := true; closed := false; nxt := S j; left := left a; spos := Z.of_nat j;
              ssize := z0; sloop := Some (left a) |}, OYield j (F j))).
        { simpl. rewrite Hc. replace (nxt a <? N)%nat with true by (symmetry; apply Nat.ltb_lt; lia).
          unfold produce. rewrite Hn, Hz, HF by lia. reflexivity. }
        simpl repeat. cbn [strace ImgIterSpec.strace srun ImgIterSpec.srun]. rewrite E. cbn [fst snd].
        destruct (IH (S j) {| started := true; closed := false; nxt := S j; left := left a;
                              spos := Z.of_nat j; ssize := z0; sloop := Some (left a) |})
          as (T & H1 & H2 & H3 & H4); try reflexivity; try lia.
        cbn [left] in T, H3. rewrite T. simpl. repeat split; auto.
    Qed.

    Lemma closed_stops : forall m (b : sp), closed b = true ->
      strace b (repeat Next m) = repeat (OStop, spos b, sloop b, false) m.
    Proof.
      induction m as [|m IH]; intros b Hb; [reflexivity|].
      simpl. rewrite Hb. cbn [fst snd]. rewrite Hb. simpl. f_equal. apply IH. assumption.
    Qed.

    Lemma seq_S_pred : seq 0 N = 0%nat :: seq 1 (N - 1).
    Proof. destruct N as [|n']; [lia|]. simpl. rewrite Nat.sub_0_r. reflexivity. Qed.

    (** at the end of a pass, or before the first frame, when the coming pass shows [l] on
        the countdown: one full pass *)
    Lemma full_pass : forall (a : sp) l,
      closed a = false -> ssize a = z0 -> l <> 0 ->
      (nxt a = 0%nat /\ left a = l \/
       nxt a = N /\ (if 0 <? left a then left a - 1 else left a) = l) ->
      strace a (repeat Next N) = pass_frames N F l
      /\ closed (srun a (repeat Next N)) = false /\ nxt (srun a (repeat Next N)) = N
      /\ left (srun a (repeat Next N)) = l /\ ssize (srun a (repeat Next N)) = z0.
    Proof.
      intros a l Hc Hz Hl [(Hn & Hle) | (Hn & Hle)].
      - destruct (@rest_of_pass N 0%nat a) as (T & H1 & H2 & H3 & H4); auto.
        rewrite T, H3, Hle. unfold pass_frames. auto.
      - assert (E : sstep a Next =
          ({| started := true; closed := false; nxt := 1; left := l; spos := 0;
              ssize := z0; sloop := Some l |}, OYield 0 (F 0%nat))).
        { simpl. rewrite Hc, Hn, Nat.ltb_irrefl, Hle.
          destruct (l =? 0) eqn:E0; [apply Z.eqb_eq in E0; contradiction|].
          unfold produce. rewrite Hz, HF by lia. reflexivity. }
        assert (RN : repeat (@Next Size) N = Next :: repeat Next (N - 1)).
        { replace N with (S (N - 1)) at 1 by lia. reflexivity. }
        rewrite RN. cbn [strace ImgIterSpec.strace srun ImgIterSpec.srun]. rewrite E. cbn [fst snd].
        destruct (@rest_of_pass (N - 1) 1%nat {| started := true; closed := false; nxt := 1; left := l;
                                                 spos := 0; ssize := z0; sloop := Some l |})
          as (T & H1 & H2 & H3 & H4); try reflexivity; try lia.
        cbn [left] in T, H3. rewrite T. unfold pass_frames. rewrite seq_S_pred. simpl. auto.
    Qed.

    (** at the end of a pass with [c + 1] passes left (this one included): [c] more passes,
        then StopIteration for ever *)
    Lemma passes_from_boundary : forall c m (a : sp),
      closed a = false -> nxt a = N -> left a = Z.of_nat (S c) -> ssize a = z0 ->
      strace a (repeat Next (c * N + m)) = passes N F c ++ repeat (stopped Str) m.
    Proof.
      induction c as [|c IH]; intros m a Hc Hn Hl Hz.
      - (* the last pass is over *)
        simpl. destruct m as [|m]; [reflexivity|].
        simpl repeat. cbn [strace ImgIterSpec.strace].
        assert (E : sstep a Next =
          ({| started := true; closed := true; nxt := 0; left := 0; spos := 0; ssize := z0;
              sloop := Some 0 |}, OStop)).
        { simpl. rewrite Hc, Hn, Nat.ltb_irrefl, Hl, Hz. reflexivity. }
        rewrite E. cbn [fst snd closed spos sloop negb]. unfold stopped at 1. f_equal.
        rewrite closed_stops by reflexivity. reflexivity.
      - replace (S c * N + m)%nat with (N + (c * N + m))%nat by lia.
        rewrite repeat_app, strace_app.
        destruct (@full_pass a (Z.of_nat (S c))) as (T & H1 & H2 & H3 & H4); auto; try lia.
        { right. split; [assumption|]. rewrite Hl. replace (0 <? Z.of_nat (S (S c))) with true; [lia|].
          symmetry. apply Z.ltb_lt. lia. }
        rewrite T. cbn [passes ImgIterSpec.passes]. rewrite <- app_assoc. f_equal.
        apply IH; assumption.
    Qed.

    (** the specification, iterated without seeks: [repeat] passes, then the end *)
    Lemma spec_frames : forall L m pos0,
      strace (sinit (Z.of_nat (S L)) pos0 z0) (repeat Next (S L * N + m)) =
      passes N F (S L) ++ repeat (stopped Str) m.
    Proof.
      intros L m pos0.
      replace (S L * N + m)%nat with (N + (L * N + m))%nat by lia.
      rewrite repeat_app, strace_app.
      destruct (@full_pass (sinit (Z.of_nat (S L)) pos0 z0) (Z.of_nat (S L)))
        as (T & H1 & H2 & H3 & H4); auto; try lia.
      rewrite T. cbn [passes ImgIterSpec.passes]. rewrite <- app_assoc. f_equal.
      apply passes_from_boundary; assumption.
    Qed.

    (** a negative repeat count: the same pass for ever, the countdown unchanged *)
    Lemma spec_frames_infinite : forall r p pos0, r < 0 ->
      strace (sinit r pos0 z0) (repeat Next (p * N)) = concat (repeat (pass_frames N F r) p).
    Proof.
      intros r p pos0 Hr.
      assert (G : forall p (a : sp), closed a = false -> ssize a = z0 -> left a = r ->
                    (nxt a = 0%nat \/ nxt a = N) ->
                    strace a (repeat Next (p * N)) = concat (repeat (pass_frames N F r) p)).
      { induction p0 as [|p0 IHp]; intros a Hc Hz Hl Hn; [reflexivity|].
        replace (S p0 * N)%nat with (N + p0 * N)%nat by lia.
        rewrite repeat_app, strace_app.
        destruct (@full_pass a r) as (T & H1 & H2 & H3 & H4); auto; try lia.
        { destruct Hn as [Hn|Hn]; [left; auto|right]. split; [assumption|].
          rewrite Hl. replace (0 <? r) with false; [reflexivity|]. symmetry. apply Z.ltb_ge. lia. }
        rewrite T. simpl. f_equal. apply IHp; auto. }
      apply G; auto.
    Qed.
  End Frames.

  Lemma sizes_of_repeat_next : forall (z0 : Size) m, sizes_of z0 (repeat Next m) = [z0].
  Proof.
    intros z0 m. unfold sizes_of. f_equal. induction m; [reflexivity|]. simpl. assumption.
  Qed.

  Lemma one_size_separated : forall z0 : Size, hash_separates hash [z0].
  Proof. intros z0 x y [<-|[]] [<-|[]] _. reflexivity. Qed.

  (** THE FRAMES: iterating [repeat] = L+1 times over an image whose frames format to
      F 0 .. F (N-1) yields exactly those, in order, once per pass, the seek position
      following, the countdown showing L+1, L, .., 1; then StopIteration for ever with
      position 0, countdown 0, the image closed *)
  Lemma imgiter_frames : forall cached F z0 L m pos0,
    renderer_ok fmt_frame N -> (forall k, (k < N)%nat -> fmt_frame k z0 = Ok (F k)) ->
    trace cached (init Str (Z.of_nat (S L)) pos0 z0) (repeat Next (S L * N + m)) =
    passes N F (S L) ++ repeat (stopped Str) m.
  Proof.
    intros cached F z0 L m pos0 Hrend HF.
    rewrite imgiter_refines_spec; auto; try lia.
    - apply spec_frames; auto. apply Hrend.
    - intros _. rewrite sizes_of_repeat_next. apply one_size_separated.
  Qed.

  Lemma imgiter_frames_infinite : forall cached F z0 r p pos0,
    renderer_ok fmt_frame N -> (forall k, (k < N)%nat -> fmt_frame k z0 = Ok (F k)) -> r < 0 ->
    trace cached (init Str r pos0 z0) (repeat Next (p * N)) = concat (repeat (pass_frames N F r) p).
  Proof.
    intros cached F z0 r p pos0 Hrend HF Hr.
    rewrite imgiter_refines_spec; auto; try lia.
    - apply spec_frames_infinite; auto. apply Hrend.
    - intros _. rewrite sizes_of_repeat_next. apply one_size_separated.
  Qed.
End Main.

(* ====================================================================== *)
(** * Non-vacuity: the hypotheses hold of a concrete renderer, and the theorems then speak
      about non-trivial histories (seek before start, seek, size change between frames with
      the cache on, second pass served from the cache, exhaustion, use after the end; a
      failing frame) *)

Definition ex_fmt (k z : nat) : res nat :=
  if (k <? 3)%nat then (if (k =? 1)%nat && (z =? 9)%nat then Err else Ok (100 * z + k)%nat)
  else if (k =? 3)%nat then Eof else Err.

Example ex_renderer_ok : renderer_ok ex_fmt 3.
Proof.
  split; [lia|]. split; [reflexivity|].
  intros k z Hk. destruct k as [|[|[|k]]]; try lia; unfold ex_fmt; simpl; try discriminate.
  destruct (z =? 9)%nat; discriminate.
Qed.

Example ex_hash_separates : forall l, hash_separates Z.of_nat l.
Proof. intros l a b _ _ H. lia. Qed.

Definition ex_history : list (op nat) :=
  [Seek 1; Next; Next; Seek 0; Next; SetImageSize 7%nat; Next; Next; Next; SetImageSize 5%nat;
   Next; Next; Next; Next; Seek 1].

Example ex_trace :
  trace ex_fmt Z.of_nat 3 true (init nat 2 1 5%nat) ex_history =
  [(OSeekNotStarted, 1, None, true);
   (OYield 0 500%nat, 0, Some 2, true); (OYield 1 501%nat, 1, Some 2, true);
   (OSeekOk, 1, Some 2, true); (OYield 0 500%nat, 0, Some 2, true);
   (OSized, 0, Some 2, true);
   (OYield 1 701%nat, 1, Some 2, true); (OYield 2 702%nat, 2, Some 2, true);
   (OYield 0 700%nat, 0, Some 1, true);
   (OSized, 0, Some 1, true);
   (OYield 1 501%nat, 1, Some 1, true); (OYield 2 502%nat, 2, Some 1, true);
   (OStop, 0, Some 0, false); (OStop, 0, Some 0, false); (OSeekClosed, 0, Some 0, false)].
Proof. vm_compute. reflexivity. Qed.

(** ... and the refinement theorem applies to it *)
Example ex_refines :
  trace ex_fmt Z.of_nat 3 true (init nat 2 1 5%nat) ex_history =
  strace ex_fmt 3 (sinit 2 1 5%nat) ex_history.
Proof.
  apply imgiter_refines_spec; [exact ex_renderer_ok|discriminate|intros _; apply ex_hash_separates].
Qed.

(** a failing frame (frame 1 at size 9), infinite repeat, no cache *)
Example ex_trace_failure :
  trace ex_fmt Z.of_nat 3 false (init nat (-1) 0 5%nat) [Next; SetImageSize 9%nat; Next; Next; Seek 2] =
  [(OYield 0 500%nat, 0, Some (-1), true); (OSized, 0, Some (-1), true);
   (ORaise, 1, Some (-1), false); (OStop, 1, Some (-1), false); (OSeekClosed, 1, Some (-1), false)].
Proof. vm_compute. reflexivity. Qed.

(** the premises of [exhaustion_resets_to_zero] and [seek_replaces_next_index] are reachable *)
Example ex_exhaustion_premises :
  let s := after ex_fmt Z.of_nat 3 true 2 0 5%nat [Next; Next; Next; Next; Next; Next] in
  ph s = P2 /\ snd (step ex_fmt Z.of_nat 3 true s Next) = OStop.
Proof. vm_compute. auto. Qed.

Example ex_seek_premises :
  ph (after ex_fmt Z.of_nat 3 true 2 0 5%nat [Next; Next]) = P1 /\
  ph (after ex_fmt Z.of_nat 3 true 2 0 5%nat [Next; Next; Next; Next]) = P2.
Proof. vm_compute. auto. Qed.

Example ex_frames :
  trace ex_fmt Z.of_nat 3 true (init nat 2 0 5%nat) (repeat Next (2 * 3 + 2)) =
  passes 3 (fun k => (500 + k)%nat) 2 ++ repeat (stopped nat) 2.
Proof.
  apply (@imgiter_frames nat nat ex_fmt Z.of_nat 3 true (fun k => (500 + k)%nat) 5%nat 1 2 0 ex_renderer_ok).
  intros k Hk. destruct k as [|[|[|k]]]; try lia; reflexivity.
Qed.

(** the caching decision of [ImageIterator.__init__]: never for a single pass *)
Lemma single_pass_not_cached : forall c n, cache_enabled 1 c n = false.
Proof. reflexivity. Qed.

Lemma cache_enabled_bool : forall r b n, r <> 1 -> cache_enabled r (inl b) n = b.
Proof.
  intros r b n Hr. unfold cache_enabled. destruct (r =? 1) eqn:E; [apply Z.eqb_eq in E; contradiction|reflexivity].
Qed.

Lemma cache_enabled_int : forall r k n, r <> 1 -> cache_enabled r (inr k) n = (Z.of_nat n <=? k).
Proof.
  intros r k n Hr. unfold cache_enabled. destruct (r =? 1) eqn:E; [apply Z.eqb_eq in E; contradiction|reflexivity].
Qed.
