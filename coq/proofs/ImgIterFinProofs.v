(** C11, round 8: the clean-up of an animated draw() under faults of the output stream.
    Lemmas and proofs for [model/ImgIterFin.v]; source tie over the generated skeleton of
    [BaseImage._display_animated] (gen/Skeletons.v). *)
From Coq Require Import List Bool Arith.
Import ListNotations.
From TI Require Import lib.Eff lib.EffSound gen.Skeletons model.ImgIterFin.

Local Arguments Nat.eqb : simpl never.
Local Arguments Nat.ltb : simpl never.

(** * The order criterion is sufficient -- for every order, every body, every fault position *)

Definition final (x : ast * stream * bool) : ast := fst (fst x).

Lemma cleanup_invariant :
  forall saved steps f s,
    (a_iter_open s = false \/ has is_close_iter (before_stream steps) = true) ->
    (a_img_open s = false \/ has is_close_img (before_stream steps) = true) ->
    (a_pos s = saved \/ has is_restore (before_stream steps) = true) ->
    fin_ok saved (final (run_cleanup saved steps f s)) = true.
Proof.
  intros saved steps. induction steps as [|c r IH]; intros f s H1 H2 H3.
  - cbn in *. destruct H1 as [H1|H1]; [|discriminate]. destruct H2 as [H2|H2]; [|discriminate].
    destruct H3 as [H3|H3]; [|discriminate]. unfold fin_ok. rewrite H1, H2, H3. cbn. now rewrite Nat.eqb_refl.
  - destruct c; cbn [run_cleanup is_stream before_stream] in *.
    + (* CCloseIter *) apply IH; cbn; auto.
    + (* CCloseImg *) apply IH; cbn; auto.
    + (* CRestore *) apply IH; cbn; auto.
    + (* CWrite *) cbn in H1, H2, H3.
      destruct H1 as [H1|H1]; [|discriminate]. destruct H2 as [H2|H2]; [|discriminate].
      destruct H3 as [H3|H3]; [|discriminate].
      destruct (accepts f).
      * apply IH; auto.
      * cbn. unfold fin_ok. rewrite H1, H2, H3. cbn. now rewrite Nat.eqb_refl.
    + (* CFlush *) cbn in H1, H2, H3.
      destruct H1 as [H1|H1]; [|discriminate]. destruct H2 as [H2|H2]; [|discriminate].
      destruct H3 as [H3|H3]; [|discriminate].
      destruct (accepts f).
      * apply IH; auto.
      * cbn. unfold fin_ok. rewrite H1, H2, H3. cbn. now rewrite Nat.eqb_refl.
    + (* CPure *) apply IH; cbn; auto.
Qed.

(** every clean-up whose restoring / releasing steps all stand before its first stream step
    restores the frame and releases iterator and image from EVERY state, for EVERY stream *)
Lemma ordered_cleanup_restores :
  forall steps, restores_first steps = true ->
  forall saved f s, fin_ok saved (final (run_cleanup saved steps f s)) = true.
Proof.
  intros steps H saved f s. unfold restores_first in H.
  apply andb_true_iff in H. destruct H as [H H3]. apply andb_true_iff in H. destruct H as [H1 H2].
  apply cleanup_invariant; auto.
Qed.

(** the whole animated draw: whatever the body did (any renders, any stream calls), wherever
    the stream started refusing calls -- in the body or in the clean-up itself *)
Lemma anim_draw_restores :
  forall steps, restores_first steps = true ->
  forall body pos0 f, fin_ok pos0 (fst (anim_draw steps body pos0 f)) = true.
Proof.
  intros steps H body pos0 f. unfold anim_draw.
  destruct (run_body body f (mkast true true pos0)) as [[s1 f1] r1].
  pose proof (ordered_cleanup_restores steps H pos0 f1 s1) as Hc.
  destruct (run_cleanup pos0 steps f1 s1) as [[s2 f2] r2]. exact Hc.
Qed.

Lemma code_cleanup_ordered : restores_first code_cleanup = true.
Proof. reflexivity. Qed.

Lemma anim_cleanup_restores_under_stream_faults :
  forall body pos0 f,
    let s := fst (anim_draw code_cleanup body pos0 f) in
    a_pos s = pos0 /\ a_iter_open s = false /\ a_img_open s = false.
Proof.
  intros body pos0 f s. pose proof (anim_draw_restores _ code_cleanup_ordered body pos0 f) as H.
  fold s in H. unfold fin_ok in H.
  apply andb_true_iff in H. destruct H as [H H3]. apply andb_true_iff in H. destruct H as [H1 H2].
  apply negb_true_iff in H1. apply negb_true_iff in H2. apply Nat.eqb_eq in H3. auto.
Qed.

(** the call raises exactly when the stream refuses one of the calls made: with the code's
    clean-up (one stream call, last) a stream accepting k calls makes draw() raise iff
    k < (stream calls of the body) + 1 *)
Lemma run_body_raises :
  forall b k s, snd (run_body b (Some k) s) = (k <? stream_calls_body b)
             /\ (snd (run_body b (Some k) s) = false ->
                 snd (fst (run_body b (Some k) s)) = Some (k - stream_calls_body b)).
Proof.
  induction b as [|x r IH]; intros k s.
  - cbn. split; [reflexivity | intros _; now rewrite Nat.sub_0_r].
  - destruct x; cbn [run_body stream_calls_body filter length].
    + apply IH.
    + change (length (filter (fun x => match x with BStream => true | _ => false end) r)) with (stream_calls_body r).
      destruct k as [|k]; cbn [accepts used].
      * split; [reflexivity | intros H; discriminate].
      * destruct (IH k s) as [A B]. split; [rewrite A; reflexivity | exact B].
Qed.

Lemma anim_draw_raises_iff :
  forall body pos0 k,
    snd (anim_draw code_cleanup body pos0 (Some k)) = (k <? stream_calls_body body + 1).
Proof.
  intros body pos0 k. unfold anim_draw.
  destruct (run_body_raises body k (mkast true true pos0)) as [A B].
  destruct (run_body body (Some k) (mkast true true pos0)) as [[s1 f1] r1]. cbn [fst snd] in A, B.
  destruct r1.
  - destruct (run_cleanup pos0 code_cleanup f1 s1) as [[s2 f2] r2]. cbn [snd orb].
    symmetry. symmetry in A. apply Nat.ltb_lt in A. apply Nat.ltb_lt.
    rewrite Nat.add_1_r. apply Nat.lt_lt_succ_r. exact A.
  - rewrite (B eq_refl). symmetry in A. apply Nat.ltb_ge in A.
    cbn [code_cleanup run_cleanup is_stream apply_step].
    destruct (k - stream_calls_body body) eqn:D; cbn.
    + symmetry. apply Nat.ltb_lt. rewrite Nat.add_1_r. apply Nat.lt_succ_r. apply Nat.sub_0_le. exact D.
    + symmetry. apply Nat.ltb_ge. rewrite Nat.add_1_r.
      destruct (Nat.le_gt_cases k (stream_calls_body body)) as [L|G].
      * apply Nat.sub_0_le in L. rewrite L in D. discriminate.
      * exact G.
Qed.

(** * The excluded order *)

(** the final cursor move written (and flushed) first: a stream that broke during the
    animation leaves the image at the last rendered frame, iterator and image open *)
Lemma anim_cleanup_write_first_refuted :
  exists body pos0 f, let s := fst (anim_draw write_first_cleanup body pos0 f) in
    a_pos s <> pos0 /\ a_iter_open s = true /\ a_img_open s = true.
Proof.
  exists (plain_body 1 3 2), 1, (Some 4). vm_compute. repeat split; discriminate.
Qed.

Lemma write_first_not_ordered : restores_first write_first_cleanup = false.
Proof. reflexivity. Qed.

(** non-vacuity: the code's order on the same input -- the body really was cut (the call
    raises, the last rendered frame was 2) and the state is restored *)
Example code_cleanup_witness :
  anim_draw code_cleanup (plain_body 1 3 2) 1 (Some 4) = (mkast false false 1, true)
  /\ fst (fst (run_body (plain_body 1 3 2) (Some 4) (mkast true true 1))) = mkast true true 2.
Proof. vm_compute. split; reflexivity. Qed.

(** * Source tie: the ORDER is that of the source *)

(** straight-line block of calls -> clean-up steps; [None] when the block contains anything
    this model does not account for (control flow, a call with another tracked effect) *)
Definition cstep_of (o : op) : option cstep :=
  match o with
  | CloseIter => Some CCloseIter
  | CloseImg _ => Some CCloseImg
  | Put RSeek _ => Some CRestore
  | Write _ => Some CWrite
  | Flush => Some CFlush
  | Other => Some CPure
  | _ => None
  end.

Fixpoint steps_of (p : prog) : option (list cstep) :=
  match p with
  | Skip => Some []
  | Op o => match cstep_of o with Some c => Some [c] | None => None end
  | Seq a b => match steps_of a, steps_of b with Some x, Some y => Some (x ++ y) | _, _ => None end
  | _ => None
  end.

(** the [finally] block of the function's outermost try statement *)
Fixpoint outer_finally (p : prog) : option prog :=
  match p with
  | TryFinally _ _ f => Some f
  | Seq a b => match outer_finally a with Some f => Some f | None => outer_finally b end
  | _ => None
  end.

Definition source_cleanup (p : prog) : option (list cstep) :=
  match outer_finally p with Some f => steps_of f | None => None end.

(** the generated skeleton of _display_animated carries exactly the modelled clean-up ... *)
Lemma source_anim_cleanup_is_model :
  source_cleanup sk_BaseImage__display_animated = Some code_cleanup.
Proof. vm_compute. reflexivity. Qed.

(** ... hence every stream call of the source's finally block comes after the close of the
    iterator, the close of the image and the restore of the seek position *)
Lemma source_anim_cleanup_order :
  exists steps, source_cleanup sk_BaseImage__display_animated = Some steps /\ restores_first steps = true.
Proof. exists code_cleanup. split; [exact source_anim_cleanup_is_model | reflexivity]. Qed.

(** * The same over the effect semantics of the generated skeleton, faults INSIDE clean-up blocks *)

(** stream calls (write, flush, the style's interrupted-draw handler which writes), the
    renders and the sleep may raise, KeyboardInterrupt or Exception, before or after effect *)
Definition mf_stream (o : op) : bool :=
  match o with Write _ | Flush | HandleInterrupt | Sleep | Render | AnimNext => true | _ => false end.
Definition cfg_stream : cfg := mkcfg mf_stream all_kinds.

Definition anim_fin_post (o : outcome) (s : st) : bool :=
  negb (skmod s) && negb (iter_open s) && imgs_closed s.

Lemma source_display_animated_analysis :
  analyze cfg_stream nv_BaseImage__display_animated (unprotect sk_BaseImage__display_animated) anim_fin_post = true.
Proof. vm_compute. reflexivity. Qed.

(** [unprotect]: no block is exempt from faults -- the run may be cut inside the [finally]
    block and inside the [except] handlers too *)
Lemma source_display_animated_restores :
  forall vs, length vs = nv_BaseImage__display_animated ->
  forall o s', eval cfg_stream false (unprotect sk_BaseImage__display_animated) (init vs) o s' ->
    skmod s' = false /\ iter_open s' = false /\ imgs_closed s' = true.
Proof.
  intros vs Hl o s' He.
  pose proof (analyze_sound _ _ _ _ source_display_animated_analysis vs Hl o s' He) as H.
  unfold anim_fin_post in H.
  apply andb_true_iff in H. destruct H as [H H3]. apply andb_true_iff in H. destruct H as [H1 H2].
  apply negb_true_iff in H1. apply negb_true_iff in H2. auto.
Qed.

(** the whole old-API draw(): _renderer -> render() -> _display_animated, every block unprotected *)
Definition draw_fin_post (o : outcome) (s : st) : bool :=
  negb (skmod s) && negb (szmod s) && negb (iter_open s) && imgs_closed s.

Lemma source_draw_analysis :
  analyze cfg_stream nv_BaseImage_draw (unprotect sk_BaseImage_draw) draw_fin_post = true.
Proof. vm_compute. reflexivity. Qed.

Lemma source_draw_restores :
  forall vs, length vs = nv_BaseImage_draw ->
  forall o s', eval cfg_stream false (unprotect sk_BaseImage_draw) (init vs) o s' ->
    skmod s' = false /\ szmod s' = false /\ iter_open s' = false /\ imgs_closed s' = true.
Proof.
  intros vs Hl o s' He.
  pose proof (analyze_sound _ _ _ _ source_draw_analysis vs Hl o s' He) as H.
  unfold draw_fin_post in H.
  repeat (apply andb_true_iff in H; destruct H as [H ?]).
  repeat match goal with Hx : negb _ = true |- _ => apply negb_true_iff in Hx end.
  auto.
Qed.

(** the excluded order is refuted at this level too: the same skeleton with the clean-up's
    write + flush moved to the front *)
Definition sk_write_first : prog :=
  sq [ Op (Snap RSeek 0); Op OpenIter; Op (OpenImg 0);
       TryFinally true
         (sq [ Op AnimNext; Op (Write WFrame); Op Flush ])
         (sq [ Op Other; Op (Write WCtl); Op Flush; Op CloseIter; Op (CloseImg 0); Op (Put RSeek 0) ]) ].
Definition sk_code_order : prog :=
  sq [ Op (Snap RSeek 0); Op OpenIter; Op (OpenImg 0);
       TryFinally true
         (sq [ Op AnimNext; Op (Write WFrame); Op Flush ])
         (sq [ Op CloseIter; Op (CloseImg 0); Op (Put RSeek 0); Op Other; Op (Write WCtl) ]) ].

Lemma source_level_write_first_refuted :
  analyze cfg_stream 0 (unprotect sk_write_first) anim_fin_post = false
  /\ analyze cfg_stream 0 (unprotect sk_code_order) anim_fin_post = true
  /\ source_cleanup sk_write_first = Some write_first_cleanup.
Proof. vm_compute. auto. Qed.
