(** The executable form of [CutFinal] used by the C06 correspondence
    ([model/DrawCutTie.v]) is sound; concrete instances (non-vacuity), the displacement of
    the cursor after an interrupt below the resting row, and the designs the interrupted
    final state excludes. *)
From Coq Require Import List ZArith Bool Lia.
Import ListNotations.
From TI Require Import lib.Term lib.TermFacts lib.RectCheck lib.TermScroll lib.Rect lib.Lines
     model.Padding model.Draw model.DrawTie model.DrawCut model.DrawCutTie
     proofs.DrawLines proofs.DrawProofs proofs.DrawStyles proofs.DrawFinal proofs.DrawTieProofs proofs.DrawCutProofs proofs.DrawIntProofs.
From TI Require model.DrawInt.
Open Scope Z_scope.
Local Arguments Z.eqb : simpl never.
Local Arguments Z.ltb : simpl never.
Local Arguments Z.leb : simpl never.

Theorem cut_ok_sound W H pw ph park finc fpart csi np St r0 hide :
  cut_ok W H pw ph park finc fpart csi np St r0 = true ->
  CutFinal 0 (start r0 0) hide finc csi pw ph (r0 + park) np St.
Proof.
  unfold cut_ok, cut_clauses. cbn [forallb]. intros Hf.
  apply andb_true_iff in Hf; destruct Hf as [C1 Hf].
  apply andb_true_iff in Hf; destruct Hf as [C2 Hf].
  apply andb_true_iff in Hf; destruct Hf as [C3 Hf].
  apply andb_true_iff in Hf; destruct Hf as [C4 Hf].
  apply andb_true_iff in Hf; destruct Hf as [C5 Hf].
  apply andb_true_iff in Hf; destruct Hf as [C6 Hf].
  apply andb_true_iff in Hf; destruct Hf as [C7 Hf].
  apply andb_true_iff in C4. destruct C4 as [C4a C4b].
  apply andb_true_iff in C7. destruct C7 as [C7a C7b].
  constructor; cbn [row col visible start].
  - apply Z.eqb_eq, C1.
  - apply attrs_eqb_eq, C2.
  - rewrite C3. destruct hide; reflexivity.
  - split; [|split].
    + destruct (pending (exec 0 (start r0 0) St)); try discriminate. reflexivity.
    + destruct csi; destruct (parser (exec 0 (start r0 0) St)); try discriminate; discriminate.
    + intros ->. destruct (parser (exec 0 (start r0 0) St)); try discriminate. reflexivity.
  - exact C5.
  - destruct finc; apply Z.eqb_eq in C6; rewrite C6; lia.
  - apply Z.leb_le in C7a. apply Z.ltb_lt in C7b. lia.
Qed.

(** ** concrete instances *)

Definition tf1 : list (list tok) := [[TFg (10, 20, 30); TChar (GOther 97); TChar (GOther 98); TSgr0];
                                     [TFg (10, 20, 30); TChar (GOther 99); TChar (GOther 100); TSgr0]].
Definition tf2 : list (list tok) := [[TBg (1, 2, 3); TChar (GOther 101); TChar (GOther 102); TSgr0];
                                     [TBg (1, 2, 3); TChar (GOther 103); TChar (GOther 104); TSgr0]].
Definition exP : list tok := padded (Some (GOther 42)) (1, 1, 0, 2) 2 2 (joinlf tf1).

(** new API, 2 x 2 text frames in a 3 x 5 region, the cursor hidden: an interrupt inside the
    second line of the second later frame (inside the SGR sequence that opens it).  The
    executable predicate holds from rows 0, 3 and 6 of a 9 x 7 screen; the cursor ends ONE line
    below the line below the region (the interrupt found it one line below its resting row) *)
Definition ex_new : list tok :=
  anim_cut true [TSgr0] 1 2 2 [] exP [joinlf tf2; joinlf tf1; joinlf tf2] (IFrame 1 6 (Some CutCsi)).
Definition ex_new_np : nat :=
  length (opt true THide ++ anim_delivered 1 2 2 [] exP [joinlf tf2; joinlf tf1; joinlf tf2] (IFrame 1 6 (Some CutCsi))).

Example ex_new_cut_ok :
  forallb (cut_ok 9 7 3 5 1 false false false ex_new_np ex_new) [0; 3; 6] = true.
Proof. vm_compute. reflexivity. Qed.

Example ex_new_displaced :
  row (exec 0 (start 0 0) ex_new) = 0 + 5 + 1
  /\ row (exec 0 (start 0 0) (firstn ex_new_np ex_new)) = (0 + 1) + 1.
Proof. vm_compute. split; reflexivity. Qed.

(** the same animation interrupted on the FIRST line of that frame: the cursor ends on the
    line immediately below the region *)
Example ex_new_first_line :
  let S := anim_cut true [TSgr0] 1 2 2 [] exP [joinlf tf2; joinlf tf1; joinlf tf2] (IFrame 1 2 None) in
  row (exec 0 (start 0 0) S) = 0 + 5 /\ col (exec 0 (start 0 0) S) = 0.
Proof. vm_compute. split; reflexivity. Qed.

(** old API, kitty: an interrupt inside the payload of the first frame's first transmission;
    the handler's ST ends the string before the trailing sequence *)
Definition kchunk : tok := TKittyFirst {| kk_cols := 2; kk_rows := 1; kk_z := -2147483648; kk_stay := true |} false 80.
Definition kf : list (list tok) := [[kchunk; TEch 2; TCuf 2]; [kchunk; TEch 2; TCuf 2]].
Definition ex_old (hnd : list tok) : list tok :=
  old_anim_cut true hnd 3 [] [] (format_render 4 3 1 1 2 2 (joinlf kf)) [format_render 4 3 1 1 2 2 (joinlf kf)]
               (OFrame 0 1 (Some CutApc)).
Definition ex_old_np : nat :=
  length (opt true THide ++ [] ++ old_delivered 3 [] (format_render 4 3 1 1 2 2 (joinlf kf))
                                  [format_render 4 3 1 1 2 2 (joinlf kf)] (OFrame 0 1 (Some CutApc))).

Example ex_old_cut_ok :
  forallb (cut_ok 10 8 4 3 0 false true false ex_old_np (ex_old (DrawInt.handler DrawInt.SKitty))) [0; 4; 7] = true.
Proof. vm_compute. reflexivity. Qed.

(** the excluded design (the first frame's write not covered by the interrupted-draw
    handling): the terminal stays inside the graphics string, which swallows the trailing
    cursor-down, SGR reset, show-cursor and newline -- the cursor stays hidden, the predicate
    fails *)
Example first_frame_needs_handler :
  let t := exec 0 (start 0 0) (ex_old []) in
  parser t = InStr /\ visible t = false /\ row t = 0
  /\ cut_ok 10 8 4 3 0 false true false ex_old_np (ex_old []) 0 = false.
Proof. vm_compute. repeat split; reflexivity. Qed.

(** the new API's residue: cursor not hidden, the move to the render's top-left after the first
    frame cut inside its CSI: only a line feed follows, the CSI stays open (ended by the next
    escape sequence or character) *)
Example new_residue :
  let S := anim_cut false [TSgr0] 1 2 2 [] exP [joinlf tf2] (ITop1 1 (Some CutCsi)) in
  new_csi_residue false 2 2 (ITop1 1 (Some CutCsi)) = true
  /\ parser (exec 0 (start 0 0) S) = InCsi.
Proof. vm_compute. split; reflexivity. Qed.

(** ** non-vacuity of the main theorems: erase-and-skip frames (the shape of the graphics
    styles' fills), an interrupt inside the second line of the first later frame *)
Example anim_cut_final_example :
  let P := padded (Some GSpace) (1, 1, 0, 1) 2 2 (joinlf ex_frame) in
  let Fs := map joinlf [ex_frame; ex_frame] in
  let p := IFrame 0 3 (Some CutCsi) in
  CutFinal 0 (pos 3 0) true false false 3 4 (3 + 1)
           (length (opt true THide ++ anim_delivered 1 1 2 [] P Fs p))
           (anim_cut true [TSgr0] 1 1 2 [] P Fs p).
Proof.
  intros P Fs p.
  pose proof (anim_cut_final 10 5 0 (Some GSpace) 2 2 1 1 0 1) as T.
  specialize (T ltac:(lia) ltac:(lia) ltac:(lia) ltac:(lia) ltac:(lia) ltac:(lia) ltac:(lia)).
  specialize (T [] (ClearOK_nil 2 2) ex_frame [ex_frame; ex_frame]
                (wez_erase_lr 2 2 ltac:(lia) ltac:(lia)) (wez_erase_downward 2 2 ltac:(lia))).
  specialize (T (Forall_cons _ (wez_erase_lr 2 2 ltac:(lia) ltac:(lia))
                   (Forall_cons _ (wez_erase_lr 2 2 ltac:(lia) ltac:(lia)) (Forall_nil _)))).
  specialize (T ltac:(vm_compute; reflexivity) ltac:(repeat constructor) ltac:(reflexivity) ltac:(reflexivity)).
  specialize (T true [TSgr0] (hnd_sgr0_ok 0) (pos 3 0) 0 (okat_pos 3 0) ltac:(cbn; lia) p ltac:(cbn; lia)).
  exact T.
Qed.

Example old_anim_cut_final_example :
  let fmt := fun ls => format_render 3 3 1 1 2 2 (joinlf ls) in
  let p := OFrame 1 2 (Some CutCsi) in
  CutFinal 0 (pos 4 0) true false false (Z.max 3 2) (Z.max 3 2) 4
           (length (opt true THide ++ wez_pre 3 3 1 1 2 2
                      ++ old_delivered (Z.max 3 2) (kitty_clear false) (fmt ex_frame)
                                       (map fmt [ex_frame]) p))
           (old_anim_cut true (DrawInt.handler DrawInt.SIterm) (Z.max 3 2) (wez_pre 3 3 1 1 2 2) (kitty_clear false)
                         (fmt ex_frame) (map fmt [ex_frame]) p).
Proof.
  intros fmt p.
  apply (old_anim_cut_final 10 5 0 3 3 1 1 2 2 false true true ex_frame [ex_frame] (pos 4 0) 0);
    try (cbn; lia); try (vm_compute; reflexivity).
  - apply wez_erase_lr; lia.
  - apply wez_erase_downward; lia.
  - constructor; [apply wez_erase_lr; lia|constructor].
  - apply okat_pos.
  - repeat constructor.
  - repeat constructor.
Qed.
