(** C11, round 9: proofs about model/ImgIterClose.v (image close() at any position of a history). *)
From Coq Require Import List Bool Arith.
Import ListNotations.
From TI Require Import model.ImgIterClose.

(** R it b: b = "close() has been called on this iterator since it was created" *)
Definition R (it : ist) (b : bool) : Prop :=
  (b = true -> attached it = false) /\ (held it = true -> attached it = true).

Lemma Forall2_upd_l : forall l m i y,
  Forall2 R l m -> (forall b, R (nth i l dead) b -> R y b) ->
  Forall2 R (upd i (fun _ => y) l) m.
Proof.
  intros l m i y H; revert i; induction H; intros i Hy; cbn.
  - constructor.
  - destruct i; cbn in *.
    + constructor; auto.
    + constructor; auto.
Qed.

Lemma Forall2_upd_both : forall l m i y c,
  Forall2 R l m -> (forall b, R (nth i l dead) b -> R y c) ->
  Forall2 R (upd i (fun _ => y) l) (upd i (fun _ => c) m).
Proof.
  intros l m i y c H; revert i; induction H; intros i Hy; cbn.
  - constructor.
  - destruct i; cbn in *.
    + constructor; eauto.
    + constructor; auto.
Qed.

Lemma R_closed : forall k f it b c, R it b -> R (fst (close_iter DFixed k f it)) c.
Proof.
  intros k f it b c [H1 H2]; unfold close_iter.
  destruct (attached it) eqn:E; cbn.
  - split; intros; auto; discriminate.
  - split; intros; auto. rewrite H2 in E; auto.
Qed.

Lemma close_fixed_snd : forall k f it, snd (close_iter DFixed k f it) = false.
Proof. intros; unfold close_iter; destruct (attached it); reflexivity. Qed.

(** one step keeps the relation between iterator states and explicit-close marks *)
Lemma step_inv : forall k s m o,
  Forall2 R (its s) m ->
  Forall2 R (its (fst (step DFixed k s o))) (mark_step m o).
Proof.
  intros k s m o H; destruct o as [total | i fails | i | ]; cbn.
  - destruct (fin s); cbn; apply Forall2_app; auto; repeat constructor; cbn; intros; discriminate.
  - destruct (attached (nth i (its s) dead)) eqn:E; cbn; auto.
    destruct (fin s && fails); cbn.
    + apply Forall2_upd_l; auto. intros b Hb; eapply R_closed; eauto.
    + destruct (left (nth i (its s) dead)); cbn.
      * apply Forall2_upd_l; auto. intros b Hb; eapply R_closed; eauto.
      * apply Forall2_upd_l; auto. intros b [H1 H2]; split; cbn; intros; auto.
        rewrite H1 in E; auto; discriminate.
  - apply Forall2_upd_both; auto. intros b Hb; eapply R_closed; eauto.
  - exact H.
Qed.

Lemma run_inv : forall k h s m,
  Forall2 R (its s) m -> Forall2 R (its (run_from DFixed k s h)) (marks_from m h).
Proof.
  intros k h; induction h as [| o t IH]; intros s m H; cbn; auto.
  apply IH, step_inv, H.
Qed.

Lemma step_fin : forall d k s o, fin (fst (step d k s o)) = fin s || is_imgclose o.
Proof.
  intros d k s o; destruct o as [total | i fails | i | ]; cbn.
  - destruct (fin s); cbn; auto.
  - destruct (negb (attached (nth i (its s) dead))); cbn; [now rewrite orb_false_r|].
    destruct (fin s && fails); cbn; [now rewrite orb_false_r|].
    destruct (left (nth i (its s) dead)); cbn; now rewrite orb_false_r.
  - now rewrite orb_false_r.
  - now rewrite orb_true_r.
Qed.

Lemma run_fin : forall d k h s, fin (run_from d k s h) = fin s || img_closed h.
Proof.
  intros d k h; induction h as [| o t IH]; intros s; cbn.
  - now rewrite orb_false_r.
  - unfold run_from in IH; rewrite IH, step_fin, orb_assoc; reflexivity.
Qed.

Lemma step_caller : forall k s o, caller_closed (fst (step DFixed k s o)) = caller_closed s.
Proof.
  intros k s o; destruct o as [total | i fails | i | ]; cbn.
  - destruct (fin s); reflexivity.
  - destruct (negb (attached (nth i (its s) dead))); cbn; auto.
    destruct (fin s && fails); cbn; [now rewrite close_fixed_snd, orb_false_r|].
    destruct (left (nth i (its s) dead)); cbn; [now rewrite close_fixed_snd, orb_false_r|now rewrite orb_false_r].
  - now rewrite close_fixed_snd, orb_false_r.
  - reflexivity.
Qed.

Lemma run_caller : forall k h s, caller_closed (run_from DFixed k s h) = caller_closed s.
Proof.
  intros k h; induction h as [| o t IH]; intros s; cbn; auto.
  unfold run_from in IH; rewrite IH; apply step_caller.
Qed.

Lemma all_marked_no_files : forall l m,
  Forall2 R l m -> forallb (fun b : bool => b) m = true -> filter held l = [].
Proof.
  intros l m H; induction H as [| it b l m [H1 H2] _ IH]; cbn; auto.
  intros E; apply andb_prop in E; destruct E as [Eb Em].
  destruct (held it) eqn:Eh; auto.
  rewrite H1 in H2; auto. specialize (H2 eq_refl); discriminate.
Qed.

(** ---- the theorems ---- *)

(** whatever the history, the caller's PIL image is never closed and the URL temp copy exists
    exactly while the image has not been closed *)
Lemma caller_image_untouched : forall k h, caller_closed (run DFixed k h) = false.
Proof. intros; unfold run; rewrite run_caller; reflexivity. Qed.

Lemma temp_copy_iff_image_open : forall d k h,
  tmp_exists k (run d k h) = is_url k && negb (img_closed h).
Proof. intros; unfold tmp_exists, run; rewrite run_fin; reflexivity. Qed.

(** after an explicit close() of every object the history created -- image and iterators, in any
    order, at any positions, with any next() / close() / construction in between -- no file opened
    by the library is open, the temp copy is gone, the caller's image is untouched *)
Lemma close_order_irrelevant : forall k h,
  all_closed h = true ->
  let s := run DFixed k h in
  files_open s = 0 /\ tmp_exists k s = false /\ caller_closed s = false.
Proof.
  intros k h E; apply andb_prop in E; destruct E as [Ei Em]; cbn.
  repeat split.
  - unfold files_open, run. erewrite all_marked_no_files; eauto.
    apply run_inv; constructor.
  - rewrite temp_copy_iff_image_open, Ei; cbn; apply andb_false_r.
  - apply caller_image_untouched.
Qed.

(** non-vacuity / witnesses *)
Definition leak_history : list cop := [ONew 3; ONext 0 false; OImgClose; OIterClose 0].

Example close_order_nonvacuous :
  all_closed leak_history = true
  /\ all_closed [ONew 3; ONew 6; ONext 0 false; OImgClose; ONext 1 true; OIterClose 1; OImgClose; ONext 0 false; OIterClose 0] = true
  /\ files_open (run DFixed KFile [ONew 3; ONext 0 false; OImgClose]) = 1
  /\ files_open (run DFixed KUrl [ONew 3; ONew 3; OIterClose 0]) = 1.
Proof. vm_compute; auto. Qed.

(** the design before the fix: release through the finalized image's [_source] test *)
Lemma source_test_close_leaks :
  exists h, all_closed h = true
    /\ files_open (run DSourceTest KFile h) = 1 /\ files_open (run DSourceTest KUrl h) = 1
    /\ files_open (run DFixed KFile h) = 0.
Proof. exists leak_history; vm_compute; auto. Qed.

(** ... and it leaks equally when the iterator ends by itself (a failing or exhausted next()) *)
Lemma source_test_next_leaks :
  files_open (run DSourceTest KFile [ONew 3; ONext 0 false; OImgClose; ONext 0 true; OIterClose 0]) = 1.
Proof. vm_compute; auto. Qed.

(** the tempting repair [img is not getattr(image, "_source", None)] closes the caller's image *)
Lemma getattr_close_closes_caller_image :
  exists h, all_closed h = true
    /\ caller_closed (run DGetattr KPil h) = true /\ files_open (run DGetattr KFile h) = 0.
Proof. exists leak_history; vm_compute; auto. Qed.

(** on histories that never close the image before an iterator the three designs agree *)
Lemma designs_agree_without_finalization : forall d k h s,
  fin s = false -> img_closed h = false -> run_from d k s h = run_from DFixed k s h.
Proof.
  intros d k h; induction h as [| o t IH]; intros s Hs Hh; cbn; auto.
  cbn in Hh; apply orb_false_elim in Hh; destruct Hh as [Ho Ht].
  assert (E : fst (step d k s o) = fst (step DFixed k s o)).
  { destruct o as [total | i fails | i | ]; cbn in *; try discriminate; rewrite ?Hs; cbn; auto.
    - destruct (negb (attached (nth i (its s) dead))); auto.
      destruct (left (nth i (its s) dead)); auto.
      unfold close_iter; destruct (attached (nth i (its s) dead)); auto; destruct d; reflexivity.
    - unfold close_iter; destruct (attached (nth i (its s) dead)); auto; destruct d; reflexivity. }
  unfold run_from in *; cbn; rewrite E. apply IH; auto.
  rewrite step_fin, Hs, Ho; reflexivity.
Qed.
