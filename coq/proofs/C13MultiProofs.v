(** C13, round 8: several terminals (model/C13Multi.v).

    - [proj_ext]: a terminal's view depends on the selector only through the calls of the program;
    - [multi_check_sound]: all call sites on one descriptor expression + both views (the
      addressed terminal: the whole program; any other terminal: no attribute call) accepted
      by the verified analysis => [multi_restores]: for every layout, EVERY terminal's
      attributes are put back on every run of [evalA];
    - the shape "save on A, set on B, restore on A": a run that leaves terminal B modified
      when A and B are different terminals; invisible when they are the same one. *)
From Coq Require Import List Bool Arith.
Import ListNotations.
From TI Require Import lib.Eff lib.EffSound model.C13Any proofs.C13AnyProofs model.C13Multi.

Lemma proj_ext : forall p sel sel',
  (forall o, In o (ops_of p) -> view sel o = view sel' o) -> proj sel p = proj sel' p.
Proof.
  induction p; intros sel sel' H; cbn [proj ops_of] in *; try reflexivity.
  - rewrite (H o) by (left; reflexivity). reflexivity.
  - rewrite (IHp1 sel sel'), (IHp2 sel sel'); [reflexivity | |]; intros; apply H; apply in_or_app; auto.
  - rewrite (IHp1 sel sel'), (IHp2 sel sel'); [reflexivity | |]; intros; apply H; apply in_or_app; auto.
  - rewrite (IHp sel sel'); [reflexivity|]. assumption.
  - rewrite (IHp1 sel sel'), (IHp2 sel sel'); [reflexivity | |]; intros; apply H; apply in_or_app; auto.
  - rewrite (IHp1 sel sel'), (IHp2 sel sel'), (IHp3 sel sel'); [reflexivity | | |];
      intros; apply H; apply in_or_app; [right; apply in_or_app; right | right; apply in_or_app; left | left]; assumption.
  - rewrite (IHp1 sel sel'), (IHp2 sel sel'); [reflexivity | |]; intros; apply H; apply in_or_app; auto.
  - rewrite (IHp sel sel'); [reflexivity|]. assumption.
Qed.

(** with every site on [e0] and every attribute call in the table, each attribute call of [p]
    is addressed to [e0] *)
Lemma uniform_addr : forall l e0 p, uniform l e0 = true -> covered l p = true ->
  forall o k, In o (ops_of p) -> attr_key o = Some k -> addr_of l o = e0.
Proof.
  intros l e0 p Hu Hc o k Hin Hk. unfold addr_of. rewrite Hk.
  unfold covered in Hc. rewrite forallb_forall in Hc. specialize (Hc o Hin). rewrite Hk in Hc.
  destruct (find (key_eqb k) l) as [s|] eqn:Hf.
  - apply find_some in Hf. destruct Hf as [Hs _].
    unfold uniform in Hu. rewrite forallb_forall in Hu. specialize (Hu s Hs).
    apply Nat.eqb_eq in Hu. exact Hu.
  - apply existsb_exists in Hc. destruct Hc as [s [Hs Hm]].
    pose proof (find_none _ _ Hf s Hs) as Hn. rewrite Hm in Hn. discriminate.
Qed.

Lemma view_uniform : forall l e0 p, uniform l e0 = true -> covered l p = true ->
  forall L t o, In o (ops_of p) ->
  view (sel_of (addr_of l) L t) o = view (fun _ => Nat.eqb (L e0) t) o.
Proof.
  intros l e0 p Hu Hc L t o Hin.
  destruct (attr_key o) as [k|] eqn:Hk.
  - assert (Ha : addr_of l o = e0) by (eapply uniform_addr; eauto).
    unfold view, sel_of. rewrite Ha. reflexivity.
  - destruct o; try reflexivity; destruct r; try reflexivity; discriminate Hk.
Qed.

Theorem multi_check_sound : forall nv p l e0, multi_check nv p l e0 = true ->
  multi_restores nv p (addr_of l).
Proof.
  intros nv p l e0 H. unfold multi_check in H.
  apply andb_prop in H. destruct H as [H Hf].
  apply andb_prop in H. destruct H as [H Ht].
  apply andb_prop in H. destruct H as [Hu Hc].
  intros L t vs Hl o s' E.
  rewrite (proj_ext p _ (fun _ => Nat.eqb (L e0) t)) in E
    by (intros; eapply view_uniform; eauto).
  destruct (Nat.eqb (L e0) t).
  - exact (analyze_any_sound _ _ Ht vs Hl o s' E).
  - exact (analyze_any_sound _ _ Hf vs Hl o s' E).
Qed.

(** * save on A, set on B, restore on A *)

(** the one-terminal analysis (rounds 2 and 4) accepts the shape; so does the multi-terminal
    check when every call is on A; the sites of the shape are not uniform *)
Example one_terminal_accepts_AB :
  analyze_any 0 save_A_set_B_restore_A = true /\
  multi_check 0 save_A_set_B_restore_A sites_AA 0 = true /\
  multi_check 0 save_A_set_B_restore_A sites_AB 0 = false /\
  multi_check 0 save_A_set_B_restore_A sites_AB 1 = false.
Proof. vm_compute. repeat split. Qed.

(** if A and B are ONE terminal (layout: both expressions -> terminal 0) every view is fine *)
Example AB_same_terminal_fine :
  analyze_any 0 (proj (sel_of (addr_of sites_AB) (fun _ => 0) 0) save_A_set_B_restore_A) = true /\
  analyze_any 0 (proj (sel_of (addr_of sites_AB) (fun _ => 0) 1) save_A_set_B_restore_A) = true.
Proof. vm_compute. split; reflexivity. Qed.

(** if they are two terminals (expression e -> terminal e), terminal B = 1 ends modified on the
    fault-free run *)
Example AB_two_terminals_run :
  exists s', evalA false (proj (sel_of (addr_of sites_AB) (fun e => e) 1) save_A_set_B_restore_A)
                   (init []) ONorm s' /\ tmod s' = true.
Proof.
  eexists. split.
  - match goal with |- evalA _ ?p _ _ _ => let p' := eval vm_compute in p in change p with p' end.
    eapply A_SeqN; [apply A_Op|].
    eapply A_SeqN; [apply A_Op|].
    eapply A_SeqN; [apply A_Op|].
    eapply A_SeqN; [|apply A_Skip].
    change ONorm with (after_finally ONorm ONorm).
    eapply A_Finally.
    + eapply A_SeqN; [apply A_Op|]. eapply A_SeqN; [apply A_Op|]. apply A_Skip.
    + apply A_Op.
  - vm_compute. reflexivity.
Qed.

Theorem AB_refuted : ~ multi_restores 0 save_A_set_B_restore_A (addr_of sites_AB).
Proof.
  intro H. destruct AB_two_terminals_run as [s' [E T]].
  rewrite (H (fun e => e) 1 [] eq_refl ONorm s' E) in T. discriminate.
Qed.

(** non-vacuity of the accepted case: with all calls on A, terminal A's view has a run in
    which the attributes ARE modified on the way and a fault hits (the render raises), and it
    ends restored *)
Example AA_interrupted_run :
  exists s', evalA false (proj (sel_of (addr_of sites_AA) (fun e => e) 0) save_A_set_B_restore_A)
                   (init []) (ORaise KI) s' /\ tmod s' = false.
Proof.
  eexists. split.
  - match goal with |- evalA _ ?p _ _ _ => let p' := eval vm_compute in p in change p with p' end.
    eapply A_SeqN; [apply A_Op|].
    eapply A_SeqN; [apply A_Op|].
    eapply A_SeqN; [apply A_Op|].
    eapply A_SeqA; [|reflexivity].
    change (ORaise KI) with (after_finally (ORaise KI) ONorm).
    eapply A_Finally.
    + eapply A_SeqN; [apply A_Op|]. eapply A_SeqA; [|reflexivity]. apply A_FaultBefore. reflexivity.
    + apply A_Op.
  - vm_compute. reflexivity.
Qed.
