(** C04, round 8: the construction route of an image and the form of its size arguments.
    The initial size setting is a function of the VALUES of [width] / [height] alone: not of
    the route, not of whether a [None] was written out.  No float reasoning: every
    [FloatArith]. *)
From Coq Require Import ZArith List Bool Lia.
Import ListNotations.
From TI Require Import lib.FArith model.Sizing model.SizingRoute proofs.SizingHistory proofs.SizingProofs.
Open Scope Z_scope.

Section Route.
Context {FA : FloatArith}.
Variables (fam : family) (ow oh : Z).
Local Notation create := (@create FA).
Local Notation ctor := (@ctor FA fam ow oh).
Local Notation run := (@run FA fam ow oh).
Local Notation rendered_size := (@rendered_size FA fam ow oh).

(** the route does not matter *)
Lemma route_irrelevant : forall r1 r2 (e : env FA) kw kh,
  create r1 fam ow oh e kw kh = create r2 fam ow oh e kw kh.
Proof. intros r1 r2 e kw kh. destruct r1, r2; reflexivity. Qed.

(** ... nor does the way a value was given: only the values bound to the parameters *)
Lemma create_by_value : forall r (e : env FA) kw kh,
  create r fam ow oh e kw kh = ctor e (kw_value kw) (kw_value kh).
Proof. intros r e kw kh. destruct r; reflexivity. Qed.

Lemma explicit_none_irrelevant : forall r1 r2 (e : env FA) kw kh kw' kh',
  kw_value kw = kw_value kw' -> kw_value kh = kw_value kh' ->
  create r1 fam ow oh e kw kh = create r2 fam ow oh e kw' kh'.
Proof. intros. rewrite !create_by_value. congruence. Qed.

(** [set_size] never stores a dynamic size *)
Lemma set_size_ok_fixed : forall (e : env FA) cur w h frame sz,
  set_size fam ow oh e cur w h frame = (sz, ok) -> exists a b, sz = Fixed a b.
Proof.
  intros e cur w h frame sz. unfold set_size.
  destruct (arg_error w) as [c|] eqn:Ew.
  { intros H. inversion H; subst. destruct w; cbn in Ew; try discriminate.
    destruct (z <=? 0); discriminate. }
  destruct (arg_error h) as [c|] eqn:Eh.
  { intros H. inversion H; subst. destruct h; cbn in Eh; try discriminate.
    destruct (z <=? 0); discriminate. }
  destruct (negb (is_none w) && negb (is_none h)).
  - destruct w; try (intros H; discriminate H); destruct h; intros H; try discriminate H;
      inversion H; eauto.
  - destruct (valid_size _ _ _ _ _ _ _). intros H. inversion H. eauto.
Qed.

(** the new image has a dynamic size exactly when no size was given (both values [None]),
    and then it is [Size.FIT]; every other successful creation gives a FIXED size: what
    [set_size(width, height)] stores under the environment of the moment of creation *)
Lemma create_dynamic_iff : forall r (e : env FA) kw kh sz c,
  create r fam ow oh e kw kh = (Some sz, c) ->
  c = ok /\
  ((is_none (kw_value kw) && is_none (kw_value kh) = true /\ sz = Dyn FIT) \/
   (is_none (kw_value kw) && is_none (kw_value kh) = false /\
    set_size fam ow oh e (Dyn FIT) (kw_value kw) (kw_value kh) default_frame = (sz, ok) /\
    exists a b, sz = Fixed a b)).
Proof.
  intros r e kw kh sz c. rewrite create_by_value. unfold SizingRoute.ctor.
  destruct (is_none (kw_value kw) && is_none (kw_value kh)) eqn:En.
  - intros H. inversion H. auto.
  - destruct (set_size _ _ _ _ _ _ _ _) as [sz' c'] eqn:Es.
    destruct (c' =? ok) eqn:Ec; intros H; inversion H; subst.
    apply Z.eqb_eq in Ec. subst c'. split; [reflexivity|]. right.
    split; [reflexivity|]. split; [reflexivity|]. eapply set_size_ok_fixed; eauto.
Qed.

Lemma create_no_size : forall r (e : env FA) kw kh,
  is_none (kw_value kw) && is_none (kw_value kh) = true ->
  create r fam ow oh e kw kh = (Some (Dyn FIT), ok).
Proof. intros r e kw kh H. rewrite create_by_value. unfold SizingRoute.ctor. rewrite H. reflexivity. Qed.

(** an image created without a size, by ANY route, follows the environment: after any
    history of renders, terminal resizes and cell-ratio changes its rendered size is
    [_valid_size(Size.FIT)] under the CURRENT environment *)
Lemma created_dynamic_follows : forall r (e : env FA) kw kh ops,
  is_none (kw_value kw) && is_none (kw_value kh) = true ->
  forallb keeps_size ops = true ->
  exists sz, create r fam ow oh e kw kh = (Some sz, ok) /\
    st_size (run (created_state e sz) ops) = Dyn FIT /\
    rendered_size (run (created_state e sz) ops)
    = valid_size fam (env_run e ops) ow oh (DSize FIT) DNone default_frame.
Proof.
  intros r e kw kh ops Hn Hk. exists (Dyn FIT). split; [apply create_no_size; exact Hn|].
  destruct (@dynamic_follows FA fam ow oh ops (created_state e (Dyn FIT)) FIT eq_refl Hk)
    as (A & B & _).
  split; [exact A | exact B].
Qed.

(** an image created with a size, by ANY route, keeps it *)
Lemma created_fixed_unchanged : forall r (e : env FA) kw kh sz c ops,
  is_none (kw_value kw) && is_none (kw_value kh) = false ->
  create r fam ow oh e kw kh = (Some sz, c) ->
  forallb keeps_size ops = true ->
  exists a b, sz = Fixed a b /\
    st_size (run (created_state e sz) ops) = Fixed a b /\
    rendered_size (run (created_state e sz) ops) = (a, b).
Proof.
  intros r e kw kh sz c ops Hn Hc Hk.
  destruct (create_dynamic_iff r e kw kh sz c Hc) as (_ & [(A & _) | (_ & _ & a & b & E)]).
  { rewrite A in Hn. discriminate. }
  exists a, b. split; [exact E|]. subst sz.
  destruct (@fixed_unchanged_by_history FA fam ow oh ops (created_state e (Fixed a b)) a b eq_refl Hk)
    as (A & B & _).
  split; [exact A | exact B].
Qed.

End Route.

(** ---- the excluded design and non-vacuity, on exact rational arithmetic ([ExactFA], an
    instance of [StandardModel]): a 288x288 source in an 80x30 terminal, cell ratio 1/2 ---- *)
Definition shrink_ops : list (op ExactFA) := [OResize 40 12 None; ORender false].

(** "apply the size arguments after construction": with [width=None, height=None] written
    out the FIT size is computed once, at creation; after the terminal shrinks to 40x12 the
    image is wider than the frame and no longer what [_valid_size(FIT)] gives NOW -- while
    the same call without the two [None]s still follows *)
Example size_fixed_at_creation_refuted :
  exists w h,
    create_with AfterCtor RFromUrl Text 288 288 ex_env (Some DNone) (Some DNone) = (Some (Fixed w h), ok)
    /\ let s := run Text 288 288 (created_state ex_env (Fixed w h)) shrink_ops in
       fst (rendered_size Text 288 288 s) > e_cols (st_env s)
       /\ rendered_size Text 288 288 s
          <> valid_size Text (st_env s) 288 288 (DSize FIT) DNone default_frame
    /\ create_with AfterCtor RFromUrl Text 288 288 ex_env None None = (Some (Dyn FIT), ok).
Proof.
  eexists. eexists. split; [vm_compute; reflexivity|].
  vm_compute. split; [reflexivity|]. split; [discriminate | reflexivity].
Qed.

(** the code's rule on the same input: dynamic, within the frame after the shrink; and a
    given width is a fixed size on every route (non-vacuity of both branches) *)
Example create_same_input :
  create RFromUrl Text 288 288 ex_env (Some DNone) (Some DNone) = (Some (Dyn FIT), ok)
  /\ (let s := run Text 288 288 (created_state ex_env (Dyn FIT)) shrink_ops in
      fst (rendered_size Text 288 288 s) <= e_cols (st_env s)
      /\ snd (rendered_size Text 288 288 s) <= e_lines (st_env s) - 2)
  /\ (exists h, create RFromFile Text 288 288 ex_env (Some (DInt 20)) None = (Some (Fixed 20 h), ok))
  /\ create RCtor Text 288 288 ex_env (Some (DInt 0)) None = (None, value_error).
Proof.
  vm_compute. split; [reflexivity|]. split; [split; discriminate|].
  split; [eexists; reflexivity | reflexivity].
Qed.
