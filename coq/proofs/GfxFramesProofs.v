(** C03 — every render of every history transmits the frame [image.tell()] (proofs).

    [frames_main]: for a PIL-sourced (shared PIL object) and a file-sourced instance, any
    initial position and ANY history of seek() / foreign moves of the PIL object / partial or
    exhausted iterators / renders, the frames carried by the renders are exactly the frames
    [tell] of the source at the moment of each render, [tell] being a function of the seek /
    iterator operations alone.  [frames_transmit]: the same through the wire — what the
    terminal decodes from each render's transmission is the raw data of that frame.
    [skip_zero_refuted]: the statement is false of a render that seeks only when the wanted
    frame is not 0; [skip_zero_file_ok]: ... although that design is indistinguishable for
    file sources (which is why only a history over a SHARED PIL object separates them). *)
From Coq Require Import String.
From Coq Require Import List ZArith Bool Arith Lia.
Import ListNotations.
From TI Require Import gen.Consts model.KittyChunks model.GfxFrames proofs.KittyChunksProofs.

Local Open Scope nat_scope.

Lemma spec_tell_snoc : forall init done o,
  spec_tell init (done ++ [o]) = last_tell init (o :: rev done).
Proof. intros. unfold spec_tell. now rewrite rev_unit. Qed.

Lemma spec_frames_snoc : forall init h done,
  spec_frames init done (h ++ [FRender]) = spec_frames init done h ++ [spec_tell init (done ++ h)].
Proof.
  intros init h. induction h as [|o r IH]; intro done.
  - simpl. now rewrite app_nil_r.
  - assert (Hd : done ++ o :: r = (done ++ [o]) ++ r) by now rewrite <- app_assoc.
    destruct o; cbn [spec_frames app]; rewrite IH, Hd; reflexivity.
Qed.

Section Main.
  Variable Img : Type.
  Variable frame_of : nat -> Img.

  Lemma run_inv : forall kind init h done s,
    fs_seek s = spec_tell init done ->
    snd (run frame_of always_seek kind s h) = map frame_of (spec_frames init done h)
    /\ fs_seek (fst (run frame_of always_seek kind s h)) = spec_tell init (done ++ h).
  Proof.
    intros kind init h. induction h as [|o r IH]; intros done s Hs.
    - simpl. rewrite app_nil_r. auto.
    - cbn [run].
      destruct (step frame_of always_seek kind s o) as [s1 out1] eqn:E.
      destruct (run frame_of always_seek kind s1 r) as [s2 out2] eqn:E2.
      assert (Hd : done ++ o :: r = (done ++ [o]) ++ r) by now rewrite <- app_assoc.
      assert (H1 : fs_seek s1 = spec_tell init (done ++ [o])).
      { rewrite spec_tell_snoc. destruct o; cbn in E; inversion E; subst; cbn; auto. }
      specialize (IH (done ++ [o]) s1 H1). rewrite E2 in IH. cbn [fst snd] in *.
      destruct IH as [IHa IHb]. rewrite Hd. split; [|exact IHb].
      destruct o; cbn in E; inversion E; subst; cbn [spec_frames app map]; try exact IHa; try reflexivity.
      unfold render_pos, always_seek; cbn; rewrite ?Hs; congruence.
  Qed.

  (** every render of every history carries frame [tell] *)
  Lemma frames_main : forall kind init h,
    snd (run frame_of always_seek kind (init_state init) h)
      = map frame_of (spec_frames init [] h)
    /\ fs_seek (fst (run frame_of always_seek kind (init_state init) h)) = spec_tell init h.
  Proof. intros. apply (run_inv kind init h [] (init_state init)). reflexivity. Qed.

  (** one render after any history *)
  Lemma frames_last : forall kind init h,
    snd (run frame_of always_seek kind (init_state init) (h ++ [FRender]))
      = map frame_of (spec_frames init [] h) ++ [frame_of (spec_tell init h)].
  Proof.
    intros. destruct (frames_main kind init (h ++ [FRender])) as [H _]. rewrite H. clear H.
    rewrite (spec_frames_snoc init h []). now rewrite map_app.
  Qed.
End Main.

(* ------------------------------------------------------------ through the wire *)

Section Wire.
  Variables B C Img : Type.
  Variable b64 : list B -> list C.
  Variable unb64 : list C -> list B.
  Variable zl : nat -> list B -> list B.
  Variable unzl : list B -> list B.
  Hypothesis b64_roundtrip : forall x, unb64 (b64 x) = x.
  Hypothesis zl_roundtrip : forall l x, unzl (zl l x) = x.
  Variable frame_of : nat -> Img.
  (** conversion + BOX resize of a decoded frame to the transmitted resolution (Pillow) *)
  Variable raw : Img -> list B.

  (** what the terminal decodes from the transmission of each render of the history is the
      raw data of frame [tell] of the source — any compression level, any keys *)
  Lemma frames_transmit : forall kind init h size m fmt width height rw rh z level, 0 < size ->
    map (fun im => receive unb64 unzl
                     (transmit b64 zl size (kitty_ctrl m fmt width height rw rh z level) level (raw im)))
        (snd (run frame_of always_seek kind (init_state init) h))
    = map (fun k => raw (frame_of k)) (spec_frames init [] h).
  Proof.
    intros. destruct (frames_main _ frame_of kind init h) as [-> _].
    rewrite map_map. apply map_ext. intro k.
    apply transmit_roundtrip; auto.
  Qed.
End Wire.

(* ---------------------------------------------------------- the excluded design *)

(** seek only when the wanted frame is not 0: a render of frame 0 through a shared PIL
    object that someone left on frame k carries frame k *)
Lemma skip_zero_refuted : forall (Img : Type) (frame_of : nat -> Img) k,
  frame_of k <> frame_of 0 ->
  let h := [FForeign k; FRender] in
  snd (run frame_of skip_zero SrcPil (init_state 0) h) <> map frame_of (spec_frames 0 [] h).
Proof. intros Img frame_of k Hk h. cbn. intro E. inversion E. auto. Qed.

(** the same after an iterator closed early and seek(0) — no foreign access needed *)
Lemma skip_zero_refuted_iter : forall (Img : Type) (frame_of : nat -> Img) k,
  frame_of k <> frame_of 0 ->
  let h := [FIter k; FSeek 0; FRender] in
  snd (run frame_of skip_zero SrcPil (init_state 0) h) <> map frame_of (spec_frames 0 [] h).
Proof. intros Img frame_of k Hk h. cbn. intro E. inversion E. auto. Qed.

Lemma skip_zero_refuted_both : forall (Img : Type) (frame_of : nat -> Img) k,
  frame_of k <> frame_of 0 ->
  (let h := [FForeign k; FRender] in
   snd (run frame_of skip_zero SrcPil (init_state 0) h) <> map frame_of (spec_frames 0 [] h))
  /\ (let h := [FIter k; FSeek 0; FRender] in
      snd (run frame_of skip_zero SrcPil (init_state 0) h) <> map frame_of (spec_frames 0 [] h)).
Proof.
  intros Img frame_of k H. split.
  - exact (skip_zero_refuted Img frame_of k H).
  - exact (skip_zero_refuted_iter Img frame_of k H).
Qed.

(** for a file source (re-opened, hence on frame 0, for every render) the two designs
    transmit the same frames: file-sourced histories can not tell them apart *)
Lemma skip_zero_file_ok : forall (Img : Type) (frame_of : nat -> Img) h s,
  snd (run frame_of skip_zero SrcFile s h) = snd (run frame_of always_seek SrcFile s h)
  /\ fs_seek (fst (run frame_of skip_zero SrcFile s h))
     = fs_seek (fst (run frame_of always_seek SrcFile s h))
  /\ fs_pil (fst (run frame_of skip_zero SrcFile s h))
     = fs_pil (fst (run frame_of always_seek SrcFile s h)).
Proof.
  intros Img frame_of h. induction h as [|o r IH]; intro s; [now cbn|].
  cbn [run].
  assert (E : step frame_of skip_zero SrcFile s o = step frame_of always_seek SrcFile s o).
  { destruct o; cbn; auto. unfold render_pos, skip_zero, always_seek, opened_pos.
    destruct (fs_seek s =? 0) eqn:Z; cbn; auto. apply Nat.eqb_eq in Z. now rewrite Z. }
  rewrite E. destruct (step frame_of always_seek SrcFile s o) as [s1 o1].
  specialize (IH s1).
  destruct (run frame_of skip_zero SrcFile s1 r), (run frame_of always_seek SrcFile s1 r).
  cbn in *. destruct IH as (-> & -> & ->). auto.
Qed.

(* ------------------------------------------------------------------ non-vacuity *)

Example frames_example :
  snd (run (fun k => k) always_seek SrcPil (init_state 1)
           [FRender; FIter 2; FRender; FSeek 0; FRender; FForeign 3; FRender; FSeek 4; FForeign 1;
            FRender; FIterFull; FForeign 2; FRender])
  = [1; 2; 0; 0; 4; 0]
  /\ spec_frames 1 []
           [FRender; FIter 2; FRender; FSeek 0; FRender; FForeign 3; FRender; FSeek 4; FForeign 1;
            FRender; FIterFull; FForeign 2; FRender]
  = [1; 2; 0; 0; 4; 0].
Proof. vm_compute. split; reflexivity. Qed.

Example skip_zero_example :
  snd (run (fun k => k) skip_zero SrcPil (init_state 0) [FIter 2; FSeek 0; FRender; FForeign 3; FRender])
  = [2; 3].
Proof. reflexivity. Qed.

(** the correspondence's two judgements on a recorded render *)
Example frec_example :
  let f := {| f_pil := true; f_init := 0; f_hist := [FIter 2; FSeek 0]; f_tell := 0; f_sent := Some 0; f_pilpos := Some 2 |} in
  frames_ok_spec f = true /\ frames_ok_model f = true
  /\ frames_ok_spec {| f_pil := true; f_init := 0; f_hist := [FIter 2; FSeek 0]; f_tell := 0; f_sent := Some 2; f_pilpos := Some 2 |} = false.
Proof. vm_compute. auto. Qed.
