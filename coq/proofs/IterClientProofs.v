(** * IterClientProofs — proofs about [model/IterClient.v] (C10): every exception out of ANY
      client code run by [next()] closes the iterator and finalizes owned data exactly once *)
From Coq Require Import List Bool Arith Lia.
Import ListNotations.
From TI Require Import model.IterClient model.IterClientTie.

Section P.
  Variable CS : Type.
  Variable client : CS -> call -> cres * CS.
  Variable n : option nat.

  (** open: nothing finalized; closed: finalized by one entry iff owned; no client code was ever
      entered with finalized data *)
  Definition Inv (s : state CS) : Prop :=
    bad_use (gh s) = 0 /\
    if closed s
    then finalized (gh s) = owns (gh s) /\ fin_calls (gh s) = (if owns (gh s) then 1 else 0)
    else finalized (gh s) = false /\ fin_calls (gh s) = 0.

  Ltac crush :=
    repeat (simpl in *; subst; match goal with
      | H : (_, _) = (_, _) |- _ => inversion H; clear H
      | H : context [let '(_, _) := ?x in _] |- _ => destruct x eqn:?
      | H : context [match ?x with _ => _ end] |- _ => destruct x eqn:?
      | H : _ /\ _ |- _ => destruct H
      end).

  Lemma step_local : forall s o s' x,
    Inv s -> step CS client n false s o = (s', x) ->
    Inv s' /\ owns (gh s') = owns (gh s) /\
    closed s' = closed s || ends_life o x /\
    (closed s = true -> dead_outcome o x = true /\ gh s' = gh s).
  Proof.
    intros [c p pd rz pz [ow fz fc bu] c0] o s' x [Hb Hi] H. simpl in *.
    destruct o; unfold step, next, seek, set_render_size, set_padding, refresh_padded, ask, close,
      data_finalize, advance, exhausted, Inv in *; simpl in *;
    destruct c; simpl in *; crush; subst; repeat match goal with b : bool |- _ => destruct b end; simpl; repeat split; auto; try discriminate; try congruence.
  Qed.

  Lemma mk_inv : forall own p rsz psz c0, Inv (mk CS own p rsz psz c0).
  Proof. intros. unfold Inv, mk. simpl. auto. Qed.

  Lemma run_inv : forall ops s, Inv s -> Inv (run CS client n false s ops).
  Proof.
    induction ops as [|o r IH]; intros s Hs; simpl; auto.
    apply IH. destruct (step CS client n false s o) as [s' x] eqn:E.
    destruct (step_local s o s' x Hs E) as [H _]. exact H.
  Qed.

  (** the observable history of ANY run of the code's design, under ANY behaviour of the client
      code (renderable and paddings), satisfies the history-level specification *)
  Lemma trace_spec_from : forall ops s,
    Inv s -> spec_ok (owns (gh s)) (closed s) (trace CS client n false s ops) = true.
  Proof.
    induction ops as [|o r IH]; intros s Hs; simpl; auto.
    destruct (step CS client n false s o) as [s' x] eqn:E.
    destruct (step_local s o s' x Hs E) as [Hs' [Ho [Hc Hd]]].
    simpl. rewrite <- Hc. specialize (IH s' Hs'). rewrite Ho in IH. rewrite IH.
    destruct Hs' as [_ Hi]. rewrite Ho in Hi.
    assert (Hdead : (if closed s then dead_outcome o x else true) = true).
    { destruct (closed s); auto. apply Hd; auto. }
    rewrite Hdead.
    destruct (closed s'); destruct Hi as [H1 H2]; rewrite H1, H2;
      destruct (owns (gh s)); reflexivity.
  Qed.

  Lemma trace_spec_ok : forall own p rsz psz c0 ops,
    spec_ok own false (trace CS client n false (mk CS own p rsz psz c0) ops) = true.
  Proof. intros. exact (trace_spec_from ops (mk CS own p rsz psz c0) (mk_inv own p rsz psz c0)). Qed.

  Lemma never_used_finalized : forall own p rsz psz c0 ops,
    bad_use (gh (run CS client n false (mk CS own p rsz psz c0) ops)) = 0.
  Proof. intros. destruct (run_inv ops _ (mk_inv own p rsz psz c0)) as [H _]. exact H. Qed.

  (** the statement in words: ANY exception out of [next()] - whichever client code raised it:
      [_render_], the padding's [pad], a non-Frame that the iterator trips over - and
      StopIteration leave the iterator closed, owned data finalized by exactly one entry, data
      of another owner untouched; from then on [next()] stops, control operations raise the
      finalized-iterator error and nothing is finalized again *)
  Lemma next_failure_closes : forall own p rsz psz c0 ops s' x,
    let s := run CS client n false (mk CS own p rsz psz c0) ops in
    closed s = false ->
    next CS client n false s = (s', x) ->
    (forall b, x <> OFrame b) ->
    closed s' = true /\
    finalized (gh s') = own /\ fin_calls (gh s') = (if own then 1 else 0) /\
    forall o, let '(s'', y) := step CS client n false s' o in
              dead_outcome o y = true /\ gh s'' = gh s'.
  Proof.
    intros own p rsz psz c0 ops s' x s Hop E Hx.
    assert (Hs : Inv s) by (apply run_inv, mk_inv).
    assert (Hown : owns (gh s) = own).
    { unfold s. clear. generalize (mk_inv own p rsz psz c0).
      assert (owns (gh (mk CS own p rsz psz c0)) = own) by reflexivity.
      revert H. generalize (mk CS own p rsz psz c0). induction ops as [|o r IH]; intros s0 H0 I0; simpl; auto.
      destruct (step CS client n false s0 o) as [s1 y] eqn:E1.
      destruct (step_local s0 o s1 y I0 E1) as [I1 [O1 _]]. simpl. apply IH; congruence. }
    destruct (step_local s Next s' x Hs E) as [Hs' [Ho [Hc _]]].
    assert (Hcl : closed s' = true).
    { rewrite Hc, Hop. simpl. destruct x; auto. exfalso. eapply Hx; eauto.
      (* OOk is never the outcome of next *)
      exfalso. clear - E. unfold next in E.
      repeat match type of E with
             | context [let '(_, _) := ?t in _] => destruct t
             | context [match ?t with _ => _ end] => destruct t
             end; inversion E. }
    split; auto. destruct Hs' as [_ Hi]. rewrite Hcl in Hi. rewrite Ho, Hown in Hi.
    destruct Hi as [H1 H2]. repeat split; auto.
    intros o. destruct (step CS client n false s' o) as [s'' y] eqn:E2.
    assert (Hs2 : Inv s').
    { destruct (step_local s Next s' x Hs E) as [X _]. exact X. }
    destruct (step_local s' o s'' y Hs2 E2) as [_ [_ [_ Hd]]]. apply Hd; auto.
  Qed.
End P.

(** ** Non-vacuity and the excluded design, on a concrete scripted client: 3 frames of size 11,
    padded size 33 (so every frame is padded); the padding's [pad] raises on the second frame *)
Definition ex_script : list entry :=
  [(0, 0, RVal 11); (1, 7, RVal 0); (0, 0, RVal 11); (1, 7, RRaise 5); (0, 0, RVal 11); (1, 7, RVal 0);
   (2, 7, RVal 33)].
Definition ex_ops : list op := [Next; Next; Next; Seek 0; SetSize 11; Close].
Definition ex_start : state script := mk script true 7 11 33 (ex_script, false).

(** the code: the failing [next] closes the iterator and finalizes; the third [next] stops *)
Example pad_failure_closes :
  map (fun p => o_out (snd p)) (trace script scripted (Some 3) false ex_start ex_ops)
  = [OFrame true; OErr (EClient 5); OStop; OErr EFinalized; OErr EFinalized; OOk]
  /\ map (fun p => o_fin (snd p)) (trace script scripted (Some 3) false ex_start ex_ops) = [0; 1; 1; 1; 1; 1]
  /\ spec_ok true false (trace script scripted (Some 3) false ex_start ex_ops) = true.
Proof. vm_compute. repeat split. Qed.

(** padding behind [__next__]'s ladder: the same error leaves the iterator open, the next
    [next()] yields the following frame, the control operations succeed, nothing is finalized
    until [close()] - and the history-level specification rejects that history *)
Example padding_after_the_ladder_refuted :
  map (fun p => o_out (snd p)) (trace script scripted (Some 3) true ex_start ex_ops)
  = [OFrame true; OErr (EClient 5); OFrame true; OOk; OOk; OOk]
  /\ map (fun p => o_fin (snd p)) (trace script scripted (Some 3) true ex_start ex_ops) = [0; 0; 0; 0; 0; 1]
  /\ spec_ok true false (trace script scripted (Some 3) true ex_start ex_ops) = false.
Proof. vm_compute. repeat split. Qed.

(** likewise for a [_render_] that returns a non-Frame *)
Example garbage_frame_refuted :
  let sc := ([(0, 0, RGarbage); (0, 0, RVal 33)], false) in
  spec_ok true false (trace script scripted (Some 3) false (mk script true 7 11 33 sc) [Next; Next; Seek 0]) = true /\
  spec_ok true false (trace script scripted (Some 3) true (mk script true 7 11 33 sc) [Next; Next; Seek 0]) = false.
Proof. vm_compute. split; reflexivity. Qed.

Lemma refuted_all :
  (exists n s ops, spec_ok true false (trace script scripted n true s ops) = false) /\
  (forall CS client n own p rsz psz c0 ops,
     spec_ok own false (trace CS client n false (mk CS own p rsz psz c0) ops) = true).
Proof.
  split.
  - exists (Some 3), ex_start, ex_ops. exact (proj2 (proj2 padding_after_the_ladder_refuted)).
  - intros. apply trace_spec_ok.
Qed.
