(** * IterProofs4 — without seeks: exactly [loops * n] frames, numbered cyclically (C08) *)
From Coq Require Import List ZArith Bool Lia Arith.
Import ListNotations.
From TI Require Import model.Iter model.IterSpec proofs.IterProofs proofs.IterProofs2.
Open Scope Z_scope.

(** [L] passes of [kn] frames, the countdown showing [L], [L-1], ..., [1] *)
Fixpoint countdown_passes (kn : nat) (Y : Z -> out) (L : nat) : list (out * Z) :=
  match L with
  | O => []
  | S L' => map (fun j => (Y (Z.of_nat j), Z.of_nat L)) (seq 0 kn) ++ countdown_passes kn Y L'
  end.

Section Frames.
  Variable RS : Type.
  Variable render : RS -> Z -> whence -> size -> dur -> Z -> rres * RS.
  Variable n : option Z.
  Variable term : size.
  (** a renderable that never fails and whose frames depend on the request only *)
  Variable F : Z -> whence -> size -> dur -> Z -> rframe.
  Hypothesis pure : forall r o w sz d a, fst (render r o w sz d a) = ROk (F o w sz d a).
  Variable k : Z.
  Hypothesis En : n = Some k.
  (** the settings, which no operation of the histories considered here changes *)
  Variables (sz : size) (du : dur) (ar : Z) (pd : padding).

  Notation astate := (astate RS).
  Notation spec_step := (spec_step RS render n term).
  Notation spec_trace := (spec_trace RS render n term).
  Notation spec_run := (spec_run RS render n term).

  Definition has_settings (a : astate) : Prop :=
    a_size a = sz /\ a_dur a = du /\ a_args a = ar /\ a_pad a = pd.

  Definition Y (j : Z) : out := OFrame (wrap_frame pd (padded_size pd sz) (F j WStart sz du ar)).

  Lemma next_in_pass : forall a,
      has_settings a -> a_closed a = false -> a_next a < k ->
      exists a1, spec_step a Next = (a1, Y (a_next a)) /\ has_settings a1 /\ a_closed a1 = false /\
                 a_next a1 = a_next a + 1 /\ a_loop a1 = a_loop a.
  Proof.
    intros a (H1 & H2 & H3 & H4) Hc Hlt. unfold IterSpec.spec_step. rewrite Hc.
    unfold IterSpec.spec_next. rewrite En.
    assert (E : (k <=? a_next a) = false) by lia. rewrite E. cbn [andb].
    pose proof (pure (a_rs a) (a_next a) WStart (a_size a) (a_dur a) (a_args a)) as Hp.
    destruct (render (a_rs a) (a_next a) WStart (a_size a) (a_dur a) (a_args a)) as [res r'].
    cbn in Hp. subst res. eexists. split; [unfold Y; rewrite H1, H2, H3, H4; reflexivity|].
    cbn. unfold has_settings; cbn. auto.
  Qed.

  Lemma next_wrap : forall a,
      has_settings a -> a_closed a = false -> k <= a_next a -> a_loop a <> 1 -> a_loop a <> 0 ->
      exists a1, spec_step a Next = (a1, Y 0) /\ has_settings a1 /\ a_closed a1 = false /\
                 a_next a1 = 1 /\ a_loop a1 = (if 0 <? a_loop a then a_loop a - 1 else a_loop a).
  Proof.
    intros a (H1 & H2 & H3 & H4) Hc Hge Hl1 Hl0. unfold IterSpec.spec_step. rewrite Hc.
    unfold IterSpec.spec_next. rewrite En.
    assert (E : (k <=? a_next a) = true) by lia. rewrite E. cbn [andb].
    assert (E0 : ((if 0 <? a_loop a then a_loop a - 1 else a_loop a) =? 0) = false).
    { destruct (0 <? a_loop a); lia. }
    rewrite E0.
    pose proof (pure (a_rs a) 0 WStart (a_size a) (a_dur a) (a_args a)) as Hp.
    destruct (render (a_rs a) 0 WStart (a_size a) (a_dur a) (a_args a)) as [res r'].
    cbn in Hp. subst res. eexists. split; [unfold Y; rewrite H1, H2, H3, H4; reflexivity|].
    cbn. unfold has_settings; cbn. auto.
  Qed.

  Lemma next_exhaust : forall a,
      a_closed a = false -> k <= a_next a -> a_loop a = 1 ->
      exists a1, spec_step a Next = (a1, OStop) /\ a_closed a1 = true /\ a_loop a1 = 0.
  Proof.
    intros a Hc Hge Hl. unfold IterSpec.spec_step. rewrite Hc.
    unfold IterSpec.spec_next. rewrite En.
    assert (E : (k <=? a_next a) = true) by lia. rewrite E, Hl. cbn.
    eexists. split; [reflexivity|]. cbn. auto.
  Qed.

  Lemma closed_nexts : forall m a,
      a_closed a = true -> spec_trace a (repeat Next m) = repeat (OStop, a_loop a) m.
  Proof.
    induction m as [|m IH]; intros a Hc; [reflexivity|].
    cbn [repeat IterSpec.spec_trace]. unfold IterSpec.spec_step. rewrite Hc. f_equal. apply IH. exact Hc.
  Qed.

  Lemma pass_from : forall d a,
      has_settings a -> a_closed a = false -> a_next a + Z.of_nat d = k ->
      spec_trace a (repeat Next d) = map (fun i => (Y (a_next a + Z.of_nat i), a_loop a)) (seq 0 d) /\
      has_settings (spec_run a (repeat Next d)) /\ a_closed (spec_run a (repeat Next d)) = false /\
      a_next (spec_run a (repeat Next d)) = k /\ a_loop (spec_run a (repeat Next d)) = a_loop a.
  Proof.
    induction d as [|d IH]; intros a Hs Hc Hk.
    - cbn. repeat split; auto; try apply Hs. lia.
    - destruct (next_in_pass a Hs Hc) as (a1 & E1 & Hs1 & Hc1 & Hn1 & Hl1); [lia|].
      cbn [repeat IterSpec.spec_trace]. rewrite E1.
      unfold IterSpec.spec_run; cbn [fold_left]. rewrite E1. cbn [fst].
      fold (spec_run a1 (repeat Next d)).
      destruct (IH a1 Hs1 Hc1) as (T & A & B & C & D); [lia|].
      split.
      + cbn [seq map]. rewrite Hl1. f_equal; [rewrite Z.add_0_r; reflexivity|].
        rewrite T. rewrite <- seq_shift, map_map. apply map_ext. intros i.
        rewrite Hn1, Hl1. f_equal. f_equal. lia.
      + rewrite D, Hl1. auto.
  Qed.

  Variable kn : nat.
  Hypothesis Hk : k = Z.of_nat kn.
  Hypothesis Hkn : (1 <= kn)%nat.

  (** one full pass starting at the end-of-pass boundary *)
  Lemma pass_wrapped : forall a,
      has_settings a -> a_closed a = false -> k <= a_next a -> a_loop a <> 1 -> a_loop a <> 0 ->
      let l' := if 0 <? a_loop a then a_loop a - 1 else a_loop a in
      spec_trace a (repeat Next kn) = map (fun j => (Y (Z.of_nat j), l')) (seq 0 kn) /\
      has_settings (spec_run a (repeat Next kn)) /\ a_closed (spec_run a (repeat Next kn)) = false /\
      a_next (spec_run a (repeat Next kn)) = k /\ a_loop (spec_run a (repeat Next kn)) = l'.
  Proof.
    intros a Hs Hc Hge Hl1 Hl0 l'.
    destruct kn as [|kn']; [lia|].
    destruct (next_wrap a Hs Hc Hge Hl1 Hl0) as (a1 & E1 & Hs1 & Hc1 & Hn1 & Hlp).
    cbn [repeat IterSpec.spec_trace]. rewrite E1.
    unfold IterSpec.spec_run; cbn [fold_left]. rewrite E1. cbn [fst].
    fold (spec_run a1 (repeat Next kn')).
    destruct (pass_from kn' a1 Hs1 Hc1) as (T & A & B & C & D); [lia|].
    split.
    - cbn [seq map]. fold l' in Hlp. rewrite Hlp. f_equal.
      rewrite T. rewrite <- seq_shift, map_map. apply map_ext. intros i.
      rewrite Hn1, Hlp. f_equal. f_equal. lia.
    - rewrite D. auto.
  Qed.

  Lemma repeat_add : forall {A} (x : A) p q, repeat x (p + q) = repeat x p ++ repeat x q.
  Proof. intros. apply repeat_app. Qed.

  Lemma from_boundary : forall L a m,
      has_settings a -> a_closed a = false -> a_next a = k -> a_loop a = Z.of_nat (S L) ->
      spec_trace a (repeat Next (L * kn + m)) = countdown_passes kn Y L ++ repeat (OStop, 0) m.
  Proof.
    induction L as [|L IH]; intros a m Hs Hc Hn Hl.
    - cbn [Nat.mul Nat.add countdown_passes app].
      destruct m as [|m]; [reflexivity|].
      destruct (next_exhaust a Hc) as (a1 & E1 & Hc1 & Hl1); [lia | exact Hl |].
      cbn [repeat IterSpec.spec_trace]. rewrite E1, Hl1. f_equal.
      rewrite (closed_nexts m a1 Hc1), Hl1. reflexivity.
    - replace (S L * kn + m)%nat with (kn + (L * kn + m))%nat by lia.
      rewrite repeat_add, spec_trace_app.
      destruct (pass_wrapped a Hs Hc) as (T & A & B & C & D); [lia | lia | lia |].
      assert (E : (0 <? a_loop a) = true) by lia. rewrite E in T, D.
      rewrite T. cbn [countdown_passes]. rewrite <- app_assoc. f_equal.
      + apply map_ext. intros j. f_equal. lia.
      + apply IH; auto. lia.
  Qed.

  (** the documented machine, fresh, finite [loops], only [next]s *)
  Lemma spec_frames_without_seek : forall L a m,
      has_settings a -> a_closed a = false -> a_next a = 0 -> a_loop a = Z.of_nat (S L) ->
      spec_trace a (repeat Next (S L * kn + m)) = countdown_passes kn Y (S L) ++ repeat (OStop, 0) m.
  Proof.
    intros L a m Hs Hc Hn Hl.
    replace (S L * kn + m)%nat with (kn + (L * kn + m))%nat by lia.
    rewrite repeat_add, spec_trace_app.
    destruct (pass_from kn a Hs Hc) as (T & A & B & C & D); [lia|].
    rewrite T. cbn [countdown_passes]. rewrite <- app_assoc. f_equal.
    - apply map_ext. intros j. rewrite Hn, Hl. reflexivity.
    - apply from_boundary; auto. lia.
  Qed.

  (** infinite iteration: the same pass again and again, the countdown never moves *)
  Lemma inf_boundary : forall p a,
      has_settings a -> a_closed a = false -> a_next a = k -> a_loop a < 0 ->
      spec_trace a (repeat Next (p * kn)) =
      concat (repeat (map (fun j => (Y (Z.of_nat j), a_loop a)) (seq 0 kn)) p).
  Proof.
    induction p as [|p IH]; intros a Hs Hc Hn Hl; [reflexivity|].
    replace (S p * kn)%nat with (kn + p * kn)%nat by lia.
    rewrite repeat_add, spec_trace_app.
    destruct (pass_wrapped a Hs Hc) as (T & A & B & C & D); [lia | lia | lia |].
    assert (E : (0 <? a_loop a) = false) by lia. rewrite E in T, D.
    rewrite T. cbn [repeat concat]. f_equal.
    rewrite IH; auto; [rewrite D; reflexivity | lia].
  Qed.

  Lemma spec_frames_without_seek_inf : forall p a,
      has_settings a -> a_closed a = false -> a_next a = 0 -> a_loop a < 0 ->
      spec_trace a (repeat Next (p * kn)) =
      concat (repeat (map (fun j => (Y (Z.of_nat j), a_loop a)) (seq 0 kn)) p).
  Proof.
    intros p a Hs Hc Hn Hl. destruct p as [|p]; [reflexivity|].
    replace (S p * kn)%nat with (kn + p * kn)%nat by lia.
    rewrite repeat_add, spec_trace_app.
    destruct (pass_from kn a Hs Hc) as (T & A & B & C & D); [lia|].
    rewrite T. cbn [repeat concat]. f_equal.
    - apply map_ext. intros j. rewrite Hn. reflexivity.
    - rewrite inf_boundary; auto; [rewrite D; reflexivity | lia].
  Qed.
End Frames.

(** ** the same for the iterator, through the refinement *)
Section FramesIter.
  Variable RS : Type.
  Variable render : RS -> Z -> whence -> size -> dur -> Z -> rres * RS.
  Variable term : size.
  Variable F : Z -> whence -> size -> dur -> Z -> rframe.
  Hypothesis pure : forall r o w sz d a, fst (render r o w sz d a) = ROk (F o w sz d a).

  Lemma pure_det : render_det RS render.
  Proof. intros r1 r2 o w sz d a. rewrite !pure. reflexivity. Qed.

  (** what frame [j] looks like under the configuration's settings *)
  Definition frame_of (c : config) (a : Z) (j : Z) : out :=
    Y F (c_size c) (c_dur c) a (resolve term (c_pad c)) j.

  Lemma spec_mk_fresh : forall kn c rs0 a,
      spec_mk RS (Some (Z.of_nat kn)) term c rs0 = inl a ->
      exists v, c_args c = Some v /\
                has_settings RS (c_size c) (c_dur c) v (resolve term (c_pad c)) a /\
                a_closed a = false /\ a_next a = 0 /\ a_loop a = c_loops c /\ (2 <= kn)%nat.
  Proof.
    intros kn c rs0 a. unfold spec_mk.
    destruct (Z.of_nat kn <? 2) eqn:E2; [discriminate|].
    destruct (c_loops c =? 0); [discriminate|].
    destruct (match c_cache c with CBool _ => false | CInt v => v <=? 0 end); [discriminate|].
    destruct (c_args c) as [v|]; [|discriminate]. intros H; inversion H; subst.
    exists v. unfold has_settings; cbn. repeat split; auto. lia.
  Qed.

  Theorem frames_without_seek : forall kn c rs0 s L m,
      mk RS (Some (Z.of_nat kn)) term c rs0 = inl s ->
      c_loops c = Z.of_nat (S L) ->
      exists v, c_args c = Some v /\
      trace RS render (Some (Z.of_nat kn)) term s (repeat Next (S L * kn + m)) =
      countdown_passes kn (frame_of c v) (S L) ++ repeat (OStop, 0) m.
  Proof.
    intros kn c rs0 s L m Hs Hl.
    destruct (spec_mk RS (Some (Z.of_nat kn)) term c rs0) as [a|e] eqn:Ha.
    2:{ apply (mk_refines_spec RS (Some (Z.of_nat kn)) term c rs0 e) in Ha. congruence. }
    destruct (spec_mk_fresh kn c rs0 a Ha) as (v & Hv & Hset & Hc & Hn & Hlp & Hkn).
    exists v. split; [exact Hv|].
    rewrite (iter_refines_spec RS render (Some (Z.of_nat kn)) term c rs0 s a _ (or_intror pure_det) Hs Ha).
    apply (spec_frames_without_seek RS render (Some (Z.of_nat kn)) term F pure (Z.of_nat kn) eq_refl
             (c_size c) (c_dur c) v (resolve term (c_pad c)) kn eq_refl); auto; [lia | congruence].
  Qed.

  Theorem frames_without_seek_infinite : forall kn c rs0 s p,
      mk RS (Some (Z.of_nat kn)) term c rs0 = inl s ->
      c_loops c < 0 ->
      exists v, c_args c = Some v /\
      trace RS render (Some (Z.of_nat kn)) term s (repeat Next (p * kn)) =
      concat (repeat (map (fun j => (frame_of c v (Z.of_nat j), c_loops c)) (seq 0 kn)) p).
  Proof.
    intros kn c rs0 s p Hs Hl.
    destruct (spec_mk RS (Some (Z.of_nat kn)) term c rs0) as [a|e] eqn:Ha.
    2:{ apply (mk_refines_spec RS (Some (Z.of_nat kn)) term c rs0 e) in Ha. congruence. }
    destruct (spec_mk_fresh kn c rs0 a Ha) as (v & Hv & Hset & Hc & Hn & Hlp & Hkn).
    exists v. split; [exact Hv|].
    rewrite (iter_refines_spec RS render (Some (Z.of_nat kn)) term c rs0 s a _ (or_intror pure_det) Hs Ha).
    rewrite <- Hlp.
    apply (spec_frames_without_seek_inf RS render (Some (Z.of_nat kn)) term F pure (Z.of_nat kn) eq_refl
             (c_size c) (c_dur c) v (resolve term (c_pad c)) kn eq_refl); auto; [lia | congruence].
  Qed.
End FramesIter.
