(** C13 — terminal attributes are always put back: the translated skeletons
    ([gen/Skeletons.v], regenerated from the source on every run) of [query_terminal],
    [read_tty], [write_tty] and [Renderable.draw] are analysed by the verified analysis of
    [lib/Eff.v] with EVERY call allowed to raise KeyboardInterrupt or an Exception,
    before or after it takes effect, outside the function's own clean-up blocks. *)
From Coq Require Import List Bool Arith.
Import ListNotations.
From TI Require Import lib.Eff lib.EffSound lib.EffRun gen.Skeletons.

(** the obligation of C13: the attributes are those found at entry *)
Definition attrs_restored (o : outcome) (s : st) : bool := negb (tmod s).

Lemma restored_false : forall o s, attrs_restored o s = true -> tmod s = false.
Proof. intros o s H. unfold attrs_restored in H. destruct (tmod s); [discriminate|reflexivity]. Qed.

(** reflection: the analysis accepts the current source *)
Lemma query_analysis : analyze cfg_all nv_query_terminal sk_query_terminal attrs_restored = true.
Proof. vm_compute. reflexivity. Qed.
Lemma read_tty_analysis : analyze cfg_all nv_read_tty sk_read_tty attrs_restored = true.
Proof. vm_compute. reflexivity. Qed.
Lemma write_tty_analysis : analyze cfg_all nv_write_tty sk_write_tty attrs_restored = true.
Proof. vm_compute. reflexivity. Qed.
Lemma draw_attrs_analysis : analyze cfg_all nv_Renderable_draw sk_Renderable_draw attrs_restored = true.
Proof. vm_compute. reflexivity. Qed.

Lemma query_restores :
  forall vs, length vs = nv_query_terminal ->
  forall o s', eval cfg_all false sk_query_terminal (init vs) o s' -> tmod s' = false.
Proof. intros vs H o s' E. apply (restored_false o). exact (analyze_sound _ _ _ _ query_analysis vs H o s' E). Qed.

Lemma read_tty_restores :
  forall vs, length vs = nv_read_tty ->
  forall o s', eval cfg_all false sk_read_tty (init vs) o s' -> tmod s' = false.
Proof. intros vs H o s' E. apply (restored_false o). exact (analyze_sound _ _ _ _ read_tty_analysis vs H o s' E). Qed.

Lemma write_tty_restores :
  forall vs, length vs = nv_write_tty ->
  forall o s', eval cfg_all false sk_write_tty (init vs) o s' -> tmod s' = false.
Proof. intros vs H o s' E. apply (restored_false o). exact (analyze_sound _ _ _ _ write_tty_analysis vs H o s' E). Qed.

Lemma draw_restores_attrs :
  forall vs, length vs = nv_Renderable_draw ->
  forall o s', eval cfg_all false sk_Renderable_draw (init vs) o s' -> tmod s' = false.
Proof. intros vs H o s' E. apply (restored_false o). exact (analyze_sound _ _ _ _ draw_attrs_analysis vs H o s' E). Qed.

(** * Non-vacuity *)

(** the analysis is not trivially true: the usual breaking edits are rejected *)
Definition mutant_restore_after_try : prog :=   (* restore moved out of the finally *)
  sq [Op (GetAttr 0); Op (GetAttr 1); Op (MutAttr 1); Op (SetAttr 1); Op TtyRead; Op (SetAttr 0)].
Definition mutant_restores_new : prog :=        (* finally restores new_attr *)
  sq [Op (GetAttr 0); Op (GetAttr 1); Op (MutAttr 1); TryFinally true (sq [Op (SetAttr 1); Op TtyRead]) (Op (SetAttr 1))].
Definition mutant_set_before_try : prog :=      (* tcsetattr before the try *)
  sq [Op (GetAttr 0); Op (GetAttr 1); Op (MutAttr 1); Op (SetAttr 1); TryFinally true (Op TtyRead) (Op (SetAttr 0))].
Definition mutant_old_mutated : prog :=         (* the saved list is changed before it is put back *)
  sq [Op (GetAttr 0); Op (GetAttr 1); Op (MutAttr 1); TryFinally true (sq [Op (SetAttr 1); Op (MutAttr 0)]) (Op (SetAttr 0))].
Example analysis_rejects_mutants :
  analyze cfg_all 0 mutant_restore_after_try attrs_restored = false /\
  analyze cfg_all 0 mutant_restores_new attrs_restored = false /\
  analyze cfg_all 0 mutant_set_before_try attrs_restored = false /\
  analyze cfg_all 0 mutant_old_mutated attrs_restored = false.
Proof. vm_compute. repeat split. Qed.

(** the hypothesis of the theorems is satisfiable by an interesting run (computed by the
    deterministic runner of [lib/EffRun.v], so that this does not depend on the shape of
    the translated source): some call is interrupted by KeyboardInterrupt right AFTER it
    took effect, the attributes had been modified on the way ([tmod] seen), the run ends
    with KeyboardInterrupt propagating and the attributes restored *)
Definition restored (s : st) : bool := negb (tmod s).
Example read_tty_interrupted_witness :
  witness cfg_all KI true tmod restored (ORaise KI) sk_read_tty [false] 60 = true.
Proof. vm_compute. reflexivity. Qed.
Example read_tty_interrupted_run :
  exists s', eval cfg_all false sk_read_tty (init [false]) (ORaise KI) s' /\ restored s' = true.
Proof. exact (witness_run _ _ _ _ _ _ _ _ _ read_tty_interrupted_witness). Qed.
Example query_interrupted_witness :
  witness cfg_all KI true tmod restored (ORaise KI) sk_query_terminal (repeat false nv_query_terminal) 60 = true.
Proof. vm_compute. reflexivity. Qed.
Example draw_interrupted_witness :
  witness cfg_all Exc false tmod restored (ORaise Exc) sk_Renderable_draw (repeat false nv_Renderable_draw) 80 = true.
Proof. vm_compute. reflexivity. Qed.
