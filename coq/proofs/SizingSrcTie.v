(** * SizingSrcTie — [BaseImage._valid_size], TRANSLATED from the source on every run
    ([gen/SizingSrc.v], by [harness/tx/tx_sizing.py]), is, for ALL arguments inside the API's
    domain and for EVERY float arithmetic [FA], the hand-written model [Sizing.valid_size] the
    C04 theorems are stated about.  The tie of the sizing algorithm to the source is therefore a
    theorem about what the source says now, not a sample of runs. *)
From Coq Require Import ZArith Bool Lia List.
From TI Require Import lib.FArith model.Sizing gen.SizingSrc.
Open Scope Z_scope.

(** the API's domain: [set_size] raises [TypeError] for anything that is not None / int / Size
    and [ValueError] for a [Size] next to an int before [_valid_size] is reached
    (common.py [set_size]; modelled by [Sizing.set_size]) *)
Definition dims_ok (w h : dim) : bool :=
  match w, h with
  | DBad, _ | _, DBad => false
  | DInt _, DSize _ | DSize _, DInt _ => false
  | _, _ => true
  end.

Section Tie.
  Context {FA : FloatArith}.
  Local Opaque fmin.

  Lemma pixel_ratio_is_source : forall fam (e : env FA),
    pixel_ratio fam e =
    match fam with
    | Graphics => src_graphics_pixel_ratio
    | Text => src_text_pixel_ratio (src_get_cell_ratio (e_ratio e) (e_cell e))
    end.
  Proof. intros [] e; reflexivity. Qed.

  Lemma width_height_px_is_source : forall ow oh x,
    @whpx_w FA ow oh x = src_width_height_px_w ow oh x /\ @whpx_h FA ow oh x = src_width_height_px_h ow oh x.
  Proof. intros; split; reflexivity. Qed.

  Lemma or1_let : forall z, (let o_ := z in if o_ =? 0 then 1 else o_) = or1 z.
  Proof. reflexivity. Qed.

  Theorem valid_size_is_source : forall fam (e : env FA) ow oh w h frame,
    dims_ok w h = true ->
    src_valid_size (px_of_cols fam e) (cols_of_px fam e) (px_of_lines fam e) (lines_of_px fam e)
                   (pixel_ratio fam e) ow oh (e_cols e) (e_lines e) w h (fst frame) (snd frame)
    = valid_size fam e ow oh w h frame.
  Proof.
    intros fam e ow oh w h [f0 f1] Hok.
    unfold src_valid_size, valid_size. cbn [fst snd].
    replace (if f0 >? 0 then f0 else Z.max (e_cols e + f0) 1) with (resolve f0 (e_cols e))
      by (unfold resolve; rewrite Z.gtb_ltb; reflexivity).
    replace (if f1 >? 0 then f1 else Z.max (e_lines e + f1) 1) with (resolve f1 (e_lines e))
      by (unfold resolve; rewrite Z.gtb_ltb; reflexivity).
    generalize (px_of_cols fam e (resolve f0 (e_cols e))) as fw.
    generalize (px_of_lines fam e (resolve f1 (e_lines e))) as fh.
    intros fh fw.
    unfold original_hpx, fit_px, src_width_height_px_w, src_width_height_px_h, whpx_w, whpx_h.
    rewrite !Z.gtb_ltb.
    destruct w as [|wi|[]|], h as [|hi|[]|]; try discriminate Hok;
      cbn [has dim_is smode_eqb orb negb andb is_int is_none dim_z];
      cbv zeta;
      repeat match goal with
             | |- context [if ?a =? 0 then 1 else ?a] => change (if a =? 0 then 1 else a) with (or1 a)
             end;
      try reflexivity;
      try (destruct ((fw <? ow) || (fh <? fround (fmul (ofZ oh) (pixel_ratio fam e)))); cbn [has dim_is smode_eqb orb]);
      try reflexivity;
      match goal with
      | |- context [if fltb ?a ?b then _ else _] => destruct (fltb a b); reflexivity
      end.
  Qed.

  Theorem default_frame_is_source : default_frame = src_default_frame.
  Proof. reflexivity. Qed.
End Tie.

(** non-vacuity: the domain guard holds for every argument form the API admits *)
Example dims_ok_examples :
  dims_ok DNone DNone = true /\ dims_ok (DSize AUTO) DNone = true /\ dims_ok (DInt 3) DNone = true
  /\ dims_ok DNone (DInt 4) = true /\ dims_ok (DInt 3) (DInt 4) = true
  /\ dims_ok (DSize FIT) (DSize ORIGINAL) = true.
Proof. repeat split. Qed.
