(** C06, animations ended by Ctrl-C ([model/DrawCut.v]): for EVERY interruption point the
    final-state predicate [CutFinal] holds; between two frames the full [DrawFinal] against
    the last completely drawn frame.  Lemmas; [props/C06.v] states the theorems.

    Structure: (1) recovery — from whatever state the interrupt leaves, the clean-up of the
    code brings the cursor to the left margin [tail + 1] lines further down, visible,
    attributes reset, protocol clean, drawing nothing; (2) the delivered part is a prefix of
    an uninterrupted draw, whose events all lie in the region ([DrawFinal]'s [df_box]), so do
    the prefix's; (3) assembly. *)
From Coq Require Import List ZArith Bool Lia.
Import ListNotations.
From TI Require Import lib.Term lib.TermFacts lib.Rect lib.Lines lib.TermScroll
     model.Padding model.Draw model.DrawCut
     proofs.DrawLines proofs.DrawProofs proofs.DrawProofsOld proofs.DrawFinal proofs.DrawIntProofs.
From TI Require model.DrawInt.
Open Scope Z_scope.

Definition is_show (x : tok) : bool := match x with TShow => true | _ => false end.
Definition is_move (e : ev) : bool := match e with EMove _ _ => true | _ => false end.

(** ** recovery *)

(** the clean-up of the old API after the style's handler: [cursor_down(lines - 1)],
    [SGR_DEFAULT], [SHOW_CURSOR] on a terminal, ["\n"] *)
Lemma old_recovery_any lm (s : DrawInt.style) t tty lines :
  safe s t -> 1 <= lines ->
  let R := old_recovery tty (DrawInt.handler s) lines in
  let t' := exec lm t R in
  col t' = lm /\ row t' = row t + lines /\ sgr t' = adefault
  /\ parser t' = Ground /\ pending t' = None
  /\ visible t' = (if tty then true else visible t)
  /\ forallb is_move (exec_evs lm t R) = true.
Proof.
  intros Hs Hl R t'. subst R t'. unfold old_recovery, DrawInt.handler, cud.
  destruct t as [r c0 a v sy p pe lg].
  destruct (0 <? lines - 1) eqn:E.
  - apply Z.ltb_lt in E.
    destruct s; simpl in Hs; destruct tty, p; cbn in *;
      repeat match goal with H : _ /\ _ |- _ => destruct H end; subst;
      try congruence; unfold pos1; repeat split; try reflexivity; try lia.
  - apply Z.ltb_ge in E.
    destruct s; simpl in Hs; destruct tty, p; cbn in *;
      repeat match goal with H : _ /\ _ |- _ => destruct H end; subst;
      try congruence; repeat split; try reflexivity; try lia.
Qed.

(** the clean-up of the new API after the handler position: [cursor_down(n)] if the first
    frame had been written, ["\n"], [SHOW_CURSOR] if it was hidden *)
Lemma new_recovery_any lm t hide n :
  parser t <> InStr -> pending t = None -> sgr t = adefault -> 0 <= n ->
  let R := cud n ++ [TLF] ++ opt hide TShow in
  let t' := exec lm t R in
  col t' = lm /\ row t' = row t + n + 1 /\ sgr t' = adefault
  /\ parser t' <> InStr /\ pending t' = None
  /\ (hide = true \/ parser t = Ground \/ 0 < n -> parser t' = Ground)
  /\ visible t' = (if hide then true else visible t)
  /\ forallb is_move (exec_evs lm t R) = true.
Proof.
  intros Hp Hpe Hs Hn R t'. subst R t'. unfold cud, opt.
  destruct t as [r c0 a v sy p pe lg]. cbn in Hp, Hpe, Hs. subst.
  destruct (0 <? n) eqn:E.
  - apply Z.ltb_lt in E.
    destruct hide, p; cbn; unfold pos1; repeat split; try reflexivity; try congruence; try lia;
      intros; reflexivity.
  - apply Z.ltb_ge in E. assert (n = 0) by lia. subst n.
    destruct hide, p; cbn; repeat split; try reflexivity; try congruence; try lia;
      intros [H|[H|H]]; try congruence; try lia; reflexivity.
Qed.

(** what the new API asks of [_handle_interrupted_draw_]: from any state a cut frame write can
    leave (not inside a string, no chunk pending) it ends the cut sequence and resets the
    attributes without moving the cursor or drawing *)
Definition HndOK (lm : Z) (hnd : list tok) : Prop :=
  forall t, parser t <> InStr -> pending t = None ->
    let t' := exec lm t hnd in
    parser t' = Ground /\ pending t' = None /\ sgr t' = adefault /\ visible t' = visible t
    /\ row t' = row t /\ col t' = col t /\ exec_evs lm t hnd = [].

Lemma hnd_sgr0_ok lm : HndOK lm [TSgr0].
Proof.
  intros t Hp Hpe. destruct t as [r c0 a v sy p pe lg]. cbn in *. subst.
  destruct p; cbn; repeat split; congruence.
Qed.

Lemma hnd_st_sgr0_ok lm : HndOK lm [TSt; TSgr0].
Proof.
  intros t Hp Hpe. destruct t as [r c0 a v sy p pe lg]. cbn in *. subst.
  destruct p; cbn; repeat split; congruence.
Qed.

Lemma In_firstn {A} (x : A) n : forall l, In x (firstn n l) -> In x l.
Proof.
  induction n as [|n IH]; intros [|y l] H; cbn in *; try contradiction.
  destruct H as [H|H]; [left; exact H|right; apply IH, H].
Qed.

Lemma later_frame_parts' l h clear F : later_frame l h clear F = clear ++ lframe l F ++ ctop l h.
Proof. reflexivity. Qed.

(** ** the delivered part as [X ++ cutw w j c] *)

Definition new_parts (l b h : Z) (clear P : list tok) (Fs : list (list tok)) (p : ipoint)
  : list tok * list tok * nat * option cut_kind :=
  match p with
  | IFirst j c => ([], P, j, c)
  | ITop1 j c => (P, ctop1 l b h, j, c)
  | IBetween m => (P ++ ctop1 l b h ++ done_later l h clear Fs m, [], O, None)
  | IClear m j c => (P ++ ctop1 l b h ++ done_later l h clear Fs m, clear, j, c)
  | IFrame m j c => (P ++ ctop1 l b h ++ done_later l h clear Fs m ++ clear, lframe l (nth m Fs []), j, c)
  | ITop m j c => (P ++ ctop1 l b h ++ done_later l h clear Fs m ++ clear ++ lframe l (nth m Fs []),
                   ctop l h, j, c)
  end.

Lemma anim_delivered_parts l b h clear P Fs p :
  let '(X, w, j, c) := new_parts l b h clear P Fs p in
  anim_delivered l b h clear P Fs p = X ++ cutw w j c.
Proof.
  destruct p; cbn [new_parts anim_delivered]; rewrite <- ?app_assoc; try reflexivity.
  unfold cutw, DrawInt.cutw. cbn. rewrite !app_nil_r. reflexivity.
Qed.

Definition old_parts (lines : Z) (clear P1 : list tok) (Ps : list (list tok)) (p : opoint)
  : list tok * list tok * nat * option cut_kind :=
  match p with
  | OFrame m j c => (old_done lines clear P1 Ps m ++ old_pre_clear clear m, nth m (P1 :: Ps) [], j, c)
  | OTop m j c => (old_done lines clear P1 Ps m ++ old_pre_clear clear m ++ nth m (P1 :: Ps) [],
                   old_ctop lines, j, c)
  | OClear m j c => (old_done lines clear P1 Ps m, clear, j, c)
  | OBetween m => (old_done lines clear P1 Ps m, [], O, None)
  end.

Lemma old_delivered_parts lines clear P1 Ps p :
  let '(X, w, j, c) := old_parts lines clear P1 Ps p in
  old_delivered lines clear P1 Ps p = X ++ cutw w j c.
Proof.
  destruct p; cbn [old_parts old_delivered]; rewrite <- ?app_assoc; try reflexivity.
  unfold cutw, DrawInt.cutw. cbn. rewrite !app_nil_r. reflexivity.
Qed.

(** closure of a token class under the constructions of the streams *)
Section Class.
Variable q : tok -> bool.
Hypothesis q_cr : q TCR = true.
Hypothesis q_lf : q TLF = true.
Hypothesis q_cuu : forall n, q (TCuu n) = true.
Hypothesis q_cuf : forall n, q (TCuf n) = true.

Lemma q_cuu_l n : forallb q (cuu n) = true.
Proof. unfold cuu. destruct (0 <? n); cbn; rewrite ?q_cuu; reflexivity. Qed.
Lemma q_cuf_l n : forallb q (cuf n) = true.
Proof. unfold cuf, fillseg. destruct (0 <? n); cbn; rewrite ?q_cuf; reflexivity. Qed.

Lemma q_ctop1 l b h : forallb q (ctop1 l b h) = true.
Proof. unfold ctop1. rewrite !forallb_app, q_cuu_l, q_cuf_l. cbn. rewrite q_cr. reflexivity. Qed.
Lemma q_ctop l h : forallb q (ctop l h) = true.
Proof. unfold ctop. rewrite !forallb_app, q_cuu_l, q_cuf_l. cbn. rewrite q_cr. reflexivity. Qed.
Lemma q_old_ctop lines : forallb q (old_ctop lines) = true.
Proof. unfold old_ctop. rewrite !forallb_app, q_cuu_l. cbn. rewrite q_cr. reflexivity. Qed.

Lemma q_lframe l F : forallb q F = true -> forallb q (lframe l F) = true.
Proof.
  unfold lframe. induction F as [|x F IH]; intros H; [reflexivity|].
  cbn [forallb] in H. apply andb_true_iff in H. destruct H as [Hx HF].
  destruct x; cbn [subst_lf app forallb]; rewrite ?Hx, ?forallb_app, ?q_cuf_l, ?IH by assumption; reflexivity.
Qed.

Lemma q_nth (Fs : list (list tok)) m :
  Forall (fun F => forallb q F = true) Fs -> forallb q (nth m Fs []) = true.
Proof.
  intros H. destruct (nth_in_or_default m Fs []) as [Hin | ->]; [|reflexivity].
  exact (proj1 (Forall_forall _ _) H _ Hin).
Qed.

Lemma q_concat (ls : list (list tok)) :
  Forall (fun F => forallb q F = true) ls -> forallb q (concat ls) = true.
Proof.
  induction 1 as [|x ls Hx _ IH]; [reflexivity|]. cbn. rewrite forallb_app, Hx, IH. reflexivity.
Qed.

Lemma q_done_later l h clear Fs m :
  forallb q clear = true -> Forall (fun F => forallb q F = true) Fs ->
  forallb q (done_later l h clear Fs m) = true.
Proof.
  intros Hc HF. unfold done_later. apply q_concat. apply Forall_forall. intros x Hx.
  apply in_map_iff in Hx. destruct Hx as (F & <- & HinF).
  rewrite later_frame_parts', !forallb_app, Hc, q_ctop, q_lframe; [reflexivity|].
  apply (proj1 (Forall_forall _ _) HF). eapply In_firstn; eassumption.
Qed.

Lemma new_parts_class l b h clear P Fs p :
  forallb q P = true -> forallb q clear = true -> Forall (fun F => forallb q F = true) Fs ->
  let '(X, w, _, _) := new_parts l b h clear P Fs p in
  forallb q X = true /\ forallb q w = true.
Proof.
  intros HP Hc HF.
  pose proof (q_done_later l h clear Fs) as HD.
  destruct p as [j c|j c|m|m j c|m j c|m j c]; cbn [new_parts];
    rewrite ?forallb_app, ?HP, ?Hc, ?q_ctop1, ?q_ctop, ?HD, ?q_lframe by (auto using q_nth);
    split; try reflexivity; auto using q_lframe, q_nth.
Qed.

Lemma q_old_done lines clear P1 Ps m :
  forallb q P1 = true -> forallb q clear = true -> Forall (fun F => forallb q F = true) Ps ->
  forallb q (old_done lines clear P1 Ps m) = true.
Proof.
  intros H1 Hc HF. destruct m as [|m]; [reflexivity|]. cbn [old_done]. unfold old_frame.
  rewrite !forallb_app, H1, q_cuu_l. cbn [forallb]. rewrite q_cr. cbn.
  apply q_concat. apply Forall_forall. intros x Hx.
  apply in_map_iff in Hx. destruct Hx as (F & <- & HinF).
  rewrite !forallb_app, Hc. cbn [forallb]. rewrite q_cr, q_cuu_l.
  rewrite (proj1 (Forall_forall _ _) HF F); [reflexivity|]. eapply In_firstn; eassumption.
Qed.

Lemma old_parts_class lines clear P1 Ps p :
  forallb q P1 = true -> forallb q clear = true -> Forall (fun F => forallb q F = true) Ps ->
  let '(X, w, _, _) := old_parts lines clear P1 Ps p in
  forallb q X = true /\ forallb q w = true.
Proof.
  intros H1 Hc HF.
  pose proof (q_old_done lines clear P1 Ps) as HD.
  assert (HN : forall m, forallb q (nth m (P1 :: Ps) []) = true).
  { intros m. apply q_nth. constructor; assumption. }
  assert (HPC : forall m, forallb q (old_pre_clear clear m) = true) by (intros [|m]; [reflexivity|exact Hc]).
  destruct p as [m j c|m j c|m j c|m]; cbn [old_parts];
    rewrite ?forallb_app, ?HD, ?HPC, ?HN, ?q_old_ctop by assumption; split; auto.
Qed.
End Class.

(** ** token classes *)

(** neither hides nor shows the cursor *)
Definition nohs (x : tok) : bool := negb (is_hide x) && negb (is_show x).
(** what a frame of a text-based renderable consists of *)
Definition ftok (x : tok) : bool := DrawInt.plain_tok x && nohs x.

Lemma step_vis_same lm t x : nohs x = true -> visible (step lm t x) = visible t.
Proof.
  intros H. unfold step. destruct (parser t) eqn:E.
  - destruct x; try discriminate H; simpl; try reflexivity.
    + destruct (pending t); [reflexivity|]. destruct more; [reflexivity|]. apply place_visible.
    + destruct (pending t); [|reflexivity]. destruct more; [reflexivity|]. rewrite place_visible. reflexivity.
    + destruct dnmc; reflexivity.
    + match goal with c : cut_kind |- _ => destruct c end; reflexivity.
  - destruct x; try discriminate H; simpl; try reflexivity.
    + destruct (pending t); [reflexivity|]. destruct more; [reflexivity|]. rewrite place_visible. reflexivity.
    + destruct (pending t); [|reflexivity]. destruct more; [reflexivity|]. rewrite place_visible. reflexivity.
    + destruct dnmc; reflexivity.
    + match goal with c : cut_kind |- _ => destruct c end; reflexivity.
  - destruct x; reflexivity.
Qed.

Lemma exec_vis_same lm ts : forall t, forallb nohs ts = true -> visible (exec lm t ts) = visible t.
Proof.
  induction ts as [|x ts IH]; intros t H; [reflexivity|].
  cbn [forallb] in H. apply andb_true_iff in H. destruct H as [Hx Hts].
  rewrite exec_cons, IH, step_vis_same by assumption. reflexivity.
Qed.

(** a [TCut] neither draws nor moves *)
Lemma cutw_tail w j c : exists tl, cutw w j c = firstn j w ++ tl /\ (tl = [] \/ exists k, tl = [TCut k]).
Proof.
  unfold cutw, DrawInt.cutw. eexists. split; [reflexivity|].
  destruct c as [k|]; [|left; reflexivity]. destruct (nth_error w j) as [x|]; [|left; reflexivity].
  destruct (DrawInt.cut_ok x k); [right; eexists; reflexivity|left; reflexivity].
Qed.

Lemma exec_cut_tail lm t tl : (tl = [] \/ exists k, tl = [TCut k]) ->
  row (exec lm t tl) = row t /\ col (exec lm t tl) = col t /\ sgr (exec lm t tl) = sgr t
  /\ visible (exec lm t tl) = visible t /\ exec_evs lm t tl = [].
Proof.
  intros [-> | [k ->]]; [repeat split; reflexivity|].
  destruct t as [r c0 a v sy p pe lg]. destruct p, k; cbn; repeat split; reflexivity.
Qed.

Definition cut_of_new (p : ipoint) : option cut_kind :=
  match p with
  | IFirst _ c | ITop1 _ c | IClear _ _ c | IFrame _ _ c | ITop _ _ c => c
  | IBetween _ => None
  end.

Lemma ftok_plain x : ftok x = true -> DrawInt.plain_tok x = true.
Proof. unfold ftok. intros H. apply andb_true_iff in H. tauto. Qed.
Lemma ftok_nohs x : ftok x = true -> nohs x = true.
Proof. unfold ftok. intros H. apply andb_true_iff in H. tauto. Qed.

Lemma forallb_cutw_plain w j c : forallb DrawInt.plain_tok w = true ->
  forallb (fun x => negb (str_cut x)) (cutw w j c) = true
  /\ forallb (fun x => negb (kitty_tx x)) (cutw w j c) = true.
Proof.
  intros Hw. split.
  - apply cutw_forallb with (p := DrawInt.plain_tok); [assumption|apply plain_not_strcut|].
    intros x k0 Hx Hk. rewrite (plain_cut x k0 Hx Hk). reflexivity.
  - apply cutw_forallb with (p := DrawInt.plain_tok); [assumption|apply plain_not_kitty|]. reflexivity.
Qed.

(** ** new API: the clean-up from every interruption point *)
Section NewRecover.
Variable lm : Z.
Variables (hide : bool) (hnd : list tok) (l b h : Z) (clear P : list tok) (Fs : list (list tok)).
Hypothesis Hhnd : HndOK lm hnd.
Hypothesis Hhb : 0 <= h + b - 1.
Hypothesis HP : forallb ftok P = true.
Hypothesis Hclear : forallb ftok clear = true.
Hypothesis HFs : Forall (fun F => forallb ftok F = true) Fs.

Let D (p : ipoint) := opt hide THide ++ anim_delivered l b h clear P Fs p.
Let S (p : ipoint) := anim_cut hide hnd l b h clear P Fs p.

Lemma anim_cut_split p : S p = D p ++ anim_recovery hide hnd b h p.
Proof. unfold S, D, anim_cut. rewrite <- app_assoc. reflexivity. Qed.

Lemma ftok_ctl : ftok TCR = true /\ ftok TLF = true /\ (forall n, ftok (TCuu n) = true) /\ (forall n, ftok (TCuf n) = true).
Proof. repeat split. Qed.

(** the state the interrupt leaves: not inside a string, no chunk pending, the visibility
    untouched by the frames *)
Lemma delivered_state p t0 :
  parser t0 = Ground -> pending t0 = None ->
  let tc := exec lm t0 (D p) in
  parser tc <> InStr /\ pending tc = None
  /\ visible tc = (if hide then false else visible t0)
  /\ (cut_of_new p = None -> parser tc = Ground).
Proof.
  intros Hg Hpe tc. subst tc. unfold D.
  pose proof (anim_delivered_parts l b h clear P Fs p) as Eparts.
  destruct ftok_ctl as (q1 & q2 & q3 & q4).
  pose proof (new_parts_class ftok q1 q3 q4 l b h clear P Fs p HP Hclear HFs) as Hcl.
  destruct (new_parts l b h clear P Fs p) as [[[X w] j] c] eqn:Ep.
  destruct Hcl as [HX Hw]. rewrite Eparts.
  assert (HXp : forallb DrawInt.plain_tok X = true) by (eapply forallb_impl; [apply ftok_plain|exact HX]).
  assert (Hwp : forallb DrawInt.plain_tok w = true) by (eapply forallb_impl; [apply ftok_plain|exact Hw]).
  set (t1 := exec lm t0 (opt hide THide)).
  assert (G1 : parser t1 = Ground /\ pending t1 = None /\ visible t1 = (if hide then false else visible t0)).
  { subst t1. destruct hide; cbn [opt exec fold_left]; [|auto].
    unfold step. rewrite Hg. cbn. auto. }
  destruct G1 as (G1 & P1 & V1).
  rewrite !exec_app. fold t1.
  set (t2 := exec lm t1 X).
  assert (G2 : parser t2 = Ground) by (apply exec_plain_ground; assumption).
  assert (P2 : pending t2 = None).
  { subst t2. rewrite exec_pending; [assumption|]. eapply forallb_impl; [apply plain_not_kitty|exact HXp]. }
  assert (V2 : visible t2 = visible t1).
  { apply exec_vis_same. eapply forallb_impl; [apply ftok_nohs|exact HX]. }
  destruct (forallb_cutw_plain w j c Hwp) as [C1 C2].
  repeat split.
  - apply exec_nostr; [exact C1|congruence].
  - rewrite exec_pending; assumption.
  - destruct (cutw_tail w j c) as (tl & -> & Htl). rewrite exec_app.
    destruct (exec_cut_tail lm (exec lm t2 (firstn j w)) tl Htl) as (_ & _ & _ & Vt & _).
    rewrite Vt, exec_vis_same, V2, V1; [reflexivity|].
    apply forallb_firstn. eapply forallb_impl; [apply ftok_nohs|exact Hw].
  - intros Hc.
    assert (c = None).
    { destruct p; cbn [new_parts cut_of_new] in *; inversion Ep; subst; congruence. }
    subst c. unfold cutw, DrawInt.cutw. rewrite app_nil_r.
    apply exec_plain_ground; [apply forallb_firstn; assumption|assumption].
Qed.

Definition new_rows (p : ipoint) : Z := if first_incomplete p then 1 else h + b.

(** the clean-up, from whatever the interrupt left; [Hsgr]: at a point where the handler is
    not called no frame is partially written, the attributes are the default ones (discharged
    from the render contract in [anim_cut_final]) *)
Theorem anim_cut_recovers p t0 :
  parser t0 = Ground -> pending t0 = None ->
  (handled p = false -> sgr (exec lm t0 (D p)) = adefault) ->
  let tc := exec lm t0 (D p) in
  let t' := exec lm t0 (S p) in
  col t' = lm /\ row t' = row tc + new_rows p /\ sgr t' = adefault
  /\ parser t' <> InStr /\ pending t' = None
  /\ (hide = true \/ handled p = true \/ cut_of_new p = None
      \/ (first_incomplete p = false /\ 0 < h + b - 1) -> parser t' = Ground)
  /\ visible t' = (if hide then true else visible t0)
  /\ exists M, exec_evs lm t0 (S p) = exec_evs lm t0 (D p) ++ M /\ forallb is_move M = true.
Proof.
  intros Hg Hpe Hsgr tc t'. subst t'. rewrite anim_cut_split, exec_app, exec_evs_app. fold tc.
  destruct (delivered_state p t0 Hg Hpe) as (N & Pn & V & G). fold tc in N, Pn, V, G.
  unfold anim_recovery, new_rows.
  set (n := if first_incomplete p then 0 else h + b - 1).
  assert (Ecud : (if first_incomplete p then [] else cud (h + b - 1)) = cud n).
  { subst n. destruct (first_incomplete p); [reflexivity|reflexivity]. }
  rewrite Ecud.
  assert (Hn : 0 <= n) by (subst n; destruct (first_incomplete p); lia).
  assert (Erow : forall r, r + n + 1 = r + (if first_incomplete p then 1 else h + b)).
  { intros r. subst n. destruct (first_incomplete p); lia. }
  destruct (handled p) eqn:Eh.
  - (* the handler runs first *)
    destruct (Hhnd tc N Pn) as (G3 & P3 & S3 & V3 & R3 & C3 & E3).
    rewrite exec_app, exec_evs_app, E3. cbn [app].
    set (t3 := exec lm tc hnd) in *.
    destruct (new_recovery_any lm t3 hide n ltac:(congruence) P3 S3 Hn) as (A1 & A2 & A3 & A4 & A5 & A6 & A7 & A8).
    cbn [app] in *.
    repeat split; try assumption.
    + rewrite A2, R3. apply Erow.
    + intros _. apply A6. right. left. exact G3.
    + rewrite A7, V3, V. destruct hide; reflexivity.
    + eexists. split; [reflexivity|exact A8].
  - destruct (new_recovery_any lm tc hide n N Pn (Hsgr eq_refl) Hn) as (A1 & A2 & A3 & A4 & A5 & A6 & A7 & A8).
    cbn [app] in *.
    repeat split; try assumption.
    + rewrite A2. apply Erow.
    + intros [Hh|[Hh|[Hh|[Hf Hh]]]]; apply A6; [left; exact Hh|discriminate Hh|right; left; apply G, Hh|].
      right. right. subst n. rewrite Hf. exact Hh.
    + rewrite A7, V. destruct hide; reflexivity.
    + eexists. split; [reflexivity|exact A8].
Qed.
End NewRecover.

(** ** old API: the clean-up from every interruption point, every style *)
Section OldRecover.
Variable lm : Z.
Variables (s : DrawInt.style) (tty : bool) (lines : Z) (pre clear P1 : list tok) (Ps : list (list tok)).
Hypothesis Hlines : 1 <= lines.
Hypothesis Hpre : forallb (DrawInt.tok_ok s) pre = true.
Hypothesis Hclear : forallb (DrawInt.tok_ok s) clear = true.
Hypothesis HP1 : forallb (DrawInt.tok_ok s) P1 = true.
Hypothesis HPs : Forall (fun F => forallb (DrawInt.tok_ok s) F = true) Ps.
(** the frames neither hide nor show the cursor *)
Hypothesis Vpre : forallb nohs pre = true.
Hypothesis Vclear : forallb nohs clear = true.
Hypothesis VP1 : forallb nohs P1 = true.
Hypothesis VPs : Forall (fun F => forallb nohs F = true) Ps.

Let D (p : opoint) := opt tty THide ++ pre ++ old_delivered lines clear P1 Ps p.
Let S (p : opoint) := old_anim_cut tty (DrawInt.handler s) lines pre clear P1 Ps p.

Lemma old_cut_split p : S p = D p ++ old_recovery tty (DrawInt.handler s) lines.
Proof. unfold S, D, old_anim_cut. rewrite <- !app_assoc. reflexivity. Qed.

Lemma tok_ok_ctl : DrawInt.tok_ok s TCR = true /\ (forall n, DrawInt.tok_ok s (TCuu n) = true)
                   /\ (forall n, DrawInt.tok_ok s (TCuf n) = true).
Proof. repeat split; intros; apply plain_ok; reflexivity. Qed.

Lemma old_delivered_state p t0 :
  parser t0 = Ground -> pending t0 = None ->
  let tc := exec lm t0 (D p) in
  safe s tc /\ visible tc = (if tty then false else visible t0).
Proof.
  intros Hg Hpe tc. subst tc. unfold D.
  pose proof (old_delivered_parts lines clear P1 Ps p) as Eparts.
  destruct tok_ok_ctl as (q1 & q3 & q4).
  pose proof (old_parts_class (DrawInt.tok_ok s) q1 q3 lines clear P1 Ps p HP1 Hclear HPs) as Hcl.
  pose proof (old_parts_class nohs eq_refl (fun _ => eq_refl) lines clear P1 Ps p VP1 Vclear VPs) as Hv.
  destruct (old_parts lines clear P1 Ps p) as [[[X w] j] c] eqn:Ep.
  destruct Hcl as [HX Hw]. destruct Hv as [VX Vw]. rewrite Eparts.
  set (t1 := exec lm t0 (opt tty THide)).
  assert (G1 : parser t1 = Ground /\ pending t1 = None /\ visible t1 = (if tty then false else visible t0)).
  { subst t1. destruct tty; cbn [opt exec fold_left]; [|auto].
    unfold step. rewrite Hg. cbn. auto. }
  destruct G1 as (G1 & Pe1 & V1).
  assert (S1 : safe s t1) by (destruct s; simpl; auto; split; [congruence|assumption]).
  rewrite !exec_app. fold t1. split.
  - apply exec_safe_cutw; [exact Hw|]. apply exec_safe; [exact HX|]. apply exec_safe; assumption.
  - destruct (cutw_tail w j c) as (tl & -> & Htl). rewrite exec_app.
    destruct (exec_cut_tail lm (exec lm (exec lm (exec lm t1 pre) X) (firstn j w)) tl Htl) as (_ & _ & _ & Vt & _).
    rewrite Vt, !exec_vis_same, V1; try assumption; [reflexivity|].
    apply forallb_firstn. exact Vw.
Qed.

Theorem old_cut_recovers p t0 :
  parser t0 = Ground -> pending t0 = None ->
  let tc := exec lm t0 (D p) in
  let t' := exec lm t0 (S p) in
  col t' = lm /\ row t' = row tc + lines /\ sgr t' = adefault
  /\ parser t' = Ground /\ pending t' = None
  /\ visible t' = (if tty then true else visible t0)
  /\ exists M, exec_evs lm t0 (S p) = exec_evs lm t0 (D p) ++ M /\ forallb is_move M = true.
Proof.
  intros Hg Hpe tc t'. subst t'. rewrite old_cut_split, exec_app, exec_evs_app. fold tc.
  destruct (old_delivered_state p t0 Hg Hpe) as (Hs & V). fold tc in Hs, V.
  destruct (old_recovery_any lm s tc tty lines Hs Hlines) as (A1 & A2 & A3 & A4 & A5 & A6 & A7).
  repeat split; try assumption.
  - rewrite A6, V. destruct tty; reflexivity.
  - eexists. split; [reflexivity|exact A7].
Qed.
End OldRecover.

(** ** the delivered part is a prefix of an uninterrupted draw *)

Lemma box_touch r0 lm ph pw e : ev_box_or_below r0 lm ph pw e = true -> ev_touch_in r0 lm ph pw e = true.
Proof.
  unfold ev_box_or_below, ev_touch_in. destruct e; try reflexivity; rewrite orb_false_r; auto.
Qed.

Lemma move_touch r0 lm ph pw e : is_move e = true -> ev_touch_in r0 lm ph pw e = true.
Proof. destruct e; try discriminate. reflexivity. Qed.

Lemma prefix_evs lm t a rest (f : ev -> bool) :
  forallb f (exec_evs lm t (a ++ rest)) = true -> forallb f (exec_evs lm t a) = true.
Proof. rewrite exec_evs_app, forallb_app. intros H. apply andb_true_iff in H. tauto. Qed.

Lemma firstn_S_nth {A} (d : A) : forall m (l : list A), (m < length l)%nat ->
  firstn (S m) l = firstn m l ++ [nth m l d].
Proof.
  induction m as [|m IH]; intros [|x l] H; cbn [length] in H; try lia; [reflexivity|].
  cbn [firstn nth app]. rewrite <- IH by lia. reflexivity.
Qed.

Lemma anim_stream_nf hide l b h clear P Fs m :
  anim_stream hide l b h clear P (firstn m Fs) =
  opt hide THide ++ P ++ ctop1 l b h ++ done_later l h clear Fs m ++ cud (h + b - 1) ++ [TLF] ++ opt hide TShow.
Proof. unfold anim_stream, anim_body, ctop1, done_later. rewrite <- !app_assoc. reflexivity. Qed.

Lemma done_later_S l h clear Fs m : (m < length Fs)%nat ->
  done_later l h clear Fs (S m) = done_later l h clear Fs m ++ clear ++ lframe l (nth m Fs []) ++ ctop l h.
Proof.
  intros H. unfold done_later. rewrite (firstn_S_nth [] m Fs H), map_app, concat_app. cbn [map concat].
  rewrite app_nil_r. reflexivity.
Qed.

(** how many later frames the uninterrupted draw that the delivered part is a prefix of has *)
Definition upto (p : ipoint) : nat :=
  match p with
  | IFirst _ _ | ITop1 _ _ => O
  | IBetween m => m
  | IClear m _ _ | IFrame m _ _ | ITop m _ _ => S m
  end.

(** the point names a frame of the animation *)
Definition point_ok (Fs : list (list tok)) (p : ipoint) : Prop :=
  match p with
  | IClear m _ _ | IFrame m _ _ | ITop m _ _ => (m < length Fs)%nat
  | _ => True
  end.

Lemma new_prefix hide l b h clear P Fs p : point_ok Fs p ->
  let '(X, w, j, _) := new_parts l b h clear P Fs p in
  exists rest, anim_stream hide l b h clear P (firstn (upto p) Fs)
               = (opt hide THide ++ X ++ firstn j w) ++ rest.
Proof.
  intros Hok. rewrite anim_stream_nf.
  destruct p as [j0 c0|j0 c0|m|m j0 c0|m j0 c0|m j0 c0]; unfold new_parts, upto; unfold point_ok in Hok.
  - exists (skipn j0 P ++ ctop1 l b h ++ done_later l h clear Fs 0 ++ cud (h + b - 1) ++ [TLF] ++ opt hide TShow).
    cbn [app]. rewrite <- !app_assoc, (app_assoc (firstn j0 P)), firstn_skipn. reflexivity.
  - exists (skipn j0 (ctop1 l b h) ++ done_later l h clear Fs 0 ++ cud (h + b - 1) ++ [TLF] ++ opt hide TShow).
    rewrite <- !app_assoc, (app_assoc (firstn j0 (ctop1 l b h))), firstn_skipn. reflexivity.
  - exists (cud (h + b - 1) ++ [TLF] ++ opt hide TShow).
    replace (firstn 0 (@nil tok)) with (@nil tok) by reflexivity.
    rewrite app_nil_r, <- !app_assoc. reflexivity.
  - exists (skipn j0 clear ++ lframe l (nth m Fs []) ++ ctop l h ++ cud (h + b - 1) ++ [TLF] ++ opt hide TShow).
    rewrite done_later_S by assumption.
    rewrite <- !app_assoc, (app_assoc (firstn j0 clear)), firstn_skipn. reflexivity.
  - exists (skipn j0 (lframe l (nth m Fs [])) ++ ctop l h ++ cud (h + b - 1) ++ [TLF] ++ opt hide TShow).
    rewrite done_later_S by assumption.
    rewrite <- !app_assoc, (app_assoc (firstn j0 (lframe l (nth m Fs [])))), firstn_skipn. reflexivity.
  - exists (skipn j0 (ctop l h) ++ cud (h + b - 1) ++ [TLF] ++ opt hide TShow).
    rewrite done_later_S by assumption.
    rewrite <- !app_assoc, (app_assoc (firstn j0 (ctop l h))), firstn_skipn. reflexivity.
Qed.

Definition nosgr (x : tok) : bool := negb (sgr_tok x).

Lemma nosgr_tail hide n : forallb nosgr (cud n ++ [TLF] ++ opt hide TShow) = true.
Proof. unfold cud, opt. destruct (0 <? n), hide; reflexivity. Qed.

(** at a point where the handler is not called, everything after the last completely written
    frame part -- in the delivered part and in the uninterrupted draw alike -- leaves the
    attributes alone *)
Lemma new_sgr_prefix hide l b h clear P Fs p :
  point_ok Fs p -> handled p = false -> forallb nosgr clear = true ->
  let '(X, w, _, _) := new_parts l b h clear P Fs p in
  forallb nosgr w = true
  /\ exists m rest, anim_stream hide l b h clear P (firstn m Fs) = (opt hide THide ++ X) ++ rest
                    /\ forallb nosgr rest = true.
Proof.
  intros Hok Hh Hcl.
  assert (Q1 : forall a b0 c0, forallb nosgr (ctop1 a b0 c0) = true) by (intros; apply q_ctop1; reflexivity).
  assert (Q2 : forall a b0, forallb nosgr (ctop a b0) = true) by (intros; apply q_ctop; reflexivity).
  destruct p as [j0 c0|j0 c0|m|m j0 c0|m j0 c0|m j0 c0]; unfold new_parts; unfold handled in Hh;
    unfold point_ok in Hok; try discriminate Hh.
  - split; [apply Q1|]. exists O. eexists. rewrite anim_stream_nf. split.
    + unfold done_later. cbn [firstn map concat app]. rewrite <- !app_assoc. reflexivity.
    + rewrite forallb_app, Q1. apply nosgr_tail.
  - split; [reflexivity|]. exists m. eexists. rewrite anim_stream_nf. split.
    + rewrite <- !app_assoc. reflexivity.
    + apply nosgr_tail.
  - split; [exact Hcl|]. exists m. eexists. rewrite anim_stream_nf. split.
    + rewrite <- !app_assoc. reflexivity.
    + apply nosgr_tail.
  - split; [apply Q2|]. exists (S m). eexists. rewrite anim_stream_nf, done_later_S by assumption. split.
    + rewrite <- !app_assoc. reflexivity.
    + rewrite forallb_app, Q2. apply nosgr_tail.
Qed.

(** ** the cursor follows the events: while every event lies in the region (or is the final
    move to the line below it), so does the cursor *)
Section Pos.
Variables r0 c0 ph pw : Z.

Definition posok (t : term) : Prop :=
  (r0 <= row t < r0 + ph /\ c0 <= col t <= c0 + pw) \/ (row t = r0 + ph /\ col t = c0).

Ltac boolz :=
  repeat match goal with
         | H : _ && _ = true |- _ => apply andb_true_iff in H; destruct H
         | H : _ || _ = true |- _ => apply orb_true_iff in H; destruct H
         | H : (_ <=? _) = true |- _ => apply Z.leb_le in H
         | H : (_ <? _) = true |- _ => apply Z.ltb_lt in H
         | H : (_ =? _) = true |- _ => apply Z.eqb_eq in H
         | H : false = true |- _ => discriminate H
         end.

Lemma posok_ground lm t x : posok t ->
  forallb (ev_box_or_below r0 c0 ph pw) (ground_evs lm t x) = true ->
  posok (step_ground lm t x).
Proof.
  intros Hp He. unfold posok in *.
  destruct t as [r c a v sy p pe lg]. cbn [row col] in Hp.
  destruct x; cbn [ground_evs step_ground set_pos emit set_sgr set_visible set_synced set_pending set_parser row col pending] in *;
    try exact Hp;
    try (cbn [forallb] in He; unfold ev_box_or_below, ev_inside in He; boolz; subst; unfold pos1 in *; lia).
  - (* TKittyFirst *)
    destruct pe; [cbn in He; discriminate|]. destruct more; [exact Hp|].
    unfold place, place_evs in *. cbn [row col emit set_pos kk_stay] in *.
    destruct (kk_stay k); cbn [row col emit set_pos] in *; [exact Hp|].
    cbn [forallb] in He; unfold ev_box_or_below, ev_inside in He; boolz; subst; lia.
  - (* TKittyCont *)
    destruct pe as [k|]; [|cbn in He; discriminate]. destruct more; [exact Hp|].
    unfold place, place_evs in *. cbn [row col emit set_pos set_pending] in *.
    destruct (kk_stay k); cbn [row col emit set_pos] in *; [exact Hp|].
    cbn [forallb] in He; unfold ev_box_or_below, ev_inside in He; boolz; subst; lia.
  - (* TIterm *)
    destruct dnmc; cbn [row col emit set_pos] in *; [exact Hp|].
    cbn [forallb] in He; unfold ev_box_or_below, ev_inside in He; boolz; subst; lia.
  - (* TCut *)
    destruct k; exact Hp.
Qed.

Lemma posok_step lm t x : posok t ->
  forallb (ev_box_or_below r0 c0 ph pw) (step_evs lm t x) = true -> posok (step lm t x).
Proof.
  intros Hp He. unfold step, step_evs in *. destruct (parser t) eqn:E.
  - apply posok_ground; assumption.
  - destruct (is_esc_seq x) eqn:Ex.
    + assert (Hp' : posok (set_parser t Ground)) by (destruct t; exact Hp).
      assert (He' : ground_evs lm (set_parser t Ground) x = ground_evs lm t x) by (destruct t, x; reflexivity).
      apply posok_ground; [exact Hp'|rewrite He'; exact He].
    + destruct x; try discriminate Ex; try (apply posok_ground; assumption).
      cbn in He. discriminate.
  - destruct x; exact Hp.
Qed.

Lemma posok_exec lm : forall ts t, posok t ->
  forallb (ev_box_or_below r0 c0 ph pw) (exec_evs lm t ts) = true -> posok (exec lm t ts).
Proof.
  induction ts as [|x ts IH]; intros t Hp He; [exact Hp|].
  cbn [exec_evs] in He. rewrite forallb_app in He. apply andb_true_iff in He. destruct He as [H1 H2].
  rewrite exec_cons. apply IH; [apply posok_step; assumption|exact H2].
Qed.
End Pos.

Lemma Forall_firstn {A} (Q : A -> Prop) n : forall l, Forall Q l -> Forall Q (firstn n l).
Proof.
  induction n as [|n IH]; intros [|x l] H; cbn; try constructor; inversion H; subst; auto.
Qed.

Lemma forallb_cutw_class (q : tok -> bool) w j c :
  (forall k, q (TCut k) = true) -> forallb q w = true -> forallb q (cutw w j c) = true.
Proof.
  intros Hk Hw. apply cutw_forallb with (p := q); auto.
Qed.

(** ** new API: MAIN — the final state after an interrupt at ANY point of ANY frame *)
Section NewFinal.
Variables W H lm : Z.
Variable fill : option glyph.
Variables w h pl pt pr pb : Z.
Hypothesis Hpl : 0 <= pl.
Hypothesis Hpt : 0 <= pt.
Hypothesis Hpr : 0 <= pr.
Hypothesis Hpb : 0 <= pb.
Hypothesis Hlm : 0 <= lm.
Let pw := pl + w + pr.
Let ph := pt + h + pb.
Hypothesis HW : lm + pw <= W.
Hypothesis HH : ph <= H.
Variable clear : list tok.
Hypothesis Hclr : ClearOK w h clear.
Variable ls1 : list (list tok).
Variable lss : list (list (list tok)).
Hypothesis HLR1 : LinesRect all_cells w h ls1.
Hypothesis HD1 : forall ln, In ln ls1 -> Downward ln.
Hypothesis HFs : Forall (LinesRect all_cells w h) lss.
Let P := padded fill (pl, pt, pr, pb) w h (joinlf ls1).
Let Fs := map joinlf lss.
(** what the frames consist of: plain text / SGR / cursor / erase tokens, no cursor hiding;
    the clearing writes no attributes *)
Hypothesis CP : forallb ftok P = true.
Hypothesis CFs : Forall (fun F => forallb ftok F = true) Fs.
Hypothesis Cclear : forallb ftok clear = true.
Hypothesis Sclear : forallb nosgr clear = true.
Variables (hide : bool) (hnd : list tok).
Hypothesis Hhnd : HndOK lm hnd.
Variables (t0 : term) (top0 : Z).
Hypothesis Hok : okat t0 (row t0) lm.
Hypothesis Htop : top0 <= row t0 < top0 + H.

Lemma h_pos : 0 < h.
Proof.
  pose proof (lr_len _ _ _ _ HLR1) as Hlen. pose proof (lr_ne _ _ _ _ HLR1).
  destruct ls1; [congruence|cbn [length] in Hlen; lia].
Qed.

(** the uninterrupted draw of the first [m] later frames *)
Lemma full_final m :
  DrawFinal W H lm top0 t0 hide pw ph
            (padded fill (pl, pt, pr, pb) w h (joinlf (lastframe ls1 (firstn m lss))))
            (anim_stream hide pl pb h clear P (firstn m Fs)).
Proof.
  unfold Fs. rewrite firstn_map.
  apply (animate_final W H lm fill w h pl pt pr pb Hpl Hpt Hpr Hpb Hlm HW HH clear Hclr ls1 (firstn m lss)
                       HLR1 HD1 (Forall_firstn _ m lss HFs) t0 top0 hide Hok Htop).
Qed.

Theorem anim_cut_final p :
  point_ok Fs p ->
  CutFinal lm t0 hide (first_incomplete p) (new_csi_residue hide pb h p) pw ph (row t0 + pt)
           (length (opt hide THide ++ anim_delivered pl pb h clear P Fs p))
           (anim_cut hide hnd pl pb h clear P Fs p).
Proof.
  intros Hpt_ok. pose proof h_pos as Hh.
  assert (Hhb : 0 <= h + pb - 1) by lia.
  destruct Hok as ([Hg Hpe] & Hs0 & _ & Hc0).
  set (D := opt hide THide ++ anim_delivered pl pb h clear P Fs p).
  set (S := anim_cut hide hnd pl pb h clear P Fs p).
  assert (ES : S = D ++ anim_recovery hide hnd pb h p) by apply anim_cut_split.
  assert (EF : firstn (length D) S = D).
  { rewrite ES, firstn_app, Nat.sub_diag, firstn_all. cbn [firstn]. apply app_nil_r. }
  (* the delivered part: X ++ firstn j w ++ (TCut)? *)
  pose proof (anim_delivered_parts pl pb h clear P Fs p) as Eparts.
  pose proof (new_prefix hide pl pb h clear P Fs p Hpt_ok) as Hpre.
  pose proof (new_sgr_prefix hide pl pb h clear P Fs p Hpt_ok) as Hsg.
  destruct (new_parts pl pb h clear P Fs p) as [[[X wr] j] c] eqn:Ep.
  destruct Hpre as (rest & EU).
  destruct (cutw_tail wr j c) as (tl & Ecw & Htl).
  set (D0 := opt hide THide ++ X ++ firstn j wr) in *.
  assert (ED : D = D0 ++ tl).
  { unfold D, D0. rewrite Eparts, Ecw, <- !app_assoc. reflexivity. }
  pose proof (full_final (upto p)) as DF. rewrite EU in DF.
  pose proof (df_box _ _ _ _ _ _ _ _ _ _ DF) as Hbox.
  apply prefix_evs in Hbox.
  destruct (exec_cut_tail lm (exec lm t0 D0) tl Htl) as (Rt & Ct & St & Vt & Et).
  assert (EvD : exec_evs lm t0 D = exec_evs lm t0 D0).
  { rewrite ED, exec_evs_app, Et, app_nil_r. reflexivity. }
  (* attributes at a point where the handler is not called *)
  assert (Hsgr : handled p = false -> sgr (exec lm t0 D) = adefault).
  { intros Hh0. destruct (Hsg Hh0 Sclear) as (Hw & m & rest' & EU' & Hr').
    pose proof (full_final m) as DF'. rewrite EU' in DF'.
    pose proof (df_sgr _ _ _ _ _ _ _ _ _ _ DF') as Hs'. rewrite exec_app, exec_sgr in Hs' by exact Hr'.
    unfold D. rewrite Eparts. rewrite app_assoc, exec_app, exec_sgr; [exact Hs'|].
    apply forallb_cutw_class; [destruct k; reflexivity|exact Hw]. }
  destruct (anim_cut_recovers lm hide hnd pl pb h clear P Fs Hhnd Hhb CP Cclear CFs p t0 Hg Hpe Hsgr)
    as (A1 & A2 & A3 & A4 & A5 & A6 & A7 & M & EM & HM).
  fold D in A2, EM. fold S in A1, A2, A3, A4, A5, A6, A7, EM.
  (* where the interrupt found the cursor *)
  assert (Hpos : posok (row t0) lm ph pw (exec lm t0 D)).
  { assert (P0 : posok (row t0) lm ph pw (exec lm t0 D0)).
    { apply posok_exec; [|exact Hbox]. left. rewrite Hc0. pose proof (lr_w _ _ _ _ HLR1). unfold ph, pw. lia. }
    unfold posok in *. rewrite ED, exec_app, Rt, Ct. exact P0. }
  constructor.
  - exact A1.
  - exact A3.
  - exact A7.
  - split; [exact A5|]. split; [exact A4|]. intros Hres. apply A6.
    unfold new_csi_residue in Hres.
    destruct hide; [left; reflexivity|]. destruct (handled p) eqn:Eh; [right; left; reflexivity|].
    cbn [negb andb] in Hres.
    destruct (first_incomplete p) eqn:Ef; cbn [orb] in Hres.
    + right. right. left. destruct p as [? [?|]|? [?|]|?|? ? [?|]|? ? [?|]|? ? [?|]]; cbn in *; try reflexivity; discriminate.
    + destruct (0 <? h + pb - 1) eqn:E0.
      * right. right. right. split; [reflexivity|apply Z.ltb_lt, E0].
      * right. right. left. cbn [negb] in Hres. rewrite andb_true_r in Hres.
        destruct p as [? [?|]|? [?|]|?|? ? [?|]|? ? [?|]|? ? [?|]]; cbn in *; try reflexivity; discriminate.
  - rewrite EM, forallb_app. apply andb_true_iff. split.
    + rewrite EvD. eapply forallb_impl; [apply box_touch|exact Hbox].
    + eapply forallb_impl; [apply move_touch|exact HM].
  - rewrite EF, A2. unfold new_rows. destruct (first_incomplete p); [reflexivity|]. unfold ph. lia.
  - rewrite EF. unfold posok in Hpos. lia.
Qed.

(** between two frames the interrupted draw IS the uninterrupted draw of the frames shown so
    far: the full final-state predicate, the region showing the last complete frame *)
Theorem anim_cut_between m :
  anim_cut hide hnd pl pb h clear P Fs (IBetween m) = anim_stream hide pl pb h clear P (firstn m Fs).
Proof.
  rewrite anim_stream_nf. unfold anim_cut, anim_delivered, anim_recovery, handled, first_incomplete.
  rewrite <- !app_assoc. reflexivity.
Qed.

Theorem anim_cut_between_final m :
  DrawFinal W H lm top0 t0 hide pw ph
            (padded fill (pl, pt, pr, pb) w h (joinlf (lastframe ls1 (firstn m lss))))
            (anim_cut hide hnd pl pb h clear P Fs (IBetween m)).
Proof. rewrite anim_cut_between. apply full_final. Qed.
End NewFinal.

(** ** old API: the delivered part is a prefix of an uninterrupted draw *)

Definition upto_old (p : opoint) : nat :=
  match p with
  | OFrame m _ _ | OTop m _ _ | OClear m _ _ => m
  | OBetween m => pred m
  end.

Definition opoint_ok (Ps : list (list tok)) (p : opoint) : Prop :=
  match p with
  | OFrame (S m) _ _ | OTop (S m) _ _ | OClear (S m) _ _ => (m < length Ps)%nat
  | OClear O _ _ => False
  | _ => True
  end.

Lemma old_anim_stream_nf tty lines pre clear P1 Ps m :
  old_anim_stream tty lines pre clear P1 (firstn m Ps) =
  opt tty THide ++ pre ++ old_done lines clear P1 Ps (S m)
    ++ cud (lines - 1) ++ [TSgr0] ++ opt tty TShow ++ [TLF].
Proof. unfold old_anim_stream, old_anim_body, old_done. rewrite <- !app_assoc. reflexivity. Qed.

Lemma old_done_S lines clear P1 Ps m : (m < length Ps)%nat ->
  old_done lines clear P1 Ps (S (S m)) =
  old_done lines clear P1 Ps (S m) ++ clear ++ nth m Ps [] ++ old_ctop lines.
Proof.
  intros H. cbn [old_done]. rewrite (firstn_S_nth [] m Ps H), map_app, concat_app. cbn [map concat].
  unfold old_frame, old_ctop. rewrite app_nil_r, <- !app_assoc. reflexivity.
Qed.

Lemma old_done_1 lines clear P1 Ps : old_done lines clear P1 Ps 1 = P1 ++ old_ctop lines.
Proof. cbn [old_done firstn map concat]. unfold old_frame, old_ctop. rewrite app_nil_r. reflexivity. Qed.

Lemma old_prefix tty lines pre clear P1 Ps p : opoint_ok Ps p ->
  let '(X, w, j, _) := old_parts lines clear P1 Ps p in
  exists rest, old_anim_stream tty lines pre clear P1 (firstn (upto_old p) Ps)
               = (opt tty THide ++ pre ++ X ++ firstn j w) ++ rest.
Proof.
  intros Hok. rewrite old_anim_stream_nf.
  set (T := cud (lines - 1) ++ [TSgr0] ++ opt tty TShow ++ [TLF]).
  destruct p as [[|m] j0 c0|[|m] j0 c0|[|m] j0 c0|[|m]]; unfold old_parts, upto_old, old_pre_clear;
    unfold opoint_ok in Hok; try contradiction; cbn [pred nth].
  - exists (skipn j0 P1 ++ old_ctop lines ++ T). rewrite old_done_1. cbn [old_done app].
    rewrite <- !app_assoc, (app_assoc (firstn j0 P1)), firstn_skipn. reflexivity.
  - exists (skipn j0 (nth m Ps []) ++ old_ctop lines ++ T). rewrite old_done_S by assumption.
    rewrite <- !app_assoc, (app_assoc (firstn j0 (nth m Ps []))), firstn_skipn. reflexivity.
  - exists (skipn j0 (old_ctop lines) ++ T). rewrite old_done_1. cbn [old_done app].
    rewrite <- !app_assoc, (app_assoc (firstn j0 (old_ctop lines))), firstn_skipn. reflexivity.
  - exists (skipn j0 (old_ctop lines) ++ T). rewrite old_done_S by assumption.
    rewrite <- !app_assoc, (app_assoc (firstn j0 (old_ctop lines))), firstn_skipn. reflexivity.
  - exists (skipn j0 clear ++ nth m Ps [] ++ old_ctop lines ++ T). rewrite old_done_S by assumption.
    rewrite <- !app_assoc, (app_assoc (firstn j0 clear)), firstn_skipn. reflexivity.
  - exists (old_done lines clear P1 Ps 1 ++ T).
    replace (firstn 0 (@nil tok)) with (@nil tok) by reflexivity. cbn [old_done app].
    rewrite !app_nil_r, <- !app_assoc. reflexivity.
  - exists T. replace (firstn 0 (@nil tok)) with (@nil tok) by reflexivity.
    rewrite app_nil_r, <- !app_assoc. reflexivity.
Qed.

(** ** old API: MAIN *)
Section OldFinal.
Variables W H lm W' H' : Z.
Variables (ha va : nat) (w h : Z) (oldk wez tty : bool).
Variable ls1 : list (list tok).
Variable lss : list (list (list tok)).
Variables (t0 : term) (top0 : Z).
Hypothesis Hlm : 0 <= lm.
Hypothesis HW : lm + Z.max W' w <= W.
Hypothesis HH : Z.max H' h <= H.
Hypothesis HLR1 : LinesRect all_cells w h ls1.
Hypothesis HD1 : forall ln, In ln ls1 -> Downward ln.
Hypothesis HFs : Forall (LinesRect all_cells w h) lss.
Hypothesis Hok : okat t0 (row t0) lm.
Hypothesis Htop : top0 <= row t0 < top0 + H.
Let fmt := fun ls : list (list tok) => format_render W' H' ha va w h (joinlf ls).
Let lines := Z.max H' h.
Let pre := if wez then wez_pre W' H' ha va w h else [].
Let clear := kitty_clear oldk.
Let P1 := fmt ls1.
Let Ps := map fmt lss.
(** the style whose handler is called, and what its frames consist of *)
Variable s : DrawInt.style.
Hypothesis Cpre : forallb (DrawInt.tok_ok s) pre = true.
Hypothesis Cclear : forallb (DrawInt.tok_ok s) clear = true.
Hypothesis CP1 : forallb (DrawInt.tok_ok s) P1 = true.
Hypothesis CPs : Forall (fun F => forallb (DrawInt.tok_ok s) F = true) Ps.
Hypothesis Vpre : forallb nohs pre = true.
Hypothesis VP1 : forallb nohs P1 = true.
Hypothesis VPs : Forall (fun F => forallb nohs F = true) Ps.

Lemma h_pos_old : 0 < h.
Proof.
  pose proof (lr_len _ _ _ _ HLR1) as Hlen. pose proof (lr_ne _ _ _ _ HLR1).
  destruct ls1; [congruence|cbn [length] in Hlen; lia].
Qed.

Lemma Vclear : forallb nohs clear = true.
Proof. unfold clear, kitty_clear. destruct oldk; reflexivity. Qed.

Lemma old_full_final m :
  DrawFinal W H lm top0 t0 tty (Z.max W' w) lines (fmt (lastframe ls1 (firstn m lss)))
            (old_anim_stream tty lines pre clear P1 (firstn m Ps)).
Proof.
  unfold Ps. rewrite firstn_map.
  apply (old_animate_final W H lm W' H' ha va w h oldk wez tty ls1 (firstn m lss) t0 top0 Hlm HW HH HLR1 HD1
                           (Forall_firstn _ m lss HFs) Hok Htop).
Qed.

Theorem old_anim_cut_final p :
  opoint_ok Ps p ->
  CutFinal lm t0 tty false false (Z.max W' w) lines (row t0)
           (length (opt tty THide ++ pre ++ old_delivered lines clear P1 Ps p))
           (old_anim_cut tty (DrawInt.handler s) lines pre clear P1 Ps p).
Proof.
  intros Hp_ok. pose proof h_pos_old as Hh.
  assert (Hl : 1 <= lines) by (unfold lines; lia).
  destruct Hok as ([Hg Hpe] & Hs0 & _ & Hc0).
  set (D := opt tty THide ++ pre ++ old_delivered lines clear P1 Ps p).
  set (S := old_anim_cut tty (DrawInt.handler s) lines pre clear P1 Ps p).
  assert (ES : S = D ++ old_recovery tty (DrawInt.handler s) lines) by apply old_cut_split.
  assert (EF : firstn (length D) S = D).
  { rewrite ES, firstn_app, Nat.sub_diag, firstn_all. cbn [firstn]. apply app_nil_r. }
  pose proof (old_delivered_parts lines clear P1 Ps p) as Eparts.
  pose proof (old_prefix tty lines pre clear P1 Ps p Hp_ok) as Hpre.
  destruct (old_parts lines clear P1 Ps p) as [[[X wr] j] c] eqn:Ep.
  destruct Hpre as (rest & EU).
  destruct (cutw_tail wr j c) as (tl & Ecw & Htl).
  set (D0 := opt tty THide ++ pre ++ X ++ firstn j wr) in *.
  assert (ED : D = D0 ++ tl).
  { unfold D, D0. rewrite Eparts, Ecw, <- !app_assoc. reflexivity. }
  pose proof (old_full_final (upto_old p)) as DF. rewrite EU in DF.
  pose proof (df_box _ _ _ _ _ _ _ _ _ _ DF) as Hbox.
  apply prefix_evs in Hbox.
  destruct (exec_cut_tail lm (exec lm t0 D0) tl Htl) as (Rt & Ct & St & Vt & Et).
  assert (EvD : exec_evs lm t0 D = exec_evs lm t0 D0).
  { rewrite ED, exec_evs_app, Et, app_nil_r. reflexivity. }
  destruct (old_cut_recovers lm s tty lines pre clear P1 Ps Hl Cpre Cclear CP1 CPs Vpre Vclear VP1 VPs p t0 Hg Hpe)
    as (A1 & A2 & A3 & A4 & A5 & A6 & M & EM & HM).
  fold D in A2, EM. fold S in A1, A2, A3, A4, A5, A6, EM.
  assert (Hpos : posok (row t0) lm lines (Z.max W' w) (exec lm t0 D)).
  { assert (P0 : posok (row t0) lm lines (Z.max W' w) (exec lm t0 D0)).
    { apply posok_exec; [|exact Hbox]. left. rewrite Hc0. pose proof (lr_w _ _ _ _ HLR1). lia. }
    unfold posok in *. rewrite ED, exec_app, Rt, Ct. exact P0. }
  constructor.
  - exact A1.
  - exact A3.
  - exact A6.
  - split; [exact A5|]. split; [rewrite A4; discriminate|]. intros _. exact A4.
  - rewrite EM, forallb_app. apply andb_true_iff. split.
    + rewrite EvD. eapply forallb_impl; [apply box_touch|exact Hbox].
    + eapply forallb_impl; [apply move_touch|exact HM].
  - rewrite EF, A2. lia.
  - rewrite EF. unfold posok in Hpos. lia.
Qed.
End OldFinal.

(** ** old API, between two frames: the handler writes nothing the terminal acts on *)

Lemma hnd_noop lm (s : DrawInt.style) t x rest :
  parser t <> InStr -> pending t = None -> is_esc_seq x = true ->
  exec lm t (DrawInt.handler s ++ x :: rest) = exec lm t (x :: rest)
  /\ exec_evs lm t (DrawInt.handler s ++ x :: rest) = exec_evs lm t (x :: rest)
  /\ forall W H top, srun W H lm top t (DrawInt.handler s ++ x :: rest) = srun W H lm top t (x :: rest).
Proof.
  intros Hp Hpe Hx. destruct t as [r c a v sy p pe lg]. cbn in Hp, Hpe. subst pe.
  destruct s, p; try congruence; cbn [DrawInt.handler app]; try (repeat split; reflexivity);
    destruct x; try discriminate Hx; repeat split; try reflexivity.
Qed.

Definition is_st (x : tok) : bool := match x with TSt => true | _ => false end.

Lemma instr_stays lm : forall l t, parser t = InStr -> forallb (fun y => negb (is_st y)) l = true ->
  parser (exec lm t l) = InStr.
Proof.
  induction l as [|y l IH]; intros t Ht Hl; [exact Ht|].
  cbn [forallb] in Hl. apply andb_true_iff in Hl. destruct Hl as [Hy Hl].
  rewrite exec_cons. apply IH; [|exact Hl]. unfold step. rewrite Ht. destruct y; try exact Ht. cbn in Hy. discriminate Hy.
Qed.

Lemma old_tail_head tty lines :
  exists x rest, cud (lines - 1) ++ [TSgr0] ++ opt tty TShow ++ [TLF] = x :: rest /\ is_esc_seq x = true.
Proof. unfold cud. destruct (0 <? lines - 1); cbn; eexists; eexists; split; reflexivity. Qed.

Lemma DrawFinal_ext W H lm top0 t0 hide pw ph Ref S S' :
  exec lm t0 S' = exec lm t0 S -> exec_evs lm t0 S' = exec_evs lm t0 S ->
  srun W H lm top0 t0 S' = srun W H lm top0 t0 S ->
  DrawFinal W H lm top0 t0 hide pw ph Ref S -> DrawFinal W H lm top0 t0 hide pw ph Ref S'.
Proof.
  intros E1 E2 E3 [a b c d e f g i]. constructor; rewrite ?E1, ?E2, ?E3; assumption.
Qed.

Section OldBetween.
Variables W H lm W' H' : Z.
Variables (ha va : nat) (w h : Z) (oldk wez tty : bool).
Variable ls1 : list (list tok).
Variable lss : list (list (list tok)).
Variables (t0 : term) (top0 : Z).
Hypothesis Hlm : 0 <= lm.
Hypothesis HW : lm + Z.max W' w <= W.
Hypothesis HH : Z.max H' h <= H.
Hypothesis HLR1 : LinesRect all_cells w h ls1.
Hypothesis HD1 : forall ln, In ln ls1 -> Downward ln.
Hypothesis HFs : Forall (LinesRect all_cells w h) lss.
Hypothesis Hok : okat t0 (row t0) lm.
Hypothesis Htop : top0 <= row t0 < top0 + H.
Let fmt := fun ls : list (list tok) => format_render W' H' ha va w h (joinlf ls).
Let lines := Z.max H' h.
Let pre := if wez then wez_pre W' H' ha va w h else [].
Let clear := kitty_clear oldk.
Let P1 := fmt ls1.
Let Ps := map fmt lss.
Variable s : DrawInt.style.
Hypothesis Cpre : forallb (DrawInt.tok_ok s) pre = true.
Hypothesis Cclear : forallb (DrawInt.tok_ok s) clear = true.
Hypothesis CP1 : forallb (DrawInt.tok_ok s) P1 = true.
Hypothesis CPs : Forall (fun F => forallb (DrawInt.tok_ok s) F = true) Ps.

(** after [m >= 1] complete frames: the full final-state predicate, the region showing frame
    [m] (the last one completely drawn), whatever the style's handler writes *)
Theorem old_anim_cut_between_final m :
  DrawFinal W H lm top0 t0 tty (Z.max W' w) lines (fmt (lastframe ls1 (firstn m lss)))
            (old_anim_cut tty (DrawInt.handler s) lines pre clear P1 Ps (OBetween (S m))).
Proof.
  pose proof (old_full_final W H lm W' H' ha va w h oldk wez tty ls1 lss t0 top0 Hlm HW HH HLR1 HD1 HFs Hok Htop m) as DF.
  fold fmt lines pre clear P1 Ps in DF. rewrite old_anim_stream_nf in DF.
  set (A := opt tty THide ++ pre ++ old_done lines clear P1 Ps (S m)).
  destruct (old_tail_head tty lines) as (x & rest & ET & Hx).
  assert (EU : opt tty THide ++ pre ++ old_done lines clear P1 Ps (S m)
               ++ cud (lines - 1) ++ [TSgr0] ++ opt tty TShow ++ [TLF] = A ++ x :: rest).
  { unfold A. rewrite <- ET, <- !app_assoc. reflexivity. }
  assert (ES : old_anim_cut tty (DrawInt.handler s) lines pre clear P1 Ps (OBetween (S m))
               = A ++ DrawInt.handler s ++ x :: rest).
  { unfold old_anim_cut, old_delivered, old_recovery, A. rewrite <- ET, <- !app_assoc. reflexivity. }
  rewrite EU in DF. rewrite ES.
  (* the state after the complete frames: not inside a string, nothing pending *)
  destruct Hok as ([Hg Hpe] & _).
  assert (Hsafe : parser (exec lm t0 A) <> InStr /\ pending (exec lm t0 A) = None).
  { pose proof (df_clean _ _ _ _ _ _ _ _ _ _ DF) as [Cg Cp]. rewrite exec_app in Cg, Cp.
    rewrite <- ET in Cg, Cp. split.
    - intros Hin. rewrite (instr_stays lm _ _ Hin) in Cg; [discriminate|].
      unfold cud, opt. destruct (0 <? lines - 1), tty; reflexivity.
    - rewrite <- Cp. symmetry. apply exec_pending.
      unfold cud, opt. destruct (0 <? lines - 1), tty; reflexivity. }
  destruct Hsafe as [Hns Hpn].
  destruct (hnd_noop lm s (exec lm t0 A) x rest Hns Hpn Hx) as (E1 & E2 & E3).
  eapply DrawFinal_ext; [| | |exact DF].
  - rewrite (exec_app lm t0 A), (exec_app lm t0 A). exact E1.
  - rewrite (exec_evs_app lm A), (exec_evs_app lm A), E2. reflexivity.
  - rewrite (srun_app W H lm A), (srun_app W H lm A). destruct (srun W H lm top0 t0 A); [apply E3|reflexivity].
Qed.
End OldBetween.
