(** Soundness of the executable identity comparison (model/TermIdentTie.v): when the model's
    prediction for an iterm2 identity case equals the observed render, the observed render
    meets the contract under the conventions of the terminal the identity denotes — for the
    route that was driven, whatever it was. *)
From Coq Require Import String List ZArith Bool Lia.
Import ListNotations.
From TI Require Import lib.Term lib.Rect lib.RectCheck model.Query model.GfxRender model.RenderTie
     model.TermIdent model.TermIdentTie proofs.TermIdentProofs.
Open Scope Z_scope.

Theorem ident_tie_sound (c : icase) (m : imethod) (mix : bool) :
  ic_render c = IIterm m mix ->
  imodel c = Some (ic_obs c) ->
  0 < ic_w c -> 0 < ic_h c ->
  (m = MLines -> Z.of_nat (length (iterm_sps (ic_obs c))) = ic_h c) ->
  RectOn (kind_of (ic_ident c)) mix (ic_w c) (ic_h c) (ic_obs c).
Proof.
  intros Er Em Hw Hh Hlen. unfold imodel in Em. rewrite Er in Em.
  destruct (route_rec (iterm2_recorded (ic_ident c)) (ic_route c) (ic_cls c)) as [term|] eqn:E;
    [|discriminate].
  inversion Em as [Eo]. clear Em. destruct m.
  - assert (G : RectOn (kind_of (ic_ident c)) mix (ic_w c) (ic_h c)
                  (iterm2_lines_for term (ic_w c) mix (iterm_sps (ic_obs c))))
      by (eapply route_iterm2_lines_rect; eauto).
    rewrite Eo in G |- *. exact G.
  - assert (G : RectOn (kind_of (ic_ident c)) mix (ic_w c) (ic_h c)
                  (iterm2_whole_for term (ic_w c) (ic_h c) mix (hd (0, 0) (iterm_sps (ic_obs c)))))
      by (eapply route_iterm2_whole_rect; eauto).
    rewrite Eo in G |- *. exact G.
Qed.
