(** Proofs about [model/Padding.v] (C05). *)
From Coq Require Import List ZArith Bool Lia.
Import ListNotations.
From TI Require Import lib.Term lib.TermFacts lib.Rect lib.Lines model.Padding.
Open Scope Z_scope.
Local Arguments Z.eqb : simpl never.
Local Arguments Z.ltb : simpl never.
Local Arguments Z.leb : simpl never.
Local Arguments Z.div : simpl never.
Local Arguments Z.mul : simpl never.

Ltac Zify.zify_post_hook ::= Z.to_euclidean_division_equations.

(** ** dimensions *)

Lemma aligned_axis_spec m al x :
  let '(b, a) := aligned_axis m al x in
  b + a = Z.max m x - x /\ 0 <= b /\ 0 <= a
  /\ (al = 0%nat -> b = 0)
  /\ (al = 1%nat -> b = (Z.max m x - x) / 2)
  /\ ((2 <= al)%nat -> a = 0).
Proof.
  unfold aligned_axis. destruct (x <? m) eqn:E.
  - apply Z.ltb_lt in E. destruct al as [|[|al]]; cbn [align_ratio].
    + replace ((m - x) * 0 / 1) with 0 by (rewrite Z.mul_0_r; reflexivity).
      repeat split; try lia.
    + replace ((m - x) * 1) with (m - x) by lia.
      repeat split; try lia.
    + replace ((m - x) * 1 / 1) with (m - x) by (rewrite Z.mul_1_r, Z.div_1_r; reflexivity).
      repeat split; try lia.
  - apply Z.ltb_ge in E. repeat split; try lia.
Qed.

Theorem aligned_dims_spec W H ha va w h :
  let '(l, t, r, b) := aligned_dims W H ha va w h in
  l + r = Z.max W w - w /\ t + b = Z.max H h - h
  /\ 0 <= l /\ 0 <= t /\ 0 <= r /\ 0 <= b
  /\ (ha = 0%nat -> l = 0) /\ (ha = 1%nat -> l = (Z.max W w - w) / 2) /\ ((2 <= ha)%nat -> r = 0)
  /\ (va = 0%nat -> t = 0) /\ (va = 1%nat -> t = (Z.max H h - h) / 2) /\ ((2 <= va)%nat -> b = 0).
Proof.
  unfold aligned_dims.
  pose proof (aligned_axis_spec W ha w) as A. pose proof (aligned_axis_spec H va h) as B.
  destruct (aligned_axis W ha w) as [l r]. destruct (aligned_axis H va h) as [t b].
  destruct A as (A1 & A2 & A3 & A4 & A5 & A6). destruct B as (B1 & B2 & B3 & B4 & B5 & B6).
  repeat split; auto.
Qed.

Theorem padded_size_agrees W H ha va w h :
  padded_size (aligned_dims W H ha va w h) w h = aligned_padded_size W H w h.
Proof.
  pose proof (aligned_dims_spec W H ha va w h) as S.
  destruct (aligned_dims W H ha va w h) as [[[l t] r] b].
  destruct S as (S1 & S2 & _). unfold padded_size, aligned_padded_size. f_equal; lia.
Qed.

Theorem no_effect_when_small W H ha va w h :
  let '(l, t, r, b) := aligned_dims W H ha va w h in
  (W <= w -> l = 0 /\ r = 0) /\ (H <= h -> t = 0 /\ b = 0).
Proof.
  pose proof (aligned_dims_spec W H ha va w h) as S.
  destruct (aligned_dims W H ha va w h) as [[[l t] r] b].
  destruct S as (S1 & S2 & S3 & S4 & S5 & S6 & _). split; intros; lia.
Qed.

Theorem resolve_spec tw th W H :
  resolve tw th W H =
  (if W <=? 0 then Z.max (tw + W) 1 else W, if H <=? 0 then Z.max (th + H) 1 else H)
  /\ relative (fst (resolve tw th W H)) (snd (resolve tw th W H)) = false.
Proof.
  unfold resolve, relative.
  destruct (0 <? W) eqn:EW; destruct (0 <? H) eqn:EH; cbn [andb negb fst snd];
    destruct (W <=? 0) eqn:EW'; destruct (H <=? 0) eqn:EH';
    repeat match goal with
           | E : (_ <? _) = true |- _ => apply Z.ltb_lt in E
           | E : (_ <? _) = false |- _ => apply Z.ltb_ge in E
           | E : (_ <=? _) = true |- _ => apply Z.leb_le in E
           | E : (_ <=? _) = false |- _ => apply Z.leb_gt in E
           end; try lia;
    (split; [reflexivity|]);
    rewrite ?negb_false_iff, ?andb_true_iff, ?Z.ltb_lt; lia.
Qed.

Theorem old_resolve_is_resolve tw th W H : old_resolve tw th W H = resolve tw th W H.
Proof.
  rewrite (proj1 (resolve_spec tw th W H)). unfold old_resolve.
  destruct (0 <? W) eqn:EW; destruct (W <=? 0) eqn:EW';
    destruct (0 <? H) eqn:EH; destruct (H <=? 0) eqn:EH';
    repeat match goal with
           | E : (_ <? _) = true |- _ => apply Z.ltb_lt in E
           | E : (_ <? _) = false |- _ => apply Z.ltb_ge in E
           | E : (_ <=? _) = true |- _ => apply Z.leb_le in E
           | E : (_ <=? _) = false |- _ => apply Z.leb_gt in E
           end; try lia; reflexivity.
Qed.

(** the old API's alignment arithmetic is the new API's *)
Theorem old_dims_is_aligned W H ha va w h :
  (ha <= 2)%nat -> (va <= 2)%nat ->
  old_dims W H ha va w h = aligned_dims W H ha va w h.
Proof.
  intros Hha Hva. unfold old_dims, aligned_dims, aligned_axis.
  assert (A : forall M al x, (al <= 2)%nat ->
             (if x <? M then match al with
                             | O => (0, M - x)
                             | S (S O) => (M - x, 0)
                             | _ => ((M - x) / 2, M - x - (M - x) / 2)
                             end else (0, 0)) =
             (if x <? M then let p := M - x in let '(num, den) := align_ratio al in
                             (p * num / den, p - p * num / den) else (0, 0))).
  { intros M al x Hal. destruct (x <? M); [|reflexivity].
    destruct al as [|[|[|al]]]; cbn [align_ratio]; try lia.
    - rewrite Z.mul_0_r. cbn. f_equal. lia.
    - rewrite Z.mul_1_r. reflexivity.
    - rewrite Z.mul_1_r, Z.div_1_r. f_equal. lia. }
  rewrite (A W ha w Hha), (A H va h Hva). reflexivity.
Qed.

(** [Renderable.render]'s gate: padding is applied iff some dimension is non-zero, and
    padding with all-zero dimensions is the identity anyway *)
Theorem pad_gate_spec l t r b w h :
  0 <= l -> 0 <= t -> 0 <= r -> 0 <= b ->
  (pad_gate (l, t, r, b) w h = false <-> (l = 0 /\ t = 0 /\ r = 0 /\ b = 0)).
Proof.
  intros. unfold pad_gate, padded_size. rewrite negb_false_iff, andb_true_iff, !Z.eqb_eq. lia.
Qed.

Theorem pad_zero fill w R : pad fill (0, 0, 0, 0) w R = R.
Proof. reflexivity. Qed.

(** ** structure: padding a render given as lines *)

Lemma fillseg_zero fill : fillseg fill 0 = [].
Proof. destruct fill; reflexivity. Qed.

Lemma nolf_fillseg fill n : nolf (fillseg fill n).
Proof.
  destruct fill as [g|]; cbn [fillseg].
  - induction (Z.to_nat n) as [|k IH]; [constructor|]. cbn. constructor; [reflexivity|exact IH].
  - destruct (0 <? n); repeat constructor.
Qed.
Lemma nocr_fillseg fill n : nocr (fillseg fill n).
Proof.
  destruct fill as [g|]; cbn [fillseg].
  - induction (Z.to_nat n) as [|k IH]; [constructor|]. cbn. constructor; [reflexivity|exact IH].
  - destruct (0 <? n); repeat constructor.
Qed.

Lemma subst_lf_nolf rp lp l : nolf l -> subst_lf rp lp l = l.
Proof.
  induction 1 as [|x l Hx _ IH]; [reflexivity|]. cbn [subst_lf].
  destruct x; try discriminate; rewrite IH; reflexivity.
Qed.

Lemma subst_lf_app_nolf rp lp l rest : nolf l ->
  subst_lf rp lp (l ++ rest) = l ++ subst_lf rp lp rest.
Proof.
  induction 1 as [|x l Hx _ IH]; [reflexivity|]. cbn [subst_lf app].
  destruct x; try discriminate; rewrite IH; reflexivity.
Qed.

Lemma subst_joinlf rp lp : forall ls, ls <> [] -> (forall l, In l ls -> nolf l) ->
  lp ++ subst_lf rp lp (joinlf ls) ++ rp = joinlf (map (fun ln => lp ++ ln ++ rp) ls).
Proof.
  induction ls as [|l rest IH]; intros Hne Hn; [congruence|].
  destruct rest as [|l2 rest'].
  - cbn [joinlf map]. rewrite subst_lf_nolf by (apply Hn; left; reflexivity). reflexivity.
  - rewrite joinlf_cons2. cbn [map]. rewrite joinlf_cons2.
    rewrite subst_lf_app_nolf by (apply Hn; left; reflexivity). cbn [subst_lf].
    change ((lp ++ l2 ++ rp) :: map (fun ln : list tok => lp ++ ln ++ rp) rest')
      with (map (fun ln : list tok => lp ++ ln ++ rp) (l2 :: rest')).
    rewrite <- IH; [|congruence|intros x Hx; apply Hn; right; exact Hx].
    rewrite <- !app_assoc. cbn [app]. rewrite <- !app_assoc. reflexivity.
Qed.

Lemma joinlf_repeat_front seg : forall n ls, ls <> [] ->
  joinlf (repeat seg n ++ ls) = rep n (seg ++ [TLF]) ++ joinlf ls.
Proof.
  induction n as [|n IH]; intros ls Hne; [reflexivity|].
  cbn [repeat rep app]. destruct (repeat seg n ++ ls) eqn:E.
  - destruct (repeat seg n); [cbn in E; congruence|discriminate].
  - rewrite <- E. change (joinlf (seg :: repeat seg n ++ ls)) with
        (match repeat seg n ++ ls with [] => seg | _ => seg ++ TLF :: joinlf (repeat seg n ++ ls) end).
    rewrite E. rewrite <- E, IH by exact Hne. rewrite <- !app_assoc. reflexivity.
Qed.

Lemma joinlf_one_repeat seg : forall n l,
  joinlf (l :: repeat seg n) = l ++ rep n (TLF :: seg).
Proof.
  induction n as [|n IHn]; intros l.
  - cbn. rewrite app_nil_r. reflexivity.
  - cbn [repeat rep]. rewrite joinlf_cons2, (IHn seg). reflexivity.
Qed.

Lemma joinlf_repeat_back seg : forall n ls, ls <> [] ->
  joinlf (ls ++ repeat seg n) = joinlf ls ++ rep n (TLF :: seg).
Proof.
  intros n ls Hne. induction ls as [|l rest IH]; [congruence|].
  destruct rest as [|l2 rest'].
  - change ([l] ++ repeat seg n) with (l :: repeat seg n). apply joinlf_one_repeat.
  - change ((l :: l2 :: rest') ++ repeat seg n) with (l :: l2 :: (rest' ++ repeat seg n)).
    rewrite joinlf_cons2.
    change (l2 :: rest' ++ repeat seg n) with ((l2 :: rest') ++ repeat seg n).
    rewrite IH by congruence. rewrite joinlf_cons2, <- app_assoc. reflexivity.
Qed.

Lemma map_id' {A} (f : A -> A) l : (forall x, f x = x) -> map f l = l.
Proof. intros H. induction l; cbn; congruence. Qed.

Theorem pad_joinlf fill l t r b w ls :
  ls <> [] -> (forall ln, In ln ls -> nolf ln) -> 0 <= l -> 0 <= t -> 0 <= r -> 0 <= b ->
  pad fill (l, t, r, b) w (joinlf ls) = joinlf (pad_lines fill (l, t, r, b) w ls).
Proof.
  intros Hne Hn Hl Ht Hr Hb. unfold pad, pad_lines.
  set (seg := fillseg fill (l + w + r)).
  set (wrap := fun ln => fillseg fill l ++ ln ++ fillseg fill r).
  assert (Hm : map wrap ls <> []) by (destruct ls; [congruence|discriminate]).
  assert (Hmid : fillseg fill l ++ (if negb (l =? 0) || negb (r =? 0)
                                     then subst_lf (fillseg fill r) (fillseg fill l) (joinlf ls)
                                     else joinlf ls) ++ fillseg fill r
                 = joinlf (map wrap ls)).
  { destruct (negb (l =? 0) || negb (r =? 0)) eqn:Eh.
    - apply subst_joinlf; assumption.
    - apply orb_false_iff in Eh. destruct Eh as [E1 E2].
      apply negb_false_iff, Z.eqb_eq in E1, E2. subst l r. subst wrap.
      rewrite fillseg_zero, app_nil_r. cbn [app].
      rewrite map_id'; [reflexivity|]. intros x. rewrite app_nil_r. reflexivity. }
  destruct (negb (l =? 0) || negb (r =? 0) || (negb (t =? 0) || negb (b =? 0))) eqn:Eany.
  - rewrite joinlf_repeat_front by (destruct (map wrap ls); [congruence|discriminate]).
    rewrite joinlf_repeat_back by exact Hm. rewrite <- Hmid.
    rewrite <- !app_assoc. reflexivity.
  - rewrite !orb_false_iff, !negb_false_iff, !Z.eqb_eq in Eany.
    destruct Eany as [[-> ->] [-> ->]]. cbn [Z.to_nat repeat app]. rewrite app_nil_r.
    subst wrap. rewrite fillseg_zero. rewrite map_id'; [reflexivity|].
    intros x. rewrite app_nil_r. reflexivity.
Qed.

(** ** semantics: padded lines meet the contract of the padded box *)

Definition fill_evs (fill : option glyph) (r c : Z) (a : attrs) (n : Z) : list ev :=
  match fill with
  | Some g => text_evs r c g a (Z.to_nat n)
  | None => if 0 <? n then [EMove r (c + n)] else []
  end.

Lemma exec_fillseg lm fill n t : parser t = Ground -> 0 <= n ->
  exec lm t (fillseg fill n) =
  mk (row t) (col t + n) (sgr t) t (fill_evs fill (row t) (col t) (sgr t) n).
Proof.
  intros Hg Hn. destruct fill as [g|]; cbn [fillseg fill_evs].
  - rewrite exec_glyphs by exact Hg. f_equal. lia.
  - destruct (0 <? n) eqn:E.
    + apply Z.ltb_lt in E. cbn [exec fold_left]. rewrite step_cuf by exact Hg.
      unfold pos1. replace (Z.max n 1) with n by lia. reflexivity.
    + apply Z.ltb_ge in E. assert (n = 0) by lia. subst n. cbn.
      replace (col t + 0) with (col t) by lia. symmetry. apply mk_id.
Qed.

Lemma text_evs_inside r c w g a : forall n c0,
  c <= c0 -> c0 + Z.of_nat n <= c + w ->
  forallb (ev_inside r c 1 w) (text_evs r c0 g a n) = true.
Proof.
  induction n as [|n IH]; intros c0 H1 H2; [reflexivity|].
  cbn [text_evs forallb ev_inside]. rewrite IH by lia.
  rewrite andb_true_r, !andb_true_iff, !Z.leb_le, !Z.ltb_lt. lia.
Qed.

Lemma fill_evs_inside fill r c w c0 a n :
  0 <= n -> c <= c0 -> c0 + n <= c + w ->
  forallb (ev_inside r c 1 w) (fill_evs fill r c0 a n) = true.
Proof.
  intros Hn H1 H2. destruct fill as [g|]; cbn [fill_evs].
  - apply text_evs_inside; lia.
  - destruct (0 <? n); [|reflexivity]. cbn [forallb ev_inside].
    rewrite andb_true_r, !andb_true_iff, !Z.leb_le, !Z.ltb_lt. lia.
Qed.

Lemma text_evs_covers r g a : forall n c0 c,
  c0 <= c < c0 + Z.of_nat n -> covered (text_evs r c0 g a n) r c = true.
Proof.
  induction n as [|n IH]; intros c0 c H; [lia|].
  unfold covered in *. cbn [text_evs existsb ev_covers].
  destruct (Z.eq_dec c0 c) as [->|Hne].
  - rewrite !Z.eqb_refl. reflexivity.
  - rewrite IH by lia. apply orb_true_r.
Qed.

Section Pad.
Variable fill : option glyph.
Variable need : Z -> Z -> bool.
Variable w h l t r b : Z.
Variable ls : list (list tok).
Hypothesis HLR : LinesRect need w h ls.
Hypothesis Hl : 0 <= l.
Hypothesis Ht : 0 <= t.
Hypothesis Hr : 0 <= r.
Hypothesis Hb : 0 <= b.

Let W' := l + w + r.
Let H' := t + h + b.

(** cells that must be covered after padding: with a fill character everything outside
    the inner render (blank, [pad_blank]) plus what the inner render had to cover; with
    the empty fill only the latter (the rest is left untouched, [pad_untouched]) *)
Definition need' (i j : Z) : bool :=
  if (t <=? i) && (i <? t + h) && (l <=? j) && (j <? l + w) then need (i - t) (j - l)
  else match fill with Some _ => true | None => false end.

Lemma Hw : 0 < w. Proof. exact (lr_w _ _ _ _ HLR). Qed.
Lemma Hh : 0 < h.
Proof.
  pose proof (lr_len _ _ _ _ HLR). pose proof (lr_ne _ _ _ _ HLR).
  destruct ls; [congruence|cbn [length] in *; lia].
Qed.

Lemma padline_ok i : 0 <= i < H' -> LineOK W' H' i (fillseg fill W').
Proof.
  intros Hi. pose proof Hw. split; [apply nolf_fillseg|].
  intros lm s [Hg Hp] Hcol Hs. rewrite exec_fillseg by (auto; unfold W'; lia).
  rewrite Hcol, Hs. eexists. split; [reflexivity|].
  eapply forallb_inside_mono; [| | | |apply (fill_evs_inside fill (row s) lm W' lm)];
    unfold W', H' in *; try lia.
Qed.

(** the state in which the inner line runs inside its padded line *)
Definition inner_state (lm : Z) (s : term) : term :=
  mk (row s) (lm + l) adefault s (fill_evs fill (row s) lm adefault l).

Lemma wrap_exec ln i lm s :
  LineOK w h i ln -> nocr ln -> clean s -> col s = lm -> sgr s = adefault ->
  exec lm s (fillseg fill l ++ ln ++ fillseg fill r) =
  mk (row s) (lm + W') adefault s
     (fill_evs fill (row s) lm adefault l
      ++ line_evs (lm + l) (inner_state lm s) ln
      ++ fill_evs fill (row s) (lm + l + w) adefault r)
  /\ forallb (ev_inside (row s - i) (lm + l) h w) (line_evs (lm + l) (inner_state lm s) ln) = true.
Proof.
  intros (Hnl & Hok) Hnc [Hg Hp] Hcol Hs.
  rewrite exec_app, exec_fillseg by auto. rewrite Hcol, Hs.
  fold (inner_state lm s). set (s1 := inner_state lm s).
  rewrite exec_app. rewrite (exec_lm_indep lm (lm + l) ln s1 Hnl Hnc).
  destruct (Hok (lm + l) s1) as (evs & E & Hin); try reflexivity; [split; assumption|].
  rewrite (line_evs_mk _ _ _ _ _ _ _ E).
  rewrite E. rewrite exec_fillseg by auto. rewrite !mk_mk.
  subst s1. unfold inner_state. rewrite !mk_mk. cbn [row col sgr mk].
  split; [|exact Hin].
  unfold W'. replace (lm + (l + w + r)) with (lm + l + w + r) by lia. reflexivity.
Qed.

Lemma wrap_ok ln i : 0 <= i < h -> LineOK w h i ln -> nocr ln ->
  LineOK W' H' (t + i) (fillseg fill l ++ ln ++ fillseg fill r).
Proof.
  intros Hi HL Hnc. pose proof Hw. split.
  - apply nolf_app; [apply nolf_fillseg|]. apply nolf_app; [apply HL|apply nolf_fillseg].
  - intros lm s Hc Hcol Hs. destruct (wrap_exec ln i lm s HL Hnc Hc Hcol Hs) as (E & Hin).
    eexists. split; [exact E|]. rewrite !forallb_app, !andb_true_iff. split; [|split].
    + eapply forallb_inside_mono; [| | | |apply (fill_evs_inside fill (row s) lm W' lm)];
        unfold W', H' in *; try lia.
    + eapply forallb_inside_mono; [| | | |exact Hin]; unfold W', H' in *; lia.
    + eapply forallb_inside_mono;
        [| | | |apply (fill_evs_inside fill (row s) lm W' (lm + l + w))];
        unfold W', H' in *; try lia.
Qed.

Lemma pad_lines_length :
  length (pad_lines fill (l, t, r, b) w ls) = (Z.to_nat t + length ls + Z.to_nat b)%nat.
Proof. unfold pad_lines. rewrite !app_length, !repeat_length, map_length. lia. Qed.

(** the [k]-th padded line *)
Lemma pad_lines_nth k ln :
  nth_error (pad_lines fill (l, t, r, b) w ls) k = Some ln ->
  (k < Z.to_nat t /\ ln = fillseg fill W')%nat
  \/ (exists i x, k = (Z.to_nat t + i)%nat /\ nth_error ls i = Some x
                  /\ ln = fillseg fill l ++ x ++ fillseg fill r)
  \/ ((Z.to_nat t + length ls <= k)%nat /\ ln = fillseg fill W').
Proof.
  unfold pad_lines. fold W'. intros Hn.
  destruct (Nat.lt_ge_cases k (Z.to_nat t)) as [Hlt|Hge].
  - left. rewrite nth_error_app1 in Hn by (rewrite repeat_length; exact Hlt).
    apply nth_error_In, repeat_spec in Hn. auto.
  - rewrite nth_error_app2 in Hn by (rewrite repeat_length; exact Hge).
    rewrite repeat_length in Hn.
    destruct (Nat.lt_ge_cases (k - Z.to_nat t) (length ls)) as [Hlt2|Hge2].
    + right; left. rewrite nth_error_app1 in Hn by (rewrite map_length; exact Hlt2).
      destruct (nth_error ls (k - Z.to_nat t)) as [x|] eqn:Ex;
        [|apply nth_error_None in Ex; lia].
      rewrite (map_nth_error _ _ _ Ex) in Hn. inversion Hn.
      exists (k - Z.to_nat t)%nat, x. repeat split; auto. lia.
    + right; right. rewrite nth_error_app2 in Hn by (rewrite map_length; exact Hge2).
      apply nth_error_In, repeat_spec in Hn. split; [lia|exact Hn].
Qed.

Theorem pad_lines_lr : LinesRect need' W' H' (pad_lines fill (l, t, r, b) w ls).
Proof.
  pose proof Hw as Hw0. pose proof Hh as Hh0.
  pose proof (lr_len _ _ _ _ HLR) as Hlen.
  constructor.
  - unfold W'. lia.
  - rewrite pad_lines_length. unfold H'. lia.
  - unfold pad_lines. pose proof (lr_ne _ _ _ _ HLR). destruct ls; [congruence|].
    destruct (repeat (fillseg fill (l + w + r)) (Z.to_nat t)); discriminate.
  - intros k ln Hn. destruct (pad_lines_nth k ln Hn) as [[Hk ->]|[(i & x & -> & Hx & ->)|[Hk ->]]].
    + apply padline_ok. unfold H'. lia.
    + assert (Hi : (i < length ls)%nat) by (apply nth_error_Some; congruence).
      replace (Z.of_nat (Z.to_nat t + i)) with (t + Z.of_nat i) by lia.
      apply wrap_ok; [lia|apply (lr_ok _ _ _ _ HLR), Hx|].
      apply (lr_nocr _ _ _ _ HLR). eapply nth_error_In; exact Hx.
    + assert (k < length (pad_lines fill (l, t, r, b) w ls))%nat
        by (apply nth_error_Some; congruence).
      rewrite pad_lines_length in *. apply padline_ok. unfold H'. lia.
  - intros ln Hin. apply In_nth_error in Hin. destruct Hin as [k Hk].
    destruct (pad_lines_nth k ln Hk) as [[_ ->]|[(i & x & _ & Hx & ->)|[_ ->]]];
      try apply nocr_fillseg.
    apply nocr_app; [apply nocr_fillseg|]. apply nocr_app; [|apply nocr_fillseg].
    apply (lr_nocr _ _ _ _ HLR). eapply nth_error_In; exact Hx.
  - (* coverage *)
    intros i j Hi Hj Hneed. unfold need' in Hneed.
    destruct ((t <=? i) && (i <? t + h) && (l <=? j) && (j <? l + w)) eqn:Einner.
    + (* a cell of the inner render *)
      rewrite !andb_true_iff, !Z.leb_le, !Z.ltb_lt in Einner.
      destruct (lr_cov _ _ _ _ HLR (i - t) (j - l)) as (k0 & lk0 & Hk0 & Hcv); try lia; auto.
      exists (Z.to_nat t + k0)%nat, (fillseg fill l ++ lk0 ++ fillseg fill r). split.
      * unfold pad_lines. rewrite nth_error_app2 by (rewrite repeat_length; lia).
        rewrite repeat_length. replace (Z.to_nat t + k0 - Z.to_nat t)%nat with k0 by lia.
        rewrite nth_error_app1 by (rewrite map_length; apply nth_error_Some; congruence).
        exact (map_nth_error (fun ln => fillseg fill l ++ ln ++ fillseg fill r) _ _ Hk0).
      * intros lm s Hc Hcol Hs.
        assert (Hk : (k0 < length ls)%nat) by (apply nth_error_Some; congruence).
        destruct (wrap_exec lk0 (Z.of_nat k0) lm s) as (E & _); auto.
        { apply (lr_ok _ _ _ _ HLR), Hk0. }
        { apply (lr_nocr _ _ _ _ HLR). eapply nth_error_In; exact Hk0. }
        rewrite (line_evs_mk _ _ _ _ _ _ _ E). rewrite !covered_app.
        apply orb_true_iff. right. apply orb_true_iff. left.
        specialize (Hcv (lm + l) (inner_state lm s)).
        replace (row s - Z.of_nat (Z.to_nat t + k0) + i)
          with (row (inner_state lm s) - Z.of_nat k0 + (i - t)) by (cbn [inner_state row mk]; lia).
        replace (lm + j) with (lm + l + (j - l)) by lia.
        apply Hcv; try reflexivity. destruct Hc; split; assumption.
    + (* a padding cell: only required with a fill character *)
      destruct fill as [g|] eqn:Efill; [|discriminate].
      assert (Hrow : exists ln, nth_error (pad_lines (Some g) (l, t, r, b) w ls) (Z.to_nat i) = Some ln).
      { destruct (nth_error (pad_lines (Some g) (l, t, r, b) w ls) (Z.to_nat i)) eqn:E; [eauto|].
        apply nth_error_None in E. rewrite <- Efill in E. rewrite pad_lines_length in E.
        unfold H' in Hi. lia. }
      destruct Hrow as (ln & Hln). exists (Z.to_nat i), ln. split; [exact Hln|].
      intros lm s Hc Hcol Hs.
      replace (row s - Z.of_nat (Z.to_nat i) + i) with (row s) by lia.
      rewrite <- Efill in Hln.
      destruct (pad_lines_nth _ _ Hln) as [[Hk ->]|[(i0 & x & Hk & Hx & ->)|[Hk ->]]].
      * rewrite Efill.
        erewrite line_evs_mk by (apply exec_fillseg; [apply Hc|unfold W'; lia]).
        rewrite Hcol. cbn [fill_evs]. apply text_evs_covers. unfold W' in *. lia.
      * assert (Hi0 : (i0 < length ls)%nat) by (apply nth_error_Some; congruence).
        destruct (wrap_exec x (Z.of_nat i0) lm s) as (E & _); auto.
        { apply (lr_ok _ _ _ _ HLR), Hx. }
        { apply (lr_nocr _ _ _ _ HLR). eapply nth_error_In; exact Hx. }
        rewrite (line_evs_mk _ _ _ _ _ _ _ E). rewrite !covered_app. rewrite Efill. cbn [fill_evs].
        (* the row is an inner row, so the column is in the left or the right margin *)
        assert (Hrowin : t <= i < t + h) by lia.
        assert (Hcolout : j < l \/ l + w <= j).
        { destruct (Z.lt_ge_cases j l); [left; lia|].
          destruct (Z.lt_ge_cases j (l + w)); [|right; lia].
          exfalso. revert Einner.
          rewrite !andb_false_iff, !Z.leb_gt, !Z.ltb_ge. lia. }
        destruct Hcolout as [Hleft|Hright].
        -- apply orb_true_iff. left. apply text_evs_covers. lia.
        -- apply orb_true_iff. right. apply orb_true_iff. right.
           apply text_evs_covers. unfold W' in *. lia.
      * rewrite Efill.
        erewrite line_evs_mk by (apply exec_fillseg; [apply Hc|unfold W'; lia]).
        rewrite Hcol. cbn [fill_evs]. apply text_evs_covers. unfold W' in *. lia.
Qed.

(** C05 main statement: padding a line-structured render yields a render of the padded
    size that meets the render contract on the padded box *)
Theorem pad_rect : RectG need' W' H' (pad fill (l, t, r, b) w (joinlf ls)).
Proof.
  rewrite pad_joinlf; auto.
  - apply lines_rect', pad_lines_lr.
  - apply (lr_ne _ _ _ _ HLR).
  - intros ln Hin. apply In_nth_error in Hin. destruct Hin as [k Hk].
    apply (lr_ok _ _ _ _ HLR k ln Hk).
Qed.

End Pad.
