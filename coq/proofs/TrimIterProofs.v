(** * TrimIterProofs — several live [content()] generators of one canvas do not interfere (C17) *)
From Coq Require Import List ZArith Bool Lia Arith.
Import ListNotations.
From TI Require Import lib.Term lib.TermFacts model.Padding model.Trim model.TrimSpec model.TrimCanvas
     model.TrimIter proofs.TrimCalc proofs.TrimProofs proofs.TrimExamples.
Open Scope Z_scope.

(** ** the generator, run alone, yields the rows of the list-valued [content] *)

Lemma emit_consts hl (l : list row) : map (emit hl) (map SConst l) = l.
Proof. rewrite map_map. cbn [emit]. apply map_id. Qed.

Lemma map_repeat' {A B} (f : A -> B) x n : map f (repeat x n) = repeat (f x) n.
Proof. induction n; cbn; congruence. Qed.

Lemma plan_text_rows ha va W H w h lines tl tt cols rows :
  let p := plan_text ha va W H w h lines tl tt cols rows in
  map (emit (fst p)) (snd p)
  = map (fun r => (r, O)) (content_text ha va W H w h lines tl tt cols rows).
Proof.
  unfold plan_text, content_text. cbv zeta.
  destruct ((tl =? 0) && (0 =? W - tl - py_or cols W)).
  - cbn [fst snd]. rewrite !map_map. reflexivity.
  - destruct (align_pads va (H - h)) as [pt pb].
    destruct (calc_trim H h tt pt (H - tt - py_or rows H) pb) as [[[npt tit] tib] npb].
    destruct (align_pads ha (W - w)) as [pl pr].
    destruct (calc_trim W w tl pl (W - tl - py_or cols W) pr) as [[[npl til] tir] npr].
    cbn [fst snd]. rewrite !map_app, !emit_consts, !map_map, !map_repeat'. cbn [emit h_w h_pl h_pr2 h_npl h_til h_tir h_npr].
    reflexivity.
Qed.

Theorem plan_is_content cv lv rq :
  map (emit (fst (plan_of cv lv rq))) (snd (plan_of cv lv rq))
  = content cv lv (r_tl rq) (r_tt rq) (r_cols rq) (r_rows rq).
Proof.
  unfold plan_of, content.
  destruct (cv_size cv) as [W H], (cv_image_size cv) as [w h], (cv_align cv) as [ha va].
  destruct (cv_gfx cv).
  - cbn [fst snd]. apply emit_consts.
  - apply plan_text_rows.
Qed.

(** ** what a generator still has to yield *)
Definition pending (cv : canvas) (lv : live) (s : istate) : list row :=
  match s with
  | Fresh rq => content cv lv (r_tl rq) (r_tt rq) (r_cols rq) (r_rows rq)
  | Running hl todo => map (emit hl) todo
  | Done => []
  end.

Lemma step_pending cv lv s :
  fst (step cv lv s) = hd_error (pending cv lv s)
  /\ pending cv lv (snd (step cv lv s)) = tl (pending cv lv s).
Proof.
  destruct s as [rq | hl todo |]; cbn [step pending].
  - rewrite <- plan_is_content. destruct (plan_of cv lv rq) as [hl todo]. cbn [fst snd].
    destruct todo; cbn; auto.
  - destruct todo; cbn; auto.
  - cbn; auto.
Qed.

Lemma nth_error_upd_same {A} (l : list A) i x y :
  nth_error l i = Some y -> nth_error (upd i x l) i = Some x.
Proof. revert i; induction l; intros [|i] Hn; cbn in *; try discriminate; auto. Qed.

Lemma nth_error_upd_other {A} (l : list A) i j x :
  i <> j -> nth_error (upd i x l) j = nth_error l j.
Proof. revert i j; induction l; intros [|i] [|j] Hn; cbn; auto; try congruence. Qed.

Lemma nth_error_tl {A} (l : list A) k : nth_error (tl l) k = nth_error l (S k).
Proof. destruct l; cbn; auto. destruct k; auto. Qed.

(** the [k]-th thing generator [i] receives is the [k]-th element of what it had pending,
    whatever the other generators do in between *)
Lemma run_received cv lv sched : forall sts i s,
  nth_error sts i = Some s ->
  received i (run cv lv sts sched)
  = map (nth_error (pending cv lv s)) (seq 0 (count_occ Nat.eq_dec sched i)).
Proof.
  induction sched as [|j rest IH]; intros sts i s Hs; [reflexivity|].
  cbn [run count_occ].
  destruct (nth_error sts j) as [sj|] eqn:Hj.
  - destruct (step cv lv sj) as [o s'] eqn:Hst.
    pose proof (step_pending cv lv sj) as [Ho Hp]. rewrite Hst in Ho, Hp. cbn [fst snd] in Ho, Hp.
    unfold received. cbn [filter fst].
    destruct (Nat.eq_dec j i) as [->|Hne].
    + rewrite Nat.eqb_refl. cbn [map snd].
      assert (sj = s) by congruence. subst sj.
      fold (received i (run cv lv (upd i s' sts) rest)).
      rewrite (IH _ i s' (nth_error_upd_same _ _ _ _ Hs)).
      cbn [seq map]. rewrite Ho. f_equal.
      rewrite <- seq_shift, map_map. apply map_ext. intros k. rewrite Hp. apply nth_error_tl.
    + destruct (Nat.eqb j i) eqn:E; [apply Nat.eqb_eq in E; contradiction|].
      fold (received i (run cv lv (upd j s' sts) rest)).
      apply IH. rewrite nth_error_upd_other; auto.
  - destruct (Nat.eq_dec j i) as [->|Hne]; [congruence|]. apply IH; auto.
Qed.

(** ** NON-INTERFERENCE.  For every set of requests on one canvas and EVERY schedule of
    [next()] calls, what request [i] receives at its [k]-th [next()] is what it would receive
    were it the only request, run on its own: a function of (canvas, its own sub-rectangle) *)
Theorem noninterference cv lv rqs sched i rq :
  nth_error rqs i = Some rq ->
  received i (run cv lv (map Fresh rqs) sched)
  = map (alone cv lv rq) (seq 0 (count_occ Nat.eq_dec sched i)).
Proof.
  intros Hi. apply (run_received cv lv sched (map Fresh rqs) i (Fresh rq)).
  rewrite nth_error_map, Hi. reflexivity.
Qed.

Fixpoint somes {A} (l : list (option A)) : list A :=
  match l with [] => [] | Some x :: r => x :: somes r | None :: r => somes r end.

Lemma somes_nth_seq {A} (l : list A) n :
  somes (map (nth_error l) (seq 0 n)) = firstn n l.
Proof.
  revert n; induction l as [|x l IH]; intros n.
  - rewrite firstn_nil. induction n as [|n IHn] using nat_ind; [reflexivity|].
    rewrite seq_S, map_app. cbn. clear IHn.
    assert (H : forall m k, somes (map (nth_error (@nil A)) (seq k m) ++ [nth_error (@nil A) (k + m)%nat]) = []).
    { induction m; intros k; cbn. - destruct (k + 0)%nat; reflexivity.
      - destruct k; cbn; rewrite <- ?Nat.add_succ_comm; apply (IHm (S _)). }
    apply (H n O).
  - destruct n; [reflexivity|]. cbn [seq map somes nth_error firstn]. f_equal.
    rewrite <- seq_shift, map_map. cbn [nth_error]. apply IH.
Qed.

(** the ROWS request [i] is handed (the [StopIteration]s dropped) are a prefix of its own
    [content]: the first [n] rows when it was advanced [n] times; all of them, once, when it
    was advanced at least as often as it has rows *)
Theorem received_rows cv lv rqs sched i rq :
  nth_error rqs i = Some rq ->
  somes (received i (run cv lv (map Fresh rqs) sched))
  = firstn (count_occ Nat.eq_dec sched i)
           (content cv lv (r_tl rq) (r_tt rq) (r_cols rq) (r_rows rq)).
Proof.
  intros Hi. rewrite (noninterference _ _ _ _ _ _ Hi). unfold alone. apply somes_nth_seq.
Qed.

(** ** with the main theorem: every interleaved request on a text canvas is handed the crop of
    ITS sub-rectangle *)
Definition text_canvas (W H w h : Z) (ha va : nat) (imgs : list (list cell)) : canvas :=
  {| cv_gfx := false; cv_size := (W, H); cv_image_size := (w, h); cv_align := (ha, va);
     cv_lines := canvas_lines W H w h ha va imgs |}.

Theorem interleaved_requests_are_crops W H w h ha va imgs lv rqs sched i tl tt cols rows :
  canvas_ok W H w h imgs ->
  nth_error rqs i = Some {| r_tl := tl; r_tt := tt; r_cols := Some cols; r_rows := Some rows |} ->
  0 <= tl -> 0 <= tt -> 0 < cols -> 0 < rows -> tl + cols <= W -> tt + rows <= H ->
  (Z.to_nat rows <= count_occ Nat.eq_dec sched i)%nat ->
  let got := map fst (somes (received i (run (text_canvas W H w h ha va imgs) lv (map Fresh rqs) sched))) in
  Z.of_nat (length got) = rows
  /\ map vis_row got
     = crop (Z.to_nat tl) (Z.to_nat tt) (Z.to_nat cols) (Z.to_nat rows)
            (map vis_row (canvas_lines W H w h ha va imgs))
  /\ Forall (fun r => Z.of_nat (length (vis_row r)) = cols /\ end_attrs r = adefault
                      /\ text_only r = true) got.
Proof.
  intros Hok Hi ? ? ? ? ? ? Hn got. subst got.
  rewrite (received_rows _ _ _ _ _ _ Hi). cbn [r_tl r_tt r_cols r_rows].
  unfold text_canvas, content. cbn [cv_gfx cv_size cv_image_size cv_align cv_lines].
  pose proof (content_is_crop W H w h ha va imgs Hok tl tt cols rows) as Hc.
  cbv zeta in Hc. destruct Hc as (Hlen & Hcrop & Hall); try assumption.
  rewrite firstn_all2 by (rewrite map_length; lia).
  rewrite map_map. cbn [fst]. rewrite map_id. auto.
Qed.

(** ** the excluded design is refuted: layout stored on the canvas, overwritten by the
    request that started last.  Canvas of [TrimExamples] (4x2-cell image centred in 8x4), the
    two halves of the canvas requested at once and advanced in lock-step (what urwid does
    when a widget is laid over the middle): the left request's SECOND image row is produced
    with the right request's layout *)
Definition ex_cv : canvas := text_canvas 8 4 4 2 1 1 ex_imgs.
Definition ex_lv : live := {| lv_image_size := (4, 2); lv_disguise := O |}.
Definition ex_left : req := {| r_tl := 0; r_tt := 0; r_cols := Some 4; r_rows := Some 4 |}.
Definition ex_right : req := {| r_tl := 4; r_tt := 0; r_cols := Some 4; r_rows := Some 4 |}.
Definition ex_lockstep : list nat := [0; 1; 0; 1; 0; 1; 0; 1]%nat.

Example shared_layout_refuted :
  (* the code's design: both requests get their own rows *)
  received 0 (run ex_cv ex_lv [Fresh ex_left; Fresh ex_right] ex_lockstep)
  = map (alone ex_cv ex_lv ex_left) [0; 1; 2; 3]%nat
  (* the layout on the canvas: the left request is handed a row of the right one *)
  /\ received 0 (run_shared ex_cv ex_lv hori0 [Fresh ex_left; Fresh ex_right] ex_lockstep)
     <> map (alone ex_cv ex_lv ex_left) [0; 1; 2; 3]%nat
  /\ nth_error (received 0 (run_shared ex_cv ex_lv hori0 [Fresh ex_left; Fresh ex_right] ex_lockstep)) 2
     = Some (alone ex_cv ex_lv ex_right 2)
  /\ alone ex_cv ex_lv ex_right 2 <> alone ex_cv ex_lv ex_left 2
  (* run one after the other, the excluded design cannot be told from the code's *)
  /\ run_shared ex_cv ex_lv hori0 [Fresh ex_left; Fresh ex_right] [0; 0; 0; 0; 0; 1; 1; 1; 1; 1]%nat
     = run ex_cv ex_lv [Fresh ex_left; Fresh ex_right] [0; 0; 0; 0; 0; 1; 1; 1; 1; 1]%nat.
Proof.
  repeat split; try (vm_compute; reflexivity); vm_compute; discriminate.
Qed.

(** non-vacuity: a schedule over three requests with different layouts, one of them abandoned
    half-way, one advanced past its end *)
Example ex_three_requests :
  let rqs := [ex_left; ex_right; {| r_tl := 3; r_tt := 1; r_cols := Some 2; r_rows := Some 2 |}] in
  let sched := [2; 0; 1; 1; 2; 0; 2; 2; 1]%nat in
  received 2 (run ex_cv ex_lv (map Fresh rqs) sched)
  = [ Some ([TBg red; TFg green; TChar GUpper; TSgr0; TFg blue; TChar GLower; TSgr0; TNul; TNul], O);
      Some ([TBg red; TFg green; TChar GUpper; TSgr0; TFg blue; TChar GLower; TSgr0; TNul; TNul], O);
      None; None ]
  /\ length (somes (received 0 (run ex_cv ex_lv (map Fresh rqs) sched))) = 2%nat.
Proof. split; vm_compute; reflexivity. Qed.
