(** Proofs about model/DrawUse.v: for EVERY behaviour of the frame source, EVERY position
    and kind of a failing stream call and EVERY interrupted sleep, [draw] (still and
    animated), [render] and [__str__] never enter renderable-defined code with finalized
    render data, and the finalizer is entered exactly once over the life of the data.
    The variant that finalizes a one-off render's data before writing it is refuted.
    Lemmas only. *)
From Coq Require Import List Bool Arith Lia.
Import ListNotations.
From TI Require Import model.DrawUse.

(** nothing finalized yet, every entry so far saw live data *)
Definition live (s : dst) : Prop :=
  fz s = false /\ forallb (fun e => negb (snd e)) (evs s) = true /\ count_fin (evs s) = 0.
(** finalized by exactly one finalizer entry, every entry saw live data *)
Definition done (s : dst) : Prop :=
  fz s = true /\ forallb (fun e => negb (snd e)) (evs s) = true /\ count_fin (evs s) = 1.

Lemma live_d0 : live d0.
Proof. repeat split. Qed.

Lemma enter_live : forall h s, h <> HFinalize -> live s -> live (enter h s).
Proof.
  intros h s Hh (Hf & Ha & Hc). unfold enter, live, count_fin in *. simpl. rewrite Hf. simpl.
  repeat split; auto. destruct h; simpl; auto; congruence.
Qed.

Lemma finalize_live : forall s, live s -> done (finalize s).
Proof.
  intros s (Hf & Ha & Hc). unfold finalize, done, count_fin in *. rewrite Hf. simpl.
  repeat split; auto.
Qed.
Lemma finalize_done : forall s, done s -> done (finalize s).
Proof. intros s (Hf & Ha & Hc). unfold finalize. rewrite Hf. repeat split; assumption. Qed.

Section Any.
Variable F : faults.

Definition rlive (r : res) : Prop := live (state_of r).

Lemma io_live : forall s, live s -> rlive (io F s).
Proof.
  intros s H. unfold io, rlive. destruct (f_io F) as [[k e]|]; [destruct (Nat.eqb k (ioc s))|]; exact H.
Qed.
Lemma slp_live : forall s, live s -> rlive (slp F s).
Proof.
  intros s H. unfold slp, rlive. destruct (f_sleep F) as [j|]; [destruct (Nat.eqb j (slc s))|]; exact H.
Qed.
Lemma bind_live : forall r f, rlive r -> (forall s, live s -> rlive (f s)) -> rlive (r >>= f).
Proof. intros [s|s|k s] f Hr Hf; simpl; auto. Qed.
Lemma write_flush_live : forall s, live s -> rlive (write_flush F s).
Proof. intros s H. unfold write_flush. apply bind_live; [apply io_live; exact H|apply io_live]. Qed.

Lemma guarded_write_live : forall b s, live s -> rlive (guarded_write F b s).
Proof.
  intros b s H. unfold guarded_write. pose proof (write_flush_live s H) as Hw.
  destruct (write_flush F s) as [s1|s1|[|] s1]; unfold rlive in *; simpl in *; auto.
  - destruct b; simpl; apply enter_live; auto; discriminate.
  - apply enter_live; auto; discriminate.
Qed.

Lemma next_live : forall p s, live s ->
  match next p s with NFrame s1 | NStop s1 | NErr s1 => live s1 end.
Proof.
  intros [e|e|] s H; simpl; try destruct e; auto; apply enter_live; auto; discriminate.
Qed.

Lemma frames_loop_live : forall l s, live s -> rlive (frames_loop F l s).
Proof.
  induction l as [|p t IH]; intros s H; simpl.
  - apply slp_live; exact H.
  - pose proof (next_live p s H) as Hn. destruct (next p s) as [s1|s1|s1].
    + apply bind_live; [apply bind_live; [apply bind_live|]|].
      * apply slp_live; exact Hn.
      * intros s2 H2. apply guarded_write_live. apply enter_live; auto; discriminate.
      * apply write_flush_live.
      * exact IH.
    + apply slp_live; exact Hn.
    + exact Hn.
Qed.

Lemma fin_block_state : forall r f, exists r', f (state_of r) = r' /\ state_of (fin_block r f) = state_of r'.
Proof.
  intros r f. exists (f (state_of r)). split; [reflexivity|]. unfold fin_block.
  destruct (f (state_of r)) as [s'|s'|k s']; simpl; auto. destruct r; reflexivity.
Qed.

Lemma animate_live : forall l s, live s -> rlive (animate F l s).
Proof.
  intros l s H. unfold animate.
  assert (K : forall (r : res) (ffw : bool), rlive r ->
              rlive (fin_block (match r with RExc XKI s' => RNorm s' | _ => r end)
                               (fun s' => if ffw then write_flush F s' else RNorm s'))).
  { intros r ffw Hr. unfold rlive.
    destruct (fin_block_state (match r with RExc XKI s' => RNorm s' | _ => r end)
                              (fun s' => if ffw then write_flush F s' else RNorm s')) as (r' & E & ->).
    subst r'.
    assert (Hs : live (state_of (match r with RExc XKI s' => RNorm s' | _ => r end))).
    { destruct r as [s1|s1|[|] s1]; exact Hr. }
    destruct ffw; [apply write_flush_live; exact Hs|exact Hs]. }
  match goal with |- rlive (let '(r, ffw) := ?X in _) => set (X0 := X) end.
  assert (HX : rlive (fst X0)).
  { unfold X0. destruct l as [|p t]; [exact H|].
    pose proof (next_live p s H) as Hn. destruct (next p s) as [s1|s1|s1]; try exact Hn.
    pose proof (guarded_write_live true s1 Hn) as Hg.
    destruct (guarded_write F true s1) as [s2|s2|k s2]; try exact Hg.
    pose proof (write_flush_live s2 Hg) as Hw.
    destruct (write_flush F s2) as [s3|s3|k s3]; try exact Hw.
    simpl fst. apply frames_loop_live. exact Hw. }
  destruct X0 as [r ffw]. apply K. exact HX.
Qed.

Lemma still_live : forall l s, live s -> rlive (still F false l s).
Proof.
  intros l s H. unfold still.
  assert (H1 : live (enter HRender s)) by (apply enter_live; auto; discriminate).
  destruct l as [|[e|e|] t]; try exact H1. apply guarded_write_live. exact H1.
Qed.

(** when the operation ends the data is live (only if the clean-up's own stream calls
    raised) or finalized once; in the end it is finalized once *)
Lemma draw_call_state : forall nested anim l,
  let r := draw_call F false nested anim l d0 in live (state_of r) \/ done (state_of r).
Proof.
  intros nested anim l. unfold draw_call.
  set (body := if anim then animate F l d0 else still F false l d0).
  assert (Hb : rlive body) by (unfold body; destruct anim; [apply animate_live|apply still_live]; exact live_d0).
  pose proof (write_flush_live (state_of body) Hb) as Hw.
  destruct nested.
  - destruct (fin_block_state body (fun s' => fin_block (write_flush F s') (fun s'' => RNorm (finalize s'')))) as (r' & E & ->).
    subst r'.
    destruct (fin_block_state (write_flush F (state_of body)) (fun s'' => RNorm (finalize s''))) as (r2 & E2 & ->).
    subst r2. simpl. right. apply finalize_live. exact Hw.
  - destruct (fin_block_state body (fun s' => write_flush F s' >>= (fun s'' => RNorm (finalize s'')))) as (r' & E & ->).
    subst r'.
    destruct (write_flush F (state_of body)) as [s1|s1|k s1]; simpl; auto.
    right. apply finalize_live. exact Hw.
Qed.

(** with the nested clean-up the data is finalized when [draw] ends, whatever failed *)
Lemma draw_call_nested_done : forall anim l, done (state_of (draw_call F false true anim l d0)).
Proof.
  intros anim l. unfold draw_call.
  set (body := if anim then animate F l d0 else still F false l d0).
  assert (Hb : rlive body) by (unfold body; destruct anim; [apply animate_live|apply still_live]; exact live_d0).
  pose proof (write_flush_live (state_of body) Hb) as Hw.
  destruct (fin_block_state body (fun s' => fin_block (write_flush F s') (fun s'' => RNorm (finalize s'')))) as (r' & E & ->).
  subst r'.
  destruct (fin_block_state (write_flush F (state_of body)) (fun s'' => RNorm (finalize s''))) as (r2 & E2 & ->).
  subst r2. simpl. apply finalize_live. exact Hw.
Qed.

Theorem drawio_entries_ok : forall nested anim l, entries_ok (evs (snd (run_draw F false nested anim l))) = true.
Proof.
  intros nested anim l. unfold run_draw. simpl snd.
  assert (D : done (finalize (state_of (draw_call F false nested anim l d0)))).
  { destruct (draw_call_state nested anim l) as [H|H]; [apply finalize_live|apply finalize_done]; exact H. }
  destruct D as (_ & Ha & Hc). unfold entries_ok. rewrite Ha, Hc. reflexivity.
Qed.

Lemma write_flush_not_ret : forall s s1, write_flush F s <> RRet s1.
Proof.
  intros s s1. unfold write_flush, io. destruct (f_io F) as [[k e]|]; simpl;
    repeat (match goal with |- context [Nat.eqb ?a ?b] => destruct (Nat.eqb a b) end; simpl); discriminate.
Qed.

(** every exit of [draw] that is not an exception has finalized the data itself *)
Theorem drawio_returns_finalized : forall nested anim l,
  match fst (run_draw F false nested anim l) with
  | RExc _ _ => True
  | RNorm s | RRet s => fz s = true
  end.
Proof.
  intros nested anim l. unfold run_draw. simpl fst. destruct nested.
  - pose proof (draw_call_nested_done anim l) as (Hf & _).
    destruct (draw_call F false true anim l d0); auto.
  - unfold draw_call.
    set (body := if anim then animate F l d0 else still F false l d0).
    assert (Z : forall s, fz (finalize s) = true).
    { intros s. unfold finalize. destruct (fz s) eqn:Q; [exact Q|reflexivity]. }
    unfold fin_block. destruct (write_flush F (state_of body)) as [s1|s1|k s1] eqn:E; simpl; auto.
    + destruct body; simpl; auto.
    + exfalso. exact (write_flush_not_ret _ _ E).
Qed.

(** with the nested clean-up: EVERY exit of [draw] has finalized the data itself *)
Theorem drawio_nested_always_finalized : forall anim l,
  fz (state_of (fst (run_draw F false true anim l))) = true.
Proof. intros anim l. unfold run_draw. simpl fst. apply (draw_call_nested_done anim l). Qed.

Theorem renderio_entries_ok : forall l, entries_ok (evs (snd (run_render F l))) = true.
Proof.
  intros l. unfold run_render, render_call. simpl snd.
  assert (H1 : live (enter HRender d0)) by (apply enter_live; [discriminate|exact live_d0]).
  set (r := match l with PFrame _ :: _ => RNorm (enter HRender d0) | _ => RExc XExc (enter HRender d0) end).
  assert (Hr : state_of r = enter HRender d0) by (unfold r; destruct l as [|[e|e|] t]; reflexivity).
  destruct (fin_block_state r (fun s' => RNorm (finalize s'))) as (r' & E & ->). subst r'. simpl.
  rewrite Hr. pose proof (finalize_done _ (finalize_live _ H1)) as (_ & Ha & Hc).
  unfold entries_ok. rewrite Ha, Hc. reflexivity.
Qed.
End Any.

(** * The refuted variant, and non-vacuity *)

(** finalizing a one-off render's data before writing the frame: the first stream call is
    interrupted, the interrupted-draw hook is handed finalized data *)
Example early_finalize_refuted :
  let F := {| f_io := Some (0, XKI); f_sleep := None |} in
  rev (evs (snd (run_draw F true false false [PFrame true])))
    = [(HRender, false); (HFinalize, false); (HInterrupt, true)]
  /\ entries_ok (evs (snd (run_draw F true false false [PFrame true]))) = false.
Proof. vm_compute. auto. Qed.
(** ... although its finalizer runs exactly once on every path *)
Lemma early_finalize_once : forall F l,
  count_fin (evs (snd (run_draw F true false false l))) = 1.
Proof.
  intros F l. unfold run_draw, draw_call, still. simpl snd. cbv beta iota.
  assert (D : done (finalize (enter HRender d0))).
  { apply finalize_live. apply enter_live; [discriminate|apply live_d0]. }
  assert (Keep : forall s, done s -> forall r, (r = io F s \/ r = write_flush F s) -> fz (state_of r) = true /\ count_fin (evs (state_of r)) = 1).
  { intros s (Hf & _ & Hc) r [->| ->]; unfold write_flush, io; destruct (f_io F) as [[k e]|]; simpl;
      repeat match goal with |- context [Nat.eqb ?a ?b] => destruct (Nat.eqb a b); simpl end; auto. }
  assert (G : forall s, done s -> fz (state_of (guarded_write F false s)) = true
                                   /\ count_fin (evs (state_of (guarded_write F false s))) = 1).
  { intros s Hs. unfold guarded_write. destruct (Keep s Hs (write_flush F s) (or_intror eq_refl)) as [A B].
    destruct (write_flush F s) as [s1|s1|[|] s1]; simpl in *; auto. }
  set (body := match l with PFrame _ :: _ => guarded_write F false (finalize (enter HRender d0))
                       | _ => RExc XExc (finalize (enter HRender d0)) end).
  assert (Hb : fz (state_of body) = true /\ count_fin (evs (state_of body)) = 1).
  { unfold body. destruct l as [|[e|e|] t]; try solve [destruct D as (A & _ & B); simpl; auto]. apply G. exact D. }
  destruct (fin_block_state body (fun s' => write_flush F s' >>= (fun s'' => RNorm (finalize s'')))) as (r' & E & ->).
  subst r'. destruct Hb as [Hf Hc].
  assert (W : fz (state_of (write_flush F (state_of body))) = true
              /\ count_fin (evs (state_of (write_flush F (state_of body)))) = 1).
  { unfold write_flush, io; destruct (f_io F) as [[k e]|]; simpl;
      repeat match goal with |- context [Nat.eqb ?a ?b] => destruct (Nat.eqb a b); simpl end; auto. }
  destruct W as [Wf Wc].
  assert (Z : forall s, fz s = true -> finalize s = s) by (intros s Q; unfold finalize; rewrite Q; reflexivity).
  destruct (write_flush F (state_of body)) as [s1|s1|k s1]; simpl in *; rewrite ?Z; auto; rewrite Z; auto.
Qed.

(** non-vacuity: an animation of three frames whose second frame's write fails; the hook and
    the frame-clearing callback are entered, with live data, the finalizer once at the end *)
Example animated_write_fault :
  let F := {| f_io := Some (4, XExc); f_sleep := None |} in
  rev (evs (snd (run_draw F false false true [PFrame true; PFrame true; PFrame true; PStop false])))
    = [(HRender, false); (HRender, false); (HClear, false); (HInterrupt, false); (HFinalize, false)].
Proof. vm_compute. reflexivity. Qed.
(** a stream failure inside [draw]'s own clean-up leaves finalization to garbage collection *)
Example cleanup_fault_left_to_gc :
  let F := {| f_io := Some (2, XExc); f_sleep := None |} in
  fz (state_of (fst (run_draw F false false false [PFrame true]))) = false
  /\ entries_ok (evs (snd (run_draw F false false false [PFrame true]))) = true
  /\ fz (state_of (fst (run_draw F false true false [PFrame true]))) = true
  /\ evs (snd (run_draw F false true false [PFrame true])) = evs (snd (run_draw F false false false [PFrame true])).
Proof. vm_compute. auto. Qed.
