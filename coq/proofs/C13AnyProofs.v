(** C13, round 4: soundness of the analysis for faults ANYWHERE, including clean-up blocks
    ([model/C13Any.v]).

    - [evalA_anyfault]: every run of the direct semantics [evalA] (faults inside clean-up
      blocks too; only a [tcsetattr] of a clean-up block cannot fail before its effect) is a
      run of [Eff.eval cfg_all] on the program [anyfault p], with the same outcome and state;
    - [analyze_any_sound]: hence [analyze_any nv p = true] (the verified collecting
      interpreter of [lib/Eff.v], soundness [EffSound.analyze_sound]) implies that EVERY run
      of [evalA] from a clean state ends with the terminal attributes as found at entry;
    - [evalA_includes_eval]: [evalA] has all the runs of [Eff.eval cfg_all] (the statement is
      strictly stronger than the round-2 theorems);
    - the shapes of clean-up that the analysis rejects / accepts, with a concrete run of
      [evalA] that leaves the attributes modified for a rejected one (non-vacuity). *)
From Coq Require Import List Bool Arith.
Import ListNotations.
From TI Require Import lib.Eff lib.EffSound model.C13Any.

Lemma attr_put_fault_other : forall o k s, is_attr_put o = true -> fault o k s = fault Other k s.
Proof. intros o k s H. destruct o; try discriminate H. destruct r; try discriminate H. reflexivity. Qed.

Lemma eval_atomic_norm : forall o s, eval cfg_all false (atomic_put o) s ONorm (eff o s).
Proof.
  intros o s. unfold atomic_put.
  apply E_SeqN with (s1 := eff o s).
  - change ONorm with (after_finally ONorm ONorm).
    apply E_Finally with (s1 := s); [apply E_Skip | apply E_Op].
  - change (eff o s) with (eff Other (eff o s)) at 2. apply E_Op.
Qed.

Lemma eval_atomic_after : forall o k s, is_attr_put o = true ->
  eval cfg_all false (atomic_put o) s (ORaise k) (fault o k (eff o s)).
Proof.
  intros o k s H. unfold atomic_put. rewrite (attr_put_fault_other o k _ H).
  apply E_SeqN with (s1 := eff o s).
  - change ONorm with (after_finally ONorm ONorm).
    apply E_Finally with (s1 := s); [apply E_Skip | apply E_Op].
  - apply E_FaultBefore; reflexivity.
Qed.

(** every run with faults anywhere is a run of the transformed program *)
Theorem evalA_iso : forall c p s o s', evalA c p s o s' -> eval cfg_all false (iso c p) s o s'.
Proof.
  intros c p s o s' H. induction H; cbn [iso].
  - apply E_Skip.
  - destruct (c && is_attr_put o) eqn:E; [apply eval_atomic_norm | apply E_Op].
  - unfold fails_before in H. apply negb_true_iff in H. rewrite H. apply E_FaultBefore; reflexivity.
  - destruct (c && is_attr_put o) eqn:E.
    + apply andb_true_iff in E. apply eval_atomic_after. apply E.
    + apply E_FaultAfter; reflexivity.
  - eapply E_SeqN; eassumption.
  - apply E_SeqA; assumption.
  - apply E_ChoiceL; assumption.
  - apply E_ChoiceR; assumption.
  - apply E_Loop0.
  - eapply E_LoopS; eassumption.
  - apply E_LoopA; assumption.
  - eapply E_Finally; [eassumption | exact IHevalA2].
  - apply E_ExceptPass; assumption.
  - eapply E_ExceptKI; [eassumption | assumption | exact IHevalA2].
  - eapply E_ExceptExc; [eassumption | assumption | exact IHevalA2].
  - apply E_MissKI; assumption.
  - apply E_MissExc; assumption.
  - apply E_Raise.
  - apply E_Return.
  - apply E_IfT; assumption.
  - apply E_IfF; assumption.
  - apply E_SetVar.
  - apply E_Call; assumption.
Qed.

Corollary evalA_anyfault : forall p s o s', evalA false p s o s' -> eval cfg_all false (anyfault p) s o s'.
Proof. intros. apply evalA_iso. assumption. Qed.

(** soundness: the analysis accepts => the attributes are restored on every run, whatever
    raises wherever (clean-up blocks included) *)
Theorem analyze_any_sound : forall nv p, analyze_any nv p = true ->
  forall vs, length vs = nv ->
  forall o s', evalA false p (init vs) o s' -> tmod s' = false.
Proof.
  intros nv p Ha vs Hl o s' He. unfold analyze_any in Ha.
  pose proof (analyze_sound _ _ _ _ Ha vs Hl o s' (evalA_anyfault _ _ _ _ He)) as H.
  unfold attrs_restored_any in H. destruct (tmod s'); [discriminate H | reflexivity].
Qed.

(** [evalA] has every run of the round-2 semantics (whatever its clean-up flag) *)
Theorem evalA_includes_eval : forall c p s o s', eval cfg_all c p s o s' -> evalA c p s o s'.
Proof.
  intros c p s o s' H. induction H.
  - apply A_Skip.
  - apply A_Op.
  - apply A_FaultBefore. reflexivity.
  - apply A_FaultAfter.
  - eapply A_SeqN; eassumption.
  - apply A_SeqA; assumption.
  - apply A_ChoiceL; assumption.
  - apply A_ChoiceR; assumption.
  - apply A_Loop0.
  - eapply A_LoopS; eassumption.
  - apply A_LoopA; assumption.
  - eapply A_Finally; eassumption.
  - apply A_ExceptPass; assumption.
  - eapply A_ExceptKI; eassumption.
  - eapply A_ExceptExc; eassumption.
  - apply A_MissKI; assumption.
  - apply A_MissExc; assumption.
  - apply A_Raise.
  - apply A_Return.
  - apply A_IfT; assumption.
  - apply A_IfF; assumption.
  - apply A_SetVar.
  - apply A_Call; assumption.
Qed.

(** what the exemption is, exactly: inside a clean-up block a [tcsetattr] always takes
    effect ... *)
Lemma cleanup_put_takes_effect : forall x s o s',
  evalA true (Op (Put RTermios x)) s o s' -> tmod s' = negb (get x (snaps s)).
Proof.
  intros x s o s' H. inversion H; subst.
  - reflexivity.
  - discriminate.
  - destruct k; reflexivity.
Qed.
(** ... and every other call of a clean-up block may fail without taking effect *)
Lemma cleanup_call_may_fail : forall o k s, is_attr_put o = false ->
  evalA true (Op o) s (ORaise k) (fault o k s).
Proof. intros o k s H. apply A_FaultBefore. unfold fails_before. rewrite H. reflexivity. Qed.

(** * The shapes of clean-up, and non-vacuity *)

Definition prologue : list prog := [Op (GetAttr 0); Op (GetAttr 1); Op (MutAttr 1)].

(** a renderable-defined hook runs BEFORE the restore in the [finally] (the data is finalized
    while the attributes are still modified) *)
Definition hook_before_restore : prog :=
  sq (prologue ++ [TryFinally true (sq [Op (SetAttr 1); Op Render])
                                   (sq [Op Finalize; Op (SetAttr 0)])]).
(** the same, dressed up: the final writes are protected, the hook still precedes the restore *)
Definition hook_before_restore_nested : prog :=
  sq (prologue ++ [TryFinally true (sq [Op (SetAttr 1); Op Render])
                     (TryFinally true (sq [Op (Write WCtl); Op Flush])
                                      (sq [Op Finalize; Op (SetAttr 0)]))]).
(** stream writes / a flush precede the restore, unprotected *)
Definition write_before_restore : prog :=
  sq (prologue ++ [TryFinally true (sq [Op (SetAttr 1); Op Render])
                                   (sq [Op (Write WCtl); Op Flush; Op (SetAttr 0); Op Finalize])]).
(** the restore is the first step of the clean-up *)
Definition restore_first : prog :=
  sq (prologue ++ [TryFinally true (sq [Op (SetAttr 1); Op Render])
                                   (sq [Op (SetAttr 0); Op (Write WCtl); Op Flush; Op Finalize])]).
(** the fallible steps are the body of an inner [try] whose [finally] restores *)
Definition restore_protected : prog :=
  sq (prologue ++ [TryFinally true (sq [Op (SetAttr 1); Op Render])
                     (TryFinally true (sq [Op (Write WCtl); Op Flush])
                        (TryFinally true (Op (SetAttr 0)) (Op Finalize)))]).

Example analysis_any_shapes :
  analyze_any 0 hook_before_restore = false /\
  analyze_any 0 hook_before_restore_nested = false /\
  analyze_any 0 write_before_restore = false /\
  analyze_any 0 restore_first = true /\
  analyze_any 0 restore_protected = true.
Proof. vm_compute. repeat split. Qed.

(** the round-2 analysis (no fault inside clean-up blocks) accepts all five: the dimension
    was not exercised *)
Example round2_analysis_accepts_all :
  forallb (fun p => analyze cfg_all 0 p attrs_restored_any)
          [hook_before_restore; hook_before_restore_nested; write_before_restore; restore_first; restore_protected]
  = true.
Proof. vm_compute. reflexivity. Qed.

(** a concrete run of [evalA] for a rejected shape: the hook raises in the clean-up, the
    operation ends with that exception and the attributes modified *)
Example hook_before_restore_run :
  exists s', evalA false hook_before_restore (init []) (ORaise Exc) s' /\ tmod s' = true.
Proof.
  eexists. split.
  - unfold hook_before_restore, prologue, sq. cbn [app fold_right].
    eapply A_SeqN; [apply A_Op|].
    eapply A_SeqN; [apply A_Op|].
    eapply A_SeqN; [apply A_Op|].
    eapply A_SeqA; [|reflexivity].
    change (ORaise Exc) with (after_finally ONorm (ORaise Exc)).
    eapply A_Finally.
    + eapply A_SeqN; [apply A_Op|]. eapply A_SeqN; [apply A_Op|]. apply A_Skip.
    + eapply A_SeqA; [|reflexivity]. apply A_FaultBefore. reflexivity.
  - vm_compute. reflexivity.
Qed.

(** and one for an accepted shape in which the same fault happens: the hypothesis of
    [analyze_any_sound] is satisfiable by an interesting run (the final flush of the clean-up
    raises KeyboardInterrupt while the attributes are modified; they are restored) *)
Example restore_protected_run :
  exists s1 s', evalA false (sq prologue) (init []) ONorm s1 /\
    evalA false (TryFinally true (sq [Op (SetAttr 1); Op Render])
                   (TryFinally true (sq [Op (Write WCtl); Op Flush])
                      (TryFinally true (Op (SetAttr 0)) (Op Finalize)))) s1 (ORaise KI) s'
    /\ tmod s' = false.
Proof.
  eexists. eexists. split; [|split].
  - unfold prologue, sq. cbn [fold_right].
    eapply A_SeqN; [apply A_Op|]. eapply A_SeqN; [apply A_Op|]. eapply A_SeqN; [apply A_Op|]. apply A_Skip.
  - change (ORaise KI) with (after_finally ONorm (ORaise KI)).
    eapply A_Finally.
    + unfold sq. cbn [fold_right]. eapply A_SeqN; [apply A_Op|]. eapply A_SeqN; [apply A_Op|]. apply A_Skip.
    + change (ORaise KI) with (after_finally (ORaise KI) ONorm).
      eapply A_Finally.
      * unfold sq. cbn [fold_right]. eapply A_SeqN; [apply A_Op|].
        eapply A_SeqA; [|reflexivity]. apply (A_FaultBefore _ Flush KI). reflexivity.
      * change ONorm with (after_finally ONorm ONorm).
        eapply A_Finally; apply A_Op.
  - vm_compute. reflexivity.
Qed.
