(** * IterHashProofs — frame caching through a function of the key is invisible EXACTLY
      when that function is injective on the settings that can occur (C09)

    [model/IterHash.v]: the render iterator with the cache validity test
    [h (stored key) = h (current key)] for an arbitrary [h].

    - [htrace_is_trace]: if [h] is injective on valid keys, the hashed-key iterator IS the
      iterator of [model/Iter.v] (same trace from every state reachable from a
      construction), hence
    - [hashed_cache_transparent]: with such an [h], for a deterministic renderable, two
      iterators that differ at most in the [cache] argument yield the same trace under
      every history;
    - [hashed_cache_needs_injective]: conversely, for EVERY [h] and every two distinct
      valid keys with [h k = h k'] there is a deterministic renderable and a six-operation
      history on which the caching iterator and the non-caching one yield different
      frames: render frame 0 under [k], move the settings to [k'], seek back to frame 0;
    - [py_hashed_cache_refuted]: any key hash computed from CPython's [hash] of the
      argument value — however the component hashes are combined — is such an [h]
      ([hash(-1) = hash(-2)]); [py_int_hash_collisions]: so are values that differ by
      [2^61 - 1];
    - [hashed_cache_refuted]: a concrete instance on the instrumented renderable of the
      correspondence, by evaluation. *)
From Coq Require Import List ZArith Bool Lia.
Import ListNotations.
From TI Require Import model.Iter model.IterSpec model.IterTie model.IterHash
     proofs.IterProofs proofs.IterProofs2 proofs.IterCacheProofs.
Open Scope Z_scope.

Lemma size_eqb_eq : forall a b : size, size_eqb a b = true <-> a = b.
Proof.
  intros [a1 a2] [b1 b2]. unfold size_eqb. cbn [fst snd].
  rewrite andb_true_iff, !Z.eqb_eq. split; [intros [-> ->]; reflexivity|intros H; inversion H; auto].
Qed.

Lemma dur_eqb_eq : forall a b, dur_eqb a b = true <-> a = b.
Proof.
  intros [|x] [|y]; cbn; try (split; [discriminate|discriminate]); try tauto.
  rewrite Z.eqb_eq. split; [intros ->; reflexivity|intros H; inversion H; auto].
Qed.

Lemma key_eqb_eq : forall e r a, key_eqb e r a = true <-> entry_key e = (d_size r, d_dur r, a).
Proof.
  intros e r a. unfold key_eqb, entry_key.
  rewrite !andb_true_iff, size_eqb_eq, dur_eqb_eq, Z.eqb_eq.
  split; [intros [[-> ->] ->]; reflexivity|intros H; inversion H; auto].
Qed.

Section Hash.
  Variable RS : Type.
  Variable render : RS -> Z -> whence -> size -> dur -> Z -> rres * RS.
  Variable n : option Z.
  Variable term : size.
  Variable h : key -> Z.

  Notation state := (state RS).
  Notation hbody := (hbody RS render n h).
  Notation hpass_end := (hpass_end RS render n h).
  Notation hnext := (hnext RS render n h).
  Notation hstep := (hstep RS render n term h).
  Notation htrace := (htrace RS render n term h).
  Notation hrun := (hrun RS render n term h).

  (** [h] separates any two valid keys *)
  Definition inj_valid : Prop :=
    forall k k', key_valid k = true -> key_valid k' = true -> h k = h k' -> k = k'.

  (** ** every key an iterator ever holds is valid (for every [h]) *)

  Definition kvalid (s : state) : Prop :=
    dur_valid (d_dur (rd s)) = true /\
    forall i e, cache s i = Some e -> dur_valid (ce_dur e) = true.

  (** what an operation may do to the duration and the cache *)
  Definition kext (s s' : state) : Prop :=
    d_dur (rd s') = d_dur (rd s) /\
    forall i e, cache s' i = Some e -> cache s i = Some e \/ ce_dur e = d_dur (rd s).

  Lemma kext_refl : forall s, kext s s.
  Proof. split; auto. Qed.
  Lemma kext_trans : forall a b c, kext a b -> kext b c -> kext a c.
  Proof.
    intros a b c [H1 H2] [H3 H4]. split; [congruence|].
    intros i e He. destruct (H4 i e He) as [Hb|Hb]; [auto|right; congruence].
  Qed.
  Lemma kext_valid : forall s s', kvalid s -> kext s s' -> kvalid s'.
  Proof.
    intros s s' [V1 V2] [E1 E2]. split; [congruence|].
    intros i e He. destruct (E2 i e He) as [Hb|Hb]; [eauto|congruence].
  Qed.

  Lemma close_kext : forall s, kext s (close RS s).
  Proof. intros s. unfold close. destruct (closed s); split; auto. Qed.

  Lemma deliver_kext : forall s f, kext s (fst (deliver RS n s f)).
  Proof.
    intros s f. unfold deliver. cbn [fst]. split; [|cbn; auto]. cbn.
    destruct (definite n); [reflexivity|]. destruct (_ || _); reflexivity.
  Qed.

  Lemma render_frame_kext : forall s k, kext s (fst (render_frame RS render n s k)).
  Proof.
    intros s k. unfold render_frame.
    destruct (render _ _ _ _ _ _) as [[f| |e] r'].
    - eapply kext_trans; [|apply deliver_kext].
      destruct (cached s); [|split; auto]. split; [reflexivity|].
      intros i e. cbn. unfold upd. destruct (i =? k); [|auto].
      intros H; inversion H; subst; clear H. right. reflexivity.
    - destruct (definite n); cbn [fst];
        (eapply kext_trans; [|apply close_kext]); split; auto.
    - cbn [fst]. eapply kext_trans; [|apply close_kext]. split; auto.
  Qed.

  Lemma hbody_kext : forall s k, kext s (fst (hbody s k)).
  Proof.
    intros s k. unfold IterHash.hbody.
    destruct (if cached s then match cache s k with Some e => if hkey_eqb h e (rd s) (args s) then Some (ce_frame e) else None | None => None end else None).
    - apply deliver_kext.
    - apply render_frame_kext.
  Qed.

  Lemma hpass_end_kext : forall s, kext s (fst (hpass_end s)).
  Proof.
    intros s. unfold IterHash.hpass_end.
    set (s1 := set_rd RS s {| fo := 0; wh := wh (rd s); d_size := d_size (rd s); d_dur := d_dur (rd s) |}).
    set (s2 := if 0 <? g_loop s1 then set_pub_loop RS (set_g_loop RS s1 (g_loop s1 - 1)) (g_loop s1 - 1) else s1).
    assert (H2 : kext s s2) by (unfold s2; destruct (0 <? g_loop s1); split; auto).
    destruct (g_loop s2 =? 0); cbn [fst].
    - eapply kext_trans; [exact H2|apply close_kext].
    - eapply kext_trans; [exact H2|apply hbody_kext].
  Qed.

  Lemma hnext_kext : forall s, kext s (fst (hnext s)).
  Proof.
    intros s. unfold IterHash.hnext. destruct (closed s); [apply kext_refl|].
    destruct (phase s).
    - destruct (g_loop s =? 0); [apply close_kext|].
      destruct (_ <? _); [apply hbody_kext|apply hpass_end_kext].
    - destruct (_ <? _); [apply hbody_kext|apply hpass_end_kext].
  Qed.

  Lemma kvalid_hstep : forall s o, kvalid s -> kvalid (fst (hstep s o)).
  Proof.
    intros s o H.
    assert (Hs : forall s', kext s s' -> kvalid s') by (intros s'; apply kext_valid, H).
    destruct o; cbn.
    - apply Hs, hnext_kext.
    - unfold seek. destruct (closed s); [exact H|]. destruct n.
      + destruct (_ && _); [apply Hs; split; auto|exact H].
      + destruct (_ || _); [exact H|apply Hs; split; auto].
    - unfold set_duration. destruct (closed s); [exact H|]. destruct d.
      + split; [reflexivity|apply H].
      + destruct (ms <=? 0) eqn:E; [exact H|]. split; [|apply H].
        cbn. apply Z.ltb_lt. apply Z.leb_gt in E. exact E.
    - unfold set_padding. destruct (closed s); [exact H|]. apply Hs. split; auto.
    - unfold set_render_args. destruct (closed s); [exact H|]. destruct a; [|exact H].
      apply Hs. split; auto.
    - unfold set_render_size. destruct (closed s); [exact H|]. apply Hs. split; auto.
    - apply Hs, close_kext.
    - apply Hs, close_kext.
  Qed.

  Lemma mk_kvalid : forall c rs0 s,
      mk RS n term c rs0 = inl s -> dur_valid (c_dur c) = true -> kvalid s.
  Proof.
    intros c rs0 s. unfold mk.
    destruct (match n with Some k => k <? 2 | None => false end); [discriminate|].
    destruct (c_loops c =? 0); [discriminate|].
    destruct (negb (cache_valid (c_cache c))); [discriminate|].
    destruct (c_args c) as [a|]; [|discriminate]. intros H V; inversion H; subst; clear H.
    split; [exact V|]. cbn. discriminate.
  Qed.

  (** ** with an injective [h] the hashed-key iterator is the iterator *)

  Hypothesis Hinj : inj_valid.

  Lemma hkey_eqb_is_key_eqb : forall e r a,
      dur_valid (ce_dur e) = true -> dur_valid (d_dur r) = true ->
      hkey_eqb h e r a = key_eqb e r a.
  Proof.
    intros e r a V1 V2. unfold hkey_eqb.
    destruct (key_eqb e r a) eqn:E.
    - apply key_eqb_eq in E. rewrite E. apply Z.eqb_refl.
    - apply Z.eqb_neq. intros Hh. apply Hinj in Hh; [|exact V1|exact V2].
      apply key_eqb_eq in Hh. congruence.
  Qed.

  Lemma hbody_is_body : forall s k, kvalid s -> hbody s k = body RS render n s k.
  Proof.
    intros s k [V1 V2]. unfold IterHash.hbody, body.
    destruct (cached s); [|reflexivity].
    destruct (cache s k) as [e|] eqn:E; [|reflexivity].
    rewrite hkey_eqb_is_key_eqb; [reflexivity|eauto|exact V1].
  Qed.

  Lemma hpass_end_is_pass_end : forall s, kvalid s -> hpass_end s = pass_end RS render n s.
  Proof.
    intros s V. unfold IterHash.hpass_end, pass_end.
    set (s1 := set_rd RS s {| fo := 0; wh := wh (rd s); d_size := d_size (rd s); d_dur := d_dur (rd s) |}).
    set (s2 := if 0 <? g_loop s1 then set_pub_loop RS (set_g_loop RS s1 (g_loop s1 - 1)) (g_loop s1 - 1) else s1).
    destruct (g_loop s2 =? 0); [reflexivity|]. apply hbody_is_body.
    apply (kext_valid s); [exact V|]. unfold s2. destruct (0 <? g_loop s1); split; auto.
  Qed.

  Lemma hstep_is_step : forall s o, kvalid s -> hstep s o = step RS render n term s o.
  Proof.
    intros s o V. destruct o; try reflexivity. cbn. unfold IterHash.hnext, next.
    destruct (closed s); [reflexivity|]. destruct (phase s).
    - destruct (g_loop s =? 0); [reflexivity|].
      destruct (_ <? _); [apply hbody_is_body, V|apply hpass_end_is_pass_end, V].
    - destruct (_ <? _); [apply hbody_is_body, V|apply hpass_end_is_pass_end, V].
  Qed.

  Theorem htrace_is_trace : forall ops s,
      kvalid s -> htrace s ops = trace RS render n term s ops.
  Proof.
    induction ops as [|o ops IH]; intros s V; [reflexivity|]. cbn.
    pose proof (kvalid_hstep s o V) as V'. rewrite hstep_is_step in * by exact V.
    destruct (step RS render n term s o) as [s' x]. rewrite IH by exact V'. reflexivity.
  Qed.

  (** caching validated through an injective [h] is invisible *)
  Theorem hashed_cache_transparent : forall c c' rs0 s s' ops,
      render_det RS render -> same_but_cache c c' -> dur_valid (c_dur c) = true ->
      mk RS n term c rs0 = inl s -> mk RS n term c' rs0 = inl s' ->
      htrace s ops = htrace s' ops.
  Proof.
    intros c c' rs0 s s' ops Hd Hc V Hs Hs'.
    assert (V' : dur_valid (c_dur c') = true)
      by (destruct Hc as (_ & _ & E & _); rewrite <- E; exact V).
    rewrite !htrace_is_trace by (eapply mk_kvalid; eassumption).
    eapply cache_transparent; eassumption.
  Qed.
End Hash.

(** ** the witness of the converse direction *)

Definition out6 (tr : list (out * Z)) : list Z :=
  match nth 5 tr (OStop, 0) with (OFrame f, _) => f_output f | _ => [] end.
Definition echo (o : Z) (k : key) : list Z :=
  let '(sz, d, a) := k in
  [o; fst sz; snd sz; match d with DDynamic => 0 | DStatic _ => 1 end;
   match d with DDynamic => 0 | DStatic ms => ms end; a].

Lemma wrap_output : forall p psz f, f_output (wrap_frame p psz f) = rf_output f.
Proof. intros. unfold wrap_frame. destruct (size_eqb _ _); reflexivity. Qed.

Lemma echo_inj : forall o k k', key_valid k = true -> key_valid k' = true -> echo o k = echo o k' -> k = k'.
Proof.
  intros o [[[w hh] d] a] [[[w' hh'] d'] a'] V V' E. unfold echo in E. cbn [fst snd] in E.
  inversion E; subst. destruct d, d'; try discriminate; try reflexivity; congruence.
Qed.

Section App.
  Variable RS : Type.
  Variable render : RS -> Z -> whence -> size -> dur -> Z -> rres * RS.
  Variable n : option Z.
  Variable term : size.
  Variable h : key -> Z.
  Lemma htrace_app : forall a b s,
      htrace RS render n term h s (a ++ b)
      = htrace RS render n term h s a ++ htrace RS render n term h (hrun RS render n term h s a) b.
  Proof.
    induction a as [|o a IH]; intros b s; [reflexivity|]. cbn [app htrace hrun fold_left].
    destruct (hstep RS render n term h s o) as [s' x] eqn:E. cbn [fst]. rewrite IH. reflexivity.
  Qed.
  Lemma htrace_length : forall a s, length (htrace RS render n term h s a) = length a.
  Proof.
    induction a as [|o a IH]; intros s; [reflexivity|]. cbn [htrace].
    destruct (hstep RS render n term h s o) as [s' x]. cbn [length]. rewrite IH. reflexivity.
  Qed.
End App.

Definition collide_prefix (k' : key) : list op :=
  [Next; SetSize (fst (fst k')); SetDuration (snd (fst k')); SetArgs (Some (snd k')); Seek 0 WStart].


Local Arguments wrap_frame : simpl never.

Lemma collide_cached : forall (h : key -> Z) term k k' s,
  key_valid k' = true -> h k = h k' ->
  mk unit (Some 2) term (collide_cfg k true) tt = inl s ->
  out6 (htrace unit echo_render (Some 2) term h s (collide_ops k')) = echo 0 k.
Proof.
  intros h term [[[w hh] d] a] [[[w' hh'] d'] a'] s V Hh Hs.
  unfold mk, collide_cfg in Hs. cbn in Hs. inversion Hs; subst; clear Hs.
  change (collide_ops (w', hh', d', a')) with (collide_prefix (w', hh', d', a') ++ [Next]).
  rewrite htrace_app. unfold out6. rewrite app_nth2 by (rewrite htrace_length; cbn; lia).
  rewrite htrace_length. change (5 - length (collide_prefix (w', hh', d', a')))%nat with 0%nat.
  unfold collide_prefix, key_valid in *. cbn [fst snd] in *.
  match goal with |- context [hrun ?a ?b ?c ?d ?e ?f ?g] => remember (hrun a b c d e f g) as s5 eqn:E end.
  destruct d' as [|[|p|p]]; try discriminate V.
  - vm_compute in E. subst s5. 
    unfold htrace, hstep, hnext, hbody, hkey_eqb, entry_key. cbn. rewrite Hh, Z.eqb_refl. cbn. apply wrap_output.
  - vm_compute in E. subst s5. 
    unfold htrace, hstep, hnext, hbody, hkey_eqb, entry_key. cbn. rewrite Hh, Z.eqb_refl. cbn. apply wrap_output.
Qed.

Lemma collide_uncached : forall (h : key -> Z) term k k' s,
  key_valid k' = true ->
  mk unit (Some 2) term (collide_cfg k false) tt = inl s ->
  out6 (htrace unit echo_render (Some 2) term h s (collide_ops k')) = echo 0 k'.
Proof.
  intros h term [[[w hh] d] a] [[[w' hh'] d'] a'] s V Hs.
  unfold mk, collide_cfg in Hs. cbn in Hs. inversion Hs; subst; clear Hs.
  change (collide_ops (w', hh', d', a')) with (collide_prefix (w', hh', d', a') ++ [Next]).
  rewrite htrace_app. unfold out6. rewrite app_nth2 by (rewrite htrace_length; cbn; lia).
  rewrite htrace_length. change (5 - length (collide_prefix (w', hh', d', a')))%nat with 0%nat.
  unfold collide_prefix, key_valid in *. cbn [fst snd] in *.
  match goal with |- context [hrun ?a ?b ?c ?d ?e ?f ?g] => remember (hrun a b c d e f g) as s5 eqn:E end.
  destruct d' as [|[|p|p]]; try discriminate V.
  - vm_compute in E. subst s5.
    unfold htrace, hstep, hnext, hbody. cbn. apply wrap_output.
  - vm_compute in E. subst s5.
    unfold htrace, hstep, hnext, hbody. cbn. apply wrap_output.
Qed.

Lemma key_eq_dec : forall k k' : key, {k = k'} + {k <> k'}.
Proof.
  intros [[[w hh] d] a] [[[w' hh'] d'] a'].
  destruct (Z.eq_dec w w'), (Z.eq_dec hh hh'), (Z.eq_dec a a');
    try (right; intros E; inversion E; contradiction).
  destruct d as [|x], d' as [|y]; try (right; intros E; inversion E; fail).
  - left; subst; reflexivity.
  - destruct (Z.eq_dec x y); [left; subst; reflexivity|right; intros E; inversion E; contradiction].
Qed.

(** ** the converse: a collision between two valid keys is observable *)

Lemma echo_det : render_det unit echo_render.
Proof. intros r1 r2 o w sz d a. reflexivity. Qed.

Lemma collide_cfgs_same : forall k, same_but_cache (collide_cfg k true) (collide_cfg k false).
Proof. intros k. unfold same_but_cache. cbn. repeat split; reflexivity. Qed.

Lemma collide_mk : forall term k b, exists s, mk unit (Some 2) term (collide_cfg k b) tt = inl s.
Proof. intros term k b. unfold mk, collide_cfg. cbn. destruct b; eexists; reflexivity. Qed.

(** for EVERY [h]: if two distinct valid keys have the same [h], then on the deterministic
    renderable [echo_render] (two frames) the six-operation history [collide_ops k'] —
    next; set_render_size; set_frame_duration; set_render_args; seek(0); next — run on an
    iterator constructed with the settings [k] yields different frames with [cache=True]
    and with [cache=False] *)
Theorem hashed_cache_needs_injective : forall (h : key -> Z) k k' term,
    key_valid k = true -> key_valid k' = true -> k <> k' -> h k = h k' ->
    exists s s',
      mk unit (Some 2) term (collide_cfg k true) tt = inl s /\
      mk unit (Some 2) term (collide_cfg k false) tt = inl s' /\
      htrace unit echo_render (Some 2) term h s (collide_ops k')
      <> htrace unit echo_render (Some 2) term h s' (collide_ops k').
Proof.
  intros h k k' term V V' Hne Hh.
  destruct (collide_mk term k true) as [s Hs]. destruct (collide_mk term k false) as [s' Hs'].
  exists s, s'. split; [exact Hs|]. split; [exact Hs'|]. intros E.
  apply (f_equal out6) in E.
  rewrite (collide_cached h term k k' s V' Hh Hs), (collide_uncached h term k k' s' V' Hs') in E.
  apply Hne. eapply echo_inj; eassumption.
Qed.

(** frame caching validated through [h] is invisible for every deterministic renderable and
    every history IF AND ONLY IF [h] separates the valid keys *)
Theorem hashed_cache_transparent_iff : forall (h : key -> Z),
    inj_valid h <->
    (forall RS render n term c c' rs0 s s' ops,
        render_det RS render -> same_but_cache c c' -> dur_valid (c_dur c) = true ->
        mk RS n term c rs0 = inl s -> mk RS n term c' rs0 = inl s' ->
        htrace RS render n term h s ops = htrace RS render n term h s' ops).
Proof.
  intros h. split.
  - intros Hinj RS render n term c c' rs0 s s' ops. apply hashed_cache_transparent, Hinj.
  - intros H k k' V V' Hh.
    destruct (key_eq_dec k k') as [E|Hne]; [exact E|exfalso].
    destruct (hashed_cache_needs_injective h k k' (80, 30) V V' Hne Hh) as (s & s' & Hs & Hs' & Hd).
    apply Hd. eapply H; [apply echo_det|apply collide_cfgs_same| |exact Hs|exact Hs'].
    destruct k as [[sz d] a]. exact V.
Qed.

(** ** CPython's [hash] is not injective on argument values *)

Lemma py_int_hash_collisions :
  py_int_hash (-1) = py_int_hash (-2) /\ py_int_hash 0 = py_int_hash py_modulus /\
  py_int_hash 5 = py_int_hash (5 + py_modulus) /\ py_int_hash (-7) = py_int_hash (-7 - py_modulus).
Proof. vm_compute. repeat split; reflexivity. Qed.

(** a value and the value [2^61 - 1] further from zero always collide *)
Lemma py_int_hash_period : forall x, 0 <= x -> py_int_hash (x + py_modulus) = py_int_hash x.
Proof.
  intros x Hx. unfold py_int_hash.
  assert (Hm : 0 < py_modulus) by (vm_compute; reflexivity).
  rewrite !Z.rem_mod_nonneg by lia.
  replace (x + py_modulus) with (x + 1 * py_modulus) by lia. rewrite Z.mod_add by lia. reflexivity.
Qed.

(** non-negative values below the modulus — every component of a rendered size an image
    iterator can produce — have pairwise distinct hashes *)
Lemma py_int_hash_small_inj : forall x y,
    0 <= x < py_modulus -> 0 <= y < py_modulus -> py_int_hash x = py_int_hash y -> x = y.
Proof.
  intros x y Hx Hy. unfold py_int_hash. rewrite !Z.rem_small by lia.
  destruct (x =? -1) eqn:Ex; [apply Z.eqb_eq in Ex; lia|].
  destruct (y =? -1) eqn:Ey; [apply Z.eqb_eq in Ey; lia|]. auto.
Qed.

(** whatever function [g] combines the component hashes into the hash of the key: a key
    hash that sees the argument value only through CPython's [hash] makes the cache visible *)
Theorem py_hashed_cache_refuted : forall (g : Z * Z * Z * Z -> Z) term,
    let h := fun k => g (arg_hashed_key k) in
    exists k k' s s',
      k <> k' /\
      mk unit (Some 2) term (collide_cfg k true) tt = inl s /\
      mk unit (Some 2) term (collide_cfg k false) tt = inl s' /\
      htrace unit echo_render (Some 2) term h s (collide_ops k')
      <> htrace unit echo_render (Some 2) term h s' (collide_ops k').
Proof.
  intros g term h.
  set (k := ((1, 1), DStatic 1, -1) : key). set (k' := ((1, 1), DStatic 1, -2) : key).
  assert (Hne : k <> k') by (unfold k, k'; intros E; inversion E).
  destruct (hashed_cache_needs_injective h k k' term eq_refl eq_refl Hne eq_refl) as (s & s' & H).
  exists k, k', s, s'. split; [exact Hne|exact H].
Qed.

(** a concrete instance on the instrumented renderable of the correspondence (3 frames, 2 loops,
    cache=True, arguments -1): one pass, [set_render_args(-2)], the next pass.  With the
    hashed key the second pass serves the frames rendered with -1 (field 5 of the output);
    without a cache — and with the key compared by value — it renders with -2 *)
Definition ex_hash (k : key) : Z :=
  let '(w, hh, d, a) := arg_hashed_key k in w + 100 * hh + 10000 * d + 1000000 * a.
Definition ex_hcfg (cache : bool) : config :=
  {| c_loops := 2; c_cache := CBool cache; c_size := (2, 1); c_dur := DStatic 7; c_args := Some (-1);
     c_pad := PExact 0 0 0 0; c_owns := true; c_frame := 0 |}.
Definition ex_hops : list op := [Next; Next; Next; SetArgs (Some (-2)); Next; Next; Next].
Definition args_seen (tr : list (out * Z)) : list Z :=
  map (fun x => match fst x with OFrame f => nth 5 (f_output f) 0 | _ => 0 end) tr.

Example hashed_cache_refuted :
  match mk vr_state (Some 3) term8030 (ex_hcfg true) t_rs0, mk vr_state (Some 3) term8030 (ex_hcfg false) t_rs0 with
  | inl s, inl s' =>
    let render := vr_render (Some 3) 5 [] [] false in
    args_seen (htrace vr_state render (Some 3) term8030 ex_hash s ex_hops) = [-1; -1; -1; 0; -1; -1; -1] /\
    args_seen (htrace vr_state render (Some 3) term8030 ex_hash s' ex_hops) = [-1; -1; -1; 0; -2; -2; -2] /\
    args_seen (trace vr_state render (Some 3) term8030 s ex_hops) = [-1; -1; -1; 0; -2; -2; -2]
  | _, _ => False
  end.
Proof. vm_compute. repeat split; reflexivity. Qed.

(** non-vacuity: a function separating several distinct valid keys exists (among them the
    two that CPython's [hash] confuses), so the hypothesis of [hashed_cache_transparent] is
    not contradictory; comparing the keys by value ([Iter.key_eqb]) is the instance that
    separates ALL keys *)
Example inj_valid_nonvacuous :
  exists h : key -> Z, forall k k',
      In k [((1, 1), DStatic 1, -1); ((1, 1), DStatic 1, -2); ((2, 1), DDynamic, 0)] ->
      In k' [((1, 1), DStatic 1, -1); ((1, 1), DStatic 1, -2); ((2, 1), DDynamic, 0)] ->
      h k = h k' -> k = k'.
Proof.
  exists (fun k => let '(sz, d, a) := k in fst sz + 10 * snd sz + 100 * a + match d with DDynamic => 5000 | _ => 0 end).
  intros k k' Hk Hk'. cbn in Hk, Hk'.
  repeat (destruct Hk as [<-|Hk]; [|]); try contradiction;
    repeat (destruct Hk' as [<-|Hk']; [|]); try contradiction; cbn; intros E; try reflexivity; try discriminate.
Qed.
