(** C12 — end to end: for the terminal of a well-formed PROFILE (model/QuerySpec.v) whose
    replies arrive as units, in order and in time, the two-phase getters of model/Query.v
    return exactly what the specification side says for that profile, and leave nothing
    unread.  Composition of the read-loop lemmas (QueryGetProofs), the parser lemmas
    (QueryParseProofs) and a "no CSI inside a printed reply" argument. *)
From Coq Require Import Ascii String List ZArith Bool Arith Lia.
Import ListNotations.
From TI Require Import model.Query model.QuerySpec proofs.QueryReadProofs proofs.QueryParseProofs
  proofs.QueryGetProofs.
Open Scope Z_scope.

(** ** byte strings through which no CSI (ESC [) can be seen *)

(** [x] neither contains CSI nor can complete or start one with its neighbours *)
Definition transparent (x : list byte) : Prop :=
  forall rest, contains CSI (x ++ rest) = contains CSI rest.

Definition head_is (v : byte) (s : list byte) : bool :=
  match s with y :: _ => y =? v | [] => false end.

Lemma contains_cons x s :
  contains CSI (x :: s) = ((x =? 27) && head_is 91 s) || contains CSI s.
Proof.
  cbn [contains]. unfold starts_with, CSI. cbn [strip]. f_equal.
  rewrite (Z.eqb_sym 27 x). destruct (x =? 27); [|reflexivity]. cbn [andb].
  destruct s as [|y s]; [reflexivity|]. cbn [head_is]. rewrite (Z.eqb_sym 91 y).
  destruct (y =? 91); reflexivity.
Qed.

Lemma transparent_nil : transparent [].
Proof. intros rest. reflexivity. Qed.

Lemma transparent_app a b : transparent a -> transparent b -> transparent (a ++ b).
Proof. intros Ha Hb rest. rewrite <- app_assoc, Ha, Hb. reflexivity. Qed.

Definition not_esc (b : byte) : bool := negb (b =? 27).

Lemma transparent_noesc a : forallb not_esc a = true -> transparent a.
Proof.
  induction a as [|x a IH]; intros H rest; [reflexivity|].
  cbn in H. apply andb_true_iff in H as [Hx Ha]. cbn [app].
  rewrite contains_cons. unfold not_esc in Hx. apply negb_true_iff in Hx. rewrite Hx.
  cbn [andb orb]. now apply IH.
Qed.

(** ESC followed by a byte that is neither "[" nor ESC *)
Lemma transparent_esc y : y <> 91 -> y <> 27 -> transparent [27; y].
Proof.
  intros H1 H2 rest. cbn [app]. rewrite !contains_cons. cbn [head_is].
  apply Z.eqb_neq in H1, H2. rewrite H1, H2. rewrite andb_false_r. reflexivity.
Qed.
